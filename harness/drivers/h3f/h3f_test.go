//go:build verif

// Package h3f is the C19 correspondence driver: HTTP/3 field sections through the real
// parseHeaders / parseTrailers / requestFromHeaders / updateResponseFromHeaders and the real request,
// response and trailer writers (+ a real QPACK encoder/decoder pair).
//
// Line protocol (every byte string is hex; a field is <name>=<value>, suffixed by '^' when the name
// has a byte >= 0x80 and strings.ToLower(name) != name — the one fact about Unicode tables the model
// takes from Go):
//
//	table <probe>…                      => tok=<bitmap> val=<bitmap> host=<bitmap> bad=<0/1 per probe> canon=<hex,…> ua=<hex>
//	hdr req|resp <lim> q0|q1 <field>…   => ok p= m= a= s= st= pr= cl= h=<hdrs> | E:<class>
//	req <lim> q0|q1 <field>…            => ok m= proto= host= uri= cl= h= tr= | E:<class>
//	rsp <lim> q0|q1 <field>…            => ok code= cl= h= tr= | E:<class>
//	trl <lim> q0|q1 <field>…            => ok h= | E:<class>
//	qpack <field>…                      => ok | MISMATCH …
//	reqwrite lim= m= url= proto= host= cl= body= gz= T= H= => new=E | x=<uri>,<scheme>,<uhost>,<puny|!> | w=ok <field>…|E:<class> | p=<req result>
//	trlwrite lim= T=<hdrs>              => w=none|ok <field>…|E:… | p=<trl result>
//	resphdr lim= st= H=<hdrs>           => w=ok <field>… | p=<rsp result>          (responseWriter.writeHeader alone)
//	respwrite lim= st= pre= body= post= => w=<frames> | p=<rsp result> | t=<trl result>
//
// <hdrs> = key:v,v;key:v… sorted by key (Go map order never leaks), '-' when empty.
package h3f

import (
	"encoding/hex"
	"fmt"
	"io"
	"net/http"
	"os"
	"sort"
	"strconv"
	"strings"
	"testing"

	"github.com/quic-go/qpack"
	"golang.org/x/net/http/httpguts"

	"github.com/refraction-networking/uquic/http3"
	"github.com/refraction-networking/uquic/internal/verifharness/vh"
)

type field = qpack.HeaderField

func hx(s string) string { return hex.EncodeToString([]byte(s)) }
func unhx(s string) string {
	b, err := hex.DecodeString(s)
	if err != nil {
		return "\x00BADHEX"
	}
	return string(b)
}

func isASCII(s string) bool {
	for i := 0; i < len(s); i++ {
		if s[i] >= 0x80 {
			return false
		}
	}
	return true
}

func fmtField(f field) string {
	t := hx(f.Name) + "=" + hx(f.Value)
	if !isASCII(f.Name) && strings.ToLower(f.Name) != f.Name {
		t += "^"
	}
	return t
}

func fmtFields(fs []field) string {
	parts := make([]string, len(fs))
	for i, f := range fs {
		parts[i] = fmtField(f)
	}
	return strings.Join(parts, " ")
}

func parseFields(toks []string) []field {
	fs := make([]field, 0, len(toks))
	for _, t := range toks {
		t = strings.TrimSuffix(t, "^")
		i := strings.IndexByte(t, '=')
		if i < 0 {
			continue
		}
		fs = append(fs, field{Name: unhx(t[:i]), Value: unhx(t[i+1:])})
	}
	return fs
}

func fmtHdrs(h http.Header) string {
	if len(h) == 0 {
		return "-"
	}
	keys := make([]string, 0, len(h))
	for k := range h {
		keys = append(keys, k)
	}
	sort.Strings(keys)
	parts := make([]string, 0, len(keys))
	for _, k := range keys {
		vs := make([]string, len(h[k]))
		for i, v := range h[k] {
			vs[i] = hx(v)
		}
		parts = append(parts, hx(k)+":"+strings.Join(vs, ","))
	}
	return strings.Join(parts, ";")
}

// parseHdrs reads <hdrs>; keys are used verbatim (not canonicalised).
func parseHdrs(s string) http.Header {
	h := http.Header{}
	if s == "-" || s == "" {
		return h
	}
	for _, kv := range strings.Split(s, ";") {
		i := strings.IndexByte(kv, ':')
		if i < 0 {
			continue
		}
		k := unhx(kv[:i])
		var vs []string
		if kv[i+1:] != "" {
			for _, v := range strings.Split(kv[i+1:], ",") {
				if v == "_" { // explicit empty string
					vs = append(vs, "")
				} else {
					vs = append(vs, unhx(v))
				}
			}
		}
		h[k] = vs
	}
	return h
}

// fmtHdrsOp writes <hdrs> for an op line: value "" is written '_' so that `k:` means "no values".
func fmtHdrsOp(keys []string, h map[string][]string) string {
	if len(keys) == 0 {
		return "-"
	}
	parts := make([]string, 0, len(keys))
	for _, k := range keys {
		vs := make([]string, len(h[k]))
		for i, v := range h[k] {
			if v == "" {
				vs[i] = "_"
			} else {
				vs[i] = hx(v)
			}
		}
		parts = append(parts, hx(k)+":"+strings.Join(vs, ","))
	}
	return strings.Join(parts, ";")
}

func fmtTrailerKeys(h http.Header) string {
	if h == nil {
		return "nil"
	}
	keys := make([]string, 0, len(h))
	for k := range h {
		keys = append(keys, hx(k))
	}
	sort.Strings(keys)
	return "[" + strings.Join(keys, ",") + "]"
}

func bitmap(f func(b byte) bool) string {
	var bm [32]byte
	for i := 0; i < 256; i++ {
		if f(byte(i)) {
			bm[i/8] |= 1 << (i % 8)
		}
	}
	return hex.EncodeToString(bm[:])
}

// ---------------------------------------------------------------- execution

func kv(tok, key string) (string, bool) {
	if strings.HasPrefix(tok, key+"=") {
		return tok[len(key)+1:], true
	}
	return "", false
}

func opArgs(f []string) map[string]string {
	m := map[string]string{}
	for _, t := range f {
		if i := strings.IndexByte(t, '='); i > 0 {
			m[t[:i]] = t[i+1:]
		}
	}
	return m
}

func resHdr(fs []field, qerr bool, isReq bool, lim int) string {
	h, err := http3.VerifParseHeaders(fs, qerr, isReq, lim)
	if err != nil {
		return http3.VerifErrClass(err)
	}
	return fmt.Sprintf("ok p=%s m=%s a=%s s=%s st=%s pr=%s cl=%d h=%s", hx(h.Path), hx(h.Method), hx(h.Authority),
		hx(h.Scheme), hx(h.Status), hx(h.Protocol), h.ContentLength, fmtHdrs(h.Headers))
}

func resReq(fs []field, qerr bool, lim int) string {
	r, err := http3.VerifRequestFromHeaders(fs, qerr, lim)
	if err != nil {
		return http3.VerifErrClass(err)
	}
	return fmt.Sprintf("ok m=%s proto=%s host=%s uri=%s cl=%d h=%s tr=%s", hx(r.Method), hx(r.Proto), hx(r.Host),
		hx(r.RequestURI), r.ContentLength, fmtHdrs(r.Header), fmtTrailerKeys(r.Trailer))
}

func resRsp(fs []field, qerr bool, lim int) string {
	r, err := http3.VerifUpdateResponseFromHeaders(fs, qerr, lim)
	if err != nil {
		return http3.VerifErrClass(err)
	}
	return fmt.Sprintf("ok code=%d cl=%d h=%s tr=%s", r.StatusCode, r.ContentLength, fmtHdrs(r.Header), fmtTrailerKeys(r.Trailer))
}

func resTrl(fs []field, qerr bool, lim int) string {
	h, err := http3.VerifParseTrailers(fs, qerr, lim)
	if err != nil {
		return http3.VerifErrClass(err)
	}
	return "ok h=" + fmtHdrs(h)
}

type runner struct {
	mode int // generator flavour of this case
}

func (rn *runner) Exec(op string) string {
	f := strings.Fields(op)
	if len(f) == 0 {
		return "bad-op"
	}
	switch f[0] {
	case "table":
		var bad, canon []string
		for _, p := range f[1:] {
			n := unhx(p)
			if httpguts.ValidTrailerHeader(n) {
				bad = append(bad, "0")
			} else {
				bad = append(bad, "1")
			}
			canon = append(canon, hx(http.CanonicalHeaderKey(n)))
		}
		return fmt.Sprintf("tok=%s val=%s host=%s bad=%s canon=%s ua=%s",
			bitmap(func(b byte) bool { return httpguts.ValidHeaderFieldName(string([]byte{b})) }),
			bitmap(func(b byte) bool { return httpguts.ValidHeaderFieldValue(string([]byte{b})) }),
			bitmap(func(b byte) bool { return httpguts.ValidHostHeader(string([]byte{b})) }),
			strings.Join(bad, ""), strings.Join(canon, ","), hx(http3.VerifDefaultUserAgent()))
	case "hdr":
		if len(f) < 4 {
			return "bad-op"
		}
		lim, _ := strconv.Atoi(f[2])
		return resHdr(parseFields(f[4:]), f[3] == "q1", f[1] == "req", lim)
	case "req", "rsp", "trl":
		if len(f) < 3 {
			return "bad-op"
		}
		lim, _ := strconv.Atoi(f[1])
		fs := parseFields(f[3:])
		switch f[0] {
		case "req":
			return resReq(fs, f[2] == "q1", lim)
		case "rsp":
			return resRsp(fs, f[2] == "q1", lim)
		}
		return resTrl(fs, f[2] == "q1", lim)
	case "qpack":
		fs := parseFields(f[1:])
		var sb strings.Builder
		enc := qpack.NewEncoder(&sb)
		for _, x := range fs {
			if err := enc.WriteField(x); err != nil {
				return "MISMATCH encode error"
			}
		}
		if len(fs) == 0 {
			return "ok" // nothing is written for an empty list, not even the prefix
		}
		dec := qpack.NewDecoder().Decode([]byte(sb.String()))
		var got []field
		for {
			x, err := dec()
			if err == io.EOF {
				break
			}
			if err != nil {
				return "MISMATCH decode error " + hx(err.Error())
			}
			got = append(got, x)
		}
		if fmtFields(got) != fmtFields(fs) {
			return "MISMATCH " + fmtFields(got)
		}
		return "ok"
	case "reqwrite":
		a := opArgs(f[1:])
		lim, _ := strconv.Atoi(a["lim"])
		var body io.Reader
		if a["body"] == "1" {
			body = io.NopCloser(strings.NewReader("x"))
		}
		req, err := http.NewRequest(unhx(a["m"]), unhx(a["url"]), body)
		if err != nil {
			return "new=E"
		}
		if p := unhx(a["proto"]); p != "" {
			req.Proto = p
		}
		if h := unhx(a["host"]); h != "" {
			req.Host = h
		}
		cl, _ := strconv.ParseInt(a["cl"], 10, 64)
		req.ContentLength = cl
		req.Header = parseHdrs(a["H"])
		if t := a["T"]; t != "-" && t != "" {
			req.Trailer = http.Header{}
			for _, k := range strings.Split(t, ",") {
				req.Trailer[unhx(k)] = nil
			}
		}
		host := req.Host
		if host == "" {
			host = req.URL.Host
		}
		puny := "!"
		if ph, err := httpguts.PunycodeHostPort(host); err == nil {
			puny = hx(ph)
		}
		x := fmt.Sprintf("x=%s,%s,%s,%s", hx(req.URL.RequestURI()), hx(req.URL.Scheme), hx(req.URL.Host), puny)
		fs, err := http3.VerifEncodeRequest(req, a["gz"] == "1")
		if err != nil {
			return x + " | w=" + http3.VerifErrClass(err) + " | p=-"
		}
		return x + " | w=ok " + fmtFields(fs) + " | p=" + resReq(fs, false, lim)
	case "trlwrite":
		a := opArgs(f[1:])
		lim, _ := strconv.Atoi(a["lim"])
		written, fs, err := http3.VerifWriteTrailers(parseHdrs(a["T"]))
		if err != nil {
			return "w=" + http3.VerifErrClass(err) + " | p=-"
		}
		if !written {
			return "w=none | p=-"
		}
		return "w=ok " + fmtFields(fs) + " | p=" + resTrl(fs, false, lim)
	case "resphdr":
		a := opArgs(f[1:])
		lim, _ := strconv.Atoi(a["lim"])
		st, _ := strconv.Atoi(a["st"])
		fs, err := http3.VerifWriteResponseHeader(st, parseHdrs(a["H"]))
		if err != nil {
			return "w=E:" + hx(err.Error()) + " | p=-"
		}
		return "w=ok " + fmtFields(fs) + " | p=" + resRsp(fs, false, lim)
	case "respwrite":
		a := opArgs(f[1:])
		lim, _ := strconv.Atoi(a["lim"])
		st, _ := strconv.Atoi(a["st"])
		nbody, _ := strconv.Atoi(a["body"])
		frames, err := http3.VerifWriteResponse(st, parseHdrs(a["pre"]), make([]byte, nbody), parseHdrs(a["post"]))
		if err != nil {
			return "w=E:" + hx(err.Error()) + " | p=- | t=-"
		}
		var parts []string
		p, t := "-", "-"
		seenData, seenFinal := false, false
		for _, fr := range frames {
			switch fr.Kind {
			case "H":
				parts = append(parts, "H("+fmtFields(fr.Fields)+")")
				if !seenFinal && !seenData {
					// the last header section before the body is the response header
					p = resRsp(fr.Fields, false, lim)
					if !(len(fr.Fields) > 0 && fr.Fields[0].Name == ":status" && strings.HasPrefix(fr.Fields[0].Value, "1")) {
						seenFinal = true
					}
				} else {
					t = resTrl(fr.Fields, false, lim)
				}
			case "D":
				seenData = true
				parts = append(parts, fmt.Sprintf("D(%d)", fr.N))
			default:
				parts = append(parts, fr.Kind)
			}
		}
		return "w=" + strings.Join(parts, " ") + " | p=" + p + " | t=" + t
	}
	return "bad-op"
}

// ---------------------------------------------------------------- generation

var probeNames = []string{
	"authorization", "cache-control", "connection", "content-encoding", "content-length", "content-range",
	"content-type", "expect", "host", "keep-alive", "max-forwards", "pragma", "proxy-authenticate",
	"proxy-authorization", "proxy-connection", "range", "realm", "te", "trailer", "transfer-encoding",
	"www-authenticate", "if-match", "if-", "if", "x-if-y", "upgrade", "etag", "x-trailer", "date", "a b", "If-None-Match",
	"Content-MD5", "x--y", "-", "é", "", "cookie", "set-cookie", "user-agent", "ETAG",
}

var reqPseudo = []string{":method", ":scheme", ":authority", ":path", ":protocol"}
var allPseudo = []string{":method", ":scheme", ":authority", ":path", ":protocol", ":status"}
var forbidden = []string{"connection", "keep-alive", "proxy-connection", "transfer-encoding", "upgrade"}
var regularNames = []string{"accept", "user-agent", "cookie", "x-a", "content-type", "trailer", "te", "content-length", "host",
	"accept-encoding", "x-b", "cache-control", "if-match", "etag", "date", "a", "x_y", "z~", "range", "content-encoding"}
var trailerNames = []string{"x-t", "etag", "x-checksum", "a", "digest", "server-timing", "x-b"}
var methods = []string{"GET", "POST", "PUT", "HEAD", "CONNECT", "OPTIONS", "PATCH", "DELETE", "get", "G T", ""}
var clValues = []string{"0", "5", "05", "123456", "", "+5", "-1", "5 ", " 5", "5,5", "9223372036854775807", "9223372036854775808",
	"18446744073709551616", "1_0", "0x10", "٣", "5\x00"}
// Content-Length values around the int64 / uint64 boundaries
var clBoundary = []string{"9223372036854775806", "9223372036854775807", "9223372036854775808", "9223372036854775809",
	"18446744073709551614", "18446744073709551615", "18446744073709551616", "18446744073709551617",
	"09223372036854775807", "009223372036854775808", "99999999999999999999", "184467440737095516150", "4294967296", "2147483648"}
var statusValues = []string{"200", "204", "404", "100", "103", "", "0", "99", "1000", "+200", "-200", "0200", "2 0", "abc",
	"9223372036854775807", "9223372036854775808", "-9223372036854775808", "-9223372036854775809", "2e2", "200 OK"}
var teValues = []string{"trailers", "gzip", "", "Trailers", "trailers, deflate", "trailers "}

// bytes that matter for the byte classes
var edgeBytes = []byte{0, 1, 8, 9, 10, 13, 31, 32, 33, 34, 40, 44, 47, 58, 59, 64, 65, 90, 91, 96, 97, 122, 123, 126, 127, 128, 0xc3, 0xa9, 0xff}

func randBytes(r *vh.Rand, n int, edgy bool) string {
	b := make([]byte, n)
	for i := range b {
		switch {
		case edgy && r.Chance(30):
			b[i] = edgeBytes[r.Intn(len(edgeBytes))]
		case edgy && r.Chance(10):
			b[i] = byte(r.U64())
		default:
			b[i] = "abcdefghijklmnopqrstuvwxyz0123456789-_"[r.Intn(38)]
		}
	}
	return string(b)
}

func pick(r *vh.Rand, xs []string) string { return xs[r.Intn(len(xs))] }

func randValue(r *vh.Rand) string {
	switch r.Pick(50, 10, 25, 15) {
	case 0:
		return randBytes(r, r.Intn(12), false)
	case 1:
		return ""
	case 2:
		return randBytes(r, 1+r.Intn(6), true)
	default:
		return pick(r, []string{"a b", "a\tb", " a", "a ", "\xe4\xbd\xa0", "x\x7f", "x\ny", "x\ry", "x\x00y", "\xff\xfe"})
	}
}

func randRegular(r *vh.Rand) field {
	n := pick(r, regularNames)
	var v string
	switch n {
	case "te":
		v = pick(r, teValues)
		if r.Chance(50) {
			v = "trailers"
		}
	case "content-length":
		v = pick(r, clValues)
		if r.Chance(50) {
			v = strconv.Itoa(r.Intn(1000))
		} else if r.Chance(30) {
			v = pick(r, clBoundary)
		}
	case "trailer":
		v = pick(r, []string{"x-t", "X-T, etag", " a ,b", "", ",", "x t", "Content-Length, x-t", "if-match", "x-t,x-t"})
	default:
		v = randValue(r)
		if r.Chance(70) {
			v = randBytes(r, 1+r.Intn(8), false)
		}
	}
	return field{Name: n, Value: v}
}

// validRequest returns a request field section that requestFromHeaders accepts (most of the time).
func validRequest(r *vh.Rand) []field {
	var fs []field
	m := pick(r, methods[:8])
	switch {
	case m == "CONNECT" && r.Bool(): // extended CONNECT
		fs = []field{{":method", m}, {":protocol", pick(r, []string{"websocket", "webtransport", "connect-udp"})},
			{":scheme", "https"}, {":authority", "example.com"}, {":path", "/chat?x=1"}}
	case m == "CONNECT":
		fs = []field{{":method", m}, {":authority", "example.com:443"}}
	default:
		fs = []field{{":method", m}, {":scheme", pick(r, []string{"https", "http"})},
			{":authority", pick(r, []string{"example.com", "a", "[::1]:443", "xn--bcher-kva.example"})},
			{":path", pick(r, []string{"/", "/a/b?c=d", "*", "/%41", "//x", "/a b", "a", "http://x/y"})}}
	}
	// pseudo fields may come in any order
	for i := len(fs) - 1; i > 0; i-- {
		j := r.Intn(i + 1)
		fs[i], fs[j] = fs[j], fs[i]
	}
	n := r.Intn(6)
	for i := 0; i < n; i++ {
		fs = append(fs, randRegular(r))
	}
	return fs
}

func validResponse(r *vh.Rand) []field {
	fs := []field{{":status", pick(r, statusValues[:5])}}
	if r.Chance(25) {
		fs[0].Value = pick(r, statusValues)
	}
	n := r.Intn(6)
	for i := 0; i < n; i++ {
		fs = append(fs, randRegular(r))
	}
	return fs
}

func validTrailers(r *vh.Rand) []field {
	var fs []field
	n := r.Intn(5)
	if r.Chance(30) {
		n = 2 + r.Intn(5)
	}
	for i := 0; i < n; i++ {
		fs = append(fs, field{pick(r, trailerNames), randBytes(r, r.Intn(8), false)})
	}
	return fs
}

func insertAt(fs []field, i int, f field) []field {
	i = min(i, len(fs))
	fs = append(fs, field{})
	copy(fs[i+1:], fs[i:])
	fs[i] = f
	return fs
}

// mutate applies one malformation at a random position.
func mutate(r *vh.Rand, fs []field, kind string) []field {
	pos := r.Intn(len(fs) + 1)
	at := func() int {
		if len(fs) == 0 {
			return -1
		}
		return r.Intn(len(fs))
	}
	switch r.Pick(10, 8, 8, 8, 8, 8, 8, 6, 6, 6, 6, 6, 6, 6, 10) {
	case 0: // duplicate pseudo-field at any position; the first copy may be empty (the repaired defect)
		var ps []int
		for i, f := range fs {
			if strings.HasPrefix(f.Name, ":") {
				ps = append(ps, i)
			}
		}
		if len(ps) == 0 {
			return insertAt(fs, pos, field{pick(r, allPseudo), randValue(r)})
		}
		i := ps[r.Intn(len(ps))]
		d := fs[i]
		switch r.Pick(40, 30, 30) {
		case 0:
			fs[i].Value = ""
		case 1:
			d.Value = ""
		}
		return insertAt(fs, pos, d)
	case 1: // unknown pseudo
		return insertAt(fs, pos, field{pick(r, []string{":foo", ":", ":Path", ":path ", "::path", ":status", ":method", ":protocol", ":é"}), randValue(r)})
	case 2: // pseudo after regular
		fs = append(fs, field{pick(r, allPseudo), randBytes(r, 1+r.Intn(4), false)})
		return fs
	case 3: // upper case / odd name byte
		if i := at(); i >= 0 && len(fs[i].Name) > 0 {
			b := []byte(fs[i].Name)
			j := r.Intn(len(b))
			if r.Bool() && b[j] >= 'a' && b[j] <= 'z' {
				b[j] -= 32
			} else {
				b[j] = edgeBytes[r.Intn(len(edgeBytes))]
			}
			fs[i].Name = string(b)
		}
		return fs
	case 4: // forbidden value byte
		if i := at(); i >= 0 {
			v := []byte(fs[i].Value)
			j := r.Intn(len(v) + 1)
			c := edgeBytes[r.Intn(len(edgeBytes))]
			v = append(v[:j], append([]byte{c}, v[j:]...)...)
			fs[i].Value = string(v)
		}
		return fs
	case 5: // connection-specific field
		return insertAt(fs, pos, field{pick(r, forbidden), randValue(r)})
	case 6: // te variants
		return insertAt(fs, pos, field{"te", pick(r, teValues)})
	case 7: // content-length variants (twice: equal or contradicting), often at the int64 / uint64 boundary
		v := pick(r, clValues)
		if r.Chance(45) {
			v = pick(r, clBoundary)
		}
		fs = insertAt(fs, pos, field{"content-length", v})
		if r.Bool() {
			w := v
			if r.Bool() {
				w = pick(r, clValues)
			}
			fs = insertAt(fs, r.Intn(len(fs)+1), field{"content-length", w})
		}
		return fs
	case 8: // empty name / empty value
		return insertAt(fs, pos, field{pick(r, []string{"", "", "a", ":"}), pick(r, []string{"", "x"})})
	case 9: // non-ASCII names (lower-case, upper-case, invalid UTF-8)
		return insertAt(fs, pos, field{pick(r, []string{"é", "É", "x-é", "\xff", "a\xc3", "ǆ", "ǅ", "K", ":\xc3\xa9", "straße", "ſ"}), randValue(r)})
	case 10: // drop a field (missing pseudo)
		if i := at(); i >= 0 {
			return append(fs[:i:i], fs[i+1:]...)
		}
		return fs
	case 11: // pseudo-field of the other kind
		if kind == "resp" {
			return insertAt(fs, r.Intn(2), field{pick(r, reqPseudo), "x"})
		}
		return insertAt(fs, r.Intn(2), field{":status", "200"})
	case 12: // random junk field
		return insertAt(fs, pos, field{randBytes(r, r.Intn(6), true), randBytes(r, r.Intn(6), true)})
	case 13: // trailer-forbidden names (matter for trl)
		return insertAt(fs, pos, field{pick(r, probeNames[:28]), randBytes(r, r.Intn(5), false)})
	default: // request pseudo-header rules: CONNECT / extended CONNECT / :protocol / emptied pseudo values
		set := func(name, v string) {
			for i := range fs {
				if fs[i].Name == name {
					fs[i].Value = v
					return
				}
			}
			fs = insertAt(fs, 0, field{name, v})
		}
		del := func(name string) {
			for i := range fs {
				if fs[i].Name == name {
					fs = append(fs[:i:i], fs[i+1:]...)
					return
				}
			}
		}
		switch r.Intn(7) {
		case 0:
			set(":method", "CONNECT")
		case 1:
			set(":protocol", pick(r, []string{"websocket", "", "x"}))
		case 2:
			set(":method", "CONNECT")
			set(":protocol", "websocket")
			del(pick(r, []string{":scheme", ":path", ":authority", ":none"}))
		case 3:
			set(pick(r, []string{":path", ":authority", ":method", ":scheme"}), "")
		case 4:
			set(":method", "CONNECT")
			del(":path")
			del(":scheme")
			if r.Bool() {
				del(":authority")
			}
		case 5:
			set(":method", "CONNECT")
			set(":path", "")
		default:
			del(pick(r, reqPseudo))
		}
		return fs
	}
}

func sectionSize(fs []field) int {
	n := 0
	for _, f := range fs {
		n += len(f.Name) + len(f.Value) + 32
	}
	return n
}

func pickLimit(r *vh.Rand, fs []field) int {
	sz := sectionSize(fs)
	if len(fs) >= 2 && r.Chance(10) {
		// every single field fits, the section as a whole does not (or just does): the budget is cumulative
		mx := 0
		for _, f := range fs {
			mx = max(mx, len(f.Name)+len(f.Value)+32)
		}
		switch r.Intn(4) {
		case 0:
			return mx
		case 1:
			return sz - 1
		case 2:
			return sz
		default:
			return mx + r.Intn(sz-mx+1)
		}
	}
	switch r.Pick(74, 18, 5, 3) {
	case 0:
		return sz + 1000 + r.Intn(100000)
	case 1: // around the limit, and around the limit without the 32-byte overhead of the last fields
		d := []int{0, 1, -1, 31, -31, 32, -32, 33, -33, 2, -2}[r.Intn(11)]
		if r.Chance(25) {
			d -= 32 * r.Intn(len(fs)+1)
		}
		return max(sz+d, 0)
	case 2:
		return r.Intn(sz + 2)
	default:
		return 0
	}
}

// small alphabets of the bounded-exhaustive sweep (12 names x 6 values)
var enumNames = []string{":method", ":path", ":status", ":x", ":", "", "a", "A", "te", "content-length", "connection", "é"}
var enumValues = []string{"", "GET", "trailers", "5", "a\x00", "\xff"}

var enumIdx uint64 // position in the exhaustive sweep (thorough tier only)

func enumList(idx uint64) ([]field, bool) {
	nf := uint64(len(enumNames) * len(enumValues))
	for l := 0; l <= 3; l++ {
		cnt := uint64(1)
		for i := 0; i < l; i++ {
			cnt *= nf
		}
		if idx < cnt {
			fs := make([]field, l)
			for i := 0; i < l; i++ {
				k := idx % nf
				idx /= nf
				fs[i] = field{enumNames[k/uint64(len(enumValues))], enumValues[k%uint64(len(enumValues))]}
			}
			return fs, true
		}
		idx -= cnt
	}
	return nil, false
}

func q(r *vh.Rand) string {
	if r.Chance(4) {
		return "q1"
	}
	return "q0"
}

func genSection(r *vh.Rand, kind string) []field {
	var fs []field
	switch kind {
	case "req":
		fs = validRequest(r)
	case "resp":
		fs = validResponse(r)
	default:
		fs = validTrailers(r)
	}
	if r.Chance(60) {
		fs = mutate(r, fs, kind)
		if r.Chance(25) {
			fs = mutate(r, fs, kind)
		}
	}
	return fs
}

func smallRandom(r *vh.Rand) []field {
	n := r.Intn(4)
	fs := make([]field, n)
	for i := range fs {
		fs[i] = field{pick(r, enumNames), pick(r, enumValues)}
	}
	return fs
}

var hdrKeys = []string{"Accept", "X-A", "x-lower", "Cookie", "User-Agent", "Content-Length", "Host",
	"Accept-Encoding", "Range", "Trailer", "X-B", "Content-Type", "Date", "Set-Cookie", "ETag", "x_y"}
var connKeys = []string{"Te", "Connection", "Keep-Alive", "Upgrade", "Transfer-Encoding", "Proxy-Connection", "TE", "connection"}

// genHeaderMap returns keys (distinct, also after lower-casing) and their values for a writer op.
func genHeaderMap(r *vh.Rand, n int, wild int, conn int) ([]string, map[string][]string) {
	h := map[string][]string{}
	var keys []string
	lower := map[string]bool{}
	for i := 0; i < n; i++ {
		k := pick(r, hdrKeys)
		if r.Chance(conn) {
			k = pick(r, connKeys)
		}
		if r.Chance(wild) {
			k = pick(r, []string{"a b", "x\ny", ":path", "", "X-É", "x:y", "é"})
		}
		if lower[strings.ToLower(k)] {
			continue
		}
		lower[strings.ToLower(k)] = true
		var vs []string
		nv := r.Pick(10, 70, 20)
		if nv == 2 {
			nv = 2 + r.Intn(2)
		}
		for j := 0; j < nv; j++ {
			v := randBytes(r, r.Intn(8), false)
			switch strings.ToLower(k) {
			case "te":
				v = pick(r, teValues)
				if r.Chance(60) {
					v = "trailers"
				}
			case "content-length":
				v = pick(r, clValues[:4])
			case "trailer":
				v = pick(r, []string{"x-t", "X-T, Etag", "x-t,a"})
			case "date":
				v = "Mon, 02 Jan 2006 15:04:05 GMT"
			}
			if r.Chance(wild) {
				v = pick(r, []string{"x\ny", "x\x00", "a\x7f", "\xff", " a", "a\tb"})
			}
			vs = append(vs, v)
		}
		keys = append(keys, k)
		h[k] = vs
	}
	return keys, h
}

func (rn *runner) GenOp(r *vh.Rand, i int) string {
	if i == 0 {
		ps := make([]string, len(probeNames))
		for j, p := range probeNames {
			ps[j] = hx(p)
		}
		return "table " + strings.Join(ps, " ")
	}
	if os.Getenv("VH_TIER") == "thorough" && r.Chance(70) {
		if fs, ok := enumList(enumIdx); ok {
			enumIdx++
			kind := "req"
			if enumIdx%3 == 0 {
				kind = "resp"
			}
			lim := 100000
			if r.Chance(20) {
				lim = pickLimit(r, fs)
			}
			return strings.TrimSpace(fmt.Sprintf("hdr %s %d q0 %s", kind, lim, fmtFields(fs)))
		}
	}
	switch r.Pick(22, 18, 12, 12, 10, 3, 12, 5, 6, 7) {
	case 0: // parseHeaders, request or response side, structured
		kind := "req"
		if r.Chance(40) {
			kind = "resp"
		}
		fs := genSection(r, kind)
		return strings.TrimSpace(fmt.Sprintf("hdr %s %d %s %s", kind, pickLimit(r, fs), q(r), fmtFields(fs)))
	case 1: // requestFromHeaders
		fs := genSection(r, "req")
		return strings.TrimSpace(fmt.Sprintf("req %d %s %s", pickLimit(r, fs), q(r), fmtFields(fs)))
	case 2: // updateResponseFromHeaders
		fs := genSection(r, "resp")
		return strings.TrimSpace(fmt.Sprintf("rsp %d %s %s", pickLimit(r, fs), q(r), fmtFields(fs)))
	case 3: // parseTrailers
		fs := genSection(r, "trl")
		return strings.TrimSpace(fmt.Sprintf("trl %d %s %s", pickLimit(r, fs), q(r), fmtFields(fs)))
	case 4: // small alphabet
		fs := smallRandom(r)
		kind := pick(r, []string{"req", "resp"})
		return strings.TrimSpace(fmt.Sprintf("hdr %s %d q0 %s", kind, pickLimit(r, fs), fmtFields(fs)))
	case 5: // QPACK round trip contract
		fs := genSection(r, pick(r, []string{"req", "resp", "trl"}))
		return strings.TrimSpace("qpack " + fmtFields(fs))
	case 6: // request writer
		m := pick(r, methods)
		if r.Chance(70) {
			m = pick(r, methods[:8])
		}
		u := pick(r, []string{"https://example.com/", "https://example.com/a/b?c=d", "https://example.com", "https://example.com:8443/x y",
			"http://a/", "https://bücher.example/p", "https://example.com/?q=a%20b", "https://[::1]:443/z", "https:opaque", "https://exa mple.com/",
			"https://example.com/%zz", "/relative", "https://user@example.com/", "https://example.com/a#frag", "https://EXAMPLE.com/É"})
		if r.Chance(60) {
			u = "https://example.com/" + randBytes(r, r.Intn(6), false)
		}
		proto := ""
		if m == "CONNECT" && r.Chance(50) {
			proto = pick(r, []string{"websocket", "webtransport", "HTTP/1.1", "HTTP/2.0"})
		}
		host := ""
		if r.Chance(20) {
			host = pick(r, []string{"other.example", "a:1", "bad host", "h\x00", "bücher.example", "xn--a.b\xff"})
		}
		body, cl := 0, int64(0)
		if r.Chance(40) {
			body = 1
			cl = []int64{0, 1, 5, 1234567, -1, 9223372036854775807}[r.Intn(6)]
		}
		keys, h := genHeaderMap(r, r.Intn(6), 4, 15)
		var tk []string
		if r.Chance(30) {
			for j := r.Intn(3) + 1; j > 0; j-- {
				k := pick(r, []string{"X-T", "Etag", "x-lower", "Content-Length", "If-Match", "Te", "A"})
				dup := false
				for _, o := range tk {
					dup = dup || o == hx(k)
				}
				if !dup {
					tk = append(tk, hx(k))
				}
			}
		}
		T := "-"
		if len(tk) > 0 {
			T = strings.Join(tk, ",")
		}
		lim := 100000
		return fmt.Sprintf("reqwrite lim=%d m=%s url=%s proto=%s host=%s cl=%d body=%d gz=%d T=%s H=%s",
			lim, hx(m), hx(u), hx(proto), hx(host), cl, body, r.Intn(2), T, fmtHdrsOp(keys, h))
	case 7: // trailer writer
		var keys []string
		h := map[string][]string{}
		lower := map[string]bool{}
		for j := r.Intn(4); j > 0; j-- {
			k := pick(r, []string{"X-T", "Etag", "x-lower", "Content-Length", "If-Match", "Te", "A", "Upgrade", "Connection", "Trailer", "X-B", "Host"})
			if r.Chance(5) {
				k = pick(r, []string{"a b", "x\ny", ":path", ""})
			}
			if lower[strings.ToLower(k)] {
				continue
			}
			lower[strings.ToLower(k)] = true
			keys = append(keys, k)
			nv := r.Pick(15, 65, 20)
			var vs []string
			for x := 0; x < nv; x++ {
				v := randBytes(r, r.Intn(6), false)
				if r.Chance(4) {
					v = pick(r, []string{"x\ny", "x\x00"})
				}
				vs = append(vs, v)
			}
			h[k] = vs
		}
		return fmt.Sprintf("trlwrite lim=100000 T=%s", fmtHdrsOp(keys, h))
	case 9: // responseWriter.writeHeader alone
		st := []int{200, 204, 404, 500, 100, 103, 301, 999, 0, 1000, -1, 1234567}[r.Intn(12)]
		keys, h := genHeaderMap(r, r.Intn(6), 3, 6)
		if r.Chance(20) {
			k := pick(r, []string{"Trailer:X-U", "Trailer:Etag", "trailer", "X-T", "Etag"})
			if _, dup := h[k]; !dup {
				keys = append(keys, k)
				h[k] = []string{randBytes(r, 1+r.Intn(5), false)}
			}
		}
		return fmt.Sprintf("resphdr lim=100000 st=%d H=%s", st, fmtHdrsOp(keys, h))
	default: // response writer
		st := []int{200, 204, 404, 500, 100, 103, 301}[r.Intn(7)]
		keys, h := genHeaderMap(r, r.Intn(6), 3, 6)
		hasDate := false
		for _, k := range keys {
			hasDate = hasDate || k == "Date"
		}
		if !hasDate { // keep the output independent of the wall clock
			keys = append(keys, "Date")
			h["Date"] = []string{"Mon, 02 Jan 2006 15:04:05 GMT"}
		}
		hasCT := false
		for _, k := range keys {
			hasCT = hasCT || k == "Content-Type"
		}
		body := 0
		if r.Chance(50) && hasCT { // without a Content-Type the writer sniffs the body (http.DetectContentType)
			body = 1 + r.Intn(40)
		}
		var pk []string
		ph := map[string][]string{}
		if r.Chance(40) {
			for j := r.Intn(3) + 1; j > 0; j-- {
				k := pick(r, []string{"X-T", "Trailer:X-U", "Etag", "Trailer:Etag", "Trailer:Content-Length", "Trailer:X-V"})
				if _, dup := ph[k]; dup {
					continue
				}
				if _, dup := h[k]; dup {
					continue
				}
				pk = append(pk, k)
				ph[k] = []string{randBytes(r, 1+r.Intn(5), false)}
			}
		}
		return fmt.Sprintf("respwrite lim=100000 st=%d pre=%s body=%d post=%s", st, fmtHdrsOp(keys, h), body, fmtHdrsOp(pk, ph))
	}
}

func newRunner(r *vh.Rand) vh.Runner { return &runner{} }

func TestDriver(t *testing.T) { vh.Main(t, "h3f", newRunner) }
