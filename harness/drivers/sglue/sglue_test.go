//go:build verif

// Driver "sglue" (property C15): the glue between a connection and its streams map.
//
// A case creates one connection through the REAL constructors (newConnection, newClientConnection,
// newUClientConnection with a QUICSpec — see harness/hooks/verif_sglue.go) and then
//   * reads back what the connection advertises (initial_max_streams_bidi / _uni handed to TLS) and what
//     its streams map enforces, and
//   * feeds 1-RTT packet payloads (generated frame lists) to the real Conn.handleShortHeaderPacket, on
//     traced and untraced connections.
//
// Line protocol (see lean/Oracle/Sglue.lean):
//   conn server|client|uclient <confBidi> <confUni> <specId|-> <specBidi> <specUni> <traced>
//        => ok adv=<b>,<u> enf=<b>,<u> tr=<0|1> <streams-map digest>
//   sent <k>                 register k ack-eliciting 1-RTT packets as sent  => ok pns=<pn,…>
//   open b|u                 OpenStream / OpenUniStream                     => <id> | E:…
//   pkt <pn> <frame>…        one 1-RTT packet                               => ok|dup|E:… <digest>
// frames: S:<id> STREAM, R:<id> RESET_STREAM, B:<id> STREAM_DATA_BLOCKED, T:<id> STOP_SENDING,
//   M:<id> MAX_STREAM_DATA, X:b|u:<n> MAX_STREAMS, A:<pn> ACK of packet pn, P PING, D MAX_DATA,
//   K DATA_BLOCKED, L STREAMS_BLOCKED, Z PADDING
package sglue

import (
	"context"
	"errors"
	"fmt"
	"os"
	"strings"
	"testing"
	"time"

	quic "github.com/refraction-networking/uquic"
	"github.com/refraction-networking/uquic/internal/protocol"
	"github.com/refraction-networking/uquic/internal/qerr"
	"github.com/refraction-networking/uquic/internal/verifharness/vh"
	"github.com/refraction-networking/uquic/internal/wire"
)

func errName(err error) string {
	if err == nil {
		return "ok"
	}
	var te *qerr.TransportError
	if errors.As(err, &te) {
		msg := te.ErrorMessage
		switch te.ErrorCode {
		case qerr.StreamLimitError:
			return "E:limit"
		case qerr.ProtocolViolation:
			return "E:proto"
		case qerr.StreamStateError:
			switch {
			case strings.Contains(msg, "invalid frame for send stream"):
				return "E:state:invalid-send"
			case strings.Contains(msg, "invalid frame for receive stream"):
				return "E:state:invalid-recv"
			case strings.Contains(msg, "peer attempted to open stream"):
				return "E:state:peer-open"
			}
			return "E:state:other"
		}
		return fmt.Sprintf("E:transport:%d", uint64(te.ErrorCode))
	}
	var lr *quic.StreamLimitReachedError
	var lrv quic.StreamLimitReachedError
	switch {
	case errors.As(err, &lr), errors.As(err, &lrv):
		return "E:limit-reached"
	case errors.Is(err, context.Canceled):
		return "E:canceled"
	}
	return "E:other"
}

var specIDs = map[string]quic.QUICID{
	"ff116":  quic.QUICFirefox_116,
	"chr115": quic.QUICChrome_115,
}

type runner struct {
	c *quic.VerifGlueConn
	// generator state (from the implementation's answers)
	hasConn  bool
	server   bool
	adv      [2]int64 // advertised counts: 0 uni, 1 bidi
	conf     [2]int64
	inNext   [2]int64
	outNext  [2]int64
	outOpen  [2][]int64
	sentPns  []int64
	nextPn   int64
	usedPns  []int64
	peerLim  [2]int64
	dead     bool
}

func (rn *runner) Close() {
	if rn.c != nil {
		rn.c.Shutdown()
	}
}

func firstID(bidi, byServer bool) int64 {
	var id int64
	if !bidi {
		id += 2
	}
	if byServer {
		id++
	}
	return id
}

func tidx(bidi bool) int {
	if bidi {
		return 1
	}
	return 0
}

func encodeFrames(toks []string) ([]byte, error) {
	var b []byte
	var err error
	app := func(f wire.Frame) {
		if err == nil {
			b, err = f.Append(b, protocol.Version1)
		}
	}
	for _, t := range toks {
		p := strings.Split(t, ":")
		num := func(i int) int64 {
			if i < len(p) {
				return vh.Atoi64(p[i])
			}
			return 0
		}
		switch p[0] {
		case "S":
			app(&wire.StreamFrame{StreamID: protocol.StreamID(num(1)), Data: []byte{0x2a}, DataLenPresent: true})
		case "R":
			app(&wire.ResetStreamFrame{StreamID: protocol.StreamID(num(1)), FinalSize: 1})
		case "B":
			app(&wire.StreamDataBlockedFrame{StreamID: protocol.StreamID(num(1))})
		case "T":
			app(&wire.StopSendingFrame{StreamID: protocol.StreamID(num(1))})
		case "M":
			app(&wire.MaxStreamDataFrame{StreamID: protocol.StreamID(num(1)), MaximumStreamData: 1})
		case "X":
			typ := protocol.StreamTypeUni
			if len(p) > 1 && p[1] == "b" {
				typ = protocol.StreamTypeBidi
			}
			app(&wire.MaxStreamsFrame{Type: typ, MaxStreamNum: protocol.StreamNum(num(2))})
		case "A":
			pn := protocol.PacketNumber(num(1))
			app(&wire.AckFrame{AckRanges: []wire.AckRange{{Smallest: pn, Largest: pn}}})
		case "P":
			app(&wire.PingFrame{})
		case "D":
			app(&wire.MaxDataFrame{MaximumData: 1})
		case "K":
			app(&wire.DataBlockedFrame{MaximumData: 1})
		case "L":
			app(&wire.StreamsBlockedFrame{Type: protocol.StreamTypeBidi, StreamLimit: 1})
		case "Z":
			b = append(b, 0)
		default:
			return nil, fmt.Errorf("bad frame token %q", t)
		}
	}
	return b, err
}

// AfterPanic: a panic inside the connection may have left a mutex held; the case ends here.
func (rn *runner) AfterPanic(op string) string {
	rn.dead = true
	return "PANIC"
}

func (rn *runner) Exec(op string) string {
	f := strings.Fields(op)
	if len(f) == 0 {
		return "bad-op"
	}
	if rn.dead {
		return "skip"
	}
	if f[0] == "conn" {
		if rn.c != nil || len(f) != 8 {
			return "skip"
		}
		conf := &quic.Config{MaxIncomingStreams: vh.Atoi64(f[2]), MaxIncomingUniStreams: vh.Atoi64(f[3])}
		var spec *quic.QUICSpec
		if f[1] == "uclient" {
			id, ok := specIDs[f[4]]
			if !ok {
				return "skip"
			}
			s, err := quic.VerifGlueSpec(id, vh.Atoi64(f[5]), vh.Atoi64(f[6]))
			if err != nil {
				return "E:spec"
			}
			spec = s
		}
		c, err := quic.VerifGlueNew(f[1], conf, spec, f[7] == "1")
		if err != nil {
			return "E:new"
		}
		rn.c = c
		ab, au, ok := c.Advertised()
		if !ok {
			return "E:noparams"
		}
		eb, eu := c.Enforced()
		tr := 0
		if c.Traced() {
			tr = 1
		}
		return fmt.Sprintf("ok adv=%d,%d enf=%d,%d tr=%d %s", ab, au, eb, eu, tr, c.SmapState())
	}
	if rn.c == nil {
		return "skip"
	}
	switch f[0] {
	case "sent":
		k := int(vh.Atoi64(f[1]))
		var pns []string
		for i := 0; i < k && i < 16; i++ {
			pns = append(pns, fmt.Sprint(rn.c.SendPing()))
		}
		return "ok pns=" + strings.Join(pns, ",")
	case "open":
		id, err := rn.c.OpenStream(f[1] == "b")
		if err != nil {
			return errName(err) + " " + rn.c.SmapState()
		}
		return fmt.Sprintf("%d %s", id, rn.c.SmapState())
	case "pkt":
		if len(f) < 2 {
			return "bad-op"
		}
		payload, err := encodeFrames(f[2:])
		if err != nil {
			return "bad-op"
		}
		processed, err := rn.c.HandlePacket(vh.Atoi64(f[1]), payload)
		res := errName(err)
		if err == nil && !processed {
			res = "dup"
		}
		return res + " " + rn.c.SmapState()
	}
	return "bad-op"
}

// observe keeps the generator's picture up to date (from the implementation's answers only).
func (rn *runner) observe(op, res string) {
	f := strings.Fields(op)
	rf := strings.Fields(res)
	if len(f) == 0 || len(rf) == 0 {
		return
	}
	switch f[0] {
	case "conn":
		if rf[0] != "ok" {
			return
		}
		rn.hasConn = true
		rn.server = f[1] == "server"
		for _, w := range rf {
			if strings.HasPrefix(w, "adv=") {
				p := strings.Split(w[4:], ",")
				if len(p) == 2 {
					rn.adv[1], rn.adv[0] = vh.Atoi64(p[0]), vh.Atoi64(p[1])
				}
			}
		}
		rn.conf[1], rn.conf[0] = vh.Atoi64(f[2]), vh.Atoi64(f[3])
		for i := 0; i < 2; i++ {
			rn.inNext[i] = firstID(i == 1, !rn.server)
			rn.outNext[i] = firstID(i == 1, rn.server)
			rn.peerLim[i] = 3
		}
	case "sent":
		for _, w := range rf {
			if strings.HasPrefix(w, "pns=") && len(w) > 4 {
				for _, p := range strings.Split(w[4:], ",") {
					rn.sentPns = append(rn.sentPns, vh.Atoi64(p))
				}
			}
		}
	case "open":
		if !strings.HasPrefix(rf[0], "E:") {
			i := tidx(f[1] == "b")
			id := vh.Atoi64(rf[0])
			rn.outOpen[i] = append(rn.outOpen[i], id)
			rn.outNext[i] = id + 4
		}
	case "pkt":
		if rf[0] == "ok" {
			rn.usedPns = append(rn.usedPns, vh.Atoi64(f[1]))
		}
		// frames handled before the first failing one took effect; follow the incoming high-water marks
		// approximately (only used to pick interesting ids)
		for _, t := range f[2:] {
			p := strings.Split(t, ":")
			if len(p) == 2 && strings.Contains("SRBTM", p[0]) {
				id := vh.Atoi64(p[1])
				bidi := id%4 < 2
				if (id%2 == 1) != rn.server && rf[0] == "ok" {
					i := tidx(bidi)
					if id >= rn.inNext[i] {
						rn.inNext[i] = id + 4
					}
				}
			}
			if len(p) == 3 && p[0] == "X" && rf[0] == "ok" {
				i := tidx(p[1] == "b")
				if n := vh.Atoi64(p[2]); n > rn.peerLim[i] {
					rn.peerLim[i] = n
				}
			}
		}
	}
}

var confChoices = []int64{0, 0, 0, -1, 1, 2, 3, 5, 16, 100, 103, 200}
var specChoices = []int64{-1, 0, 1, 2, 3, 5, 16, 16, 100, 100, 103, 103, 150}

func idOfCount(n int64, bidi, byServer bool) int64 {
	if n <= 0 {
		return -1
	}
	return firstID(bidi, byServer) + 4*(n-1)
}

func (rn *runner) genStreamFrame(r *vh.Rand) string {
	bidi := r.Bool()
	i := tidx(bidi)
	kinds := []string{"S", "R", "B", "T", "M"}
	k := kinds[r.Intn(len(kinds))]
	peer := !rn.server // initiator of incoming streams: the peer
	var id int64
	limID := idOfCount(rn.adv[i], bidi, peer)
	switch r.Pick(28, 12, 16, 12, 8, 8, 8, 8) {
	case 0: // the peer's next stream
		id = rn.inNext[i]
	case 1: // an already opened one
		id = rn.inNext[i] - 4*r.Range(1, 3)
		if id < firstID(bidi, peer) {
			id = rn.inNext[i]
		}
	case 2: // just above the advertised limit
		id = limID + 4*r.Range(1, 3)
		if limID < 0 {
			id = firstID(bidi, peer) + 4*r.Range(0, 2)
		}
	case 3: // exactly the last stream the advertisement allows (when that is not far away)
		id = limID
		if id < 0 || id-rn.inNext[i] > 4*250 {
			id = rn.inNext[i]
		}
	case 4: // above the advertised limit but within a larger Config value
		c := rn.conf[i]
		if c == 0 {
			c = 100
		}
		id = idOfCount(c, bidi, peer)
		if id < 0 || id-rn.inNext[i] > 4*250 {
			id = limID + 4
		}
	case 5: // a local stream that was opened
		if len(rn.outOpen[i]) > 0 {
			id = rn.outOpen[i][r.Intn(len(rn.outOpen[i]))]
		} else {
			id = rn.outNext[i]
		}
	case 6: // a local stream that was never opened
		id = rn.outNext[i] + 4*r.Range(0, 2)
	default: // far above
		id = limID + 4*r.Range(4, 400)
		if limID < 0 {
			id = firstID(bidi, peer) + 4*r.Range(3, 400)
		}
	}
	if id < 0 {
		id = firstID(bidi, peer)
	}
	return fmt.Sprintf("%s:%d", k, id)
}

func (rn *runner) genOther(r *vh.Rand) string {
	switch r.Pick(40, 8, 14, 8, 6, 6, 6, 12) {
	case 0:
		if len(rn.sentPns) > 0 {
			return fmt.Sprintf("A:%d", rn.sentPns[r.Intn(len(rn.sentPns))])
		}
		return "P"
	case 1: // an ACK for a packet that was never sent
		var mx int64
		for _, p := range rn.sentPns {
			if p > mx {
				mx = p
			}
		}
		return fmt.Sprintf("A:%d", mx+r.Range(20, 40))
	case 2:
		return "P"
	case 3:
		return "D"
	case 4:
		return "K"
	case 5:
		return "L"
	case 6:
		return "Z"
	default:
		bidi := r.Bool()
		t := "u"
		if bidi {
			t = "b"
		}
		return fmt.Sprintf("X:%s:%d", t, rn.peerLim[tidx(bidi)]+r.Range(0, 3))
	}
}

func (rn *runner) GenOp(r *vh.Rand, i int) string {
	if !rn.hasConn {
		if i > 0 {
			return ""
		}
		kind := []string{"server", "client", "uclient"}[r.Pick(20, 20, 60)]
		cb := confChoices[r.Intn(len(confChoices))]
		cu := confChoices[r.Intn(len(confChoices))]
		tr := r.Intn(2)
		if kind == "uclient" {
			sid := []string{"ff116", "chr115"}[r.Intn(2)]
			return fmt.Sprintf("conn uclient %d %d %s %d %d %d", cb, cu, sid,
				specChoices[r.Intn(len(specChoices))], specChoices[r.Intn(len(specChoices))], tr)
		}
		return fmt.Sprintf("conn %s %d %d - 0 0 %d", kind, cb, cu, tr)
	}
	if i == 1 {
		return fmt.Sprintf("sent %d", r.Range(1, 4))
	}
	switch r.Pick(12, 4, 84) {
	case 0:
		if r.Bool() {
			return "open b"
		}
		return "open u"
	case 1:
		return fmt.Sprintf("sent %d", r.Range(1, 2))
	}
	// a packet: mostly harmless frames around stream frames, ACKs before and after them
	n := int(r.Range(1, 5))
	var toks []string
	for j := 0; j < n; j++ {
		if r.Chance(45) {
			toks = append(toks, rn.genStreamFrame(r))
		} else {
			toks = append(toks, rn.genOther(r))
		}
	}
	pn := rn.nextPn
	rn.nextPn++
	if len(rn.usedPns) > 0 && r.Chance(4) {
		pn = rn.usedPns[r.Intn(len(rn.usedPns))] // a duplicate
	}
	return fmt.Sprintf("pkt %d %s", pn, strings.Join(toks, " "))
}

type observing struct{ *runner }

func (o observing) Exec(op string) string {
	res := o.runner.Exec(op)
	o.runner.observe(op, res)
	return res
}

func (o observing) GenOp(r *vh.Rand, i int) string {
	if o.runner.dead {
		return ""
	}
	return o.runner.GenOp(r, i)
}
func (o observing) AfterPanic(op string) string { return o.runner.AfterPanic(op) }
func (o observing) Close()                        { o.runner.Close() }

func TestDriver(t *testing.T) {
	// never hang the check on a modified /repo
	go func() {
		time.Sleep(15 * time.Minute)
		fmt.Fprintln(os.Stderr, "sglue driver: still running after 15 minutes; aborting")
		os.Exit(4)
	}()
	vh.Main(t, "sglue", func(r *vh.Rand) vh.Runner { return observing{&runner{}} })
}
