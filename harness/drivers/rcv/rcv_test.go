//go:build verif

package rcv

import (
	"fmt"
	"strings"
	"testing"

	"github.com/refraction-networking/uquic/internal/ackhandler"
	"github.com/refraction-networking/uquic/internal/monotime"
	"github.com/refraction-networking/uquic/internal/protocol"
	"github.com/refraction-networking/uquic/internal/utils"
	"github.com/refraction-networking/uquic/internal/verifharness/vh"
	"github.com/refraction-networking/uquic/internal/wire"
)

type runner struct {
	h *ackhandler.ReceivedPacketHandler
	// generator state
	now     int64
	next    [3]int64 // next fresh packet number per space
	seen    [3][]int64
	style   int
	maxApp  int64 // largest number handed to the app-data space, -1 if none
}

func newRunner(r *vh.Rand) vh.Runner {
	return &runner{
		h:     ackhandler.NewReceivedPacketHandler(utils.DefaultLogger),
		now:   1 + r.Range(0, 1_000_000_000),
		maxApp: -1,
		style: r.Pick(45, 18, 12, 13, 12), // mostly in order / heavy reorder / many gaps / tiny universe / at the range cap
	}
}

var lvlNames = []string{"I", "H", "Z", "A"}

func lvlOf(s string) protocol.EncryptionLevel {
	switch s {
	case "I":
		return protocol.EncryptionInitial
	case "H":
		return protocol.EncryptionHandshake
	case "Z":
		return protocol.Encryption0RTT
	}
	return protocol.Encryption1RTT
}

func space(l string) int {
	switch l {
	case "I":
		return 0
	case "H":
		return 1
	}
	return 2
}

func (rn *runner) pickLevel(r *vh.Rand) string {
	return lvlNames[r.Pick(12, 12, 6, 70)]
}

func (rn *runner) GenOp(r *vh.Rand, i int) string {
	rn.now += r.Range(0, 30_000_000) // 0..30ms, straddles max_ack_delay
	if rn.style == 4 && i == 0 {
		// start right at the range cap: 60..68 isolated ranges in the app-data space
		cnt := r.Range(60, 68)
		step := r.Range(2, 3)
		rn.next[2] = cnt * step
		rn.maxApp = (cnt - 1) * step
		for j := int64(0); j < cnt; j++ {
			rn.seen[2] = append(rn.seen[2], j*step)
		}
		return fmt.Sprintf("fill A %d 0 %d %d", cnt, step, rn.now)
	}
	if rn.style == 4 && r.Chance(45) {
		// near the cap: extend / merge / fill a hole / replay the lowest numbers
		var pn int64
		switch r.Pick(30, 25, 25, 20) {
		case 0:
			pn = rn.next[2]
			rn.next[2]++
		case 1:
			pn = r.Range(0, rn.next[2])
		case 2:
			pn = r.Range(0, 8)
		default:
			pn = rn.seen[2][r.Intn(len(rn.seen[2]))] + 1
		}
		if pn > rn.maxApp {
			rn.maxApp = pn
		}
		rn.seen[2] = append(rn.seen[2], pn)
		if r.Chance(35) {
			return fmt.Sprintf("dup A %d", pn)
		}
		return fmt.Sprintf("recv A %d 1 %d %d", pn, r.Intn(2), rn.now)
	}
	switch r.Pick(60, 12, 16, 6, 2, 4) {
	case 0: // recv
		l := rn.pickLevel(r)
		sp := space(l)
		var pn int64
		switch {
		case rn.style == 3:
			pn = r.Range(0, 9)
		case len(rn.seen[sp]) > 0 && r.Chance(12): // duplicate
			pn = rn.seen[sp][r.Intn(len(rn.seen[sp]))]
		default:
			gapP := []int{15, 45, 90, 30, 60}[rn.style]
			if r.Chance(gapP) {
				rn.next[sp] += r.Range(1, 4)
			}
			if rn.style == 1 && rn.next[sp] > 0 && r.Chance(50) { // late packet: fill some hole below
				pn = r.Range(0, rn.next[sp])
			} else {
				pn = rn.next[sp]
				rn.next[sp]++
			}
		}
		rn.seen[sp] = append(rn.seen[sp], pn)
		if sp == 2 && pn > rn.maxApp {
			rn.maxApp = pn
		}
		ecn := r.Pick(10, 50, 10, 20, 10)
		ae := 0
		if r.Chance(75) {
			ae = 1
		}
		return fmt.Sprintf("recv %s %d %d %d %d", l, pn, ecn, ae, rn.now)
	case 1: // dup?
		l := rn.pickLevel(r)
		sp := space(l)
		pn := r.Range(0, rn.next[sp]+3)
		if len(rn.seen[sp]) > 0 && r.Bool() {
			pn = rn.seen[sp][r.Intn(len(rn.seen[sp]))]
		}
		return fmt.Sprintf("dup %s %d", l, pn)
	case 2: // ack
		l := lvlNames[r.Pick(15, 15, 2, 68)]
		return fmt.Sprintf("ack %s %d %d", l, rn.now, r.Intn(2))
	case 3: // ignore (mostly at or below the largest received, as the connection does)
		// the connection calls this with LargestAcked+1 of an ACK it sent earlier, and records the
		// packet that carried the peer's ACK right afterwards, so the threshold stays <= the largest received
		pn := r.Range(0, max(rn.maxApp, 0))
		if r.Chance(3) {
			pn = rn.maxApp + r.Range(1, 5) // outside the caller's contract: the model predicts the panics
		}
		return fmt.Sprintf("ignore %d", pn)
	case 4:
		return fmt.Sprintf("drop %s", lvlNames[r.Pick(45, 45, 8, 2)])
	default: // time passes, then ask for an ACK only if queued
		rn.now += r.Range(20_000_000, 40_000_000)
		return fmt.Sprintf("ack A %d 1", rn.now)
	}
}

func fmtAck(a *wire.AckFrame) string {
	if a == nil {
		return "-"
	}
	var sb strings.Builder
	fmt.Fprintf(&sb, "d=%d e=%d,%d,%d r=", int64(a.DelayTime), a.ECT0, a.ECT1, a.ECNCE)
	for i, r := range a.AckRanges {
		if i > 0 {
			sb.WriteByte(';')
		}
		fmt.Fprintf(&sb, "%d-%d", r.Smallest, r.Largest)
	}
	return sb.String()
}

func (rn *runner) suffix() string {
	q := 0
	if rn.h.VerifAckQueued() {
		q = 1
	}
	return fmt.Sprintf(" a=%d q=%d", int64(rn.h.GetAlarmTimeout()), q)
}

func (rn *runner) AfterPanic(op string) string { return "PANIC" + rn.suffix() }

func (rn *runner) Exec(op string) string {
	f := strings.Fields(op)
	res := "bad-op"
	switch f[0] {
	case "recv":
		err := rn.h.ReceivedPacket(protocol.PacketNumber(vh.Atoi64(f[2])), protocol.ECN(vh.Atoi64(f[3])), lvlOf(f[1]), monotime.Time(vh.Atoi64(f[5])), f[4] == "1")
		switch {
		case err == nil:
			res = "ok"
		case strings.Contains(err.Error(), "BUG"):
			res = "E:bug"
		case strings.Contains(err.Error(), "0-RTT"):
			res = "E:0rtt"
		default:
			res = "E:other"
		}
	case "fill":
		res = "ok"
		cnt, start, step := vh.Atoi64(f[2]), vh.Atoi64(f[3]), vh.Atoi64(f[4])
		for j := int64(0); j < cnt; j++ {
			if err := rn.h.ReceivedPacket(protocol.PacketNumber(start+j*step), protocol.ECNNon, lvlOf(f[1]), monotime.Time(vh.Atoi64(f[5])), false); err != nil {
				res = "E:bug"
			}
		}
	case "dup":
		if rn.h.IsPotentiallyDuplicate(protocol.PacketNumber(vh.Atoi64(f[2])), lvlOf(f[1])) {
			res = "1"
		} else {
			res = "0"
		}
	case "ack":
		res = fmtAck(rn.h.GetAckFrame(lvlOf(f[1]), monotime.Time(vh.Atoi64(f[2])), f[3] == "1"))
	case "ignore":
		rn.h.IgnorePacketsBelow(protocol.PacketNumber(vh.Atoi64(f[1])))
		res = "ok"
	case "drop":
		rn.h.DropPackets(lvlOf(f[1]))
		res = "ok"
	}
	return res + rn.suffix()
}

// enumAll: every arrival sequence of length <= 5 over a 6-number universe, with every
// ack-eliciting mask, each followed by duplicate queries for the whole universe and an ACK.
func enumAll(emit func(ops []string)) {
	const U, L = 6, 5
	var seq [L]int
	var rec func(n, length int)
	rec = func(n, length int) {
		if n == length {
			for mask := 0; mask < 1<<length; mask++ {
				ops := make([]string, 0, length+U+2)
				now := int64(1000)
				for i := 0; i < length; i++ {
					now += 1_000_000
					ops = append(ops, fmt.Sprintf("recv A %d 1 %d %d", seq[i], (mask>>i)&1, now))
				}
				for p := 0; p < U; p++ {
					ops = append(ops, fmt.Sprintf("dup A %d", p))
				}
				ops = append(ops, fmt.Sprintf("ack A %d 1", now+1), fmt.Sprintf("ack A %d 0", now+30_000_000))
				emit(ops)
			}
			return
		}
		for v := 0; v < U; v++ {
			seq[n] = v
			rec(n+1, length)
		}
	}
	for length := 1; length <= L; length++ {
		rec(0, length)
	}
}

func TestDriver(t *testing.T) { vh.MainEnum(t, "rcv", newRunner, enumAll) }
