//go:build verif

// Package cid drives the real connIDManager, connIDGenerator and packetHandlerMap (property C16).
//
// One case = one connection: a manager (IDs issued by the peer), a generator (IDs we issue) and the
// transport's handler map they both call into. Everything runs inside one testing/synctest bubble per
// case so that the expiry timer of packetHandlerMap.ReplaceWithClosed runs on fake time.
package cid

import (
	"encoding/hex"
	"errors"
	"fmt"
	"math/bits"
	"sort"
	"strconv"
	"strings"
	"testing"
	"testing/synctest"
	"time"

	quic "github.com/refraction-networking/uquic"
	"github.com/refraction-networking/uquic/internal/protocol"
	"github.com/refraction-networking/uquic/internal/qerr"
	"github.com/refraction-networking/uquic/internal/verifharness/vh"
)

var _ = bits.OnesCount32

type frame struct {
	seq, rpt uint64
	id, tok  []byte
}

type runner struct {
	cmd  chan string
	res  chan string
	done chan struct{}

	// real objects; touched only by the bubble goroutine
	hm *quic.VerifHandlerMap
	m  *quic.VerifCIDManager
	g  *quic.VerifCIDGenerator
	pm *quic.VerifPathManager

	tokSet  bool
	newSeen bool
	genTokSet, genNewSeen, genInited, genGInited, genGClosed bool

	// ---- generator (peer simulator) state; written by the bubble goroutine before it answers, read by GenOp
	adv        uint64
	zeroLen    bool
	inited     bool
	ginited    bool
	closed     bool
	gclosed    bool
	hsdone     bool
	retired    map[uint64]bool
	sent       []frame
	pending    []frame
	issued     map[uint64]frame
	nextSeq    uint64
	rpt        uint64
	activeSeq  uint64
	queueSeqs  []uint64
	probeSeqs  []uint64
	probePaths []int64
	period     uint32
	// generator side
	gIDLen   int
	gLimit   uint64
	gNow     int64
	gActive  []quic.VerifCIDEntry
	gAllIDs  [][]byte // every ID ever issued (for pkt / retire destinations)
	gHighest uint64
	style    int
	pmMode   bool   // the case drives path probing through the real pathManager instead of calling the manager directly
	pmNow    int64
	pmPaths  []int64 // path ids a PATH_CHALLENGE was sent for
}

func hx(b []byte) string {
	if len(b) == 0 {
		return "-"
	}
	return hex.EncodeToString(b)
}

func unhx(s string) []byte {
	if s == "-" || s == "" {
		return []byte{}
	}
	b, err := hex.DecodeString(s)
	if err != nil {
		return []byte{}
	}
	return b
}

func tok16(b []byte) []byte {
	t := make([]byte, 16)
	copy(t, b)
	return t
}

// mkID is the application's ConnectionIDGenerator used by the driver (and known to the model).
func mkID(k, l int) []byte {
	b := make([]byte, l)
	for i := range b {
		if i == 0 {
			b[i] = byte((0x80 + k) % 256)
		} else {
			b[i] = byte((i*17 + k/128) % 256)
		}
	}
	return b
}

func newRunner(t *testing.T, r *vh.Rand) vh.Runner {
	rn := &runner{
		cmd: make(chan string), res: make(chan string), done: make(chan struct{}),
		retired: map[uint64]bool{}, issued: map[uint64]frame{}, nextSeq: 1, adv: protocol.MaxActiveConnectionIDs,
		gNow:  1_000_000_000,
		style: r.Pick(45, 25, 15, 15), // in order / heavy reordering / duplicates and conflicts / wild
		pmNow: 1_000_000_000,
	}
	rn.pmMode = r.Chance(40)
	go func() {
		defer close(rn.done)
		synctest.Test(t, func(t *testing.T) {
			rn.hm = quic.VerifNewHandlerMap()
			for op := range rn.cmd {
				if op == "\x00quit" {
					// let every pending expiry timer fire before the bubble ends
					time.Sleep(24 * time.Hour)
					synctest.Wait()
					return
				}
				rn.res <- rn.safe(op)
			}
		})
	}()
	return rn
}

func (rn *runner) Close() {
	rn.cmd <- "\x00quit"
	<-rn.done
}

func (rn *runner) Exec(op string) string {
	rn.cmd <- op
	return <-rn.res
}

func (rn *runner) safe(op string) (res string) {
	defer func() {
		if e := recover(); e != nil {
			res = "PANIC" + rn.suffix(op)
		}
	}()
	return rn.exec(op)
}

func errClass(err error) string {
	if err == nil {
		return "ok"
	}
	var te *qerr.TransportError
	if errors.As(err, &te) {
		switch te.ErrorCode {
		case qerr.ProtocolViolation:
			return "E:PROTOCOL_VIOLATION"
		case qerr.ConnectionIDLimitError:
			return "E:CONNECTION_ID_LIMIT_ERROR"
		}
		return "E:transport_other"
	}
	s := err.Error()
	switch {
	case strings.Contains(s, "conflicting connection IDs"):
		return "E:conflict_id"
	case strings.Contains(s, "conflicting stateless reset tokens"):
		return "E:conflict_token"
	}
	return "E:other"
}

func (rn *runner) ensureM() {
	if rn.m == nil {
		rn.m = quic.VerifNewConnIDManager([]byte{0x0a, 0x0b, 0x0c, 0x0d}, rn.hm)
		rn.inited = true
	}
}

func (rn *runner) ensureG() {
	if rn.g == nil {
		rn.initG(4, []byte{1, 2, 3, 4}, nil)
	}
}

func (rn *runner) initG(idLen int, initial, clientDest []byte) {
	rn.g = quic.VerifNewConnIDGenerator(idLen, initial, clientDest, rn.hm, mkID)
	rn.hm.AddInitial(initial)
	if clientDest != nil {
		rn.hm.AddInitial(clientDest)
	}
	rn.gIDLen = idLen
	rn.ginited = true
	rn.gAllIDs = append(rn.gAllIDs, initial)
	if clientDest != nil {
		rn.gAllIDs = append(rn.gAllIDs, clientDest)
	}
}

func fmtEvents(evs []quic.VerifCIDEvent) string {
	if len(evs) == 0 {
		return "-"
	}
	var parts []string
	for _, e := range evs {
		switch e.Kind {
		case "retire":
			parts = append(parts, fmt.Sprintf("R%d", e.Seq))
		case "addtok":
			parts = append(parts, "+"+hx(e.Tok))
		case "rmtok":
			parts = append(parts, "-"+hx(e.Tok))
		case "addroute":
			parts = append(parts, "A"+hx(e.ID))
		case "rmroute":
			parts = append(parts, "D"+hx(e.ID))
		case "newcid":
			parts = append(parts, fmt.Sprintf("N%d:%s", e.Seq, hx(e.ID)))
		case "replace":
			ids := make([]string, 0, len(e.IDs))
			for _, id := range e.IDs {
				ids = append(ids, hx(id))
			}
			sort.Strings(ids) // the list is built from a Go map iteration
			l := 0
			if e.Local {
				l = 1
			}
			parts = append(parts, fmt.Sprintf("C%d:%d:%s", l, int64(e.Expiry), strings.Join(ids, ";")))
		default:
			parts = append(parts, "?"+e.Kind)
		}
	}
	return strings.Join(parts, ",")
}

// mstate prints the manager's observable state and records what the peer simulator needs.
func (rn *runner) mstate() string {
	if rn.m == nil {
		return " | -"
	}
	a, q, p, per := rn.m.State()
	var sb strings.Builder
	tk := "-"
	if a.Tok != nil {
		tk = hx(a.Tok)
	}
	fmt.Fprintf(&sb, " | a=%d:%s:%s q=", a.Seq, hx(a.ID), tk)
	rn.activeSeq = a.Seq
	rn.queueSeqs = rn.queueSeqs[:0]
	rn.probeSeqs = rn.probeSeqs[:0]
	rn.probePaths = rn.probePaths[:0]
	rn.period = per
	if len(q) == 0 {
		sb.WriteString("-")
	}
	for i, e := range q {
		if i > 0 {
			sb.WriteByte('/')
		}
		fmt.Fprintf(&sb, "%d", e.Seq)
		rn.queueSeqs = append(rn.queueSeqs, e.Seq)
	}
	sb.WriteString(" p=")
	if len(p) == 0 {
		sb.WriteString("-")
	}
	for i, e := range p {
		if i > 0 {
			sb.WriteByte('/')
		}
		fmt.Fprintf(&sb, "%d:%d:%s", e.Path, e.Seq, hx(e.Tok))
		rn.probeSeqs = append(rn.probeSeqs, e.Seq)
		rn.probePaths = append(rn.probePaths, e.Path)
	}
	fmt.Fprintf(&sb, " per=%d rt=", per)
	toks := rn.hm.Tokens()
	if len(toks) == 0 {
		sb.WriteString("-")
	}
	for i, t := range toks {
		if i > 0 {
			sb.WriteByte('/')
		}
		sb.WriteString(hx(t))
	}
	if rn.pm != nil {
		ps, next := rn.pm.State()
		fmt.Fprintf(&sb, " pm=%d:", next)
		if len(ps) == 0 {
			sb.WriteString("-")
		}
		for i, p := range ps {
			if i > 0 {
				sb.WriteByte('/')
			}
			v, n := 0, 0
			if p.Validated {
				v = 1
			}
			if p.RcvdNonProbing {
				n = 1
			}
			fmt.Fprintf(&sb, "%d@%d,%d,%d%d", p.ID, p.Addr, p.LastPacketTime, v, n)
		}
	}
	return sb.String()
}

func (rn *runner) ensurePM() {
	rn.ensureM()
	if rn.pm == nil {
		rn.pm = quic.VerifNewPathManager(rn.m)
	}
}

func (rn *runner) routes() string {
	ids, kinds := rn.hm.Routes()
	if len(ids) == 0 {
		return "routes=-"
	}
	parts := make([]string, len(ids))
	for i := range ids {
		parts[i] = hx(ids[i]) + ":" + kinds[i]
	}
	return "routes=" + strings.Join(parts, "/")
}

func (rn *runner) gstate() string {
	if rn.g == nil {
		return " | -"
	}
	act, ret, at, cd, hs := rn.g.State()
	rn.gActive = act
	rn.gHighest = hs
	var sb strings.Builder
	sb.WriteString(" | act=")
	if len(act) == 0 {
		sb.WriteString("-")
	}
	for i, e := range act {
		if i > 0 {
			sb.WriteByte('/')
		}
		fmt.Fprintf(&sb, "%d:%s", e.Seq, hx(e.ID))
	}
	sb.WriteString(" ret=")
	if len(ret) == 0 {
		sb.WriteString("-")
	}
	for i, e := range ret {
		if i > 0 {
			sb.WriteByte('/')
		}
		fmt.Fprintf(&sb, "%d:%s", at[i], hx(e.ID))
	}
	if cd == nil {
		sb.WriteString(" icd=none")
	} else {
		sb.WriteString(" icd=" + hx(cd))
	}
	fmt.Fprintf(&sb, " hs=%d ", hs)
	sb.WriteString(rn.routes())
	return sb.String()
}

func (rn *runner) takeM() string {
	if rn.m == nil {
		return "-"
	}
	evs := rn.m.Events
	rn.m.Events = nil
	for _, e := range evs {
		if e.Kind == "retire" {
			rn.retired[e.Seq] = true
		}
	}
	return fmtEvents(evs)
}

func (rn *runner) takeG(sortAll bool) string {
	if rn.g == nil {
		return "-"
	}
	evs := rn.g.Events
	rn.g.Events = nil
	for _, e := range evs {
		if e.Kind == "newcid" {
			rn.gAllIDs = append(rn.gAllIDs, e.ID)
		}
	}
	if sortAll { // RemoveAll iterates over a Go map
		sort.SliceStable(evs, func(i, j int) bool { return string(evs[i].ID) < string(evs[j].ID) })
	}
	return fmtEvents(evs)
}

func isGenOp(op string) bool {
	return strings.HasPrefix(op, "g.") || strings.HasPrefix(op, "pkt ") || strings.HasPrefix(op, "timer ") || strings.HasPrefix(op, "dial2 ")
}

// suffix = callbacks made by the op + state afterwards (also after a panic).
func (rn *runner) suffix(op string) string {
	if isGenOp(op) {
		return " ev=" + rn.takeG(op == "g.removeall") + rn.gstate()
	}
	return " ev=" + rn.takeM() + rn.mstate()
}

func u64(s string) uint64 { n, _ := strconv.ParseUint(s, 10, 64); return n }

func (rn *runner) exec(op string) string {
	w := strings.Fields(op)
	if len(w) == 0 {
		return "skip"
	}
	switch w[0] {
	case "init": // init <hexdest|-> <plain | client version fingerprint>
		if rn.m != nil || len(w) < 3 {
			return "skip"
		}
		var adv uint64
		var set int64
		var ok bool
		if w[2] == "plain" {
			adv, set, ok = quic.VerifAdvertisedCIDLimit("", "", "")
		} else if len(w) >= 5 {
			adv, set, ok = quic.VerifAdvertisedCIDLimit(w[2], w[3], w[4])
		}
		if !ok {
			return "skip"
		}
		rn.m = quic.VerifNewConnIDManager(unhx(w[1]), rn.hm)
		if set >= 0 {
			rn.m.SetConnectionIDLimit(uint64(set)) // as newUClientConnection does
		}
		rn.adv = adv
		rn.inited = true
		rn.zeroLen = len(unhx(w[1])) == 0
		return fmt.Sprintf("adv=%d set=%d", adv, set) + rn.suffix(op)
	case "limit": // limit <n>: a custom QUICSpec advertises active_connection_id_limit n (0: parameter absent); before any frame
		if len(w) < 2 || rn.newSeen {
			return "skip"
		}
		rn.ensureM()
		n := u64(w[1])
		rn.m.SetConnectionIDLimit(n)
		rn.adv = n
		if n == 0 {
			rn.adv = protocol.DefaultActiveConnectionIDLimit
		}
		return "ok" + rn.suffix(op)
	case "new": // new <seq> <rpt> <hexid> <hextok>
		if len(w) < 5 {
			return "skip"
		}
		rn.ensureM()
		rn.newSeen = true
		err := rn.m.Add(u64(w[1]), u64(w[2]), unhx(w[3]), tok16(unhx(w[4])))
		return errClass(err) + rn.suffix(op)
	case "pref": // pref <hexid> <hextok>; only before any NEW_CONNECTION_ID frame (transport parameters come first)
		if len(w) < 3 || rn.newSeen {
			return "skip"
		}
		rn.ensureM()
		rn.newSeen = true
		err := rn.m.AddFromPreferredAddress(unhx(w[1]), tok16(unhx(w[2])))
		return errClass(err) + rn.suffix(op)
	case "get":
		rn.ensureM()
		id := rn.m.Get()
		return "id=" + hx(id) + rn.suffix(op)
	case "sentpkt":
		if len(w) < 2 {
			return "skip"
		}
		rn.ensureM()
		n := u64(w[1])
		if n > 100000 {
			n = 100000
		}
		for i := uint64(0); i < n; i++ {
			rn.m.SentPacket()
		}
		return "ok" + rn.suffix(op)
	case "path":
		if len(w) < 2 {
			return "skip"
		}
		rn.ensureM()
		id, ok := rn.m.GetConnIDForPath(int64(u64(w[1])))
		o := 0
		if ok {
			o = 1
		}
		return fmt.Sprintf("id=%s ok=%d", hx(id), o) + rn.suffix(op)
	case "retirepath":
		if len(w) < 2 {
			return "skip"
		}
		rn.ensureM()
		rn.m.RetireConnIDForPath(int64(u64(w[1])))
		return "ok" + rn.suffix(op)
	case "hsdone":
		rn.ensureM()
		rn.m.SetHandshakeComplete()
		rn.hsdone = true
		return "ok" + rn.suffix(op)
	case "close":
		rn.ensureM()
		rn.m.Close()
		rn.closed = true
		return "ok" + rn.suffix(op)
	case "settok": // the server's transport parameters are handled once
		if len(w) < 2 || rn.tokSet {
			return "skip"
		}
		rn.ensureM()
		rn.tokSet = true
		rn.m.SetStatelessResetToken(tok16(unhx(w[1])))
		return "ok" + rn.suffix(op)
	case "chinit":
		if len(w) < 2 {
			return "skip"
		}
		rn.ensureM()
		rn.m.ChangeInitialConnID(unhx(w[1]))
		return "ok" + rn.suffix(op)
	case "pm.pkt": // pm.pkt <addr> <t> <hasChallenge 0|1> <nonProbing 0|1>: a packet from another address reaches the server connection
		if len(w) < 5 {
			return "skip"
		}
		rn.ensurePM()
		id, ch, resp, sw := rn.pm.HandlePacket(int(u64(w[1])), int64(u64(w[2])), w[3] == "1", w[4] == "1")
		if ch >= 0 {
			rn.pmPaths = append(rn.pmPaths, ch)
		}
		ids := "none"
		if id != nil {
			ids = hx(id)
		}
		b := func(x bool) int {
			if x {
				return 1
			}
			return 0
		}
		return fmt.Sprintf("id=%s ch=%d resp=%d sw=%d", ids, ch, b(resp), b(sw)) + rn.suffix(op)
	case "pm.lost": // pm.lost <path>: the packet that carried this path's PATH_CHALLENGE is declared lost
		if len(w) < 2 {
			return "skip"
		}
		rn.ensurePM()
		if !rn.pm.Lost(int64(u64(w[1]))) {
			return "skip"
		}
		return "ok" + rn.suffix(op)
	case "pm.acked":
		if len(w) < 2 {
			return "skip"
		}
		rn.ensurePM()
		if !rn.pm.Acked(int64(u64(w[1]))) {
			return "skip"
		}
		return "ok" + rn.suffix(op)
	case "pm.lostresp":
		rn.ensurePM()
		rn.pm.LostResponse()
		return "ok" + rn.suffix(op)
	case "pm.resp": // pm.resp <path>: the PATH_RESPONSE for this path's challenge arrives
		if len(w) < 2 {
			return "skip"
		}
		rn.ensurePM()
		if !rn.pm.Response(int64(u64(w[1]))) {
			return "skip"
		}
		return "ok" + rn.suffix(op)
	case "pm.switch": // pm.switch <addr>: the connection migrates to this address
		if len(w) < 2 {
			return "skip"
		}
		rn.ensurePM()
		rn.pm.SwitchToPath(int(u64(w[1])))
		return "ok" + rn.suffix(op)
	case "istok":
		if len(w) < 2 {
			return "skip"
		}
		rn.ensureM()
		r := 0
		if rn.m.IsActiveStatelessResetToken(tok16(unhx(w[1]))) {
			r = 1
		}
		return fmt.Sprintf("%d", r) + rn.suffix(op)

	// ------------------------------------------------ generator + routing
	case "g.init": // g.init <idlen> <hexinitial> <hexclientdest|none>
		if rn.g != nil || len(w) < 4 {
			return "skip"
		}
		var cd []byte
		if w[3] != "none" {
			cd = unhx(w[3])
		}
		rn.initG(int(u64(w[1])), unhx(w[2]), cd)
		return "ok" + rn.suffix(op)
	case "g.limit":
		if len(w) < 2 {
			return "skip"
		}
		rn.ensureG()
		if rn.gclosed {
			return "skip"
		}
		err := rn.g.SetMaxActiveConnIDs(u64(w[1]))
		rn.gLimit = u64(w[1])
		return errClass(err) + rn.suffix(op)
	case "g.retire": // g.retire <seq> <hexdst> <expiry>
		if len(w) < 4 {
			return "skip"
		}
		rn.ensureG()
		if rn.gclosed || rn.g.Generated() >= 100 {
			return "skip"
		}
		err := rn.g.Retire(u64(w[1]), unhx(w[2]), int64(u64(w[3])))
		return errClass(err) + rn.suffix(op)
	case "g.hsdone":
		if len(w) < 2 {
			return "skip"
		}
		rn.ensureG()
		if rn.gclosed {
			return "skip"
		}
		rn.g.SetHandshakeComplete(int64(u64(w[1])))
		return "ok" + rn.suffix(op)
	case "g.expire":
		if len(w) < 2 {
			return "skip"
		}
		rn.ensureG()
		if rn.gclosed {
			return "skip"
		}
		rn.g.RemoveRetiredConnIDs(int64(u64(w[1])))
		return "ok" + rn.suffix(op)
	case "g.removeall": // close path: immediate / nothing sent yet
		rn.ensureG()
		if rn.gclosed {
			return "skip"
		}
		rn.gclosed = true
		rn.g.RemoveAll()
		return "ok" + rn.suffix(op)
	case "g.replace": // g.replace <local 0|1> <expiry ns>: close path with a closing / draining period
		if len(w) < 3 {
			return "skip"
		}
		rn.ensureG()
		if rn.gclosed {
			return "skip"
		}
		rn.gclosed = true
		rn.g.ReplaceWithClosed(w[1] == "1", time.Duration(u64(w[2])))
		return "ok" + rn.suffix(op)
	case "timer": // timer <ns>: fake time passes
		if len(w) < 2 {
			return "skip"
		}
		time.Sleep(time.Duration(u64(w[1])))
		synctest.Wait()
		return "ok" + rn.suffix(op)
	case "dial2": // dial2 <hexid>: after the first connection closed, a second one is dialled on the same transport with this
		// source connection ID (with zero-length connection IDs: the same, empty one)
		if len(w) < 2 || !rn.gclosed {
			return "skip"
		}
		rn.hm.InstallSecond(unhx(w[1]))
		return "ok" + rn.suffix(op)
	case "pkt": // pkt <hexid>: a packet with this destination connection ID arrives at the transport
		if len(w) < 2 {
			return "skip"
		}
		kind, reached, cc := rn.hm.Deliver(unhx(w[1]))
		c := 0
		if reached {
			c = 1
		}
		return fmt.Sprintf("%s conn=%d cc=%d", kind, c, cc) + rn.suffix(op)
	}
	return "skip"
}

// ---------------------------------------------------------------- generation

func (rn *runner) freshFrame(r *vh.Rand, seq uint64) frame {
	idLen := int(r.Range(1, 20))
	if r.Chance(70) {
		idLen = []int{4, 8, 8, 16}[r.Intn(4)]
	}
	id := r.Bytes(idLen)
	id[0] = byte(seq) // readable
	tok := r.Bytes(16)
	tok[0] = byte(seq)
	return frame{seq: seq, rpt: rn.rpt, id: id, tok: tok}
}

func (f frame) op() string {
	return fmt.Sprintf("new %d %d %s %s", f.seq, f.rpt, hx(f.id), hx(f.tok))
}

// unretired counts the IDs the peer considers in use after the receiver has applied Retire Prior To = rpt.
func (rn *runner) unretired(rpt uint64) int {
	n := 0
	if !rn.retired[0] && rpt == 0 {
		n++
	}
	for s := range rn.issued {
		if s >= rpt && !rn.retired[s] {
			n++
		}
	}
	return n
}

func (rn *runner) genNew(r *vh.Rand) string {
	wDup := []int{8, 10, 35, 15}[rn.style]
	wPend := 0
	if len(rn.pending) > 0 {
		wPend = []int{10, 45, 15, 20}[rn.style]
	}
	wWild := []int{2, 3, 5, 45}[rn.style]
	wConf := []int{1, 1, 10, 5}[rn.style]
	if len(rn.sent) == 0 {
		wDup, wConf = 0, 0
	}
	switch r.Pick(60, wPend, wDup, wConf, wWild) {
	case 0: // the peer issues the next sequence number
		for tries := 0; tries < 4; tries++ {
			if r.Chance([]int{4, 8, 4, 15}[rn.style]) { // a gap: this sequence number is lost for now (or for ever)
				f := rn.freshFrame(r, rn.nextSeq)
				rn.issued[f.seq] = f
				rn.nextSeq++
				if r.Bool() {
					rn.pending = append(rn.pending, f)
				}
				continue
			}
			// stay within the limit the endpoint advertised, using Retire Prior To when needed
			if rn.unretired(rn.rpt)+1 > int(rn.adv) {
				switch r.Pick(70, 22, 8) {
				case 0:
					for rn.unretired(rn.rpt)+1 > int(rn.adv) && rn.rpt < rn.nextSeq {
						rn.rpt++
					}
					if r.Chance(15) && rn.rpt < rn.nextSeq { // retire more than needed
						rn.rpt += uint64(r.Range(1, int64(rn.nextSeq-rn.rpt)))
					}
				case 1:
					if len(rn.sent) > 0 {
						return rn.sent[r.Intn(len(rn.sent))].op()
					}
				default: // a peer that ignores our limit
				}
			} else if r.Chance(6) && rn.rpt < rn.nextSeq { // spontaneous Retire Prior To jump
				rn.rpt += uint64(r.Range(1, int64(rn.nextSeq-rn.rpt)))
			}
			f := rn.freshFrame(r, rn.nextSeq)
			rn.issued[f.seq] = f
			rn.nextSeq++
			if r.Chance([]int{8, 45, 15, 20}[rn.style]) { // held back by the network
				rn.pending = append(rn.pending, f)
				continue
			}
			rn.sent = append(rn.sent, f)
			return f.op()
		}
		fallthrough
	case 1:
		if len(rn.pending) > 0 {
			i := r.Intn(len(rn.pending))
			f := rn.pending[i]
			rn.pending = append(rn.pending[:i], rn.pending[i+1:]...)
			rn.sent = append(rn.sent, f)
			return f.op()
		}
		fallthrough
	case 2: // retransmission of a frame sent earlier, biased to the interesting holders
		if len(rn.sent) > 0 {
			var cands []uint64
			switch r.Pick(20, 25, 30, 25) {
			case 0:
				cands = []uint64{rn.activeSeq}
			case 1:
				cands = rn.queueSeqs
			case 2:
				cands = rn.probeSeqs
			default:
				for s := range rn.retired {
					cands = append(cands, s)
				}
				sort.Slice(cands, func(i, j int) bool { return cands[i] < cands[j] })
			}
			if len(cands) > 0 {
				s := cands[r.Intn(len(cands))]
				if f, ok := rn.issued[s]; ok {
					if r.Chance(25) {
						f.rpt = min(rn.rpt, f.seq) // re-framed with the current Retire Prior To
					}
					return f.op()
				}
			}
			return rn.sent[r.Intn(len(rn.sent))].op()
		}
		fallthrough
	case 3: // conflicting contents for a known sequence number
		if len(rn.sent) > 0 {
			f := rn.sent[r.Intn(len(rn.sent))]
			if r.Bool() {
				f.id = append([]byte{0xee}, f.id...)
				if len(f.id) > 20 {
					f.id = f.id[:20]
				}
			} else {
				f.tok = append([]byte{}, f.tok...)
				f.tok[15] ^= 0x55
			}
			return f.op()
		}
		fallthrough
	default: // anything the wire format allows
		seq := uint64(r.Range(0, int64(rn.nextSeq)+3))
		f := rn.freshFrame(r, seq)
		f.rpt = uint64(r.Range(0, int64(seq)))
		if r.Chance(50) {
			f.rpt = min(rn.rpt, seq)
		}
		if g, ok := rn.issued[seq]; ok && r.Chance(70) {
			f.id, f.tok = g.id, g.tok
		} else if !ok {
			rn.issued[seq] = f
			if seq >= rn.nextSeq {
				rn.nextSeq = seq + 1
			}
		}
		rn.sent = append(rn.sent, f)
		return f.op()
	}
}

func (rn *runner) genG(r *vh.Rand) string {
	if !rn.genGInited {
		idLen := []int{0, 4, 4, 8, 8, 16, 20}[r.Intn(7)]
		initial := r.Bytes(idLen)
		if idLen > 0 {
			initial[0] &= 0x7f
		}
		cd := "none"
		if r.Bool() {
			b := r.Bytes(int(r.Range(8, 20)))
			b[0] &= 0x7f
			cd = hx(b)
		}
		rn.genGInited = true
		return fmt.Sprintf("g.init %d %s %s", idLen, hx(initial), cd)
	}
	rn.gNow += r.Range(0, 400_000_000)
	if rn.genGClosed {
		switch r.Pick(35, 50, 15) {
		case 0:
			return fmt.Sprintf("timer %d", r.Range(1, 2_000_000_000))
		case 2: // the next dial on this transport: the same ID when connection IDs have zero length, mostly
			if rn.gIDLen == 0 || r.Chance(60) {
				return "dial2 " + hx(rn.gAllIDs[0])
			}
			return "dial2 " + hx(rn.somePktID(r))
		default:
			return "pkt " + hx(rn.somePktID(r))
		}
	}
	if rn.gLimit == 0 && r.Chance(70) {
		rn.gLimit = uint64(r.Range(2, 8))
		if r.Chance(5) {
			rn.gLimit = uint64(r.Range(0, 12))
		}
		return fmt.Sprintf("g.limit %d", rn.gLimit)
	}
	switch r.Pick(45, 4, 6, 14, 18, 3, 3) {
	case 0: // RETIRE_CONNECTION_ID from the peer
		var seq uint64
		switch {
		case len(rn.gActive) > 0 && r.Chance(75):
			seq = rn.gActive[r.Intn(len(rn.gActive))].Seq
		case r.Chance(70):
			seq = uint64(r.Range(0, int64(rn.gHighest)))
		default:
			seq = rn.gHighest + uint64(r.Range(1, 3))
		}
		var dst []byte
		switch {
		case r.Chance(12): // the ID being retired itself
			for _, e := range rn.gActive {
				if e.Seq == seq {
					dst = e.ID
				}
			}
		case len(rn.gActive) > 0:
			dst = rn.gActive[r.Intn(len(rn.gActive))].ID
		}
		if dst == nil {
			dst = rn.somePktID(r)
		}
		return fmt.Sprintf("g.retire %d %s %d", seq, hx(dst), rn.gNow+r.Range(0, 900_000_000))
	case 1:
		l := rn.gLimit
		if r.Chance(10) {
			l = uint64(r.Range(2, 8))
		}
		return fmt.Sprintf("g.limit %d", l)
	case 2:
		return fmt.Sprintf("g.hsdone %d", rn.gNow+r.Range(0, 900_000_000))
	case 3:
		return fmt.Sprintf("g.expire %d", rn.gNow)
	case 4:
		return "pkt " + hx(rn.somePktID(r))
	case 5:
		rn.genGClosed = true
		return "g.removeall"
	default:
		rn.genGClosed = true
		return fmt.Sprintf("g.replace %d %d", r.Intn(2), r.Range(1, 1_500_000_000))
	}
}

// genPM: packets from other addresses (new paths, repeated probes, spaced around pathTimeout), PATH_RESPONSEs,
// lost / acknowledged PATH_CHALLENGEs, migration.
func (rn *runner) genPM(r *vh.Rand) string {
	switch r.Pick(50, 14, 16, 6, 3, 11) {
	case 0:
		switch r.Pick(60, 25, 15) {
		case 0:
			rn.pmNow += r.Range(0, 400_000_000)
		case 1:
			rn.pmNow += r.Range(1_000_000_000, 3_000_000_000)
		default:
			rn.pmNow += r.Range(4_900_000_000, 5_100_000_000)
		}
		return fmt.Sprintf("pm.pkt %d %d %d %d", r.Range(1, 6), rn.pmNow, r.Intn(2), r.Intn(2))
	case 1:
		if len(rn.pmPaths) > 0 {
			return fmt.Sprintf("pm.resp %d", rn.pmPaths[r.Intn(len(rn.pmPaths))])
		}
	case 2:
		if len(rn.pmPaths) > 0 {
			p := rn.pmPaths[len(rn.pmPaths)-1-r.Intn(min(3, len(rn.pmPaths)))]
			return fmt.Sprintf("pm.lost %d", p)
		}
	case 3:
		if len(rn.pmPaths) > 0 {
			return fmt.Sprintf("pm.acked %d", rn.pmPaths[r.Intn(len(rn.pmPaths))])
		}
	case 4:
		return "pm.lostresp"
	default:
		return fmt.Sprintf("pm.switch %d", r.Range(1, 6))
	}
	rn.pmNow += r.Range(0, 400_000_000)
	return fmt.Sprintf("pm.pkt %d %d %d %d", r.Range(1, 6), rn.pmNow, r.Intn(2), r.Intn(2))
}

func (rn *runner) someTok(r *vh.Rand) []byte {
	if len(rn.sent) > 0 && r.Chance(85) {
		return rn.sent[r.Intn(len(rn.sent))].tok
	}
	return r.Bytes(16)
}

func (rn *runner) somePktID(r *vh.Rand) []byte {
	if len(rn.gAllIDs) > 0 && r.Chance(85) {
		return rn.gAllIDs[r.Intn(len(rn.gAllIDs))]
	}
	return r.Bytes(int(r.Range(1, 20))) // a foreign ID
}

func (rn *runner) GenOp(r *vh.Rand, i int) string {
	if !rn.genInited {
		rn.genInited = true
		switch r.Pick(68, 12, 20) {
		case 0:
			return "init " + hx(r.Bytes(int(r.Range(4, 20)))) + " plain"
		case 1:
			rn.zeroLen = true
			return "init - plain"
		default:
			ids := quic.VerifQUICIDs()
			q := ids[r.Intn(len(ids))]
			return fmt.Sprintf("init %s %s %s %s", hx(r.Bytes(int(r.Range(8, 20)))), q.Client, q.Version, q.Fingerprint)
		}
	}
	if i == 1 && !rn.zeroLen && !rn.genNewSeen && r.Chance(25) {
		n := r.Range(2, 8)
		if r.Chance(10) {
			n = r.Range(0, 12)
		}
		return fmt.Sprintf("limit %d", n)
	}
	if r.Chance(28) {
		return rn.genG(r)
	}
	if rn.closed {
		// the connection never uses a closed manager; a few calls to pin the panics down
		switch r.Pick(30, 30, 20, 20) {
		case 0:
			return "get"
		case 1:
			return rn.genNew(r)
		case 2:
			return fmt.Sprintf("path %d", r.Range(1, 4))
		default:
			return "istok " + hx(r.Bytes(16))
		}
	}
	if i < 6 {
		switch r.Pick(70, 8, 8, 8, 6) {
		case 1:
			if !rn.genTokSet {
				rn.genTokSet = true
				return "settok " + hx(r.Bytes(16))
			}
		case 2:
			if !rn.genNewSeen {
				rn.genNewSeen = true
				f := rn.freshFrame(r, 1)
				rn.issued[1] = f
				if rn.nextSeq < 2 {
					rn.nextSeq = 2
				}
				rn.sent = append(rn.sent, f)
				return fmt.Sprintf("pref %s %s", hx(f.id), hx(f.tok))
			}
		case 3:
			return "chinit " + hx(r.Bytes(int(r.Range(4, 20))))
		case 4:
			return "hsdone"
		}
	}
	wHs := 3
	if !rn.hsdone {
		wHs = 8
	}
	switch r.Pick(38, 14, 14, 10, 7, wHs, 1, 4, 1, 1) {
	case 0:
		rn.genNewSeen = true
		return rn.genNew(r)
	case 1:
		return "get"
	case 2:
		switch r.Pick(50, 30, 20) {
		case 0:
			return fmt.Sprintf("sentpkt %d", r.Range(1, 60))
		case 1:
			return fmt.Sprintf("sentpkt %d", r.Range(4000, 16000))
		default: // just enough / just not enough for the current period
			p := int64(rn.period)
			return fmt.Sprintf("sentpkt %d", max(1, p+r.Range(-2, 2)))
		}
	case 3:
		if rn.pmMode {
			return rn.genPM(r)
		}
		return fmt.Sprintf("path %d", r.Range(1, 4))
	case 4:
		if rn.pmMode {
			return rn.genPM(r)
		}
		if len(rn.probePaths) > 0 && r.Chance(80) {
			return fmt.Sprintf("retirepath %d", rn.probePaths[r.Intn(len(rn.probePaths))])
		}
		return fmt.Sprintf("retirepath %d", r.Range(1, 5))
	case 5:
		return "hsdone"
	case 6:
		if i > 20 {
			return "close"
		}
		return "get"
	case 7:
		return "istok " + hx(rn.someTok(r))
	case 8:
		return "chinit " + hx(r.Bytes(int(r.Range(4, 20))))
	default:
		if !rn.genTokSet {
			rn.genTokSet = true
			return "settok " + hx(r.Bytes(16))
		}
		return "get"
	}
}

func TestDriver(t *testing.T) {
	vh.Main(t, "cid", func(r *vh.Rand) vh.Runner { return newRunner(t, r) })
}
