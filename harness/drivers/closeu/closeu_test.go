//go:build verif

// Package closeu is the unit-level correspondence driver of property C17: it calls the real
// close / idle-timeout code of package quic through the verif hooks and prints what happened.
//
// ops (positional; durations and times in ns; "-" = unset):
//
//	idle <lastRcv> <firstAE> <idleTimeout> <keepAlivePeriod> <keepAliveInterval> <pingSent> <rttSample> <maxAckDelay>
//	    => <pto> <idleStart> <nextIdle> <nextKeepAlive>
//	nego <cfgMaxIdle> <peerMaxIdle> <keepAlivePeriod> => <idleTimeout> <keepAliveInterval>
//	timer <lastRcvOff> <firstAEOff|-> <creationOff> <idleTimeout> <kaPeriod> <kaInterval> <pingSent> <hsComplete>
//	      <hsIdleTimeout> <rttSample> <maxAckDelay> <blocked> <ackRcvOff|-> <lossOff|-> <paceOff|->
//	    => <pto> <ackAlarmOff|-> <fireAfter>
//	close <client> <sentFirst> <qlog> <token> <errs> <blocked> <later> <queuedDgrams> <packets>
//	    => pre=.. rec=.. ret=.. returns=.. later=.. ev=.. replies=.. h=.. hx=.. exp=.. tok=..
//	    errs: spec;spec…  spec = kind:code:(r|l):(w|p):(i|n)   blocked: a,b,… or -
//	closedconn <local|remote> <n> => <replies>
//	kaseq <idleTimeout> <keepAlivePeriod> <keepAliveInterval> <pingSent> <rttSample> <ev,ev,…>
//	    => pto=<pto> seq=<ka|->:<idle>,…     (one entry per event; deadlines relative to the initial last-packet-received time)
//	    ev = <kind><dt ns>; kind r = a PING is received, a = a padding-only packet is received, s = an ack-eliciting
//	    1-RTT packet is sent, n = a 1-RTT packet that is not ack-eliciting is sent, p = a path probe packet is sent
//	trlife <singleUse> <createdConn> <idsPerConn> <expiryMs> <ev,ev,…>
//	    => seq=<stopped><socketClosed>:<handlers>[:E],…    (one entry per event, on a real Transport over a scripted socket)
//	    ev = L Transport.Listen | c Listener.Close | a<k> connection k's IDs are added | rl<k> / rr<k> ReplaceWithClosed of
//	    k's IDs with / without a CONNECTION_CLOSE packet | x<k> Remove of k's IDs | w<ms> time passes | T Transport.Close
package closeu

import (
	"fmt"
	"strconv"
	"strings"
	"testing"
	"testing/synctest"
	"time"

	quic "github.com/refraction-networking/uquic"
	"github.com/refraction-networking/uquic/internal/verifharness/vh"
)

var theT *testing.T

type runner struct{}

func newRunner(r *vh.Rand) vh.Runner { return &runner{} }

func dur(r *vh.Rand) int64 {
	// durations from 0 to 60 s with a bias to round and small values
	switch r.Pick(10, 30, 30, 20, 10) {
	case 0:
		return 0
	case 1:
		return r.Range(1, 200) * int64(time.Millisecond)
	case 2:
		return r.Range(1, 60) * int64(time.Second)
	case 3:
		return r.Range(1, 60_000_000_000)
	}
	return r.Range(1, 5_000_000)
}

func b01(b bool) int {
	if b {
		return 1
	}
	return 0
}

var errKinds = []string{"app", "tr", "idle", "hstimeout", "reset", "vn", "recreate", "other", "tclosed", "nil", "trapp"}

func genErr(r *vh.Rand) string {
	k := errKinds[r.Pick(28, 22, 8, 6, 6, 4, 4, 8, 5, 4, 5)]
	code := r.Range(0, 20)
	if r.Chance(20) {
		code = r.Range(0, 1<<40)
	}
	if k == "trapp" {
		code = r.Range(0, 200)
	}
	role := "l"
	if (k == "app" || k == "tr" || k == "trapp") && r.Chance(40) {
		role = "r"
	}
	w := "p"
	if k != "nil" && r.Chance(12) {
		w = "w"
	}
	// immediate as the code uses it: timeouts, resets, VN, transport close and nil are destroyImpl;
	// application / transport errors are mostly closeLocal / run-loop errors (not immediate)
	imm := "n"
	switch k {
	case "idle", "hstimeout", "reset", "vn", "tclosed", "nil":
		if r.Chance(90) {
			imm = "i"
		}
	default:
		if r.Chance(15) {
			imm = "i"
		}
	}
	return fmt.Sprintf("%s:%d:%s:%s:%s", k, code, role, w, imm)
}

var callers = []string{"read", "readuni", "write", "accept", "acceptuni", "open", "openuni", "rcvdgram", "senddgram"}

func (rn *runner) GenOp(r *vh.Rand, i int) string {
	switch r.Pick(22, 7, 22, 32, 5, 12, 14) {
	case 6:
		return genTrLife(r)
	case 0: // idle helpers on arbitrary field values (also negative and zero)
		lr := r.Range(-1_000_000_000_000, 1_000_000_000_000)
		fae := int64(0)
		switch r.Pick(30, 35, 30, 5) {
		case 1:
			fae = lr + r.Range(1, 30_000_000_000)
		case 2:
			fae = lr - r.Range(0, 30_000_000_000)
		case 3:
			fae = lr
		}
		kap := int64(0)
		if r.Chance(60) {
			kap = dur(r)
		}
		return fmt.Sprintf("idle %d %d %d %d %d %d %d %d", lr, fae, dur(r), kap, dur(r), b01(r.Chance(25)), dur(r)/50, r.Range(0, 50)*int64(time.Millisecond))
	case 1:
		// local value 0 = "use the default", peer value 0 = the peer's transport parameters omit max_idle_timeout
		l, pr := dur(r), dur(r)
		if r.Chance(25) {
			l = 0
		}
		if r.Chance(35) {
			pr = 0
		}
		return fmt.Sprintf("nego %d %d %d", l, pr, dur(r))
	case 2: // timer, offsets relative to now
		lr := -r.Range(0, 3_000_000_000)
		if r.Chance(15) {
			lr = -r.Range(0, 40_000_000_000)
		}
		fae := "-"
		if r.Chance(50) {
			fae = strconv.FormatInt(lr+r.Range(-2_000_000_000, 10_000_000_000), 10)
		}
		cr := lr - r.Range(0, 8_000_000_000)
		kap := int64(0)
		if r.Chance(60) {
			kap = dur(r)
		}
		opt := func(p int, lo, hi int64) string {
			if r.Chance(p) {
				return strconv.FormatInt(r.Range(lo, hi), 10)
			}
			return "-"
		}
		return fmt.Sprintf("timer %d %s %d %d %d %d %d %d %d %d %d %d %s %s %s", lr, fae, cr, dur(r), kap, dur(r), b01(r.Chance(25)), b01(r.Chance(75)),
			r.Range(1, 10)*int64(time.Second), dur(r)/50, r.Range(0, 50)*int64(time.Millisecond), r.Pick(70, 15, 15),
			opt(35, -50_000_000, 60_000_000_000), opt(35, -1_000_000_000, 60_000_000_000), opt(30, -1_000_000_000, 60_000_000_000))
	case 3:
		n := 1 + r.Pick(60, 25, 10, 5)
		errs := make([]string, n)
		for j := range errs {
			errs[j] = genErr(r)
		}
		qd := 0
		if r.Chance(30) {
			qd = int(r.Range(1, 3))
		}
		var bl []string
		for _, c := range callers {
			if r.Chance(55) {
				if c == "rcvdgram" && qd > 0 {
					continue
				}
				bl = append(bl, c)
				// more callers of the same kind: a second stream for Read / Write, the same object for the rest
				max := map[string]int{"read": 2, "write": 2, "accept": 3, "acceptuni": 3, "open": 3, "openuni": 3, "rcvdgram": 3, "senddgram": 3}[c]
				for k := 2; k <= max && r.Chance(45); k++ {
					bl = append(bl, fmt.Sprintf("%s%d", c, k))
				}
			}
		}
		bs := "-"
		if len(bl) > 0 {
			bs = strings.Join(bl, ",")
		}
		pk := 0
		if r.Chance(70) {
			pk = int(r.Range(1, 40))
		}
		return fmt.Sprintf("close %d %d %d %d %s %s %d %d %d", b01(r.Bool()), b01(r.Chance(80)), b01(r.Chance(70)), b01(r.Chance(60)),
			strings.Join(errs, ";"), bs, b01(r.Chance(70)), qd, pk)
	case 5: // keep-alive / idle deadlines across a sequence of packets received and sent on a real Conn
		it := []int64{100, 250, 400, 1000, 3000, 5000, 30000}[r.Intn(7)] * int64(time.Millisecond)
		if r.Chance(15) {
			it = dur(r)
		}
		kap, kai := int64(0), int64(0)
		if r.Chance(85) {
			kap = r.Range(1, 8000) * int64(time.Millisecond)
			// as negotiated: min(KeepAlivePeriod, idleTimeout/2); sometimes arbitrary
			kai = kap
			if it/2 < kai {
				kai = it / 2
			}
			if r.Chance(12) {
				kai = dur(r)
			}
		}
		rtt := int64(0)
		if r.Chance(75) {
			rtt = r.Range(1, 300) * int64(time.Millisecond)
		}
		n := 1 + r.Intn(8)
		evs := make([]string, n)
		for j := range evs {
			dt := r.Range(0, 2_000_000_000)
			if r.Chance(30) {
				dt = r.Range(0, 50) * int64(time.Millisecond)
			}
			evs[j] = fmt.Sprintf("%c%d", "rasnp"[r.Pick(18, 10, 20, 14, 38)], dt)
		}
		return fmt.Sprintf("kaseq %d %d %d %d %d %s", it, kap, kai, b01(r.Chance(20)), rtt, strings.Join(evs, ","))
	default:
		k := "local"
		if r.Chance(25) {
			k = "remote"
		}
		n := r.Range(0, 300)
		if r.Chance(20) {
			n = r.Range(0, 70000)
		}
		return fmt.Sprintf("closedconn %s %d", k, n)
	}
}

// genTrLife: the life of a transport's read loop. Mostly single-use transports with a listener that is closed at
// a generated point of the history; up to three connections that come, end through ReplaceWithClosed (local /
// remote close) or Remove (immediate close) and are retired; waits around the retirement period.
func genTrLife(r *vh.Rand) string {
	single := r.Chance(75)
	created := r.Chance(40)
	nids := 1 + r.Intn(2)
	exp := []int64{3, 15, 60, 300}[r.Intn(4)]
	var evs []string
	if r.Chance(90) {
		evs = append(evs, "L")
	}
	n := 2 + r.Intn(9)
	live := map[int]bool{}
	lnClosed := false
	// immediate closes (Remove) are the rarer way for a connection to end
	rmPct := []int{0, 0, 15, 50}[r.Intn(4)]
	for len(evs) < n {
		switch r.Pick(30, 30, 14, 18, 3, 5) {
		case 0:
			k := r.Intn(3)
			evs = append(evs, fmt.Sprintf("a%d", k))
			live[k] = true
		case 1: // a connection ends (mostly one that exists)
			k := r.Intn(3)
			for j := 0; j < 3 && !live[k] && r.Chance(85); j++ {
				k = (k + 1) % 3
			}
			switch {
			case r.Chance(rmPct):
				evs = append(evs, fmt.Sprintf("x%d", k))
			case r.Chance(65):
				evs = append(evs, fmt.Sprintf("rl%d", k))
			default:
				evs = append(evs, fmt.Sprintf("rr%d", k))
			}
			delete(live, k)
		case 2:
			if !lnClosed || r.Chance(20) {
				evs = append(evs, "c")
				lnClosed = true
			}
		case 3:
			d := []int64{exp, exp - 1, exp / 2, exp + 1, 1, 0, 2 * exp}[r.Intn(7)]
			evs = append(evs, fmt.Sprintf("w%d", d))
		case 4:
			evs = append(evs, "L")
		default:
			if r.Chance(40) {
				evs = append(evs, "T")
			}
		}
	}
	if r.Chance(70) {
		// let every stand-in be retired
		evs = append(evs, fmt.Sprintf("w%d", exp))
		if r.Chance(50) && !lnClosed {
			evs = append(evs, "c")
		}
	}
	return fmt.Sprintf("trlife %d %d %d %d %s", b01(single), b01(created), nids, exp, strings.Join(evs, ","))
}

func parseSpec(s string) (quic.VerifErrSpec, bool) {
	f := strings.Split(s, ":")
	if len(f) != 5 {
		return quic.VerifErrSpec{}, false
	}
	code, _ := strconv.ParseUint(f[1], 10, 64)
	return quic.VerifErrSpec{Kind: f[0], Code: code, Remote: f[2] == "r", Wrapped: f[3] == "w", Immediate: f[4] == "i"}, true
}

func offOpt(s string) (int64, bool) {
	if s == "-" {
		return 0, false
	}
	return vh.Atoi64(s), true
}

func inBubble(f func()) {
	synctest.Test(theT, func(t *testing.T) { f() })
}

func (rn *runner) Exec(op string) string {
	f := strings.Fields(op)
	if len(f) == 0 {
		return "bad-op"
	}
	a := func(i int) int64 { return vh.Atoi64(f[i]) }
	switch f[0] {
	case "idle":
		if len(f) != 9 {
			return "bad-op"
		}
		pto, start, ni, ka := quic.VerifIdle(quic.VerifIdleIn{LastRcv: a(1), FirstAE: a(2), IdleTimeout: time.Duration(a(3)), KeepAlivePeriod: time.Duration(a(4)),
			KeepAliveInterval: time.Duration(a(5)), KeepAlivePingSent: f[6] == "1", HandshakeComplete: true, RTTSample: time.Duration(a(7)), MaxAckDelay: time.Duration(a(8))})
		return fmt.Sprintf("%d %d %d %d", pto, start, ni, ka)
	case "nego":
		if len(f) != 4 {
			return "bad-op"
		}
		idle, kai := quic.VerifNegotiate(time.Duration(a(1)), time.Duration(a(2)), time.Duration(a(3)))
		return fmt.Sprintf("%d %d", int64(idle), int64(kai))
	case "timer":
		if len(f) != 16 {
			return "bad-op"
		}
		in := quic.VerifTimerIn{Idle: quic.VerifIdleIn{LastRcv: a(1), Creation: a(3), IdleTimeout: time.Duration(a(4)), KeepAlivePeriod: time.Duration(a(5)),
			KeepAliveInterval: time.Duration(a(6)), KeepAlivePingSent: f[7] == "1", HandshakeComplete: f[8] == "1", HandshakeIdleTimeout: time.Duration(a(9)),
			RTTSample: time.Duration(a(10)), MaxAckDelay: time.Duration(a(11))}, Blocked: int(a(12))}
		in.Idle.FirstAE, in.HasFirstAE = offOpt(f[2])
		in.AckRcvOff, in.HasAckAlarm = offOpt(f[13])
		in.LossOff, in.HasLoss = offOpt(f[14])
		in.PaceOff, in.HasPace = offOpt(f[15])
		var res string
		inBubble(func() {
			pto, alarm, has, fire := quic.VerifTimer(in)
			as := "-"
			if has {
				as = strconv.FormatInt(alarm, 10)
			}
			res = fmt.Sprintf("%d %s %d", pto, as, int64(fire))
		})
		return res
	case "close":
		if len(f) != 10 {
			return "bad-op"
		}
		in := quic.VerifCloseIn{Client: f[1] == "1", SentFirstPacket: f[2] == "1", Qlog: f[3] == "1", ResetToken: f[4] == "1", Later: f[7] == "1",
			QueuedDatagrams: int(a(8)), Packets: int(a(9))}
		for _, s := range strings.Split(f[5], ";") {
			sp, ok := parseSpec(s)
			if !ok {
				return "bad-op"
			}
			in.Errs = append(in.Errs, sp)
		}
		if f[6] != "-" {
			in.Blocked = strings.Split(f[6], ",")
		}
		var out quic.VerifCloseOut
		inBubble(func() { out = quic.VerifClose(in, synctest.Wait) })
		j := func(l []string) string {
			if len(l) == 0 {
				return "-"
			}
			return strings.Join(l, ",")
		}
		return fmt.Sprintf("pre=%d rec=%s ret=%s returns=%s later=%s ev=%s replies=%d h=%d hx=%d exp=%d tok=%d", b01(out.StillBlockedBefore), out.Recorded, out.Ret,
			j(out.Returns), j(out.Later), j(out.Events), out.Replies, out.HandlersAfter, out.HandlersExpired, out.ExpiryPTOs, out.TokensAfter)
	case "kaseq":
		if len(f) != 7 {
			return "bad-op"
		}
		in := quic.VerifKAIn{IdleTimeout: time.Duration(a(1)), KeepAlivePeriod: time.Duration(a(2)), KeepAliveInterval: time.Duration(a(3)),
			PingSent: f[4] == "1", RTTSample: time.Duration(a(5))}
		for _, e := range strings.Split(f[6], ",") {
			if len(e) < 2 || !strings.ContainsRune("rasnp", rune(e[0])) {
				return "bad-op"
			}
			in.Events = append(in.Events, quic.VerifKAEvent{Kind: e[0], Dt: time.Duration(vh.Atoi64(e[1:]))})
		}
		pto, obs := quic.VerifKASeq(in)
		out := make([]string, len(obs))
		for i, o := range obs {
			ka := "-"
			if o.HasKA {
				ka = strconv.FormatInt(o.KA, 10)
			}
			out[i] = fmt.Sprintf("%s:%d", ka, o.Idle)
			if o.Err {
				out[i] += ":E"
			}
		}
		return fmt.Sprintf("pto=%d seq=%s", pto, strings.Join(out, ","))
	case "trlife":
		if len(f) != 6 {
			return "bad-op"
		}
		in := quic.VerifTrIn{Single: f[1] == "1", Created: f[2] == "1", NIDs: int(a(3)), Expiry: time.Duration(a(4)) * time.Millisecond}
		if in.Expiry < 0 || in.Expiry > time.Hour {
			return "bad-op"
		}
		for _, e := range strings.Split(f[5], ",") {
			ev := quic.VerifTrEvent{}
			num := func(s string) (int64, bool) {
				n, err := strconv.ParseUint(s, 10, 31)
				return int64(n), err == nil
			}
			ok := true
			var v int64
			switch {
			case e == "L" || e == "c" || e == "T":
				ev.Kind = e[0]
			case strings.HasPrefix(e, "rl") || strings.HasPrefix(e, "rr"):
				ev.Kind = 'r'
				if e[1] == 'l' {
					ev.Arg = 1
				}
				v, ok = num(e[2:])
				ev.K = int(v)
			case strings.HasPrefix(e, "a") || strings.HasPrefix(e, "x"):
				ev.Kind = e[0]
				v, ok = num(e[1:])
				ev.K = int(v)
			case strings.HasPrefix(e, "w"):
				ev.Kind = 'w'
				ev.Arg, ok = num(e[1:])
			default:
				ok = false
			}
			if !ok || ev.K > 100 {
				return "bad-op"
			}
			in.Events = append(in.Events, ev)
		}
		var obs []quic.VerifTrObs
		inBubble(func() { obs = quic.VerifTrLife(in, synctest.Wait) })
		out := make([]string, len(obs))
		for i, o := range obs {
			out[i] = fmt.Sprintf("%d%d:%d", b01(o.Stopped), b01(o.ConnClosed), o.Handlers)
			if o.Err {
				out[i] += ":E"
			}
		}
		return "seq=" + strings.Join(out, ",")
	case "closedconn":
		if len(f) != 3 {
			return "bad-op"
		}
		return strconv.Itoa(quic.VerifClosedConn(f[1] == "local", int(a(2))))
	}
	return "bad-op"
}

func TestDriver(t *testing.T) {
	theT = t
	vh.Main(t, "closeu", newRunner)
}
