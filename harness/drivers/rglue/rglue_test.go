//go:build verif

// Driver "rglue" (property C03): the glue between a connection and its reassembly cores.
//
// A case creates one connection through the REAL constructors (newConnection, newClientConnection,
// newUClientConnection with a built-in QUICSpec — harness/hooks/verif_sglue.go), traced (qlog on) or
// not, with generated receive windows, and then
//   * feeds 1-RTT packets — 1..5 generated frames: STREAM, RESET_STREAM, STREAM_DATA_BLOCKED, CRYPTO,
//     ACK, PING, MAX_DATA, PADDING — to the real Conn.handleShortHeaderPacket (only decryption is
//     stubbed), so that the real frame parser, Conn.handleFrames, the streams map, the stream objects
//     with the real stream + connection flow controllers and the 1-RTT crypto stream run;
//   * plays the application through the public API: OpenStream, AcceptStream / AcceptUniStream after
//     every packet, Read (with a read deadline of one second of virtual time: the case runs inside a
//     testing/synctest bubble, a Read that would block returns `wouldblock`).
// A case ends with the first packet that is answered with an error (the run loop closes the connection).
//
// Line protocol (see lean/Oracle/Rglue.lean):
//   conn server|client|uclient <salt> <streamWin> <connWin> <specId|-> <traced>
//        => ok win=<bidiLocal>,<bidiRemote>,<uni>,<conn> tr=<0|1>
//   sent <k>                 register k ack-eliciting 1-RTT packets as sent  => ok pns=<pn,…>
//   open                     Conn.OpenStream                                => <id> | E:…
//   pkt <pn> <frame>…        one 1-RTT packet                               => ok|dup|E:T<code>|E:other acc=<ids|->
//   read <id> <n>            Read(p), len(p) = n                            => <status> <bytes>
// frames: S:<id>:<off>:<len>:<fin> STREAM (bytes [off,off+len) of the stream's source string),
//   R:<id>:<final>:<code> RESET_STREAM, B:<id> STREAM_DATA_BLOCKED, C:<off>:<len> CRYPTO (off ≥ 1: the
//   byte at offset 0 never arrives, nothing reaches the TLS stack), A:<pn> ACK of packet pn, P PING,
//   D MAX_DATA, Z PADDING
package rglue

import (
	"context"
	"errors"
	"fmt"
	"io"
	"net"
	"os"
	"sort"
	"strings"
	"testing"
	"testing/synctest"
	"time"

	quic "github.com/refraction-networking/uquic"
	"github.com/refraction-networking/uquic/internal/protocol"
	"github.com/refraction-networking/uquic/internal/qerr"
	"github.com/refraction-networking/uquic/internal/verifharness/vh"
	"github.com/refraction-networking/uquic/internal/wire"
)

var theT *testing.T

const streamLimit = 100 // incoming streams per type (Config / spec)

var specIDs = map[string]quic.QUICID{
	"ff116":  quic.QUICFirefox_116,
	"chr115": quic.QUICChrome_115,
}

type reader interface {
	Read([]byte) (int, error)
	SetReadDeadline(time.Time) error
}

// what the generator knows about one stream (from the ops it produced)
type gstream struct {
	id       int64
	total    int64 // the true final size of the stream
	hi       int64 // highest offset put into a frame so far
	finSent  bool
	rstSent  bool
	segments [][2]int64
}

type runner struct {
	// bubble plumbing
	reqs  chan string
	resps chan string
	fin   chan struct{}

	// real objects (touched only inside the bubble)
	c       *quic.VerifGlueConn
	salt    uint64
	held    map[int64]reader
	dead    bool
	cancel  context.Context

	// generator state (from the implementation's answers)
	hasConn bool
	server  bool
	win     [4]int64 // bidiLocal, bidiRemote, uni, conn
	gs      map[int64]*gstream
	opened  []int64
	heldIDs []int64
	sentPns []int64
	nextPn  int64
	usedPns []int64
	cryptoHi int64
	ended   bool
}

func newRunner(r *vh.Rand) vh.Runner {
	ctx, cancel := context.WithCancel(context.Background())
	cancel()
	rn := &runner{reqs: make(chan string), resps: make(chan string), fin: make(chan struct{}),
		held: map[int64]reader{}, gs: map[int64]*gstream{}, cancel: ctx}
	go func() {
		defer close(rn.fin)
		synctest.Test(theT, func(t *testing.T) {
			for op := range rn.reqs {
				rn.resps <- rn.safeExec(op)
			}
			if rn.c != nil {
				rn.c.Shutdown()
			}
		})
	}()
	return rn
}

func (rn *runner) Close() {
	close(rn.reqs)
	<-rn.fin
}

func (rn *runner) Exec(op string) string {
	defer vh.Watchdog(op, 60*time.Second)()
	rn.reqs <- op
	res := <-rn.resps
	rn.observe(op, res)
	return res
}

// a panic inside the connection may have left a mutex held; the case ends here
func (rn *runner) safeExec(op string) (res string) {
	defer func() {
		if e := recover(); e != nil {
			rn.dead = true
			res = "PANIC"
		}
	}()
	return rn.execInBubble(op)
}

func errText(err error) string {
	if err == nil {
		return "ok"
	}
	var te *qerr.TransportError
	if errors.As(err, &te) {
		return fmt.Sprintf("E:T%d", uint64(te.ErrorCode))
	}
	var lr *quic.StreamLimitReachedError
	var lrv quic.StreamLimitReachedError
	if errors.As(err, &lr) || errors.As(err, &lrv) {
		return "E:limit-reached"
	}
	return "E:other"
}

func statusText(err error) string {
	switch {
	case err == nil:
		return "ok"
	case err == io.EOF:
		return "eof"
	}
	var ne net.Error
	if errors.As(err, &ne) && ne.Timeout() {
		return "wouldblock"
	}
	var se *quic.StreamError
	if errors.As(err, &se) && se != nil {
		rl := "l"
		if se.Remote {
			rl = "r"
		}
		return fmt.Sprintf("cancel:%d:%s", uint64(se.ErrorCode), rl)
	}
	return "E:other"
}

func (rn *runner) encodeFrames(toks []string) ([]byte, error) {
	var b []byte
	var err error
	app := func(f wire.Frame) {
		if err == nil {
			b, err = f.Append(b, protocol.Version1)
		}
	}
	for _, t := range toks {
		p := strings.Split(t, ":")
		num := func(i int) int64 {
			if i < len(p) {
				return vh.Atoi64(p[i])
			}
			return 0
		}
		switch {
		case p[0] == "S" && len(p) == 5:
			id, off, n := num(1), num(2), num(3)
			if n < 0 || n > 1400 || off < 0 || id < 0 || (n == 0 && num(4) != 1) { // (an empty STREAM frame without FIN does not parse)
				return nil, fmt.Errorf("bad STREAM token %q", t)
			}
			app(&wire.StreamFrame{StreamID: protocol.StreamID(id), Offset: protocol.ByteCount(off),
				Data: vh.SrcSeg(rn.salt, uint64(id), off, int(n)), Fin: num(4) == 1, DataLenPresent: true})
		case p[0] == "R" && len(p) == 4:
			app(&wire.ResetStreamFrame{StreamID: protocol.StreamID(num(1)), FinalSize: protocol.ByteCount(num(2)),
				ErrorCode: quic.StreamErrorCode(num(3))})
		case p[0] == "B" && len(p) == 2:
			app(&wire.StreamDataBlockedFrame{StreamID: protocol.StreamID(num(1)), MaximumStreamData: 1})
		case p[0] == "C" && len(p) == 3:
			off, n := num(1), num(2)
			if off < 1 || n < 0 || n > 1400 {
				return nil, fmt.Errorf("bad CRYPTO token %q", t)
			}
			app(&wire.CryptoFrame{Offset: protocol.ByteCount(off), Data: vh.SrcSeg(rn.salt, 1<<20, off, int(n))})
		case p[0] == "A" && len(p) == 2:
			pn := protocol.PacketNumber(num(1))
			app(&wire.AckFrame{AckRanges: []wire.AckRange{{Smallest: pn, Largest: pn}}})
		case t == "P":
			app(&wire.PingFrame{})
		case t == "D":
			app(&wire.MaxDataFrame{MaximumData: 1})
		case t == "Z":
			b = append(b, 0)
		default:
			return nil, fmt.Errorf("bad frame token %q", t)
		}
	}
	return b, err
}

// acceptAll plays the application: take every stream the peer has opened so far.
func (rn *runner) acceptAll() string {
	var ids []int64
	for {
		s, err := rn.c.C.AcceptStream(rn.cancel)
		if err != nil {
			break
		}
		id := int64(s.StreamID())
		rn.held[id] = s
		ids = append(ids, id)
	}
	for {
		s, err := rn.c.C.AcceptUniStream(rn.cancel)
		if err != nil {
			break
		}
		id := int64(s.StreamID())
		rn.held[id] = s
		ids = append(ids, id)
	}
	if len(ids) == 0 {
		return "-"
	}
	sort.Slice(ids, func(i, j int) bool { return ids[i] < ids[j] })
	var out []string
	for _, id := range ids {
		out = append(out, fmt.Sprint(id))
	}
	return strings.Join(out, ",")
}

func (rn *runner) execInBubble(op string) string {
	f := strings.Fields(op)
	if len(f) == 0 {
		return "bad-op"
	}
	if rn.dead {
		return "skip"
	}
	if f[0] == "conn" {
		if rn.c != nil || len(f) != 7 {
			return "skip"
		}
		rn.salt = uint64(vh.Atoi64(f[2]))
		conf := &quic.Config{
			MaxIncomingStreams:             streamLimit,
			MaxIncomingUniStreams:          streamLimit,
			InitialStreamReceiveWindow:     uint64(vh.Atoi64(f[3])),
			InitialConnectionReceiveWindow: uint64(vh.Atoi64(f[4])),
		}
		var spec *quic.QUICSpec
		if f[1] == "uclient" {
			id, ok := specIDs[f[5]]
			if !ok {
				return "skip"
			}
			s, err := quic.VerifGlueSpec(id, streamLimit, streamLimit)
			if err != nil {
				return "E:spec"
			}
			spec = s
		}
		c, err := quic.VerifGlueNew(f[1], conf, spec, f[6] == "1")
		if err != nil {
			return "E:new"
		}
		rn.c = c
		bl, br, u, cw, ok := c.AdvertisedWindows()
		if !ok {
			return "E:noparams"
		}
		tr := 0
		if c.Traced() {
			tr = 1
		}
		return fmt.Sprintf("ok win=%d,%d,%d,%d tr=%d", bl, br, u, cw, tr)
	}
	if rn.c == nil {
		return "skip"
	}
	switch f[0] {
	case "sent":
		if len(f) != 2 {
			return "bad-op"
		}
		k := int(vh.Atoi64(f[1]))
		var pns []string
		for i := 0; i < k && i < 16; i++ {
			pns = append(pns, fmt.Sprint(rn.c.SendPing()))
		}
		return "ok pns=" + strings.Join(pns, ",")
	case "open":
		s, err := rn.c.C.OpenStream()
		if err != nil {
			return errText(err)
		}
		id := int64(s.StreamID())
		rn.held[id] = s
		return fmt.Sprint(id)
	case "pkt":
		if len(f) < 2 {
			return "bad-op"
		}
		payload, err := rn.encodeFrames(f[2:])
		if err != nil {
			return "bad-op"
		}
		processed, err := rn.c.HandlePacket(vh.Atoi64(f[1]), payload)
		res := errText(err)
		if err == nil && !processed {
			res = "dup"
		}
		if err != nil {
			rn.dead = true // the run loop closes the connection with this error
		}
		return res + " acc=" + rn.acceptAll()
	case "read":
		if len(f) != 3 {
			return "bad-op"
		}
		s, ok := rn.held[vh.Atoi64(f[1])]
		n := vh.Atoi64(f[2])
		if !ok || n < 0 || n > 1<<16 {
			return "skip"
		}
		p := make([]byte, n)
		s.SetReadDeadline(time.Now().Add(time.Second))
		k, err := s.Read(p)
		data := "0:"
		if k >= 0 && k <= len(p) {
			data = vh.FmtBytes(p[:k])
		} else {
			data = fmt.Sprintf("bad-length:%d", k)
		}
		return statusText(err) + " " + data
	}
	return "bad-op"
}

// ---------------------------------------------------------------------------------------------
// generator

func field(rf []string, key string) string {
	for _, w := range rf {
		if strings.HasPrefix(w, key) {
			return w[len(key):]
		}
	}
	return ""
}

// observe keeps the generator's picture up to date (from the implementation's answers only).
func (rn *runner) observe(op, res string) {
	f := strings.Fields(op)
	rf := strings.Fields(res)
	if len(f) == 0 || len(rf) == 0 {
		return
	}
	switch f[0] {
	case "conn":
		if rf[0] != "ok" {
			return
		}
		rn.hasConn = true
		rn.server = f[1] == "server"
		p := strings.Split(field(rf, "win="), ",")
		for i := 0; i < 4 && i < len(p); i++ {
			rn.win[i] = vh.Atoi64(p[i])
		}
	case "sent":
		if l := field(rf, "pns="); l != "" {
			for _, p := range strings.Split(l, ",") {
				rn.sentPns = append(rn.sentPns, vh.Atoi64(p))
			}
		}
	case "open":
		if !strings.HasPrefix(rf[0], "E:") && rf[0] != "skip" && rf[0] != "PANIC" {
			id := vh.Atoi64(rf[0])
			rn.opened = append(rn.opened, id)
			rn.heldIDs = append(rn.heldIDs, id)
		}
	case "pkt":
		if rf[0] == "ok" {
			rn.usedPns = append(rn.usedPns, vh.Atoi64(f[1]))
		} else if rf[0] != "dup" {
			rn.ended = true
		}
		if l := field(rf, "acc="); l != "" && l != "-" {
			for _, p := range strings.Split(l, ",") {
				rn.heldIDs = append(rn.heldIDs, vh.Atoi64(p))
			}
		}
	}
}

func (rn *runner) windowOf(id int64) int64 {
	if id%4 >= 2 {
		return rn.win[2]
	}
	if (id%2 == 1) == rn.server {
		return rn.win[0]
	}
	return rn.win[1]
}

// the ids the peer may send STREAM data on: its own first streams of each type, and our opened bidi streams
func (rn *runner) pickStream(r *vh.Rand) *gstream {
	var id int64
	peerBit := int64(0)
	if !rn.server {
		peerBit = 1
	}
	switch {
	case len(rn.opened) > 0 && r.Chance(20):
		id = rn.opened[r.Intn(len(rn.opened))]
	case r.Chance(55):
		id = peerBit + 4*int64(r.Pick(50, 30, 15, 5)) // bidi
	default:
		id = 2 + peerBit + 4*int64(r.Pick(50, 30, 15, 5)) // uni
	}
	g := rn.gs[id]
	if g == nil {
		g = &gstream{id: id, total: r.Range(1, 600)}
		if w := rn.windowOf(id); w < 600 && w >= 1 && r.Chance(75) {
			g.total = r.Range(1, w) // mostly streams that fit a small window
		}
		if r.Chance(10) {
			g.total = 0
		}
		rn.gs[id] = g
	}
	return g
}

func sTok(id, off, n int64, fin bool) string {
	if n == 0 && !fin {
		return "P" // an empty STREAM frame without FIN is a frame encoding error: not this driver's subject
	}
	f := 0
	if fin {
		f = 1
	}
	return fmt.Sprintf("S:%d:%d:%d:%d", id, off, n, f)
}

func (g *gstream) note(off, n int64) {
	if off+n > g.hi {
		g.hi = off + n
	}
	g.segments = append(g.segments, [2]int64{off, n})
}

// a frame the peer may well send: fresh data in order, a retransmission, reordered data, a consistent FIN / reset
func (rn *runner) fineFrame(r *vh.Rand) string {
	switch r.Pick(62, 8, 8, 6, 8, 4, 4) {
	case 1:
		return "P"
	case 2:
		if len(rn.sentPns) > 0 {
			return fmt.Sprintf("A:%d", rn.sentPns[r.Intn(len(rn.sentPns))])
		}
		return "P"
	case 3:
		return "D"
	case 4: // CRYPTO inside the limit (never offset 0)
		off := r.Range(1, 2000)
		n := r.Range(0, 300)
		if r.Chance(20) { // up to exactly the limit
			n = r.Range(1, 200)
			off = int64(protocol.MaxCryptoStreamOffset) - n
		}
		return fmt.Sprintf("C:%d:%d", off, n)
	case 5:
		return "Z"
	case 6:
		g := rn.pickStream(r)
		return fmt.Sprintf("B:%d", g.id)
	}
	g := rn.pickStream(r)
	if g.rstSent && r.Chance(70) {
		return fmt.Sprintf("R:%d:%d:%d", g.id, g.total, r.Range(0, 9)) // the same reset again
	}
	switch r.Pick(60, 15, 15, 6, 4) {
	case 1: // a retransmission (same or other boundaries)
		if len(g.segments) > 0 {
			s := g.segments[r.Intn(len(g.segments))]
			off, n := s[0], s[1]
			if n > 1 && r.Bool() {
				off += r.Range(0, n-1)
				n = r.Range(1, s[0]+s[1]-off)
			}
			return sTok(g.id, off, n, g.finSent && off+n == g.total)
		}
	case 2: // data ahead of the in-order position
		if g.hi < g.total {
			off := r.Range(g.hi, g.total)
			n := min(r.Range(0, 120), g.total-off)
			g.note(off, n)
			fin := off+n == g.total && r.Chance(60)
			g.finSent = g.finSent || fin
			return sTok(g.id, off, n, fin)
		}
	case 3: // a consistent reset
		if r.Chance(50) {
			g.rstSent = true
			g.finSent = true // the final size is announced
			// the peer may reset before having sent everything: the final size is what it sent or more
			if g.hi < g.total && !g.finSentBefore() {
				g.total = r.Range(g.hi, g.total)
			}
			return fmt.Sprintf("R:%d:%d:%d", g.id, g.total, r.Range(0, 9))
		}
	case 4: // an empty FIN at the end
		if g.hi == g.total {
			g.finSent = true
			return sTok(g.id, g.total, 0, true)
		}
	}
	// fresh data in order
	off := g.hi
	if off >= g.total {
		g.finSent = true
		return sTok(g.id, g.total, 0, true)
	}
	n := min([]int64{r.Range(1, 20), r.Range(20, 200), r.Range(200, 400)}[r.Pick(30, 55, 15)], g.total-off)
	g.note(off, n)
	fin := off+n == g.total && r.Chance(75)
	g.finSent = g.finSent || fin
	return sTok(g.id, off, n, fin)
}

// finSentBefore: a FIN (not a reset) has fixed the final size already
func (g *gstream) finSentBefore() bool { return g.finSent && !g.rstSent }

// a frame that contradicts a final size or exceeds a limit — or sits exactly on the boundary
func (rn *runner) offender(r *vh.Rand) string {
	g := rn.pickStream(r)
	w := rn.windowOf(g.id)
	switch r.Pick(16, 12, 10, 12, 18, 10, 14, 8, 5) {
	case 8: // an ACK for a packet that was never sent
		var mx int64
		for _, p := range rn.sentPns {
			mx = max(mx, p)
		}
		return fmt.Sprintf("A:%d", mx+r.Range(20, 40))
	case 0: // data beyond the final size
		if g.finSent {
			return sTok(g.id, g.total+r.Range(0, 3), r.Range(1, 30), false)
		}
		// establish it and contradict it in one go is left to the packet builder
		g.finSent = true
		g.note(g.hi, 0)
		return sTok(g.id, g.total, 0, true)
	case 1: // a second FIN at another offset
		if g.finSent {
			d := r.Range(1, 5)
			if r.Bool() && g.total >= d {
				return sTok(g.id, g.total-d, 0, true)
			}
			return sTok(g.id, g.total, d, true)
		}
		return sTok(g.id, g.total, 0, true)
	case 2: // a FIN below data already sent
		if g.hi > 0 {
			return sTok(g.id, r.Range(0, g.hi-1), 0, true)
		}
		return sTok(g.id, 0, 0, true)
	case 3: // RESET_STREAM with a final size that contradicts the known one / lies below data sent
		switch {
		case g.finSent:
			d := r.Range(1, 4)
			if r.Bool() && g.total >= d {
				return fmt.Sprintf("R:%d:%d:%d", g.id, g.total-d, r.Range(0, 9))
			}
			return fmt.Sprintf("R:%d:%d:%d", g.id, g.total+d, r.Range(0, 9))
		case g.hi > 0:
			return fmt.Sprintf("R:%d:%d:%d", g.id, r.Range(0, g.hi-1), r.Range(0, 9))
		}
		return fmt.Sprintf("R:%d:%d:%d", g.id, w+r.Range(1, 100), r.Range(0, 9))
	case 4: // around the stream's receive window: one below, exactly at, one above, far above
		end := w + []int64{-1, 0, 1, r.Range(2, 1000)}[r.Pick(15, 25, 40, 20)]
		n := min(r.Range(1, 40), max(end, 0))
		if !g.finSent {
			return sTok(g.id, end-n, n, false)
		}
		return sTok(g.id, end-n, n, false) // (then also beyond the final size: FINAL_SIZE_ERROR comes first)
	case 5: // far beyond every window
		return sTok(g.id, int64(1)<<uint(r.Range(30, 50)), r.Range(1, 10), r.Chance(20))
	case 6: // CRYPTO around the buffer limit
		end := int64(protocol.MaxCryptoStreamOffset) + []int64{0, 1, r.Range(2, 5000)}[r.Pick(25, 45, 30)]
		n := r.Range(1, 100)
		return fmt.Sprintf("C:%d:%d", end-n, n)
	default: // RESET_STREAM beyond the window
		return fmt.Sprintf("R:%d:%d:%d", g.id, w+r.Range(0, 2), r.Range(0, 9))
	}
}

var swinChoices = []int64{0, 0, 0, 150, 300, 700, 5000, 5000}
var cwinChoices = []int64{0, 0, 0, 0, 400, 1500, 8000, 8000}

func (rn *runner) GenOp(r *vh.Rand, i int) string {
	if rn.dead || rn.ended {
		return ""
	}
	if !rn.hasConn {
		if i > 0 {
			return ""
		}
		kind := []string{"server", "client", "uclient"}[r.Pick(40, 35, 25)]
		sid := "-"
		if kind == "uclient" {
			sid = []string{"ff116", "chr115"}[r.Intn(2)]
		}
		return fmt.Sprintf("conn %s %d %d %d %s %d", kind, r.Intn(1<<20), swinChoices[r.Intn(len(swinChoices))],
			cwinChoices[r.Intn(len(cwinChoices))], sid, r.Intn(2))
	}
	if i == 1 {
		return fmt.Sprintf("sent %d", r.Range(1, 4))
	}
	switch r.Pick(8, 3, 24, 65) {
	case 0:
		return "open"
	case 1:
		return fmt.Sprintf("sent %d", r.Range(1, 2))
	case 2:
		if len(rn.heldIDs) > 0 {
			id := rn.heldIDs[r.Intn(len(rn.heldIDs))]
			n := []int64{r.Range(0, 3), r.Range(1, 60), r.Range(60, 700), 4000}[r.Pick(10, 45, 35, 10)]
			return fmt.Sprintf("read %d %d", id, n)
		}
	}
	// a packet
	n := int(r.Range(1, 5))
	var toks []string
	at := -1
	if r.Chance(22) {
		// one frame of the packet is a (candidate) offender: first, in the middle or last
		at = r.Intn(n)
	}
	for j := 0; j < n; j++ {
		if j == at {
			toks = append(toks, rn.offender(r))
		} else {
			toks = append(toks, rn.fineFrame(r))
		}
	}
	pn := rn.nextPn
	rn.nextPn++
	if len(rn.usedPns) > 0 && r.Chance(3) {
		pn = rn.usedPns[r.Intn(len(rn.usedPns))] // a duplicate
	}
	return fmt.Sprintf("pkt %d %s", pn, strings.Join(toks, " "))
}

func TestDriver(t *testing.T) {
	theT = t
	// never hang the check on a modified /repo
	go func() {
		time.Sleep(15 * time.Minute)
		fmt.Fprintln(os.Stderr, "rglue driver: still running after 15 minutes; aborting")
		os.Exit(4)
	}()
	vh.Main(t, "rglue", newRunner)
}
