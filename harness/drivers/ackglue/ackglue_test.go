//go:build verif

// Package ackglue drives the GLUE in connection.go that feeds and drains the received-packet handler (C07), on a
// real client Conn built by the real newClientConnection (hook verif_c07conn.go; no run loop: the driver plays it):
//
//	rcv <L> <pn> <ae>            a packet arrives in space L (I|H|A): sentPacketHandler.ReceivedPacket + receivedPacketHandler.ReceivedPacket
//	coal <L>:<la|->:<ae> ...     the packer produced a coalesced datagram with these parts (long header parts first, at most one
//	                             1-RTT part, last), each with or without an ACK frame whose largest acked is <la>, ack-eliciting or
//	                             not; the REAL Conn.sendPackedCoalescedPacket registers them with the real sent-packet handler
//	short <la|-> <ae> <probe>    a non-coalesced 1-RTT packet through the REAL Conn.registerPackedShortHeaderPacket
//	peerack <idx> <pn> <ae>      a packet <pn> of the peer arrives that acknowledges the idx-th packet registered in this case
//	                             (sentPacketHandler.ReceivedAck, which calls receivedPacketHandler.IgnorePacketsBelow for acknowledged
//	                             1-RTT packets that carried an ACK; then the carrying packet is recorded like `rcv`)
//	ackq <L>                     receivedPacketHandler.GetAckFrame(L, now, false), as the packer asks
//	dup <L> <pn>                 receivedPacketHandler.IsPotentiallyDuplicate, as handleOnePacket asks
//	timer k=v ...                one generated situation for the REAL Conn.maybeResetTimer (all times ns offsets from "now");
//	                             result: the PTO used, the received-packet handler's alarm and the time until the connection
//	                             timer fired on the fake clock
//
// results: rcv/peerack `ok|E|skip`; coal/short `ok <L><pn>:<largestAcked registered> ...`; ackq ranges `s-l;s-l` or `-`; dup 0|1;
// timer `pto=<ns> al=<ns|-> fire=<ns>`.
package ackglue

import (
	"fmt"
	"strconv"
	"strings"
	"testing"
	"testing/synctest"
	"time"

	quic "github.com/refraction-networking/uquic"
	"github.com/refraction-networking/uquic/internal/protocol"
	"github.com/refraction-networking/uquic/internal/verifharness/vh"
)

type sentInfo struct {
	space  int
	hasAck bool
	la     int64
}

type runner struct {
	v *quic.VerifC07Conn
	// generator state
	timerCase  bool
	next       [3]int64
	seen       [3][]int64
	maxRcv     [3]int64
	sent       []sentInfo
	iniDropped bool
}

func newRunner(r *vh.Rand) vh.Runner {
	return &runner{v: quic.VerifC07NewConn(), timerCase: r.Chance(30), maxRcv: [3]int64{-1, -1, -1}}
}

func (rn *runner) Close() { rn.v.Close() }

var lvlNames = []string{"I", "H", "A"}

func lvlOf(s string) (protocol.EncryptionLevel, bool) {
	switch s {
	case "I":
		return protocol.EncryptionInitial, true
	case "H":
		return protocol.EncryptionHandshake, true
	case "A":
		return protocol.Encryption1RTT, true
	}
	return 0, false
}

func lvlName(l protocol.EncryptionLevel) string {
	switch l {
	case protocol.EncryptionInitial:
		return "I"
	case protocol.EncryptionHandshake:
		return "H"
	}
	return "A"
}

func (rn *runner) pickSpace(r *vh.Rand) int {
	if rn.iniDropped {
		return 1 + r.Pick(35, 65)
	}
	return r.Pick(20, 30, 50)
}

func pick64(r *vh.Rand, xs ...int64) int64 { return xs[r.Intn(len(xs))] }

func optNS(set bool, v int64) string {
	if !set {
		return "-"
	}
	return strconv.FormatInt(v, 10)
}

func b01(b bool) int {
	if b {
		return 1
	}
	return 0
}

func (rn *runner) genTimer(r *vh.Rand) string {
	ms := int64(time.Millisecond)
	hc := r.Chance(80)
	cr := -r.Range(0, 20_000) * ms
	hi := pick64(r, 5000, 10000, 1000, 100) * ms
	lr := -r.Range(0, 2000) * ms
	if r.Chance(10) {
		lr = -r.Range(2000, 40_000) * ms
	}
	faSet := r.Chance(40)
	fa := -r.Range(0, 1000) * ms
	it := pick64(r, 30_000, 5000, 1000, 100) * ms
	var rtt int64
	if r.Chance(30) {
		rtt = r.Range(1, 500) * ms
	}
	ka := int64(0)
	if r.Chance(35) {
		ka = pick64(r, 1000, 15_000, 200) * ms
	}
	ks := r.Chance(20)
	ki := min(ka, it/2)
	blk := r.Pick(40, 45, 15)
	arSet := r.Chance(65)
	ar := -r.Range(0, 40_000) * int64(time.Microsecond)
	lsSet := r.Chance(50)
	ls := r.Range(-10, 2000) * ms
	if r.Chance(40) {
		ls = r.Range(26, 400) * ms // later than any ACK alarm: the alarm must win
	}
	pdSet := r.Chance(40)
	pd := r.Range(-1000, 50_000) * int64(time.Microsecond)
	return fmt.Sprintf("timer hc=%d cr=%d hi=%d lr=%d fa=%s it=%d rtt=%d ka=%d ks=%d ki=%d blk=%d ar=%s ls=%s pd=%s",
		b01(hc), cr, hi, lr, optNS(faSet, fa), it, rtt, ka, b01(ks), ki, blk, optNS(arSet, ar), optNS(lsSet, ls), optNS(pdSet, pd))
}

func (rn *runner) genPart(r *vh.Rand, sp int, ackP int) string {
	la := "-"
	if rn.maxRcv[sp] >= 0 && r.Chance(ackP) {
		v := rn.maxRcv[sp]
		if r.Chance(10) {
			v = r.Range(0, v)
		}
		la = strconv.FormatInt(v, 10)
	}
	rn.sent = append(rn.sent, sentInfo{space: sp, hasAck: la != "-", la: vh.Atoi64(la)})
	return fmt.Sprintf("%s:%s:%d", lvlNames[sp], la, b01(r.Chance(80)))
}

func (rn *runner) GenOp(r *vh.Rand, i int) string {
	if rn.timerCase || r.Chance(8) {
		return rn.genTimer(r)
	}
	switch r.Pick(34, 26, 6, 16, 11, 7) {
	case 0: // a packet arrives
		sp := rn.pickSpace(r)
		var pn int64
		switch {
		case len(rn.seen[sp]) > 0 && r.Chance(10):
			pn = rn.seen[sp][r.Intn(len(rn.seen[sp]))]
		case rn.next[sp] > 0 && r.Chance(12): // late packet
			pn = r.Range(0, rn.next[sp])
		default:
			if r.Chance(20) {
				rn.next[sp] += r.Range(1, 3)
			}
			pn = rn.next[sp]
			rn.next[sp]++
		}
		if len(rn.seen[sp]) > 24 { // stay far below the range cap
			pn = rn.seen[sp][r.Intn(len(rn.seen[sp]))]
		}
		rn.seen[sp] = append(rn.seen[sp], pn)
		rn.maxRcv[sp] = max(rn.maxRcv[sp], pn)
		return fmt.Sprintf("rcv %s %d %d", lvlNames[sp], pn, b01(r.Chance(75)))
	case 1: // a coalesced datagram is sent
		var parts []string
		// the interesting shapes are frequent: a long header part WITH an ACK in front of a 1-RTT part WITHOUT one
		withI := !rn.iniDropped && r.Chance(35)
		withH := r.Chance(70)
		withA := r.Chance(65)
		if !withI && !withH && !withA {
			withH = true
		}
		if withI {
			parts = append(parts, rn.genPart(r, 0, 75))
		}
		if withH {
			parts = append(parts, rn.genPart(r, 1, 75))
			rn.iniDropped = true
		}
		if withA {
			parts = append(parts, rn.genPart(r, 2, 40))
		}
		return "coal " + strings.Join(parts, " ")
	case 2:
		probe := r.Chance(15)
		p := rn.genPart(r, 2, 60)
		f := strings.Split(p, ":")
		return fmt.Sprintf("short %s %s %d", f[1], f[2], b01(probe))
	case 3: // the peer acknowledges one of our packets (preferably a recent 1-RTT one)
		if len(rn.sent) == 0 {
			return "ackq A"
		}
		idx := r.Intn(len(rn.sent))
		for k := 0; k < 3 && rn.sent[idx].space != 2; k++ {
			idx = r.Intn(len(rn.sent))
		}
		// the peer's packet carrying the ACK was sent after it received ours, so its number is above the
		// largest acked of the ACK frame ours carried: mostly the next fresh number, sometimes a reordered one
		sp := rn.sent[idx].space
		if sp == 0 && rn.iniDropped {
			return "ackq A"
		}
		if r.Chance(20) {
			rn.next[sp] += r.Range(1, 3)
		}
		pn := rn.next[sp]
		rn.next[sp]++
		if lo := rn.sent[idx].la + 1; rn.sent[idx].hasAck && r.Chance(15) && lo < pn {
			pn = r.Range(lo, pn)
			rn.next[sp]--
		}
		rn.seen[sp] = append(rn.seen[sp], pn)
		rn.maxRcv[sp] = max(rn.maxRcv[sp], pn)
		return fmt.Sprintf("peerack %d %d %d", idx, pn, b01(r.Chance(60)))
	case 4:
		return "ackq " + lvlNames[rn.pickSpace(r)]
	default:
		sp := rn.pickSpace(r)
		pn := r.Range(0, rn.next[sp]+2)
		return fmt.Sprintf("dup %s %d", lvlNames[sp], pn)
	}
}

func parsePart(s string) (quic.VerifC07Part, bool) {
	f := strings.Split(s, ":")
	if len(f) != 3 {
		return quic.VerifC07Part{}, false
	}
	l, ok := lvlOf(f[0])
	if !ok {
		return quic.VerifC07Part{}, false
	}
	p := quic.VerifC07Part{Level: l, AckEliciting: f[2] == "1"}
	if f[1] != "-" {
		p.HasAck = true
		p.LargestAcked = protocol.PacketNumber(vh.Atoi64(f[1]))
	}
	return p, true
}

func fmtRegs(regs []quic.VerifC07Reg, err error) string {
	var sb strings.Builder
	if err != nil {
		sb.WriteString("E")
	} else {
		sb.WriteString("ok")
	}
	for _, g := range regs {
		fmt.Fprintf(&sb, " %s%d:%d", lvlName(g.Level), g.PN, g.LargestAcked)
	}
	return sb.String()
}

func kv(fs []string) map[string]string {
	m := map[string]string{}
	for _, f := range fs {
		if i := strings.IndexByte(f, '='); i > 0 {
			m[f[:i]] = f[i+1:]
		}
	}
	return m
}

func dur(m map[string]string, k string) (time.Duration, bool) {
	s, ok := m[k]
	if !ok || s == "-" {
		return 0, false
	}
	return time.Duration(vh.Atoi64(s)), true
}

func (rn *runner) Exec(op string) string {
	f := strings.Fields(op)
	if len(f) == 0 {
		return "bad-op"
	}
	switch f[0] {
	case "rcv":
		if len(f) != 4 {
			return "bad-op"
		}
		l, ok := lvlOf(f[1])
		if !ok {
			return "bad-op"
		}
		res, ok := rn.v.Received(l, protocol.PacketNumber(vh.Atoi64(f[2])), f[3] == "1")
		if !ok {
			return "skip"
		}
		return res
	case "coal":
		var parts []quic.VerifC07Part
		for _, s := range f[1:] {
			p, ok := parsePart(s)
			if !ok {
				return "bad-op"
			}
			parts = append(parts, p)
		}
		regs, err, ok := rn.v.SendCoalesced(parts)
		if !ok {
			return "skip"
		}
		return fmtRegs(regs, err)
	case "short":
		if len(f) != 4 {
			return "bad-op"
		}
		p, ok := parsePart("A:" + f[1] + ":" + f[2])
		if !ok {
			return "bad-op"
		}
		return fmtRegs(rn.v.SendShort(p, f[3] == "1"), nil)
	case "peerack":
		if len(f) != 4 {
			return "bad-op"
		}
		res, ok := rn.v.PeerAcks(int(vh.Atoi64(f[1])), protocol.PacketNumber(vh.Atoi64(f[2])), f[3] == "1")
		if !ok {
			return "skip"
		}
		return res
	case "ackq":
		if len(f) != 2 {
			return "bad-op"
		}
		l, ok := lvlOf(f[1])
		if !ok {
			return "bad-op"
		}
		res, ok := rn.v.AckFrame(l)
		if !ok {
			return "skip"
		}
		return res
	case "dup":
		if len(f) != 3 {
			return "bad-op"
		}
		l, ok := lvlOf(f[1])
		if !ok {
			return "bad-op"
		}
		d, ok := rn.v.IsDuplicate(l, protocol.PacketNumber(vh.Atoi64(f[2])))
		if !ok {
			return "skip"
		}
		return strconv.Itoa(b01(d))
	case "timer":
		m := kv(f[1:])
		var in quic.VerifC07Timer
		in.HandshakeComplete = m["hc"] == "1"
		in.Creation, _ = dur(m, "cr")
		in.HandshakeIdleTimeout, _ = dur(m, "hi")
		in.LastRcv, _ = dur(m, "lr")
		in.FirstAE, in.FirstAESet = dur(m, "fa")
		in.IdleTimeout, _ = dur(m, "it")
		in.RTTSample, _ = dur(m, "rtt")
		in.KeepAlivePeriod, _ = dur(m, "ka")
		in.KeepAlivePingSent = m["ks"] == "1"
		in.KeepAliveInterval, _ = dur(m, "ki")
		in.Blocked = int(vh.Atoi64(m["blk"]))
		if in.Blocked < 0 || in.Blocked > 2 {
			return "bad-op"
		}
		in.AckRcv, in.AckRcvSet = dur(m, "ar")
		in.Loss, in.LossSet = dur(m, "ls")
		in.Pacing, in.PacingSet = dur(m, "pd")
		out := rn.v.ResetTimer(in)
		return fmt.Sprintf("pto=%d al=%s fire=%d", int64(out.PTO), optNS(out.AlarmSet, int64(out.Alarm)), int64(out.Fire))
	}
	return "bad-op"
}

func TestDriver(t *testing.T) {
	synctest.Test(t, func(t *testing.T) { vh.Main(t, "ackglue", newRunner) })
}
