//go:build verif

// Package h3w is the shared-request-writer driver of property C18 (round 4): ONE real
// http3 requestWriter — every ClientConn owns one for all of its request streams — serialises the
// HEADERS frames (and trailer sections) of 2..4 requests whose stream writes are in progress at the
// same time. The io.Writer of each request stands for a QUIC send stream that is blocked on flow
// control: Write keeps the slice it was handed (as quic.SendStream.Write does) and consumes it only
// when the schedule says so.
//
//	hdr <i> m=<method> p=<path> h=<k:v,…> gz=<0|1>   start WriteRequestHeader of request i
//	trl <i> t=<k:v,…>                                  start WriteRequestTrailer of request i
//	take <i> <k>                                       stream i consumes up to k more bytes of the slice it holds
//
// results: `held:<hex>` (Write was entered with these bytes), `done:<frames>` (the call returned; the
// bytes stream i consumed so far, decoded), `err:<e>`, `blocked` (the call neither entered Write nor
// returned), `skip`; `take` answers `got <hex> <state>` with the bytes consumed NOW.
package h3w

import (
	"encoding/hex"
	"errors"
	"fmt"
	"net/http"
	"strconv"
	"strings"
	"testing"
	"time"

	quic "github.com/refraction-networking/uquic"
	"github.com/refraction-networking/uquic/http3"
	"github.com/refraction-networking/uquic/internal/verifharness/vh"
)

var errQuit = errors.New("h3w: case over")

type holdW struct {
	entered chan []byte
	cmd     chan int
	ack     chan []byte
	quit    chan struct{}
}

func (w *holdW) Write(p []byte) (int, error) {
	if len(p) == 0 {
		return 0, nil
	}
	select {
	case w.entered <- p:
	case <-w.quit:
		return 0, errQuit
	}
	off := 0
	for off < len(p) {
		select {
		case k := <-w.cmd:
			if k > len(p)-off {
				k = len(p) - off
			}
			piece := append([]byte(nil), p[off:off+k]...) // what the slice holds NOW
			off += k
			w.ack <- piece
		case <-w.quit:
			return off, errQuit
		}
	}
	return len(p), nil
}

type reqState struct {
	w         *holdW
	req       *http.Request
	done      chan error
	running   bool // a Write*-call of this request has not returned yet
	held      bool
	remaining int
	all       []byte
}

type runner struct {
	rw   *http3.VerifReqWriter
	reqs map[int]*reqState
	quit chan struct{}
	g    gen
}

const maxReq = 6

func parseKVs(s string) [][2]string {
	if s == "-" || s == "" {
		return nil
	}
	var out [][2]string
	for _, p := range strings.Split(s, ",") {
		if i := strings.IndexByte(p, ':'); i > 0 {
			out = append(out, [2]string{p[:i], p[i+1:]})
		}
	}
	return out
}

func get(fs []string, key string) string {
	for _, x := range fs {
		if strings.HasPrefix(x, key+"=") {
			return x[len(key)+1:]
		}
	}
	return ""
}

// expandVal: `*<n>.<c>` is n times the letter number c
func expandVal(v string) string {
	var n, c int
	if strings.HasPrefix(v, "*") {
		if _, err := fmt.Sscanf(v, "*%d.%d", &n, &c); err == nil && n >= 0 && n <= 4096 {
			return strings.Repeat(string(rune('a'+c%26)), n)
		}
	}
	return v
}

// wait for the call of request st to enter Write or to return
func (rn *runner) wait(st *reqState) string {
	select {
	case p := <-st.w.entered:
		st.held, st.remaining = true, len(p)
		return "held:" + hex.EncodeToString(p)
	case err := <-st.done:
		st.running, st.held = false, false
		if err != nil {
			return "err:" + strings.ReplaceAll(err.Error(), " ", "_")
		}
		return "done:" + strings.ReplaceAll(http3.VerifDescribeHeaders(st.all), " ", "~")
	case <-time.After(300 * time.Millisecond):
		return "blocked"
	}
}

func (rn *runner) Exec(op string) string {
	f := strings.Fields(op)
	if len(f) < 2 {
		return "bad-op"
	}
	i, err := strconv.Atoi(f[1])
	if err != nil || i < 0 || i >= maxReq {
		return "bad-op"
	}
	st := rn.reqs[i]
	switch f[0] {
	case "hdr":
		if st != nil {
			return "skip"
		}
		m, p := get(f, "m"), get(f, "p")
		if (m != "GET" && m != "POST" && m != "PUT") || !strings.HasPrefix(p, "/") {
			return "bad-op"
		}
		req, err := http.NewRequest(m, "https://localhost"+p, nil)
		if err != nil {
			return "bad-op"
		}
		for _, x := range parseKVs(get(f, "h")) {
			req.Header.Add(x[0], expandVal(x[1]))
		}
		st = &reqState{req: req, done: make(chan error, 1), running: true,
			w: &holdW{entered: make(chan []byte), cmd: make(chan int), ack: make(chan []byte), quit: rn.quit}}
		rn.reqs[i] = st
		gz := get(f, "gz") == "1"
		go func() { st.done <- rn.rw.WriteRequestHeader(st.w, req, gz, quic.StreamID(4*i)) }()
		return rn.wait(st)
	case "trl":
		if st == nil || st.running {
			return "skip"
		}
		st.req.Trailer = http.Header{}
		for _, x := range parseKVs(get(f, "t")) {
			st.req.Trailer.Add(x[0], expandVal(x[1]))
		}
		st.running = true
		go func() { st.done <- rn.rw.WriteRequestTrailer(st.w, st.req, quic.StreamID(4*i)) }()
		return rn.wait(st)
	case "take":
		if len(f) != 3 || st == nil || !st.running {
			return "skip"
		}
		k, err := strconv.Atoi(f[2])
		if err != nil || k <= 0 {
			return "bad-op"
		}
		if !st.held { // was blocked earlier
			if r := rn.wait(st); !st.held {
				return "late " + r
			}
		}
		st.w.cmd <- k
		piece := <-st.w.ack
		st.remaining -= len(piece)
		st.all = append(st.all, piece...)
		state := "more"
		if st.remaining == 0 {
			st.held = false
			state = rn.wait(st)
		}
		return "got " + hex.EncodeToString(piece) + " " + state
	}
	return "bad-op"
}

func (rn *runner) Close() { close(rn.quit) }

// ---------------------------------------------------------------- generator

type gen struct {
	started int
	n       int
}

func genFields(r *vh.Rand, i int) string {
	var ps []string
	for k := r.Intn(4); k > 0; k-- {
		name := []string{"x-a", "x-b", "x-c", "x-id"}[r.Intn(4)]
		v := []string{"1", "two", "c.d", "v" + strconv.Itoa(i), "zz9"}[r.Intn(5)]
		if r.Chance(30) {
			v = fmt.Sprintf("*%d.%d", 20+r.Intn(400), r.Intn(26))
		}
		ps = append(ps, name+":"+v)
	}
	// a field that names the request
	ps = append(ps, "x-req:r"+strconv.Itoa(i))
	return strings.Join(ps, ",")
}

func (rn *runner) GenOp(r *vh.Rand, idx int) string {
	g := &rn.g
	if idx == 0 {
		g.n = 2 + r.Intn(3)
	}
	takeK := func() int { return []int{1, 1, 2, 3, 7, 20, 64, 100000, 100000}[r.Intn(9)] }
	if g.started < g.n && (g.started == 0 || r.Chance(35)) {
		i := g.started
		g.started++
		return fmt.Sprintf("hdr %d m=%s p=/q%d/%s h=%s gz=%d", i, []string{"GET", "POST", "PUT"}[r.Intn(3)], i,
			[]string{"a", "b/c", "index.html", "x?y=1"}[r.Intn(4)], genFields(r, i), r.Intn(2))
	}
	i := r.Intn(g.started)
	if r.Chance(12) {
		return fmt.Sprintf("trl %d t=x-t%d:%s", i, i, []string{"1", "sum", "*60.3"}[r.Intn(3)])
	}
	return fmt.Sprintf("take %d %d", i, takeK())
}

func newRunner(r *vh.Rand) vh.Runner {
	return &runner{rw: http3.VerifNewRequestWriter(), reqs: map[int]*reqState{}, quit: make(chan struct{})}
}

func TestDriver(t *testing.T) { vh.Main(t, "h3w", newRunner) }
