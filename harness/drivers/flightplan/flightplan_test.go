//go:build verif

// Package flightplan is the C02 driver for "the same holds for every successive dial made with the same spec value"
// on the level of the flight planners (u_flight_frames.go): one case is ONE QUICFlightFrames / QUICRandomFlightFrames
// VALUE — as it sits inside a caller's QUICSpec — and every op asks it for the flight of one more connection, the way
// uPacketPacker does once per connection (BuildFlight with the connection's complete ClientHello; Build for Initial
// packets outside the planned flight). The ClientHello's length changes from connection to connection. Only exported
// API is used (no hooks).
//
//	mk kind=<F|R> plan=<dg>|<dg>|…        dg = item,item,…[;f=minC.maxC.minP.maxP.len.minPad.maxPad]
//	                                      item = c<off>:<len> (CRYPTO range, QUICCryptoRange semantics) | p (PING) | z<n> (PADDING)
//	  => ok
//	build len=<n> seed=<s>                BuildFlight(<n pseudo-random bytes>, nil) on the case's plan value
//	first len=<n> seed=<s>                Build(<n bytes>)
//	  => ok d=<per datagram: the stream intervals its CRYPTO frames carry, merged: a-b+c-d, _ = none>|… cov=<1: the
//	     datagrams together carry exactly [0,n)> data=<1: every CRYPTO frame carries the stream's bytes at its offset>
//	  |  E:<offset_oob|range_oob|empty_ranges|no_bytes|empty_plan|bad_cfg|other>
package flightplan

import (
	"fmt"
	"sort"
	"strconv"
	"strings"
	"testing"

	quic "github.com/refraction-networking/uquic"
	"github.com/refraction-networking/uquic/internal/verifharness/vh"
)

func TestDriver(t *testing.T) {
	vh.Main(t, "flightplan", func(r *vh.Rand) vh.Runner { return &runner{} })
}

type runner struct {
	fb quic.QUICFlightFrameBuilder // the plan value of this case

	// generator state
	lens []int
}

func kv(op string) map[string]string {
	m := map[string]string{}
	for _, f := range strings.Fields(op) {
		if i := strings.IndexByte(f, '='); i > 0 {
			m[f[:i]] = f[i+1:]
		}
	}
	return m
}

type item struct {
	kind     byte // 'c', 'p', 'z'
	off, len int
}

func parseDG(s string) (items []item, cfg []int, ok bool) {
	body := s
	if b, c, has := strings.Cut(s, ";f="); has {
		body = b
		for _, x := range strings.Split(c, ".") {
			n, err := strconv.Atoi(x)
			if err != nil || n < 0 {
				return nil, nil, false
			}
			cfg = append(cfg, n)
		}
		if len(cfg) != 7 {
			return nil, nil, false
		}
	}
	for _, it := range strings.Split(body, ",") {
		switch {
		case it == "":
		case it == "p":
			items = append(items, item{kind: 'p'})
		case it[0] == 'z':
			n, err := strconv.Atoi(it[1:])
			if err != nil || n < 1 || n > 4096 {
				return nil, nil, false
			}
			items = append(items, item{kind: 'z', len: n})
		case it[0] == 'c':
			a, b, has := strings.Cut(it[1:], ":")
			o, e1 := strconv.Atoi(a)
			l, e2 := strconv.Atoi(b)
			if !has || e1 != nil || e2 != nil {
				return nil, nil, false
			}
			items = append(items, item{kind: 'c', off: o, len: l})
		default:
			return nil, nil, false
		}
	}
	return items, cfg, true
}

func mkPlan(kind, plan string) (quic.QUICFlightFrameBuilder, bool) {
	if kind != "F" && kind != "R" {
		return nil, false
	}
	var dgs []string
	if plan != "-" {
		dgs = strings.Split(plan, "|")
	}
	if kind == "F" {
		f := &quic.QUICFlightFrames{}
		for _, d := range dgs {
			items, _, ok := parseDG(d)
			if !ok {
				return nil, false
			}
			fr := quic.QUICFrames{}
			for _, it := range items {
				switch it.kind {
				case 'c':
					fr = append(fr, quic.QUICFrameCrypto{Offset: it.off, Length: it.len})
				case 'p':
					fr = append(fr, quic.QUICFramePing{})
				case 'z':
					fr = append(fr, quic.QUICFramePadding{Length: it.len})
				}
			}
			f.Datagrams = append(f.Datagrams, fr)
		}
		return f, true
	}
	f := &quic.QUICRandomFlightFrames{}
	for _, d := range dgs {
		items, cfg, ok := parseDG(d)
		if !ok {
			return nil, false
		}
		dg := quic.QUICRandomFlightDatagram{}
		for _, it := range items {
			if it.kind == 'c' {
				dg.CryptoRanges = append(dg.CryptoRanges, quic.QUICCryptoRange{Offset: it.off, Length: it.len})
			}
		}
		if cfg != nil {
			dg.Frames = quic.QUICRandomFrames{MinCRYPTO: uint8(min(cfg[0], 255)), MaxCRYPTO: uint8(min(cfg[1], 255)),
				MinPING: uint8(min(cfg[2], 255)), MaxPING: uint8(min(cfg[3], 255)), Length: uint16(min(cfg[4], 65535)),
				MinPADDING: uint8(min(cfg[5], 255)), MaxPADDING: uint8(min(cfg[6], 255))}
		}
		f.PerDatagram = append(f.PerDatagram, dg)
	}
	return f, true
}

func errClass(err error) string {
	m := err.Error()
	switch {
	case strings.Contains(m, "CRYPTO range offset"):
		return "offset_oob"
	case strings.Contains(m, "CRYPTO range ["):
		return "range_oob"
	case strings.Contains(m, "CryptoRanges must not be empty"):
		return "empty_ranges"
	case strings.Contains(m, "cover no bytes"):
		return "no_bytes"
	case strings.Contains(m, "Datagrams must not be empty"), strings.Contains(m, "PerDatagram must not be empty"):
		return "empty_plan"
	case strings.Contains(m, "must be less than or equal"), strings.Contains(m, "must be at least 1"):
		return "bad_cfg"
	}
	return "other"
}

func readVarint(b []byte) (uint64, int) {
	if len(b) == 0 {
		return 0, 0
	}
	l := 1 << (b[0] >> 6)
	if len(b) < l {
		return 0, 0
	}
	v := uint64(b[0] & 0x3f)
	for i := 1; i < l; i++ {
		v = v<<8 | uint64(b[i])
	}
	return v, l
}

type iv struct{ a, b int }

// framesOf parses a frame payload (PADDING, PING, CRYPTO only): the intervals of the CRYPTO frames, and whether each
// carries stream[off:off+len].
func framesOf(payload, stream []byte) (ivs []iv, faithful, ok bool) {
	faithful = true
	b := payload
	for len(b) > 0 {
		switch b[0] {
		case 0x00, 0x01:
			b = b[1:]
		case 0x06:
			b = b[1:]
			off, n := readVarint(b)
			if n == 0 {
				return nil, false, false
			}
			b = b[n:]
			l, n := readVarint(b)
			if n == 0 || uint64(len(b)-n) < l {
				return nil, false, false
			}
			b = b[n:]
			if off+l > uint64(len(stream)) || string(b[:l]) != string(stream[off:off+l]) {
				faithful = false
			}
			if l > 0 {
				ivs = append(ivs, iv{int(off), int(off + l)})
			}
			b = b[l:]
		default:
			return nil, false, false
		}
	}
	return ivs, faithful, true
}

func norm(ivs []iv) []iv {
	s := append([]iv(nil), ivs...)
	sort.SliceStable(s, func(i, j int) bool { return s[i].a < s[j].a })
	var out []iv
	for _, x := range s {
		if x.a >= x.b {
			continue
		}
		if k := len(out) - 1; k >= 0 && x.a <= out[k].b {
			out[k].b = max(out[k].b, x.b)
			continue
		}
		out = append(out, x)
	}
	return out
}

func render(ivs []iv) string {
	u := norm(ivs)
	if len(u) == 0 {
		return "_"
	}
	var p []string
	for _, x := range u {
		p = append(p, fmt.Sprintf("%d-%d", x.a, x.b))
	}
	return strings.Join(p, "+")
}

func (rn *runner) Exec(op string) string {
	f := strings.Fields(op)
	if len(f) == 0 {
		return "skip"
	}
	a := kv(op)
	switch f[0] {
	case "mk":
		fb, ok := mkPlan(a["kind"], a["plan"])
		if !ok {
			rn.fb = nil
			return "skip"
		}
		rn.fb = fb
		return "ok"
	case "build", "first":
		n, err := strconv.Atoi(a["len"])
		if rn.fb == nil || err != nil || n < 0 || n > 1<<16 {
			return "skip"
		}
		seed, _ := strconv.ParseUint(a["seed"], 10, 64)
		stream := vh.NewRand(seed*0x9e3779b97f4a7c15 + 1).Bytes(n)
		orig := append([]byte(nil), stream...)
		var payloads [][]byte
		if f[0] == "build" {
			payloads, err = rn.fb.BuildFlight(stream, nil)
		} else {
			var p []byte
			if p, err = rn.fb.Build(stream); err == nil {
				payloads = [][]byte{p}
			}
		}
		if err != nil {
			return "E:" + errClass(err)
		}
		var ds []string
		var all []iv
		data := 1
		for _, p := range payloads {
			ivs, faithful, ok := framesOf(p, orig)
			if !ok {
				return "E:unparsable"
			}
			if !faithful {
				data = 0
			}
			ds = append(ds, render(ivs))
			all = append(all, ivs...)
		}
		cov := 0
		u := norm(all)
		if (n == 0 && len(u) == 0) || (len(u) == 1 && u[0] == iv{0, n}) {
			cov = 1
		}
		return fmt.Sprintf("ok d=%s cov=%d data=%d", strings.Join(ds, "|"), cov, data)
	}
	return "skip"
}

// ---------------------------------------------------------------- generator

func fmtItems(items []string, cfg string) string {
	s := strings.Join(items, ",")
	if cfg != "" {
		s += ";f=" + cfg
	}
	return s
}

func genCfg(r *vh.Rand) string {
	if r.Chance(4) { // inconsistent settings
		return []string{"3.1.0.0.0.0.0", "1.2.4.2.0.0.0", "1.2.0.0.900.0.0", "1.2.0.0.900.3.1"}[r.Intn(4)]
	}
	minC := 1 + r.Intn(3)
	minP := r.Intn(3)
	length, minPad, maxPad := 0, 0, 0
	if r.Chance(30) {
		length, minPad, maxPad = []int{200, 600, 1180}[r.Intn(3)], 1+r.Intn(2), 3+r.Intn(3)
	}
	return fmt.Sprintf("%d.%d.%d.%d.%d.%d.%d", minC, minC+r.Intn(6), minP, minP+r.Intn(4), length, minPad, maxPad)
}

// genPlan: mostly the documented way to write a flight plan — cut points counted from the start (h1 < h2 < …) and a tail
// counted from the end (t), the pieces dealt to 1..4 datagrams out of stream order — which serves every ClientHello of
// at least h_k + t bytes; sometimes absolute plans (they serve one length only), overlapping pieces, and malformed ones.
func (rn *runner) genPlan(r *vh.Rand) string {
	kind := []string{"R", "F"}[r.Pick(60, 40)]
	if r.Chance(2) {
		return fmt.Sprintf("mk kind=%s plan=-", kind)
	}
	nd := 1 + r.Pick(20, 40, 30, 10)
	ncut := r.Intn(4) // cut points from the start
	cuts := []int{0}
	for i := 0; i < ncut; i++ {
		cuts = append(cuts, cuts[len(cuts)-1]+1+r.Intn(400))
	}
	tail := 0
	if r.Chance(80) {
		tail = 1 + r.Intn(400)
	}
	base := cuts[len(cuts)-1] + tail
	var pieces []string
	absolute := r.Chance(12)
	total := base + 1 + r.Intn(600) // the length an absolute plan is written for
	for i := 0; i+1 < len(cuts); i++ {
		pieces = append(pieces, fmt.Sprintf("c%d:%d", cuts[i], cuts[i+1]-cuts[i]))
	}
	last := cuts[len(cuts)-1]
	switch {
	case absolute:
		pieces = append(pieces, fmt.Sprintf("c%d:%d", last, total-last))
	case tail > 0:
		// the middle up to where the tail starts, then the tail
		pieces = append(pieces, fmt.Sprintf("c%d:%d", last, -tail), fmt.Sprintf("c%d:0", -tail))
	default:
		pieces = append(pieces, fmt.Sprintf("c%d:0", last))
	}
	if r.Chance(10) { // an overlapping extra piece
		pieces = append(pieces, fmt.Sprintf("c%d:%d", r.Intn(base+1), 1+r.Intn(50)))
	}
	if r.Chance(6) { // malformed / edge pieces
		pieces = append(pieces, []string{"c-100000:0", "c0:-100000", "c70000:1", "c0:70000", "c5:-5", "c-1:0", "c0:1", "c-0:0"}[r.Intn(8)])
	}
	if r.Chance(5) && len(pieces) > 1 { // a hole: one piece is never sent
		k := r.Intn(len(pieces))
		pieces = append(pieces[:k], pieces[k+1:]...)
	}
	// deal the pieces to the datagrams, tail first quite often (Chrome's scatter), otherwise shuffled
	for i := len(pieces) - 1; i > 0; i-- {
		j := r.Intn(i + 1)
		pieces[i], pieces[j] = pieces[j], pieces[i]
	}
	dgs := make([][]string, nd)
	for i, p := range pieces {
		k := i % nd
		if r.Chance(30) {
			k = r.Intn(nd)
		}
		dgs[k] = append(dgs[k], p)
	}
	var out []string
	for _, d := range dgs {
		cfg := ""
		if kind == "R" {
			if r.Chance(85) {
				cfg = genCfg(r)
			}
		} else {
			if r.Chance(40) {
				d = append(d, "p")
			}
			if r.Chance(30) {
				d = append(d, fmt.Sprintf("z%d", 1+r.Intn(40)))
			}
			for i := len(d) - 1; i > 0; i-- {
				j := r.Intn(i + 1)
				d[i], d[j] = d[j], d[i]
			}
		}
		out = append(out, fmtItems(d, cfg))
	}
	// the ClientHello lengths of this case's connections: around the smallest length the plan serves, the length an
	// absolute plan was written for, and well above
	rn.lens = []int{base, base + 1, base + 2, base + 31, total, total + 1, max(total-1, 0), base + 700, 2*base + 1500, max(base-1, 0), base / 2}
	return fmt.Sprintf("mk kind=%s plan=%s", kind, strings.Join(out, "|"))
}

func (rn *runner) GenOp(r *vh.Rand, i int) string {
	if i == 0 || rn.lens == nil || r.Chance(3) {
		return rn.genPlan(r)
	}
	n := rn.lens[r.Pick(14, 8, 6, 12, 14, 8, 6, 12, 10, 5, 5)]
	if r.Chance(10) {
		n = r.Intn(3000)
	}
	op := "build"
	if r.Chance(12) {
		op = "first"
	}
	return fmt.Sprintf("%s len=%d seed=%d", op, n, r.U64()>>40)
}
