//go:build verif

// Package cidmr drives ONE real connIDGenerator registered with SEVERAL real packetHandlerMaps (property C16):
// the glue of client-side path probing / migration (Conn.AddPath -> connIDGenerator.AddConnRunner) and the fan-out
// of AddConnectionID / RemoveConnectionID / ReplaceWithClosed to every transport the connection is registered with.
//
// One case = one connection and 2..4 transports, inside one testing/synctest bubble (fake time for the expiry timers
// of packetHandlerMap.ReplaceWithClosed).
//
// ops:
//
//	init <idlen> <hexinitial> <hexclientdest|none> <ntransports>
//	limit <n> | retire <seq> <hexdst> <expiry> | hsdone <expiry> | expire <now>       (generator, as in driver cid)
//	addpath <k>                      AddConnRunner(transport k) with the callbacks of Conn.AddPath
//	removeall | replace <local 0|1> <expiry ns>                                       (the two close paths)
//	timer <ns>                       fake time passes
//	pkt <k> <hexid>                  a packet with this destination connection ID arrives at transport k
//	dial2 <k> <hexid>                after the close: another connection registers this ID on transport k
//
// result: <head> ev=<NEW_CONNECTION_ID frames> t0=<callbacks on transport 0> t1=… | act= ret= icd= hs= |
//
//	r0=<routes of transport 0> r1=… | sh0=<slice handed to transport 0 by ReplaceWithClosed: then>now> sh1=…
package cidmr

import (
	"encoding/hex"
	"errors"
	"fmt"
	"sort"
	"strconv"
	"strings"
	"sync/atomic"
	"testing"
	"testing/synctest"
	"time"

	quic "github.com/refraction-networking/uquic"
	"github.com/refraction-networking/uquic/internal/qerr"
	"github.com/refraction-networking/uquic/internal/verifharness/vh"
)

type runner struct {
	cmd  chan string
	res  chan string
	done chan struct{}

	v *quic.VerifMultiRunner // touched only by the bubble goroutine

	closed bool

	// generator of ops
	script    []string
	genInited bool
	genClosed bool
	nTr       int
	idLen     int
	limit     uint64
	now       int64
	active    []quic.VerifCIDEntry
	allIDs    [][]byte
	highest   uint64
}

func hx(b []byte) string {
	if len(b) == 0 {
		return "-"
	}
	return hex.EncodeToString(b)
}

func unhx(s string) []byte {
	if s == "-" || s == "" {
		return []byte{}
	}
	b, err := hex.DecodeString(s)
	if err != nil {
		return []byte{}
	}
	return b
}

// mkID is the application's ConnectionIDGenerator used by the driver (and known to the model); as in driver cid.
func mkID(k, l int) []byte {
	b := make([]byte, l)
	for i := range b {
		if i == 0 {
			b[i] = byte((0x80 + k) % 256)
		} else {
			b[i] = byte((i*17 + k/128) % 256)
		}
	}
	return b
}

var caseCounter atomic.Int64

func newRunner(t *testing.T, r *vh.Rand) vh.Runner {
	rn := &runner{cmd: make(chan string), res: make(chan string), done: make(chan struct{}), now: 1_000_000_000}
	// the first cases of a run walk through the enumerated scripts (every order of retire / add-path / sweep / close)
	c := int(caseCounter.Add(1)) - 1
	if s := scripts(); c < 2*len(s) {
		rn.script = s[c%len(s)]
	}
	go func() {
		defer close(rn.done)
		synctest.Test(t, func(t *testing.T) {
			for op := range rn.cmd {
				if op == "\x00quit" {
					time.Sleep(24 * time.Hour) // let every pending expiry timer fire before the bubble ends
					synctest.Wait()
					return
				}
				rn.res <- rn.safe(op)
			}
		})
	}()
	return rn
}

func (rn *runner) Close() {
	rn.cmd <- "\x00quit"
	<-rn.done
}

func (rn *runner) Exec(op string) string {
	rn.cmd <- op
	return <-rn.res
}

func (rn *runner) safe(op string) (res string) {
	defer func() {
		if e := recover(); e != nil {
			res = "PANIC" + rn.suffix(op)
		}
	}()
	return rn.exec(op)
}

func errClass(err error) string {
	if err == nil {
		return "ok"
	}
	var te *qerr.TransportError
	if errors.As(err, &te) {
		if te.ErrorCode == qerr.ProtocolViolation {
			return "E:PROTOCOL_VIOLATION"
		}
		return "E:transport_other"
	}
	return "E:other"
}

func fmtEvents(evs []quic.VerifCIDEvent) string {
	if len(evs) == 0 {
		return "-"
	}
	var parts []string
	for _, e := range evs {
		switch e.Kind {
		case "addroute":
			parts = append(parts, "A"+hx(e.ID))
		case "rmroute":
			parts = append(parts, "D"+hx(e.ID))
		case "newcid":
			parts = append(parts, fmt.Sprintf("N%d:%s", e.Seq, hx(e.ID)))
		case "replace":
			l := 0
			if e.Local {
				l = 1
			}
			parts = append(parts, fmt.Sprintf("C%d:%d:%s", l, int64(e.Expiry), fmtIDList(e.IDs)))
		default:
			parts = append(parts, "?"+e.Kind)
		}
	}
	return strings.Join(parts, ",")
}

// fmtIDList prints a list of connection IDs that came out of a Go map iteration: sorted, as a multiset.
func fmtIDList(ids [][]byte) string {
	if len(ids) == 0 {
		return "empty"
	}
	s := make([]string, 0, len(ids))
	for _, id := range ids {
		s = append(s, hx(id))
	}
	sort.Strings(s)
	return strings.Join(s, ";")
}

func (rn *runner) suffix(op string) string {
	if rn.v == nil {
		return " ev=- | -"
	}
	var sb strings.Builder
	fr := rn.v.Frames
	rn.v.Frames = nil
	for _, e := range fr {
		if e.Kind == "newcid" {
			rn.allIDs = append(rn.allIDs, e.ID)
		}
	}
	sb.WriteString(" ev=" + fmtEvents(fr))
	unordered := strings.HasPrefix(op, "removeall") || strings.HasPrefix(op, "addpath") // callbacks out of a Go map iteration
	for k := 0; k < rn.v.Transports(); k++ {
		evs := rn.v.Events[k]
		rn.v.Events[k] = nil
		if unordered {
			sort.SliceStable(evs, func(i, j int) bool { return string(evs[i].ID) < string(evs[j].ID) })
		}
		fmt.Fprintf(&sb, " t%d=%s", k, fmtEvents(evs))
	}
	act, ret, at, cd, hs := rn.v.State()
	rn.active = act
	rn.highest = hs
	sb.WriteString(" | act=")
	if len(act) == 0 {
		sb.WriteString("-")
	}
	for i, e := range act {
		if i > 0 {
			sb.WriteByte('/')
		}
		fmt.Fprintf(&sb, "%d:%s", e.Seq, hx(e.ID))
	}
	sb.WriteString(" ret=")
	if len(ret) == 0 {
		sb.WriteString("-")
	}
	for i, e := range ret {
		if i > 0 {
			sb.WriteByte('/')
		}
		fmt.Fprintf(&sb, "%d:%s", at[i], hx(e.ID))
	}
	if cd == nil {
		sb.WriteString(" icd=none")
	} else {
		sb.WriteString(" icd=" + hx(cd))
	}
	fmt.Fprintf(&sb, " hs=%d |", hs)
	for k := 0; k < rn.v.Transports(); k++ {
		ids, kinds := rn.v.Map(k).Routes()
		fmt.Fprintf(&sb, " r%d=", k)
		if len(ids) == 0 {
			sb.WriteString("none")
		}
		for i := range ids {
			if i > 0 {
				sb.WriteByte('/')
			}
			sb.WriteString(hx(ids[i]) + ":" + kinds[i])
		}
	}
	sb.WriteString(" |")
	for k := 0; k < rn.v.Transports(); k++ {
		then, now, ok := rn.v.Handed(k)
		if !ok {
			fmt.Fprintf(&sb, " sh%d=none", k)
			continue
		}
		fmt.Fprintf(&sb, " sh%d=%s>%s", k, fmtIDList(then), fmtIDList(now))
	}
	return sb.String()
}

func u64(s string) uint64 { n, _ := strconv.ParseUint(s, 10, 64); return n }

func (rn *runner) exec(op string) string {
	w := strings.Fields(op)
	if len(w) == 0 {
		return "skip"
	}
	if w[0] == "init" {
		if rn.v != nil || len(w) < 5 {
			return "skip"
		}
		n := int(u64(w[4]))
		if n < 1 || n > 6 {
			return "skip"
		}
		var cd []byte
		if w[3] != "none" {
			cd = unhx(w[3])
		}
		initial := unhx(w[2])
		rn.v = quic.VerifNewMultiRunner(n, int(u64(w[1])), initial, cd, mkID)
		rn.allIDs = append(rn.allIDs, initial)
		if cd != nil {
			rn.allIDs = append(rn.allIDs, cd)
		}
		return "ok" + rn.suffix(op)
	}
	if rn.v == nil {
		return "skip" // the shrinker removed the init line
	}
	switch w[0] {
	case "limit":
		if len(w) < 2 || rn.closed {
			return "skip"
		}
		err := rn.v.SetMaxActiveConnIDs(u64(w[1]))
		return errClass(err) + rn.suffix(op)
	case "retire":
		if len(w) < 4 || rn.closed || rn.v.Generated() >= 100 {
			return "skip"
		}
		err := rn.v.Retire(u64(w[1]), unhx(w[2]), int64(u64(w[3])))
		return errClass(err) + rn.suffix(op)
	case "hsdone":
		if len(w) < 2 || rn.closed {
			return "skip"
		}
		rn.v.SetHandshakeComplete(int64(u64(w[1])))
		return "ok" + rn.suffix(op)
	case "expire":
		if len(w) < 2 || rn.closed {
			return "skip"
		}
		rn.v.RemoveRetiredConnIDs(int64(u64(w[1])))
		return "ok" + rn.suffix(op)
	case "addpath":
		if len(w) < 2 || rn.closed {
			return "skip"
		}
		k := int(u64(w[1]))
		if k >= rn.v.Transports() {
			return "skip"
		}
		rn.v.AddPath(k)
		return "ok" + rn.suffix(op)
	case "removeall":
		if rn.closed {
			return "skip"
		}
		rn.closed = true
		rn.v.RemoveAll()
		return "ok" + rn.suffix(op)
	case "replace":
		if len(w) < 3 || rn.closed {
			return "skip"
		}
		rn.closed = true
		rn.v.ReplaceWithClosed(w[1] == "1", time.Duration(u64(w[2])))
		return "ok" + rn.suffix(op)
	case "timer":
		if len(w) < 2 {
			return "skip"
		}
		time.Sleep(time.Duration(u64(w[1])))
		synctest.Wait()
		return "ok" + rn.suffix(op)
	case "dial2":
		if len(w) < 3 || !rn.closed {
			return "skip"
		}
		k := int(u64(w[1]))
		if k >= rn.v.Transports() {
			return "skip"
		}
		rn.v.Map(k).InstallSecond(unhx(w[2]))
		return "ok" + rn.suffix(op)
	case "pkt":
		if len(w) < 3 {
			return "skip"
		}
		k := int(u64(w[1]))
		if k >= rn.v.Transports() {
			return "skip"
		}
		kind, reached, cc := rn.v.Map(k).Deliver(unhx(w[2]))
		c := 0
		if reached {
			c = 1
		}
		return fmt.Sprintf("%s conn=%d cc=%d", kind, c, cc) + rn.suffix(op)
	}
	return "skip"
}

// ---------------------------------------------------------------- generation

// scripts enumerates, for a client and a server connection with three transports, every order of
// {RETIRE_CONNECTION_ID 1, RETIRE_CONNECTION_ID 2, add path 1, add path 2, sweep of expired IDs} followed by each of
// the three ways a connection ends, the end of the closing period, and a packet for every ID on every transport.
func scripts() [][]string {
	events := []string{"retire 1 01020304 1100000000", "retire 2 01020304 1200000000", "addpath 1", "addpath 2", "expire 1150000000"}
	closes := []string{"replace 1 500000000", "replace 0 500000000", "removeall"}
	var perms [][]int
	var rec func(cur []int, used int)
	rec = func(cur []int, used int) {
		if len(cur) == len(events) {
			perms = append(perms, append([]int{}, cur...))
			return
		}
		for i := range events {
			if used&(1<<i) == 0 {
				rec(append(cur, i), used|1<<i)
			}
		}
	}
	rec(nil, 0)
	var out [][]string
	for pi, p := range perms {
		for ci, cl := range closes {
			s := []string{"init 4 01020304 none 3"}
			if (pi+ci)%4 == 3 { // a quarter of them from the server's perspective
				s = []string{"init 4 01020304 0a0b0c0d0e0f1011 3", "hsdone 1250000000"}
			}
			s = append(s, "limit 4")
			for _, i := range p {
				s = append(s, events[i])
			}
			s = append(s, cl, "timer 499999999", "pkt 0 "+hx(mkID(0, 4)), "timer 1", "pkt 0 "+hx(mkID(0, 4)), "pkt 1 "+hx(mkID(1, 4)), "pkt 2 "+hx(mkID(3, 4)))
			out = append(out, s)
		}
	}
	return out
}

func (rn *runner) someID(r *vh.Rand) []byte {
	if len(rn.allIDs) > 0 && r.Chance(85) {
		return rn.allIDs[r.Intn(len(rn.allIDs))]
	}
	return r.Bytes(int(r.Range(1, 20))) // a foreign ID
}

func (rn *runner) GenOp(r *vh.Rand, i int) string {
	if i < len(rn.script) {
		op := rn.script[i]
		rn.genInited = true
		if strings.HasPrefix(op, "init") {
			rn.nTr, rn.idLen = 3, 4
		}
		if strings.HasPrefix(op, "replace") || op == "removeall" {
			rn.genClosed = true
		}
		if strings.HasPrefix(op, "limit") {
			rn.limit = 4
		}
		return op
	}
	if !rn.genInited {
		rn.genInited = true
		rn.idLen = []int{0, 4, 4, 4, 8, 8, 16, 20}[r.Intn(8)]
		rn.nTr = int(r.Range(2, 4))
		initial := r.Bytes(rn.idLen)
		if rn.idLen > 0 {
			initial[0] &= 0x7f
		}
		cd := "none"
		if r.Chance(30) {
			b := r.Bytes(int(r.Range(8, 20)))
			b[0] &= 0x7f
			cd = hx(b)
		}
		return fmt.Sprintf("init %d %s %s %d", rn.idLen, hx(initial), cd, rn.nTr)
	}
	rn.now += r.Range(0, 300_000_000)
	if rn.genClosed {
		switch r.Pick(35, 50, 15) {
		case 0:
			return fmt.Sprintf("timer %d", r.Range(1, 2_000_000_000))
		case 2:
			return fmt.Sprintf("dial2 %d %s", r.Intn(rn.nTr), hx(rn.someID(r)))
		default:
			return fmt.Sprintf("pkt %d %s", r.Intn(rn.nTr), hx(rn.someID(r)))
		}
	}
	if rn.limit == 0 && r.Chance(70) {
		rn.limit = uint64(r.Range(2, 8))
		return fmt.Sprintf("limit %d", rn.limit)
	}
	switch r.Pick(38, 3, 6, 10, 16, 17, 4, 6) {
	case 0: // RETIRE_CONNECTION_ID from the peer
		var seq uint64
		switch {
		case len(rn.active) > 0 && r.Chance(80):
			seq = rn.active[r.Intn(len(rn.active))].Seq
		case r.Chance(70):
			seq = uint64(r.Range(0, int64(rn.highest)))
		default:
			seq = rn.highest + uint64(r.Range(1, 3))
		}
		var dst []byte
		switch {
		case r.Chance(8): // the ID being retired itself
			for _, e := range rn.active {
				if e.Seq == seq {
					dst = e.ID
				}
			}
		case len(rn.active) > 0:
			dst = rn.active[r.Intn(len(rn.active))].ID
		}
		if dst == nil {
			dst = rn.someID(r)
		}
		return fmt.Sprintf("retire %d %s %d", seq, hx(dst), rn.now+r.Range(0, 1_200_000_000))
	case 1:
		return fmt.Sprintf("limit %d", rn.limit)
	case 2:
		return fmt.Sprintf("hsdone %d", rn.now+r.Range(0, 900_000_000))
	case 3:
		return fmt.Sprintf("expire %d", rn.now)
	case 4:
		return fmt.Sprintf("pkt %d %s", r.Intn(rn.nTr), hx(rn.someID(r)))
	case 5: // the application probes / returns to a path
		return fmt.Sprintf("addpath %d", r.Intn(rn.nTr))
	case 6:
		rn.genClosed = true
		return "removeall"
	case 7:
		rn.genClosed = true
		return fmt.Sprintf("replace %d %d", r.Intn(2), r.Range(1, 1_500_000_000))
	}
	return fmt.Sprintf("timer %d", r.Range(1, 500_000_000))
}

func TestDriver(t *testing.T) {
	vh.Main(t, "cidmr", func(r *vh.Rand) vh.Runner { return newRunner(t, r) })
}
