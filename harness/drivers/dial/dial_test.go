//go:build verif

//go:debug randseednop=0

// Package dial is the end-to-end driver of property C02: whole dials of a real client (UTransport with a
// built-in or derived QUICSpec, UTransport without a spec, or a plain Transport) against the in-tree
// server over testutils/simnet inside a testing/synctest bubble, with scripted per-datagram faults.
//
// ops (one scenario per line; every op is self-contained, so any sub-sequence of a case replays):
//
//	dial base=<id|none> der=<tokens|-> n=<k> tr=<same|new> fresh=<0|1> faults=<sched|-> srv=<cfg> seed=<s> [sni=<l1>.<l2>…] [stls=<def|hrr>] [pause=<ms>]
//	  (stls=hrr: the server's TLS stack only accepts P-384, a group no client sends a key share for, so it answers the
//	   ClientHello with a HelloRetryRequest and the client has to send a SECOND ClientHello on the Initial CRYPTO stream;
//	   pause=<ms>: after the echo the connection is left unused for that long, then a second echo follows)
//	  (sni: the length of the server name dial i asks for, 0 = "localhost": a client talks to more than one host, so the
//	   ClientHello — and with it everything laid out relative to its length — differs from dial to dial)
//	  => S[ <spec facts> ] D[ i=1 <first-flight facts> out=<outcome> … ] S[ … ] D[ i=2 … ] S[ … ] …
//	cmp ccfg=<id> faults=<sched|-> srv=<cfg> seed=<s>
//	  => A[ … ] B[ … ] same=<0|1>          (A: plain Transport, B: UTransport{QUICSpec: nil}, same random stream)
package dial

import (
	"context"
	"crypto/sha256"
	"crypto/x509"
	"encoding/hex"
	"errors"
	"fmt"
	"io"
	mrand "math/rand"
	"net"
	"os"
	"os/exec"
	"slices"
	"sort"
	"strconv"
	"strings"
	"sync"
	"testing"
	"testing/cryptotest"
	"testing/synctest"
	"time"

	quic "github.com/refraction-networking/uquic"
	"github.com/refraction-networking/uquic/internal/handshake"
	"github.com/refraction-networking/uquic/internal/protocol"
	"github.com/refraction-networking/uquic/internal/verifharness/e2e"
	"github.com/refraction-networking/uquic/internal/verifharness/vh"
	"github.com/refraction-networking/uquic/internal/wire"
	"github.com/refraction-networking/uquic/qlog"
	"github.com/refraction-networking/uquic/qlogwriter"
	tls "github.com/refraction-networking/utls"
)

var theT *testing.T

func TestDriver(t *testing.T) {
	theT = t
	vh.Main(t, "dial", func(r *vh.Rand) vh.Runner { return &runner{} })
}

// TestChild executes ONE op (DIAL_OP) and prints its result. Every op runs in a child process of the driver: a
// panic in one of the connection's own goroutines (which no recover() of the harness can trap) or a deadlocked
// bubble must be an outcome of that op (`PANIC:<class>` / `hang-real`), not the end of the whole run.
func TestChild(t *testing.T) {
	op := os.Getenv("DIAL_OP")
	if op == "" {
		t.Skip("DIAL_OP not set")
	}
	theT = t
	fmt.Printf("\nRESULT %s\n", execOp(op))
}

func panicClass(out string) string {
	i := strings.Index(out, "panic: ")
	if i < 0 {
		if strings.Contains(out, "fatal error: ") {
			return "fatal"
		}
		return "exit"
	}
	msg := out[i+7:]
	if j := strings.IndexByte(msg, '\n'); j >= 0 {
		msg = msg[:j]
	}
	switch {
	case strings.Contains(msg, "must contain a QUICTransportParametersExtension"):
		return "no_qtp"
	case strings.Contains(msg, "doesn't fit into 62 bits"):
		return "varint_range"
	case strings.Contains(msg, "deadlock"):
		return "bubble_deadlock"
	case strings.Contains(msg, "index out of range"), strings.Contains(msg, "slice bounds out of range"):
		return "index"
	case strings.Contains(msg, "nil pointer"):
		return "nilptr"
	}
	return "other"
}

func (rn *runner) Exec(op string) string {
	if os.Getenv("DIAL_INPROC") == "1" {
		return execOp(op)
	}
	// 20 s of real time for an op that takes 30 ms; an op that does not make it gets one more chance with 90 s (a
	// machine busy with other builds can stall a process that long; a livelock stays one)
	r := execChild(op, 20*time.Second)
	if r == "hang-real" {
		r = execChild(op, 90*time.Second)
	}
	return r
}

func execChild(op string, limit time.Duration) string {
	ctx, cancel := context.WithTimeout(context.Background(), limit)
	defer cancel()
	cmd := exec.CommandContext(ctx, os.Args[0], "-test.run", "^TestChild$", "-test.count=1", "-test.timeout", "0")
	cmd.Env = append(os.Environ(), "DIAL_OP="+op, "GOMAXPROCS=2")
	out, err := cmd.CombinedOutput()
	so := string(out)
	if i := strings.LastIndex(so, "\nRESULT "); i >= 0 && err == nil {
		r := so[i+8:]
		if j := strings.IndexByte(r, '\n'); j >= 0 {
			r = r[:j]
		}
		return r
	}
	if ctx.Err() != nil {
		return "hang-real"
	}
	if f := os.Getenv("DIAL_CRASHLOG"); f != "" {
		fh, _ := os.OpenFile(f, os.O_APPEND|os.O_CREATE|os.O_WRONLY, 0o644)
		fmt.Fprintf(fh, "### %s\n%s\n", op, so)
		fh.Close()
	}
	return "PANIC:" + panicClass(so)
}

// ---------------------------------------------------------------- built-in specs

var baseIDs = map[string]quic.QUICID{
	"F116A":  quic.QUICFirefox_116A,
	"F116B":  quic.QUICFirefox_116B,
	"F116C":  quic.QUICFirefox_116C,
	"C115v4": quic.QUICChrome_115_IPv4,
	"C115v6": quic.QUICChrome_115_IPv6,
	"C146v4": quic.QUICChrome_146_IPv4,
	"C146v6": quic.QUICChrome_146_IPv6,
	// the exported aliases (they must resolve to a working spec as well)
	"F116": quic.QUICFirefox_116,
	"C115": quic.QUICChrome_115,
	"C146": quic.QUICChrome_146,
}

var baseNames = []string{"F116A", "F116B", "F116C", "C115v4", "C115v6", "C146v4", "C146v6", "F116", "C115", "C146"}

const (
	idISCID = 0x0f
	dataLen = 10 * 1024
)

func qtpExt(spec *quic.QUICSpec) *tls.QUICTransportParametersExtension {
	if spec == nil || spec.ClientHelloSpec == nil {
		return nil
	}
	for _, e := range spec.ClientHelloSpec.Extensions {
		if q, ok := e.(*tls.QUICTransportParametersExtension); ok {
			return q
		}
	}
	return nil
}

// deriveSpec builds a fresh built-in spec and applies the derivation tokens. ok=false: unknown token/base.
func deriveSpec(base, der string) (*quic.QUICSpec, bool) {
	id, ok := baseIDs[base]
	if !ok {
		return nil, false
	}
	spec, err := quic.QUICID2Spec(id)
	if err != nil {
		return nil, false
	}
	if der == "-" || der == "" {
		return &spec, true
	}
	ips := &spec.InitialPacketSpec
	for _, tok := range strings.Split(der, ",") {
		k, v, _ := strings.Cut(tok, ":")
		n, _ := strconv.Atoi(v)
		switch k {
		case "scid":
			ips.SrcConnIDLength = n
		case "dcid":
			ips.DestConnIDLength = n
		case "tok":
			ips.ClientTokenLength = n
		case "tokp":
			ips.ClientTokenPrefix = make([]byte, n)
		case "pn":
			ips.InitPacketNumber = uint64(n)
		case "pnl":
			ips.InitPacketNumberLengths = nil
			ips.InitPacketNumberLength = quic.PacketNumberLen(n)
		case "pnls":
			ips.InitPacketNumberLengths = nil
			for _, x := range strings.Split(v, ".") {
				y, _ := strconv.Atoi(x)
				ips.InitPacketNumberLengths = append(ips.InitPacketNumberLengths, quic.PacketNumberLen(y))
			}
		case "min":
			spec.UDPDatagramMinSize = n
		case "shuf":
			spec.RandomizeTransportParameters = true
		case "supp":
			for _, x := range strings.Split(v, ".") {
				y, _ := strconv.ParseUint(x, 10, 64)
				spec.SuppressTransportParameters = append(spec.SuppressTransportParameters, y)
			}
		case "iscidx": // an explicit (wrong) initial_source_connection_id: the documented user override
			b, _ := hex.DecodeString(v)
			if q := qtpExt(&spec); q != nil {
				for i, p := range q.TransportParameters {
					if _, ok := p.(tls.InitialSourceConnectionID); ok {
						q.TransportParameters[i] = tls.InitialSourceConnectionID(b)
					}
				}
			}
		case "noqtp": // a ClientHelloSpec without the quic_transport_parameters extension (documented as invalid)
			var keep []tls.TLSExtension
			for _, e := range spec.ClientHelloSpec.Extensions {
				if _, ok := e.(*tls.QUICTransportParametersExtension); !ok {
					keep = append(keep, e)
				}
			}
			spec.ClientHelloSpec.Extensions = keep
		case "rot": // rotate the transport parameter list by n (a derived order)
			if q := qtpExt(&spec); q != nil && len(q.TransportParameters) > 0 {
				m := n % len(q.TransportParameters)
				q.TransportParameters = append(append(tls.TransportParameters(nil), q.TransportParameters[m:]...), q.TransportParameters[:m]...)
			}
		case "pad": // grow the ClientHello by an (ignored) extension of n bytes
			spec.ClientHelloSpec.Extensions = append(spec.ClientHelloSpec.Extensions, &tls.GenericExtension{Id: 0xff85, Data: make([]byte, n)})
		case "mlkem": // add a hybrid key share (1216 bytes) the way Chrome 146 carries one
			addMLKEM(spec.ClientHelloSpec)
		case "plan":
			ips.InitialPackets = nil
			for _, x := range strings.Split(v, "/") {
				a, b, _ := strings.Cut(x, "x")
				c, _ := strconv.Atoi(a)
				s, _ := strconv.Atoi(b)
				ips.InitialPackets = append(ips.InitialPackets, quic.InitialPacketPlan{CryptoLength: c, PacketSize: s})
			}
		case "fb":
			fb, ok := frameBuilder(v)
			if !ok {
				return nil, false
			}
			ips.FrameBuilder = fb
		default:
			return nil, false
		}
	}
	return &spec, true
}

func addMLKEM(chs *tls.ClientHelloSpec) {
	for _, e := range chs.Extensions {
		switch x := e.(type) {
		case *tls.SupportedCurvesExtension:
			has := false
			for _, c := range x.Curves {
				has = has || c == tls.X25519MLKEM768
			}
			if !has {
				x.Curves = append([]tls.CurveID{tls.X25519MLKEM768}, x.Curves...)
			}
		case *tls.KeyShareExtension:
			has := false
			for _, k := range x.KeyShares {
				has = has || k.Group == tls.X25519MLKEM768
			}
			if !has {
				x.KeyShares = append([]tls.KeyShare{{Group: tls.X25519MLKEM768}}, x.KeyShares...)
			}
		}
	}
}

// frameBuilder: a small family of builders derived from the documented types.
func frameBuilder(v string) (quic.QUICFrameBuilder, bool) {
	switch v {
	case "nil":
		return nil, true
	case "single":
		return quic.QUICFrames{}, true
	case "c2": // two CRYPTO frames with a PING between, padding at the end
		return quic.QUICFrames{quic.QUICFrameCrypto{Offset: 0, Length: 100}, quic.QUICFramePing{}, quic.QUICFrameCrypto{Offset: 100, Length: 0}, quic.QUICFramePadding{Length: 20}}, true
	case "c3r": // three CRYPTO frames out of order
		return quic.QUICFrames{quic.QUICFrameCrypto{Offset: 64, Length: 64}, quic.QUICFramePadding{Length: 3}, quic.QUICFrameCrypto{Offset: 0, Length: 64}, quic.QUICFramePing{}, quic.QUICFrameCrypto{Offset: 128, Length: 0}}, true
	case "rand":
		return &quic.QUICRandomFrames{MinPING: 0, MaxPING: 3, MinCRYPTO: 1, MaxCRYPTO: 5, MinPADDING: 1, MaxPADDING: 4, Length: 1200}, true
	case "randnp": // no PADDING target
		return &quic.QUICRandomFrames{MinPING: 1, MaxPING: 2, MinCRYPTO: 2, MaxCRYPTO: 9}, true
	case "multi":
		return &quic.QUICMultiDatagramFrames{PerDatagram: []quic.QUICRandomFrames{
			{MinPING: 1, MaxPING: 3, MinCRYPTO: 2, MaxCRYPTO: 6, MinPADDING: 1, MaxPADDING: 3, Length: 1190},
			{MinPING: 0, MaxPING: 2, MinCRYPTO: 1, MaxCRYPTO: 4, MinPADDING: 1, MaxPADDING: 2, Length: 1180},
		}}, true
	// Flight builders (QUICFlightFrameBuilder): the whole flight is planned at once; datagrams carry several CRYPTO
	// frames, out of stream order. Ranges are relative to both ends of the ClientHello, so they fit its length class:
	// flight1/flight2/rflight2 for ClientHellos of 150..1200 bytes, flight3/rflight3 for 1500..2200 bytes (Chrome 146).
	case "flight1": // one datagram, three CRYPTO frames out of order with a PING between
		return &quic.QUICFlightFrames{Datagrams: []quic.QUICFrames{
			{quic.QUICFrameCrypto{Offset: -60}, quic.QUICFramePing{}, quic.QUICFrameCrypto{Offset: 0, Length: 40}, quic.QUICFrameCrypto{Offset: 40, Length: -60}},
		}}, true
	case "flight2": // tail first, then the head (Chrome's scatter), two datagrams with two CRYPTO frames each
		return &quic.QUICFlightFrames{Datagrams: []quic.QUICFrames{
			{quic.QUICFrameCrypto{Offset: -100}, quic.QUICFrameCrypto{Offset: 0, Length: 40}},
			{quic.QUICFrameCrypto{Offset: 90, Length: -100}, quic.QUICFramePing{}, quic.QUICFrameCrypto{Offset: 40, Length: 50}},
		}}, true
	case "rflight2":
		return &quic.QUICRandomFlightFrames{PerDatagram: []quic.QUICRandomFlightDatagram{
			{CryptoRanges: []quic.QUICCryptoRange{{Offset: -100}, {Offset: 0, Length: 40}}, Frames: quic.QUICRandomFrames{MinPING: 1, MaxPING: 3, MinCRYPTO: 1, MaxCRYPTO: 4}},
			{CryptoRanges: []quic.QUICCryptoRange{{Offset: 40, Length: -100}}, Frames: quic.QUICRandomFrames{MinCRYPTO: 2, MaxCRYPTO: 5}},
		}}, true
	case "flight3": // three datagrams: tail + head, middle part 1 (two frames), middle part 2
		return &quic.QUICFlightFrames{Datagrams: []quic.QUICFrames{
			{quic.QUICFrameCrypto{Offset: -300}, quic.QUICFrameCrypto{Offset: 0, Length: 60}},
			{quic.QUICFrameCrypto{Offset: 400, Length: 360}, quic.QUICFrameCrypto{Offset: 60, Length: 340}},
			{quic.QUICFrameCrypto{Offset: 760, Length: -300}, quic.QUICFramePing{}},
		}}, true
	case "rflight3":
		return &quic.QUICRandomFlightFrames{PerDatagram: []quic.QUICRandomFlightDatagram{
			{CryptoRanges: []quic.QUICCryptoRange{{Offset: -300}, {Offset: 0, Length: 60}}, Frames: quic.QUICRandomFrames{MinPING: 0, MaxPING: 2, MinCRYPTO: 1, MaxCRYPTO: 3}},
			{CryptoRanges: []quic.QUICCryptoRange{{Offset: 60, Length: 700}}, Frames: quic.QUICRandomFrames{MinCRYPTO: 2, MaxCRYPTO: 4}},
			{CryptoRanges: []quic.QUICCryptoRange{{Offset: 760, Length: -300}}, Frames: quic.QUICRandomFrames{MinCRYPTO: 2, MaxCRYPTO: 4}},
		}}, true
	}
	return nil, false
}

// specFacts: what the model needs to know about a spec value (read before and after every dial).
func specFacts(spec *quic.QUICSpec) string {
	if spec == nil {
		mu, mb := streamLimits(nil)
		return fmt.Sprintf("S[ nil mu=%d mb=%d ]", mu, mb)
	}
	ips := spec.InitialPacketSpec
	qtp, isc, ks := 0, "N", 0
	if q := qtpExt(spec); q != nil {
		qtp = 1
		for _, p := range q.TransportParameters {
			if v, ok := p.(tls.InitialSourceConnectionID); ok {
				if len(v) == 0 {
					isc = "E"
				} else {
					isc = "X:" + hex.EncodeToString(v)
				}
				break
			}
		}
	}
	suppIscid := 0
	for _, id := range spec.SuppressTransportParameters {
		if id == idISCID {
			suppIscid = 1
		}
	}
	if spec.ClientHelloSpec != nil {
		for _, e := range spec.ClientHelloSpec.Extensions {
			if k, ok := e.(*tls.KeyShareExtension); ok {
				for _, s := range k.KeyShares {
					if uint16(s.Group)&0x0f0f != 0x0a0a && len(s.Data) > 1 {
						ks = 1
					}
				}
			}
		}
	}
	tokn := max(ips.ClientTokenLength, len(ips.ClientTokenPrefix))
	mu, mb := streamLimits(spec)
	return fmt.Sprintf("S[ scid=%d dcid=%d qtp=%d isc=%s supp15=%d ks=%d min=%d tok=%d mu=%d mb=%d ]", ips.SrcConnIDLength, ips.DestConnIDLength, qtp, isc, suppIscid, ks, spec.UDPDatagramMinSize, tokn, mu, mb)
}

// ---------------------------------------------------------------- server / client configs

type srvCfg struct {
	conf  *quic.Config
	retry bool
	stls  *tls.Config // nil: e2e.ServerTLSConfig()
}

func serverConfig(id string) (srvCfg, bool) {
	switch id {
	case "def":
		return srvCfg{}, true
	case "retry":
		return srvCfg{retry: true}, true
	case "smallwin":
		return srvCfg{conf: &quic.Config{InitialStreamReceiveWindow: 1024, MaxStreamReceiveWindow: 2048, InitialConnectionReceiveWindow: 1536, MaxConnectionReceiveWindow: 3072}}, true
	case "bigwin":
		return srvCfg{conf: &quic.Config{InitialStreamReceiveWindow: 4 << 20, InitialConnectionReceiveWindow: 8 << 20}}, true
	case "nopmtud":
		return srvCfg{conf: &quic.Config{DisablePathMTUDiscovery: true, InitialPacketSize: 1200}}, true
	case "strm1":
		return srvCfg{conf: &quic.Config{MaxIncomingStreams: 1, MaxIncomingUniStreams: -1, MaxIdleTimeout: 4 * time.Second}}, true
	case "dgram":
		return srvCfg{conf: &quic.Config{EnableDatagrams: true, KeepAlivePeriod: time.Second, Allow0RTT: true}}, true
	case "v1":
		return srvCfg{conf: &quic.Config{Versions: []quic.Version{quic.Version1}}}, true
	case "v2": // a conformant server that only speaks QUIC v2: the client has to follow a Version Negotiation
		return srvCfg{conf: &quic.Config{Versions: []quic.Version{quic.Version2}}}, true
	case "v2retry":
		return srvCfg{conf: &quic.Config{Versions: []quic.Version{quic.Version2}}, retry: true}, true
	}
	return srvCfg{}, false
}

// serverTLS: the server's TLS configuration. "hrr": only P-384 is acceptable — no built-in spec and no plain client
// sends a P-384 key share, all of them list the group, so every handshake goes through a HelloRetryRequest.
func serverTLS(id string) (*tls.Config, bool) {
	switch id {
	case "", "def":
		return e2e.ServerTLSConfig(), true
	case "hrr":
		c := e2e.ServerTLSConfig()
		c.CurvePreferences = []tls.CurveID{tls.CurveP384}
		return c, true
	}
	return nil, false
}

var srvNames = []string{"def", "retry", "smallwin", "bigwin", "nopmtud", "strm1", "dgram", "v1", "v2", "v2retry"}

func clientConfig(id string) (*quic.Config, bool) {
	switch id {
	case "nil":
		return nil, true
	case "def":
		return &quic.Config{}, true
	case "win":
		return &quic.Config{InitialStreamReceiveWindow: 3000, InitialConnectionReceiveWindow: 5000, MaxIncomingStreams: 7, MaxIncomingUniStreams: 3}, true
	case "idle":
		return &quic.Config{MaxIdleTimeout: 7 * time.Second, HandshakeIdleTimeout: 3 * time.Second, KeepAlivePeriod: time.Second}, true
	case "size":
		return &quic.Config{InitialPacketSize: 1240, DisablePathMTUDiscovery: true}, true
	case "nopmtud":
		return &quic.Config{DisablePathMTUDiscovery: true}, true
	case "dgram":
		return &quic.Config{EnableDatagrams: true, EnableStreamResetPartialDelivery: true}, true
	case "v2":
		return &quic.Config{Versions: []quic.Version{quic.Version2}}, true
	case "v21":
		return &quic.Config{Versions: []quic.Version{quic.Version2, quic.Version1}}, true
	}
	return nil, false
}

var cliNames = []string{"nil", "def", "win", "idle", "size", "dgram", "v2", "v21", "nopmtud"}

func parseFaults(s string) ([]e2e.Fault, bool) {
	if s == "-" || s == "" {
		return nil, true
	}
	var out []e2e.Fault
	for _, f := range strings.Split(s, ",") {
		a, kind, ok := strings.Cut(f, ":")
		if !ok || len(a) < 2 {
			return nil, false
		}
		idx, err := strconv.Atoi(a[1:])
		if err != nil {
			return nil, false
		}
		d := e2e.ToServer
		if a[0] == 's' {
			d = e2e.ToClient
		} else if a[0] != 'c' {
			return nil, false
		}
		ft := e2e.Fault{Dir: d, Index: idx}
		switch {
		case kind == "drop" || kind == "dup":
			ft.Kind = kind
		case strings.HasPrefix(kind, "delay"):
			ft.Kind = "delay"
			ft.Arg, _ = strconv.Atoi(kind[5:])
		default:
			return nil, false
		}
		out = append(out, ft)
	}
	return out, true
}

// ---------------------------------------------------------------- canonical outcomes

func canonErr(err error) string {
	var te *quic.TransportError
	var ae *quic.ApplicationError
	var hte *quic.HandshakeTimeoutError
	var ite *quic.IdleTimeoutError
	var vne *quic.VersionNegotiationError
	var sre *quic.StatelessResetError
	switch {
	case err == nil:
		return "ok"
	case errors.As(err, &te):
		side := "local"
		if te.Remote {
			side = "remote"
		}
		code := strings.ReplaceAll(te.ErrorCode.String(), " ", "_")
		cls := "other"
		msg := te.Error()
		switch {
		case strings.Contains(msg, "expected initial_source_connection_id"):
			cls = "iscid_mismatch"
		case strings.Contains(msg, "missing initial_source_connection_id"):
			cls = "iscid_missing"
		case strings.Contains(msg, "tls: internal error"):
			cls = "tls_internal"
		case strings.Contains(msg, "tls:"):
			cls = "tls"
		case te.ErrorMessage == "":
			cls = "none"
		}
		return "E:" + side + ":" + code + ":" + cls
	case errors.As(err, &ae):
		side := "local"
		if ae.Remote {
			side = "remote"
		}
		return fmt.Sprintf("E:%s:APP_%d", side, ae.ErrorCode)
	case errors.As(err, &hte):
		return "E:local:HANDSHAKE_TIMEOUT"
	case errors.As(err, &ite):
		return "E:local:IDLE_TIMEOUT"
	case errors.As(err, &vne):
		return "E:local:VERSION_NEGOTIATION"
	case errors.As(err, &sre):
		return "E:remote:STATELESS_RESET"
	case errors.Is(err, context.DeadlineExceeded):
		return "hang"
	}
	return "E:other:" + strings.ReplaceAll(fmt.Sprintf("%T", err), " ", "_")
}

func pattern(seed uint64, tag byte) []byte {
	r := vh.NewRand(seed*2654435761 + uint64(tag))
	return r.Bytes(dataLen)
}

// reply: what the server sends back for the bytes it read — as many bytes, every one changed
func reply(b []byte) []byte {
	out := make([]byte, len(b))
	for i, x := range b {
		out[i] = x ^ 0x5a
	}
	return out
}

func h8(b []byte) string {
	s := sha256.Sum256(b)
	return hex.EncodeToString(s[:4])
}

// ---------------------------------------------------------------- long-header parsing (RFC 8999/9000 §17.2)

type lhdr struct {
	ok      bool
	version uint32
	initial bool
	dcid    []byte
	scid    []byte
	toklen  int
}

func readVarint(b []byte) (uint64, int) {
	if len(b) == 0 {
		return 0, 0
	}
	l := 1 << (b[0] >> 6)
	if len(b) < l {
		return 0, 0
	}
	v := uint64(b[0] & 0x3f)
	for i := 1; i < l; i++ {
		v = v<<8 | uint64(b[i])
	}
	return v, l
}

func parseLong(b []byte) lhdr {
	var h lhdr
	if len(b) < 7 || b[0]&0x80 == 0 {
		return h
	}
	h.version = uint32(b[1])<<24 | uint32(b[2])<<16 | uint32(b[3])<<8 | uint32(b[4])
	dl := int(b[5])
	if len(b) < 7+dl {
		return h
	}
	h.dcid = b[6 : 6+dl]
	sl := int(b[6+dl])
	if len(b) < 7+dl+sl {
		return h
	}
	h.scid = b[7+dl : 7+dl+sl]
	typ := (b[0] & 0x30) >> 4
	h.initial = (h.version == 1 && typ == 0) || (h.version == 0x6b3343cf && typ == 1)
	if h.initial {
		v, n := readVarint(b[7+dl+sl:])
		if n == 0 {
			return h
		}
		h.toklen = int(v)
	}
	h.ok = true
	return h
}

// ---------------------------------------------------------------- one scenario

// rec collects the qlog events of one side (all connections of that side, in order).
type rec struct {
	mu    sync.Mutex
	evs   []taggedEvent
	conns []string // tracer invocations, in order: one per connection (attempt)
}

// taggedEvent: a qlog event and the connection it belongs to (the ID the Tracer callback was given: the client's
// first destination connection ID, on both sides).
type taggedEvent struct {
	conn string
	ev   qlogwriter.Event
}

type connRec struct {
	r    *rec
	conn string
}

func (c connRec) RecordEvent(ev qlogwriter.Event) {
	c.r.mu.Lock()
	c.r.evs = append(c.r.evs, taggedEvent{c.conn, ev})
	c.r.mu.Unlock()
}
func (c connRec) Close() error                     { return nil }
func (c connRec) AddProducer() qlogwriter.Recorder { return c }
func (c connRec) SupportsSchemas(string) bool      { return true }
func (r *rec) connsFrom(n int) []string {
	r.mu.Lock()
	defer r.mu.Unlock()
	return append([]string(nil), r.conns[min(n, len(r.conns)):]...)
}
func (r *rec) snapshot() []taggedEvent {
	r.mu.Lock()
	defer r.mu.Unlock()
	return append([]taggedEvent(nil), r.evs...)
}
func (r *rec) tracer() func(context.Context, bool, quic.ConnectionID) qlogwriter.Trace {
	return func(_ context.Context, _ bool, id quic.ConnectionID) qlogwriter.Trace {
		c := hex.EncodeToString(id.Bytes())
		r.mu.Lock()
		r.conns = append(r.conns, c)
		r.mu.Unlock()
		return connRec{r, c}
	}
}

type scen struct {
	fan     bool // after the echo, the server opens every stream the client's transport parameters allow
	env     *e2e.Env
	slog    *rec
	clog    *rec
	wg      sync.WaitGroup
	srvData chan string // per accepted connection: "<len>:<hash of what the server read>"
	seed    uint64
	baseTLS *tls.Config // the client's TLS config as e2e built it (server name "localhost")
	sni     []int       // per dial: length of the server name to ask for (0 / missing: "localhost")
	pause   time.Duration // after the echo: leave the connection unused for this long, then echo again
	sidle   time.Duration // the server's own Config.MaxIdleTimeout (populated)
}

// sniName: a syntactically valid host name of exactly n bytes (n >= 3), labels of at most 16 letters.
func sniName(n int) string {
	b := make([]byte, n)
	for i := range b {
		b[i] = byte('a' + i%23)
		if i%17 == 16 && i < n-2 {
			b[i] = '.'
		}
	}
	return string(b)
}

// tlsFor: the client's TLS config with another server name. The test certificate names "localhost" only, so the chain
// is verified here against that name (same roots, same clock) instead of by crypto/tls.
func tlsFor(base *tls.Config, name string) *tls.Config {
	c := base.Clone()
	c.ServerName = name
	c.InsecureSkipVerify = true
	roots, now := base.RootCAs, base.Time
	c.VerifyPeerCertificate = func(raw [][]byte, _ [][]*x509.Certificate) error {
		if len(raw) == 0 {
			return errors.New("no certificate")
		}
		inter := x509.NewCertPool()
		var leaf *x509.Certificate
		for i, r := range raw {
			crt, err := x509.ParseCertificate(r)
			if err != nil {
				return err
			}
			if i == 0 {
				leaf = crt
			} else {
				inter.AddCert(crt)
			}
		}
		opts := x509.VerifyOptions{Roots: roots, Intermediates: inter, DNSName: "localhost"}
		if now != nil {
			opts.CurrentTime = now()
		}
		_, err := leaf.Verify(opts)
		return err
	}
	return c
}

func startScen(spec *quic.QUICSpec, plain bool, ccfg *quic.Config, faults []e2e.Fault, sc srvCfg, seed uint64) (*scen, error) {
	slog, clog := &rec{}, &rec{}
	sconf := sc.conf
	if sconf == nil {
		sconf = &quic.Config{}
	}
	sconf = sconf.Clone()
	sconf.Tracer = slog.tracer()
	var cconf *quic.Config
	if ccfg != nil {
		cconf = ccfg.Clone()
		cconf.Tracer = clog.tracer()
	}
	env, err := e2e.Start(e2e.Setup{Spec: spec, Faults: faults, ServerConf: sconf, ClientConf: cconf, ServerTLS: sc.stls})
	if err != nil {
		return nil, err
	}
	if ccfg == nil {
		env.ClientCfg = nil // e2e substitutes an empty Config for nil; a nil *Config must reach dial as nil
		// (no tracer then: the client's own view of its parameters is not recorded)
	}
	if spec == nil && !plain {
		env.ClientUTr = &quic.UTransport{Transport: env.ClientTr, QUICSpec: nil}
	}
	if sc.retry {
		// Transport.VerifySourceAddress is read when the listener is created: re-listen with it set.
		env.Listener.Close()
		env.ServerTr.VerifySourceAddress = func(net.Addr) bool { return true }
		stls := sc.stls
		if stls == nil {
			stls = e2e.ServerTLSConfig()
		}
		ln, err := env.ServerTr.Listen(stls, sconf)
		if err != nil {
			env.Close()
			return nil, err
		}
		env.Listener = ln
	}
	s := &scen{env: env, slog: slog, clog: clog, srvData: make(chan string, 16), seed: seed, sidle: sconf.MaxIdleTimeout}
	if s.sidle == 0 {
		s.sidle = protocol.DefaultIdleTimeout
	}
	s.wg.Add(1)
	go func() {
		defer s.wg.Done()
		for {
			c, err := env.Listener.Accept(context.Background())
			if err != nil {
				return
			}
			s.wg.Add(1)
			go func() {
				defer s.wg.Done()
				// the first stream within 90 s; after it, every further stream the client opens on this connection is
				// echoed too (the connection may be left unused for a while in between), until the connection ends
				ctx, cancel := context.WithTimeout(context.Background(), 90*time.Second)
				defer cancel()
				for k := 0; ; k++ {
					actx := ctx
					if k > 0 {
						actx = c.Context()
					}
					st, err := c.AcceptStream(actx)
					if err != nil {
						break
					}
					st.SetDeadline(time.Now().Add(90 * time.Second))
					b, rerr := io.ReadAll(st)
					r := fmt.Sprintf("%d:%s", len(b), h8(b))
					if rerr != nil {
						r += ":" + canonErr(rerr)
					}
					select {
					case s.srvData <- r:
					default:
					}
					st.Write(reply(b))
					st.Close()
					if k == 0 && s.fan && rerr == nil {
						s.fanOut(c)
					}
				}
				// keep the connection until the client closes it (or the scenario ends)
				<-c.Context().Done()
			}()
		}
	}()
	return s, nil
}

func (s *scen) close() {
	s.env.Close()
	s.wg.Wait()
}

// firstFlightFacts: facts about the client's Initial datagrams of ONE dial. `attempts` are the first destination
// connection IDs of the dial's connection attempts (from the client's tracer; nil: unknown, take what is on the wire).
// Datagrams of other connections (a closed connection of an earlier dial answering a late packet) are not counted.
func firstFlightFacts(env *e2e.Env, c2sFrom, s2cFrom int, attempts []string) string {
	c2s := env.Net.Datagrams(e2e.ToServer)
	s2c := env.Net.Datagrams(e2e.ToClient)
	var firstReply time.Duration = -1
	if len(s2c) > s2cFrom {
		firstReply = s2c[s2cFrom].At
	}
	mine := c2s[min(c2sFrom, len(c2s)):]
	var hscids []string
	dcidlen, toklen := -1, -1
	if attempts != nil {
		for _, a := range attempts {
			for _, d := range mine {
				if h := parseLong(d.Data); h.ok && h.initial && hex.EncodeToString(h.dcid) == a {
					hscids = append(hscids, "x"+hex.EncodeToString(h.scid)) // one entry per attempt (zero-length IDs repeat)
					if dcidlen < 0 {
						dcidlen, toklen = len(h.dcid), h.toklen
					}
					break
				}
			}
		}
	}
	var ff []string
	minsz := -1
	ninit := 0
	for _, d := range mine {
		h := parseLong(d.Data)
		if !h.ok || !h.initial {
			continue
		}
		x := "x" + hex.EncodeToString(h.scid)
		if attempts == nil {
			if !slices.Contains(hscids, x) {
				hscids = append(hscids, x)
			}
			if dcidlen < 0 {
				dcidlen, toklen = len(h.dcid), h.toklen
			}
		} else if !slices.Contains(hscids, x) {
			continue // not a connection of this dial
		}
		ninit++
		if minsz < 0 || len(d.Data) < minsz {
			minsz = len(d.Data)
		}
		if firstReply < 0 || d.At < firstReply {
			ff = append(ff, strconv.Itoa(len(d.Data)))
		}
	}
	if len(ff) == 0 {
		ff = []string{"-"}
	}
	if len(hscids) == 0 {
		hscids = []string{"-"}
	}
	return fmt.Sprintf("hscids=%s dcidlen=%d toklen=%d ff=%s ninit=%d minsz=%d", strings.Join(hscids, ","), dcidlen, toklen, strings.Join(ff, ","), ninit, minsz)
}

// paramFacts: the initial_source_connection_id the server received (adv) and the one the client believes it sent
// (own). Only events of connections that belong to THIS dial count (a late datagram of an earlier dial can make the
// server set up a ghost connection meanwhile): those whose tracer ID is a destination connection ID of this dial.
func (s *scen) paramFacts(srvFrom, cliFrom int, dcids map[string]bool) string {
	pick := func(r *rec, from int, initiator qlog.Initiator) string {
		evs := r.snapshot()
		out := "-" // the last one: a dial that follows a Version Negotiation sets its parameters twice
		for _, te := range evs[min(from, len(evs)):] {
			if !dcids[te.conn] {
				continue
			}
			switch p := te.ev.(type) {
			case qlog.ParametersSet:
				if p.Initiator == initiator && !p.Restore {
					out = "x" + hex.EncodeToString(p.InitialSourceConnectionID.Bytes())
				}
			case *qlog.ParametersSet:
				if p.Initiator == initiator && !p.Restore {
					out = "x" + hex.EncodeToString(p.InitialSourceConnectionID.Bytes())
				}
			}
		}
		return out
	}
	return fmt.Sprintf("adv=%s own=%s", pick(s.slog, srvFrom, qlog.InitiatorRemote), pick(s.clog, cliFrom, qlog.InitiatorLocal))
}

// dialDCIDs: every destination connection ID the client's Initial packets of this dial carried.
func dialDCIDs(env *e2e.Env, c2sFrom int) map[string]bool {
	out := map[string]bool{}
	c2s := env.Net.Datagrams(e2e.ToServer)
	for _, d := range c2s[min(c2sFrom, len(c2s)):] {
		if h := parseLong(d.Data); h.ok && h.initial {
			out[hex.EncodeToString(h.dcid)] = true
		}
	}
	return out
}

const fanMsgLen = 48

// fanOut: the server uses the stream counts the client ADVERTISED: it opens unidirectional and bidirectional streams
// until its (peer-given) limit is reached, all concurrently open, sends on each, then finishes them.
func (s *scen) fanOut(c *quic.Conn) {
	var us []*quic.SendStream
	for len(us) < 2000 {
		u, err := c.OpenUniStream()
		if err != nil {
			break
		}
		us = append(us, u)
	}
	var bs []*quic.Stream
	for len(bs) < 2000 {
		b, err := c.OpenStream()
		if err != nil {
			break
		}
		bs = append(bs, b)
	}
	msg := func(k int) []byte { return []byte(fmt.Sprintf("%-*d", fanMsgLen, k)) }
	for k, u := range us {
		u.Write(msg(k))
	}
	for k, b := range bs {
		b.Write(msg(k))
	}
	for _, u := range us {
		u.Close()
	}
	for _, b := range bs {
		b.Close()
	}
}

// fanIn: the client accepts the streams it advertised room for and reads each to its end.
func (s *scen) fanIn(conn *quic.Conn, wantU, wantB int) string {
	ctx, cancel := context.WithTimeout(context.Background(), 30*time.Second)
	defer cancel()
	gotU, gotB := 0, 0
	var errU, errB error
	var wg sync.WaitGroup
	wg.Add(2)
	go func() {
		defer wg.Done()
		for gotU < wantU {
			st, err := conn.AcceptUniStream(ctx)
			if err != nil {
				errU = err
				return
			}
			st.SetReadDeadline(time.Now().Add(30 * time.Second))
			if b, err := io.ReadAll(st); err != nil || len(b) != fanMsgLen {
				errU = err
				return
			}
			gotU++
		}
	}()
	go func() {
		defer wg.Done()
		for gotB < wantB {
			st, err := conn.AcceptStream(ctx)
			if err != nil {
				errB = err
				return
			}
			st.SetReadDeadline(time.Now().Add(30 * time.Second))
			if b, err := io.ReadAll(st); err != nil || len(b) != fanMsgLen {
				errB = err
				return
			}
			st.Close()
			gotB++
		}
	}()
	wg.Wait()
	r := fmt.Sprintf("u%d/%d,b%d/%d", gotU, wantU, gotB, wantB)
	if errU != nil {
		r += ":" + canonErr(errU)
	} else if errB != nil {
		r += ":" + canonErr(errB)
	}
	return r
}

// streamLimits: initial_max_streams_uni / _bidi the client puts on the wire (no spec: the Config defaults).
func streamLimits(spec *quic.QUICSpec) (mu, mb int) {
	if spec == nil {
		return protocol.DefaultMaxIncomingUniStreams, protocol.DefaultMaxIncomingStreams
	}
	if q := qtpExt(spec); q != nil {
		for _, p := range q.TransportParameters {
			switch v := p.(type) {
			case tls.InitialMaxStreamsUni:
				mu = int(v)
			case tls.InitialMaxStreamsBidi:
				mb = int(v)
			}
		}
	}
	return
}

// oneDial dials once and, on success, moves 10 KiB each way on one bidirectional stream.
func (s *scen) oneDial(i int) string {
	env := s.env
	c2sFrom, s2cFrom := len(env.Net.Datagrams(e2e.ToServer)), len(env.Net.Datagrams(e2e.ToClient))
	srvFrom, cliFrom := len(s.slog.snapshot()), len(s.clog.snapshot())
	cliConns := len(s.clog.connsFrom(0))
	ctx, cancel := context.WithTimeout(context.Background(), 60*time.Second)
	defer cancel()
	if s.baseTLS == nil {
		s.baseTLS = env.ClientTLS
	}
	if i-1 < len(s.sni) && s.sni[i-1] >= 3 {
		env.ClientTLS = tlsFor(s.baseTLS, sniName(s.sni[i-1]))
	} else {
		env.ClientTLS = s.baseTLS
	}
	conn, err := env.Dial(ctx)
	out := canonErr(err)
	if err != nil && os.Getenv("DIAL_DEBUG_ERR") != "" {
		fmt.Fprintf(os.Stderr, "dial %d error: %v\n", i, err)
	}
	extra := ""
	if err == nil {
		cs := conn.ConnectionState()
		extra = fmt.Sprintf(" v=%d alpn=%s", versionNo(cs.Version), cs.TLS.NegotiatedProtocol)
		up, down := s.moveData(conn, i, 'c')
		extra += " up=" + up + " down=" + down
		if s.fan && strings.HasPrefix(up, "10240:") && strings.HasPrefix(down, "10240:") {
			mu, mb := streamLimits(env.ClientUTr.QUICSpec)
			extra += " fan=" + s.fanIn(conn, mu, mb)
		}
		if s.pause > 0 {
			// the connection is left unused (nothing to send on either side), then used again
			time.Sleep(s.pause)
			up2, down2 := s.moveData(conn, i, 'd')
			e2 := "dead"
			if echoOK(up2) && echoOK(down2) {
				e2 = "ok"
			}
			extra += fmt.Sprintf(" cidle=%d sidle=%d e2=%s e2d=%s/%s", clientIdleAdv(env), s.sidle.Milliseconds(), e2, up2, down2)
		}
		conn.CloseWithError(0, "")
		time.Sleep(300 * time.Millisecond) // let the close reach the server before the next dial
	}
	var attempts []string
	dcids := dialDCIDs(env, c2sFrom)
	if env.ClientCfg != nil { // the client has a tracer: it names the connection attempts of this dial exactly
		attempts = s.clog.connsFrom(cliConns)
		dcids = map[string]bool{}
		for _, a := range attempts {
			dcids[a] = true
		}
		if attempts == nil {
			attempts = []string{}
		}
	}
	return fmt.Sprintf("D[ i=%d %s %s %s out=%s%s ]", i, firstFlightFacts(env, c2sFrom, s2cFrom, attempts), s.paramFacts(srvFrom, cliFrom, dcids), cryptoFacts(env, c2sFrom), out, extra)
}

// echoOK: "<10240>:<hash expected>:<the same hash>"
func echoOK(x string) bool {
	f := strings.Split(x, ":")
	return len(f) == 3 && f[0] == strconv.Itoa(dataLen) && f[1] == f[2]
}

// clientIdleAdv: the max_idle_timeout (ms) the client puts on the wire: the spec's entry unless suppressed (-1: not
// advertised), without a spec the populated Config's value.
func clientIdleAdv(env *e2e.Env) int64 {
	if env.ClientUTr == nil || env.ClientUTr.QUICSpec == nil {
		if env.ClientCfg != nil && env.ClientCfg.MaxIdleTimeout != 0 {
			return env.ClientCfg.MaxIdleTimeout.Milliseconds()
		}
		return protocol.DefaultIdleTimeout.Milliseconds()
	}
	spec := env.ClientUTr.QUICSpec
	for _, id := range spec.SuppressTransportParameters {
		if id == 0x01 {
			return -1
		}
	}
	if q := qtpExt(spec); q != nil {
		for _, p := range q.TransportParameters {
			if v, ok := p.(tls.MaxIdleTimeout); ok {
				return int64(v)
			}
		}
	}
	return -1
}

func versionNo(v quic.Version) int {
	switch v {
	case quic.Version1:
		return 1
	case quic.Version2:
		return 2
	}
	return 0
}

func (s *scen) moveData(conn *quic.Conn, i int, tag byte) (up, down string) {
	ctx, cancel := context.WithTimeout(context.Background(), 60*time.Second)
	defer cancel()
	sent := pattern(s.seed+uint64(i)*7919, tag) // different bytes for every dial (and every echo) of the scenario
	want := reply(sent)
	up, down = fmt.Sprintf("0:%s:-", h8(sent)), fmt.Sprintf("0:%s:-", h8(want))
	st, err := conn.OpenStreamSync(ctx)
	if err != nil {
		return "E:open", down
	}
	st.SetDeadline(time.Now().Add(60 * time.Second))
	if _, err := st.Write(sent); err != nil {
		return "E:write", down
	}
	st.Close()
	b, rerr := io.ReadAll(st)
	down = fmt.Sprintf("%d:%s:%s", len(b), h8(want), h8(b))
	if rerr != nil {
		down += ":" + canonErr(rerr)
	}
	for {
		select {
		case got := <-s.srvData:
			l, hh, _ := strings.Cut(got, ":")
			if !strings.HasPrefix(hh, h8(sent)) && len(s.srvData) > 0 {
				continue // the report of an earlier, failed dial of this scenario
			}
			up = fmt.Sprintf("%s:%s:%s", l, h8(sent), hh) // hh may carry ":<error the server's read ended with>"
		case <-ctx.Done():
		}
		return up, down
	}
}

// ---------------------------------------------------------------- ops

type runner struct{ rep int }

func kv(op string) map[string]string {
	m := map[string]string{}
	for _, w := range strings.Fields(op)[1:] {
		k, v, _ := strings.Cut(w, "=")
		m[k] = v
	}
	return m
}

func bubble(f func()) {
	synctest.Test(theT, func(t *testing.T) { f() })
}

func seedAll(seed uint64) {
	cryptotest.SetGlobalRandom(theT, seed)
	mrand.Seed(int64(seed))
}

func execOp(op string) string {
	f := strings.Fields(op)
	if len(f) == 0 {
		return "skip"
	}
	a := kv(op)
	seed, _ := strconv.ParseUint(a["seed"], 10, 64)
	faults, okf := parseFaults(a["faults"])
	sc, oks := serverConfig(a["srv"])
	stls, okt := serverTLS(a["stls"])
	if !okf || !oks || !okt {
		return "skip"
	}
	if a["stls"] != "" && a["stls"] != "def" {
		sc.stls = stls
	}
	pause := 0
	if v := a["pause"]; v != "" {
		var err error
		if pause, err = strconv.Atoi(v); err != nil || pause < 0 || pause > 60000 {
			return "skip"
		}
	}
	switch f[0] {
	case "dial":
		n, _ := strconv.Atoi(a["n"])
		if n < 1 || n > 6 {
			return "skip"
		}
		var spec *quic.QUICSpec
		if a["base"] != "none" {
			var ok bool
			if spec, ok = deriveSpec(a["base"], a["der"]); !ok {
				return "skip"
			}
		}
		var sni []int
		if v := a["sni"]; v != "" {
			for _, x := range strings.Split(v, ".") {
				l, err := strconv.Atoi(x)
				if err != nil || l < 0 || l > 200 {
					return "skip"
				}
				sni = append(sni, l)
			}
		}
		var res []string
		run := func() {
			seedAll(seed)
			var s *scen
			defer func() {
				if s != nil {
					s.close()
				}
			}()
			for i := 1; i <= n; i++ {
				if a["fresh"] == "1" && i > 1 {
					spec, _ = deriveSpec(a["base"], a["der"])
					if s != nil {
						s.env.ClientUTr.QUICSpec = spec
					}
				}
				if s == nil || a["tr"] == "new" {
					if s != nil {
						s.close()
					}
					var err error
					s, err = startScen(spec, false, &quic.Config{}, faults, sc, seed)
					if s != nil {
						s.fan = true
						s.sni = sni
						s.pause = time.Duration(pause) * time.Millisecond
					}
					if err != nil {
						res = append(res, "E:setup")
						s = nil
						return
					}
				}
				res = append(res, specFacts(spec))
				res = append(res, s.oneDial(i))
			}
			res = append(res, specFacts(spec))
		}
		bubble(run)
		return strings.Join(res, " ")
	case "cmp":
		ccfg, okc := clientConfig(a["ccfg"])
		if !okc {
			return "skip"
		}
		var outs [2]string
		var flights [2]string
		for k := 0; k < 2; k++ {
			bubble(func() {
				seedAll(seed)
				s, err := startScen(nil, k == 0, ccfg, faults, sc, seed)
				if err != nil {
					outs[k] = "E:setup"
					return
				}
				defer s.close()
				outs[k] = s.oneDial(1)
				flights[k] = flightDigest(s.env)
			})
		}
		same := 0
		if flights[0] == flights[1] && flights[0] != "" {
			same = 1
		}
		return fmt.Sprintf("A%s ffd=%s B%s ffd=%s same=%d", outs[0][1:], flights[0], outs[1][1:], flights[1], same)
	}
	return "skip"
}

// openInitial removes header and packet protection of the first QUIC packet in a client datagram (RFC 9001 §5:
// Initial keys derive from the client's first destination connection ID) and returns its frames payload.
func openInitial(datagram []byte, origDCID []byte) (payload []byte, pn int64, ok bool) {
	hdr, data, _, err := wire.ParsePacket(datagram)
	if err != nil || hdr.Type != protocol.PacketTypeInitial {
		return nil, 0, false
	}
	data = append([]byte(nil), data...)
	_, opener := handshake.NewInitialAEAD(protocol.ParseConnectionID(origDCID), protocol.PerspectiveServer, hdr.Version)
	hdrLen := int(hdr.ParsedLen())
	if len(data) < hdrLen+4+16 {
		return nil, 0, false
	}
	orig := append([]byte(nil), data[hdrLen:hdrLen+4]...)
	opener.DecryptHeader(data[hdrLen+4:hdrLen+4+16], &data[0], data[hdrLen:hdrLen+4])
	ext, err := hdr.ParseExtended(data)
	if err != nil && err != wire.ErrInvalidReservedBits {
		return nil, 0, false
	}
	el := int(ext.ParsedLen())
	if ext.PacketNumberLen != protocol.PacketNumberLen4 {
		copy(data[el:hdrLen+4], orig[int(ext.PacketNumberLen):])
	}
	full := opener.DecodePacketNumber(ext.PacketNumber, ext.PacketNumberLen)
	dec, err := opener.Open(nil, data[el:], full, data[:el])
	if err != nil {
		return nil, 0, false
	}
	return dec, int64(full), true
}

// cryptoOf walks an Initial payload (PADDING, PING, ACK, CRYPTO, CONNECTION_CLOSE) and copies CRYPTO data into buf.
func cryptoOf(payload []byte, buf map[int]byte) (nframes int, ok bool) {
	b := payload
	vi := func() (uint64, bool) {
		v, n := readVarint(b)
		if n == 0 {
			return 0, false
		}
		b = b[n:]
		return v, true
	}
	for len(b) > 0 {
		t := b[0]
		b = b[1:]
		switch t {
		case 0x00:
		case 0x01:
			nframes++
		case 0x02, 0x03:
			nframes++
			var rc uint64
			for k := 0; k < 4; k++ {
				v, ok := vi()
				if !ok {
					return nframes, false
				}
				if k == 2 {
					rc = v
				}
			}
			for k := uint64(0); k < 2*rc; k++ {
				if _, ok := vi(); !ok {
					return nframes, false
				}
			}
			if t == 0x03 {
				for k := 0; k < 3; k++ {
					if _, ok := vi(); !ok {
						return nframes, false
					}
				}
			}
		case 0x06:
			nframes++
			off, ok1 := vi()
			l, ok2 := vi()
			if !ok1 || !ok2 || uint64(len(b)) < l {
				return nframes, false
			}
			for k := uint64(0); k < l; k++ {
				buf[int(off+k)] = b[k]
			}
			b = b[l:]
		default:
			return nframes, t == 0x1c
		}
	}
	return nframes, true
}

// cryptoFacts: the client's Initial CRYPTO stream(s) of one dial as they went onto the wire (every datagram the client
// handed to the network, lost or not). Initial packets are grouped by the connection ID their keys derive from (one
// group per connection attempt; a Retry starts a new group); within a group the CRYPTO frames must describe ONE byte
// stream: a stream offset never carries two different bytes ("conflict"), and the stream of the last group has no hole
// ("gap": judged only when the dial succeeded; the last group = the last one that carries CRYPTO data). nch: TLS handshake messages of type ClientHello in the last group's
// stream (2 after a HelloRetryRequest), clen: its length.
func cryptoFacts(env *e2e.Env, c2sFrom int) string {
	c2s := env.Net.Datagrams(e2e.ToServer)
	type group struct {
		key string
		buf map[int]byte
	}
	var groups []*group
	var keys [][]byte // candidate key connection IDs, in order of appearance
	state, undec := "ok", 0
	for _, d := range c2s[min(c2sFrom, len(c2s)):] {
		lh := parseLong(d.Data)
		if !lh.ok || !lh.initial {
			continue
		}
		known := false
		for _, k := range keys {
			known = known || string(k) == string(lh.dcid)
		}
		if !known {
			keys = append(keys, append([]byte(nil), lh.dcid...))
		}
		var pl []byte
		var g *group
		// the newest key first: an attempt's later packets carry the server's connection ID, its keys stay
		for j := len(keys) - 1; j >= 0 && pl == nil; j-- {
			if p, _, ok := openInitial(d.Data, keys[j]); ok {
				pl = p
				for _, x := range groups {
					if x.key == string(keys[j]) {
						g = x
					}
				}
				if g == nil {
					g = &group{key: string(keys[j]), buf: map[int]byte{}}
					groups = append(groups, g)
				}
			}
		}
		if pl == nil {
			undec++
			continue
		}
		one := map[int]byte{}
		if _, ok := cryptoOf(pl, one); !ok {
			undec++
			continue
		}
		if os.Getenv("DIAL_DEBUG_CRY") != "" {
			fmt.Fprintf(os.Stderr, "cry: at=%v len=%d v=%x dcid=%x scid=%x key=%x crypto=%d\n", d.At, len(d.Data), lh.version, lh.dcid, lh.scid, g.key, len(one))
		}
		for off, b := range one {
			if old, had := g.buf[off]; had && old != b && state == "ok" {
				state = fmt.Sprintf("conflict@%d", off)
			}
			g.buf[off] = b
		}
	}
	nch, clen := 0, 0
	// the last group that carries CRYPTO data at all: a closed connection of an earlier attempt (or dial) may still
	// answer a late datagram with a CONNECTION_CLOSE in an Initial packet of its own
	for len(groups) > 0 && len(groups[len(groups)-1].buf) == 0 {
		groups = groups[:len(groups)-1]
	}
	if len(groups) > 0 {
		buf := groups[len(groups)-1].buf
		var stream []byte
		for {
			b, ok := buf[len(stream)]
			if !ok {
				break
			}
			stream = append(stream, b)
		}
		clen = len(stream)
		if len(buf) != len(stream) && state == "ok" {
			state = fmt.Sprintf("gap@%d", len(stream))
		}
		for p := 0; p+4 <= len(stream); {
			if stream[p] == 1 {
				nch++
			}
			p += 4 + (int(stream[p+1])<<16 | int(stream[p+2])<<8 | int(stream[p+3]))
		}
	}
	return fmt.Sprintf("cry=%s nch=%d clen=%d undec=%d", state, nch, clen, undec)
}

// maskClientHello zeroes the fields of a TLS 1.3 ClientHello that are fresh secrets of every connection by design
// (random, legacy_session_id, key_share key_exchange values; Go's key generation deliberately consumes a
// non-deterministic amount of its random stream). Everything else — cipher suites, extension order, ALPN, SNI,
// quic_transport_parameters — stays. false: not a well-formed ClientHello.
func maskClientHello(ch []byte) bool {
	if len(ch) < 4+2+32+1 || ch[0] != 1 {
		return false
	}
	for i := 6; i < 38; i++ {
		ch[i] = 0
	}
	p := 38
	n := int(ch[p])
	if len(ch) < p+1+n+2 {
		return false
	}
	for i := p + 1; i < p+1+n; i++ {
		ch[i] = 0
	}
	p += 1 + n
	n = int(ch[p])<<8 | int(ch[p+1])
	p += 2 + n
	if len(ch) < p+1 {
		return false
	}
	p += 1 + int(ch[p])
	if len(ch) < p+2 {
		return false
	}
	end := p + 2 + (int(ch[p])<<8 | int(ch[p+1]))
	p += 2
	if end != len(ch) {
		return false
	}
	for p+4 <= end {
		t := int(ch[p])<<8 | int(ch[p+1])
		l := int(ch[p+2])<<8 | int(ch[p+3])
		if p+4+l > end {
			return false
		}
		if t == 51 && l >= 2 { // key_share: client_shares<0..2^16-1> of {group(2) key_exchange<1..2^16-1>}
			q, qe := p+6, p+4+l
			for q+4 <= qe {
				kl := int(ch[q+2])<<8 | int(ch[q+3])
				if q+4+kl > qe {
					return false
				}
				for i := q + 4; i < q+4+kl; i++ {
					ch[i] = 0
				}
				q += 4 + kl
			}
		}
		p += 4 + l
	}
	return p == end
}

// flightDigest: canonical digest of the first flight (the client's datagrams sent before the first server datagram):
// per datagram its size and cleartext header fields, plus the CRYPTO stream they carry reassembled (the ClientHello
// with the transport parameters). Frame order and the cut of the stream into packets depend on goroutine scheduling
// in the real client and are therefore not part of the digest.
func flightDigest(env *e2e.Env) string {
	c2s := env.Net.Datagrams(e2e.ToServer)
	s2c := env.Net.Datagrams(e2e.ToClient)
	h := sha256.New()
	n := 0
	var odcid []byte
	buf := map[int]byte{}
	for _, d := range c2s {
		if len(s2c) > 0 && d.At >= s2c[0].At {
			break
		}
		lh := parseLong(d.Data)
		if !lh.ok || !lh.initial {
			continue
		}
		if odcid == nil {
			odcid = lh.dcid
		}
		fmt.Fprintf(h, "%d:%d:%x:%x:%d;", len(d.Data), lh.version, lh.dcid, lh.scid, lh.toklen)
		pl, _, ok := openInitial(d.Data, odcid)
		if !ok {
			fmt.Fprintf(h, "undecryptable;")
		} else if _, ok := cryptoOf(pl, buf); !ok {
			fmt.Fprintf(h, "badframes;")
		}
		n++
	}
	if n == 0 {
		return ""
	}
	ks := make([]int, 0, len(buf))
	for k := range buf {
		ks = append(ks, k)
	}
	sort.Ints(ks)
	contiguous := 1
	var ch []byte
	for i, k := range ks {
		if i != k {
			contiguous = 0
		}
		ch = append(ch, buf[k])
	}
	masked := 0
	if contiguous == 1 && maskClientHello(ch) {
		masked = 1
	}
	h.Write(ch)
	if f := os.Getenv("DIAL_DEBUG_CH"); f != "" {
		fh, _ := os.OpenFile(f, os.O_APPEND|os.O_CREATE|os.O_WRONLY, 0o644)
		fmt.Fprintf(fh, "%x\n", ch)
		fh.Close()
	}
	contiguous += masked // 2: complete ClientHello, per-connection secrets masked
	return fmt.Sprintf("%d:%d:%d:%s", n, len(ks), contiguous, hex.EncodeToString(h.Sum(nil)[:6]))
}

// ---------------------------------------------------------------- generators

func genFaults(r *vh.Rand) string {
	k := r.Pick(35, 35, 30) // none / single / double
	if k == 0 {
		return "-"
	}
	seen := map[string]bool{}
	var out []string
	for len(out) < k {
		pos := fmt.Sprintf("%c%d", "cs"[r.Intn(2)], r.Intn(6))
		if seen[pos] {
			continue
		}
		seen[pos] = true
		kind := []string{"drop", "dup", "delay30", "delay120", "delay700"}[r.Pick(40, 20, 15, 15, 10)]
		out = append(out, pos+":"+kind)
	}
	sort.Strings(out)
	return strings.Join(out, ",")
}

func genDer(r *vh.Rand, base string) string {
	if r.Chance(35) {
		return "-"
	}
	var toks []string
	add := func(s string) { toks = append(toks, s) }
	if r.Chance(8) { // outside the property's family: the model has to predict the rejection
		return []string{"supp:15", "supp:1.15", "iscidx:aabbcc", "iscidx:00", "dcid:5", "dcid:7", "dcid:5,tok:16", "min:1100", "dcid:1,scid:0"}[r.Intn(9)]
	}
	n := 1 + r.Intn(3)
	used := map[int]bool{}
	for len(toks) < n {
		k := r.Intn(12)
		if used[k] {
			continue
		}
		used[k] = true
		switch k {
		case 0:
			add(fmt.Sprintf("scid:%d", []int{0, 3, 4, 8, 11, 20}[r.Intn(6)])) // not 1 or 2: connection IDs of successive dials on one transport would collide
		case 1:
			add(fmt.Sprintf("dcid:%d", []int{0, 8, 9, 12, 16, 20}[r.Intn(6)]))
		case 2:
			add(fmt.Sprintf("tok:%d", []int{1, 16, 32, 70}[r.Intn(4)]))
		case 3:
			add(fmt.Sprintf("pn:%d", []int{0, 1, 2, 7, 200}[r.Intn(5)]))
		case 4:
			add(fmt.Sprintf("pnl:%d", 1+r.Intn(4)))
		case 5:
			add("shuf")
		case 6:
			add("supp:" + []string{"1", "27", "32", "12583", "27.1", "14", "3", "11", "1.3.11"}[r.Intn(9)])
		case 7:
			add(fmt.Sprintf("rot:%d", 1+r.Intn(9)))
		case 8:
			add(fmt.Sprintf("pad:%d", []int{10, 300, 900, 1300, 2200, 3300}[r.Intn(6)]))
		case 9:
			add("fb:" + []string{"nil", "single", "c2", "c3r", "rand", "randnp", "multi"}[r.Intn(7)])
		case 10:
			add(fmt.Sprintf("min:%d", []int{1200, 1250, 1357, 1400}[r.Intn(4)]))
		case 11:
			add("pnls:" + []string{"1.2", "2.1", "4", "1.1.3"}[r.Intn(4)])
		}
	}
	return strings.Join(toks, ",")
}

// genSNI: server names of different lengths for the n dials of one op (" sni=…"), or "" (every dial asks for "localhost")
func genSNI(r *vh.Rand, n int, pct int) string {
	if !r.Chance(pct) {
		return ""
	}
	ls := []int{0, 4, 25, 40, 71, 120}
	for i := len(ls) - 1; i > 0; i-- {
		j := r.Intn(i + 1)
		ls[i], ls[j] = ls[j], ls[i]
	}
	var out []string
	for i := 0; i < n; i++ {
		out = append(out, strconv.Itoa(ls[i%len(ls)]))
	}
	return " sni=" + strings.Join(out, ".")
}

// genReset: scenarios in which state has to survive a restart inside one connection or a quiet period after it:
// " stls=hrr" (the server answers the first ClientHello with a HelloRetryRequest: a second ClientHello follows on the
// same Initial CRYPTO stream — on top of Retry / Version Negotiation / loss when the op has them) and " pause=<ms>"
// (the connection is left unused, then used again; `der` gets max_idle_timeout suppressed in half of these).
func genReset(r *vh.Rand, der *string, hrrPct, pausePct int) string {
	out := ""
	if r.Chance(hrrPct) {
		out += " stls=hrr"
	}
	if r.Chance(pausePct) {
		out += fmt.Sprintf(" pause=%d", []int{400, 1500, 2500, 12000, 26000}[r.Pick(30, 15, 15, 15, 25)])
		if der != nil && r.Chance(50) && !strings.Contains(*der, "supp:") && !strings.Contains(*der, "iscidx") {
			if *der == "-" {
				*der = "supp:1"
			} else {
				*der += ",supp:1"
			}
		}
	}
	return out
}

func (rn *runner) GenOp(r *vh.Rand, i int) string {
	seed := r.U64() >> 16
	srv := srvNames[r.Pick(36, 10, 7, 5, 7, 5, 6, 6, 12, 6)]
	if r.Chance(12) {
		ccfg := cliNames[r.Intn(len(cliNames))]
		if ccfg == "v2" && srv == "v1" {
			srv = "def" // no common version: not a scenario of this property
		}
		return fmt.Sprintf("cmp ccfg=%s faults=%s srv=%s seed=%d%s", ccfg, genFaults(r), srv, seed, genReset(r, nil, 20, 0))
	}
	base := baseNames[r.Pick(12, 10, 10, 12, 10, 12, 10, 3, 3, 3)]
	if r.Chance(14) {
		// planned flights (QUICFlightFrameBuilder): datagrams with several CRYPTO frames x loss of the first, the second,
		// both (or the third) Initial datagram, so that every planned datagram has to be retransmitted completely
		fb := []string{"flight1", "flight2", "rflight2"}[r.Intn(3)]
		losses := []string{"c0:drop", "c1:drop", "c0:drop,c1:drop", "c0:drop,s0:drop", "c0:dup,c1:drop", "c0:delay700", "-"}
		if strings.HasPrefix(base, "C146") {
			fb = []string{"flight3", "rflight3"}[r.Intn(2)]
			losses = append(losses, "c2:drop", "c1:drop,c2:drop", "c0:drop,c2:drop")
		}
		der := "fb:" + fb
		if r.Chance(40) {
			der += "," + []string{"tok:16", "pn:7", "shuf", "scid:8", "dcid:12", "pnl:2", "rot:3"}[r.Intn(7)]
		}
		fsrv := []string{"def", "retry", "v2", "nopmtud", "smallwin"}[r.Pick(50, 20, 10, 10, 10)]
		// one plan value for 1..3 dials; mostly to hosts whose names differ in length, so that the flight has to be laid
		// out anew for a ClientHello of another length
		fn := 1 + r.Pick(30, 40, 30)
		tail := genSNI(r, fn, 75) + genReset(r, nil, 35, 10)
		return fmt.Sprintf("dial base=%s der=%s n=%d tr=%s fresh=0 faults=%s srv=%s seed=%d%s", base, der, fn, []string{"same", "new"}[r.Intn(2)], losses[r.Intn(len(losses))], fsrv, seed, tail)
	}
	n := 1 + r.Pick(40, 35, 25)
	tr := []string{"same", "new"}[r.Pick(60, 40)]
	fresh := r.Pick(70, 30)
	if r.Chance(4) {
		return fmt.Sprintf("dial base=none der=- n=%d tr=%s fresh=0 faults=%s srv=%s seed=%d%s", n, tr, genFaults(r), srv, seed, genReset(r, nil, 20, 20))
	}
	der := genDer(r, base)
	flt := genFaults(r)
	tail := genSNI(r, n, 30)
	tail += genReset(r, &der, 18, 22)
	return fmt.Sprintf("dial base=%s der=%s n=%d tr=%s fresh=%d faults=%s srv=%s seed=%d%s", base, der, n, tr, fresh, flt, srv, seed, tail)
}
