//go:build verif

// Driver "keyphase": two real updatableAEADs (endpoints 0 and 1) with mirrored deterministic traffic
// secrets; histories of seal / reordered, duplicated, tampered deliveries / ACKs / time / local and
// remote key updates / forged packets of arbitrary key generations.
// Round 5: op `pack` sends through the REAL packer instead (every method of the packer interface that can emit
// a 1-RTT packet, on a packetPacker and on a uPacketPacker, the endpoint's updatableAEAD as the 1-RTT sealer,
// real header protection), and `open` of such a packet goes through the real packetUnpacker of the peer.
package keyphase

import (
	"bytes"
	"errors"
	"fmt"
	"io"
	"strings"
	"testing"
	"time"

	quic "github.com/refraction-networking/uquic"
	"github.com/refraction-networking/uquic/internal/handshake"
	"github.com/refraction-networking/uquic/internal/monotime"
	"github.com/refraction-networking/uquic/internal/protocol"
	"github.com/refraction-networking/uquic/internal/qerr"
	"github.com/refraction-networking/uquic/internal/utils"
	"github.com/refraction-networking/uquic/internal/verifharness/vh"
	"github.com/refraction-networking/uquic/internal/wire"
)

var suiteIDs = []uint16{0x1301, 0x1302, 0x1303}

type pkt struct {
	from   int
	pn     int64
	kpbit  int // 0/1 as written by the sender
	sealed []byte
	msg    []byte
	// packed by the real packer: the protected packet, its destination connection ID length
	packed bool
	raw    []byte
	cidLen int
}

var packPaths = []string{"append", "ackonly", "coal", "pto", "mtu", "path", "cclose", "aclose"}

// destination connection ID of the packets endpoint i sends (8 bytes / zero length)
func destCID(i int) []byte {
	if i == 0 {
		return []byte{0xc0, 1, 2, 3, 4, 5, 6, 7}
	}
	return nil
}

type runner struct {
	inited  bool
	ua      [2]*handshake.VerifUA
	pk      [2]*quic.VerifKPPacker
	secret  [2][]byte // write secret of endpoint i
	suite   uint16
	ver     protocol.Version
	resetKU func()
	oldFKU  uint64
	pkts    map[int]*pkt

	// generator state (informed by Exec results in gen mode)
	now       int64
	nextPN    [2]int64
	nextID    int
	inflight  [2][]int   // ids sent by i, not yet delivered
	delivered [2][]int   // ids sent by i, delivered at least once
	rcvdOK    [2][]int64 // pns of i's packets that the peer opened successfully
	confirmed [2]bool
	lastRes   string
}

func newRunner(r *vh.Rand) vh.Runner {
	return &runner{pkts: map[int]*pkt{}, now: 1 + r.Range(0, 1_000_000_000)}
}

func (rn *runner) Close() {
	if rn.resetKU != nil {
		rn.resetKU()
		handshake.FirstKeyUpdateInterval = rn.oldFKU
		rn.resetKU = nil
	}
}

func (rn *runner) init(suiteIdx int, ver int, kui, fkui uint64, rttMs int64) string {
	rn.Close()
	rn.suite = suiteIDs[suiteIdx%3]
	rn.ver = protocol.Version1
	if ver == 2 {
		rn.ver = protocol.Version2
	}
	rn.oldFKU = handshake.FirstKeyUpdateInterval
	rn.resetKU = handshake.SetKeyUpdateInterval(kui)
	handshake.FirstKeyUpdateInterval = fkui
	var pto3 int64
	for i := 0; i < 2; i++ {
		rn.secret[i] = make([]byte, 32)
		for j := range rn.secret[i] {
			rn.secret[i][j] = byte(17*i + 3*j + 1)
		}
	}
	for i := 0; i < 2; i++ {
		rtt := utils.NewRTTStats()
		if rttMs > 0 {
			rtt.UpdateRTT(time.Duration(rttMs)*time.Millisecond, 0)
		}
		pto3 = int64(3 * rtt.PTO(true))
		rn.ua[i] = handshake.VerifNewUpdatableAEAD(rn.suite, rn.secret[1-i], rn.secret[i], rn.ver, rtt)
		// long header keys next to the 1-RTT keys (stand-ins derived like Initial keys from two connection IDs)
		pers := protocol.PerspectiveClient
		if i == 1 {
			pers = protocol.PerspectiveServer
		}
		ini, _ := handshake.NewInitialAEAD(protocol.ParseConnectionID([]byte{1, 1, 2, 3, 5, 8, 13, 21}), pers, rn.ver)
		hs, _ := handshake.NewInitialAEAD(protocol.ParseConnectionID([]byte{2, 7, 1, 8, 2, 8, 1, 8}), pers, rn.ver)
		rn.pk[i] = quic.VerifNewKPPacker(rn.ua[i].Sealer(), ini, hs, destCID(i), i == 0)
	}
	rn.inited = true
	return fmt.Sprintf("pto3=%d limit=%d", pto3, rn.ua[0].InvalidPacketLimit())
}

func (rn *runner) ensure() {
	if !rn.inited {
		rn.init(0, 1, 100000, 100, 0)
	}
}

func ad(kpbit int, pn int64) []byte {
	b := make([]byte, 9)
	b[0] = byte(kpbit)
	for i := 0; i < 8; i++ {
		b[1+i] = byte(uint64(pn) >> (8 * (7 - i)))
	}
	return b
}

func msgFor(id int) []byte {
	n := id % 7
	m := make([]byte, n)
	for i := range m {
		m[i] = byte(id*31 + i)
	}
	return m
}

func kpBit(b protocol.KeyPhaseBit) int {
	if b == protocol.KeyPhaseOne {
		return 1
	}
	return 0
}

func (rn *runner) GenOp(r *vh.Rand, i int) string {
	if i == 0 && r.Chance(92) {
		kui := uint64(r.Range(2, 9))
		fkui := uint64(r.Range(1, 6))
		if r.Chance(10) {
			kui, fkui = 100000, 100
		}
		return fmt.Sprintf("init %d %d %d %d %d", r.Intn(3), 1+r.Intn(2), kui, fkui, []int64{0, 1, 10, 50}[r.Intn(4)])
	}
	ep := r.Intn(2)
	if !rn.confirmed[ep] && r.Chance(35) {
		rn.confirmed[ep] = true
		return fmt.Sprintf("confirm %d", ep)
	}
	if r.Chance(3) {
		return fmt.Sprintf("secrets %d", ep)
	}
	switch r.Pick(34, 34, 14, 6, 2, 3, 3, 4) {
	case 0: // seal (KeyPhase + Seal, as the packer does)
		rn.nextPN[ep] += 1
		if r.Chance(8) {
			rn.nextPN[ep] += r.Range(1, 3)
		}
		id := rn.nextID
		rn.nextID++
		rn.inflight[ep] = append(rn.inflight[ep], id)
		op := "seal"
		if r.Chance(5) {
			op = "sealraw"
		}
		if r.Chance(45) { // through the real packer
			path := packPaths[r.Pick(22, 8, 14, 10, 6, 6, 17, 17)]
			pnLen := []int{4, 2, 3, 1}[r.Pick(55, 25, 12, 8)]
			src := r.Pick(45, 20, 20, 15) // what the frame sources hold: data, ack, both, nothing
			flag := r.Intn(2)
			long := r.Pick(50, 25, 25)
			return fmt.Sprintf("pack %d %d %s %d %d %d %d %d %d %d", ep, id, path, r.Intn(2), pnLen, rn.nextPN[ep]-1, []int{1, 2, 3, 0}[src], flag, long, r.Intn(2))
		}
		return fmt.Sprintf("%s %d %d %d", op, ep, id, rn.nextPN[ep]-1)
	case 1: // deliver to ep a packet sent by the peer
		from := 1 - ep
		rn.now += r.Range(0, 40_000_000)
		if r.Chance(4) {
			rn.now += r.Range(100_000_000, 2_000_000_000)
		}
		var id int
		switch {
		case len(rn.inflight[from]) > 0 && r.Chance(80):
			k := 0
			if r.Chance(30) { // reorder
				k = r.Intn(len(rn.inflight[from]))
			}
			id = rn.inflight[from][k]
			rn.inflight[from] = append(rn.inflight[from][:k:k], rn.inflight[from][k+1:]...)
			rn.delivered[from] = append(rn.delivered[from], id)
		case len(rn.delivered[from]) > 0 && r.Chance(70): // duplicate / very late
			id = rn.delivered[from][r.Intn(len(rn.delivered[from]))]
		case rn.nextID > 0: // anything, including own packets
			id = r.Intn(rn.nextID)
		default:
			return fmt.Sprintf("kp %d", ep)
		}
		kpflip, pnd, bf := 0, int64(0), 0
		if r.Chance(10) {
			switch r.Intn(3) {
			case 0:
				kpflip = 1
			case 1:
				pnd = []int64{-1, 1, 256, -256}[r.Intn(4)]
			default:
				bf = 1 + r.Intn(400)
			}
		}
		return fmt.Sprintf("open %d %d %d %d %d %d", ep, id, rn.now, kpflip, pnd, bf)
	case 2: // ack: mostly honest (something the peer really opened), mostly the largest
		l := rn.rcvdOK[ep]
		if len(l) > 0 && r.Chance(90) {
			pn := l[len(l)-1]
			if r.Chance(25) {
				pn = l[r.Intn(len(l))]
			}
			return fmt.Sprintf("ack %d %d", ep, pn)
		}
		return fmt.Sprintf("ack %d %d", ep, r.Range(0, max(rn.nextPN[ep]-1, 0))) // possibly not received by the peer
	case 3: // a packet of an arbitrary key generation of endpoint `ep`
		cur := int64(0)
		if rn.inited {
			cur = int64(rn.ua[ep].GenerationPhase())
		}
		g := cur + r.Range(-2, 2)
		if g < 0 {
			g = 0
		}
		id := rn.nextID
		rn.nextID++
		rn.inflight[ep] = append(rn.inflight[ep], id)
		pn := rn.nextPN[ep]
		if r.Chance(50) {
			pn = r.Range(0, rn.nextPN[ep]+3)
		} else {
			rn.nextPN[ep]++
		}
		return fmt.Sprintf("forge %d %d %d %d", ep, id, g, pn)
	case 4:
		return fmt.Sprintf("setic %d %d", ep, r.Range(1, 3))
	case 5:
		return fmt.Sprintf("kp %d", ep)
	case 6:
		ln := r.Range(1, 4)
		return fmt.Sprintf("dec %d %d %d", ep, ln, r.Range(0, int64(1)<<(8*ln)-1))
	default:
		return fmt.Sprintf("confirm %d", ep)
	}
}

func errName(err error) string {
	if err == nil {
		return "ok"
	}
	var te *qerr.TransportError
	switch {
	case err == handshake.ErrDecryptionFailed:
		return "E:decrypt"
	case err == handshake.ErrKeysDropped:
		return "E:dropped"
	case errors.As(err, &te) && te.ErrorCode == qerr.KeyUpdateError:
		return "E:keyupdate"
	case errors.As(err, &te) && te.ErrorCode == qerr.AEADLimitReached:
		return "E:aeadlimit"
	}
	return "E:other"
}

func (rn *runner) Exec(op string) string {
	f := strings.Fields(op)
	n := func(i int) int64 {
		if i < len(f) {
			return vh.Atoi64(f[i])
		}
		return 0
	}
	if f[0] == "init" {
		return rn.init(int(n(1)), int(n(2)), uint64(n(3)), uint64(n(4)), n(5))
	}
	rn.ensure()
	ep := int(n(1)) & 1
	u := rn.ua[ep]
	switch f[0] {
	case "confirm":
		u.SetHandshakeConfirmed()
		return "ok " + u.State()
	case "kp":
		b := u.KeyPhase()
		return fmt.Sprintf("bit=%d %s", kpBit(b), u.State())
	case "seal", "sealraw":
		id, pn := int(n(2)), n(3)
		var bit int
		if f[0] == "seal" {
			bit = kpBit(u.KeyPhase())
		} else {
			bit = int(u.GenerationPhase() % 2)
		}
		gen := u.GenerationPhase()
		m := msgFor(id)
		sealed := u.Seal(m, protocol.PacketNumber(pn), ad(bit, pn))
		rn.pkts[id] = &pkt{from: ep, pn: pn, kpbit: bit, sealed: sealed, msg: m}
		return fmt.Sprintf("bit=%d gen=%d len=%d ct=%x %s", bit, gen, len(sealed)-len(m), sealed, u.State())
	case "pack":
		// pack <ep> <id> <path> <uquic> <pnlen> <pn> <src> <flag> <long> <hsdata>
		if len(f) < 11 {
			return "skip"
		}
		id, pnLen, pn, src := int(n(2)), int(n(5)), n(6), int(n(7))
		if pnLen < 1 || pnLen > 4 || pn < 0 {
			return "skip"
		}
		out := rn.pk[ep].Pack(quic.VerifKPIn{Path: f[3], UQUIC: n(4)&1 == 1, PN: pn, PNLen: pnLen,
			Data: src&1 != 0, Ack: src&2 != 0, Flag: n(8)&1 == 1, Long: int(n(9)), HSData: n(10)&1 == 1,
			V2: rn.ver == protocol.Version2})
		if out.Err != "" {
			return "E:pack " + u.State()
		}
		if !out.Produced {
			return "none " + u.State()
		}
		gen := u.GenerationPhase()
		rn.pkts[id] = &pkt{from: ep, pn: pn, kpbit: out.KeyPhase, packed: true, raw: out.Raw, cidLen: len(destCID(ep))}
		return fmt.Sprintf("bit=%d gen=%d pn=%d pnlen=%d popped=%d len=%d %s", out.KeyPhase, gen, out.PN, out.PNLen, out.Popped, len(out.Raw), u.State())
	case "forge":
		id, g, pn := int(n(2)), int(n(3)), n(4)
		if g < 0 || g > 1000 {
			return "skip"
		}
		m := msgFor(id)
		bit := g % 2
		sealed := handshake.VerifSealWithGeneration(rn.suite, rn.secret[ep], g, rn.ver, protocol.PacketNumber(pn), m, ad(bit, pn))
		rn.pkts[id] = &pkt{from: ep, pn: pn, kpbit: bit, sealed: sealed, msg: m}
		return "ok"
	case "open":
		p := rn.pkts[int(n(2))]
		if p == nil {
			return "skip"
		}
		t, kpflip, pnd, bf := n(3), int(n(4))&1, n(5), int(n(6))
		if p.packed {
			return rn.openPacked(ep, p, t, kpflip, bf)
		}
		bit := p.kpbit ^ kpflip
		a := ad(bit, p.pn)
		src := append([]byte{}, p.sealed...)
		if bf > 0 {
			total := 8 * (len(a) + len(src))
			k := (bf - 1) % total
			if k < 8*len(a) {
				a[k/8] ^= 1 << (k % 8)
			} else {
				k -= 8 * len(a)
				src[k/8] ^= 1 << (k % 8)
			}
		}
		kp := protocol.KeyPhaseZero
		if bit == 1 {
			kp = protocol.KeyPhaseOne
		}
		dec, err := u.Open(src, monotime.Time(t), protocol.PacketNumber(p.pn+pnd), kp, a)
		res := errName(err)
		if err == nil {
			if !bytes.Equal(dec, p.msg) {
				res = "ok-WRONG-PLAINTEXT"
			} else if p.from != ep && kpflip == 0 && pnd == 0 && bf == 0 {
				rn.rcvdOK[p.from] = append(rn.rcvdOK[p.from], p.pn)
			}
		}
		rn.lastRes = res
		return res + " " + u.State()
	case "ack":
		err := u.SetLargestAcked(protocol.PacketNumber(n(2)))
		return errName(err) + " " + u.State()
	case "setic":
		k := uint64(n(2))
		u.SetInvalidPacketCount(u.InvalidPacketLimit() - k)
		return "ok " + u.State()
	case "secrets":
		rcv, send := u.NextSecrets()
		return fmt.Sprintf("gen=%d nrcv=%x nsend=%x", u.GenerationPhase()+1, rcv, send)
	case "dec":
		return fmt.Sprintf("%d", int64(u.DecodePacketNumber(protocol.PacketNumber(n(3)), protocol.PacketNumberLen(n(2)))))
	}
	return "bad-op"
}

// frameCheck parses the decrypted payload of a packed packet: it must consist of the frames the stub sources
// can produce (ACK, MAX_DATA, PING, PATH_CHALLENGE, CONNECTION_CLOSE) and PADDING, nothing else.
func frameCheck(payload []byte, ver protocol.Version) string {
	fp := wire.NewFrameParser(false, false, false)
	n := 0
	data := payload
	for len(data) > 0 {
		ft, l, err := fp.ParseType(data, protocol.Encryption1RTT)
		if err != nil {
			if err == io.EOF {
				break
			}
			return "bad-type"
		}
		data = data[l:]
		switch {
		case ft.IsAckFrameType():
			_, l, err := fp.ParseAckFrame(ft, data, protocol.Encryption1RTT, ver)
			if err != nil {
				return "bad-ack"
			}
			data = data[l:]
		case ft.IsStreamFrameType() || ft.IsDatagramFrameType():
			return "unexpected"
		default:
			f, l, err := fp.ParseLessCommonFrame(ft, data, ver)
			if err != nil {
				return "bad-frame"
			}
			switch f.(type) {
			case *wire.MaxDataFrame, *wire.PingFrame, *wire.PathChallengeFrame, *wire.ConnectionCloseFrame:
			default:
				return "unexpected"
			}
			data = data[l:]
		}
		n++
	}
	if n == 0 {
		return "empty"
	}
	return "ok"
}

// openPacked delivers a packet the real packer produced to endpoint ep's real packetUnpacker. Tampering: the
// key-phase bit of the (protected) first byte, or one bit behind the header-protection sample.
func (rn *runner) openPacked(ep int, p *pkt, t int64, kpflip, bf int) string {
	u := rn.ua[ep]
	if p.from == ep {
		return "skip" // the own receive keys cannot even remove the header protection
	}
	data := append([]byte{}, p.raw...)
	if kpflip == 1 {
		data[0] ^= 0x04
	}
	off := 1 + p.cidLen
	if bf > 0 && len(data) > off+20 {
		k := (bf - 1) % (8 * (len(data) - off - 20))
		data[off+20+k/8] ^= 1 << (k % 8)
	}
	pn, _, kp, dec, err := quic.VerifUnpackShortHeaderPacket(u.Opener(), p.cidLen, monotime.Time(t), data)
	var res string
	switch {
	case err == nil:
		res = fmt.Sprintf("ok wbit=%d dpn=%d frames=%s", kpBit(kp), int64(pn), frameCheck(dec, rn.ver))
		if kpflip == 0 && !(bf > 0 && len(data) > off+20) {
			rn.rcvdOK[p.from] = append(rn.rcvdOK[p.from], p.pn)
		}
	case err == wire.ErrInvalidReservedBits:
		res = "E:reserved"
	case quic.VerifIsHeaderParseError(err):
		res = "E:hdrparse"
	default:
		res = errName(err)
	}
	rn.lastRes = res
	return res + " " + u.State()
}

func TestDriver(t *testing.T) { vh.Main(t, "keyphase", newRunner) }
