//go:build verif

// Package ringq is the unit driver of internal/utils/ringbuffer.RingBuffer (property C18 depends on
// it: the framer's stream queue decides which request streams of a connection are scheduled).
// Only the exported API is used. One case = one ring:
//
//	init <n>      (only as the first operation of a ring; otherwise `skip`)
//	push <x>      => ok
//	pop | peek    => <x> | PANIC
//	len           => <n>
//	empty         => true | false
//	clear         => ok
//
// The generator imitates the framer: k streams become active (push), streams that still have data
// are popped and pushed back (rotation, which moves the head off slot 0), further streams become
// active while the ring is exactly full (growth while wrapped), everything drains, and again.
package ringq

import (
	"fmt"
	"strconv"
	"strings"
	"testing"

	"github.com/refraction-networking/uquic/internal/utils/ringbuffer"
	"github.com/refraction-networking/uquic/internal/verifharness/vh"
)

type runner struct {
	rb    ringbuffer.RingBuffer[int64]
	fresh bool
	// generator state
	next   int64
	script []string
}

func newRunner(r *vh.Rand) vh.Runner { return &runner{fresh: true} }

func (rn *runner) Exec(op string) string {
	f := strings.Fields(op)
	if len(f) == 0 {
		return "skip"
	}
	wasFresh := rn.fresh
	rn.fresh = false
	switch f[0] {
	case "init":
		if !wasFresh || len(f) != 2 {
			return "skip"
		}
		n, err := strconv.Atoi(f[1])
		if err != nil || n < 0 || n > 1<<16 {
			return "skip"
		}
		rn.rb.Init(n)
		return "ok"
	case "push":
		if len(f) != 2 {
			return "skip"
		}
		x, err := strconv.ParseInt(f[1], 10, 64)
		if err != nil || rn.rb.Len() > 1<<16 {
			return "skip"
		}
		rn.rb.PushBack(x)
		return "ok"
	case "pop":
		return strconv.FormatInt(rn.rb.PopFront(), 10)
	case "peek":
		return strconv.FormatInt(rn.rb.PeekFront(), 10)
	case "len":
		return strconv.Itoa(rn.rb.Len())
	case "empty":
		return strconv.FormatBool(rn.rb.Empty())
	case "clear":
		rn.rb.Clear()
		return "ok"
	}
	return "skip"
}

func (rn *runner) AfterPanic(op string) string { return "PANIC" }

func (rn *runner) id() int64 {
	rn.next += 4
	return rn.next
}

func (rn *runner) GenOp(r *vh.Rand, i int) string {
	if i == 0 && r.Chance(60) {
		return fmt.Sprintf("init %d", []int{0, 1, 2, 3, 4, 7, 8, 16, 32}[r.Intn(9)])
	}
	if len(rn.script) == 0 {
		switch r.Pick(30, 30, 12, 10, 8, 10) {
		case 0: // a burst of newly active streams
			for k := 1 + r.Intn(9); k > 0; k-- {
				rn.script = append(rn.script, fmt.Sprintf("push %d", rn.id()))
			}
		case 1: // rotation: a stream sends one frame and is queued again (as a fresh id: ids stay distinct)
			for k := 1 + r.Intn(7); k > 0; k-- {
				rn.script = append(rn.script, "pop", fmt.Sprintf("push %d", rn.id()+1))
			}
		case 2: // streams finish
			for k := 1 + r.Intn(6); k > 0; k-- {
				rn.script = append(rn.script, "pop")
			}
		case 3:
			rn.script = append(rn.script, []string{"len", "empty", "peek"}[r.Intn(3)])
		case 4:
			rn.script = append(rn.script, "clear")
		case 5: // fill to a power of two, rotate, then one more: growth while wrapped
			n := rn.rb.Len()
			c := 1
			for c < n || c < 2 {
				c *= 2
			}
			if r.Chance(40) {
				c *= 2
			}
			for k := c - n; k > 0; k-- {
				rn.script = append(rn.script, fmt.Sprintf("push %d", rn.id()))
			}
			for k := 1 + r.Intn(c); k > 0; k-- {
				rn.script = append(rn.script, "pop", fmt.Sprintf("push %d", rn.id()+1))
			}
			rn.script = append(rn.script, fmt.Sprintf("push %d", rn.id()), "len")
		}
	}
	op := rn.script[0]
	rn.script = rn.script[1:]
	return op
}

func TestDriver(t *testing.T) { vh.Main(t, "ringq", newRunner) }
