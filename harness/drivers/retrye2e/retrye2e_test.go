//go:build verif

// Package retrye2e runs ONE real server (quic.Transport + Listener, Retry on demand) against up to three real
// clients over testutils/simnet inside a testing/synctest bubble, with the two things a single-client run cannot
// show (property C14, end to end; support driver: nothing it finds or fails to find is called a proof):
//
//   - INTERLEAVED Retry handshakes. The server's tls.Config.GetConfigForClient callback (public API; it runs on the
//     connection's goroutine when the ClientHello is processed, i.e. AFTER handleInitialImpl decoded the token and
//     created the connection and BEFORE the TLS stack asks for the transport parameters) can hold a client's
//     handshake at a gate until the script releases it. Meanwhile the server's receive goroutine serves the other
//     clients (decodes their tokens, creates their connections). Every client reports the transport parameters it
//     RECEIVED (its own qlog tracer): "a Retry token carries back exactly the connection IDs it was issued with" is
//     judged where the IDs are used.
//   - tokens that come back from ANOTHER address, or when the server no longer asks for a Retry: the router can hold
//     the datagrams of a client that carry a token and deliver them later, optionally with a spoofed source address
//     at which nobody listens. The wire is judged per address: towards an address that never proved itself the
//     server writes at most 3x what arrived from it.
//
//	start <longchain> <wantsRetry>       server (long/short certificate chain); VerifySourceAddress answers <wantsRetry>
//	dial <c> <gate> <hold> <spoof>       client c (address x<c>) dials. gate=1: its server-side handshake waits at the
//	                                     ClientHello until `release c`. hold=1: its datagrams that carry a token are kept
//	                                     by the router until `deliver c`; spoof=1: they are then delivered with source
//	                                     address y<c> (nobody listens there) instead of x<c>
//	deliver <c>                          deliver the held datagrams of c; later ones pass (hold) / are dropped (spoof: the
//	                                     sender behind a spoofed address sends its batch once)
//	release <c>                          open the gate of c
//	wantretry <0|1>                      what VerifySourceAddress answers from now on
//	run <ms>                             let virtual time pass
//
// result: `ok ev=<events> | c<k>=<hs>,<odcid seen>,<rscid seen>,<odcid wire>,<rscid wire> …`
//
//	events, in wire order: i<N>[H][T<k>]@<a>  N bytes reached the server from address a (H: contains a Handshake packet,
//	                                          T<k>: an Initial carrying token number k, T?: a token no Retry showed)
//	                       r<N>#<k>@<a>       the server wrote a Retry of N bytes to a, carrying token number k
//	                       o<N>@<a>           the server wrote any other datagram of N bytes to a
//	per client: hs = pend | ok | err:<transport error code hex> | err:timeout | err:other;
//	            seen = the original_destination_connection_id / retry_source_connection_id transport parameters the
//	            client received (- = no parameters yet, none = parameter absent);
//	            wire = the destination connection ID of the client's first Initial / the source connection ID of the
//	            Retry packet the router saw going to the client (- = none)
package retrye2e

import (
	"context"
	"crypto/x509"
	"encoding/hex"
	"errors"
	"fmt"
	"net"
	"strings"
	"sync"
	"testing"
	"testing/synctest"
	"time"

	quic "github.com/refraction-networking/uquic"
	"github.com/refraction-networking/uquic/integrationtests/tools"
	"github.com/refraction-networking/uquic/internal/protocol"
	"github.com/refraction-networking/uquic/internal/verifharness/vh"
	"github.com/refraction-networking/uquic/internal/wire"
	"github.com/refraction-networking/uquic/qlog"
	"github.com/refraction-networking/uquic/qlogwriter"
	"github.com/refraction-networking/uquic/testutils/simnet"
	tls "github.com/refraction-networking/utls"
)

const maxClients = 3

var (
	tlsShort, tlsLong *tls.Config
	tlsClient         *tls.Config
)

func init() {
	ca, caKey, err := tools.GenerateCA()
	if err != nil {
		panic(err)
	}
	leaf, leafKey, err := tools.GenerateLeafCert(ca, caKey)
	if err != nil {
		panic(err)
	}
	tlsShort = &tls.Config{Certificates: []tls.Certificate{{Certificate: [][]byte{leaf.Raw}, PrivateKey: leafKey}}, NextProtos: []string{"verif"}}
	tlsLong, err = tools.GenerateTLSConfigWithLongCertChain(ca, caKey)
	if err != nil {
		panic(err)
	}
	tlsLong.NextProtos = []string{"verif"}
	root := x509.NewCertPool()
	root.AddCert(ca)
	tlsClient = &tls.Config{ServerName: "localhost", RootCAs: root, NextProtos: []string{"verif"}}
}

var serverAddr = &net.UDPAddr{IP: net.IPv4(1, 0, 0, 1), Port: 443}

func clientAddr(c int) *net.UDPAddr { return &net.UDPAddr{IP: net.IPv4(1, 0, 1, byte(c+1)), Port: 4242} }
func spoofAddr(c int) *net.UDPAddr  { return &net.UDPAddr{IP: net.IPv4(1, 0, 2, byte(c+1)), Port: 4242} }

func hx(b []byte) string {
	if len(b) == 0 {
		return "-"
	}
	return hex.EncodeToString(b)
}

type held struct {
	data []byte
}

type clientSt struct {
	idx                int
	gate               chan struct{} // nil: not gated
	gateOpen           bool
	hold, spoof        bool
	delivered          bool
	queue              []held
	sconn              *simnet.SimConn
	tr                 *quic.Transport
	cancel             context.CancelFunc
	status             string
	seenO, seenR       string
	wireO, wireR       string
	dialed, gotRetryTo bool
}

type router struct {
	inner  simnet.PerfectRouter
	mu     sync.Mutex
	ev     []string
	tokens [][]byte
	cl     [maxClients]*clientSt
}

func (r *router) AddNode(a net.Addr, c simnet.PacketReceiver) { r.inner.AddNode(a, c) }

func (r *router) nameOf(a net.Addr) string {
	u, ok := a.(*net.UDPAddr)
	if !ok {
		return "?"
	}
	ip := u.IP.To4()
	if ip == nil || ip[0] != 1 || ip[1] != 0 {
		return "?"
	}
	switch ip[2] {
	case 1:
		return fmt.Sprintf("x%d", ip[3]-1)
	case 2:
		return fmt.Sprintf("y%d", ip[3]-1)
	}
	return "?"
}

func (r *router) tokenIdx(tok []byte, add bool) int {
	for i, t := range r.tokens {
		if string(t) == string(tok) {
			return i
		}
	}
	if !add {
		return -1
	}
	r.tokens = append(r.tokens, append([]byte(nil), tok...))
	return len(r.tokens) - 1
}

// describe a datagram travelling towards the server
func (r *router) inEvent(data []byte, from net.Addr) (ev string, hasToken bool, first *wire.Header) {
	hs, tokIdx := false, -2
	rest := data
	for len(rest) > 0 && wire.IsLongHeaderPacket(rest[0]) {
		hdr, _, rem, err := wire.ParsePacket(rest)
		if err != nil {
			break
		}
		if first == nil {
			first = hdr
		}
		if hdr.Type == protocol.PacketTypeHandshake {
			hs = true
		}
		if hdr.Type == protocol.PacketTypeInitial && len(hdr.Token) > 0 && tokIdx == -2 {
			tokIdx = r.tokenIdx(hdr.Token, false)
		}
		rest = rem
	}
	sfx := ""
	if hs {
		sfx += "H"
	}
	if tokIdx >= 0 {
		sfx += fmt.Sprintf("T%d", tokIdx)
	} else if tokIdx == -1 {
		sfx += "T?"
	}
	return fmt.Sprintf("i%d%s@%s", len(data), sfx, r.nameOf(from)), tokIdx != -2, first
}

func (r *router) SendPacket(p simnet.Packet) error {
	r.mu.Lock()
	if p.To.String() == serverAddr.String() {
		var cs *clientSt
		for _, c := range r.cl {
			if c != nil && clientAddr(c.idx).String() == p.From.String() {
				cs = c
			}
		}
		ev, hasTok, first := r.inEvent(p.Data, p.From)
		if cs != nil && cs.wireO == "-" && first != nil && first.Type == protocol.PacketTypeInitial && len(first.Token) == 0 {
			cs.wireO = hx(first.DestConnectionID.Bytes())
		}
		if cs != nil && cs.hold && hasTok {
			if !cs.delivered {
				cs.queue = append(cs.queue, held{data: append([]byte(nil), p.Data...)})
				r.mu.Unlock()
				return nil
			}
			if cs.spoof {
				// the sender behind a spoofed address sends its batch once and then keeps quiet (every further
				// datagram would only raise the budget of the address it pretends to be)
				r.mu.Unlock()
				return nil
			}
		}
		r.ev = append(r.ev, ev)
		r.mu.Unlock()
		return r.inner.SendPacket(p)
	}
	// from the server
	name := r.nameOf(p.To)
	done := false
	if len(p.Data) > 0 && wire.IsLongHeaderPacket(p.Data[0]) {
		if hdr, _, _, err := wire.ParsePacket(p.Data); err == nil && hdr.Type == protocol.PacketTypeRetry {
			k := r.tokenIdx(hdr.Token, true)
			r.ev = append(r.ev, fmt.Sprintf("r%d#%d@%s", len(p.Data), k, name))
			for _, c := range r.cl {
				if c != nil && clientAddr(c.idx).String() == p.To.String() && c.wireR == "-" {
					c.wireR = hx(hdr.SrcConnectionID.Bytes())
				}
			}
			done = true
		}
	}
	if !done {
		r.ev = append(r.ev, fmt.Sprintf("o%d@%s", len(p.Data), name))
	}
	r.mu.Unlock()
	if strings.HasPrefix(name, "y") || name == "?" {
		return nil // nobody listens at a spoofed address
	}
	return r.inner.SendPacket(p)
}

func (r *router) drain() string {
	r.mu.Lock()
	defer r.mu.Unlock()
	s := strings.Join(r.ev, ",")
	r.ev = nil
	if s == "" {
		return "-"
	}
	return s
}

// a qlog recorder that keeps the transport parameters the client received
type paramRec struct {
	rt *router
	cs *clientSt
}

func (p paramRec) RecordEvent(ev qlogwriter.Event) {
	if e, ok := ev.(qlog.ParametersSet); ok && e.Initiator == qlog.InitiatorRemote && !e.Restore {
		p.rt.mu.Lock()
		p.cs.seenO = hx(e.OriginalDestinationConnectionID.Bytes())
		if e.RetrySourceConnectionID == nil {
			p.cs.seenR = "none"
		} else {
			p.cs.seenR = hx(e.RetrySourceConnectionID.Bytes())
		}
		p.rt.mu.Unlock()
	}
}
func (p paramRec) Close() error                       { return nil }
func (p paramRec) AddProducer() qlogwriter.Recorder   { return p }
func (p paramRec) SupportsSchemas(schema string) bool { return true }

type runner struct {
	rt         *router
	sconn      *simnet.SimConn
	str        *quic.Transport
	ln         *quic.Listener
	started    bool
	mu         sync.Mutex
	wantsRetry bool
	script     []string
}

func newRunner(r *vh.Rand) vh.Runner { return &runner{} }

// GenOp: a whole small script is drawn at the start of the case: every client gets its flags, the follow-up
// actions (deliver / release / policy switch / pauses) are interleaved in a random order.
func (rn *runner) GenOp(r *vh.Rand, i int) string {
	if i == 0 {
		n := 2 + r.Intn(2)
		wr := 1
		if r.Chance(15) {
			wr = 0
		}
		long := r.Intn(2)
		var dials, follow []string
		for c := 0; c < n; c++ {
			gate, hold, spoof := 0, 0, 0
			if r.Chance(50) {
				gate = 1
			}
			if r.Chance(40) {
				hold = 1
				if r.Chance(50) {
					spoof = 1
				}
			}
			dials = append(dials, fmt.Sprintf("dial %d %d %d %d", c, gate, hold, spoof))
			if hold == 1 {
				if spoof == 1 && r.Chance(50) {
					// the token comes back when the server no longer asks this address for a Retry
					follow = append(follow, "wantretry 0;"+fmt.Sprintf("deliver %d", c))
				} else {
					follow = append(follow, fmt.Sprintf("deliver %d", c))
				}
			}
			if gate == 1 {
				follow = append(follow, fmt.Sprintf("release %d", c))
			}
		}
		if r.Chance(25) {
			follow = append(follow, fmt.Sprintf("wantretry %d", r.Intn(2)))
		}
		for k := r.Intn(3); k > 0; k-- {
			follow = append(follow, fmt.Sprintf("run %d", []int{1, 20, 100, 300}[r.Intn(4)]))
		}
		// shuffle the follow-ups; a release of a held client only makes sense after its delivery, the script does
		// not care: releasing an idle gate is harmless
		for k := len(follow) - 1; k > 0; k-- {
			j := r.Intn(k + 1)
			follow[k], follow[j] = follow[j], follow[k]
		}
		// dials are spread over the follow-ups: a later client may dial after an earlier one was released
		var ops []string
		di := 0
		for _, f := range follow {
			for di < len(dials) && (di == 0 || r.Chance(60)) {
				ops = append(ops, dials[di])
				di++
			}
			ops = append(ops, strings.Split(f, ";")...)
		}
		for ; di < len(dials); di++ {
			ops = append(ops, dials[di])
		}
		// every client's follow-up must come after its dial
		ops = fixOrder(ops)
		ops = append(ops, "run 50", "run 1000", "run 2000")
		rn.script = ops
		return fmt.Sprintf("start %d %d", long, wr)
	}
	if len(rn.script) > 0 {
		op := rn.script[0]
		rn.script = rn.script[1:]
		return op
	}
	return "" // the script is the case
}

// fixOrder moves a `deliver c` / `release c` that precedes `dial c` to right after it
func fixOrder(ops []string) []string {
	var out, early []string
	dialed := map[string]bool{}
	for _, op := range ops {
		f := strings.Fields(op)
		switch f[0] {
		case "dial":
			dialed[f[1]] = true
			out = append(out, op)
			var keep []string
			for _, e := range early {
				if strings.Fields(e)[1] == f[1] {
					out = append(out, e)
				} else {
					keep = append(keep, e)
				}
			}
			early = keep
		case "deliver", "release":
			if dialed[f[1]] {
				out = append(out, op)
			} else {
				early = append(early, op)
			}
		default:
			out = append(out, op)
		}
	}
	return append(out, early...)
}

func (rn *runner) res(head string) string {
	synctest.Wait()
	var sb strings.Builder
	fmt.Fprintf(&sb, "%s ev=%s |", head, rn.rt.drain())
	rn.rt.mu.Lock()
	for _, c := range rn.rt.cl {
		if c != nil {
			fmt.Fprintf(&sb, " c%d=%s,%s,%s,%s,%s", c.idx, c.status, c.seenO, c.seenR, c.wireO, c.wireR)
		}
	}
	rn.rt.mu.Unlock()
	return sb.String()
}

func (rn *runner) gateFor(remote net.Addr) chan struct{} {
	rn.rt.mu.Lock()
	defer rn.rt.mu.Unlock()
	for _, c := range rn.rt.cl {
		if c != nil && c.gate != nil && (clientAddr(c.idx).String() == remote.String() || spoofAddr(c.idx).String() == remote.String()) {
			return c.gate
		}
	}
	return nil
}

func (rn *runner) Exec(op string) string {
	f := strings.Fields(op)
	if len(f) == 0 {
		return "bad-op"
	}
	if f[0] == "start" {
		if rn.started || len(f) != 3 {
			return "skip"
		}
		rn.started = true
		rn.wantsRetry = f[2] == "1"
		rn.rt = &router{}
		rn.sconn = simnet.NewSimConn(serverAddr, rn.rt)
		rn.str = &quic.Transport{Conn: rn.sconn}
		rn.str.VerifySourceAddress = func(net.Addr) bool { rn.mu.Lock(); defer rn.mu.Unlock(); return rn.wantsRetry }
		tc := tlsShort.Clone()
		if f[1] == "1" {
			tc = tlsLong.Clone()
		}
		tc.GetConfigForClient = func(chi *tls.ClientHelloInfo) (*tls.Config, error) {
			if chi.Conn != nil {
				if g := rn.gateFor(chi.Conn.RemoteAddr()); g != nil {
					<-g
				}
			}
			return nil, nil
		}
		ln, err := rn.str.Listen(tc, &quic.Config{DisablePathMTUDiscovery: true})
		if err != nil {
			return "E:listen"
		}
		rn.ln = ln
		return rn.res("ok")
	}
	if !rn.started {
		return "skip"
	}
	cl := func(s string) *clientSt {
		c := int(vh.Atoi64(s))
		if c < 0 || c >= maxClients {
			return nil
		}
		rn.rt.mu.Lock()
		defer rn.rt.mu.Unlock()
		return rn.rt.cl[c]
	}
	switch f[0] {
	case "dial":
		if len(f) != 5 {
			return "bad-op"
		}
		c := int(vh.Atoi64(f[1]))
		if c < 0 || c >= maxClients {
			return "bad-op"
		}
		if cl(f[1]) != nil {
			return rn.res("skip")
		}
		cs := &clientSt{idx: c, hold: f[3] == "1", spoof: f[4] == "1", status: "pend", seenO: "-", seenR: "-", wireO: "-", wireR: "-"}
		if f[2] == "1" {
			cs.gate = make(chan struct{})
		}
		rn.rt.mu.Lock()
		rn.rt.cl[c] = cs
		rn.rt.mu.Unlock()
		cs.sconn = simnet.NewSimConn(clientAddr(c), rn.rt)
		cs.tr = &quic.Transport{Conn: cs.sconn}
		ctx, cancel := context.WithCancel(context.Background())
		cs.cancel = cancel
		go func() {
			conn, err := cs.tr.Dial(ctx, serverAddr, tlsClient.Clone(), &quic.Config{
				DisablePathMTUDiscovery: true,
				Tracer: func(context.Context, bool, quic.ConnectionID) qlogwriter.Trace {
					return paramRec{rt: rn.rt, cs: cs}
				},
			})
			st := "ok"
			if err != nil {
				var te *quic.TransportError
				var ht *quic.HandshakeTimeoutError
				var it *quic.IdleTimeoutError
				switch {
				case errors.As(err, &te):
					st = fmt.Sprintf("err:%x", uint64(te.ErrorCode))
				case errors.As(err, &ht), errors.As(err, &it):
					st = "err:timeout"
				case errors.Is(err, context.Canceled):
					st = "pend"
				default:
					st = "err:other"
				}
			}
			rn.rt.mu.Lock()
			cs.status = st
			rn.rt.mu.Unlock()
			if err == nil {
				<-ctx.Done()
				conn.CloseWithError(0, "")
			}
		}()
		return rn.res("ok")
	case "deliver":
		if len(f) != 2 {
			return "bad-op"
		}
		cs := cl(f[1])
		if cs == nil || !cs.hold {
			return rn.res("skip")
		}
		rn.rt.mu.Lock()
		q := cs.queue
		cs.queue = nil
		cs.delivered = true
		from := net.Addr(clientAddr(cs.idx))
		if cs.spoof {
			from = spoofAddr(cs.idx)
		}
		for _, h := range q {
			ev, _, _ := rn.rt.inEvent(h.data, from)
			rn.rt.ev = append(rn.rt.ev, ev)
		}
		rn.rt.mu.Unlock()
		for _, h := range q {
			rn.rt.inner.SendPacket(simnet.Packet{To: serverAddr, From: from, Data: h.data})
		}
		return rn.res("ok")
	case "release":
		if len(f) != 2 {
			return "bad-op"
		}
		cs := cl(f[1])
		if cs == nil || cs.gate == nil || cs.gateOpen {
			return rn.res("skip")
		}
		cs.gateOpen = true
		close(cs.gate)
		return rn.res("ok")
	case "wantretry":
		if len(f) != 2 {
			return "bad-op"
		}
		rn.mu.Lock()
		rn.wantsRetry = f[1] == "1"
		rn.mu.Unlock()
		return rn.res("ok")
	case "run":
		if len(f) != 2 {
			return "bad-op"
		}
		d := vh.Atoi64(f[1])
		if d < 0 || d > 5000 {
			return "bad-op"
		}
		time.Sleep(time.Duration(d) * time.Millisecond)
		return rn.res("ok")
	}
	return "bad-op"
}

func (rn *runner) Close() {
	if !rn.started {
		return
	}
	for _, c := range rn.rt.cl {
		if c != nil && c.gate != nil && !c.gateOpen {
			c.gateOpen = true
			close(c.gate)
		}
	}
	for _, c := range rn.rt.cl {
		if c != nil && c.cancel != nil {
			c.cancel()
		}
	}
	go rn.ln.Close()
	synctest.Wait()
	for _, c := range rn.rt.cl {
		if c != nil {
			c.tr.Close()
			c.sconn.Close()
		}
	}
	rn.str.Close()
	rn.sconn.Close()
	synctest.Wait()
}

// enumerate (thorough tier): two clients with every combination of flags, every order of the follow-up actions,
// with and without the policy switch before a re-addressed delivery
func enumerate(emit func(ops []string)) {
	type fl struct{ g, h, s int }
	flags := []fl{{0, 0, 0}, {1, 0, 0}, {0, 1, 0}, {1, 1, 0}, {0, 1, 1}, {1, 1, 1}}
	var perms func(a []string, k int, f func([]string))
	perms = func(a []string, k int, f func([]string)) {
		if k == len(a) {
			f(append([]string(nil), a...))
			return
		}
		for i := k; i < len(a); i++ {
			a[k], a[i] = a[i], a[k]
			perms(a, k+1, f)
			a[k], a[i] = a[i], a[k]
		}
	}
	for _, a := range flags {
		for _, b := range flags {
			for _, sw := range []bool{false, true} {
				if sw && a.s == 0 && b.s == 0 {
					continue
				}
				var follow []string
				for c, x := range []fl{a, b} {
					if x.h == 1 {
						follow = append(follow, fmt.Sprintf("deliver %d", c))
					}
					if x.g == 1 {
						follow = append(follow, fmt.Sprintf("release %d", c))
					}
				}
				perms(follow, 0, func(p []string) {
					ops := []string{"start 1 1", fmt.Sprintf("dial 0 %d %d %d", a.g, a.h, a.s), fmt.Sprintf("dial 1 %d %d %d", b.g, b.h, b.s)}
					if sw {
						ops = append(ops, "wantretry 0")
					}
					ops = append(ops, p...)
					emit(append(ops, "run 50", "run 1000", "run 2000"))
				})
			}
		}
	}
}

func TestDriver(t *testing.T) {
	synctest.Test(t, func(t *testing.T) { vh.MainEnum(t, "retrye2e", newRunner, enumerate) })
}
