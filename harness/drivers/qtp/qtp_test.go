//go:build verif

// Package qtp drives the real uQUIC transport-parameter plumbing for property C11:
// SuppressQUICTransportParameters, ShuffleQUICTransportParameters, (*QUICSpec).TransportParameterIDs,
// wire.(*TransportParameters).PopulateFromUQUIC, uTLS's QUICTransportParametersExtension marshalling, and
// whole dials of a UTransport (built-in and derived specs) to a silent loopback socket whose Initial flight
// is decrypted and reassembled here and fingerprinted with clienthellod.
package qtp

import (
	"context"
	"crypto/sha256"
	"encoding/hex"
	"fmt"
	"io"
	"net"
	"os"
	"sort"
	"strconv"
	"strings"
	"sync"
	"testing"
	"time"

	"github.com/refraction-networking/clienthellod"
	quic "github.com/refraction-networking/uquic"
	"github.com/refraction-networking/uquic/internal/handshake"
	"github.com/refraction-networking/uquic/internal/protocol"
	"github.com/refraction-networking/uquic/internal/verifharness/vh"
	"github.com/refraction-networking/uquic/internal/wire"
	"github.com/refraction-networking/uquic/qlog"
	"github.com/refraction-networking/uquic/qlogwriter"
	tls "github.com/refraction-networking/utls"
)

// ---------------------------------------------------------------- tokens <-> uTLS parameters

var stdIDs = []uint64{1, 3, 4, 5, 6, 7, 8, 9, 11, 14, 32}

func mkStd(id, v uint64) tls.TransportParameter {
	switch id {
	case 1:
		return tls.MaxIdleTimeout(v)
	case 3:
		return tls.MaxUDPPayloadSize(v)
	case 4:
		return tls.InitialMaxData(v)
	case 5:
		return tls.InitialMaxStreamDataBidiLocal(v)
	case 6:
		return tls.InitialMaxStreamDataBidiRemote(v)
	case 7:
		return tls.InitialMaxStreamDataUni(v)
	case 8:
		return tls.InitialMaxStreamsBidi(v)
	case 9:
		return tls.InitialMaxStreamsUni(v)
	case 11:
		return tls.MaxAckDelay(v)
	case 14:
		return tls.ActiveConnectionIDLimit(v)
	case 32:
		return tls.MaxDatagramFrameSize(v)
	}
	return nil
}

func unhex(s string) []byte {
	if s == "" || s == "-" {
		return []byte{}
	}
	b, err := hex.DecodeString(s)
	if err != nil {
		return []byte{}
	}
	return b
}

func hx(b []byte) string {
	if len(b) == 0 {
		return "-"
	}
	return hex.EncodeToString(b)
}

// parseToken builds the uTLS value a token denotes (nil: malformed).
func parseToken(t string) tls.TransportParameter {
	key, val, _ := strings.Cut(t, "=")
	switch {
	case key == "D":
		return &tls.DisableActiveMigration{}
	case key == "Q":
		return &tls.GREASEQUICBit{}
	case key == "C":
		return tls.InitialSourceConnectionID(unhex(val))
	case key == "P":
		return tls.PaddingTransportParameter(unhex(val))
	case strings.HasPrefix(key, "S"):
		id, err := strconv.ParseUint(key[1:], 10, 64)
		v, err2 := strconv.ParseUint(val, 10, 64)
		if err != nil || err2 != nil {
			return nil
		}
		return mkStd(id, v)
	case strings.HasPrefix(key, "V"):
		parts := strings.Split(val, ";")
		if len(key) != 2 || len(parts) < 1 {
			return nil
		}
		vi := &tls.VersionInformation{LegacyID: key[1] == '1'}
		c, err := strconv.ParseUint(parts[0], 16, 32)
		if err != nil {
			return nil
		}
		vi.ChoosenVersion = uint32(c)
		for _, p := range parts[1:] {
			if p == "G" {
				vi.AvailableVersions = append(vi.AvailableVersions, tls.VERSION_GREASE)
				continue
			}
			x, err := strconv.ParseUint(p, 16, 32)
			if err != nil {
				return nil
			}
			vi.AvailableVersions = append(vi.AvailableVersions, uint32(x))
		}
		return vi
	case strings.HasPrefix(key, "F"):
		id, err := strconv.ParseUint(key[1:], 10, 64)
		if err != nil || id == 0 {
			return nil
		}
		return &tls.FakeQUICTransportParameter{Id: id, Val: unhex(val)}
	case strings.HasPrefix(key, "GV"):
		n, err := strconv.Atoi(key[2:])
		if err != nil {
			return nil
		}
		return quic.VariableLengthGREASEQTP(n)
	case strings.HasPrefix(key, "G?"):
		n, err := strconv.ParseUint(key[2:], 10, 16)
		if err != nil {
			return nil
		}
		return &tls.GREASETransportParameter{Length: uint16(n)}
	case strings.HasPrefix(key, "G"):
		id, err := strconv.ParseUint(key[1:], 10, 64)
		if err != nil {
			return nil
		}
		return &tls.GREASETransportParameter{IdOverride: id, ValueOverride: unhex(val)}
	}
	return nil
}

func parseTokens(s string) (tls.TransportParameters, bool) {
	out := tls.TransportParameters{}
	if s == "-" || s == "" {
		return out, true
	}
	for _, t := range strings.Split(s, ",") {
		p := parseToken(t)
		if p == nil {
			return nil, false
		}
		out = append(out, p)
	}
	return out, true
}

// canonOf prints a parameter as `<id>:<value hex|->:<T|R>[:g<i.j…>]`: T = uTLS's dedicated type for the id
// (what PopulateFromUQUIC's type assertions accept), R = raw (Fake, GREASE, padding, version information …).
// It calls ID()/Value(), which pins a GREASE parameter's random id and value (as TransportParameterIDs
// documents). A VersionInformation is printed from its fields with 0a0a0a0a in the GREASE slots, whose
// indices follow after `g`: every Value() call re-draws those four bytes.
func canonOf(p tls.TransportParameter) string {
	switch x := p.(type) {
	case tls.MaxIdleTimeout, tls.MaxUDPPayloadSize, tls.InitialMaxData, tls.InitialMaxStreamDataBidiLocal,
		tls.InitialMaxStreamDataBidiRemote, tls.InitialMaxStreamDataUni, tls.InitialMaxStreamsBidi,
		tls.InitialMaxStreamsUni, tls.MaxAckDelay, tls.ActiveConnectionIDLimit, tls.MaxDatagramFrameSize,
		*tls.DisableActiveMigration, tls.InitialSourceConnectionID:
		return fmt.Sprintf("%d:%s:T", p.ID(), hx(p.Value()))
	case *tls.VersionInformation:
		b := []byte{byte(x.ChoosenVersion >> 24), byte(x.ChoosenVersion >> 16), byte(x.ChoosenVersion >> 8), byte(x.ChoosenVersion)}
		var g []string
		for i, v := range x.AvailableVersions {
			b = append(b, byte(v>>24), byte(v>>16), byte(v>>8), byte(v))
			if v == tls.VERSION_GREASE {
				g = append(g, strconv.Itoa(i))
			}
		}
		s := fmt.Sprintf("%d:%s:R", p.ID(), hx(b))
		if len(g) > 0 {
			s += ":g" + strings.Join(g, ".")
		}
		return s
	}
	return fmt.Sprintf("%d:%s:R", p.ID(), hx(p.Value()))
}

func tokensOf(ps tls.TransportParameters) string {
	if len(ps) == 0 {
		return "-"
	}
	ss := make([]string, len(ps))
	for i, p := range ps {
		ss[i] = canonOf(p)
	}
	return strings.Join(ss, ",")
}

func parseIDs(s string) []uint64 {
	if s == "-" || s == "" {
		return nil
	}
	var out []uint64
	for _, f := range strings.Split(s, ",") {
		v, err := strconv.ParseUint(f, 10, 64)
		if err == nil {
			out = append(out, v)
		}
	}
	return out
}

func fmtIDs(ids []uint64) string {
	if len(ids) == 0 {
		return "-"
	}
	ss := make([]string, len(ids))
	for i, v := range ids {
		ss[i] = strconv.FormatUint(v, 10)
	}
	return strings.Join(ss, ",")
}

func fmtU16(v []uint16) string {
	if len(v) == 0 {
		return "-"
	}
	ss := make([]string, len(v))
	for i, x := range v {
		ss[i] = strconv.Itoa(int(x))
	}
	return strings.Join(ss, ",")
}

// extBytes returns what uTLS writes for the extension: 4-byte header and body.
func extBytes(e *tls.QUICTransportParametersExtension) (hdr, body []byte) {
	b := make([]byte, e.Len())
	n, err := e.Read(b)
	if err != io.EOF || n != len(b) || n < 4 {
		return nil, nil
	}
	return b[:4], b[4:]
}

// ---------------------------------------------------------------- built-in specs

var builtins = map[string]quic.QUICID{
	"QUICFirefox_116A": quic.QUICFirefox_116A, "QUICFirefox_116B": quic.QUICFirefox_116B, "QUICFirefox_116C": quic.QUICFirefox_116C,
	"QUICChrome_115_IPv4": quic.QUICChrome_115_IPv4, "QUICChrome_115_IPv6": quic.QUICChrome_115_IPv6,
	"QUICChrome_146_IPv4": quic.QUICChrome_146_IPv4, "QUICChrome_146_IPv6": quic.QUICChrome_146_IPv6,
	"QUICFirefox_116": quic.QUICFirefox_116, "QUICChrome_115": quic.QUICChrome_115, "QUICChrome_146": quic.QUICChrome_146,
}

var builtinNames = []string{"QUICFirefox_116A", "QUICFirefox_116B", "QUICFirefox_116C", "QUICChrome_115_IPv4",
	"QUICChrome_115_IPv6", "QUICChrome_146_IPv4", "QUICChrome_146_IPv6", "QUICFirefox_116", "QUICChrome_115", "QUICChrome_146"}

func qtpExt(spec *quic.QUICSpec) *tls.QUICTransportParametersExtension {
	if spec == nil || spec.ClientHelloSpec == nil {
		return nil
	}
	for _, e := range spec.ClientHelloSpec.Extensions {
		if q, ok := e.(*tls.QUICTransportParametersExtension); ok {
			return q
		}
	}
	return nil
}

// ---------------------------------------------------------------- runner

type runner struct {
	kind int // 0 function-level, 1 dials, 2 distribution
	// dial state
	spec    *quic.QUICSpec
	specID  quic.QUICID
	server  *net.UDPConn
	lastTok string // generator: last generated list
	tier    string
	issued  int
}

func newRunner(r *vh.Rand) vh.Runner {
	rn := &runner{tier: vh_tier()}
	rn.kind = r.Pick(62, 33, 5)
	return rn
}

func vh_tier() string {
	return strings.TrimSpace(strings.ToLower(getenv("VH_TIER", "quick")))
}

func (rn *runner) Close() {
	if rn.server != nil {
		rn.server.Close()
		rn.server = nil
	}
}

// ---------------------------------------------------------------- generators

var edgeVals = []uint64{0, 1, 63, 64, 16383, 16384, 1<<30 - 1, 1 << 30, 1<<62 - 1, 30000, 1472, 65536, 15728640, 100}

func genVal(r *vh.Rand) uint64 {
	if r.Chance(55) {
		return edgeVals[r.Intn(len(edgeVals))]
	}
	switch r.Intn(3) {
	case 0:
		return uint64(r.Range(0, 20000))
	case 1:
		return uint64(r.Range(0, 1<<32))
	}
	return r.U64() >> 2
}

func genGreaseID(r *vh.Rand) uint64 {
	switch r.Pick(30, 40, 20, 10) {
	case 0:
		return 27
	case 1:
		return 27 + 31*uint64(r.Range(1, 40))
	case 2:
		return 27 + 31*uint64(r.Range(1, 1<<40))
	}
	return 27 + 31*((1<<62-1-27)/31-uint64(r.Range(0, 3))) // the largest GREASE ids
}

// genToken: safe = acceptable to PopulateFromUQUIC without a panic (dial cases).
func genToken(r *vh.Rand, safe bool) string {
	switch r.Pick(34, 5, 4, 8, 4, 6, 15, 10, 8, 6) {
	case 0:
		return fmt.Sprintf("S%d=%d", stdIDs[r.Intn(len(stdIDs))], genVal(r))
	case 1:
		return "D"
	case 2:
		return "Q"
	case 3:
		n := r.Pick(40, 40, 15, 5)
		l := []int{0, int(r.Range(1, 8)), int(r.Range(9, 20)), int(r.Range(21, 30))}[n]
		if safe && l > 20 {
			l = 20
		}
		return "C=" + hx(r.Bytes(l))
	case 4:
		return "P=" + hx(r.Bytes(int(r.Range(0, 70))))
	case 5:
		s := fmt.Sprintf("V%d=%08x", r.Intn(2), []uint32{1, 0x6b3343cf, uint32(r.U64())}[r.Intn(3)])
		for k := r.Intn(4); k > 0; k-- {
			if r.Chance(40) {
				s += ";G"
			} else {
				s += fmt.Sprintf(";%08x", []uint32{1, 0x6b3343cf, 0xff00001d, uint32(r.U64())}[r.Intn(4)])
			}
		}
		return s
	case 6: // fake / raw
		var id uint64
		switch r.Pick(30, 25, 15, 15, 15) {
		case 0:
			id = []uint64{0x4752, 0x3128, 0x3127, 0x2ab2, 0xff73db, 0x11, 0x15, 0x0a, 0x02, 0x10}[r.Intn(10)]
		case 1:
			id = uint64(r.Range(1, 70)) // may be a recognised id (PopulateFromUQUIC's assertion panics) or 27/58
		case 2:
			id = genGreaseID(r) // a raw parameter that happens to carry a GREASE id
		case 3:
			id = uint64(r.Range(64, 20000))
		case 4:
			id = r.U64()>>2 | 1
		}
		if safe { // no raw parameter under an id uTLS has a dedicated type for (PopulateFromUQUIC type-asserts those)
			for _, sid := range stdIDs {
				if id == sid {
					id += 100
				}
			}
		}
		return fmt.Sprintf("F%d=%s", id, hx(r.Bytes([]int{0, 1, 2, 4, int(r.Range(0, 80))}[r.Intn(5)])))
	case 7:
		return fmt.Sprintf("G%d=%s", genGreaseID(r), hx(r.Bytes([]int{0, 1, int(r.Range(0, 20)), int(r.Range(60, 70))}[r.Intn(4)])))
	case 8:
		return fmt.Sprintf("G?%d", []int{0, 1, int(r.Range(0, 16)), int(r.Range(60, 300))}[r.Pick(20, 20, 50, 10)])
	default:
		return fmt.Sprintf("GV%d", []int{0, 1, 2, 16, int(r.Range(0, 100))}[r.Intn(5)])
	}
}

func genList(r *vh.Rand, safe bool) string {
	n := []int{0, 1, int(r.Range(2, 6)), int(r.Range(6, 14)), int(r.Range(14, 24))}[r.Pick(4, 8, 38, 40, 10)]
	var ts []string
	for i := 0; i < n; i++ {
		if len(ts) > 0 && r.Chance(12) { // duplicate of an earlier parameter (same token, or same id)
			t := ts[r.Intn(len(ts))]
			if strings.HasPrefix(t, "S") && r.Bool() {
				k, _, _ := strings.Cut(t, "=")
				t = fmt.Sprintf("%s=%d", k, genVal(r))
			}
			ts = append(ts, t)
			continue
		}
		t := genToken(r, safe)
		if safe && strings.HasPrefix(t, "V") { // dial lists: one version_information at most (see the oracle's matching)
			dup := false
			for _, o := range ts {
				dup = dup || strings.HasPrefix(o, "V")
			}
			if dup {
				continue
			}
		}
		ts = append(ts, t)
	}
	if len(ts) == 0 {
		return "-"
	}
	return strings.Join(ts, ",")
}

// idOfToken: the id a token will have if it is known without drawing (0 = unknown).
func idOfToken(t string) uint64 {
	key, _, _ := strings.Cut(t, "=")
	switch {
	case key == "D":
		return 12
	case key == "Q":
		return 0x2ab2
	case key == "C":
		return 15
	case key == "P":
		return 0x15
	case key == "V0":
		return 0x11
	case key == "V1":
		return 0xff73db
	case strings.HasPrefix(key, "G?"), strings.HasPrefix(key, "GV"):
		return 0
	case len(key) > 1:
		v, _ := strconv.ParseUint(key[1:], 10, 64)
		return v
	}
	return 0
}

func genSuppress(r *vh.Rand, list string) string {
	if r.Chance(15) {
		return "-"
	}
	var ids []uint64
	toks := strings.Split(list, ",")
	for k := r.Pick(30, 40, 20, 10); k > 0; k-- {
		switch r.Pick(55, 20, 25) {
		case 0: // an id present in the list
			if id := idOfToken(toks[r.Intn(len(toks))]); id != 0 {
				ids = append(ids, id)
			}
		case 1: // absent / arbitrary
			ids = append(ids, []uint64{0, 2, 13, 33, 57, 59, 26, 28, uint64(r.Range(0, 80)), r.U64() >> 2}[r.Intn(10)])
		case 2:
			ids = append(ids, 27)
		}
	}
	if r.Chance(10) && len(ids) > 0 {
		ids = append(ids, ids[0])
	}
	return fmtIDs(ids)
}

func (rn *runner) GenOp(r *vh.Rand, i int) string {
	rn.issued++
	switch rn.kind {
	case 0:
		list := genList(r, false)
		switch r.Pick(30, 22, 16, 14, 18) {
		case 0:
			return fmt.Sprintf("suppress %s %s", list, genSuppress(r, list))
		case 1:
			return fmt.Sprintf("ids %s %s", list, genSuppress(r, list))
		case 2:
			return "shuffle " + list
		case 3:
			return "marshal " + list
		default:
			return fmt.Sprintf("populate %s %s", list, hx(r.Bytes([]int{0, 3, 8, 20}[r.Intn(4)])))
		}
	case 1:
		if i == 0 || r.Chance(28) {
			base := builtinNames[r.Pick(10, 10, 10, 14, 10, 14, 10, 4, 4, 4)]
			list := "="
			if r.Chance(30) {
				list = genList(r, true)
			}
			sup := "-"
			if r.Chance(45) {
				if list == "=" {
					var ids []uint64
					for k := r.Pick(50, 35, 15) + 1; k > 0; k-- {
						ids = append(ids, []uint64{27, 32, 15, 1, 4, 0x3127, 0x4752, 0xff73db, 0x2ab2, 99, 12, 14, 58}[r.Intn(13)])
					}
					sup = fmtIDs(ids)
				} else {
					sup = genSuppress(r, list)
				}
			}
			// pin extension CONTENTS that differ from what the tls.Config (ServerName example.com, NextProtos h3) would
			// give: the ClientHello has to carry the spec's values
			pins := "-"
			if r.Chance(45) {
				var ps []string
				if r.Chance(60) {
					ps = append(ps, "sni="+[]string{"front.example.net", "a.b", "cdn-7.test", "x"}[r.Intn(4)])
				}
				if r.Chance(40) {
					ps = append(ps, "alpn="+[]string{"h3-29", "h3|h3-29", "hq-interop|h3", "x"}[r.Intn(4)])
				}
				if r.Chance(40) {
					ps = append(ps, fmt.Sprintf("grp=%d", 1+r.Intn(2)))
				}
				if r.Chance(30) {
					ps = append(ps, "ks=rev")
				}
				if len(ps) > 0 {
					pins = strings.Join(ps, ";")
				}
			}
			return fmt.Sprintf("spec %s %d %s %s %s", base, r.Intn(2), sup, list, pins)
		}
		// the life of one spec VALUE: inspections, edits of the suppression list / the parameter list / the
		// randomisation flag between dials, and dials whose first connection attempt is answered with a Version
		// Negotiation packet (UTransport.doDial then creates a second connection from the same spec)
		switch r.Pick(42, 16, 8, 7, 7, 5, 15) {
		case 1:
			return "tpids"
		case 2:
			return "setsup " + rn.genLifeSup(r)
		case 3:
			return "addsup " + rn.genLifeSup(r)
		case 4:
			return "addparam " + genSafeExtra(r)
		case 5:
			return fmt.Sprintf("setrand %d", r.Intn(2))
		case 6:
			return fmt.Sprintf("dialvn %d", r.Intn(2))
		}
		return "dial"
	default:
		if i > 1 {
			return ""
		}
		thorough := rn.tier == "thorough"
		if i == 0 {
			n := 2 + r.Intn(3)
			per := 60
			if thorough {
				per = 2000
			}
			return fmt.Sprintf("shufdist %d %d", n, per*fact(n))
		}
		n := 2 + r.Intn(2)
		per := 25
		if thorough {
			n = 2 + r.Intn(3)
			per = 40
		}
		return fmt.Sprintf("dialdist %s %d %d", builtinNames[r.Intn(7)], n, per*fact(n))
	}
}

// genLifeSup: a suppression list for an edit of the current spec: ids the built-in lists and the generated ones carry.
func (rn *runner) genLifeSup(r *vh.Rand) string {
	if r.Chance(12) {
		return "-"
	}
	var ids []uint64
	for k := r.Pick(45, 35, 20) + 1; k > 0; k-- {
		ids = append(ids, []uint64{27, 32, 15, 1, 4, 0x3127, 0x4752, 0xff73db, 0x2ab2, 99, 12, 14, 58, 8, 9, 11, 5, 6, 7, 7777}[r.Intn(20)])
	}
	return fmtIDs(ids)
}

// genSafeExtra: one more parameter for the spec's list that PopulateFromUQUIC accepts and that keeps the list's
// recognised integer ids unique (a fingerprinter's view of a repeated id depends on the order).
func genSafeExtra(r *vh.Rand) string {
	switch r.Pick(40, 25, 20, 15) {
	case 0:
		return fmt.Sprintf("F%d=%s", []uint64{7777, 0x4752, 0x3128, 99, 20000 + uint64(r.Intn(50))}[r.Intn(5)], hx(r.Bytes(r.Intn(5))))
	case 1:
		return fmt.Sprintf("G%d=%s", genGreaseID(r), hx(r.Bytes(r.Intn(4))))
	case 2:
		return fmt.Sprintf("G?%d", r.Intn(6))
	}
	return "Q"
}

func fact(n int) int {
	f := 1
	for i := 2; i <= n; i++ {
		f *= i
	}
	return f
}

// ---------------------------------------------------------------- Exec

func (rn *runner) AfterPanic(op string) string { return "PANIC" }

func (rn *runner) Exec(op string) string {
	f := strings.Fields(op)
	if len(f) == 0 {
		return "bad-op"
	}
	switch f[0] {
	case "suppress":
		if len(f) != 3 {
			return "bad-op"
		}
		ps, ok := parseTokens(f[1])
		if !ok {
			return "bad-op"
		}
		in := tokensOf(ps)
		ext := &tls.QUICTransportParametersExtension{TransportParameters: ps}
		ids := parseIDs(f[2])
		ret := quic.SuppressQUICTransportParameters(ext, ids)
		out := tokensOf(ret.TransportParameters)
		quic.SuppressQUICTransportParameters(ext, ids)
		return fmt.Sprintf("in=%s out=%s again=%s", in, out, tokensOf(ext.TransportParameters))
	case "ids":
		if len(f) != 3 {
			return "bad-op"
		}
		ps, ok := parseTokens(f[1])
		if !ok {
			return "bad-op"
		}
		in := tokensOf(ps)
		ext := &tls.QUICTransportParametersExtension{TransportParameters: ps}
		spec := &quic.QUICSpec{
			ClientHelloSpec:             &tls.ClientHelloSpec{Extensions: []tls.TLSExtension{&tls.SNIExtension{}, ext, &tls.ALPNExtension{AlpnProtocols: []string{"h3"}}}},
			SuppressTransportParameters: parseIDs(f[2]),
		}
		got := spec.TransportParameterIDs()
		return fmt.Sprintf("in=%s ids=%s left=%s", in, fmtIDs(got), tokensOf(ext.TransportParameters))
	case "shuffle":
		if len(f) != 2 {
			return "bad-op"
		}
		ps, ok := parseTokens(f[1])
		if !ok {
			return "bad-op"
		}
		in := tokensOf(ps)
		ext := &tls.QUICTransportParametersExtension{TransportParameters: ps}
		ret := quic.ShuffleQUICTransportParameters(ext)
		return fmt.Sprintf("in=%s out=%s", in, tokensOf(ret.TransportParameters))
	case "marshal":
		if len(f) != 2 {
			return "bad-op"
		}
		ps, ok := parseTokens(f[1])
		if !ok {
			return "bad-op"
		}
		in := tokensOf(ps)
		hdr, body := extBytes(&tls.QUICTransportParametersExtension{TransportParameters: ps})
		return fmt.Sprintf("in=%s hdr=%s b=%s", in, hx(hdr), hx(body))
	case "populate":
		if len(f) != 3 {
			return "bad-op"
		}
		ps, ok := parseTokens(f[1])
		if !ok {
			return "bad-op"
		}
		in := tokensOf(ps)
		scid := unhex(f[2])
		if len(scid) > 20 {
			return "bad-op"
		}
		ext := &tls.QUICTransportParametersExtension{TransportParameters: ps}
		tp := &wire.TransportParameters{InitialSourceConnectionID: protocol.ParseConnectionID(scid)}
		tp.PopulateFromUQUIC(ext.TransportParameters)
		_, body := extBytes(ext)
		dm := 0
		if tp.DisableActiveMigration {
			dm = 1
		}
		return fmt.Sprintf("in=%s n=%d,%d,%d,%d,%d,%d,%d,%d,%d,%d,%d dm=%d scid=%s ov=%s wire=%s left=%s", in,
			int64(tp.MaxIdleTimeout), int64(tp.MaxUDPPayloadSize), int64(tp.InitialMaxData), int64(tp.InitialMaxStreamDataBidiLocal),
			int64(tp.InitialMaxStreamDataBidiRemote), int64(tp.InitialMaxStreamDataUni), int64(tp.MaxBidiStreamNum),
			int64(tp.MaxUniStreamNum), int64(tp.MaxAckDelay), tp.ActiveConnectionIDLimit, int64(tp.MaxDatagramFrameSize),
			dm, hx(tp.InitialSourceConnectionID.Bytes()), hx(tp.ClientOverride), hx(body), tokensOf(ext.TransportParameters))
	case "spec":
		if len(f) != 5 && len(f) != 6 {
			return "bad-op"
		}
		id, ok := builtins[f[1]]
		if !ok {
			return "bad-op"
		}
		spec, err := quic.QUICID2Spec(id)
		if err != nil {
			return "E:spec"
		}
		ext := qtpExt(&spec)
		if ext == nil {
			return "E:noqtp"
		}
		if f[4] != "=" {
			ps, ok := parseTokens(f[4])
			if !ok {
				return "bad-op"
			}
			ext.TransportParameters = ps
		}
		spec.RandomizeTransportParameters = f[2] == "1"
		spec.SuppressTransportParameters = parseIDs(f[3])
		if len(f) == 6 && !applyPins(&spec, f[5]) {
			return "bad-op"
		}
		rn.spec, rn.specID = &spec, id
		return fmt.Sprintf("in=%s cs=%s want=%s scidlen=%d", tokensOf(ext.TransportParameters),
			fmtU16(spec.ClientHelloSpec.CipherSuites), id.Fingerprint, spec.InitialPacketSpec.SrcConnIDLength)
	case "tpids":
		if rn.spec == nil {
			return "skip"
		}
		ids := rn.spec.TransportParameterIDs()
		left := "-"
		if e := qtpExt(rn.spec); e != nil {
			left = tokensOf(e.TransportParameters)
		}
		return "ids=" + fmtIDs(ids) + " left=" + left
	case "setsup", "addsup":
		if len(f) != 2 {
			return "bad-op"
		}
		if rn.spec == nil || qtpExt(rn.spec) == nil {
			return "skip"
		}
		ids := parseIDs(f[1])
		if f[0] == "setsup" {
			rn.spec.SuppressTransportParameters = ids
		} else {
			rn.spec.SuppressTransportParameters = append(rn.spec.SuppressTransportParameters, ids...)
		}
		return fmt.Sprintf("sup=%s list=%s", fmtIDs(rn.spec.SuppressTransportParameters), tokensOf(qtpExt(rn.spec).TransportParameters))
	case "addparam":
		if len(f) != 2 {
			return "bad-op"
		}
		if rn.spec == nil || qtpExt(rn.spec) == nil {
			return "skip"
		}
		tp := parseToken(f[1])
		if tp == nil {
			return "bad-op"
		}
		ext := qtpExt(rn.spec)
		ext.TransportParameters = append(ext.TransportParameters, tp)
		return fmt.Sprintf("in=%s list=%s", canonOf(tp), tokensOf(ext.TransportParameters))
	case "setrand":
		if len(f) != 2 || (f[1] != "0" && f[1] != "1") {
			return "bad-op"
		}
		if rn.spec == nil {
			return "skip"
		}
		rn.spec.RandomizeTransportParameters = f[1] == "1"
		return "rand=" + f[1]
	case "dial", "dialvn":
		if rn.spec == nil {
			return "skip"
		}
		vn := 0
		if f[0] == "dialvn" {
			if len(f) != 2 || (f[1] != "0" && f[1] != "1") {
				return "bad-op"
			}
			vn = 1 + int(f[1][0]-'0')
		} else if len(f) != 1 {
			return "bad-op"
		}
		snap := snapshotSpec(rn.spec) // the spec's extension values as they are BEFORE the dial
		ds, derr := rn.dial(rn.spec, vn)
		if derr != "" {
			return derr
		}
		// the LAST connection attempt is printed with the plain keys; the abandoned first attempt of a dial that was
		// answered with Version Negotiation follows with every key prefixed by `1`
		var parts []string
		for i := len(ds) - 1; i >= 0; i-- {
			d := ds[i]
			ov := "?"
			if d.hasOv {
				ov = hx(d.ov)
			}
			one := fmt.Sprintf("cs=%s exts=%s sexts=%s qtp=%s scid=%s frames=%s fp=%s rec=%s ov=%s snap=%s ssni=%s csni=%s sks=%s xb=%s wks=%s kx=%s rnd=%s ver=%x after=%s", fmtU16(d.cs), fmtU16(d.exts),
				fmtU16(specExtTypes(rn.spec)), hx(d.qtp), hx(d.scid), fmtIDs(d.frames), d.fp, d.rec, ov,
				snap.bodies, hx([]byte(snap.sni)), hx([]byte(dialServerName)), fmtU16(snap.ksGroups), wireBodies(d.bodies, snap.types), keyShareGroups(d.bodies),
				keyShareKeys(d.bodies), hx(d.random), d.version, tokensOf(qtpExt(rn.spec).TransportParameters))
			if i != len(ds)-1 {
				ws := strings.Fields(one)
				for k := range ws {
					ws[k] = "1" + ws[k]
				}
				one = strings.Join(ws, " ")
			}
			parts = append(parts, one)
		}
		return strings.Join(parts, " ")
	case "shufdist":
		if len(f) != 3 {
			return "bad-op"
		}
		n, _ := strconv.Atoi(f[1])
		N, _ := strconv.Atoi(f[2])
		if n < 1 || n > 5 || N < 1 || N > 5_000_000 {
			return "bad-op"
		}
		counts := make([]int, fact(n))
		for k := 0; k < N; k++ {
			ps := make(tls.TransportParameters, n)
			for i := range ps {
				ps[i] = &tls.FakeQUICTransportParameter{Id: uint64(1000 + i), Val: []byte{byte(i)}}
			}
			ext := quic.ShuffleQUICTransportParameters(&tls.QUICTransportParametersExtension{TransportParameters: ps})
			perm := make([]int, n)
			for i, p := range ext.TransportParameters {
				perm[i] = int(p.ID() - 1000)
			}
			idx := permIndex(perm)
			if idx < 0 {
				return "E:notperm"
			}
			counts[idx]++
		}
		return "c=" + fmtInts(counts)
	case "dialdist":
		if len(f) != 4 {
			return "bad-op"
		}
		id, ok := builtins[f[1]]
		n, _ := strconv.Atoi(f[2])
		N, _ := strconv.Atoi(f[3])
		if !ok || n < 1 || n > 4 || N < 1 || N > 100000 {
			return "bad-op"
		}
		counts := make([]int, fact(n))
		for k := 0; k < N; k++ {
			spec, err := quic.QUICID2Spec(id)
			if err != nil {
				return "E:spec"
			}
			ps := make(tls.TransportParameters, n)
			for i := range ps {
				ps[i] = &tls.FakeQUICTransportParameter{Id: uint64(1000 + i), Val: []byte{byte(i)}}
			}
			qtpExt(&spec).TransportParameters = ps
			spec.RandomizeTransportParameters = true
			ds, derr := rn.dial(&spec, 0)
			if derr != "" {
				return derr
			}
			d := ds[0]
			perm, ok := idsOfBody(d.qtp)
			if !ok || len(perm) != n {
				return "E:wire"
			}
			for i := range perm {
				perm[i] -= 1000
			}
			idx := permIndex(perm)
			if idx < 0 {
				return "E:notperm"
			}
			counts[idx]++
		}
		return "c=" + fmtInts(counts)
	}
	return "bad-op"
}

func fmtInts(v []int) string {
	ss := make([]string, len(v))
	for i, x := range v {
		ss[i] = strconv.Itoa(x)
	}
	return strings.Join(ss, ",")
}

// permIndex: lexicographic rank of a permutation of 0..n-1 (-1 if it is not one).
func permIndex(p []int) int {
	n := len(p)
	seen := make([]bool, n)
	idx := 0
	for i, x := range p {
		if x < 0 || x >= n || seen[x] {
			return -1
		}
		seen[x] = true
		smaller := 0
		for y := 0; y < x; y++ {
			if !seen[y] {
				smaller++
			}
		}
		idx += smaller * fact(n-1-i)
	}
	return idx
}

// idsOfBody reads the ids of an extension body (only used for the distribution counts).
func idsOfBody(b []byte) ([]int, bool) {
	var out []int
	rd := func() (uint64, bool) {
		if len(b) == 0 {
			return 0, false
		}
		l := 1 << (b[0] >> 6)
		if len(b) < l {
			return 0, false
		}
		v := uint64(b[0] & 0x3f)
		for _, x := range b[1:l] {
			v = v<<8 | uint64(x)
		}
		b = b[l:]
		return v, true
	}
	for len(b) > 0 {
		id, ok := rd()
		if !ok {
			return nil, false
		}
		l, ok := rd()
		if !ok || uint64(len(b)) < l {
			return nil, false
		}
		b = b[l:]
		out = append(out, int(id))
	}
	return out, true
}

// specExtTypes: the extension types of the spec's extension list, read back from the extension values
// after the dial (uTLS filled in key shares, SNI, GREASE values); extensions of length 0 are not sent.
func specExtTypes(spec *quic.QUICSpec) (out []uint16) {
	defer func() {
		if recover() != nil {
			out = nil
		}
	}()
	for _, e := range spec.ClientHelloSpec.Extensions {
		if _, ok := e.(*tls.SNIExtension); ok {
			out = append(out, 0) // filled in from tls.Config.ServerName (the dial works on a copy of this extension)
			continue
		}
		n := e.Len()
		if n < 4 {
			continue
		}
		b := make([]byte, n)
		if _, err := e.Read(b); err != nil && err != io.EOF {
			out = append(out, 0xffff)
			continue
		}
		out = append(out, uint16(b[0])<<8|uint16(b[1]))
	}
	return out
}

// ---------------------------------------------------------------- one dial, captured

type dialResult struct {
	err    string
	cs     []uint16
	exts   []uint16
	qtp    []byte
	scid   []byte
	frames []uint64
	fp     string
	rec    string // the connection's own transport parameters as it logged them (qlog parameters_set, local)
	ov     []byte // the connection's ClientOverride
	hasOv  bool
	bodies []extBody // every extension of the ClientHello, in wire order
	random  []byte   // ClientHello.random
	version uint32   // QUIC version of the Initial packets
}

type extBody struct {
	typ  uint16
	body []byte
}

const dialServerName = "example.com"

// specSnapshot: what the spec says about the extensions whose content does not depend on the connection, taken
// before a dial. Bodies are read from the spec's own extension values (uTLS's Len/Read are pure for these types).
type specSnapshot struct {
	bodies   string            // <type>:<body hex>,… for the connection-independent extensions
	types    map[uint16]bool   // their types (plus server_name)
	sni      string            // the spec's pinned server name ("" = take the tls.Config's)
	ksGroups []uint16          // key_share: the groups, in order (keys are per connection)
}

func snapshotSpec(spec *quic.QUICSpec) (sn specSnapshot) {
	sn.types = map[uint16]bool{0: true}
	var parts []string
	for _, e := range spec.ClientHelloSpec.Extensions {
		switch x := e.(type) {
		case *tls.SNIExtension:
			sn.sni = x.ServerName
			continue
		case *tls.KeyShareExtension:
			for _, k := range x.KeyShares {
				sn.ksGroups = append(sn.ksGroups, uint16(k.Group))
			}
			continue
		case *tls.QUICTransportParametersExtension, *tls.UtlsPaddingExtension, *tls.UtlsGREASEExtension,
			*tls.GREASEEncryptedClientHelloExtension, *tls.UtlsPreSharedKeyExtension, *tls.FakePreSharedKeyExtension:
			continue // per-connection content (checked elsewhere, or random by design)
		}
		func() {
			defer func() { recover() }() //nolint:errcheck
			n := e.Len()
			if n < 4 {
				return
			}
			b := make([]byte, n)
			if _, err := e.Read(b); err != nil && err != io.EOF {
				return
			}
			t := uint16(b[0])<<8 | uint16(b[1])
			sn.types[t] = true
			parts = append(parts, fmt.Sprintf("%d:%s", t, hx(b[4:])))
		}()
	}
	sn.bodies = "-"
	if len(parts) > 0 {
		sn.bodies = strings.Join(parts, ",")
	}
	return sn
}

func wireBodies(bs []extBody, types map[uint16]bool) string {
	var parts []string
	for _, b := range bs {
		if types[b.typ] {
			parts = append(parts, fmt.Sprintf("%d:%s", b.typ, hx(b.body)))
		}
	}
	if len(parts) == 0 {
		return "-"
	}
	return strings.Join(parts, ",")
}

// keyShareGroups: `<group>:<key length>` of every entry of the key_share extension (51) on the wire.
func keyShareGroups(bs []extBody) string {
	for _, b := range bs {
		if b.typ != 51 || len(b.body) < 2 {
			continue
		}
		p := b.body[2:]
		var parts []string
		for len(p) >= 4 {
			g := int(p[0])<<8 | int(p[1])
			l := int(p[2])<<8 | int(p[3])
			if len(p) < 4+l {
				return "?"
			}
			parts = append(parts, fmt.Sprintf("%d:%d", g, l))
			p = p[4+l:]
		}
		if len(parts) == 0 {
			return "-"
		}
		return strings.Join(parts, ",")
	}
	return "-"
}

// keyShareKeys: a digest of the key_share extension body (the public keys of this connection attempt), `-` if absent.
func keyShareKeys(bs []extBody) string {
	for _, b := range bs {
		if b.typ == 51 && len(b.body) > 6 { // more than a list of empty shares
			d := sha256.Sum256(b.body)
			return hx(d[:12])
		}
	}
	return "-"
}

// applyPins rewrites extension contents of a freshly built spec: sni=<name>; alpn=<p|q>; grp=<k> (rotate the
// supported groups by k); ks=rev (reverse the key shares).
func applyPins(spec *quic.QUICSpec, pins string) bool {
	if pins == "-" || pins == "" {
		return true
	}
	for _, pin := range strings.Split(pins, ";") {
		k, v, _ := strings.Cut(pin, "=")
		for _, e := range spec.ClientHelloSpec.Extensions {
			switch x := e.(type) {
			case *tls.SNIExtension:
				if k == "sni" {
					x.ServerName = v
				}
			case *tls.ALPNExtension:
				if k == "alpn" {
					x.AlpnProtocols = strings.Split(v, "|")
				}
			case *tls.SupportedCurvesExtension:
				if k == "grp" && len(x.Curves) > 1 {
					n, err := strconv.Atoi(v)
					if err != nil || n < 0 {
						return false
					}
					n %= len(x.Curves)
					x.Curves = append(append([]tls.CurveID(nil), x.Curves[n:]...), x.Curves[:n]...)
				}
			case *tls.KeyShareExtension:
				if k == "ks" && v == "rev" {
					for i, j := 0, len(x.KeyShares)-1; i < j; i, j = i+1, j-1 {
						x.KeyShares[i], x.KeyShares[j] = x.KeyShares[j], x.KeyShares[i]
					}
				}
			}
		}
		switch k {
		case "sni", "alpn", "grp", "ks":
		default:
			return false
		}
	}
	return true
}

// recTrace records the connection's transport:parameters_set event for its own parameters.
type recTrace struct {
	mu  sync.Mutex
	rec string
}

func (t *recTrace) AddProducer() qlogwriter.Recorder { return t }
func (t *recTrace) SupportsSchemas(string) bool       { return true }
func (t *recTrace) Close() error                      { return nil }
func (t *recTrace) RecordEvent(ev qlogwriter.Event) {
	ps, ok := ev.(qlog.ParametersSet)
	if !ok || ps.Initiator != qlog.InitiatorLocal || ps.Restore {
		return
	}
	dm := 0
	if ps.DisableActiveMigration {
		dm = 1
	}
	t.mu.Lock()
	defer t.mu.Unlock()
	if t.rec != "" {
		return
	}
	t.rec = fmt.Sprintf("%d,%d,%d,%d,%d,%d,%d,%d,%d,%d,%d;%d;%s", int64(ps.MaxIdleTimeout), int64(ps.MaxUDPPayloadSize), int64(ps.InitialMaxData),
		int64(ps.InitialMaxStreamDataBidiLocal), int64(ps.InitialMaxStreamDataBidiRemote), int64(ps.InitialMaxStreamDataUni),
		ps.InitialMaxStreamsBidi, ps.InitialMaxStreamsUni, int64(ps.MaxAckDelay), ps.ActiveConnectionIDLimit,
		int64(ps.MaxDatagramFrameSize), dm, hx(ps.InitialSourceConnectionID.Bytes()))
}

// recTraces hands every connection attempt of a dial (doDial asks the Tracer once per attempt) its own recorder.
type recTraces struct {
	mu sync.Mutex
	l  []*recTrace
}

func (ts *recTraces) next() *recTrace {
	ts.mu.Lock()
	defer ts.mu.Unlock()
	t := &recTrace{}
	ts.l = append(ts.l, t)
	return t
}

func (ts *recTraces) rec(i int) string {
	ts.mu.Lock()
	defer ts.mu.Unlock()
	if i >= len(ts.l) {
		return "-"
	}
	ts.l[i].mu.Lock()
	defer ts.l[i].mu.Unlock()
	if ts.l[i].rec == "" {
		return "-"
	}
	return ts.l[i].rec
}

// dial runs one UTransport.Dial against the silent socket and returns what every connection attempt put on the
// wire. vn = 0: one attempt. vn = 1: the client offers [Version1, Version2] and the first flight is answered with a
// Version Negotiation packet listing only Version2; vn = 2: [Version2, Version1], only Version1 is offered back.
// UTransport.doDial then abandons the connection and creates a second one (from the same QUICSpec) whose flight is
// collected as the second attempt.
func (rn *runner) dial(spec *quic.QUICSpec, vn int) (out []dialResult, errs string) {
	if rn.server == nil {
		s, err := net.ListenUDP("udp", &net.UDPAddr{IP: net.IPv4(127, 0, 0, 1)})
		if err != nil {
			return nil, "E:listen"
		}
		rn.server = s
	}
	clientConn, err := net.ListenUDP("udp", &net.UDPAddr{IP: net.IPv4(127, 0, 0, 1)})
	if err != nil {
		return nil, "E:listen"
	}
	tr := &quic.UTransport{Transport: &quic.Transport{Conn: clientConn}, QUICSpec: spec}
	traces := &recTraces{}
	quic.VerifTakeOwnOverride()
	conf := &quic.Config{Tracer: func(context.Context, bool, quic.ConnectionID) qlogwriter.Trace { return traces.next() }}
	versions := []protocol.Version{protocol.Version1}
	switch vn {
	case 1:
		versions = []protocol.Version{protocol.Version1, protocol.Version2}
	case 2:
		versions = []protocol.Version{protocol.Version2, protocol.Version1}
	}
	if vn != 0 {
		conf.Versions = versions
	}
	ctx, cancel := context.WithTimeout(context.Background(), 40*time.Second)
	done := make(chan string, 1)
	go func() {
		defer func() {
			if e := recover(); e != nil {
				if os.Getenv("VH_DEBUG") != "" {
					fmt.Fprintf(os.Stderr, "dial panic: %v\n", e)
				}
				done <- "PANIC"
				return
			}
			done <- ""
		}()
		tr.Dial(ctx, rn.server.LocalAddr(), &tls.Config{InsecureSkipVerify: true, ServerName: dialServerName, NextProtos: []string{"h3"}}, conf) //nolint:errcheck
	}()
	defer func() {
		cancel()
		select {
		case p := <-done:
			if p != "" && errs == "" {
				errs = p
			}
		case <-time.After(10 * time.Second):
			errs = "E:dialhang"
		}
		if errs == "PANIC" || errs == "E:dialhang" {
			clientConn.Close() // the panic unwound through Transport.dial with its mutex held: Close would block forever
			return
		}
		tr.Transport.Close()
		clientConn.Close()
	}()

	for attempt, v := range versions {
		res, vnReply, e := rn.collect(spec, clientConn, done, v, attempt == 0)
		if e != "" {
			return nil, e
		}
		res.ov, res.hasOv = quic.VerifTakeOwnOverride()
		res.rec = traces.rec(attempt)
		res.version = uint32(v)
		out = append(out, res)
		if attempt == len(versions)-1 {
			break
		}
		// answer with Version Negotiation: only the client's other version is on offer
		if _, err := rn.server.WriteTo(wire.ComposeVersionNegotiation(vnReply.dst, vnReply.src, []protocol.Version{versions[1]}), clientConn.LocalAddr()); err != nil {
			return nil, "E:vnsend"
		}
	}
	return out, ""
}

type vnAddr struct{ dst, src protocol.ArbitraryLenConnectionID }

// collect reads the client's Initial flight of QUIC version v until the ClientHello is complete.
func (rn *runner) collect(spec *quic.QUICSpec, clientConn *net.UDPConn, done chan string, v protocol.Version, first bool) (res dialResult, reply vnAddr, errs string) {
	from := clientConn.LocalAddr().String()
	asm := reassembler{only: v}
	gci := clienthellod.GatherClientInitialsWithDeadline(time.Now().Add(time.Minute))
	chdOK := first
	frameSet := map[uint64]bool{}
	deadline := time.Now().Add(20 * time.Second)
	buf := make([]byte, 4096)
	for {
		rn.server.SetReadDeadline(time.Now().Add(50 * time.Millisecond))
		n, addr, err := rn.server.ReadFrom(buf)
		if err != nil {
			select {
			case p := <-done:
				done <- p
				if p != "" {
					return dialResult{}, reply, p
				}
			default:
			}
			if time.Now().After(deadline) {
				return dialResult{}, reply, "E:timeout"
			}
			continue
		}
		if addr.String() != from {
			continue // a straggler of an earlier dial
		}
		dg := append([]byte(nil), buf[:n]...)
		before := len(asm.pns)
		scid, fts, perr := asm.addDatagram(dg)
		if perr != "" {
			return dialResult{}, reply, perr
		}
		if len(asm.pns) == before {
			continue // nothing of this attempt in the datagram (a retransmission of the abandoned attempt)
		}
		if res.scid == nil {
			res.scid = scid
			reply = vnAddr{dst: protocol.ArbitraryLenConnectionID(scid), src: protocol.ArbitraryLenConnectionID(asm.dcid)}
		}
		for _, t := range fts {
			frameSet[t] = true
		}
		if chdOK {
			ci, err := clienthellod.UnmarshalQUICClientInitialPacket(append([]byte(nil), dg...))
			if err != nil || gci.AddPacket(ci) != nil {
				chdOK = false
			}
		}
		if ch := asm.clientHello(); ch != nil {
			cs, exts, body, bodies, ok := splitClientHello(ch)
			if !ok {
				return dialResult{}, reply, "E:chparse"
			}
			res.cs, res.exts, res.qtp, res.bodies = cs, exts, body, bodies
			res.random = append([]byte{}, ch[6:38]...)
			break
		}
	}
	// Only the first flight is a fingerprint: if a datagram was lost or a retransmission slipped in, the
	// packet numbers are not first, first+1, … and frame types / fingerprint are not reported. The flight of a
	// connection re-created after Version Negotiation continues the packet numbers and is not a reference flight.
	firstFlight := first
	for i, pn := range asm.pns {
		if pn != int64(spec.InitialPacketSpec.InitPacketNumber)+int64(i) {
			firstFlight = false
		}
	}
	if !firstFlight {
		chdOK = false
		frameSet = map[uint64]bool{}
	}
	for t := range frameSet {
		res.frames = append(res.frames, t)
	}
	sort.Slice(res.frames, func(i, j int) bool { return res.frames[i] < res.frames[j] })
	res.fp = "-"
	if chdOK && gci.Completed() {
		if fp, err := clienthellod.GenerateQUICFingerprint(gci); err == nil {
			res.fp = fp.HexID
		}
	}
	return res, reply, ""
}

// reassembler decrypts client Initial packets (RFC 9001 §5) and collects their CRYPTO frames.
type reassembler struct {
	chunks map[uint64][]byte
	pns    []int64          // packet numbers of the Initial packets seen, in arrival order
	only   protocol.Version // Initial packets of other QUIC versions are skipped (0: take all)
	dcid   []byte           // destination connection ID of the first Initial packet taken
}

func (a *reassembler) addDatagram(dg []byte) (scid []byte, frameTypes []uint64, perr string) {
	data := dg
	for len(data) > 0 {
		if !wire.IsLongHeaderPacket(data[0]) {
			break // padding after the packets
		}
		hdr, pkt, rest, err := wire.ParsePacket(data)
		if err != nil {
			return nil, nil, "E:hdr"
		}
		data = rest
		if hdr.Type != protocol.PacketTypeInitial || (a.only != 0 && hdr.Version != a.only) {
			continue
		}
		if a.dcid == nil {
			a.dcid = append([]byte{}, hdr.DestConnectionID.Bytes()...)
		}
		if scid == nil {
			scid = append([]byte{}, hdr.SrcConnectionID.Bytes()...)
		}
		_, opener := handshake.NewInitialAEAD(hdr.DestConnectionID, protocol.PerspectiveServer, hdr.Version)
		pnOff := int(hdr.ParsedLen())
		if len(pkt) < pnOff+4+16 {
			return nil, nil, "E:short"
		}
		raw := append([]byte(nil), pkt...)
		pnBytes := raw[pnOff : pnOff+4]
		opener.DecryptHeader(raw[pnOff+4:pnOff+4+16], &raw[0], pnBytes)
		pnLen := int(raw[0]&0b11) + 1
		var pn protocol.PacketNumber
		for _, b := range raw[pnOff : pnOff+pnLen] {
			pn = pn<<8 | protocol.PacketNumber(b)
		}
		// only the first pnLen bytes of the sample-masked field belong to the packet number
		copy(raw[pnOff+pnLen:pnOff+4], pkt[pnOff+pnLen:pnOff+4])
		payload, err := opener.Open(nil, raw[pnOff+pnLen:], pn, raw[:pnOff+pnLen])
		if err != nil {
			return nil, nil, "E:open"
		}
		a.pns = append(a.pns, int64(pn))
		fts, ok := a.frames(payload)
		if !ok {
			return nil, nil, "E:frames"
		}
		frameTypes = append(frameTypes, fts...)
	}
	return scid, frameTypes, ""
}

func readVarint(b []byte) (uint64, int, bool) {
	if len(b) == 0 {
		return 0, 0, false
	}
	l := 1 << (b[0] >> 6)
	if len(b) < l {
		return 0, 0, false
	}
	v := uint64(b[0] & 0x3f)
	for _, x := range b[1:l] {
		v = v<<8 | uint64(x)
	}
	return v, l, true
}

func (a *reassembler) frames(p []byte) ([]uint64, bool) {
	var types []uint64
	for len(p) > 0 {
		t, n, ok := readVarint(p)
		if !ok {
			return nil, false
		}
		p = p[n:]
		types = append(types, t)
		switch t {
		case 0, 1: // PADDING, PING
		case 6: // CRYPTO
			off, n1, ok1 := readVarint(p)
			if !ok1 {
				return nil, false
			}
			l, n2, ok2 := readVarint(p[n1:])
			if !ok2 || uint64(len(p)-n1-n2) < l {
				return nil, false
			}
			if a.chunks == nil {
				a.chunks = map[uint64][]byte{}
			}
			d := p[n1+n2 : n1+n2+int(l)]
			if old, ok := a.chunks[off]; !ok || len(old) < len(d) {
				a.chunks[off] = append([]byte(nil), d...)
			}
			p = p[n1+n2+int(l):]
		default:
			return nil, false // a client's first flight holds nothing else
		}
	}
	return types, true
}

// clientHello returns the complete handshake message once every byte of it has arrived.
func (a *reassembler) clientHello() []byte {
	var offs []uint64
	for o := range a.chunks {
		offs = append(offs, o)
	}
	sort.Slice(offs, func(i, j int) bool { return offs[i] < offs[j] })
	var out []byte
	for _, o := range offs {
		c := a.chunks[o]
		if o > uint64(len(out)) {
			return nil
		}
		if o+uint64(len(c)) > uint64(len(out)) {
			out = append(out, c[uint64(len(out))-o:]...)
		}
	}
	if len(out) < 4 || out[0] != 1 {
		return nil
	}
	l := int(out[1])<<16 | int(out[2])<<8 | int(out[3])
	if len(out) < 4+l {
		return nil
	}
	return out[:4+l]
}

// splitClientHello: cipher suites, extension types in order, body of quic_transport_parameters (57).
func splitClientHello(ch []byte) (cs, exts []uint16, qtp []byte, bodies []extBody, ok bool) {
	defer func() {
		if recover() != nil {
			ok = false
		}
	}()
	p := ch[4+2+32:]
	p = p[1+int(p[0]):]
	n := int(p[0])<<8 | int(p[1])
	for i := 0; i+1 < n; i += 2 {
		cs = append(cs, uint16(p[2+i])<<8|uint16(p[3+i]))
	}
	p = p[2+n:]
	p = p[1+int(p[0]):]
	n = int(p[0])<<8 | int(p[1])
	p = p[2 : 2+n]
	found := false
	for len(p) > 0 {
		t := uint16(p[0])<<8 | uint16(p[1])
		l := int(p[2])<<8 | int(p[3])
		exts = append(exts, t)
		bodies = append(bodies, extBody{t, append([]byte{}, p[4:4+l]...)})
		if t == 57 && !found {
			qtp = append([]byte{}, p[4:4+l]...)
			found = true
		}
		p = p[4+l:]
	}
	return cs, exts, qtp, bodies, found
}

func getenv(k, def string) string {
	if v := strings.TrimSpace(os.Getenv(k)); v != "" {
		return v
	}
	return def
}

func TestDriver(t *testing.T) { vh.Main(t, "qtp", newRunner) }
