//go:build verif

// Package rcve2e is the end-to-end TRACE driver of C07: a real server and a real client (plain quic.Transport) run
// over harness/e2e (simnet inside a testing/synctest bubble: virtual time, scripted drop/dup/delay faults) with a qlog
// recorder on BOTH endpoints; every packet sent / received / dropped-as-duplicate, every ACK frame, key discards and
// the connection close are emitted with their virtual timestamps, and the oracle (lean/Oracle/RcvE2e.lean) judges the
// property on each endpoint's own trace (ghost state from the trace only). Support for the proof-level check of the
// received-packet handler: it covers the GLUE (run loop, timer, packer, registration of sent packets) that no model has.
//
//	start rtt=<ms> chain=<0|1> F=<fault,...|->    fault = <c|s><datagram index><x|u|y<ms>>  (c: client→server; x drop, u dup, y delay)
//	sw <n> / cw <n>                               the server / client application writes n bytes on the stream
//	run <ms>                                      virtual time passes
//
// result: `ok T=<µs> c=<events|-> s=<events|->` with the events of the client's and server's connection since the previous op:
//
//	R<µs>/<I|H|A><pn>/<ae>[/k<s-l+s-l…>]   packet received (and processed), ack-eliciting?, ranges of the ACK frame it carries
//	S<µs>/<I|H|A><pn>/<ae>[/k<s-l+…>]      packet sent, ranges of the ACK frame it carries
//	D<µs>/<I|H|A><pn>                      packet dropped as duplicate
//	X<µs>/<I|H>                            keys of that space discarded
//	C<µs>                                  connection closed
package rcve2e

import (
	"context"
	"crypto/x509"
	"fmt"
	"io"
	"os"
	"strconv"
	"strings"
	"sync"
	"testing"
	"testing/synctest"
	"time"

	quic "github.com/refraction-networking/uquic"
	"github.com/refraction-networking/uquic/integrationtests/tools"
	"github.com/refraction-networking/uquic/internal/verifharness/e2e"
	"github.com/refraction-networking/uquic/internal/verifharness/vh"
	"github.com/refraction-networking/uquic/qlog"
	"github.com/refraction-networking/uquic/qlogwriter"
	tls "github.com/refraction-networking/utls"
)

var (
	tlsShort, tlsLong *tls.Config
	tlsClient         *tls.Config
)

func init() {
	ca, caKey, err := tools.GenerateCA()
	if err != nil {
		panic(err)
	}
	leaf, leafKey, err := tools.GenerateLeafCert(ca, caKey)
	if err != nil {
		panic(err)
	}
	tlsShort = &tls.Config{Certificates: []tls.Certificate{{Certificate: [][]byte{leaf.Raw}, PrivateKey: leafKey}}, NextProtos: []string{e2e.ALPN}}
	tlsLong, err = tools.GenerateTLSConfigWithLongCertChain(ca, caKey)
	if err != nil {
		panic(err)
	}
	tlsLong.NextProtos = []string{e2e.ALPN}
	root := x509.NewCertPool()
	root.AddCert(ca)
	tlsClient = &tls.Config{ServerName: "localhost", RootCAs: root, NextProtos: []string{e2e.ALPN}}
}

// rec is a qlog recorder that renders the events the monitors need, with the virtual time of RecordEvent.
type rec struct {
	mu    sync.Mutex
	start time.Time
	ev    []string
}

func spaceOf(pt qlog.PacketType) string {
	switch pt {
	case qlog.PacketTypeInitial:
		return "I"
	case qlog.PacketTypeHandshake:
		return "H"
	case qlog.PacketType1RTT:
		return "A"
	}
	return ""
}

func framesTxt(fs []qlog.Frame) (ae bool, ack string) {
	for _, f := range fs {
		switch x := f.Frame.(type) {
		case *qlog.AckFrame:
			var sb strings.Builder
			for i, r := range x.AckRanges {
				if i > 0 {
					sb.WriteByte('+')
				}
				fmt.Fprintf(&sb, "%d-%d", r.Smallest, r.Largest)
			}
			ack = "/k" + sb.String()
		case *qlog.ConnectionCloseFrame:
		default:
			ae = true
		}
	}
	return
}

func b01(b bool) int {
	if b {
		return 1
	}
	return 0
}

func (r *rec) RecordEvent(ev qlogwriter.Event) {
	r.mu.Lock()
	defer r.mu.Unlock()
	t := time.Since(r.start).Microseconds()
	switch e := ev.(type) {
	case qlog.PacketReceived:
		if sp := spaceOf(e.Header.PacketType); sp != "" {
			ae, ack := framesTxt(e.Frames)
			r.ev = append(r.ev, fmt.Sprintf("R%d/%s%d/%d%s", t, sp, e.Header.PacketNumber, b01(ae), ack))
		}
	case qlog.PacketSent:
		if sp := spaceOf(e.Header.PacketType); sp != "" {
			ae, ack := framesTxt(e.Frames)
			r.ev = append(r.ev, fmt.Sprintf("S%d/%s%d/%d%s", t, sp, e.Header.PacketNumber, b01(ae), ack))
		}
	case qlog.PacketDropped:
		if sp := spaceOf(e.Header.PacketType); sp != "" && e.Trigger == qlog.PacketDropDuplicate {
			r.ev = append(r.ev, fmt.Sprintf("D%d/%s%d", t, sp, e.Header.PacketNumber))
		}
	case qlog.KeyDiscarded:
		switch e.KeyType {
		case qlog.KeyTypeClientInitial, qlog.KeyTypeServerInitial:
			r.ev = append(r.ev, fmt.Sprintf("X%d/I", t))
		case qlog.KeyTypeClientHandshake, qlog.KeyTypeServerHandshake:
			r.ev = append(r.ev, fmt.Sprintf("X%d/H", t))
		}
	case qlog.ConnectionClosed:
		r.ev = append(r.ev, fmt.Sprintf("C%d", t))
	}
}

func (r *rec) Close() error { return nil }

func (r *rec) drain() string {
	r.mu.Lock()
	defer r.mu.Unlock()
	if len(r.ev) == 0 {
		return "-"
	}
	s := strings.Join(r.ev, ",")
	r.ev = nil
	return s
}

type trace struct{ r *rec }

func (t trace) AddProducer() qlogwriter.Recorder { return t.r }
func (t trace) SupportsSchemas(string) bool       { return true }

// side hands the first connection of an endpoint the recorder; later (ghost) connections get a throw-away one.
type side struct {
	mu   sync.Mutex
	main *rec
	used bool
}

func (s *side) tracer(context.Context, bool, quic.ConnectionID) qlogwriter.Trace {
	s.mu.Lock()
	defer s.mu.Unlock()
	if !s.used {
		s.used = true
		return trace{s.main}
	}
	return trace{&rec{start: s.main.start}}
}

type runner struct {
	env      *e2e.Env
	start    time.Time
	crec     *rec
	srec     *rec
	cancel   context.CancelFunc
	cstr     *quic.Stream
	sstr     *quic.Stream
	sstrCh   chan *quic.Stream
	cconn    *quic.Conn
	started  bool
	failed   bool
	// generator
	style int
}

func newRunner(r *vh.Rand) vh.Runner {
	return &runner{style: r.Pick(25, 35, 25, 15)}
}

func (rn *runner) genFaults(r *vh.Rand, n int, pDrop, pDup, pDelay int) string {
	var fs []string
	for d := 0; d < 2; d++ {
		for i := 0; i < n; i++ {
			x := r.Intn(1000)
			name := "cs"[d : d+1]
			switch {
			case x < pDrop:
				fs = append(fs, fmt.Sprintf("%s%dx", name, i))
			case x < pDrop+pDup:
				fs = append(fs, fmt.Sprintf("%s%du", name, i))
			case x < pDrop+pDup+pDelay:
				fs = append(fs, fmt.Sprintf("%s%dy%d", name, i, r.Range(1, 60)))
			}
		}
	}
	if len(fs) == 0 {
		return "-"
	}
	return strings.Join(fs, ",")
}

func (rn *runner) GenOp(r *vh.Rand, i int) string {
	if i == 0 {
		switch rn.style {
		case 0: // the handshake under loss / duplication / reordering, long certificate chain: coalesced flights
			return fmt.Sprintf("start rtt=%d chain=%d F=%s", r.Range(4, 120), b01(r.Chance(75)), rn.genFaults(r, 14, 90, 90, 120))
		case 1: // bulk download, long round trips: the server is congestion limited between flights while the client talks
			return fmt.Sprintf("start rtt=%d chain=%d F=%s", r.Range(80, 300), b01(r.Chance(50)), rn.genFaults(r, 200, 5, 5, 10))
		case 2: // bulk both ways with loss, duplication and reordering
			return fmt.Sprintf("start rtt=%d chain=%d F=%s", r.Range(4, 80), b01(r.Chance(30)), rn.genFaults(r, 300, 30, 30, 60))
		default: // sparse request/response: single packets, delayed ACK timer
			return fmt.Sprintf("start rtt=%d chain=%d F=%s", r.Range(2, 200), b01(r.Chance(30)), rn.genFaults(r, 60, 40, 40, 60))
		}
	}
	switch rn.style {
	case 0:
		switch r.Pick(40, 30, 30) {
		case 0:
			return fmt.Sprintf("run %d", r.Range(1, 400))
		case 1:
			return fmt.Sprintf("cw %d", r.Range(1, 3000))
		default:
			return fmt.Sprintf("sw %d", r.Range(1, 3000))
		}
	case 1:
		if i == 1 {
			return fmt.Sprintf("sw %d", r.Range(100_000, 400_000))
		}
		switch r.Pick(50, 40, 10) {
		case 0:
			return fmt.Sprintf("run %d", r.Range(5, 250))
		case 1:
			return fmt.Sprintf("cw %d", r.Range(1, 300))
		default:
			return fmt.Sprintf("sw %d", r.Range(20_000, 100_000))
		}
	case 2:
		switch r.Pick(40, 30, 30) {
		case 0:
			return fmt.Sprintf("run %d", r.Range(1, 200))
		case 1:
			return fmt.Sprintf("cw %d", r.Range(1, 120_000))
		default:
			return fmt.Sprintf("sw %d", r.Range(1, 120_000))
		}
	default:
		switch r.Pick(50, 25, 25) {
		case 0:
			return fmt.Sprintf("run %d", []int64{1, 5, 20, 24, 25, 26, 30, 60, 200, 900}[r.Intn(10)])
		case 1:
			return fmt.Sprintf("cw %d", r.Range(1, 1500))
		default:
			return fmt.Sprintf("sw %d", r.Range(1, 1500))
		}
	}
}

func kv(fs []string) map[string]string {
	m := map[string]string{}
	for _, f := range fs {
		if i := strings.IndexByte(f, '='); i > 0 {
			m[f[:i]] = f[i+1:]
		}
	}
	return m
}

func parseFaults(s string) []e2e.Fault {
	var out []e2e.Fault
	if s == "-" || s == "" {
		return nil
	}
	for _, f := range strings.Split(s, ",") {
		if len(f) < 3 {
			continue
		}
		dir := e2e.ToServer
		if f[0] == 's' {
			dir = e2e.ToClient
		}
		j := 1
		for j < len(f) && f[j] >= '0' && f[j] <= '9' {
			j++
		}
		if j >= len(f) {
			continue
		}
		idx, _ := strconv.Atoi(f[1:j])
		switch f[j] {
		case 'x':
			out = append(out, e2e.Fault{Dir: dir, Index: idx, Kind: "drop"})
		case 'u':
			out = append(out, e2e.Fault{Dir: dir, Index: idx, Kind: "dup"})
		case 'y':
			ms, _ := strconv.Atoi(f[j+1:])
			out = append(out, e2e.Fault{Dir: dir, Index: idx, Kind: "delay", Arg: ms})
		}
	}
	return out
}

func (rn *runner) res(head string) string {
	synctest.Wait()
	return fmt.Sprintf("%s T=%d c=%s s=%s", head, time.Since(rn.start).Microseconds(), rn.crec.drain(), rn.srec.drain())
}

func (rn *runner) Exec(op string) string {
	f := strings.Fields(op)
	if len(f) == 0 {
		return "bad-op"
	}
	if f[0] == "start" {
		if rn.started {
			return "skip"
		}
		m := kv(f[1:])
		rtt, _ := strconv.Atoi(m["rtt"])
		if rtt <= 0 {
			return "bad-op"
		}
		rn.started = true
		rn.start = time.Now()
		rn.crec = &rec{start: rn.start}
		rn.srec = &rec{start: rn.start}
		cs, ss := &side{main: rn.crec}, &side{main: rn.srec}
		stls := tlsShort
		if m["chain"] == "1" {
			stls = tlsLong
		}
		conf := func(s *side) *quic.Config {
			return &quic.Config{Tracer: s.tracer, DisablePathMTUDiscovery: true, MaxIdleTimeout: 20 * time.Second}
		}
		env, err := e2e.Start(e2e.Setup{
			RTT: time.Duration(rtt) * time.Millisecond, Faults: parseFaults(m["F"]),
			ServerConf: conf(ss), ClientConf: conf(cs), ServerTLS: stls.Clone(), ClientTLS: tlsClient.Clone(),
		})
		if err != nil {
			rn.failed = true
			return "E:start"
		}
		rn.env = env
		ctx, cancel := context.WithCancel(context.Background())
		rn.cancel = cancel
		rn.sstrCh = make(chan *quic.Stream, 1)
		go func() {
			c, err := env.Listener.Accept(ctx)
			if err != nil {
				return
			}
			s, err := c.AcceptStream(ctx)
			if err != nil {
				return
			}
			rn.sstrCh <- s
			io.Copy(io.Discard, s)
		}()
		dctx, dcancel := context.WithTimeout(ctx, 15*time.Second)
		defer dcancel()
		c, err := env.Dial(dctx)
		if err != nil {
			rn.failed = true
			return rn.res("E:dial")
		}
		rn.cconn = c
		s, err := c.OpenStreamSync(dctx)
		if err != nil {
			rn.failed = true
			return rn.res("E:open")
		}
		rn.cstr = s
		go io.Copy(io.Discard, s)
		go s.Write([]byte{1})
		return rn.res("ok")
	}
	if !rn.started || rn.failed {
		return "skip"
	}
	switch f[0] {
	case "run":
		if len(f) != 2 {
			return "bad-op"
		}
		time.Sleep(time.Duration(vh.Atoi64(f[1])) * time.Millisecond)
		return rn.res("ok")
	case "cw":
		if len(f) != 2 {
			return "bad-op"
		}
		n := int(vh.Atoi64(f[1]))
		if n <= 0 || n > 1<<20 {
			return "bad-op"
		}
		s := rn.cstr
		go s.Write(make([]byte, n))
		return rn.res("ok")
	case "sw":
		if len(f) != 2 {
			return "bad-op"
		}
		n := int(vh.Atoi64(f[1]))
		if n <= 0 || n > 1<<20 {
			return "bad-op"
		}
		if rn.sstr == nil {
			// the stream reaches the server 1.5 round trips after the dial started: wait for it (virtual time)
			select {
			case rn.sstr = <-rn.sstrCh:
			case <-time.After(3 * time.Second):
				return rn.res("skip")
			}
		}
		s := rn.sstr
		go s.Write(make([]byte, n))
		return rn.res("ok")
	}
	return "bad-op"
}

func (rn *runner) Close() {
	if !rn.started || rn.env == nil {
		return
	}
	if rn.cancel != nil {
		rn.cancel()
	}
	if rn.cconn != nil {
		rn.cconn.CloseWithError(0, "")
	}
	synctest.Wait()
	rn.env.Close()
	synctest.Wait()
}

func TestDriver(t *testing.T) {
	// real-time watchdog for the whole run (virtual time inside the bubble is free)
	done := make(chan struct{})
	go func() {
		select {
		case <-done:
		case <-time.After(10 * time.Minute):
			fmt.Fprintln(os.Stderr, "rcve2e: real-time watchdog expired")
			os.Exit(3)
		}
	}()
	defer close(done)
	synctest.Test(t, func(t *testing.T) { vh.Main(t, "rcve2e", newRunner) })
}
