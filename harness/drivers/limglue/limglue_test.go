//go:build verif

// Package limglue is the C12 glue driver. One case = one REAL client connection (spec-driven: the real
// newUClientConnection with a built-in QUICID or a spec derived from one; or the plain client) built by a
// hook without network and run loop. The driver plays a peer that uses what the client advertised and
// what the client grants later (MAX_STREAM_DATA / MAX_DATA it would send), and the run loop:
//
//	pkt <t> <frames>   a 1-RTT packet of the peer arrives at t ms: serialized frames through the real
//	                   handleUnpackedShortHeaderPacket (frame parser, handleFrames, frame handlers)
//	snd <t> ae|na      the client sends a packet (registerPackedShortHeaderPacket)
//	open / rd / pack   the application opens a stream / reads; the framer composes the control frames
//
// Every result carries the idle deadline (nextIdleTimeoutTime) so that the idle timer glue is compared
// with its model after every packet in either direction.
package limglue

import (
	"errors"
	"fmt"
	"sort"
	"strconv"
	"strings"
	"testing"
	"time"

	quic "github.com/refraction-networking/uquic"
	"github.com/refraction-networking/uquic/internal/protocol"
	"github.com/refraction-networking/uquic/internal/qerr"
	"github.com/refraction-networking/uquic/internal/verifharness/vh"
	"github.com/refraction-networking/uquic/internal/wire"
	tls "github.com/refraction-networking/utls"
)

// ---------------------------------------------------------------- specs (as in the limits driver)

var bases = map[string]quic.QUICID{
	"chrome115":   quic.QUICChrome_115_IPv4,
	"chrome115v6": quic.QUICChrome_115_IPv6,
	"firefox116a": quic.QUICFirefox_116A,
	"firefox116b": quic.QUICFirefox_116B,
	"firefox116c": quic.QUICFirefox_116C,
	"chrome146":   quic.QUICChrome_146_IPv4,
	"chrome146v6": quic.QUICChrome_146_IPv6,
}

var baseNames = []string{"chrome115", "chrome115v6", "firefox116a", "firefox116b", "firefox116c", "chrome146", "chrome146v6"}

var keys = []string{"mit", "mups", "imd", "imsdbl", "imsdbr", "imsdu", "imsb", "imsu", "ade", "mad", "acil", "mdfs", "dam"}

var keyID = map[string]uint64{"mit": 0x1, "mups": 0x3, "imd": 0x4, "imsdbl": 0x5, "imsdbr": 0x6, "imsdu": 0x7,
	"imsb": 0x8, "imsu": 0x9, "ade": 0xa, "mad": 0xb, "dam": 0xc, "acil": 0xe, "mdfs": 0x20}

func mkParam(key string, v uint64) tls.TransportParameter {
	switch key {
	case "mit":
		return tls.MaxIdleTimeout(v)
	case "mups":
		return tls.MaxUDPPayloadSize(v)
	case "imd":
		return tls.InitialMaxData(v)
	case "imsdbl":
		return tls.InitialMaxStreamDataBidiLocal(v)
	case "imsdbr":
		return tls.InitialMaxStreamDataBidiRemote(v)
	case "imsdu":
		return tls.InitialMaxStreamDataUni(v)
	case "imsb":
		return tls.InitialMaxStreamsBidi(v)
	case "imsu":
		return tls.InitialMaxStreamsUni(v)
	case "mad":
		return tls.MaxAckDelay(v)
	case "acil":
		return tls.ActiveConnectionIDLimit(v)
	case "mdfs":
		return tls.MaxDatagramFrameSize(v)
	}
	return nil
}

func paramValue(p tls.TransportParameter) (key string, v uint64, ok bool) {
	switch x := p.(type) {
	case tls.MaxIdleTimeout:
		return "mit", uint64(x), true
	case tls.MaxUDPPayloadSize:
		return "mups", uint64(x), true
	case tls.InitialMaxData:
		return "imd", uint64(x), true
	case tls.InitialMaxStreamDataBidiLocal:
		return "imsdbl", uint64(x), true
	case tls.InitialMaxStreamDataBidiRemote:
		return "imsdbr", uint64(x), true
	case tls.InitialMaxStreamDataUni:
		return "imsdu", uint64(x), true
	case tls.InitialMaxStreamsBidi:
		return "imsb", uint64(x), true
	case tls.InitialMaxStreamsUni:
		return "imsu", uint64(x), true
	case tls.MaxAckDelay:
		return "mad", uint64(x), true
	case tls.ActiveConnectionIDLimit:
		return "acil", uint64(x), true
	case tls.MaxDatagramFrameSize:
		return "mdfs", uint64(x), true
	case *tls.DisableActiveMigration:
		return "dam", 1, true
	}
	return "", 0, false
}

func qtpExt(spec *quic.QUICSpec) *tls.QUICTransportParametersExtension {
	if spec == nil || spec.ClientHelloSpec == nil {
		return nil
	}
	for _, e := range spec.ClientHelloSpec.Extensions {
		if q, ok := e.(*tls.QUICTransportParametersExtension); ok {
			return q
		}
	}
	return nil
}

// buildSpec executes the real QUICID2Spec and applies the edits (set:k=v, del:k, sup:k).
func buildSpec(base string, edits []string) (*quic.QUICSpec, error) {
	id, ok := bases[base]
	if !ok {
		return nil, fmt.Errorf("unknown base %q", base)
	}
	spec, err := quic.QUICID2Spec(id)
	if err != nil {
		return nil, err
	}
	ext := qtpExt(&spec)
	if ext == nil {
		return nil, errors.New("no QUICTransportParametersExtension")
	}
	for _, e := range edits {
		switch {
		case strings.HasPrefix(e, "set:"):
			kv := strings.SplitN(e[4:], "=", 2)
			if len(kv) != 2 {
				return nil, fmt.Errorf("bad edit %q", e)
			}
			v, err := strconv.ParseUint(kv[1], 10, 64)
			p := mkParam(kv[0], v)
			if err != nil || p == nil {
				return nil, fmt.Errorf("bad edit %q", e)
			}
			done := false
			for i, old := range ext.TransportParameters {
				if k, _, ok := paramValue(old); ok && k == kv[0] {
					ext.TransportParameters[i] = p
					done = true
				}
			}
			if !done {
				ext.TransportParameters = append(ext.TransportParameters, p)
			}
		case strings.HasPrefix(e, "del:"):
			kept := ext.TransportParameters[:0:0]
			for _, old := range ext.TransportParameters {
				if k, _, ok := paramValue(old); ok && k == e[4:] {
					continue
				}
				kept = append(kept, old)
			}
			ext.TransportParameters = kept
		case strings.HasPrefix(e, "sup:"):
			id, ok := keyID[e[4:]]
			if !ok {
				return nil, fmt.Errorf("bad edit %q", e)
			}
			spec.SuppressTransportParameters = append(spec.SuppressTransportParameters, id)
		default:
			return nil, fmt.Errorf("bad edit %q", e)
		}
	}
	return &spec, nil
}

type adv map[string]int64 // -1 = not listed

func listSpec(spec *quic.QUICSpec) (adv, int) {
	a := adv{}
	for _, k := range keys {
		a[k] = -1
	}
	ext := qtpExt(spec)
	sup := map[uint64]bool{}
	for _, id := range spec.SuppressTransportParameters {
		sup[id] = true
	}
	n := 0
	for _, p := range ext.TransportParameters {
		k, v, ok := paramValue(p)
		if ok && sup[keyID[k]] {
			continue
		}
		n++
		if ok {
			a[k] = int64(v)
		}
	}
	return a, n
}

func (a adv) String() string {
	var sb strings.Builder
	for i, k := range keys {
		if i > 0 {
			sb.WriteByte(' ')
		}
		if a[k] < 0 {
			fmt.Fprintf(&sb, "%s=-", k)
		} else {
			fmt.Fprintf(&sb, "%s=%d", k, a[k])
		}
	}
	return sb.String()
}

func (a adv) get(k string) int64 {
	if v, ok := a[k]; ok && v > 0 {
		return v
	}
	return 0
}

// ---------------------------------------------------------------- runner

type runner struct {
	haveSpec bool
	base     string
	edits    []string
	adv      adv
	cfg      quic.Config

	conn   *quic.VerifLGConn
	closed bool
	lastT  int64
	known  map[int64]bool // streams the peer has sent on / the application has opened

	// generator: the simulated peer
	g gen
}

func newRunner(r *vh.Rand) vh.Runner { return &runner{} }

func (rn *runner) Close() {
	if rn.conn != nil {
		rn.conn.Close()
		rn.conn = nil
	}
}

func parseKV(fs []string) map[string]int64 {
	m := map[string]int64{}
	for _, f := range fs {
		kv := strings.SplitN(f, "=", 2)
		if len(kv) == 2 {
			m[kv[0]] = vh.Atoi64(kv[1])
		}
	}
	return m
}

func (rn *runner) setCfg(fs []string) {
	m := parseKV(fs)
	rn.cfg = quic.Config{
		InitialConnectionReceiveWindow: uint64(m["icrw"]),
		MaxConnectionReceiveWindow:     uint64(m["mcrw"]),
		InitialStreamReceiveWindow:     uint64(m["isrw"]),
		MaxStreamReceiveWindow:         uint64(m["msrw"]),
		MaxIncomingStreams:             m["mis"],
		MaxIncomingUniStreams:          m["mius"],
		EnableDatagrams:                m["dg"] == 1,
		MaxIdleTimeout:                 time.Duration(m["mit"]) * time.Millisecond,
	}
}

// plainAdv mirrors populateConfig (only to SIZE what the simulated peer does for the plain client; the
// oracle has its own model and judges on it).
func (rn *runner) plainAdv() adv {
	a := adv{}
	for _, k := range keys {
		a[k] = -1
	}
	def := func(v, d int64) int64 {
		if v == 0 {
			return d
		}
		return v
	}
	streams := func(v int64) int64 {
		if v == 0 {
			return 100
		}
		if v < 0 {
			return 0
		}
		return v
	}
	a["imd"] = def(int64(rn.cfg.InitialConnectionReceiveWindow), 786432)
	w := def(int64(rn.cfg.InitialStreamReceiveWindow), 524288)
	a["imsdbl"], a["imsdbr"], a["imsdu"] = w, w, w
	a["imsb"] = streams(rn.cfg.MaxIncomingStreams)
	a["imsu"] = streams(rn.cfg.MaxIncomingUniStreams)
	a["mit"] = def(int64(rn.cfg.MaxIdleTimeout/time.Millisecond), 30000)
	a["acil"] = 4
	if rn.cfg.EnableDatagrams {
		a["mdfs"] = 16383
	}
	return a
}

func canonErr(err error) string {
	if err == nil {
		return "ok"
	}
	var te *qerr.TransportError
	if errors.As(err, &te) {
		side := "local"
		if te.Remote {
			side = "remote"
		}
		return fmt.Sprintf("%s:0x%x", side, uint64(te.ErrorCode))
	}
	return "other:" + strings.ReplaceAll(fmt.Sprintf("%T", err), " ", "_")
}

func (rn *runner) dl() string {
	return fmt.Sprintf("dl=%d", int64(rn.conn.IdleDeadline()/time.Microsecond))
}

func (rn *runner) clock(t int64) time.Duration {
	if t < rn.lastT {
		t = rn.lastT
	}
	rn.lastT = t
	return time.Duration(t) * time.Millisecond
}

const rttMs = 100
const maxFrameData = 1200

func cidOf(seq uint64) protocol.ConnectionID {
	return protocol.ParseConnectionID([]byte{0xc1, 0xd0, byte(seq >> 24), byte(seq >> 16), byte(seq >> 8), byte(seq), 0x55, 0xaa})
}

func tokOf(seq uint64) (t protocol.StatelessResetToken) {
	for i := range t {
		t[i] = byte(seq*31 + uint64(i)*7 + 3)
	}
	return t
}

func parseFrame(s string) (wire.Frame, bool) {
	f := strings.Split(s, ":")
	n := func(i int) uint64 {
		if i >= len(f) {
			return 0
		}
		v, _ := strconv.ParseUint(f[i], 10, 63)
		return v
	}
	switch f[0] {
	case "ping":
		return &wire.PingFrame{}, true
	case "ncid":
		if len(f) != 3 {
			return nil, false
		}
		return &wire.NewConnectionIDFrame{SequenceNumber: n(1), RetirePriorTo: n(2), ConnectionID: cidOf(n(1)), StatelessResetToken: tokOf(n(1))}, true
	case "strm":
		fin := len(f) == 5 && f[4] == "fin"
		if (len(f) != 4 && !fin) || n(3) > 32<<20 || (fin && n(3) == 0) {
			return nil, false
		}
		return &wire.StreamFrame{StreamID: protocol.StreamID(n(1)), Offset: protocol.ByteCount(n(2)), Data: make([]byte, n(3)), DataLenPresent: true, Fin: fin}, true
	case "dgram":
		if len(f) != 2 || n(1) > 1<<17 {
			return nil, false
		}
		return &wire.DatagramFrame{DataLenPresent: true, Data: make([]byte, n(1))}, true
	}
	return nil, false
}

func (rn *runner) Exec(op string) string {
	f := strings.Fields(op)
	if len(f) == 0 {
		return "bad-op"
	}
	switch f[0] {
	case "spec":
		if len(f) < 2 {
			return "bad-op"
		}
		rn.Close()
		rn.base, rn.edits, rn.haveSpec, rn.closed = f[1], f[2:], false, false
		if f[1] == "plain" {
			rn.haveSpec = true
			return "plain"
		}
		spec, err := buildSpec(f[1], f[2:])
		if err != nil {
			return "badspec"
		}
		a, n := listSpec(spec)
		rn.adv, rn.haveSpec = a, true
		return fmt.Sprintf("%s n=%d", a, n)
	case "cfg":
		rn.setCfg(f[1:])
		return "ok"
	}
	if !rn.haveSpec {
		return "skip"
	}
	if f[0] == "new" {
		rn.Close()
		rn.closed, rn.lastT, rn.known = false, 0, map[int64]bool{}
		m := parseKV(f[1:])
		var spec *quic.QUICSpec
		if rn.base != "plain" {
			s, err := buildSpec(rn.base, rn.edits)
			if err != nil {
				return "badspec"
			}
			spec = s
		}
		cfg := rn.cfg
		c, err := quic.VerifLGNew(spec, &cfg)
		if err != nil {
			return "newerr"
		}
		rn.conn = c
		peer := &wire.TransportParameters{
			InitialMaxData: 1 << 30, InitialMaxStreamDataBidiLocal: 1 << 28, InitialMaxStreamDataBidiRemote: 1 << 28,
			InitialMaxStreamDataUni: 1 << 28, MaxBidiStreamNum: 1000, MaxUniStreamNum: 1000,
			MaxIdleTimeout: time.Duration(m["pmit"]) * time.Millisecond, MaxAckDelay: 25 * time.Millisecond,
			AckDelayExponent: 3, ActiveConnectionIDLimit: 4, MaxUDPPayloadSize: 1452, MaxDatagramFrameSize: protocol.InvalidByteCount,
		}
		idle, pto3, err := c.Handshake(0, peer, rttMs*time.Millisecond)
		if err != nil {
			rn.closed = true
			return "hs:" + canonErr(err)
		}
		return fmt.Sprintf("ok idle=%d pto3=%d %s", int64(idle/time.Millisecond), int64(pto3/time.Microsecond), rn.dl())
	}
	if rn.conn == nil {
		return "skip"
	}
	if rn.closed {
		return "closed"
	}
	switch f[0] {
	case "pkt":
		if len(f) < 2 {
			return "bad-op"
		}
		// one datagram carries at most maxFrameData bytes of one STREAM frame: a larger `strm` is a burst of
		// packets arriving at the same instant (the other frames travel in the first one)
		var pkts [][]wire.Frame
		var first []wire.Frame
		var sids []int64
		for _, s := range f[2:] {
			if s == "pad" {
				continue
			}
			fr, ok := parseFrame(s)
			if !ok {
				return "bad-op"
			}
			if sf, ok := fr.(*wire.StreamFrame); ok {
				sids = append(sids, int64(sf.StreamID))
			}
			if sf, ok := fr.(*wire.StreamFrame); ok && len(sf.Data) > maxFrameData {
				for off := 0; off < len(sf.Data); off += maxFrameData {
					end := min(off+maxFrameData, len(sf.Data))
					pkts = append(pkts, []wire.Frame{&wire.StreamFrame{StreamID: sf.StreamID, Offset: sf.Offset + protocol.ByteCount(off),
						Data: sf.Data[off:end], DataLenPresent: true, Fin: sf.Fin && end == len(sf.Data)}})
				}
				continue
			}
			first = append(first, fr)
		}
		if len(first) > 0 || len(pkts) == 0 {
			pkts = append([][]wire.Frame{first}, pkts...)
		}
		at := rn.clock(vh.Atoi64(f[1]))
		for _, frames := range pkts {
			if err := rn.conn.Packet(at, frames); err != nil {
				// the run loop closes the connection with this error
				rn.closed = true
				return canonErr(err)
			}
		}
		for _, id := range sids {
			rn.known[id] = true
		}
		return "ok " + rn.dl()
	case "snd":
		if len(f) != 3 {
			return "bad-op"
		}
		rn.conn.Sent(rn.clock(vh.Atoi64(f[1])), f[2] == "ae")
		return rn.dl()
	case "open":
		id, err := rn.conn.OpenBidi()
		if err != nil {
			return "err"
		}
		rn.known[id] = true
		return fmt.Sprintf("sid=%d", id)
	case "rd":
		if len(f) != 3 {
			return "bad-op"
		}
		n := vh.Atoi64(f[2])
		if n < 0 || n > 64<<20 {
			return "bad-op"
		}
		if !rn.known[vh.Atoi64(f[1])] {
			return "nostream"
		}
		got, eof, ok := rn.conn.ReadFrom(vh.Atoi64(f[1]), int(n))
		if !ok {
			return "nostream"
		}
		if eof {
			return fmt.Sprintf("n=%d eof", got)
		}
		return fmt.Sprintf("n=%d", got)
	case "acc":
		if len(f) != 2 || (f[1] != "b" && f[1] != "u") {
			return "bad-op"
		}
		id := rn.conn.AcceptOne(f[1] == "u")
		if id < 0 {
			return "none"
		}
		return fmt.Sprintf("sid=%d", id)
	case "stop":
		if len(f) != 2 {
			return "bad-op"
		}
		id := vh.Atoi64(f[1])
		if !rn.known[id] || id%4 == 2 || !rn.conn.StopReading(id) {
			return "nostream"
		}
		return "ok"
	case "cls":
		if len(f) != 2 {
			return "bad-op"
		}
		id := vh.Atoi64(f[1])
		if !rn.known[id] || id%4 >= 2 || !rn.conn.CloseSend(id) {
			return "nostream"
		}
		return "ok"
	case "pack":
		if len(f) != 2 {
			return "bad-op"
		}
		o := rn.conn.Pack(rn.clock(vh.Atoi64(f[1])))
		var sb strings.Builder
		fmt.Fprintf(&sb, "md=%d msd=", o.MaxData)
		var ids []int64
		for id := range o.MaxStreamData {
			ids = append(ids, id)
		}
		sort.Slice(ids, func(i, j int) bool { return ids[i] < ids[j] })
		for i, id := range ids {
			if i > 0 {
				sb.WriteByte(',')
			}
			fmt.Fprintf(&sb, "%d:%d", id, o.MaxStreamData[id])
		}
		if len(ids) == 0 {
			sb.WriteByte('-')
		}
		sort.Strings(o.MaxStreams)
		sb.WriteString(" ms=")
		if len(o.MaxStreams) == 0 {
			sb.WriteByte('-')
		}
		sb.WriteString(strings.Join(o.MaxStreams, ","))
		sort.Slice(o.RetireConnIDs, func(i, j int) bool { return o.RetireConnIDs[i] < o.RetireConnIDs[j] })
		sb.WriteString(" ret=")
		if len(o.RetireConnIDs) == 0 {
			sb.WriteByte('-')
		}
		for i, s := range o.RetireConnIDs {
			if i > 0 {
				sb.WriteByte(',')
			}
			fmt.Fprintf(&sb, "%d", s)
		}
		rn.g.sawPack(o)
		return sb.String()
	}
	return "bad-op"
}

// ---------------------------------------------------------------- generator: a peer that uses what it was told

type gen struct {
	plan  []string // fixed prefix: spec, cfg, new
	focus int
	t     int64
	a     adv
	mit   int64
	// connection IDs
	limit   int64
	active  []uint64 // sequence numbers the peer considers active (ascending)
	nextSeq uint64
	rpt     uint64
	rogue   bool
	// streams / flow
	sid       int64
	kind      string
	sent      int64 // highest offset sent on sid
	read      int64
	credit    int64 // stream credit: advertised initial, then the largest MAX_STREAM_DATA seen
	connSent  int64
	connCred  int64
	opened    bool
	steps     int
	download  bool
	phase     int
	w0        int64
	readPct   int
	sendPct   int
	// stream lifecycle (focusLife): the peer opens streams (several at once by naming the last), finishes them,
	// the application accepts some, reads them to the end, closes its side; the peer goes on to the highest
	// stream count it was ever told (advertised, MAX_STREAMS)
	lKind   string
	lOpened int64
	lTold   int64
	lSt     map[int64]*lifeStream
	lBulk   bool // the streams carry as much as the windows allow: the connection window is used up across streams
}

type lifeStream struct {
	sent    int64
	fin     bool
	read    int64
	eof     bool
	touched bool // the application holds it (read or closed)
	cls     bool
	stopped bool
	lastOff int64
	lastLen int64
}

func (g *gen) sawPack(o quic.VerifLGOut) {
	if v, ok := o.MaxStreamData[g.sid]; ok && v > g.credit {
		g.credit = v
	}
	if o.MaxData > g.connCred {
		g.connCred = o.MaxData
	}
	for _, ms := range o.MaxStreams {
		kv := strings.SplitN(ms, ":", 2)
		if len(kv) == 2 && ((kv[0] == "b") == (g.lKind == "br")) {
			if v, err := strconv.ParseInt(kv[1], 10, 64); err == nil && v > g.lTold {
				g.lTold = v
			}
		}
	}
}

func pickVal(r *vh.Rand, around []int64, lo, hi int64) int64 {
	if len(around) > 0 && r.Chance(60) {
		v := around[r.Intn(len(around))] + []int64{0, 0, 1, -1}[r.Intn(4)]
		if v < 0 {
			v = 0
		}
		return v
	}
	return r.Range(lo, hi)
}

const (
	focusCID = iota
	focusIdle
	focusStreams
	focusFlow
	focusLife
)

func (rn *runner) mkPlan(r *vh.Rand) {
	g := &rn.g
	*g = gen{}
	g.focus = r.Pick(20, 20, 12, 28, 20)
	var icrw, isrw, mcrw, msrw, mis, mius, dg, mit int64
	if r.Chance(60) {
		if r.Chance(50) {
			icrw = r.Range(4<<10, 3<<20)
		}
		if r.Chance(50) {
			isrw = r.Range(1<<10, 2<<20)
		}
		if r.Chance(20) {
			mcrw = r.Range(1<<10, 20<<20)
		}
		if r.Chance(20) || (g.focus == focusFlow && r.Chance(50)) {
			msrw = r.Range(1<<10, 8<<20)
			if r.Chance(50) {
				msrw = r.Range(1<<10, 256<<10)
			}
		}
		if r.Chance(40) {
			mis = []int64{-1, 1, 7, 16, 99, 100, 101, 150, 1000}[r.Intn(9)]
			if g.focus == focusLife && r.Bool() {
				mis = []int64{1, 2, 3, 5, 7}[r.Intn(5)]
			}
		}
		if r.Chance(40) {
			mius = []int64{-1, 1, 3, 16, 100, 102, 103, 104, 500}[r.Intn(9)]
			if g.focus == focusLife && r.Bool() {
				mius = []int64{1, 2, 3, 5, 7}[r.Intn(5)]
			}
		}
		if r.Chance(40) {
			dg = 1
		}
		if r.Chance(40) {
			mit = []int64{6000, 10000, 20000, 28000, 30000, 32000, 45000, 60000}[r.Intn(8)]
		}
	}
	inverted := r.Chance(12)
	if inverted {
		g.focus = focusFlow
		// a Config whose initial window lies above its maximum window (legal: nothing validates the pair; e.g. a user
		// raises InitialStreamReceiveWindow above the default maximum): auto-tuning has no room, and must not shrink
		isrw = r.Range(32<<10, 4<<20)
		msrw = max(1<<10, isrw/r.Range(2, 8))
		if r.Bool() {
			icrw = r.Range(64<<10, 6<<20)
			mcrw = max(1<<10, icrw/r.Range(2, 8))
		}
	}
	cfg := fmt.Sprintf("cfg icrw=%d mcrw=%d isrw=%d msrw=%d mis=%d mius=%d dg=%d mit=%d", icrw, mcrw, isrw, msrw, mis, mius, dg, mit)
	def := func(v, d int64) int64 {
		if v == 0 {
			return d
		}
		return v
	}
	enfConn, enfStream := def(icrw, 786432), def(isrw, 524288)
	enfBidi, enfUni := max(def(mis, 100), 0), max(def(mius, 100), 0)
	enfIdle := def(mit, 30000)

	spec := "spec "
	kindW := []int{25, 12, 63}
	if inverted {
		kindW = []int{15, 55, 30}
	}
	switch k := r.Pick(kindW...); k {
	case 0:
		spec += baseNames[r.Intn(len(baseNames))]
	case 1:
		spec += "plain"
	default:
		spec += baseNames[r.Intn(len(baseNames))]
		ed := func(key string, v int64) {
			if r.Chance(5) {
				if r.Bool() {
					spec += " del:" + key
				} else {
					spec += " sup:" + key
				}
				return
			}
			spec += fmt.Sprintf(" set:%s=%d", key, v)
		}
		nEd := 0
		pe := func(p int) bool {
			if r.Chance(p) {
				nEd++
				return true
			}
			return false
		}
		small := g.focus == focusFlow && r.Chance(60)
		win := func(enf int64) int64 {
			if small {
				return r.Range(2<<10, 600<<10)
			}
			return pickVal(r, []int64{enf}, 0, 2<<20)
		}
		if pe(60) {
			ed("imd", max(1<<10, win(enfConn)))
		}
		if pe(55) {
			ed("imsdbl", win(enfStream))
		}
		if pe(55) {
			ed("imsdbr", win(enfStream))
		}
		if pe(55) {
			ed("imsdu", win(enfStream))
		}
		if pe(50) {
			if g.focus == focusLife && r.Chance(60) {
				ed("imsb", r.Range(1, 9))
			} else {
				ed("imsb", pickVal(r, []int64{enfBidi}, 0, 300))
			}
		}
		if pe(50) {
			if g.focus == focusLife && r.Chance(60) {
				ed("imsu", r.Range(1, 9))
			} else {
				ed("imsu", pickVal(r, []int64{enfUni}, 0, 300))
			}
		}
		if pe(45) {
			ed("acil", r.Range(2, 12))
		}
		if pe(30) {
			ed("mdfs", []int64{0, 1, 50, 1200, 1500, 16383, 16384, 65535, 65536}[r.Intn(9)])
		}
		if pe(40) {
			ed("mit", max(4000, []int64{enfIdle, enfIdle + 2000, enfIdle - 2000, enfIdle + 15000, 8000, 5000}[r.Intn(6)]))
		}
		if nEd == 0 {
			ed("imd", enfConn)
		}
	}
	pmit := []int64{600000, 600000, 0, 30000, 12000, 45000}[r.Intn(6)]
	g.plan = []string{spec, cfg, fmt.Sprintf("new pmit=%d", pmit)}
}

// afterNew initialises the simulated peer from what the SPEC lists (what it was told on the wire).
func (rn *runner) afterNew(r *vh.Rand) {
	g := &rn.g
	g.a = rn.adv
	if rn.base == "plain" {
		g.a = rn.plainAdv()
	}
	g.mit = g.a.get("mit")
	g.limit = 2
	if v, ok := g.a["acil"]; ok && v >= 0 {
		g.limit = v
	}
	g.active, g.nextSeq = []uint64{0}, 1
	g.rogue = r.Chance(12)
	g.connCred = g.a.get("imd")
	g.kind = []string{"bl", "br", "uni"}[r.Intn(3)]
	g.download = r.Chance(50)
	g.readPct = []int{26, 30, 34, 51, 60, 100}[r.Intn(6)]
	// (a sender that is limited by the path, not by flow control, leaves part of its credit unused)
	g.sendPct = []int{100, 100, 60, 75, 90}[r.Intn(5)]
	g.lKind = []string{"br", "uni"}[r.Intn(2)]
	g.lTold = g.a.get(map[string]string{"br": "imsb", "uni": "imsu"}[g.lKind])
	g.lSt = map[int64]*lifeStream{}
	g.lBulk = r.Chance(40)
}

func (g *gen) tick(r *vh.Rand, fast bool) int64 {
	if fast {
		g.t += []int64{0, 1, 1, 2, 5}[r.Intn(5)]
	} else {
		g.t += []int64{1, 10, 100, 400, 1000, 3000}[r.Intn(6)]
	}
	return g.t
}

func (rn *runner) genCID(r *vh.Rand) string {
	g := &rn.g
	if r.Chance(15) {
		return fmt.Sprintf("pack %d", g.tick(r, true))
	}
	t := g.tick(r, false)
	n := int64(len(g.active))
	switch {
	case r.Chance(8) && n > 0: // duplicate of an active sequence number
		return fmt.Sprintf("pkt %d ncid:%d:%d", t, g.active[r.Intn(len(g.active))], g.rpt)
	case g.rogue && r.Chance(30): // a peer that ignores the limit
		s := g.nextSeq
		g.nextSeq++
		g.active = append(g.active, s)
		return fmt.Sprintf("pkt %d ncid:%d:%d", t, s, g.rpt)
	}
	// conformant: after the frame at most `limit` connection IDs are active
	k := int64(0) // how many of the oldest to retire with this frame
	if n+1 > g.limit {
		k = n + 1 - g.limit
	}
	if r.Chance(30) && k < n {
		k += r.Range(0, n-k)
	}
	if k > n {
		k = n
	}
	if g.limit == 0 {
		return fmt.Sprintf("pkt %d ping", t)
	}
	s := g.nextSeq
	g.nextSeq++
	if k > 0 {
		g.rpt = g.active[k-1] + 1
		g.active = append([]uint64(nil), g.active[k:]...)
	}
	g.active = append(g.active, s)
	fr := fmt.Sprintf("ncid:%d:%d", s, g.rpt)
	if r.Chance(10) {
		return fmt.Sprintf("pkt %d ping %s", t, fr)
	}
	return fmt.Sprintf("pkt %d %s", t, fr)
}

func (rn *runner) genIdle(r *vh.Rand) string {
	g := &rn.g
	// gaps: short, or a sizeable part of the advertised timeout (never reaching any deadline is not required:
	// the deadline is reported, nothing fires in this driver)
	m := max(g.mit, 4000)
	g.t += []int64{0, 1, 20, 100, 1000, m / 3, m / 2, m - 1, m}[r.Intn(9)]
	switch r.Pick(30, 25, 25, 10, 10) {
	case 0:
		return fmt.Sprintf("pkt %d pad", g.t)
	case 1:
		return fmt.Sprintf("pkt %d ping", g.t)
	case 2:
		return fmt.Sprintf("snd %d ae", g.t)
	case 3:
		return fmt.Sprintf("snd %d na", g.t)
	default:
		return fmt.Sprintf("pkt %d pad pad", g.t)
	}
}

func sidOf(kind string, num int64) int64 {
	switch kind {
	case "br":
		return 4*(num-1) + 1
	case "uni":
		return 4*(num-1) + 3
	}
	return 4 * (num - 1)
}

func (rn *runner) genStreams(r *vh.Rand) string {
	g := &rn.g
	kind := []string{"br", "uni"}[r.Intn(2)]
	lim := g.a.get(map[string]string{"br": "imsb", "uni": "imsu"}[kind])
	num := []int64{lim, lim, lim + 1, lim - 1, 1, lim / 2, lim + 2, r.Range(1, 320)}[r.Intn(8)]
	if num < 1 {
		num = 1
	}
	return fmt.Sprintf("pkt %d strm:%d:0:0", g.tick(r, false), sidOf(kind, num))
}

func (rn *runner) genFlow(r *vh.Rand) string {
	g := &rn.g
	if !g.opened {
		g.opened = true
		switch g.kind {
		case "bl":
			g.credit = g.a.get("imsdbl")
			g.sid = -1
			return "open"
		case "br":
			g.credit = g.a.get("imsdbr")
			if g.a.get("imsb") < 1 {
				g.credit = 0
			}
			g.sid = 1
		default:
			g.credit = g.a.get("imsdu")
			if g.a.get("imsu") < 1 {
				g.credit = 0
			}
			g.sid = 3
		}
	}
	if g.sid < 0 {
		g.sid = 0 // the first client-opened bidirectional stream
	}
	g.steps++
	avail := min(g.credit-g.sent, g.connCred-g.connSent)
	buffered := g.sent - g.read
	if g.download {
		// a download: the sender always uses all the credit it has, the application reads at the rate the
		// data arrives (about a third of the first window per step), a packet leaves after every read; no pauses
		if g.w0 == 0 {
			g.w0 = max(1, min(g.credit, g.connCred))
		}
		g.t++
		switch g.phase {
		case 0:
			g.phase = 1
			if avail > 0 {
				n := min(max(1, avail*int64(g.sendPct)/100), 16<<20)
				off := g.sent
				g.sent += n
				g.connSent += n
				return fmt.Sprintf("pkt %d strm:%d:%d:%d", g.t, g.sid, off, n)
			}
			fallthrough
		case 1:
			g.phase = 2
			if buffered > 0 {
				n := max(1, min(buffered, g.w0*int64(g.readPct)/100))
				g.read += n
				return fmt.Sprintf("rd %d %d", g.sid, n)
			}
			fallthrough
		default:
			g.phase = 0
			return fmt.Sprintf("pack %d", g.t)
		}
	}
	switch {
	case avail > 0 && (buffered == 0 || r.Chance(45)):
		n := avail
		switch r.Intn(4) {
		case 0:
			n = max(1, avail/2)
		case 1:
			n = max(1, avail*r.Range(1, 100)/100)
		case 2:
			n = min(avail, 1200)
		}
		if n > 16<<20 {
			n = 16 << 20
		}
		off := g.sent
		g.sent += n
		g.connSent += n
		return fmt.Sprintf("pkt %d strm:%d:%d:%d", g.tick(r, r.Chance(80)), g.sid, off, n)
	case buffered > 0 && r.Chance(70):
		n := buffered
		switch r.Intn(4) {
		case 0:
			n = max(1, buffered/2)
		case 1:
			n = max(1, buffered*r.Range(1, 100)/100)
		case 2:
			n = max(1, buffered*6/10)
		}
		g.read += n
		return fmt.Sprintf("rd %d %d", g.sid, n)
	default:
		return fmt.Sprintf("pack %d", g.tick(r, r.Chance(80)))
	}
}

// genLife: the life of the streams the peer opens.
func (rn *runner) genLife(r *vh.Rand) string {
	g := &rn.g
	t := g.tick(r, true)
	credit := g.a.get(map[string]string{"br": "imsdbr", "uni": "imsdu"}[g.lKind])
	room := func(st *lifeStream) int64 {
		if g.lBulk {
			return min(credit-st.sent, g.connCred-g.connSent, 4<<20)
		}
		return min(credit-st.sent, g.connCred-g.connSent, 40)
	}
	st := func(num int64) *lifeStream {
		if g.lSt[num] == nil {
			g.lSt[num] = &lifeStream{}
		}
		return g.lSt[num]
	}
	send := func(num int64, fin bool) string {
		s := st(num)
		n := room(s)
		if n < 1 {
			if s.sent > 0 || s.fin {
				return fmt.Sprintf("pack %d", t)
			}
			return fmt.Sprintf("pkt %d strm:%d:0:0", t, sidOf(g.lKind, num))
		}
		if g.lBulk {
			n = []int64{n, n, n, max(1, n/2), max(1, n/3)}[r.Intn(5)]
		} else {
			n = r.Range(1, n)
		}
		off := s.sent
		s.sent += n
		g.connSent += n
		s.lastOff, s.lastLen = off, n
		if fin {
			s.fin = true
			return fmt.Sprintf("pkt %d strm:%d:%d:%d:fin", t, sidOf(g.lKind, num), off, n)
		}
		return fmt.Sprintf("pkt %d strm:%d:%d:%d", t, sidOf(g.lKind, num), off, n)
	}
	var unfinished, readable, closable []int64
	for num := int64(1); num <= g.lOpened && num <= 5000; num++ {
		s := st(num)
		if !s.fin {
			unfinished = append(unfinished, num)
		}
		if !s.eof && !s.stopped && (s.sent > s.read || s.fin) {
			readable = append(readable, num)
		}
		if g.lKind == "br" && s.touched && !s.cls {
			closable = append(closable, num)
		}
	}
	if g.lBulk && g.connSent > 0 && g.connCred-g.connSent < 1 {
		// the peer is blocked on the connection window: the application consumes what there is, a packet leaves —
		// the window has to move (bytes read, and the unread rest of finished streams it stopped reading)
		if len(readable) > 0 && r.Chance(85) {
			num := readable[r.Intn(len(readable))]
			s := st(num)
			if s.fin && r.Chance(45) { // … or gives up on a stream whose end is known: the unread rest is handed back
				s.stopped, s.touched = true, true
				return fmt.Sprintf("stop %d", sidOf(g.lKind, num))
			}
			n := s.sent - s.read
			s.read, s.touched = s.sent, true
			if s.fin {
				s.eof = true
			}
			return fmt.Sprintf("rd %d %d", sidOf(g.lKind, num), max(n, 1))
		}
		return fmt.Sprintf("pack %d", t)
	}
	for range 8 {
		switch r.Pick(26, 22, 26, 12, 14, 9) {
		case 0: // the peer opens further streams by naming the last of them
			if g.lOpened > g.lTold {
				continue
			}
			num := g.lOpened + []int64{1, 1, 2, 3, 4}[r.Intn(5)]
			switch {
			case r.Chance(18):
				num = g.lTold // everything it was told
			case r.Chance(5):
				num = g.lTold + 1 // one too many: the peer leaves what it was told
			}
			if num > g.lTold+1 || (num > g.lTold && g.lOpened < g.lTold) {
				num = g.lTold
			}
			if num <= g.lOpened || num < 1 || num > 5000 {
				continue
			}
			g.lOpened = num
			return send(num, r.Chance(70))
		case 1: // more data, or the end, on a stream that is open
			if r.Chance(12) && g.lOpened >= 1 { // a retransmission of a stream's last frame
				num := r.Range(1, min(g.lOpened, 5000))
				if s := st(num); s.fin && s.lastLen > 0 {
					return fmt.Sprintf("pkt %d strm:%d:%d:%d:fin", t, sidOf(g.lKind, num), s.lastOff, s.lastLen)
				}
			}
			if len(unfinished) == 0 {
				continue
			}
			return send(unfinished[r.Intn(len(unfinished))], r.Chance(75))
		case 2: // the application reads (accepting streams up to that one)
			if len(readable) == 0 {
				continue
			}
			num := readable[0]
			if r.Chance(35) {
				num = readable[r.Intn(len(readable))]
			}
			s := st(num)
			n := s.sent - s.read + []int64{0, 8}[r.Intn(2)]
			if r.Chance(15) && s.sent-s.read > 1 {
				n = (s.sent - s.read) / 2
			}
			if n < 1 {
				n = 1
			}
			s.read = min(s.sent, s.read+n)
			s.touched = true
			if s.fin && s.read == s.sent {
				s.eof = true
			}
			return fmt.Sprintf("rd %d %d", sidOf(g.lKind, num), n)
		case 3: // the application closes its side
			if len(closable) == 0 {
				if g.lKind == "br" && g.lOpened >= 1 && r.Chance(30) {
					num := r.Range(1, g.lOpened)
					if s := st(num); s.sent > 0 || s.fin {
						s.touched, s.cls = true, true
						return fmt.Sprintf("cls %d", sidOf(g.lKind, num))
					}
				}
				continue
			}
			num := closable[r.Intn(len(closable))]
			st(num).cls = true
			return fmt.Sprintf("cls %d", sidOf(g.lKind, num))
		case 4:
			if r.Chance(25) {
				return "acc " + map[string]string{"br": "b", "uni": "u"}[g.lKind]
			}
			return fmt.Sprintf("pack %d", t)
		case 5: // the application stops reading a stream (before or after its end is known)
			if g.lOpened < 1 {
				continue
			}
			num := r.Range(1, min(g.lOpened, 5000))
			s := st(num)
			if s.stopped || (s.sent == 0 && !s.fin) {
				continue
			}
			s.stopped, s.touched = true, true
			return fmt.Sprintf("stop %d", sidOf(g.lKind, num))
		}
	}
	return fmt.Sprintf("pack %d", t)
}

func (rn *runner) GenOp(r *vh.Rand, i int) string {
	if i == 0 {
		rn.mkPlan(r)
	}
	g := &rn.g
	if i < len(g.plan) {
		return g.plan[i]
	}
	if i == len(g.plan) {
		rn.afterNew(r)
	}
	if rn.closed {
		return ""
	}
	// a little cross traffic of the other kinds in every case
	focus := g.focus
	if r.Chance(12) {
		if focus == focusLife {
			focus = r.Intn(2) // (the other stream generators use the same stream numbers)
		} else {
			focus = r.Intn(4)
		}
	}
	switch focus {
	case focusCID:
		return rn.genCID(r)
	case focusIdle:
		return rn.genIdle(r)
	case focusStreams:
		return rn.genStreams(r)
	case focusLife:
		return rn.genLife(r)
	default:
		return rn.genFlow(r)
	}
}

func TestDriver(t *testing.T) {
	vh.Main(t, "limglue", newRunner)
}
