//go:build verif

// Package ampe2e observes the property's own statement at the socket of a REAL server (quic.Transport +
// Listener) talking to a real client over testutils/simnet inside a testing/synctest bubble: bytes of every
// client datagram delivered to the server vs. bytes of every datagram the server writes, while the client's
// address is unvalidated (support driver for C14; nothing it finds or fails to find is called a proof).
//
//	start <longchain> <retry> <deliverFirst> <dropHS> <dropMaskHex>
//	     server with a long/short certificate chain, with/without Retry; the router delivers only the first
//	     <deliverFirst> client datagrams, never those containing a Handshake packet if dropHS=1, and drops client
//	     datagram number i when bit i of the mask is set
//	run <ms>                  let virtual time pass
//	garbage <n>               the "client" sends n undecryptable bytes attributed to the connection (short header, the server's connection ID)
//	pinginitial               the "client" sends a well-protected small Initial packet carrying PING (ack-eliciting: an ACK becomes pending)
//	coalesced <kind> <k> <pad>   the "client" sends ONE datagram with k coalesced packets that carry the connection's ID:
//	                          I = k well-protected small Initial packets (PING + pad bytes of PADDING each),
//	                          Z = one such Initial followed by k-1 undecryptable 0-RTT packets,
//	                          G = one such Initial followed by (k-1)*pad bytes of garbage
//	badinitial                the "client" sends a well-protected small Initial packet carrying a frame that is not allowed (forces a local close)
//	                          H = one such Initial followed by k-1 FORGED Handshake packets (valid header, the connection's ID, a
//	                              payload of 40+pad bytes that no key of this connection sealed),
//	                          D = one such Initial followed by k-1 byte-identical copies of it (duplicates),
//	                          Y = k undecryptable 0-RTT packets and nothing else (no reply is provoked)
//	forgedhs <n> <o|s>        the "client" sends ONE forged Handshake packet with n payload bytes, addressed to the connection's
//	                          original destination connection ID (o: all a spoofing attacker knows) or to the server's own (s)
//	release                   the client datagrams that the router has been holding back (those beyond <deliverFirst>) are
//	                          delivered now, in order, and later ones pass: everything injected in between ARRIVED EARLIER
//	closeserver               Listener.Close(): handshaking connections are refused
//
// result: `ok ev=<events since the previous op> | conns=<n> hr=<bytesReceived> hs=<bytesSent> hv=<validated> pr=<packets>`
// (the server connection's own accounting, read through a hook; pr = ConnectionStats().PacketsReceived) with events iN
// (N bytes delivered to the server; suffix H = a datagram of the REAL client that contains a Handshake packet, T = an
// Initial carrying a token, p<k> = k long-header packets parsed in it, J = injected by the driver), oN (the server wrote
// N bytes).
package ampe2e

import (
	"context"
	"crypto/x509"
	"fmt"
	tls "github.com/refraction-networking/utls"
	"net"
	"strconv"
	"strings"
	"sync"
	"testing"
	"testing/synctest"
	"time"

	quic "github.com/refraction-networking/uquic"
	"github.com/refraction-networking/uquic/integrationtests/tools"
	"github.com/refraction-networking/uquic/internal/handshake"
	"github.com/refraction-networking/uquic/internal/protocol"
	"github.com/refraction-networking/uquic/internal/verifharness/vh"
	"github.com/refraction-networking/uquic/internal/wire"
	"github.com/refraction-networking/uquic/testutils/simnet"
)

var (
	tlsShort, tlsLong *tls.Config
	tlsClient         *tls.Config
)

func init() {
	ca, caKey, err := tools.GenerateCA()
	if err != nil {
		panic(err)
	}
	leaf, leafKey, err := tools.GenerateLeafCert(ca, caKey)
	if err != nil {
		panic(err)
	}
	tlsShort = &tls.Config{Certificates: []tls.Certificate{{Certificate: [][]byte{leaf.Raw}, PrivateKey: leafKey}}, NextProtos: []string{"verif"}}
	tlsLong, err = tools.GenerateTLSConfigWithLongCertChain(ca, caKey)
	if err != nil {
		panic(err)
	}
	tlsLong.NextProtos = []string{"verif"}
	root := x509.NewCertPool()
	root.AddCert(ca)
	tlsClient = &tls.Config{ServerName: "localhost", RootCAs: root, NextProtos: []string{"verif"}}
}

var (
	serverAddr = &net.UDPAddr{IP: net.IPv4(1, 0, 0, 1), Port: 443}
	clientAddr = &net.UDPAddr{IP: net.IPv4(1, 0, 0, 2), Port: 4242}
)

type wireRouter struct {
	inner simnet.PerfectRouter
	mu    sync.Mutex
	ev    []string
	// policy
	deliverFirst int
	dropHS       bool
	dropMask     uint64
	c2s          int
	held         []simnet.Packet
	// learned from the traffic
	serverSCID protocol.ConnectionID
	origDCID   protocol.ConnectionID
	clientSCID protocol.ConnectionID
	version    protocol.Version
}

func (r *wireRouter) AddNode(a net.Addr, c simnet.PacketReceiver) { r.inner.AddNode(a, c) }

func classify(data []byte) (hasHS, hasToken bool, first *wire.Header, npk int) {
	for len(data) > 0 && wire.IsLongHeaderPacket(data[0]) {
		hdr, _, rest, err := wire.ParsePacket(data)
		if err != nil {
			break
		}
		npk++
		if first == nil {
			first = hdr
		}
		if hdr.Type == protocol.PacketTypeHandshake {
			hasHS = true
		}
		if hdr.Type == protocol.PacketTypeInitial && len(hdr.Token) > 0 {
			hasToken = true
		}
		data = rest
	}
	if len(data) > 0 {
		npk++ // a short-header packet (or trailing bytes) ends the datagram
	}
	return
}

func evIn(n int, hs, tok bool, npk int) string {
	sfx := ""
	if hs {
		sfx += "H"
	}
	if tok {
		sfx += "T"
	}
	return fmt.Sprintf("i%d%sp%d", n, sfx, npk)
}

func (r *wireRouter) SendPacket(p simnet.Packet) error {
	r.mu.Lock()
	toServer := p.To.String() == serverAddr.String()
	if toServer {
		idx := r.c2s
		r.c2s++
		hs, tok, first, npk := classify(p.Data)
		drop := (r.dropHS && hs) || (idx < 64 && r.dropMask&(1<<uint(idx)) != 0)
		if first != nil && r.origDCID.Len() == 0 && first.Type == protocol.PacketTypeInitial {
			r.origDCID, r.clientSCID, r.version = first.DestConnectionID, first.SrcConnectionID, first.Version
		}
		if !drop && idx >= r.deliverFirst {
			// held back (lost, unless a `release` follows)
			if len(r.held) < 64 {
				r.held = append(r.held, simnet.Packet{To: p.To, From: p.From, Data: append([]byte(nil), p.Data...)})
			}
			drop = true
		}
		if drop {
			r.mu.Unlock()
			return nil
		}
		r.ev = append(r.ev, evIn(len(p.Data), hs, tok, npk))
	} else {
		r.ev = append(r.ev, fmt.Sprintf("o%d", len(p.Data)))
		if len(p.Data) > 0 && wire.IsLongHeaderPacket(p.Data[0]) {
			if hdr, _, _, err := wire.ParsePacket(p.Data); err == nil && hdr.Type != protocol.PacketTypeRetry {
				r.serverSCID = hdr.SrcConnectionID
			}
		}
	}
	r.mu.Unlock()
	return r.inner.SendPacket(p)
}

// inject delivers a datagram to the server as if it came from the client (not subject to the drop policy)
func (r *wireRouter) inject(data []byte, tag string) {
	r.mu.Lock()
	r.ev = append(r.ev, fmt.Sprintf("i%d%sJ", len(data), tag))
	r.mu.Unlock()
	r.inner.SendPacket(simnet.Packet{To: serverAddr, From: clientAddr, Data: data})
}

// release delivers the held-back client datagrams, oldest first, and stops holding
func (r *wireRouter) release() int {
	r.mu.Lock()
	held := r.held
	r.held = nil
	r.deliverFirst = 1 << 30
	for _, p := range held {
		hs, tok, _, npk := classify(p.Data)
		r.ev = append(r.ev, evIn(len(p.Data), hs, tok, npk))
	}
	r.mu.Unlock()
	for _, p := range held {
		r.inner.SendPacket(p)
	}
	return len(held)
}

func (r *wireRouter) drain() string {
	r.mu.Lock()
	defer r.mu.Unlock()
	s := strings.Join(r.ev, ",")
	r.ev = nil
	if s == "" {
		return "-"
	}
	return s
}

type runner struct {
	rt       *wireRouter
	sconn    *simnet.SimConn
	cconn    *simnet.SimConn
	str, ctr *quic.Transport
	ln       *quic.Listener
	cancel   context.CancelFunc
	started  bool
	closed   bool
	injPN    protocol.PacketNumber
	script   []string // scripted case: the remaining ops
}

func newRunner(r *vh.Rand) vh.Runner { return &runner{} }

func (rn *runner) GenOp(r *vh.Rand, i int) string {
	if i == 0 && r.Chance(12) {
		// packets that arrive BEFORE the connection has the keys for them (the rest of the ClientHello is still held back),
		// then the held-back datagrams: buffered packets are handled a second time
		rn.script = []string{"run 100"}
		for n := 1 + r.Intn(3); n > 0; n-- {
			switch r.Intn(4) {
			case 0:
				rn.script = append(rn.script, fmt.Sprintf("forgedhs %d %s", []int64{40, 300, 1150}[r.Intn(3)], []string{"o", "s"}[r.Intn(2)]))
			case 1:
				rn.script = append(rn.script, fmt.Sprintf("coalesced Y %d %d", 1+r.Intn(6), []int{0, 20, 150}[r.Intn(3)]))
			case 2:
				rn.script = append(rn.script, fmt.Sprintf("garbage %d", []int64{40, 400, 1200}[r.Intn(3)]))
			default:
				rn.script = append(rn.script, fmt.Sprintf("run %d", []int64{1, 100, 1000}[r.Intn(3)]))
			}
		}
		rn.script = append(rn.script, "release", "run 100", "run 1000", "run 3000")
		return fmt.Sprintf("start %d 0 1 %d 0", r.Intn(2), r.Intn(2))
	}
	if len(rn.script) > 0 {
		op := rn.script[0]
		rn.script = rn.script[1:]
		return op
	}
	if i == 0 {
		long := 1
		if r.Chance(20) {
			long = 0
		}
		retry := 0
		if r.Chance(20) {
			retry = 1
		}
		first := []int{1, 2, 2, 2, 3, 3, 64}[r.Intn(7)]
		if retry == 1 && first < 2 {
			first = 2
		}
		dropHS := 1
		if r.Chance(25) {
			dropHS = 0
		}
		var mask uint64
		if r.Chance(20) {
			mask = r.U64() & 0xfffc // never the first two datagrams (the ClientHello spans two Initial packets)
		}
		return fmt.Sprintf("start %d %d %d %d %x", long, retry, first, dropHS, mask)
	}
	if i == 1 {
		return "run 1000"
	}
	if r.Chance(30) {
		return fmt.Sprintf("coalesced %s %d %d", []string{"I", "I", "Z", "G", "H", "H", "D", "Y"}[r.Intn(8)], 2+r.Intn(5), []int{0, 0, 20, 150}[r.Intn(4)])
	}
	if r.Chance(14) {
		return fmt.Sprintf("forgedhs %d %s", []int64{24, 40, 300, 1150}[r.Intn(4)], []string{"o", "s"}[r.Intn(2)])
	}
	if r.Chance(4) {
		return "release"
	}
	switch r.Pick(45, 15, 10, 15, 15) {
	case 0:
		return fmt.Sprintf("run %d", []int64{1, 10, 100, 300, 1000, 3000}[r.Intn(6)])
	case 1:
		return fmt.Sprintf("garbage %d", []int64{25, 40, 100, 400, 1200}[r.Intn(5)])
	case 2:
		return "badinitial"
	case 3:
		return "pinginitial"
	default:
		return "closeserver"
	}
}

func (rn *runner) res(head string) string {
	synctest.Wait()
	n, hs, hr, hv := quic.VerifAmpServerConnStates(rn.str)
	v := 0
	if hv {
		v = 1
	}
	return fmt.Sprintf("%s ev=%s | conns=%d hr=%d hs=%d hv=%d pr=%d", head, rn.rt.drain(), n, hr, hs, v, quic.VerifAmpServerConnPackets(rn.str))
}

func (rn *runner) Exec(op string) string {
	f := strings.Fields(op)
	if len(f) == 0 {
		return "bad-op"
	}
	if f[0] == "start" {
		if rn.started || len(f) != 6 {
			return "skip"
		}
		rn.started = true
		mask, _ := strconv.ParseUint(f[5], 16, 64)
		rn.rt = &wireRouter{deliverFirst: int(vh.Atoi64(f[3])), dropHS: f[4] == "1", dropMask: mask}
		rn.sconn = simnet.NewSimConn(serverAddr, rn.rt)
		rn.cconn = simnet.NewSimConn(clientAddr, rn.rt)
		rn.str = &quic.Transport{Conn: rn.sconn}
		if f[2] == "1" {
			rn.str.VerifySourceAddress = func(net.Addr) bool { return true }
		}
		tc := tlsShort
		if f[1] == "1" {
			tc = tlsLong
		}
		ln, err := rn.str.Listen(tc.Clone(), &quic.Config{DisablePathMTUDiscovery: true})
		if err != nil {
			return "E:listen"
		}
		rn.ln = ln
		rn.ctr = &quic.Transport{Conn: rn.cconn}
		ctx, cancel := context.WithCancel(context.Background())
		rn.cancel = cancel
		go func() {
			conn, err := rn.ctr.Dial(ctx, serverAddr, tlsClient.Clone(), &quic.Config{DisablePathMTUDiscovery: true})
			if err == nil {
				<-ctx.Done()
				conn.CloseWithError(0, "")
			}
		}()
		return rn.res("ok")
	}
	if !rn.started {
		return "skip"
	}
	switch f[0] {
	case "run":
		time.Sleep(time.Duration(vh.Atoi64(f[1])) * time.Millisecond)
		return rn.res("ok")
	case "garbage":
		rn.rt.mu.Lock()
		scid := rn.rt.serverSCID
		rn.rt.mu.Unlock()
		if scid.Len() == 0 {
			return rn.res("skip")
		}
		n := int(vh.Atoi64(f[1]))
		data := make([]byte, 0, n)
		data = append(data, 0x40)
		data = append(data, scid.Bytes()...)
		for len(data) < n {
			data = append(data, byte(len(data)*31+7))
		}
		rn.rt.inject(data, "")
		return rn.res("ok")
	case "badinitial":
		rn.rt.mu.Lock()
		scid, odcid, cscid, v := rn.rt.serverSCID, rn.rt.origDCID, rn.rt.clientSCID, rn.rt.version
		rn.rt.mu.Unlock()
		if scid.Len() == 0 || odcid.Len() == 0 {
			return rn.res("skip")
		}
		rn.injPN++
		rn.rt.inject(smallInitial(odcid, scid, cscid, v, []byte{0x1e, 0, 0, 0, 0, 0, 0, 0}, 1000+rn.injPN), "") // HANDSHAKE_DONE + PADDING
		return rn.res("ok")
	case "pinginitial":
		rn.rt.mu.Lock()
		scid, odcid, cscid, v := rn.rt.serverSCID, rn.rt.origDCID, rn.rt.clientSCID, rn.rt.version
		rn.rt.mu.Unlock()
		if scid.Len() == 0 || odcid.Len() == 0 {
			return rn.res("skip")
		}
		rn.injPN++
		rn.rt.inject(smallInitial(odcid, scid, cscid, v, []byte{0x01, 0, 0, 0, 0, 0, 0, 0}, 1000+rn.injPN), "") // PING + PADDING
		return rn.res("ok")
	case "coalesced":
		if len(f) != 4 {
			return "bad-op"
		}
		rn.rt.mu.Lock()
		scid, odcid, cscid, v := rn.rt.serverSCID, rn.rt.origDCID, rn.rt.clientSCID, rn.rt.version
		rn.rt.mu.Unlock()
		if scid.Len() == 0 || odcid.Len() == 0 {
			return rn.res("skip")
		}
		k, pad := int(vh.Atoi64(f[2])), int(vh.Atoi64(f[3]))
		if k < 1 || k > 8 || pad < 0 || pad > 400 {
			return "bad-op"
		}
		ping := append([]byte{0x01}, make([]byte, 7+pad)...)
		var data []byte
		switch f[1] {
		case "I":
			for i := 0; i < k; i++ {
				rn.injPN++
				data = append(data, smallInitial(odcid, scid, cscid, v, ping, 1000+rn.injPN)...)
			}
		case "Z":
			rn.injPN++
			data = smallInitial(odcid, scid, cscid, v, ping, 1000+rn.injPN)
			for i := 1; i < k; i++ {
				data = append(data, longJunk(protocol.PacketType0RTT, scid, cscid, v, 40+pad)...)
			}
		case "G":
			rn.injPN++
			data = smallInitial(odcid, scid, cscid, v, ping, 1000+rn.injPN)
			for i := 0; i < (k-1)*pad; i++ {
				data = append(data, byte(i*13+5)&0x3f)
			}
		case "H":
			rn.injPN++
			data = smallInitial(odcid, scid, cscid, v, ping, 1000+rn.injPN)
			for i := 1; i < k; i++ {
				data = append(data, longJunk(protocol.PacketTypeHandshake, scid, cscid, v, 40+pad)...)
			}
		case "Y":
			for i := 0; i < k; i++ {
				data = append(data, longJunk(protocol.PacketType0RTT, scid, cscid, v, 40+pad)...)
			}
		case "D":
			rn.injPN++
			one := smallInitial(odcid, scid, cscid, v, ping, 1000+rn.injPN)
			for i := 0; i < k; i++ {
				data = append(data, one...)
			}
		default:
			return "bad-op"
		}
		rn.rt.inject(data, "")
		return rn.res("ok")
	case "forgedhs":
		if len(f) != 3 {
			return "bad-op"
		}
		rn.rt.mu.Lock()
		scid, odcid, cscid, v := rn.rt.serverSCID, rn.rt.origDCID, rn.rt.clientSCID, rn.rt.version
		rn.rt.mu.Unlock()
		n := int(vh.Atoi64(f[1]))
		if n < 20 || n > 1300 {
			return "bad-op"
		}
		dst := scid
		if f[2] == "o" {
			dst = odcid
		}
		if dst.Len() == 0 {
			return rn.res("skip")
		}
		rn.rt.inject(longJunk(protocol.PacketTypeHandshake, dst, cscid, v, n), "")
		return rn.res("ok")
	case "release":
		if rn.rt.release() == 0 {
			return rn.res("skip")
		}
		return rn.res("ok")
	case "closeserver":
		if rn.closed {
			return rn.res("skip")
		}
		rn.closed = true
		go rn.ln.Close()
		return rn.res("ok")
	}
	return "bad-op"
}

// smallInitial builds a correctly protected client Initial packet with the given payload. HANDSHAKE_DONE is
// not allowed in Initial packets (and never sent by a client): the server closes with a transport error.
func smallInitial(odcid, dcid, scid protocol.ConnectionID, v protocol.Version, payload []byte, pn protocol.PacketNumber) []byte {
	sealer, _ := handshake.NewInitialAEAD(odcid, protocol.PerspectiveClient, v)
	hdr := &wire.ExtendedHeader{
		Header: wire.Header{Type: protocol.PacketTypeInitial, DestConnectionID: dcid, SrcConnectionID: scid, Version: v,
			Length: protocol.ByteCount(4 + len(payload) + sealer.Overhead())},
		PacketNumber: pn, PacketNumberLen: protocol.PacketNumberLen4,
	}
	raw, err := hdr.Append(nil, v)
	if err != nil {
		return []byte{0x40}
	}
	hdrLen := len(raw)
	sealed := sealer.Seal(nil, payload, pn, raw[:hdrLen])
	raw = append(raw[:hdrLen:hdrLen], sealed...)
	pnOffset := hdrLen - 4
	sealer.EncryptHeader(raw[pnOffset+4:pnOffset+4+16], &raw[0], raw[pnOffset:pnOffset+4])
	return raw
}

// longJunk is a 0-RTT / Handshake long-header packet for this connection whose payload no key of the connection sealed
func longJunk(typ protocol.PacketType, dcid, scid protocol.ConnectionID, v protocol.Version, n int) []byte {
	hdr := &wire.ExtendedHeader{
		Header: wire.Header{Type: typ, DestConnectionID: dcid, SrcConnectionID: scid, Version: v,
			Length: protocol.ByteCount(4 + n)},
		PacketNumber: 7, PacketNumberLen: protocol.PacketNumberLen4,
	}
	raw, err := hdr.Append(nil, v)
	if err != nil {
		return nil
	}
	for i := 0; i < n; i++ {
		raw = append(raw, byte(i*29+11))
	}
	return raw
}

func (rn *runner) Close() {
	if !rn.started {
		return
	}
	if rn.cancel != nil {
		rn.cancel()
	}
	if !rn.closed {
		go rn.ln.Close()
	}
	synctest.Wait()
	rn.ctr.Close()
	rn.str.Close()
	rn.cconn.Close()
	rn.sconn.Close()
	synctest.Wait()
}

func TestDriver(t *testing.T) {
	synctest.Test(t, func(t *testing.T) { vh.Main(t, "ampe2e", newRunner) })
}
