//go:build verif

// Package cong drives the real congestion controller (congestion.NewCubicSender with the
// arguments the production call sites use: reno = true), its pacer and hybrid slow start, a real
// utils.RTTStats and sentPacketHandler.SendMode for property C20. Times are explicit nanoseconds.
package cong

import (
	"fmt"
	"math"
	"strings"
	"testing"
	"time"

	"github.com/refraction-networking/uquic/internal/ackhandler"
	"github.com/refraction-networking/uquic/internal/congestion"
	"github.com/refraction-networking/uquic/internal/monotime"
	"github.com/refraction-networking/uquic/internal/protocol"
	"github.com/refraction-networking/uquic/internal/utils"
	"github.com/refraction-networking/uquic/internal/verifharness/vh"
)

type vclock struct{ now int64 }

func (c *vclock) Now() monotime.Time { return monotime.Time(c.now) }

type pkt struct {
	pn, size, t int64
}

const (
	styleBulk = iota
	styleAppLimited
	styleLossy
	styleEdge
	styleLong
	styleCap
)

type runner struct {
	s     *congestion.VerifSender
	rtt   *utils.RTTStats
	clock *vclock

	// generator state (a simulated connection)
	style   int
	queue   []string
	now     int64
	nextPN  int64
	out     []pkt
	bif     int64
	mds     int64
	baseRTT int64
	bloat   int64
	started bool
	blast   int // remaining sends of a burst (send as fast as window and pacer allow)
	cap     *capPlan // styleCap: the scripted part of the case (nil once it is over)
	back    bool  // this burst is stamped with strictly decreasing times (a non-monotonic clock reading per packet)
	sendT   int64 // time stamp of the next send (0: now)
	lastT   int64 // time stamp of the previous send
}

func (rn *runner) mk(mds int64, zeroRTT bool) {
	if zeroRTT {
		rn.rtt = &utils.RTTStats{}
	} else {
		rn.rtt = utils.NewRTTStats()
	}
	rn.clock = &vclock{}
	rn.s = congestion.NewCubicSender(rn.clock, rn.rtt, &utils.ConnectionStats{}, protocol.ByteCount(mds), true /* as every production call site */, nil)
}

func newRunner(r *vh.Rand) vh.Runner {
	rn := &runner{mds: 1252}
	rn.mk(1252, false)
	// the cap style is expensive (tens of thousands of acknowledgements per case): about 1 case in 100
	if r.Chance(1) {
		rn.style = styleCap
	} else {
		rn.style = r.Pick(40, 18, 22, 12, 8)
	}
	rn.now = 1 + r.Range(0, 3_600_000_000_000)
	rn.baseRTT = []int64{100_000, 1_000_000, 10_000_000, 50_000_000, 300_000_000}[r.Intn(5)]
	return rn
}

var edgeTimes = []int64{0, 1, -1, 2, 1_000_000, math.MaxInt64, math.MaxInt64 - 1, math.MinInt64, math.MinInt64 + 1, 1 << 62, -(1 << 62), 1 << 32}
var edgeSizes = []int64{0, 1, 2, 1199, 1200, 1252, 1280, 1452, 1500, 65535, 65536, 1 << 20, 1 << 31, 1 << 40, 1 << 62}
var edgeRTT = []int64{0, 1, -1, 999, 1000, 1_000_000, 100_000_000, 2_504_000_000_000, 50_000_000_000_000, 1 << 53, math.MaxInt64, math.MinInt64, -1_000_000}
var edgeMDS = []int64{0, 1, 2, 1200, 1252, 1452, 9000, 65535, 1 << 20, 1_000_000_000}

func pick(r *vh.Rand, xs []int64) int64 { return xs[r.Intn(len(xs))] }

func (rn *runner) cwnd() int64 { return int64(rn.s.GetCongestionWindow()) }

// safe wrappers for generator-side peeks at the real object
func (rn *runner) untilSend() (t int64, ok bool) {
	defer func() {
		if recover() != nil {
			ok = false
		}
	}()
	return int64(rn.s.TimeUntilSend(0)), true
}

func (rn *runner) genSend(r *vh.Rand, force bool) string {
	size := rn.mds
	if r.Chance(20) && rn.mds > 1 {
		size = r.Range(1, rn.mds)
	}
	ae := 1
	if r.Chance(8) {
		ae = 0
		size = r.Range(20, 60)
	}
	if force && r.Chance(50) { // a probe packet / pure ACK sent without asking the controller
		if r.Bool() {
			ae = 0
			size = r.Range(20, 60)
		}
	}
	pn := rn.nextPN
	rn.nextPN++
	if r.Chance(3) {
		rn.nextPN += r.Range(1, 3) // skipped packet numbers
	}
	t := rn.now
	if rn.sendT != 0 {
		t, rn.sendT = rn.sendT, 0
	}
	rn.lastT = t
	if ae == 1 {
		rn.out = append(rn.out, pkt{pn, size, t})
		rn.bif += size
	}
	return fmt.Sprintf("sent %d %d %d %d", t, pn, size, ae)
}

// an ACK frame as sent_packet_handler processes it: RTT sample, MaybeExitSlowStart, then
// OnPacketAcked for every newly acknowledged packet with the same priorInFlight.
func (rn *runner) genAckFrame(r *vh.Rand) string {
	if len(rn.out) == 0 {
		return fmt.Sprintf("cansend %d", rn.bif)
	}
	k := 1 + r.Pick(55, 25, 12, 8)
	if rn.style == styleLong {
		k = 1 + r.Intn(40)
	}
	if k > len(rn.out) {
		k = len(rn.out)
	}
	start := 0
	if r.Chance(12) && len(rn.out) > k { // reordering: not the oldest
		start = r.Intn(len(rn.out) - k + 1)
	}
	acked := append([]pkt(nil), rn.out[start:start+k]...)
	rn.out = append(rn.out[:start], rn.out[start+k:]...)
	largest := acked[len(acked)-1]
	if r.Chance(15) {
		rn.bloat += r.Range(0, rn.baseRTT/4+2_000_000)
	}
	arrive := largest.t + rn.baseRTT + rn.bloat + r.Range(0, rn.baseRTT/8+1)
	if arrive > rn.now {
		rn.now = arrive
	}
	prior := rn.bif
	var q []string
	if !r.Chance(10) { // the largest acked was newly acked and ack-eliciting: RTT sample
		ackDelay := int64(0)
		if r.Chance(40) {
			ackDelay = r.Range(0, 25_000_000)
		}
		q = append(q, fmt.Sprintf("rtt %d %d", rn.now-largest.t, ackDelay))
		q = append(q, "exitss")
	}
	if r.Chance(4) { // ECN-CE: congestion event for the largest acked
		q = append(q, fmt.Sprintf("lost %d 0 %d", largest.pn, prior))
	}
	// consecutive packet numbers of equal size are one batch line
	for i := 0; i < len(acked); {
		j := i + 1
		for j < len(acked) && acked[j].pn == acked[j-1].pn+1 && acked[j].size == acked[i].size {
			j++
		}
		q = append(q, fmt.Sprintf("acked %d %d %d %d %d", acked[i].pn, acked[i].size, prior, rn.now, j-i))
		i = j
	}
	for _, p := range acked {
		rn.bif -= p.size
	}
	rn.queue = append(rn.queue, q[1:]...)
	return q[0]
}

// a run of ACK frames each acknowledging one packet of the current round: RTT sample (rising, steady
// or falling) + MaybeExitSlowStart, enough of them to reach hybrid slow start's per-round check.
func (rn *runner) genHyStartRound(r *vh.Rand) string {
	n := int(r.Range(1, 12))
	trend := []int64{0, rn.baseRTT / 6, rn.baseRTT / 2, 3_000_000, -rn.baseRTT / 20}[r.Intn(5)]
	d := rn.baseRTT + r.Range(0, rn.baseRTT/10)
	var q []string
	for i := 0; i < n; i++ {
		d += trend + r.Range(0, 200_000)
		if d < 1 {
			d = 1
		}
		q = append(q, fmt.Sprintf("rtt %d 0", d), "exitss")
	}
	if r.Chance(8) && rn.mds < 20000 && rn.s.InSlowStart() {
		// a large MTU step during slow start: the window (in packets) drops below hybrid slow start's low-window mark
		rn.mds *= 3
		q = append([]string{fmt.Sprintf("mds %d", rn.mds)}, q...)
	}
	rn.queue = append(rn.queue, q[1:]...)
	return q[0]
}

// The maximum window reached and held in CONGESTION AVOIDANCE.  The window is 10000 packets at most, so
// no random history gets there except through slow start; this script does it with few operation
// lines: (1) slow start with large ACK frames (priorInFlight = the window: limited) up to `stop` packets
// below the maximum, optionally with an MTU step on the way so that the window is no multiple of the
// datagram size when it passes the maximum; (2) hybrid slow start sees a delay increase (eight RTT
// samples well above the minimum) and ends slow start WITHOUT a loss, so the window stays where it is;
// (3) `windows` more windows of acknowledgements in Reno congestion avoidance (one packet of growth per
// window of ACKs), in ACK frames of 1..4000 packets, with queries, single sends and no-op events in
// between.  Phase (3) is where a missing "already at the maximum" check in the congestion-avoidance
// branch shows: monitors no_growth_at_max and cwnd_upper_bound.
type capPlan struct {
	mds0    int64
	mtuAt   int64 // raise the datagram size when the window passes this many packets (0: never)
	mtuTo   int64
	stop    int64 // leave slow start this many packets below the maximum (0: at or above it)
	acksCA  int64 // acknowledgements still to deliver in congestion avoidance
	phase   int
	tries   int
	maxStep int64
}

func newCapPlan(r *vh.Rand) *capPlan {
	p := &capPlan{mds0: []int64{1200, 1252, 1280, 1452, r.Range(1200, 1500)}[r.Intn(5)]}
	if r.Chance(50) {
		p.mtuAt = r.Range(40, 9990)
		p.mtuTo = p.mds0 + []int64{1, 48, 200, r.Range(1, 300)}[r.Intn(4)]
	}
	p.stop = []int64{0, 0, 0, 1, 1, 2}[r.Intn(6)]
	p.acksCA = (p.stop+2)*10001 + r.Range(10, 6000)
	p.maxStep = []int64{4000, 4000, 2500, 1000}[r.Intn(4)]
	return p
}

const maxCwndPackets = protocol.MaxCongestionWindowPackets

// one ACK frame of n full-size packets while window-limited: the sent line now, the acked line queued
func (rn *runner) capBatch(r *vh.Rand, n int64) string {
	first := rn.nextPN
	rn.nextPN += n
	rn.now += r.Range(1, rn.baseRTT)
	prior := rn.cwnd()
	if r.Chance(30) { // within three packets of the window: still limited
		prior -= r.Range(0, 3) * rn.mds
	} else if r.Chance(20) {
		prior += r.Range(0, 10) * rn.mds // more in flight than the window (after an earlier reduction / probe packets)
	}
	if prior < 0 {
		prior = 0
	}
	rn.queue = append(rn.queue, fmt.Sprintf("acked %d %d %d %d %d", first, rn.mds, prior, rn.now, n))
	return fmt.Sprintf("sent %d %d %d 1", rn.now, rn.nextPN-1, rn.mds)
}

func (rn *runner) genCap(r *vh.Rand) string {
	p := rn.cap
	wp := rn.cwnd() / rn.mds // window in packets
	switch p.phase {
	case 0: // the estimator's minimum RTT
		p.phase = 1
		rn.queue = append(rn.queue, "exitss")
		return fmt.Sprintf("rtt %d 0", rn.baseRTT)
	case 1: // slow start
		if !rn.s.InSlowStart() { // left early (not expected): go on with what there is
			p.phase = 3
			return "exitss"
		}
		target := int64(maxCwndPackets) - p.stop
		if p.mtuAt != 0 && wp >= p.mtuAt {
			p.mtuAt = 0
			rn.mds = p.mtuTo
			return fmt.Sprintf("mds %d", rn.mds)
		}
		if p.mtuAt != 0 && p.mtuAt < target {
			target = p.mtuAt
		}
		if rn.cwnd() >= (int64(maxCwndPackets)-p.stop)*rn.mds {
			p.phase = 2
			return fmt.Sprintf("cansend %d", rn.cwnd())
		}
		// in slow start every acknowledgement adds one datagram size
		n := (target*rn.mds - rn.cwnd() + rn.mds - 1) / rn.mds
		if n > p.maxStep {
			n = r.Range(p.maxStep/2, p.maxStep)
		}
		if n < 1 {
			n = 1
		}
		return rn.capBatch(r, n)
	case 2: // hybrid slow start: a round whose eight first RTT samples are far above the minimum
		if !rn.s.InSlowStart() {
			p.phase = 3
			return fmt.Sprintf("cansend %d", rn.cwnd()-1)
		}
		p.tries++
		if p.tries > 40 {
			return ""
		}
		rn.now += 1000
		rn.queue = append(rn.queue, "exitss")
		return fmt.Sprintf("rtt %d 0", rn.baseRTT*2+40_000_000+r.Range(0, 1_000_000))
	default: // congestion avoidance at / just below the maximum
		if p.acksCA <= 0 {
			return ""
		}
		switch r.Pick(70, 10, 8, 6, 6) {
		case 0:
			n := r.Range(1, p.maxStep)
			if r.Chance(15) {
				n = r.Range(1, 30)
			}
			p.acksCA -= n
			return rn.capBatch(r, n)
		case 1:
			return rn.genQuery(r)
		case 2:
			rn.now += r.Range(0, rn.baseRTT)
			return rn.genSend(r, true)
		case 3:
			return "exitss"
		default:
			// an RTT sample; or a loss report for a packet of a window that was already reduced (none was: the mark is -1)
			if r.Bool() {
				return fmt.Sprintf("rtt %d %d", rn.baseRTT+r.Range(0, rn.baseRTT), r.Range(0, 1_000_000))
			}
			return fmt.Sprintf("mds %d", rn.mds) // SetMaxDatagramSize with the current size: no change
		}
	}
}

func (rn *runner) genLoss(r *vh.Rand) string {
	if len(rn.out) == 0 {
		return fmt.Sprintf("lost %d %d %d", r.Range(-1, rn.nextPN+2), rn.mds, rn.bif)
	}
	i := 0
	if r.Chance(25) {
		i = r.Intn(len(rn.out))
	}
	p := rn.out[i]
	rn.out = append(rn.out[:i], rn.out[i+1:]...)
	prior := rn.bif
	rn.bif -= p.size
	return fmt.Sprintf("lost %d %d %d", p.pn, p.size, prior)
}

func (rn *runner) genMDS(r *vh.Rand) string {
	m := rn.mds
	switch r.Pick(45, 25, 15, 15) {
	case 0:
		m = rn.mds + r.Range(1, 300)
	case 1:
		if rn.mds < 1452 {
			m = 1452
		} else {
			m = rn.mds + 48
		}
	case 2: // same size
	case 3: // a decrease: the code panics ("congestion BUG")
		m = rn.mds - r.Range(1, 100)
		if m < 0 {
			m = 0
		}
	}
	if m >= rn.mds {
		rn.mds = m
	}
	return fmt.Sprintf("mds %d", m)
}

func (rn *runner) genQuery(r *vh.Rand) string {
	w := rn.cwnd()
	switch r.Pick(30, 25, 20, 25) {
	case 0:
		b := []int64{rn.bif, w - 1, w, w + 1, r.Range(0, 2*w+1), 0}[r.Intn(6)]
		if b < 0 {
			b = 0
		}
		return fmt.Sprintf("cansend %d", b)
	case 1:
		t := rn.now
		if r.Bool() {
			t += r.Range(0, 5_000_000)
		}
		return fmt.Sprintf("budget %d", t)
	case 2:
		return "until"
	default:
		b := []int64{rn.bif, w - 1, w, w + 1, r.Range(0, 2*w+1)}[r.Intn(5)]
		if b < 0 {
			b = 0
		}
		amp, probes, pto := 0, 0, 4
		if r.Chance(8) {
			amp = 1
		}
		if r.Chance(15) {
			probes = int(r.Range(1, 2))
			pto = int(r.Range(2, 4))
		}
		return fmt.Sprintf("mode %d %d %d %d %d", amp, probes, pto, b, rn.now)
	}
}

func (rn *runner) genEdge(r *vh.Rand) string {
	t := func() int64 {
		if r.Chance(50) {
			return pick(r, edgeTimes)
		}
		return rn.now + r.Range(-1_000_000, 1_000_000_000)
	}
	sz := func() int64 {
		if r.Chance(50) {
			return pick(r, edgeSizes)
		}
		return r.Range(0, 3000)
	}
	pn := func() int64 {
		return []int64{-1, 0, 1, rn.nextPN, rn.nextPN - 1, r.Range(0, 50), math.MaxInt64, r.Range(0, 1<<40)}[r.Intn(8)]
	}
	switch r.Pick(18, 14, 8, 8, 6, 10, 10, 8, 8, 6, 4) {
	case 0:
		rn.nextPN++
		return fmt.Sprintf("sent %d %d %d %d", t(), pn(), sz(), r.Intn(2))
	case 1:
		return fmt.Sprintf("acked %d %d %d %d %d", pn(), sz(), sz(), t(), 1+r.Pick(80, 15, 5)*r.Intn(6))
	case 2:
		return fmt.Sprintf("lost %d %d %d", pn(), sz(), sz())
	case 3:
		return "exitss"
	case 4:
		m := pick(r, edgeMDS)
		return fmt.Sprintf("mds %d", m)
	case 5:
		return fmt.Sprintf("rtt0 %d", pick(r, edgeRTT))
	case 6:
		return fmt.Sprintf("rtt %d %d", pick(r, edgeRTT), pick(r, edgeRTT))
	case 7:
		return fmt.Sprintf("budget %d", t())
	case 8:
		return "until"
	case 9:
		return fmt.Sprintf("cansend %d", sz())
	default:
		// ptoMode is only ever SendNone or one of the three PTO modes (sent_packet_handler.go)
		return fmt.Sprintf("mode %d %d %d %d %d", r.Intn(2), r.Intn(2), []int64{0, 2, 3, 4}[r.Intn(4)], sz(), t())
	}
}

func (rn *runner) GenOp(r *vh.Rand, i int) string {
	if len(rn.queue) > 0 {
		op := rn.queue[0]
		rn.queue = rn.queue[1:]
		return op
	}
	if !rn.started {
		rn.started = true
		if rn.style == styleCap {
			rn.cap = newCapPlan(r)
			rn.mds = rn.cap.mds0
			return fmt.Sprintf("new %d 0", rn.mds)
		}
		if rn.style == styleEdge {
			rn.mds = pick(r, edgeMDS)
		} else {
			rn.mds = []int64{1200, 1252, 1280, 1452, 1500, 9000, r.Range(1200, 1500), r.Range(1200, 65535)}[r.Intn(8)]
		}
		z := 0
		if r.Chance(15) {
			z = 1
		}
		return fmt.Sprintf("new %d %d", rn.mds, z)
	}
	if rn.style == styleCap && rn.cap != nil {
		if op := rn.genCap(r); op != "" {
			return op
		}
		rn.cap = nil // the script is over: carry on like the long style, at the maximum window
	}
	switch rn.style {
	case styleEdge:
		return rn.genEdge(r)
	case styleLong, styleCap:
		// ramp the window with large ACK frames (priorInFlight = the window: limited), then losses and
		// congestion avoidance at large windows
		switch r.Pick(20, 40, 8, 6, 12, 4, 10) {
		case 0:
			rn.now += r.Range(0, rn.baseRTT)
			return rn.genSend(r, true)
		case 1:
			n := r.Range(1, 4000)
			first := rn.nextPN
			rn.nextPN += n
			rn.now += r.Range(0, rn.baseRTT)
			prior := rn.cwnd() - r.Range(0, 4)*rn.mds*int64(r.Intn(2))
			if prior < 0 {
				prior = 0
			}
			rn.queue = append(rn.queue, fmt.Sprintf("acked %d %d %d %d %d", first, rn.mds, prior, rn.now, n))
			return fmt.Sprintf("sent %d %d %d 1", rn.now, rn.nextPN-1, rn.mds)
		case 2:
			return rn.genLoss(r)
		case 3:
			return rn.genMDS(r)
		case 4:
			return rn.genQuery(r)
		case 5:
			return rn.genAckFrame(r)
		default:
			return rn.genHyStartRound(r)
		}
	}
	// bulk / app-limited / lossy: a simulated connection
	wSend, wAck, wLoss, wMDS, wQuery, wIdle := 46, 24, 2, 2, 12, 6
	switch rn.style {
	case styleAppLimited:
		wSend, wAck, wIdle = 22, 30, 22
	case styleLossy:
		wLoss, wMDS = 14, 5
	}
	sel := r.Pick(wSend, wAck, wLoss, wMDS, wQuery, wIdle, 4)
	if rn.blast > 0 {
		rn.blast--
		sel = 0
	} else if sel == 0 && r.Chance(35) {
		rn.blast = int(r.Range(2, 40))
		rn.back = r.Chance(30)
	}
	switch sel {
	case 0:
		can := rn.s.CanSend(protocol.ByteCount(rn.bif))
		if !can {
			rn.blast = 0
			if r.Chance(12) {
				return rn.genSend(r, true) // PTO probe / ACK-only packet while congestion limited
			}
			return rn.genAckFrame(r)
		}
		// time stamp of this packet: now, or (non-monotonic stamps) a little before the previous send
		stamp := rn.now
		if rn.lastT > 1_000_000 && ((rn.blast > 0 && rn.back) || r.Chance(4)) {
			stamp = rn.lastT - r.Range(1, 2000)
		}
		if stamp != rn.now {
			if rn.s.HasPacingBudget(monotime.Time(stamp)) {
				rn.sendT = stamp
				return rn.genSend(r, false)
			}
			rn.back = false
		}
		if !rn.s.HasPacingBudget(monotime.Time(rn.now)) {
			switch r.Pick(60, 25, 15) {
			case 0: // wait for the pacing timer
				if t, ok := rn.untilSend(); ok && t > rn.now {
					rn.now = t
					if r.Chance(30) {
						rn.now += r.Range(0, 2_000_000)
					}
				} else {
					rn.now += r.Range(1, 2_000_000)
				}
				return fmt.Sprintf("budget %d", rn.now)
			case 1:
				return rn.genSend(r, true) // ACK-only packet while pacing limited
			default:
				return "until"
			}
		}
		if rn.blast == 0 && r.Chance(25) {
			rn.now += r.Range(0, 300_000)
		}
		return rn.genSend(r, false)
	case 1:
		return rn.genAckFrame(r)
	case 2:
		return rn.genLoss(r)
	case 3:
		return rn.genMDS(r)
	case 4:
		return rn.genQuery(r)
	case 5:
		if r.Chance(25) {
			rn.now += r.Range(1_000_000_000, 100_000_000_000) // a long idle period
		} else {
			rn.now += r.Range(0, 4*rn.baseRTT)
		}
		return fmt.Sprintf("budget %d", rn.now)
	default:
		if r.Chance(60) {
			return rn.genHyStartRound(r)
		}
		return "exitss"
	}
}

func b2s(b bool) string {
	if b {
		return "1"
	}
	return "0"
}

func (rn *runner) suffix() string {
	th, na, b, t := rn.s.VerifState()
	return fmt.Sprintf(" | w=%d ss=%s rec=%s th=%d na=%d B=%d T=%d", int64(rn.s.GetCongestionWindow()),
		b2s(rn.s.InSlowStart()), b2s(rn.s.InRecovery()), int64(th), na, int64(b), int64(t))
}

func (rn *runner) rttText() string {
	return fmt.Sprintf("r=%d,%d,%d", int64(rn.rtt.LatestRTT()), int64(rn.rtt.MinRTT()), int64(rn.rtt.SmoothedRTT()))
}

func (rn *runner) AfterPanic(op string) string { return "PANIC" + rn.suffix() }

func (rn *runner) Exec(op string) string {
	f := strings.Fields(op)
	a := func(i int) int64 {
		if i < len(f) {
			return vh.Atoi64(f[i])
		}
		return 0
	}
	res := "bad-op"
	switch f[0] {
	case "new":
		rn.mk(a(1), a(2) == 1)
		res = "ok " + rn.rttText()
	case "rtt":
		rn.rtt.UpdateRTT(time.Duration(a(1)), time.Duration(a(2)))
		res = rn.rttText()
	case "rtt0":
		rn.rtt.SetInitialRTT(time.Duration(a(1)))
		res = rn.rttText()
	case "sent":
		rn.clock.now = a(1)
		hb := rn.s.HasPacingBudget(monotime.Time(a(1)))
		rn.s.OnPacketSent(monotime.Time(a(1)), 0, protocol.PacketNumber(a(2)), protocol.ByteCount(a(3)), a(4) == 1)
		res = "hb=" + b2s(hb)
	case "acked":
		rn.clock.now = a(4)
		n := a(5)
		for i := int64(0); i < n; i++ {
			rn.s.OnPacketAcked(protocol.PacketNumber(a(1)+i), protocol.ByteCount(a(2)), protocol.ByteCount(a(3)), monotime.Time(a(4)))
		}
		res = "ok"
	case "lost":
		rn.s.OnCongestionEvent(protocol.PacketNumber(a(1)), protocol.ByteCount(a(2)), protocol.ByteCount(a(3)))
		res = "ok"
	case "exitss":
		rn.s.MaybeExitSlowStart()
		res = "ok"
	case "mds":
		rn.s.SetMaxDatagramSize(protocol.ByteCount(a(1)))
		res = "ok"
	case "cansend":
		res = b2s(rn.s.CanSend(protocol.ByteCount(a(1))))
	case "budget":
		res = fmt.Sprintf("%d hb=%s", int64(rn.s.VerifBudget(monotime.Time(a(1)))), b2s(rn.s.HasPacingBudget(monotime.Time(a(1)))))
	case "until":
		res = fmt.Sprintf("%d", int64(rn.s.TimeUntilSend(0)))
	case "mode":
		res = ackhandler.VerifSendMode(rn.s, a(1) == 1, int(a(2)), uint8(a(3)), protocol.ByteCount(a(4)), monotime.Time(a(5)))
	}
	return res + rn.suffix()
}

func TestDriver(t *testing.T) { vh.Main(t, "cong", newRunner) }
