//go:build verif

// Package closee is the end-to-end driver of property C17: a real client and server over
// testutils/simnet inside a testing/synctest bubble; one op = one complete scenario.
// It is SUPPORT for the runtime sentences of the property (goroutines released, promptness, idle-timeout
// instants, routing released) and correspondence for the idle-deadline arithmetic.
//
// op:   scn cause=<capp|sapp|idle|kalive|hsdead|hsstall|reset|fatalc|fatals|tclosec|tcloses|dialcancel|cappx|vn|kaprobe>
//
//	timing=<0|1|2> cb=<set|-> sb=<set|-> idle=<ms> sidle=<ms> ka=<ms> kaside=<c|s|b> drop=<k> rtt=<ms> code=<n> at=<ms>
//	ips=<bytes> ut=<0|1> vm=<0|1|2> pm=<0|1> su=<0|1|2> lc=<0|1> cc=<0|1|2|3>
//
// ut=1 dials through a UTransport (nil QUICSpec: UTransport.doDial instead of Transport.doDial).
// cause=vn: the server speaks only QUIC v1, the client offers v2 first, so the first connection is closed "for
// recreating" by a Version Negotiation packet; vm=0 cancels the dial context while that connection writes its
// last packet (the recreate error is already recorded, the run loop has not yet returned), vm=1 cancels at the
// instant `at`, vm=2 never cancels.
// cause=kaprobe: as kalive, and the client probes a second path (Conn.AddPath + Path.Probe) on which nothing
// (pm=0) or nothing from the server (pm=1) is delivered, starting `at` after the trigger.
//
// su=1: the server is made by quic.Listen (a single-use transport the application never sees, so nobody calls its
// Close), su=2: and the client dials with quic.Dial (single-use too). lc=1: the listener is closed while the
// connection is established, before the cause; otherwise after the connection is gone. Both sockets count the
// ReadFrom calls in flight: rd.s / rd.c = is somebody still reading from the socket when everything is over.
// cc: Transport.ConnContext of the server: 0 unset, 1 returns a context derived from the one it is given, 2 / 3 return
// a context that is NOT derived from it (values only / with its own cancel function).
//
// result: key=value fields, see report().
package closee

import (
	"context"
	"crypto/rand"
	"fmt"
	"io"
	"net"
	"os"
	"os/exec"
	"runtime"
	"sort"
	"strconv"
	"strings"
	"sync"
	"sync/atomic"
	"testing"
	"testing/synctest"
	"time"

	quic "github.com/refraction-networking/uquic"
	"github.com/refraction-networking/uquic/internal/verifharness/e2e"
	"github.com/refraction-networking/uquic/internal/verifharness/vh"
	"github.com/refraction-networking/uquic/qlog"
	"github.com/refraction-networking/uquic/qlogwriter"
	"github.com/refraction-networking/uquic/testutils/simnet"
)

// sentLog records, per endpoint, every packet sent with its virtual send instant and whether it is
// ack-eliciting: 0 = not (ACK / CONNECTION_CLOSE only), 1 = only through STREAM frames, 2 = through a control frame.
type sentPkt struct {
	at   int64
	kind int
}

type sentLog struct {
	mu sync.Mutex
	l  []sentPkt
}

func (sl *sentLog) firstAfter(after int64, minKind int) (int64, bool) {
	sl.mu.Lock()
	defer sl.mu.Unlock()
	for _, x := range sl.l {
		if x.at > after && x.kind >= minKind {
			return x.at, true
		}
	}
	return 0, false
}

type dbgRec struct {
	side string
	t0   int64
	log  *sentLog
	// onHandshakeComplete, if set, runs on the run-loop goroutine while it completes the handshake
	onHandshakeComplete func()
	// onVersionNegotiation, if set, runs on the run-loop goroutine while it handles a Version Negotiation packet
	onVersionNegotiation func()
}

func (r dbgRec) RecordEvent(ev qlogwriter.Event) {
	if _, ok := ev.(qlog.ALPNInformation); ok && r.onHandshakeComplete != nil {
		r.onHandshakeComplete()
	}
	if _, ok := ev.(qlog.VersionNegotiationReceived); ok && r.onVersionNegotiation != nil {
		r.onVersionNegotiation()
	}
	if ps, ok := ev.(qlog.PacketSent); ok {
		var fr []string
		kind := 0
		for _, f := range ps.Frames {
			tn := fmt.Sprintf("%T", f.Frame)
			fr = append(fr, tn)
			switch {
			case strings.HasSuffix(tn, ".AckFrame"), strings.HasSuffix(tn, ".ConnectionCloseFrame"):
			case strings.HasSuffix(tn, "qlog.StreamFrame"):
				if kind < 1 {
					kind = 1
				}
			default:
				kind = 2
			}
		}
		now := quic.VerifMonoNow()
		r.log.mu.Lock()
		r.log.l = append(r.log.l, sentPkt{now, kind})
		r.log.mu.Unlock()
		if os.Getenv("VH_QLOG") != "" {
			fmt.Fprintf(os.Stderr, "qlog %s t=%dus sent %v %v\n", r.side, (now-r.t0)/1000, ps.Header.PacketType, fr)
		}
	}
}
func (r dbgRec) Close() error { return nil }

type dbgTrace struct{ r dbgRec }

func (t dbgTrace) AddProducer() qlogwriter.Recorder { return t.r }
func (t dbgTrace) SupportsSchemas(string) bool       { return true }

var theT *testing.T

type runner struct{}

func newRunner(r *vh.Rand) vh.Runner { return &runner{} }

var callNames = []string{"read", "write", "accept", "acceptuni", "open", "openuni", "rcvdgram"}

func genSet(r *vh.Rand, p int) string {
	var l []string
	for _, c := range callNames {
		if r.Chance(p) {
			l = append(l, c)
			// further goroutines blocked in the SAME call on the same connection
			max := map[string]int{"accept": 3, "acceptuni": 2, "open": 3, "openuni": 3, "rcvdgram": 2}[c]
			for k := 2; k <= max && r.Chance(40); k++ {
				l = append(l, fmt.Sprintf("%s%d", c, k))
			}
		}
	}
	if len(l) == 0 {
		return "-"
	}
	return strings.Join(l, ",")
}

var idleChoices = []int64{100, 150, 250, 400, 700, 1000, 2000, 3000, 5000, 10000, 30000}

func (rn *runner) GenOp(r *vh.Rand, i int) string {
	causes := []string{"capp", "sapp", "idle", "kalive", "hsdead", "hsstall", "reset", "fatalc", "fatals", "tclosec", "tcloses", "dialcancel", "cappx", "vn", "kaprobe"}
	cause := causes[r.Pick(15, 15, 17, 6, 4, 4, 8, 6, 6, 5, 5, 7, 2, 9, 8)]
	timing := r.Pick(15, 55, 30)
	if cause == "kaprobe" && timing == 0 {
		// a second path needs the handshake confirmed and spare connection IDs from the server
		timing = 1
	}
	idle := idleChoices[r.Intn(len(idleChoices))]
	sidle := idleChoices[r.Intn(len(idleChoices))]
	if r.Chance(40) {
		sidle = idle
	}
	ka := int64(0)
	if r.Chance(45) || cause == "kalive" || cause == "kaprobe" {
		ka = r.Range(20, 4000)
	}
	if cause == "kalive" || cause == "kaprobe" {
		// the property speaks about keep-alives that are being answered: both ends use the same idle
		// timeout and the keep-alive period is at most half of it (a keep-alive sent later than the
		// peer's own, shorter, idle period cannot keep the peer from timing out)
		if idle > 5000 {
			idle = 5000
		}
		sidle = idle
		ka = r.Range(20, idle/2)
	}
	drop := 0
	if r.Chance(35) {
		drop = int(r.Range(1, 3))
	}
	rtt := []int64{2, 10, 20, 50, 100}[r.Intn(5)]
	code := r.Range(0, 1000)
	at := r.Range(0, 3*rtt+5)
	if cause == "fatalc" || cause == "fatals" {
		code = r.Range(0, 2)
	}
	// cappx: the application closes at the very instant the handshake completes (Initial, Handshake and 1-RTT
	// keys all present); the packet size matters for the coalesced CONNECTION_CLOSE
	ips := int64(0)
	if cause == "cappx" {
		ips = []int64{1200, 1252, 1350, 1436, 1437, 1452}[r.Intn(6)]
	} else if r.Chance(10) {
		// sizes that can hit the known CONNECTION_CLOSE overflow (>= 1437) only in the isolated scenario
		ips = []int64{1200, 1252, 1350, 1436}[r.Intn(4)]
	}
	cb, sb := genSet(r, 55), genSet(r, 55)
	kaside := []string{"c", "s", "b"}[r.Intn(3)]
	// which doDial: Transport's or UTransport's
	ut := 0
	if r.Chance(35) || ((cause == "dialcancel" || cause == "vn") && r.Chance(40)) {
		ut = 1
	}
	vm, pm := 0, 0
	switch cause {
	case "vn":
		vm = r.Pick(50, 30, 20)
		at = r.Range(0, 4*rtt+5)
		if at == rtt {
			at++ // not in the very instant the Version Negotiation packet arrives (the order would be the scheduler's)
		}
	case "kaprobe":
		pm = r.Pick(55, 45)
		// the side whose keep-alives must keep the connection up is the one that sends path probe packets:
		// the client always does, the server only when the client's probes reach it (pm=1)
		kaside = []string{"c", "b", "s"}[r.Pick(60, 15, 25)]
		if pm == 1 {
			kaside = []string{"c", "b", "s"}[r.Pick(35, 15, 50)]
		}
	}
	// who owns the transports: the application (su=0) or quic.Listen / quic.Dial (single-use transports)
	su, lc, cc := 0, 0, 0
	switch cause {
	case "capp", "sapp", "idle", "fatalc", "fatals", "kalive", "hsdead", "dialcancel":
		su = r.Pick(55, 30, 15)
	case "cappx", "vn", "kaprobe", "hsstall":
		su = r.Pick(70, 30)
	}
	if su == 2 {
		ut = 0
	}
	if su >= 1 && r.Chance(60) {
		lc = 1
	}
	if su == 0 && r.Chance(45) {
		cc = 1 + r.Pick(30, 45, 25)
	}
	return fmt.Sprintf("scn cause=%s timing=%d cb=%s sb=%s idle=%d sidle=%d ka=%d kaside=%s drop=%d rtt=%d code=%d at=%d ips=%d ut=%d vm=%d pm=%d su=%d lc=%d cc=%d",
		cause, timing, cb, sb, idle, sidle, ka, kaside, drop, rtt, code, at, ips, ut, vm, pm, su, lc, cc)
}

// ---------------------------------------------------------------- scenario

type callRes struct {
	err  error
	at   int64
	done bool
}

type side struct {
	name  string
	conn  *quic.Conn
	mu    sync.Mutex
	calls map[string]*callRes
	order []string
	ctxAt int64
	cause error
	done  bool
	// streams
	rstr, wstr   *quic.Stream // own R-stream and W-stream
	prstr, pwstr *quic.Stream // the peer's, accepted
}

func (s *side) start(name string, f func() error) {
	cr := &callRes{}
	s.mu.Lock()
	s.calls[name] = cr
	s.order = append(s.order, name)
	s.mu.Unlock()
	go func() {
		err := f()
		at := quic.VerifMonoNow()
		s.mu.Lock()
		cr.err, cr.at, cr.done = err, at, true
		s.mu.Unlock()
	}()
}

func (s *side) watch() {
	go func() {
		<-s.conn.Context().Done()
		at := quic.VerifMonoNow()
		s.mu.Lock()
		s.ctxAt, s.cause, s.done = at, context.Cause(s.conn.Context()), true
		s.mu.Unlock()
	}()
}

func (s *side) isDone() bool {
	s.mu.Lock()
	defer s.mu.Unlock()
	return s.done
}

type params struct {
	cause                          string
	timing                         int
	cb, sb                         []string
	idle, sidle, ka                time.Duration
	kaside                         string
	drop                           int
	rtt                            time.Duration
	code                           uint64
	at                             time.Duration
	ips                            int
	ut, vm, pm                     int
	su, lc, cc                     int
}

func parseOp(op string) (p params, ok bool) {
	f := strings.Fields(op)
	if len(f) < 2 || f[0] != "scn" {
		return p, false
	}
	kv := map[string]string{}
	for _, x := range f[1:] {
		if i := strings.IndexByte(x, '='); i > 0 {
			kv[x[:i]] = x[i+1:]
		}
	}
	ms := func(k string) time.Duration { return time.Duration(vh.Atoi64(kv[k])) * time.Millisecond }
	set := func(k string) []string {
		if kv[k] == "-" || kv[k] == "" {
			return nil
		}
		return strings.Split(kv[k], ",")
	}
	p = params{cause: kv["cause"], timing: int(vh.Atoi64(kv["timing"])), cb: set("cb"), sb: set("sb"), idle: ms("idle"), sidle: ms("sidle"),
		ka: ms("ka"), kaside: kv["kaside"], drop: int(vh.Atoi64(kv["drop"])), rtt: ms("rtt"), code: uint64(vh.Atoi64(kv["code"])), at: ms("at"), ips: int(vh.Atoi64(kv["ips"])),
		ut: int(vh.Atoi64(kv["ut"])), vm: int(vh.Atoi64(kv["vm"])), pm: int(vh.Atoi64(kv["pm"])),
		su: int(vh.Atoi64(kv["su"])), lc: int(vh.Atoi64(kv["lc"])), cc: int(vh.Atoi64(kv["cc"]))}
	if p.su != 0 && (p.cause == "reset" || p.cause == "tclosec" || p.cause == "tcloses") {
		return p, false // these causes act on a transport the application owns
	}
	if p.su == 2 && (p.cause == "cappx" || p.cause == "vn" || p.cause == "kaprobe" || p.ut == 1) {
		return p, false
	}
	if p.cause == "" || p.idle == 0 || p.sidle == 0 || p.rtt == 0 {
		return p, false
	}
	return p, true
}

const bigWrite = 256 << 10

func has(l []string, x string) bool {
	for _, y := range l {
		if y == x {
			return true
		}
	}
	return false
}

type result struct {
	kv    []string
	notes []string
}

func (r *result) add(k, v string) { r.kv = append(r.kv, k+"="+v) }

func fmtCalls(s *side) (string, int64) {
	s.mu.Lock()
	defer s.mu.Unlock()
	var l []string
	var maxdt int64
	for _, n := range s.order {
		cr := s.calls[n]
		if !cr.done {
			l = append(l, n+":BLOCKED")
			continue
		}
		l = append(l, n+":"+quic.VerifCanonErr(cr.err))
		if s.done {
			dt := cr.at - s.ctxAt
			if dt < 0 {
				dt = -dt
			}
			if dt > maxdt {
				maxdt = dt
			}
		}
	}
	if len(l) == 0 {
		return "-", 0
	}
	return strings.Join(l, ","), maxdt
}

func baseConf(idle, ka time.Duration) *quic.Config {
	return &quic.Config{
		MaxIdleTimeout: idle, KeepAlivePeriod: ka, EnableDatagrams: true,
		MaxIncomingStreams: 2, MaxIncomingUniStreams: -1,
		InitialStreamReceiveWindow: 4096, MaxStreamReceiveWindow: 4096,
		InitialConnectionReceiveWindow: 16384, MaxConnectionReceiveWindow: 16384,
		DisablePathMTUDiscovery: true,
	}
}

// setupStreams opens this side's two streams (one byte each) and accepts the peer's two.
func (s *side) setupStreams(ctx context.Context) error {
	var err error
	if s.rstr, err = s.conn.OpenStreamSync(ctx); err != nil {
		return err
	}
	if _, err = s.rstr.Write([]byte{'r'}); err != nil {
		return err
	}
	if s.wstr, err = s.conn.OpenStreamSync(ctx); err != nil {
		return err
	}
	if _, err = s.wstr.Write([]byte{'w'}); err != nil {
		return err
	}
	b := make([]byte, 1)
	for i := 0; i < 2; i++ {
		str, err := s.conn.AcceptStream(ctx)
		if err != nil {
			return err
		}
		if _, err := io.ReadFull(str, b); err != nil {
			return err
		}
		if b[0] == 'r' {
			s.prstr = str
		} else {
			s.pwstr = str
		}
	}
	return nil
}

func (s *side) startBlocked(ctx context.Context, set []string, xfer bool, peer *side) {
	for _, n := range set {
		switch n {
		case "read":
			s.start("read", func() error { _, err := s.prstr.Read(make([]byte, 16)); return err })
		case "write":
			if xfer {
				// mid-transfer: the peer drains, the writer keeps writing until the connection ends
				peer.start("drain", func() error { _, err := io.Copy(io.Discard, peer.pwstr); return err })
				s.start("write", func() error {
					buf := make([]byte, 8192)
					for {
						if _, err := s.wstr.Write(buf); err != nil {
							return err
						}
					}
				})
			} else {
				s.start("write", func() error { _, err := s.wstr.Write(make([]byte, bigWrite)); return err })
			}
		default:
			name := n
			switch strings.TrimRight(n, "0123456789") {
			case "accept":
				s.start(name, func() error { _, err := s.conn.AcceptStream(ctx); return err })
			case "acceptuni":
				s.start(name, func() error { _, err := s.conn.AcceptUniStream(ctx); return err })
			case "open":
				s.start(name, func() error { _, err := s.conn.OpenStreamSync(ctx); return err })
			case "openuni":
				s.start(name, func() error { _, err := s.conn.OpenUniStreamSync(ctx); return err })
			case "rcvdgram":
				s.start(name, func() error { _, err := s.conn.ReceiveDatagram(ctx); return err })
			}
		}
	}
}

// later makes the calls again after the connection has ended; each is bounded by a 1 s (virtual) context.
func (s *side) later() string {
	var out []string
	one := func(name string, f func(ctx context.Context) error) {
		ctx, cancel := context.WithTimeout(context.Background(), time.Second)
		defer cancel()
		t0 := quic.VerifMonoNow()
		ch := make(chan error, 1)
		go func() { ch <- f(ctx) }()
		select {
		case err := <-ch:
			v := quic.VerifCanonErr(err)
			if quic.VerifMonoNow() != t0 {
				v += "!late"
			}
			out = append(out, name+":"+v)
		case <-time.After(3 * time.Second):
			out = append(out, name+":BLOCKED")
		}
	}
	if s.prstr != nil {
		one("read", func(context.Context) error { _, err := s.prstr.Read(make([]byte, 16)); return err })
	}
	if s.wstr != nil {
		one("write", func(context.Context) error { _, err := s.wstr.Write([]byte("later")); return err })
	}
	one("accept", func(ctx context.Context) error { _, err := s.conn.AcceptStream(ctx); return err })
	one("acceptuni", func(ctx context.Context) error { _, err := s.conn.AcceptUniStream(ctx); return err })
	one("open", func(ctx context.Context) error { _, err := s.conn.OpenStreamSync(ctx); return err })
	one("opennow", func(context.Context) error { _, err := s.conn.OpenStream(); return err })
	one("openuni", func(ctx context.Context) error { _, err := s.conn.OpenUniStreamSync(ctx); return err })
	one("rcvdgram", func(ctx context.Context) error { _, err := s.conn.ReceiveDatagram(ctx); return err })
	one("senddgram", func(context.Context) error { return s.conn.SendDatagram([]byte("x")) })
	return strings.Join(out, ",")
}

// idleFields prints the idle-timeout inputs; instants are ns relative to the scenario start t0 ("-" = unset).
func idleFields(st quic.VerifIdleState, at, t0 int64) string {
	fae := "-"
	if st.FirstAE != 0 {
		fae = strconv.FormatInt(st.FirstAE-t0, 10)
	}
	return fmt.Sprintf("lr:%d,fae:%s,it:%d,pto:%d,kai:%d,kap:%d,kps:%d,hc:%d,now:%d,at:%d", st.LastRcv-t0, fae, int64(st.IdleTimeout), int64(st.PTO),
		int64(st.KeepAliveInterval), int64(st.KeepAlivePeriod), b01(st.KeepAlivePingSent), b01(st.HandshakeComplete), st.Now-t0, at-t0)
}

func b01(b bool) int {
	if b {
		return 1
	}
	return 0
}

func runScenario(p params, res *result) {
	var key quic.StatelessResetKey
	rand.Read(key[:])
	cka, ska := time.Duration(0), time.Duration(0)
	if p.kaside == "c" || p.kaside == "b" {
		cka = p.ka
	}
	if p.kaside == "s" || p.kaside == "b" {
		ska = p.ka
	}
	cconf := baseConf(p.idle, cka)
	sconf := baseConf(p.sidle, ska)
	if p.ips > 0 {
		cconf.InitialPacketSize = uint16(p.ips)
	}
	if p.cause == "hsdead" || p.cause == "hsstall" {
		cconf.HandshakeIdleTimeout = p.idle // reuse the idle parameter as the handshake idle timeout
		sconf.HandshakeIdleTimeout = p.sidle
	}
	clog, slog := &sentLog{}, &sentLog{}
	var clientTr *quic.Transport
	// cause=vn: set while the client's first connection handles the Version Negotiation packet
	var vnSeen, vnFired atomic.Bool
	var cancelAt atomic.Int64
	dctx, dcancel := context.WithCancel(context.Background())
	defer dcancel()
	{
		t0 := quic.VerifMonoNow()
		cconf.Tracer = func(context.Context, bool, quic.ConnectionID) qlogwriter.Trace {
			return dbgTrace{dbgRec{"c", t0, clog, func() {
				if p.cause == "cappx" && clientTr != nil {
					clientTr.VerifCloseLocalAll(p.code)
				}
			}, func() { vnSeen.Store(true) }}}
		}
		sconf.Tracer = func(context.Context, bool, quic.ConnectionID) qlogwriter.Trace { return dbgTrace{dbgRec{"s", t0, slog, nil, nil}} }
	}
	setup := e2e.Setup{RTT: p.rtt, ClientConf: cconf}
	if p.cause == "vn" {
		cconf.Versions = []quic.Version{quic.Version2, quic.Version1}
		sconf.Versions = []quic.Version{quic.Version1}
		if p.vm == 0 {
			// the first datagram written after the Version Negotiation packet was handled is the closing one of the
			// connection that is being replaced: it is written by the run loop on its way out (the recreate error is
			// recorded, Conn.run has not returned). Cancel the dial right there and hold the write for vnHold, so
			// that doDial sees the cancellation before the goroutine that called run() can report.
			setup.ClientTransport = func(tr *quic.Transport) {
				tr.Conn = &hookConn{SimConn: tr.Conn.(*simnet.SimConn), beforeWrite: func() {
					if vnSeen.Load() && vnFired.CompareAndSwap(false, true) {
						cancelAt.Store(quic.VerifMonoNow())
						dcancel()
						time.Sleep(vnHold)
					}
				}}
			}
		}
	}
	env, err := e2e.Start(setup)
	if err != nil {
		res.add("setup", "fail:"+err.Error())
		return
	}
	defer env.Close()
	clientTr = env.ClientTr
	// replace the server by one with a fixed stateless-reset key
	env.Listener.Close()
	env.ServerTr.Close()
	env.Listener, env.ServerTr = nil, nil
	stap := &tapConn{SimConn: env.ServerPC}
	ctap := &tapConn{SimConn: env.ClientPC}
	newServer := func() (*quic.Transport, *quic.Listener, error) {
		if p.su >= 1 {
			ln, err := quic.Listen(stap, e2e.ServerTLSConfig(), sconf)
			if err != nil {
				return nil, nil, err
			}
			return ln.VerifTransport(), ln, nil
		}
		tr := &quic.Transport{Conn: env.ServerPC, StatelessResetKey: &key}
		switch p.cc {
		case 1:
			tr.ConnContext = func(ctx context.Context, _ *quic.ClientInfo) (context.Context, error) {
				return context.WithValue(ctx, ctxKey{}, 1), nil
			}
		case 2:
			tr.ConnContext = func(context.Context, *quic.ClientInfo) (context.Context, error) {
				return context.WithValue(context.Background(), ctxKey{}, 2), nil
			}
		case 3:
			tr.ConnContext = func(context.Context, *quic.ClientInfo) (context.Context, error) {
				c, _ := context.WithCancelCause(context.WithValue(context.Background(), ctxKey{}, 3))
				return c, nil
			}
		}
		ln, err := tr.Listen(e2e.ServerTLSConfig(), sconf)
		return tr, ln, err
	}
	// is somebody still reading from the sockets of the single-use transports?
	addReaders := func() {
		if p.su >= 1 {
			res.add("rd.s", strconv.Itoa(int(stap.reading.Load())))
		}
		if p.su == 2 {
			res.add("rd.c", strconv.Itoa(int(ctap.reading.Load())))
		}
	}
	str, ln, err := newServer()
	if err != nil {
		res.add("setup", "fail:"+err.Error())
		return
	}
	transports := []*quic.Transport{str}
	defer func() {
		for _, t := range transports {
			t.Close()
		}
	}()
	bg, bgCancel := context.WithCancel(context.Background())
	defer bgCancel()
	t0 := quic.VerifMonoNow()
	// the scenario's datagram filter can be replaced while the network is running
	var tapMu sync.Mutex
	var scnTap func(d e2e.Dir, idx int, b []byte) bool
	env.Net.Tap = func(d e2e.Dir, idx int, b []byte) bool {
		tapMu.Lock()
		f := scnTap
		tapMu.Unlock()
		if f != nil {
			return f(d, idx, b)
		}
		return true
	}
	setTap := func(f func(d e2e.Dir, idx int, b []byte) bool) {
		tapMu.Lock()
		scnTap = f
		tapMu.Unlock()
	}
	ms := func(mono int64) string { return strconv.FormatInt((mono-t0)/1e3, 10) } // µs since scenario start

	cl := &side{name: "c", calls: map[string]*callRes{}}
	sv := &side{name: "s", calls: map[string]*callRes{}}

	// server: accept connections
	var svMu sync.Mutex
	var lnErr error
	lnDone := false
	go func() {
		c, err := ln.Accept(bg)
		svMu.Lock()
		if err == nil {
			sv.conn = c
		} else {
			lnErr, lnDone = err, true
		}
		svMu.Unlock()
	}()

	switch p.cause {
	case "hsdead":
		env.Net.DropAll[e2e.ToClient] = true
	case "hsstall":
		// let the first server datagram through (ServerHello + part of the flight), nothing after it
		setTap(func(d e2e.Dir, idx int, b []byte) bool { return !(d == e2e.ToClient && idx >= 1) })
	}

	// client: dial
	if p.cause == "dialcancel" || (p.cause == "vn" && p.vm == 1) {
		go func() {
			time.Sleep(p.at)
			cancelAt.Store(quic.VerifMonoNow())
			dcancel()
		}()
	}
	if p.cause == "tclosec" && p.timing == 0 {
		go func() {
			time.Sleep(p.at)
			cancelAt.Store(quic.VerifMonoNow())
			env.ClientTr.Close()
		}()
	}
	if p.cause == "tcloses" && p.timing == 0 {
		go func() {
			time.Sleep(p.at)
			cancelAt.Store(quic.VerifMonoNow())
			str.Close()
		}()
	}
	// the dial runs on its own goroutine: a Dial that never returns is an outcome (dial=BLOCKED), not a hang
	type dialRes struct {
		conn *quic.Conn
		err  error
		at   int64
	}
	dialCh := make(chan dialRes, 1)
	go func() {
		var c *quic.Conn
		var err error
		if p.su == 2 {
			c, err = quic.Dial(dctx, ctap, e2e.ServerAddr, env.ClientTLS.Clone(), env.ClientCfg)
		} else if p.ut == 1 {
			c, err = (&quic.UTransport{Transport: env.ClientTr}).Dial(dctx, e2e.ServerAddr, env.ClientTLS.Clone(), env.ClientCfg)
		} else {
			c, err = env.Dial(dctx)
		}
		dialCh <- dialRes{c, err, quic.VerifMonoNow()}
	}()
	var conn *quic.Conn
	var derr error
	select {
	case dr := <-dialCh:
		conn, derr = dr.conn, dr.err
		res.add("dial", quic.VerifCanonErr(derr))
		res.add("dial_us", ms(dr.at))
	case <-time.After(dialPatience):
		// longer than any handshake timeout in use (2 x 30 s)
		res.add("dial", "BLOCKED")
		res.add("dial_us", ms(quic.VerifMonoNow()))
		derr = context.DeadlineExceeded
	}
	if ca := cancelAt.Load(); ca != 0 {
		res.add("cancel_us", ms(ca))
	}
	if p.cause == "vn" {
		if p.vm == 0 {
			res.add("vnfired", strconv.Itoa(b01(vnFired.Load())))
		}
		if conn != nil {
			res.add("ver", strconv.FormatUint(uint64(conn.ConnectionState().Version), 10))
		}
	}
	if derr != nil {
		// the dial failed: nothing but the routing tables and the leak check remain
		time.Sleep(70 * time.Second)
		synctest.Wait()
		bgCancel()
		ln.Close()
		h, tk := env.ClientTr.VerifRouting()
		res.add("rt.c", fmt.Sprintf("%d/%d", h, tk))
		h, tk = str.VerifRouting()
		res.add("rt.s", fmt.Sprintf("%d/%d", h, tk))
		synctest.Wait()
		addReaders()
		return
	}
	cl.conn = conn
	cl.watch()

	var probeTr *quic.Transport // cause=kaprobe: the transport of the probed path
	finish := func() {
		// routing tables after the closing period, then tear down
		time.Sleep(20 * time.Second)
		synctest.Wait()
		h, tk := env.ClientTr.VerifRouting()
		res.add("rt.c", fmt.Sprintf("%d/%d", h, tk))
		if probeTr != nil {
			h, tk := probeTr.VerifRouting()
			res.add("rt.p", fmt.Sprintf("%d/%d", h, tk))
		}
		var hs, ts int
		for _, t := range transports {
			a, b := t.VerifRouting()
			hs += a
			ts += b
		}
		res.add("rt.s", fmt.Sprintf("%d/%d", hs, ts))
		bgCancel()
		ln.Close()
		synctest.Wait()
		addReaders()
	}

	if p.cause == "cappx" {
		// closeLocal was recorded while the handshake completed: the connection ends by itself
		waitDone(cl, 60*time.Second)
		res.add("c.cause", quic.VerifCanonErr(cl.cause))
		svMu.Lock()
		sconn := sv.conn
		svMu.Unlock()
		if sconn != nil {
			sv.watch()
			waitDone(sv, 60*time.Second)
			res.add("s.cause", quic.VerifCanonErr(sv.cause))
		} else {
			res.add("s.cause", "noconn")
		}
		res.add("c.later", cl.later())
		time.Sleep(45 * time.Second)
		finish()
		return
	}
	if p.cause == "dialcancel" || p.cause == "vn" || ((p.cause == "tclosec" || p.cause == "tcloses") && p.timing == 0) {
		// the event came too late for the dial: close normally
		if p.cause == "dialcancel" || p.cause == "vn" {
			conn.CloseWithError(quic.ApplicationErrorCode(p.code), "done")
		}
		waitDone(cl, 60*time.Second)
		res.add("c.cause", quic.VerifCanonErr(cl.cause))
		// a silently abandoned server connection lives until its own idle timeout (at most 30 s)
		time.Sleep(45 * time.Second)
		finish()
		return
	}

	// wait for the server side of the connection
	for i := 0; i < 200; i++ {
		svMu.Lock()
		ok := sv.conn != nil || lnDone
		svMu.Unlock()
		if ok {
			break
		}
		time.Sleep(5 * time.Millisecond)
	}
	svMu.Lock()
	haveServer := sv.conn != nil
	_ = lnErr
	svMu.Unlock()
	if haveServer {
		sv.watch()
	}
	// a second Accept stays blocked unless the listener ends
	if p.lc == 0 {
		sv.calls["lnaccept"] = &callRes{}
		sv.order = append(sv.order, "lnaccept")
		go func() {
			_, err := ln.Accept(bg)
			at := quic.VerifMonoNow()
			sv.mu.Lock()
			cr := sv.calls["lnaccept"]
			cr.err, cr.at, cr.done = err, at, true
			sv.mu.Unlock()
		}()
	}

	if p.timing >= 1 && haveServer {
		sctx, scancel := context.WithTimeout(bg, 20*time.Second)
		errs := make(chan error, 2)
		go func() { errs <- cl.setupStreams(sctx) }()
		go func() { errs <- sv.setupStreams(sctx) }()
		e1, e2 := <-errs, <-errs
		scancel()
		if e1 != nil || e2 != nil {
			res.add("streams", fmt.Sprintf("fail:%v/%v", e1, e2))
		}
		// keep the quiet setup phase well below the idle period (which is at least 3 PTO > 3 RTT)
		time.Sleep(p.rtt + 5*time.Millisecond)
		if e1 == nil && e2 == nil {
			cl.startBlocked(bg, p.cb, p.timing == 2, sv)
			sv.startBlocked(bg, p.sb, p.timing == 2, cl)
		}
		time.Sleep(p.rtt + 5*time.Millisecond)
	} else if haveServer {
		// right after the handshake: only calls that need no streams
		noStreams := func(n string) bool {
			b := strings.TrimRight(n, "0123456789")
			return b == "accept" || b == "rcvdgram" || b == "acceptuni"
		}
		for _, n := range p.cb {
			if noStreams(n) {
				cl.startBlocked(bg, []string{n}, false, sv)
			}
		}
		for _, n := range p.sb {
			if noStreams(n) {
				sv.startBlocked(bg, []string{n}, false, cl)
			}
		}
	}
	synctest.Wait()
	pre := 1
	for _, s := range []*side{cl, sv} {
		s.mu.Lock()
		for n, cr := range s.calls {
			if cr.done && !(p.timing == 2 && (n == "write" || n == "drain")) {
				pre = 0
				res.notes = append(res.notes, fmt.Sprintf("%s.%s returned early: %v", s.name, n, cr.err))
			}
		}
		s.mu.Unlock()
	}
	res.add("pre", strconv.Itoa(pre))

	// lc=1: the listener goes while the connection lives (established connections are unaffected)
	if p.lc == 1 {
		ln.Close()
		synctest.Wait()
	}

	// ---- the cause
	trig := quic.VerifMonoNow()
	res.add("trig_us", ms(trig))
	closer, peer := cl, sv
	closerDir := e2e.ToServer
	switch p.cause {
	case "sapp", "fatalc", "tcloses":
		closer, peer = sv, cl
		closerDir = e2e.ToClient
	}
	if p.drop > 0 && (p.cause == "capp" || p.cause == "sapp" || p.cause == "fatalc" || p.cause == "fatals") {
		var mu sync.Mutex
		left := p.drop
		armed := p.cause == "capp" || p.cause == "sapp"
		setTap(func(d e2e.Dir, idx int, b []byte) bool {
			mu.Lock()
			defer mu.Unlock()
			// for a fatal error the closing datagram is the victim's answer: arm after the offending frame left
			if !armed && d != closerDir {
				armed = true
				return true
			}
			if armed && d == closerDir && left > 0 {
				left--
				return false
			}
			return true
		})
		// the peer keeps sending, so that the stand-in retransmits the CONNECTION_CLOSE
		if peer.conn != nil {
			pk := peer
			go func() {
				time.Sleep(time.Millisecond) // never in the same packet as an offending frame
				for i := 0; i < 16 && !pk.isDone(); i++ {
					pk.conn.SendDatagram([]byte("poke"))
					time.Sleep(25 * time.Millisecond)
				}
			}()
		}
	}
	aliveAfterWait := -1
	switch p.cause {
	case "capp", "sapp":
		if closer.conn != nil {
			c := closer
			c.start("closecall", func() error { return c.conn.CloseWithError(quic.ApplicationErrorCode(p.code), "bye") })
		}
	case "kalive":
		w := p.idle
		if p.sidle > w {
			w = p.sidle
		}
		time.Sleep(3 * w)
		synctest.Wait()
		aliveAfterWait = b01(!cl.isDone() && (sv.conn == nil || !sv.isDone()))
		res.add("ka.c", idleFields(cl.conn.VerifIdleState(), t0, t0))
		if sv.conn != nil {
			res.add("ka.s", idleFields(sv.conn.VerifIdleState(), t0, t0))
		}
		trig = quic.VerifMonoNow()
		cl.start("closecall", func() error { return cl.conn.CloseWithError(quic.ApplicationErrorCode(p.code), "bye") })
	case "kaprobe":
		// a second client socket on the same simulated network: nothing it writes is delivered (pm=0), or its
		// datagrams reach the server and nothing is delivered back to it (pm=1: the server answers the probes, and
		// probes the new address itself, into the void)
		sim2 := &simnet.Simnet{Router: env.Net}
		pc2 := sim2.NewEndpoint(&net.UDPAddr{IP: net.ParseIP("1.0.0.3"), Port: 9003}, simnet.NodeBiDiLinkSettings{Latency: p.rtt / 2,
			Downlink: simnet.LinkSettings{MTU: 65535}, Uplink: simnet.LinkSettings{MTU: 65535}})
		sim2.Start()
		ptr := &quic.Transport{Conn: &deadConn{SimConn: pc2, oneWay: p.pm == 1}}
		defer func() {
			ptr.Close()
			pc2.Close()
			sim2.Close()
		}()
		pctx, pcancel := context.WithCancel(bg)
		defer pcancel()
		time.Sleep(p.at)
		path, perr := cl.conn.AddPath(ptr)
		res.add("addpath", quic.VerifCanonErr(perr))
		var probe *callRes
		if perr == nil {
			probe = &callRes{}
			go func() {
				err := path.Probe(pctx)
				cl.mu.Lock()
				probe.err, probe.at, probe.done = err, quic.VerifMonoNow(), true
				cl.mu.Unlock()
			}()
		}
		w := p.idle
		if p.sidle > w {
			w = p.sidle
		}
		time.Sleep(3 * w)
		synctest.Wait()
		aliveAfterWait = b01(!cl.isDone() && (sv.conn == nil || !sv.isDone()))
		res.add("ka.c", idleFields(cl.conn.VerifIdleState(), t0, t0))
		if sv.conn != nil {
			res.add("ka.s", idleFields(sv.conn.VerifIdleState(), t0, t0))
		}
		if probe != nil {
			cl.mu.Lock()
			if probe.done {
				res.add("probe", quic.VerifCanonErr(probe.err))
			} else {
				res.add("probe", "pending")
			}
			cl.mu.Unlock()
		}
		pcancel()
		probeTr = ptr
		trig = quic.VerifMonoNow()
		cl.start("closecall", func() error { return cl.conn.CloseWithError(quic.ApplicationErrorCode(p.code), "bye") })
	case "idle":
		env.Net.DropAll[e2e.ToClient] = true
		env.Net.DropAll[e2e.ToServer] = true
	case "reset":
		// the server loses all state and comes back with the same reset key; the client keeps sending
		str.Close()
		ntr, nln, err := newServer()
		if err != nil {
			res.add("restart", "fail:"+err.Error())
		} else {
			transports = append(transports, ntr)
			defer nln.Close()
		}
		go func() {
			for i := 0; i < 40 && !cl.isDone(); i++ {
				cl.conn.SendDatagram(make([]byte, 300))
				time.Sleep(50 * time.Millisecond)
			}
		}()
	case "fatalc": // the client misbehaves, the server closes with a transport error
		cl.conn.VerifQueueBadFrame(int(p.code))
	case "fatals":
		if sv.conn != nil {
			sv.conn.VerifQueueBadFrame(int(p.code))
		}
	case "tclosec":
		cl.start("closecall", func() error { return env.ClientTr.Close() })
	case "tcloses":
		sv.start("closecall", func() error { return str.Close() })
	}
	if aliveAfterWait >= 0 {
		res.add("alive", strconv.Itoa(aliveAfterWait))
	}

	// ---- wait for both ends
	waitDone(cl, 100*time.Second)
	if sv.conn != nil {
		waitDone(sv, 100*time.Second)
	}
	synctest.Wait()
	for _, s := range []*side{cl, sv} {
		if s.conn == nil {
			res.add(s.name+".cause", "noconn")
			continue
		}
		s.mu.Lock()
		done, cause, at := s.done, s.cause, s.ctxAt
		s.mu.Unlock()
		if !done {
			res.add(s.name+".cause", "ALIVE")
			continue
		}
		res.add(s.name+".cause", quic.VerifCanonErr(cause))
		res.add(s.name+".lat_us", strconv.FormatInt((at-trig)/1e3, 10))
		calls, maxdt := fmtCalls(s)
		res.add(s.name+".calls", calls)
		res.add(s.name+".dt", strconv.FormatInt(maxdt, 10))
		// the contexts of the connection's streams are cancelled with the same cause
		if s.wstr != nil {
			res.add(s.name+".sctx", quic.VerifCanonErr(context.Cause(s.wstr.Context())))
		}
		ist := s.conn.VerifIdleState()
		res.add(s.name+".idle", idleFields(ist, at, t0))
		// ghost for the idle start, from the endpoint's own sent-packet log: d1 = the first ack-eliciting
		// packet sent after the last packet was received, d1c = the first one that is ack-eliciting through a
		// control frame (not only STREAM frames)
		lg := clog
		if s == sv {
			lg = slog
		}
		for _, it := range []struct {
			key string
			min int
		}{{".d1", 1}, {".d1c", 2}} {
			if at, ok := lg.firstAfter(ist.LastRcv, it.min); ok {
				res.add(s.name+it.key, strconv.FormatInt(at-t0, 10))
			} else {
				res.add(s.name+it.key, "-")
			}
		}
	}
	for _, s := range []*side{cl, sv} {
		if s.conn != nil && s.isDone() {
			res.add(s.name+".later", s.later())
		}
	}
	finish()
}

// tapConn counts the ReadFrom calls in flight on a socket: a transport that is still listening always has one.
type tapConn struct {
	*simnet.SimConn
	reading atomic.Int32
}

func (c *tapConn) ReadFrom(b []byte) (int, net.Addr, error) {
	c.reading.Add(1)
	defer c.reading.Add(-1)
	return c.SimConn.ReadFrom(b)
}

type ctxKey struct{}

// vnHold is how long the closing write of a connection that is being recreated is held in cause=vn, vm=0.
const vnHold = time.Millisecond

// dialPatience is how long a scenario waits (virtual time) for Dial to return.
const dialPatience = 150 * time.Second

// hookConn is the client's socket with a callback before every write (on the writer's goroutine).
type hookConn struct {
	*simnet.SimConn
	beforeWrite func()
}

func (c *hookConn) WriteTo(b []byte, addr net.Addr) (int, error) {
	c.beforeWrite()
	return c.SimConn.WriteTo(b, addr)
}

// deadConn is a socket of a dead path: what is written is lost (or, oneWay, delivered), what arrives is discarded.
type deadConn struct {
	*simnet.SimConn
	oneWay bool
}

func (c *deadConn) WriteTo(b []byte, addr net.Addr) (int, error) {
	if c.oneWay {
		return c.SimConn.WriteTo(b, addr)
	}
	return len(b), nil
}

func (c *deadConn) ReadFrom(b []byte) (int, net.Addr, error) {
	for {
		if _, _, err := c.SimConn.ReadFrom(b); err != nil {
			return 0, nil, err
		}
	}
}

func waitDone(s *side, max time.Duration) {
	deadline := time.Now().Add(max)
	for !s.isDone() && time.Now().Before(deadline) {
		time.Sleep(10 * time.Millisecond)
	}
}

func leakedGoroutines() []string {
	buf := make([]byte, 1<<20)
	n := runtime.Stack(buf, true)
	var out []string
	for _, g := range strings.Split(string(buf[:n]), "\n\n") {
		lines := strings.Split(g, "\n")
		if len(lines) < 2 || !strings.Contains(lines[0], "synctest bubble") || strings.Contains(lines[0], "running") {
			continue
		}
		fn := lines[1]
		for _, l := range lines[1:] {
			if strings.Contains(l, "uquic") && !strings.HasPrefix(l, "\t") {
				fn = l
				break
			}
		}
		if i := strings.LastIndexByte(fn, '('); i > 0 {
			fn = fn[:i]
		}
		if i := strings.LastIndexByte(fn, '/'); i >= 0 {
			fn = fn[i+1:]
		}
		out = append(out, fn)
	}
	sort.Strings(out)
	return out
}

// execStart is the real-time start (unix ns) of the scenario being executed, 0 when idle.
var execStart atomic.Int64

// watchdog ends the test binary when one scenario takes more than two minutes of REAL time: a goroutine that
// spins or blocks outside the bubble's control would otherwise stall virtual time for ever.
func watchdog() {
	for {
		time.Sleep(5 * time.Second)
		if st := execStart.Load(); st != 0 && time.Now().UnixNano()-st > int64(2*time.Minute) {
			buf := make([]byte, 1<<20)
			n := runtime.Stack(buf, true)
			fmt.Fprintf(os.Stderr, "closee watchdog: scenario stuck for more than 2 minutes of real time\n%s\n", buf[:n])
			os.Exit(3)
		}
	}
}

// A panic on a connection's run-loop goroutine cannot be trapped in this process: scenarios that may hit one
// run in a child process (this test binary, TestOne) and a dead child is reported as `panic=<class>`.
func execIsolated(op string) string {
	cmd := exec.Command(os.Args[0], "-test.run", "^TestOne$", "-test.count=1", "-test.timeout", "120s")
	cmd.Env = append(os.Environ(), "VH_ONE_OP="+op, "VH_MODE=", "VH_OUT=")
	out, err := cmd.CombinedOutput()
	txt := string(out)
	if i := strings.Index(txt, "RESULT "); i >= 0 {
		line := txt[i+len("RESULT "):]
		if j := strings.IndexByte(line, '\n'); j >= 0 {
			line = line[:j]
		}
		return line + " panic=0"
	}
	cls := "other"
	switch {
	case strings.Contains(txt, "slice bounds out of range"):
		cls = "slice_bounds"
	case strings.Contains(txt, "nil pointer dereference"):
		cls = "nil_deref"
	case strings.Contains(txt, "panic:"):
		cls = "panic"
	case err != nil:
		cls = "exit"
	}
	where := "-"
	for _, l := range strings.Split(txt, "\n") {
		if strings.Contains(l, "uquic.") && !strings.Contains(l, "verifharness") && strings.Contains(l, "(") {
			where = strings.TrimSpace(l)
			if k := strings.LastIndexByte(where, '('); k > 0 {
				where = where[:k]
			}
			if k := strings.LastIndexByte(where, '/'); k >= 0 {
				where = where[k+1:]
			}
			break
		}
	}
	return "panic=" + cls + " where=" + strings.ReplaceAll(where, " ", "_")
}

func TestOne(t *testing.T) {
	op := os.Getenv("VH_ONE_OP")
	if op == "" {
		t.Skip("VH_ONE_OP not set")
	}
	theT = t
	go watchdog()
	fmt.Printf("RESULT %s\n", (&runner{}).execHere(op))
}

func (rn *runner) Exec(op string) string {
	if p, ok := parseOp(op); ok && p.cause == "cappx" && os.Getenv("VH_ONE_OP") == "" {
		return execIsolated(op)
	}
	return rn.execHere(op)
}

func (rn *runner) execHere(op string) string {
	p, ok := parseOp(op)
	if !ok {
		return "skip"
	}
	execStart.Store(time.Now().UnixNano())
	defer execStart.Store(0)
	res := &result{}
	leak := 0
	var leaked []string
	func() {
		defer func() {
			if e := recover(); e != nil {
				if msg := fmt.Sprint(e); strings.Contains(msg, "deadlock") && strings.Contains(msg, "goroutines") {
					leak = 1
					return
				}
				panic(e)
			}
		}()
		synctest.Test(theT, func(t *testing.T) {
			runScenario(p, res)
			synctest.Wait()
			time.Sleep(time.Second)
			synctest.Wait()
			// whatever is still parked in the bubble now (besides this goroutine and synctest's own) would keep it from ending
			for _, g := range leakedGoroutines() {
				if !strings.Contains(g, "synctest") && !strings.Contains(g, "testing.") {
					leaked = append(leaked, g)
				}
			}
		})
	}()
	res.add("leak", strconv.Itoa(leak))
	if leak == 1 && len(leaked) > 0 {
		res.add("leaked", strings.ReplaceAll(strings.Join(leaked, ";"), " ", "_"))
	}
	if os.Getenv("VH_NOTES") != "" {
		for _, n := range res.notes {
			fmt.Fprintln(os.Stderr, "note:", n)
		}
	}
	return strings.Join(res.kv, " ")
}

func TestDriver(t *testing.T) {
	theT = t
	go watchdog()
	vh.Main(t, "closee", newRunner)
}
