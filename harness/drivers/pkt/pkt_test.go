//go:build verif

// Driver "pkt": byte-level packet protection with the real code —
// long headers: handshake.NewInitialAEAD (both perspectives, v1/v2, DCIDs of 0..20 bytes),
// wire.ExtendedHeader.Append, packetPacker.encryptPacket, wire.ParsePacket,
// packetUnpacker.unpackLongHeaderPacket;
// short headers: updatableAEAD (3 cipher suites), wire.AppendShortHeader, encryptPacket,
// packetUnpacker.unpackShortHeaderPacket.
// Each protected packet is opened by the peer unmodified, with single bit flips, truncated, extended
// (short header) and with the wrong keys.
package pkt

import (
	"encoding/hex"
	"fmt"
	"strings"
	"testing"

	quic "github.com/refraction-networking/uquic"
	"github.com/refraction-networking/uquic/internal/handshake"
	"github.com/refraction-networking/uquic/internal/monotime"
	"github.com/refraction-networking/uquic/internal/protocol"
	"github.com/refraction-networking/uquic/internal/utils"
	"github.com/refraction-networking/uquic/internal/verifharness/vh"
	"github.com/refraction-networking/uquic/internal/wire"
)

var suiteIDs = []uint16{0x1301, 0x1302, 0x1303}

type pkt struct {
	long   bool
	dir    int // 0: client->server, 1: server->client
	pn     int64
	cidLen int
	data   []byte
}

type runner struct {
	// long header (Initial keys)
	lsealer [2]handshake.LongHeaderSealer // by endpoint: 0 client, 1 server
	lopener [2]handshake.LongHeaderOpener
	ver     protocol.Version
	// short header
	ua    [2]*handshake.VerifUA
	suite int
	sver  protocol.Version
	pkts  map[int]*pkt
	reset func()

	// generator state
	nextID   int
	linited  bool
	sinited  bool
	lHighest [2]int64 // receiver-side estimate per endpoint opener
	sHighest [2]int64
	lNext    [2]int64
	sNext    [2]int64
	now      int64
	ids      []int
}

func newRunner(r *vh.Rand) vh.Runner {
	return &runner{pkts: map[int]*pkt{}, now: 1 + r.Range(0, 1_000_000)}
}

func (rn *runner) Close() {
	if rn.reset != nil {
		rn.reset()
		rn.reset = nil
	}
}

func hx(b []byte) string {
	if len(b) == 0 {
		return "-"
	}
	return hex.EncodeToString(b)
}

func unhx(s string) []byte {
	if s == "-" {
		return nil
	}
	b, _ := hex.DecodeString(s)
	return b
}

func verOf(n int64) protocol.Version {
	if n == 2 {
		return protocol.Version2
	}
	return protocol.Version1
}

// ---------------------------------------------------------------- generation

func (rn *runner) genPayload(r *vh.Rand, pnLen int) []byte {
	var n int
	switch r.Pick(25, 10, 45, 20) {
	case 0: // the minimum that still yields a sample
		n = 4 - pnLen
	case 1: // below the minimum: encryptPacket cannot take its sample
		n = 4 - pnLen - 1
		if n < 0 {
			n = 0
		}
	case 2:
		n = r.Intn(24)
	default:
		n = 20 + r.Intn(120)
	}
	if n < 0 {
		n = 0
	}
	return r.Bytes(n)
}

func (rn *runner) genPN(r *vh.Rand, next *int64, highest int64, pnLen int) int64 {
	switch r.Pick(70, 15, 15) {
	case 0:
		pn := *next
		*next += 1 + int64(r.Intn(3))
		return pn
	case 1: // around the edge of the decoding window of the receiver
		hwin := int64(1) << (8*pnLen - 1)
		pn := highest + 1 + []int64{-hwin, hwin}[r.Intn(2)] + r.Range(-2, 2)
		if pn < 0 {
			pn = 0
		}
		return pn
	default:
		return r.Range(0, 1<<20)
	}
}

func (rn *runner) genMut(r *vh.Rand, p *pkt) string {
	switch r.Pick(38, 40, 10, 6, 6) {
	case 0:
		return "none 0"
	case 1:
		n := 8 * len(p.data)
		if n == 0 {
			return "none 0"
		}
		switch r.Pick(40, 30, 30) {
		case 0:
			return fmt.Sprintf("flip %d", r.Intn(n))
		case 1: // header region
			return fmt.Sprintf("flip %d", r.Intn(min(n, 8*40)))
		default: // tag region
			return fmt.Sprintf("flip %d", n-1-r.Intn(min(n, 128)))
		}
	case 2:
		return fmt.Sprintf("trunc %d", r.Intn(len(p.data)+1))
	case 3:
		return "own 0"
	default:
		if p.long {
			return fmt.Sprintf("trunc %d", max(len(p.data)-1-r.Intn(3), 0))
		}
		return fmt.Sprintf("ext %d", 1+r.Intn(3))
	}
}

func (rn *runner) GenOp(r *vh.Rand, i int) string {
	if !rn.linited && (i == 0 || r.Chance(30)) {
		rn.linited = true
		n := r.Intn(21)
		if r.Chance(15) {
			return "linit 1 8394c8f03e515708" // RFC 9001 Appendix A
		}
		return fmt.Sprintf("linit %d %s", 1+r.Intn(2), hx(r.Bytes(n)))
	}
	if !rn.sinited && r.Chance(40) {
		rn.sinited = true
		return fmt.Sprintf("sinit %d %d", r.Intn(3), 1+r.Intn(2))
	}
	if r.Chance(4) {
		return fmt.Sprintf("retry %d %s %s", 1+r.Intn(2), hx(r.Bytes(r.Intn(21))), hx(r.Bytes(1+r.Intn(60))))
	}
	if r.Chance(14) { // the uQUIC Initial serialisation glue (client side)
		pnLen := 1 + r.Intn(4)
		pn := rn.genPN(r, &rn.lNext[0], rn.lHighest[1], pnLen)
		id := rn.nextID
		rn.nextID++
		rn.ids = append(rn.ids, id)
		var pl []byte
		if r.Chance(65) {
			pl = r.Bytes(r.Intn(6)) // tiny: a lone PING, or nothing at all
		} else {
			pl = r.Bytes(r.Intn(60))
		}
		token := "-"
		if r.Chance(25) {
			token = hx(r.Bytes(1 + r.Intn(40)))
		}
		packetSize := 0
		switch r.Pick(65, 30, 5) {
		case 1:
			packetSize = int(r.Range(30, 160))
		case 2:
			packetSize = 1200
		}
		udpMin := int(r.Range(1, 120))
		if r.Chance(8) {
			udpMin = 0 // default 1200
		}
		return fmt.Sprintf("useal %d %s %s %s %d %d %s %d %d", id, hx(r.Bytes(r.Intn(21))), hx(r.Bytes(r.Intn(21))), token, pnLen, pn, hx(pl), packetSize, udpMin)
	}
	switch r.Pick(22, 22, 28, 28) {
	case 0: // long seal
		dir := r.Intn(2)
		pnLen := 1 + r.Intn(4)
		pn := rn.genPN(r, &rn.lNext[dir], rn.lHighest[1-dir], pnLen)
		id := rn.nextID
		rn.nextID++
		rn.ids = append(rn.ids, id)
		typ := []string{"I", "H", "Z"}[r.Pick(60, 30, 10)]
		token := "-"
		if typ == "I" && r.Chance(30) {
			token = hx(r.Bytes(1 + r.Intn(70)))
		}
		res := 0
		if r.Chance(6) {
			res = 1 + r.Intn(3)
		}
		return fmt.Sprintf("lseal %d %d %s %s %s %s %d %d %s %d", id, dir, typ, hx(r.Bytes(r.Intn(21))), hx(r.Bytes(r.Intn(21))), token, pnLen, pn, hx(rn.genPayload(r, pnLen)), res) + fmt.Sprintf(" %d", r.Intn(2))
	case 1: // short seal
		dir := r.Intn(2)
		pnLen := 1 + r.Intn(4)
		pn := rn.genPN(r, &rn.sNext[dir], rn.sHighest[1-dir], pnLen)
		id := rn.nextID
		rn.nextID++
		rn.ids = append(rn.ids, id)
		res := 0
		if r.Chance(6) {
			res = 1 + r.Intn(3)
		}
		return fmt.Sprintf("sseal %d %d %s %d %d %s %d %d %d", id, dir, hx(r.Bytes(r.Intn(21))), pnLen, pn, hx(rn.genPayload(r, pnLen)), res, r.Intn(2), r.Intn(2))
	default:
		if len(rn.ids) == 0 {
			return fmt.Sprintf("linit %d %s", 1+r.Intn(2), hx(r.Bytes(r.Intn(21))))
		}
		id := rn.ids[len(rn.ids)-1-r.Intn(min(len(rn.ids), 4))]
		p := rn.pkts[id]
		if p == nil {
			return fmt.Sprintf("lopen %d none 0", id)
		}
		rn.now += r.Range(0, 1_000_000)
		if p.long {
			return fmt.Sprintf("lopen %d %s %d", id, rn.genMut(r, p), r.Intn(2))
		}
		return fmt.Sprintf("sopen %d %s %d %d", id, rn.genMut(r, p), rn.now, r.Intn(2))
	}
}

// ---------------------------------------------------------------- execution

func (rn *runner) ensureL() {
	if rn.lsealer[0] == nil {
		rn.linit(1, []byte{1, 2, 3, 4, 5, 6, 7, 8})
	}
}

func (rn *runner) linit(ver int64, dcid []byte) string {
	rn.ver = verOf(ver)
	cid := protocol.ParseConnectionID(dcid)
	rn.lsealer[0], rn.lopener[0] = handshake.NewInitialAEAD(cid, protocol.PerspectiveClient, rn.ver)
	rn.lsealer[1], rn.lopener[1] = handshake.NewInitialAEAD(cid, protocol.PerspectiveServer, rn.ver)
	rn.lHighest = [2]int64{}
	k := handshake.VerifInitialKeys(cid, rn.ver)
	return fmt.Sprintf("ok csec=%s ckey=%s civ=%s chp=%s ssec=%s skey=%s siv=%s shp=%s",
		hx(k[0][0]), hx(k[0][1]), hx(k[0][2]), hx(k[0][3]), hx(k[1][0]), hx(k[1][1]), hx(k[1][2]), hx(k[1][3]))
}

func (rn *runner) ensureS() {
	if rn.ua[0] == nil {
		rn.sinit(0, 1)
	}
}

func (rn *runner) sinit(suite int, ver int64) string {
	rn.Close()
	rn.reset = handshake.SetKeyUpdateInterval(1 << 40)
	rn.sver = verOf(ver)
	rn.suite = suite % 3
	var sec [2][]byte
	for i := 0; i < 2; i++ {
		sec[i] = make([]byte, 32)
		for j := range sec[i] {
			sec[i][j] = byte(29*i + 5*j + 7)
		}
	}
	for i := 0; i < 2; i++ {
		rn.ua[i] = handshake.VerifNewUpdatableAEAD(suiteIDs[suite%3], sec[1-i], sec[i], rn.sver, utils.NewRTTStats())
	}
	rn.sHighest = [2]int64{}
	return "ok"
}

func mutate(data []byte, mut string, arg int) []byte {
	d := append([]byte{}, data...)
	switch mut {
	case "flip":
		if len(d) > 0 {
			k := arg % (8 * len(d))
			d[k/8] ^= 1 << (k % 8)
		}
	case "trunc":
		if arg < len(d) {
			d = d[:arg]
		}
	case "ext":
		for i := 0; i < arg; i++ {
			d = append(d, byte(0xa0+i))
		}
	}
	return d
}

func (rn *runner) Exec(op string) string {
	f := strings.Fields(op)
	n := func(i int) int64 {
		if i < len(f) {
			return vh.Atoi64(f[i])
		}
		return 0
	}
	s := func(i int) string {
		if i < len(f) {
			return f[i]
		}
		return "-"
	}
	switch f[0] {
	case "linit":
		return rn.linit(n(1), unhx(s(2)))
	case "sinit":
		return rn.sinit(int(n(1)), n(2))
	case "retry":
		tag := handshake.GetRetryIntegrityTag(unhx(s(3)), protocol.ParseConnectionID(unhx(s(2))), verOf(n(1)))
		return hx(tag[:])
	case "lseal":
		rn.ensureL()
		id, dir := int(n(1)), int(n(2))&1
		pnLen, pn := protocol.PacketNumberLen(n(7)), protocol.PacketNumber(n(8))
		payload := unhx(s(9))
		if pnLen < 1 || pnLen > 4 {
			return "skip"
		}
		typ := protocol.PacketTypeInitial
		switch s(3) {
		case "H":
			typ = protocol.PacketTypeHandshake
		case "Z":
			typ = protocol.PacketType0RTT
		}
		eh := &wire.ExtendedHeader{
			Header: wire.Header{
				Type: typ, Version: rn.ver,
				DestConnectionID: protocol.ParseConnectionID(unhx(s(4))),
				SrcConnectionID:  protocol.ParseConnectionID(unhx(s(5))),
				Token:            unhx(s(6)),
				Length:           protocol.ByteCount(int(pnLen) + len(payload) + 16),
			},
			PacketNumber: pn, PacketNumberLen: pnLen,
		}
		hdr, err := eh.Append(nil, rn.ver)
		if err != nil {
			return "E:append"
		}
		hdr[0] |= byte(n(10)&3) << 2
		sealer := rn.lsealer[dir]
		ct := sealer.Seal(nil, payload, pn, hdr)
		raw := make([]byte, len(hdr)+len(payload), len(hdr)+len(payload)+16)
		copy(raw, hdr)
		copy(raw[len(hdr):], payload)
		mask := "-"
		if len(hdr)+len(ct) >= len(hdr)-int(pnLen)+20 && n(11)&1 == 0 {
			sealed := append(append([]byte{}, hdr...), ct...)
			off := len(hdr) - int(pnLen)
			mask = hx(handshake.VerifHPMask(sealer, true, sealed[off+4:off+20]))
		}
		res := fmt.Sprintf("hdr=%s ct=%s mask=%s ", hx(hdr), hx(ct), mask)
		out := quic.VerifEncryptPacket(raw, sealer, pn, protocol.ByteCount(len(hdr)), protocol.ByteCount(pnLen))
		rn.pkts[id] = &pkt{long: true, dir: dir, pn: int64(pn), data: append([]byte{}, out...)}
		return res + "pkt=" + hx(out)
	case "useal":
		rn.ensureL()
		id := int(n(1))
		pnLen, pn := protocol.PacketNumberLen(n(5)), protocol.PacketNumber(n(6))
		if pnLen < 1 || pnLen > 4 {
			return "skip"
		}
		mkHdr := func() *wire.ExtendedHeader {
			return &wire.ExtendedHeader{
				Header: wire.Header{
					Type: protocol.PacketTypeInitial, Version: rn.ver,
					DestConnectionID: protocol.ParseConnectionID(unhx(s(2))),
					SrcConnectionID:  protocol.ParseConnectionID(unhx(s(3))),
					Token:            unhx(s(4)),
				},
				PacketNumber: pn, PacketNumberLen: pnLen,
			}
		}
		tmpl, err := mkHdr().Append(nil, rn.ver)
		if err != nil {
			return "E:append"
		}
		dg, err := quic.VerifUInitialDatagram(rn.lsealer[0], mkHdr(), unhx(s(7)), int(n(8)), int(n(9)), rn.ver)
		if err != nil {
			return "tmpl=" + hx(tmpl) + " E:pack"
		}
		rn.pkts[id] = &pkt{long: true, dir: 0, pn: int64(pn), data: dg}
		return "tmpl=" + hx(tmpl) + " dgram=" + hx(dg)
	case "lopen":
		rn.ensureL()
		p := rn.pkts[int(n(1))]
		if p == nil || !p.long {
			return "skip"
		}
		data := mutate(p.data, s(2), int(n(3)))
		ep := 1 - p.dir // the receiving endpoint
		if s(2) == "own" {
			ep = p.dir
		}
		opener := rn.lopener[ep]
		hdr, pdata, _, err := wire.ParsePacket(data)
		if err != nil {
			return "E:hdrparse"
		}
		if hdr.Type == protocol.PacketTypeRetry {
			return "E:retry"
		}
		off := int(hdr.ParsedLen())
		mask := "-"
		if len(pdata) >= off+20 && n(4)&1 == 0 {
			mask = hx(handshake.VerifHPMask(opener, false, pdata[off+4:off+20]))
		}
		pre := fmt.Sprintf("off=%d plen=%d mask=%s ", off, len(pdata), mask)
		ext, dec, err := quic.VerifUnpackLongHeaderPacket(opener, hdr, pdata)
		switch {
		case err == nil:
			if int64(ext.PacketNumber) > rn.lHighest[ep] {
				rn.lHighest[ep] = int64(ext.PacketNumber)
			}
			return pre + fmt.Sprintf("ok hdr=%s pn=%d pnlen=%d payload=%s", hx(pdata[:ext.ParsedLen()]), int64(ext.PacketNumber), ext.PacketNumberLen, hx(dec))
		case err == wire.ErrInvalidReservedBits:
			return pre + "E:reserved"
		case err == handshake.ErrDecryptionFailed:
			return pre + "E:decrypt"
		case quic.VerifIsHeaderParseError(err) && strings.Contains(err.Error(), "too small"):
			return pre + "E:small"
		}
		return pre + "E:other"
	case "sseal":
		rn.ensureS()
		id, dir := int(n(1)), int(n(2))&1
		cid := unhx(s(3))
		pnLen, pn := protocol.PacketNumberLen(n(4)), protocol.PacketNumber(n(5))
		payload := unhx(s(6))
		if pnLen < 1 || pnLen > 4 {
			return "skip"
		}
		u := rn.ua[dir]
		kp := u.Sealer().KeyPhase()
		hdr, err := wire.AppendShortHeader(nil, protocol.ParseConnectionID(cid), pn, pnLen, kp)
		if err != nil {
			return "E:append"
		}
		hdr[0] |= byte(n(7)&3)<<3 | byte(n(8)&1)<<5
		ct := u.Seal(payload, pn, hdr)
		raw := make([]byte, len(hdr)+len(payload), len(hdr)+len(payload)+16)
		copy(raw, hdr)
		copy(raw[len(hdr):], payload)
		mask := "-"
		// n(9)=1: do not read the mask through the hook (it runs the protector once more)
		if len(hdr)+len(ct) >= len(hdr)-int(pnLen)+20 && !(n(9)&1 == 1 && rn.suite != 1) {
			sealed := append(append([]byte{}, hdr...), ct...)
			off := len(hdr) - int(pnLen)
			mask = hx(handshake.VerifHPMask(u, true, sealed[off+4:off+20]))
		}
		res := fmt.Sprintf("hdr=%s ct=%s mask=%s ", hx(hdr), hx(ct), mask)
		out := quic.VerifEncryptPacket(raw, u.Sealer(), pn, protocol.ByteCount(len(hdr)), protocol.ByteCount(pnLen))
		rn.pkts[id] = &pkt{long: false, dir: dir, pn: int64(pn), cidLen: len(cid), data: append([]byte{}, out...)}
		return res + "pkt=" + hx(out)
	case "sopen":
		rn.ensureS()
		p := rn.pkts[int(n(1))]
		if p == nil || p.long {
			return "skip"
		}
		data := mutate(p.data, s(2), int(n(3)))
		ep := 1 - p.dir
		if s(2) == "own" {
			ep = p.dir
		}
		u := rn.ua[ep]
		off := 1 + p.cidLen
		mask := "-"
		if len(data) >= off+20 && !(n(5)&1 == 1 && rn.suite != 1) {
			mask = hx(handshake.VerifHPMask(u, false, data[off+4:off+20]))
		}
		pre := fmt.Sprintf("mask=%s ", mask)
		pn, pnLen, kp, dec, err := quic.VerifUnpackShortHeaderPacket(u.Opener(), p.cidLen, monotime.Time(n(4)), data)
		switch {
		case err == nil || err == wire.ErrInvalidReservedBits:
			if int64(pn) > rn.sHighest[ep] {
				rn.sHighest[ep] = int64(pn)
			}
			kb := 0
			if kp == protocol.KeyPhaseOne {
				kb = 1
			}
			if err != nil {
				return pre + "E:reserved"
			}
			return pre + fmt.Sprintf("ok hdr=%s pn=%d pnlen=%d kp=%d payload=%s", hx(data[:off+int(pnLen)]), int64(pn), pnLen, kb, hx(dec))
		case err == handshake.ErrDecryptionFailed:
			return pre + "E:decrypt"
		case err == handshake.ErrKeysDropped:
			return pre + "E:dropped"
		case quic.VerifIsHeaderParseError(err) && strings.Contains(err.Error(), "too small"):
			return pre + "E:small"
		case quic.VerifIsHeaderParseError(err):
			return pre + "E:hdrparse"
		}
		return pre + "E:other"
	}
	return "bad-op"
}

func TestDriver(t *testing.T) { vh.Main(t, "pkt", newRunner) }
