//go:build verif

// Package ctimer drives the REAL Conn.maybeResetTimer (hook VerifMaybeResetTimer builds the connection only as
// far as that function reads it) inside a testing/synctest bubble and observes the armed deadline as the virtual
// time at which the timer fires.
package ctimer

import (
	"fmt"
	"strings"
	"testing"
	"testing/synctest"
	"time"

	quic "github.com/refraction-networking/uquic"
	"github.com/refraction-networking/uquic/internal/verifharness/vh"
)

type runner struct{ t *testing.T }

func opt(has bool, v int64) string {
	if !has {
		return "-"
	}
	return fmt.Sprint(v)
}

func (rn *runner) GenOp(r *vh.Rand, i int) string {
	in := quic.VerifTimerInput{
		HandshakeComplete: r.Chance(75), Blocked: r.Pick(45, 35, 20),
		CreatedMs: -r.Range(0, 20000), LastRecvMs: -r.Range(0, 4000),
		HasFirstAE: r.Chance(50), FirstAEMs: -r.Range(0, 4000),
		IdleTimeoutMs:   []int64{30000, 5000, 100, r.Range(1, 60000)}[r.Pick(40, 20, 10, 30)],
		HsIdleTimeoutMs: []int64{5000, 1000, r.Range(1, 20000)}[r.Pick(50, 20, 30)],
		KeepAlivePeriodMs: []int64{0, 15000, r.Range(1, 30000)}[r.Pick(50, 25, 25)], KeepAlivePingSent: r.Chance(20),
		KeepAliveIntervalMs: []int64{15000, r.Range(1, 30000)}[r.Pick(50, 50)],
		HasAckAlarm: r.Chance(50), AckAlarmMs: r.Range(-5, 30),
		HasLoss: r.Chance(70), LossMs: []int64{r.Range(-10, 50), r.Range(50, 2000), r.Range(2000, 70000)}[r.Pick(40, 40, 20)],
		HasPacing: r.Chance(50), PacingMs: r.Range(-2, 20),
	}
	return fmt.Sprintf("timer hc=%s bl=%d cr=%d lr=%d ae=%s idle=%d hs=%d kap=%d kas=%s kai=%d ack=%s loss=%s pace=%s",
		b01(in.HandshakeComplete), in.Blocked, in.CreatedMs, in.LastRecvMs, opt(in.HasFirstAE, in.FirstAEMs), in.IdleTimeoutMs, in.HsIdleTimeoutMs,
		in.KeepAlivePeriodMs, b01(in.KeepAlivePingSent), in.KeepAliveIntervalMs, opt(in.HasAckAlarm, in.AckAlarmMs), opt(in.HasLoss, in.LossMs), opt(in.HasPacing, in.PacingMs))
}

func b01(b bool) string {
	if b {
		return "1"
	}
	return "0"
}

func parse(op string) (in quic.VerifTimerInput, ok bool) {
	f := strings.Fields(op)
	if len(f) != 14 || f[0] != "timer" {
		return in, false
	}
	kv := map[string]string{}
	for _, x := range f[1:] {
		if i := strings.IndexByte(x, '='); i > 0 {
			kv[x[:i]] = x[i+1:]
		}
	}
	o := func(k string) (bool, int64) {
		if kv[k] == "-" || kv[k] == "" {
			return false, 0
		}
		return true, vh.Atoi64(kv[k])
	}
	in.HandshakeComplete = kv["hc"] == "1"
	in.Blocked = int(vh.Atoi64(kv["bl"]))
	if in.Blocked < 0 || in.Blocked > 2 {
		return in, false
	}
	in.CreatedMs, in.LastRecvMs = vh.Atoi64(kv["cr"]), vh.Atoi64(kv["lr"])
	in.HasFirstAE, in.FirstAEMs = o("ae")
	in.IdleTimeoutMs, in.HsIdleTimeoutMs = vh.Atoi64(kv["idle"]), vh.Atoi64(kv["hs"])
	in.KeepAlivePeriodMs, in.KeepAlivePingSent, in.KeepAliveIntervalMs = vh.Atoi64(kv["kap"]), kv["kas"] == "1", vh.Atoi64(kv["kai"])
	in.HasAckAlarm, in.AckAlarmMs = o("ack")
	in.HasLoss, in.LossMs = o("loss")
	in.HasPacing, in.PacingMs = o("pace")
	return in, true
}

func (rn *runner) Exec(op string) (res string) {
	in, ok := parse(op)
	if !ok {
		return "bad-op"
	}
	synctest.Test(rn.t, func(t *testing.T) {
		time.Sleep(100 * time.Hour) // monotime must be far from its zero value: offsets into the past stay positive
		start := time.Now()
		tm := quic.VerifMaybeResetTimer(in)
		<-tm.C
		res = fmt.Sprintf("fired=%d pto=%d", time.Since(start).Milliseconds(), quic.VerifPTOms())
	})
	return res
}

func TestDriver(t *testing.T) {
	vh.Main(t, "ctimer", func(r *vh.Rand) vh.Runner { return &runner{t: t} })
}
