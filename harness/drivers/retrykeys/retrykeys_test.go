//go:build verif

// Package retrykeys is the end-to-end observer of property C05 for the Initial keys (RFC 9001 §5.2): a real
// client (plain Transport, or UTransport with a built-in QUICSpec) and a real server (Transport.Listen, with or
// without address validation by Retry) over testutils/simnet inside a testing/synctest bubble. One op = one
// handshake. The driver does NOT judge anything and does not touch any key: it reports every Initial and Retry
// packet that either endpoint put on the wire, byte for byte, in the order they were sent. The Lean oracle is the
// independent observer: it derives the Initial keys itself (its own HKDF / AES-GCM) from the connection ID a
// conformant peer would use — the Destination Connection ID of the client's first Initial, after a Retry the
// Retry's Source Connection ID — and must be able to open every one of those packets, in both directions.
//
// op:     hs retry=<0|1> spec=<0 plain|1 Firefox 116|2 Chrome 115> ver=<1|2> ccid=<len> scid=<len> rtt=<ms> drop=<c<i>|s<i>,…|->
// result: hs=<ok|E:…> pk=<item>;<item>;…
//
//	item: I,<c2s|s2c>,<version>,<pn offset>,<dcid>,<scid>,<token length>,<packet bytes>   (one Initial packet)
//	      R,<version>,<dcid>,<scid>,<packet bytes>                                         (a Retry packet)
package retrykeys

import (
	"context"
	"encoding/hex"
	"fmt"
	"io"
	"net"
	"strconv"
	"strings"
	"testing"
	"testing/synctest"
	"time"

	quic "github.com/refraction-networking/uquic"
	"github.com/refraction-networking/uquic/internal/protocol"
	"github.com/refraction-networking/uquic/internal/verifharness/e2e"
	"github.com/refraction-networking/uquic/internal/verifharness/vh"
	"github.com/refraction-networking/uquic/internal/wire"
)

var theT *testing.T

type runner struct{ n int }

func (rn *runner) GenOp(r *vh.Rand, i int) string {
	retry := r.Pick(25, 75)
	spec := r.Pick(50, 25, 25)
	ver := 1
	if spec == 0 && r.Chance(30) {
		ver = 2
	}
	ccid := []int{0, 4, 4, 8, 12, 20}[r.Intn(6)]
	scid := []int{4, 4, 8, 16, 20}[r.Intn(5)]
	drop := "-"
	switch r.Pick(55, 12, 12, 8, 8, 5) {
	case 1:
		drop = "c0" // the first Initial is lost: the client retransmits it after a PTO
	case 2:
		drop = "s0" // the Retry (or the server's first flight) is lost
	case 3:
		drop = "c1" // with a Retry: the first Initial that carries the token is lost
	case 4:
		drop = "s1"
	case 5:
		drop = "c0,s1"
	}
	return fmt.Sprintf("hs retry=%d spec=%d ver=%d ccid=%d scid=%d rtt=%d drop=%s", retry, spec, ver, ccid, scid, r.Range(2, 120), drop)
}

func field(op, key string, def int64) int64 {
	for _, w := range strings.Fields(op) {
		if strings.HasPrefix(w, key+"=") {
			n, err := strconv.ParseInt(w[len(key)+1:], 10, 64)
			if err == nil {
				return n
			}
		}
	}
	return def
}

func sfield(op, key, def string) string {
	for _, w := range strings.Fields(op) {
		if strings.HasPrefix(w, key+"=") {
			return w[len(key)+1:]
		}
	}
	return def
}

func hx(b []byte) string {
	if len(b) == 0 {
		return "-"
	}
	return hex.EncodeToString(b)
}

// wireItems lists the Initial and Retry packets of the datagram log, in sending order.
func wireItems(log []e2e.Datagram) string {
	var items []string
	for _, d := range log {
		data := d.Data
		for len(data) > 0 && wire.IsLongHeaderPacket(data[0]) {
			hdr, pkt, rest, err := wire.ParsePacket(data)
			if err != nil {
				break
			}
			switch hdr.Type {
			case protocol.PacketTypeInitial:
				items = append(items, fmt.Sprintf("I,%s,%d,%d,%s,%s,%d,%s", d.Dir, verNo(hdr.Version), hdr.ParsedLen(),
					hx(hdr.DestConnectionID.Bytes()), hx(hdr.SrcConnectionID.Bytes()), len(hdr.Token), hx(pkt)))
			case protocol.PacketTypeRetry:
				items = append(items, fmt.Sprintf("R,%d,%s,%s,%s", verNo(hdr.Version),
					hx(hdr.DestConnectionID.Bytes()), hx(hdr.SrcConnectionID.Bytes()), hx(data)))
			}
			if hdr.Type == protocol.PacketTypeRetry {
				break
			}
			data = rest
		}
	}
	if len(items) == 0 {
		return "-"
	}
	return strings.Join(items, ";")
}

func verNo(v protocol.Version) int {
	if v == protocol.Version2 {
		return 2
	}
	if v == protocol.Version1 {
		return 1
	}
	return 0
}

func (rn *runner) Exec(op string) (res string) {
	if !strings.HasPrefix(op, "hs ") {
		return "skip"
	}
	retry := field(op, "retry", 0) == 1
	spec := int(field(op, "spec", 0))
	ver := quic.Version1
	if field(op, "ver", 1) == 2 {
		ver = quic.Version2
	}
	ccid := int(field(op, "ccid", 4))
	scid := int(field(op, "scid", 4))
	if ccid < 0 || ccid > 20 || scid < 4 || scid > 20 || spec < 0 || spec > 2 {
		return "skip"
	}
	rtt := time.Duration(field(op, "rtt", 20)) * time.Millisecond
	var faults []e2e.Fault
	if ds := sfield(op, "drop", "-"); ds != "-" {
		for _, x := range strings.Split(ds, ",") {
			if len(x) < 2 {
				return "skip"
			}
			i, err := strconv.Atoi(x[1:])
			if err != nil || i < 0 || i > 50 {
				return "skip"
			}
			dir := e2e.ToServer
			if x[0] == 's' {
				dir = e2e.ToClient
			}
			faults = append(faults, e2e.Fault{Dir: dir, Index: i, Kind: "drop"})
		}
	}
	var qspec *quic.QUICSpec
	if spec != 0 {
		id := quic.QUICFirefox_116
		if spec == 2 {
			id = quic.QUICChrome_115
		}
		s, err := quic.QUICID2Spec(id)
		if err != nil {
			return "hs=E:spec pk=-"
		}
		qspec = &s
	}
	rn.n++
	res = "hs=E:bubble pk=-"
	theT.Run(fmt.Sprintf("hs%d", rn.n), func(t *testing.T) {
		synctest.Test(t, func(t *testing.T) {
			env, err := e2e.Start(e2e.Setup{RTT: rtt, Faults: faults, Spec: qspec,
				ClientConf: &quic.Config{Versions: []quic.Version{ver}},
				ServerTransport: func(tr *quic.Transport) {
					tr.ConnectionIDLength = scid
					tr.VerifySourceAddress = func(net.Addr) bool { return retry }
				},
				ClientTransport: func(tr *quic.Transport) { tr.ConnectionIDLength = ccid },
			})
			if err != nil {
				res = "hs=E:start pk=-"
				return
			}
			defer env.Close()
			go func() {
				c, err := env.Listener.Accept(context.Background())
				if err != nil {
					return
				}
				for {
					s, err := c.AcceptStream(context.Background())
					if err != nil {
						return
					}
					go func() { io.Copy(io.Discard, s) }()
				}
			}()
			ctx, cancel := context.WithTimeout(context.Background(), 20*time.Second)
			defer cancel()
			c, err := env.Dial(ctx)
			hs := "ok"
			if err != nil {
				hs = "E:dial"
			} else {
				time.Sleep(2 * rtt)
				c.CloseWithError(0, "")
				time.Sleep(200 * time.Millisecond)
			}
			synctest.Wait()
			res = "hs=" + hs + " pk=" + wireItems(env.Net.Log)
		})
	})
	return res
}

func TestDriver(t *testing.T) {
	theT = t
	vh.Main(t, "retrykeys", func(r *vh.Rand) vh.Runner { return &runner{} })
}
