//go:build verif

// Driver "pnspace": the real sent packet handler's packet number spaces over the whole life of a
// connection — PeekPacketNumber / PopPacketNumber / SentPacket per encryption level, ResetForRetry
// (client), DropPackets (Initial, Handshake, rejected 0-RTT).
package pnspace

import (
	"fmt"
	"strings"
	"testing"

	"github.com/refraction-networking/uquic/internal/ackhandler"
	"github.com/refraction-networking/uquic/internal/monotime"
	"github.com/refraction-networking/uquic/internal/protocol"
	"github.com/refraction-networking/uquic/internal/utils"
	"github.com/refraction-networking/uquic/internal/verifharness/vh"
	"github.com/refraction-networking/uquic/internal/wire"
)

type runner struct {
	h   ackhandler.SentPacketHandler
	now int64
	// generator state
	made     bool
	dropped  [2]bool // Initial, Handshake
	retries  int
	sentHS   bool // Handshake or 1-RTT packets were sent: no Retry can arrive any more
	style    int
}

type nopHandler struct{}

func (nopHandler) OnAcked(wire.Frame) {}
func (nopHandler) OnLost(wire.Frame)  {}

func newRunner(r *vh.Rand) vh.Runner {
	return &runner{now: 1 + r.Range(0, 1_000_000_000), style: r.Pick(40, 40, 20)}
}

func lvlOf(s string) protocol.EncryptionLevel {
	switch s {
	case "I":
		return protocol.EncryptionInitial
	case "H":
		return protocol.EncryptionHandshake
	case "Z":
		return protocol.Encryption0RTT
	}
	return protocol.Encryption1RTT
}

func (rn *runner) GenOp(r *vh.Rand, i int) string {
	op := rn.genOp(r, i)
	switch op {
	case "send H", "send A":
		rn.sentHS = true
	case "retry":
		// a Retry is only accepted in response to the first Initial flight (RFC 9000 §17.2.5.2):
		// before any Handshake or 1-RTT packet was sent and while the Initial keys exist
		if rn.sentHS || rn.dropped[0] {
			return "send Z"
		}
	}
	return op
}

func (rn *runner) genOp(r *vh.Rand, i int) string {
	if !rn.made && (i == 0 || r.Chance(50)) {
		rn.made = true
		pn := []int64{0, 0, 1, r.Range(0, 70000), int64(1)<<23 + r.Range(-3, 3), int64(r.U64() >> 3)}[r.Intn(6)]
		return fmt.Sprintf("hnew %d c", pn)
	}
	switch rn.style {
	case 0: // a client that sends some Initials and a burst of 0-RTT, gets a Retry, repeats
		switch r.Pick(14, 58, 10, 6, 6, 6) {
		case 0:
			return "send I"
		case 1:
			return "send Z"
		case 2:
			if !rn.dropped[0] && rn.retries < 3 {
				rn.retries++
				return "retry"
			}
			return "send Z"
		case 3:
			return "send H"
		case 4:
			return "send A"
		default:
			return "drop Z"
		}
	case 1: // long application-data runs (skips with the production periods), occasional Retry
		switch r.Pick(90, 4, 3, 3) {
		case 0:
			return "send " + []string{"Z", "A"}[r.Intn(2)]
		case 1:
			return "send I"
		case 2:
			if !rn.dropped[0] {
				return "retry"
			}
			return "send A"
		default:
			return "send H"
		}
	default: // everything, including drops of Initial/Handshake
		switch r.Pick(20, 15, 25, 20, 8, 4, 4, 4) {
		case 0:
			return "send I"
		case 1:
			return "send H"
		case 2:
			return "send Z"
		case 3:
			return "send A"
		case 4:
			return "retry"
		case 5:
			rn.dropped[0] = true
			return "drop I"
		case 6:
			rn.dropped[1] = true
			return "drop H"
		default:
			return "drop Z"
		}
	}
}

func (rn *runner) ensure() {
	if rn.h == nil {
		rn.mk(0)
	}
}

func (rn *runner) mk(initialPN int64) {
	rn.h = ackhandler.NewSentPacketHandler(protocol.PacketNumber(initialPN), 1200, utils.NewRTTStats(), &utils.ConnectionStats{},
		true, false, nil, protocol.PerspectiveClient, nil, utils.DefaultLogger)
}

func (rn *runner) appNTS() int64 {
	_, nts, _ := ackhandler.VerifSpaceGen(rn.h, protocol.Encryption1RTT)
	return nts
}

func (rn *runner) Exec(op string) string {
	f := strings.Fields(op)
	rn.now += 1_000_000
	switch f[0] {
	case "hnew":
		rn.mk(vh.Atoi64(f[1]))
		return fmt.Sprintf("nts=%d", rn.appNTS())
	case "send":
		rn.ensure()
		lvl := lvlOf(f[1])
		if _, _, ok := ackhandler.VerifSpaceGen(rn.h, lvl); !ok {
			return "skip" // the connection never sends at a level whose keys it dropped
		}
		peek, ln := rn.h.PeekPacketNumber(lvl)
		pn := rn.h.PopPacketNumber(lvl)
		rn.h.SentPacket(monotime.Time(rn.now), pn, protocol.InvalidPacketNumber, nil,
			[]ackhandler.Frame{{Frame: &wire.PingFrame{}, Handler: nopHandler{}}}, lvl, protocol.ECNNon, 100, false, false)
		_, nts, _ := ackhandler.VerifSpaceGen(rn.h, lvl)
		return fmt.Sprintf("%d len=%d peek=%d nts=%d", int64(pn), ln, int64(peek), nts)
	case "retry":
		rn.ensure()
		if _, _, ok := ackhandler.VerifSpaceGen(rn.h, protocol.EncryptionInitial); !ok {
			return "skip" // a Retry is only processed while the Initial keys exist
		}
		rn.h.ResetForRetry(monotime.Time(rn.now))
		return fmt.Sprintf("nts=%d", rn.appNTS())
	case "drop":
		rn.ensure()
		rn.h.DropPackets(lvlOf(f[1]), monotime.Time(rn.now))
		return "ok"
	}
	return "bad-op"
}

func TestDriver(t *testing.T) { vh.Main(t, "pnspace", newRunner) }
