//go:build verif

package h3g

// Field-section generators: the same mostly-valid sections + malformations + limits around the
// section size as the h3f driver uses (copied from harness/drivers/h3f/h3f_test.go; a driver package
// is injected on its own and cannot import another driver's test file).

import (
	"encoding/hex"
	"net/http"
	"sort"
	"strconv"
	"strings"

	"github.com/quic-go/qpack"

	"github.com/refraction-networking/uquic/internal/verifharness/vh"
)

type field = qpack.HeaderField

func hx(s string) string { return hex.EncodeToString([]byte(s)) }
func unhx(s string) string {
	b, err := hex.DecodeString(s)
	if err != nil {
		return "\x00BADHEX"
	}
	return string(b)
}

func isASCII(s string) bool {
	for i := 0; i < len(s); i++ {
		if s[i] >= 0x80 {
			return false
		}
	}
	return true
}

func fmtField(f field) string {
	t := hx(f.Name) + "=" + hx(f.Value)
	if !isASCII(f.Name) && strings.ToLower(f.Name) != f.Name {
		t += "^"
	}
	return t
}

func fmtFields(fs []field) string {
	parts := make([]string, len(fs))
	for i, f := range fs {
		parts[i] = fmtField(f)
	}
	return strings.Join(parts, " ")
}

func parseFields(toks []string) []field {
	fs := make([]field, 0, len(toks))
	for _, t := range toks {
		t = strings.TrimSuffix(t, "^")
		i := strings.IndexByte(t, '=')
		if i < 0 {
			continue
		}
		fs = append(fs, field{Name: unhx(t[:i]), Value: unhx(t[i+1:])})
	}
	return fs
}

func fmtHdrs(h http.Header) string {
	if len(h) == 0 {
		return "-"
	}
	keys := make([]string, 0, len(h))
	for k := range h {
		keys = append(keys, k)
	}
	sort.Strings(keys)
	parts := make([]string, 0, len(keys))
	for _, k := range keys {
		vs := make([]string, len(h[k]))
		for i, v := range h[k] {
			vs[i] = hx(v)
		}
		parts = append(parts, hx(k)+":"+strings.Join(vs, ","))
	}
	return strings.Join(parts, ";")
}

// parseHdrs reads <hdrs>; keys are used verbatim (not canonicalised).
var probeNames = []string{
	"authorization", "cache-control", "connection", "content-encoding", "content-length", "content-range",
	"content-type", "expect", "host", "keep-alive", "max-forwards", "pragma", "proxy-authenticate",
	"proxy-authorization", "proxy-connection", "range", "realm", "te", "trailer", "transfer-encoding",
	"www-authenticate", "if-match", "if-", "if", "x-if-y", "upgrade", "etag", "x-trailer", "date", "a b", "If-None-Match",
	"Content-MD5", "x--y", "-", "é", "", "cookie", "set-cookie", "user-agent", "ETAG",
}

var reqPseudo = []string{":method", ":scheme", ":authority", ":path", ":protocol"}
var allPseudo = []string{":method", ":scheme", ":authority", ":path", ":protocol", ":status"}
var forbidden = []string{"connection", "keep-alive", "proxy-connection", "transfer-encoding", "upgrade"}
var regularNames = []string{"accept", "user-agent", "cookie", "x-a", "content-type", "trailer", "te", "content-length", "host",
	"accept-encoding", "x-b", "cache-control", "if-match", "etag", "date", "a", "x_y", "z~", "range", "content-encoding"}
var trailerNames = []string{"x-t", "etag", "x-checksum", "a", "digest", "server-timing", "x-b"}
var methods = []string{"GET", "POST", "PUT", "HEAD", "CONNECT", "OPTIONS", "PATCH", "DELETE", "get", "G T", ""}
var clValues = []string{"0", "5", "05", "123456", "", "+5", "-1", "5 ", " 5", "5,5", "9223372036854775807", "9223372036854775808",
	"18446744073709551616", "1_0", "0x10", "٣", "5\x00"}
// Content-Length values around the int64 / uint64 boundaries
var clBoundary = []string{"9223372036854775806", "9223372036854775807", "9223372036854775808", "9223372036854775809",
	"18446744073709551614", "18446744073709551615", "18446744073709551616", "18446744073709551617",
	"09223372036854775807", "009223372036854775808", "99999999999999999999", "184467440737095516150", "4294967296", "2147483648"}
var statusValues = []string{"200", "204", "404", "100", "103", "", "0", "99", "1000", "+200", "-200", "0200", "2 0", "abc",
	"9223372036854775807", "9223372036854775808", "-9223372036854775808", "-9223372036854775809", "2e2", "200 OK"}
var teValues = []string{"trailers", "gzip", "", "Trailers", "trailers, deflate", "trailers "}

// bytes that matter for the byte classes
var edgeBytes = []byte{0, 1, 8, 9, 10, 13, 31, 32, 33, 34, 40, 44, 47, 58, 59, 64, 65, 90, 91, 96, 97, 122, 123, 126, 127, 128, 0xc3, 0xa9, 0xff}

func randBytes(r *vh.Rand, n int, edgy bool) string {
	b := make([]byte, n)
	for i := range b {
		switch {
		case edgy && r.Chance(30):
			b[i] = edgeBytes[r.Intn(len(edgeBytes))]
		case edgy && r.Chance(10):
			b[i] = byte(r.U64())
		default:
			b[i] = "abcdefghijklmnopqrstuvwxyz0123456789-_"[r.Intn(38)]
		}
	}
	return string(b)
}

func pick(r *vh.Rand, xs []string) string { return xs[r.Intn(len(xs))] }

func randValue(r *vh.Rand) string {
	switch r.Pick(50, 10, 25, 15) {
	case 0:
		return randBytes(r, r.Intn(12), false)
	case 1:
		return ""
	case 2:
		return randBytes(r, 1+r.Intn(6), true)
	default:
		return pick(r, []string{"a b", "a\tb", " a", "a ", "\xe4\xbd\xa0", "x\x7f", "x\ny", "x\ry", "x\x00y", "\xff\xfe"})
	}
}

func randRegular(r *vh.Rand) field {
	n := pick(r, regularNames)
	var v string
	switch n {
	case "te":
		v = pick(r, teValues)
		if r.Chance(50) {
			v = "trailers"
		}
	case "content-length":
		v = pick(r, clValues)
		if r.Chance(50) {
			v = strconv.Itoa(r.Intn(1000))
		} else if r.Chance(30) {
			v = pick(r, clBoundary)
		}
	case "trailer":
		v = pick(r, []string{"x-t", "X-T, etag", " a ,b", "", ",", "x t", "Content-Length, x-t", "if-match", "x-t,x-t"})
	default:
		v = randValue(r)
		if r.Chance(70) {
			v = randBytes(r, 1+r.Intn(8), false)
		}
	}
	return field{Name: n, Value: v}
}

// validRequest returns a request field section that requestFromHeaders accepts (most of the time).
func validRequest(r *vh.Rand) []field {
	var fs []field
	m := pick(r, methods[:8])
	switch {
	case m == "CONNECT" && r.Bool(): // extended CONNECT
		fs = []field{{":method", m}, {":protocol", pick(r, []string{"websocket", "webtransport", "connect-udp"})},
			{":scheme", "https"}, {":authority", "example.com"}, {":path", "/chat?x=1"}}
	case m == "CONNECT":
		fs = []field{{":method", m}, {":authority", "example.com:443"}}
	default:
		fs = []field{{":method", m}, {":scheme", pick(r, []string{"https", "http"})},
			{":authority", pick(r, []string{"example.com", "a", "[::1]:443", "xn--bcher-kva.example"})},
			{":path", pick(r, []string{"/", "/a/b?c=d", "*", "/%41", "//x", "/a b", "a", "http://x/y"})}}
	}
	// pseudo fields may come in any order
	for i := len(fs) - 1; i > 0; i-- {
		j := r.Intn(i + 1)
		fs[i], fs[j] = fs[j], fs[i]
	}
	n := r.Intn(6)
	for i := 0; i < n; i++ {
		fs = append(fs, randRegular(r))
	}
	return fs
}

func validResponse(r *vh.Rand) []field {
	fs := []field{{":status", pick(r, statusValues[:5])}}
	if r.Chance(25) {
		fs[0].Value = pick(r, statusValues)
	}
	n := r.Intn(6)
	for i := 0; i < n; i++ {
		fs = append(fs, randRegular(r))
	}
	return fs
}

func validTrailers(r *vh.Rand) []field {
	var fs []field
	n := r.Intn(5)
	if r.Chance(30) {
		n = 2 + r.Intn(5)
	}
	for i := 0; i < n; i++ {
		fs = append(fs, field{pick(r, trailerNames), randBytes(r, r.Intn(8), false)})
	}
	return fs
}

func insertAt(fs []field, i int, f field) []field {
	i = min(i, len(fs))
	fs = append(fs, field{})
	copy(fs[i+1:], fs[i:])
	fs[i] = f
	return fs
}

// mutate applies one malformation at a random position.
func mutate(r *vh.Rand, fs []field, kind string) []field {
	pos := r.Intn(len(fs) + 1)
	at := func() int {
		if len(fs) == 0 {
			return -1
		}
		return r.Intn(len(fs))
	}
	switch r.Pick(10, 8, 8, 8, 8, 8, 8, 6, 6, 6, 6, 6, 6, 6, 10) {
	case 0: // duplicate pseudo-field at any position; the first copy may be empty (the repaired defect)
		var ps []int
		for i, f := range fs {
			if strings.HasPrefix(f.Name, ":") {
				ps = append(ps, i)
			}
		}
		if len(ps) == 0 {
			return insertAt(fs, pos, field{pick(r, allPseudo), randValue(r)})
		}
		i := ps[r.Intn(len(ps))]
		d := fs[i]
		switch r.Pick(40, 30, 30) {
		case 0:
			fs[i].Value = ""
		case 1:
			d.Value = ""
		}
		return insertAt(fs, pos, d)
	case 1: // unknown pseudo
		return insertAt(fs, pos, field{pick(r, []string{":foo", ":", ":Path", ":path ", "::path", ":status", ":method", ":protocol", ":é"}), randValue(r)})
	case 2: // pseudo after regular
		fs = append(fs, field{pick(r, allPseudo), randBytes(r, 1+r.Intn(4), false)})
		return fs
	case 3: // upper case / odd name byte
		if i := at(); i >= 0 && len(fs[i].Name) > 0 {
			b := []byte(fs[i].Name)
			j := r.Intn(len(b))
			if r.Bool() && b[j] >= 'a' && b[j] <= 'z' {
				b[j] -= 32
			} else {
				b[j] = edgeBytes[r.Intn(len(edgeBytes))]
			}
			fs[i].Name = string(b)
		}
		return fs
	case 4: // forbidden value byte
		if i := at(); i >= 0 {
			v := []byte(fs[i].Value)
			j := r.Intn(len(v) + 1)
			c := edgeBytes[r.Intn(len(edgeBytes))]
			v = append(v[:j], append([]byte{c}, v[j:]...)...)
			fs[i].Value = string(v)
		}
		return fs
	case 5: // connection-specific field
		return insertAt(fs, pos, field{pick(r, forbidden), randValue(r)})
	case 6: // te variants
		return insertAt(fs, pos, field{"te", pick(r, teValues)})
	case 7: // content-length variants (twice: equal or contradicting), often at the int64 / uint64 boundary
		v := pick(r, clValues)
		if r.Chance(45) {
			v = pick(r, clBoundary)
		}
		fs = insertAt(fs, pos, field{"content-length", v})
		if r.Bool() {
			w := v
			if r.Bool() {
				w = pick(r, clValues)
			}
			fs = insertAt(fs, r.Intn(len(fs)+1), field{"content-length", w})
		}
		return fs
	case 8: // empty name / empty value
		return insertAt(fs, pos, field{pick(r, []string{"", "", "a", ":"}), pick(r, []string{"", "x"})})
	case 9: // non-ASCII names (lower-case, upper-case, invalid UTF-8)
		return insertAt(fs, pos, field{pick(r, []string{"é", "É", "x-é", "\xff", "a\xc3", "ǆ", "ǅ", "K", ":\xc3\xa9", "straße", "ſ"}), randValue(r)})
	case 10: // drop a field (missing pseudo)
		if i := at(); i >= 0 {
			return append(fs[:i:i], fs[i+1:]...)
		}
		return fs
	case 11: // pseudo-field of the other kind
		if kind == "resp" {
			return insertAt(fs, r.Intn(2), field{pick(r, reqPseudo), "x"})
		}
		return insertAt(fs, r.Intn(2), field{":status", "200"})
	case 12: // random junk field
		return insertAt(fs, pos, field{randBytes(r, r.Intn(6), true), randBytes(r, r.Intn(6), true)})
	case 13: // trailer-forbidden names (matter for trl)
		return insertAt(fs, pos, field{pick(r, probeNames[:28]), randBytes(r, r.Intn(5), false)})
	default: // request pseudo-header rules: CONNECT / extended CONNECT / :protocol / emptied pseudo values
		set := func(name, v string) {
			for i := range fs {
				if fs[i].Name == name {
					fs[i].Value = v
					return
				}
			}
			fs = insertAt(fs, 0, field{name, v})
		}
		del := func(name string) {
			for i := range fs {
				if fs[i].Name == name {
					fs = append(fs[:i:i], fs[i+1:]...)
					return
				}
			}
		}
		switch r.Intn(7) {
		case 0:
			set(":method", "CONNECT")
		case 1:
			set(":protocol", pick(r, []string{"websocket", "", "x"}))
		case 2:
			set(":method", "CONNECT")
			set(":protocol", "websocket")
			del(pick(r, []string{":scheme", ":path", ":authority", ":none"}))
		case 3:
			set(pick(r, []string{":path", ":authority", ":method", ":scheme"}), "")
		case 4:
			set(":method", "CONNECT")
			del(":path")
			del(":scheme")
			if r.Bool() {
				del(":authority")
			}
		case 5:
			set(":method", "CONNECT")
			set(":path", "")
		default:
			del(pick(r, reqPseudo))
		}
		return fs
	}
}

func sectionSize(fs []field) int {
	n := 0
	for _, f := range fs {
		n += len(f.Name) + len(f.Value) + 32
	}
	return n
}

func pickLimit(r *vh.Rand, fs []field) int {
	sz := sectionSize(fs)
	if len(fs) >= 2 && r.Chance(10) {
		// every single field fits, the section as a whole does not (or just does): the budget is cumulative
		mx := 0
		for _, f := range fs {
			mx = max(mx, len(f.Name)+len(f.Value)+32)
		}
		switch r.Intn(4) {
		case 0:
			return mx
		case 1:
			return sz - 1
		case 2:
			return sz
		default:
			return mx + r.Intn(sz-mx+1)
		}
	}
	switch r.Pick(74, 18, 5, 3) {
	case 0:
		return sz + 1000 + r.Intn(100000)
	case 1: // around the limit, and around the limit without the 32-byte overhead of the last fields
		d := []int{0, 1, -1, 31, -31, 32, -32, 33, -33, 2, -2}[r.Intn(11)]
		if r.Chance(25) {
			d -= 32 * r.Intn(len(fs)+1)
		}
		return max(sz+d, 0)
	case 2:
		return r.Intn(sz + 2)
	default:
		return 0
	}
}

// small alphabets of the bounded-exhaustive sweep (12 names x 6 values)
func genSection(r *vh.Rand, kind string) []field {
	var fs []field
	switch kind {
	case "req":
		fs = validRequest(r)
	case "resp":
		fs = validResponse(r)
	default:
		fs = validTrailers(r)
	}
	if r.Chance(60) {
		fs = mutate(r, fs, kind)
		if r.Chance(25) {
			fs = mutate(r, fs, kind)
		}
	}
	return fs
}

