//go:build verif

// Package h3g is the C19 GLUE driver: what the callers of the field-section parsers / writers do.
//
//   - srv: a real http3.Server (ServeQUICConn → RawServerConn.handleRequestStream, decodeTrailers) over
//     testutils/simnet inside a testing/synctest bubble, facing a bare QUIC peer that sends QPACK-encoded
//     generated field sections (HEADERS [+ DATA] [+ trailer HEADERS]) on request streams, one after the
//     other, and reports per request: the status of the response (if any), how the read side ended
//     (eof / RESET_STREAM code), the STOP_SENDING code, and what the handler saw (if it was called).
//   - cli: a real http3 ClientConn (Transport.NewClientConn → RoundTrip → RequestStream.ReadResponse,
//     decodeTrailers) facing a bare QUIC peer that answers request k with the k-th scripted response.
//   - conc: 2..3 requests through ONE requestWriter with a scripted interleaving (hook
//     VerifInterleavedWriteHeaders); every request's HEADERS frame is decoded on its own.
//
// Line protocol (hex byte strings; a field is <name>=<value>[^] exactly as in the h3f driver):
//
//	srv lim=<L> | e=<hdrFrameLen> q=<0|1> d=<dataLen|-1> te=<trlFrameLen|-1> f <field>… [t <field>…] | …
//	  => st=<status|-> rd=<eof|rst:<code>|…> wr=<open|stop:<code>> h=<-|ok m= proto= host= uri= cl= h= tr= b=<n> rerr=<0|1> t=<hdrs>> | …
//	cli lim=<L> | e= q= d= te= f <field>… [t <field>…] | …
//	  => stop=<open|stop:<code>> r=<E|ok code= cl= h= tr= b=<n> rerr=<0|1> t=<hdrs>|unsupported> | …
//	conc | at=<k> gz=<0|1> m=<hex> host=<hex> path=<hex> x=<hex> | …   => ok <field>… | E:<class> | …
//
// e / te are the lengths of the HEADERS frames' payloads (what the raw peer's QPACK encoder produced;
// q=1 appends a truncated field line, i.e. a QPACK decoding error after the last field).
package h3g

import (
	"bytes"
	"context"
	"crypto/x509"
	"errors"
	"fmt"
	"io"
	"net"
	"net/http"
	"strconv"
	"strings"
	"sync"
	"testing"
	"testing/synctest"
	"time"

	"github.com/quic-go/qpack"

	quic "github.com/refraction-networking/uquic"
	"github.com/refraction-networking/uquic/http3"
	"github.com/refraction-networking/uquic/integrationtests/tools"
	"github.com/refraction-networking/uquic/internal/verifharness/vh"
	"github.com/refraction-networking/uquic/quicvarint"
	"github.com/refraction-networking/uquic/testutils/simnet"
	tls "github.com/refraction-networking/utls"
)

var (
	theT         *testing.T
	srvTLS       *tls.Config
	cliTLS       *tls.Config
	tlsSetupOnce sync.Once
)

func setupTLS() {
	ca, caKey, err := tools.GenerateCA()
	if err != nil {
		panic(err)
	}
	leaf, leafKey, err := tools.GenerateLeafCert(ca, caKey)
	if err != nil {
		panic(err)
	}
	srvTLS = &tls.Config{
		Certificates: []tls.Certificate{{Certificate: [][]byte{leaf.Raw}, PrivateKey: leafKey}},
		NextProtos:   []string{http3.NextProtoH3},
	}
	root := x509.NewCertPool()
	root.AddCert(ca)
	cliTLS = &tls.Config{ServerName: "localhost", RootCAs: root, NextProtos: []string{http3.NextProtoH3}}
}

const lat = 2 * time.Millisecond // one way
const settle = 8 * lat           // two round trips: everything the peer does in reaction has arrived

// ---------------------------------------------------------------- messages

type msg struct {
	enc, dlen, tenc int
	qerr            bool
	fs, trl         []field
	hasTrl          bool
}

// a truncated literal field line (name length 7 announced, nothing follows): a QPACK decoding error
var qpackGarbage = []byte{0x27}

func encodeBlock(fs []field, qerr bool) []byte {
	var b bytes.Buffer
	e := qpack.NewEncoder(&b)
	for _, f := range fs {
		e.WriteField(f)
	}
	e.Close()
	out := b.Bytes()
	if len(out) == 0 {
		// the encoder writes the section prefix with the first field: an empty section is the bare prefix
		out = []byte{0, 0}
	}
	if qerr {
		out = append(out, qpackGarbage...)
	}
	return out
}

func pattern(n int) []byte {
	b := make([]byte, n)
	for i := range b {
		b[i] = byte('a' + i%26)
	}
	return b
}

// wire bytes of a message: HEADERS [DATA] [HEADERS]
func (m *msg) wire() []byte {
	var out []byte
	hb := encodeBlock(m.fs, m.qerr)
	out = quicvarint.Append(out, 0x1)
	out = quicvarint.Append(out, uint64(len(hb)))
	out = append(out, hb...)
	if m.dlen >= 0 {
		out = quicvarint.Append(out, 0x0)
		out = quicvarint.Append(out, uint64(m.dlen))
		out = append(out, pattern(m.dlen)...)
	}
	if m.hasTrl {
		tb := encodeBlock(m.trl, false)
		out = quicvarint.Append(out, 0x1)
		out = quicvarint.Append(out, uint64(len(tb)))
		out = append(out, tb...)
	}
	return out
}

func fmtMsg(m *msg) string {
	q := 0
	if m.qerr {
		q = 1
	}
	s := fmt.Sprintf("e=%d q=%d d=%d te=%d f", m.enc, q, m.dlen, m.tenc)
	if len(m.fs) > 0 {
		s += " " + fmtFields(m.fs)
	}
	if m.hasTrl {
		s += " t"
		if len(m.trl) > 0 {
			s += " " + fmtFields(m.trl)
		}
	}
	return s
}

func parseMsg(part string) (*msg, bool) {
	w := strings.Fields(part)
	m := &msg{dlen: -1, tenc: -1}
	i := 0
	for ; i < len(w) && w[i] != "f"; i++ {
		k, v, ok := strings.Cut(w[i], "=")
		if !ok {
			return nil, false
		}
		n, err := strconv.Atoi(v)
		if err != nil {
			return nil, false
		}
		switch k {
		case "e":
			m.enc = n
		case "q":
			m.qerr = n == 1
		case "d":
			m.dlen = n
		case "te":
			m.tenc = n
		default:
			return nil, false
		}
	}
	if i >= len(w) {
		return nil, false
	}
	i++
	j := i
	for ; j < len(w) && w[j] != "t"; j++ {
	}
	m.fs = parseFields(w[i:j])
	if j < len(w) {
		m.hasTrl = true
		m.trl = parseFields(w[j+1:])
	}
	if m.dlen > 1<<16 || len(m.fs) > 200 || len(m.trl) > 200 {
		return nil, false
	}
	// a declared Content-Length brings in the body-length rules (property C18): such messages carry no body here
	if hasName(m.fs, "content-length") && (m.dlen >= 0 || m.hasTrl) {
		return nil, false
	}
	// the lengths in the op line are what this peer's encoder produces (they are inputs of the monitors)
	if m.enc != len(encodeBlock(m.fs, m.qerr)) {
		return nil, false
	}
	if m.hasTrl != (m.tenc >= 0) || (m.hasTrl && m.tenc != len(encodeBlock(m.trl, false))) {
		return nil, false
	}
	return m, true
}

func hasName(fs []field, name string) bool {
	for _, f := range fs {
		if strings.EqualFold(f.Name, name) {
			return true
		}
	}
	return false
}

// what was read from a stream: status of the first HEADERS frame (decoded on its own)
func firstStatus(b []byte) string {
	r := bytes.NewReader(b)
	for r.Len() > 0 {
		t, err := quicvarint.Read(r)
		if err != nil {
			return "-"
		}
		l, err := quicvarint.Read(r)
		if err != nil || l > uint64(r.Len()) {
			return "-"
		}
		p := make([]byte, l)
		io.ReadFull(r, p)
		if t != 0x1 {
			continue
		}
		dec := qpack.NewDecoder().Decode(p)
		for {
			f, err := dec()
			if err != nil {
				return "-"
			}
			if f.Name == ":status" {
				return f.Value
			}
		}
	}
	return "-"
}

func streamEnd(err error) string {
	if err == nil {
		return "eof"
	}
	var se *quic.StreamError
	if errors.As(err, &se) {
		return fmt.Sprintf("rst:%d", uint64(se.ErrorCode))
	}
	var ne net.Error
	if errors.As(err, &ne) && ne.Timeout() {
		return "timeout"
	}
	return "err"
}

func stopCode(ctx context.Context) string {
	select {
	case <-ctx.Done():
		var se *quic.StreamError
		if errors.As(context.Cause(ctx), &se) {
			return fmt.Sprintf("stop:%d", uint64(se.ErrorCode))
		}
		return "stop:?"
	default:
		return "open"
	}
}

func fmtTrailerKeys(h http.Header) string {
	if h == nil {
		return "nil"
	}
	keys := make([]string, 0, len(h))
	for k := range h {
		keys = append(keys, hx(k))
	}
	sortStrings(keys)
	return "[" + strings.Join(keys, ",") + "]"
}

func sortStrings(s []string) {
	for i := 1; i < len(s); i++ {
		for j := i; j > 0 && s[j] < s[j-1]; j-- {
			s[j], s[j-1] = s[j-1], s[j]
		}
	}
}

// trailer VALUES that arrived (announced keys without a value are not listed)
func fmtTrailerValues(h http.Header) string {
	g := http.Header{}
	for k, v := range h {
		if len(v) > 0 {
			g[k] = v
		}
	}
	return fmtHdrs(g)
}

type network struct {
	n            *simnet.Simnet
	cconn, sconn *simnet.SimConn
	serverAddr   *net.UDPAddr
}

func newNetwork() *network {
	serverAddr := &net.UDPAddr{IP: net.ParseIP("1.0.0.2"), Port: 443}
	settings := simnet.NodeBiDiLinkSettings{Latency: lat}
	n := &simnet.Simnet{Router: &simnet.PerfectRouter{}}
	cconn := n.NewEndpoint(&net.UDPAddr{IP: net.ParseIP("1.0.0.1"), Port: 9001}, settings)
	sconn := n.NewEndpoint(serverAddr, settings)
	if err := n.Start(); err != nil {
		panic(err)
	}
	return &network{n, cconn, sconn, serverAddr}
}

func (nw *network) close() {
	nw.cconn.Close()
	nw.sconn.Close()
	nw.n.Close()
}

// ---------------------------------------------------------------- srv

func runServer(lim int, msgs []*msg) []string {
	res := make([]string, len(msgs))
	for i := range res {
		res[i] = "st=- rd=setup-failed wr=- h=-"
	}
	var mu sync.Mutex
	cur := -1
	seen := make([]string, len(msgs))
	handler := http.HandlerFunc(func(w http.ResponseWriter, r *http.Request) {
		mu.Lock()
		i := cur
		mu.Unlock()
		obs := fmt.Sprintf("ok m=%s proto=%s host=%s uri=%s cl=%d h=%s tr=%s", hx(r.Method), hx(r.Proto), hx(r.Host),
			hx(r.RequestURI), r.ContentLength, fmtHdrs(r.Header), fmtTrailerKeys(r.Trailer))
		body, err := io.ReadAll(r.Body)
		rerr := 0
		if err != nil {
			rerr = 1
		}
		if i >= 0 && i < len(msgs) && !hasName(msgs[i].fs, "content-length") {
			obs += fmt.Sprintf(" b=%d rerr=%d t=%s", len(body), rerr, fmtTrailerValues(r.Trailer))
		}
		mu.Lock()
		if i >= 0 && i < len(seen) {
			if seen[i] != "" {
				obs = "TWICE"
			}
			seen[i] = obs
		}
		mu.Unlock()
		w.WriteHeader(200)
		w.Write([]byte("ok"))
	})
	run := func(t *testing.T) {
		nw := newNetwork()
		qconf := &quic.Config{MaxIdleTimeout: 120 * time.Second}
		ctx, cancel := context.WithTimeout(context.Background(), 60*time.Second)
		defer cancel()
		server := &http3.Server{TLSConfig: srvTLS.Clone(), QUICConfig: qconf.Clone(), Handler: handler, MaxHeaderBytes: lim}
		sdone := make(chan struct{})
		go func() { defer close(sdone); server.Serve(nw.sconn) }()
		ctr := &quic.Transport{Conn: nw.cconn}
		conn, err := ctr.Dial(ctx, nw.serverAddr, cliTLS.Clone(), qconf.Clone())
		if err == nil {
			for i, m := range msgs {
				mu.Lock()
				cur = i
				mu.Unlock()
				str, err := conn.OpenStreamSync(ctx)
				if err != nil {
					res[i] = "st=- rd=open-failed wr=- h=-"
					continue
				}
				str.Write(m.wire())
				time.Sleep(settle)
				wr := stopCode(str.Context())
				str.Close()
				str.SetReadDeadline(time.Now().Add(10 * settle))
				data, rerr := io.ReadAll(str)
				mu.Lock()
				h := seen[i]
				mu.Unlock()
				if h == "" {
					h = "-"
				}
				res[i] = fmt.Sprintf("st=%s rd=%s wr=%s h=%s", firstStatus(data), streamEnd(rerr), wr, h)
				str.CancelRead(0x10c)
			}
			conn.CloseWithError(0x100, "")
		}
		server.Close()
		<-sdone
		ctr.Close()
		nw.close()
	}
	synctest.Test(theT, run)
	return res
}

// ---------------------------------------------------------------- cli

func supportedResponse(m *msg) bool {
	// 1xx responses make the client wait for another HEADERS frame (doRequest's loop): outside this driver
	for _, f := range m.fs {
		if f.Name == ":status" {
			if c, err := strconv.Atoi(f.Value); err == nil && c >= 100 && c <= 199 && c != 101 {
				return false
			}
		}
	}
	return true
}

func statusIs(fs []field, vals ...string) bool {
	for _, f := range fs {
		if f.Name == ":status" {
			for _, v := range vals {
				if f.Value == v {
					return true
				}
			}
			return false
		}
	}
	return false
}

func runClient(lim int, msgs []*msg) []string {
	res := make([]string, len(msgs))
	for i := range res {
		res[i] = "stop=- r=setup-failed"
	}
	run := func(t *testing.T) {
		nw := newNetwork()
		qconf := &quic.Config{MaxIdleTimeout: 120 * time.Second}
		ctx, cancel := context.WithTimeout(context.Background(), 60*time.Second)
		defer cancel()
		str := &quic.Transport{Conn: nw.sconn}
		ln, err := str.Listen(srvTLS.Clone(), qconf.Clone())
		if err != nil {
			panic(err)
		}
		ctr := &quic.Transport{Conn: nw.cconn}
		stops := make([]string, len(msgs))
		served := make([]chan struct{}, len(msgs))
		for i := range served {
			served[i] = make(chan struct{})
		}
		sdone := make(chan struct{})
		go func() {
			defer close(sdone)
			sc, err := ln.Accept(ctx)
			if err != nil {
				return
			}
			for i := 0; i < len(msgs); i++ {
				if !supportedResponse(msgs[i]) {
					continue
				}
				s, err := sc.AcceptStream(ctx)
				if err != nil {
					return
				}
				s.Write(msgs[i].wire())
				time.Sleep(settle)
				stops[i] = stopCode(s.Context())
				s.Close()
				s.CancelRead(0x100)
				close(served[i])
			}
			<-sc.Context().Done()
		}()
		conn, err := ctr.Dial(ctx, nw.serverAddr, cliTLS.Clone(), qconf.Clone())
		if err == nil {
			tr := &http3.Transport{MaxResponseHeaderBytes: lim, DisableCompression: true}
			cc := tr.NewClientConn(conn)
			for i, m := range msgs {
				if !supportedResponse(m) {
					res[i] = "stop=- r=unsupported"
					continue
				}
				req, _ := http.NewRequestWithContext(ctx, "GET", fmt.Sprintf("https://localhost/r%d", i), nil)
				rsp, err := cc.RoundTrip(req)
				r := "E"
				shown := true
				if err == nil {
					r = fmt.Sprintf("ok code=%d cl=%d h=%s tr=%s", rsp.StatusCode, rsp.ContentLength, fmtHdrs(rsp.Header), fmtTrailerKeys(rsp.Trailer))
					body, berr := io.ReadAll(rsp.Body)
					rerr := 0
					if berr != nil {
						rerr = 1
					}
					shown = !hasName(m.fs, "content-length") && statusIs(m.fs, "200", "404", "500")
					if shown {
						r += fmt.Sprintf(" b=%d rerr=%d t=%s", len(body), rerr, fmtTrailerValues(rsp.Trailer))
					}
					rsp.Body.Close()
				}
				select { // the raw peer has recorded the STOP_SENDING (if any) and closed the stream
				case <-served[i]:
				case <-ctx.Done():
				}
				stop := stops[i]
				if !shown {
					// 1xx / 204 / declared Content-Length: what the body reader does is property C18's business
					stop = "*"
				}
				res[i] = "stop=" + stop + " r=" + r
			}
			conn.CloseWithError(0x100, "")
		}
		<-sdone
		ln.Close()
		str.Close()
		ctr.Close()
		nw.close()
	}
	synctest.Test(theT, run)
	return res
}

// ---------------------------------------------------------------- conc

type creq struct {
	at           int
	gz           bool
	m, host, path string
	x            string
}

func runConc(rs []creq) []string {
	reqs := make([]*http.Request, len(rs))
	gz := make([]bool, len(rs))
	at := make([]int, len(rs))
	bad := make([]bool, len(rs))
	for i, c := range rs {
		req, err := http.NewRequest(c.m, "https://"+c.host+c.path, nil)
		if err != nil {
			bad[i] = true
			req, _ = http.NewRequest("GET", "https://invalid.example/", nil)
		}
		req.Header["X-Id"] = []string{c.x}
		reqs[i], gz[i], at[i] = req, c.gz, c.at
	}
	fields, errs := http3.VerifInterleavedWriteHeaders(reqs, gz, at, 2*time.Millisecond)
	out := make([]string, len(rs))
	for i := range rs {
		switch {
		case bad[i]:
			out[i] = "new=E"
		case errs[i] != nil:
			out[i] = http3.VerifErrClass(errs[i])
		default:
			out[i] = strings.TrimSpace("ok " + fmtFields(fields[i]))
		}
	}
	return out
}

// ---------------------------------------------------------------- runner

type runner struct{}

func (rn *runner) Exec(op string) string {
	parts := strings.Split(op, " | ")
	head := strings.Fields(parts[0])
	if len(head) == 0 || len(parts) < 2 || len(parts) > 17 {
		return "bad-op"
	}
	switch head[0] {
	case "srv", "cli":
		if len(head) != 2 || !strings.HasPrefix(head[1], "lim=") {
			return "bad-op"
		}
		lim, err := strconv.Atoi(head[1][4:])
		if err != nil || lim < 1 || lim > 1<<24 {
			return "bad-op"
		}
		var msgs []*msg
		for _, p := range parts[1:] {
			m, ok := parseMsg(p)
			if !ok {
				return "bad-op"
			}
			msgs = append(msgs, m)
		}
		stop := vh.Watchdog(op, 60*time.Second)
		defer stop()
		if head[0] == "srv" {
			return strings.Join(runServer(lim, msgs), " | ")
		}
		return strings.Join(runClient(lim, msgs), " | ")
	case "conc":
		var rs []creq
		for _, p := range parts[1:] {
			a := map[string]string{}
			for _, w := range strings.Fields(p) {
				if k, v, ok := strings.Cut(w, "="); ok {
					a[k] = v
				}
			}
			at, err := strconv.Atoi(a["at"])
			if err != nil || at < 0 {
				return "bad-op"
			}
			rs = append(rs, creq{at: at, gz: a["gz"] == "1", m: unhx(a["m"]), host: unhx(a["host"]), path: unhx(a["path"]), x: unhx(a["x"])})
		}
		if len(rs) > 4 {
			return "bad-op"
		}
		return strings.Join(runConc(rs), " | ")
	}
	return "bad-op"
}

// sizes around the limit: the decoded section size, the encoded frame length, both
func pickGlueLimit(r *vh.Rand, m *msg) int {
	sz := sectionSize(m.fs)
	switch r.Pick(40, 25, 15, 10, 10) {
	case 0:
		return sz + 1000 + r.Intn(5000)
	case 1: // decoded size just over / at the limit (the frame itself is far smaller: QPACK compresses)
		return max(1, sz+[]int{0, -1, 1, -32, -33, 32}[r.Intn(6)])
	case 2: // between the frame length and the decoded size
		if m.enc < sz {
			return max(1, m.enc+r.Intn(sz-m.enc+1))
		}
		return max(1, sz)
	case 3: // around the frame length
		return max(1, m.enc+[]int{0, -1, 1}[r.Intn(3)])
	default:
		return max(1, pickLimit(r, m.fs))
	}
}

func genMsg(r *vh.Rand, kind string) *msg {
	m := &msg{dlen: -1, tenc: -1}
	m.fs = genSection(r, kind)
	if kind == "resp" {
		// interim responses are outside this driver: mostly final statuses
		for i := range m.fs {
			if m.fs[i].Name == ":status" && strings.HasPrefix(m.fs[i].Value, "1") && len(m.fs[i].Value) == 3 && r.Chance(85) {
				m.fs[i].Value = pick(r, []string{"200", "200", "404", "500", "204", "301"})
			}
		}
	}
	if r.Chance(25) {
		// many copies of a static-table entry: a tiny frame with a large decoded size
		f := []field{{"accept-encoding", "gzip, deflate, br"}, {"x-a", "b"}, {"accept", "*/*"}}[r.Intn(3)]
		for k := 1 + r.Intn(40); k > 0; k-- {
			m.fs = append(m.fs, f)
		}
	}
	m.qerr = r.Chance(5)
	if r.Chance(40) {
		m.dlen = r.Intn(40)
		if r.Chance(20) {
			m.dlen = 0
		}
	}
	if r.Chance(35) {
		m.hasTrl = true
		m.trl = genSection(r, "trl")
		if r.Chance(20) {
			for k := 1 + r.Intn(30); k > 0; k-- {
				m.trl = append(m.trl, field{"x-t", "v"})
			}
		}
		if m.dlen < 0 && r.Chance(80) {
			m.dlen = r.Intn(20)
		}
	}
	if hasName(m.fs, "content-length") {
		m.dlen, m.hasTrl, m.trl = -1, false, nil
	}
	m.enc = len(encodeBlock(m.fs, m.qerr))
	if m.hasTrl {
		m.tenc = len(encodeBlock(m.trl, false))
	}
	return m
}

var concHosts = []string{"one.example", "two.example", "a", "b.example:8443", "xn--bcher-kva.example"}
var concPaths = []string{"/first", "/second", "/", "/a/b?c=d", "/a-much-longer-path/with/segments?and=query&more=1"}

func (rn *runner) GenOp(r *vh.Rand, i int) string {
	switch r.Pick(40, 30, 30) {
	case 0, 1:
		kind, name := "req", "srv"
		if r.Pick(57, 43) == 1 {
			kind, name = "resp", "cli"
		}
		n := 2 + r.Intn(7)
		msgs := make([]*msg, n)
		for k := range msgs {
			msgs[k] = genMsg(r, kind)
		}
		// one limit per connection: chosen around one of the messages
		lim := pickGlueLimit(r, msgs[r.Intn(n)])
		var sb strings.Builder
		fmt.Fprintf(&sb, "%s lim=%d", name, lim)
		for _, m := range msgs {
			sb.WriteString(" | " + fmtMsg(m))
		}
		return sb.String()
	default:
		n := 2 + r.Intn(2)
		var sb strings.Builder
		sb.WriteString("conc")
		for k := 0; k < n; k++ {
			gz := 0
			if r.Chance(30) {
				gz = 1
			}
			fmt.Fprintf(&sb, " | at=%d gz=%d m=%s host=%s path=%s x=%s", r.Intn(3), gz,
				hx([]string{"GET", "POST", "HEAD", "DELETE"}[r.Intn(4)]), hx(concHosts[r.Intn(len(concHosts))]),
				hx(concPaths[r.Intn(len(concPaths))]), hx(fmt.Sprintf("token-of-request-%d-%s", k, randBytes(r, r.Intn(30), false))))
		}
		return sb.String()
	}
}

func newRunner(r *vh.Rand) vh.Runner { return &runner{} }

func TestDriver(t *testing.T) {
	theT = t
	tlsSetupOnce.Do(setupTLS)
	vh.Main(t, "h3g", newRunner)
}
