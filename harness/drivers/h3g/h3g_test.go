//go:build verif

// Package h3g is the C19 GLUE driver: what the callers of the field-section parsers / writers do.
//
//   - srv: a real http3.Server (ServeQUICConn → RawServerConn.handleRequestStream, decodeTrailers) over
//     testutils/simnet inside a testing/synctest bubble, facing a bare QUIC peer that sends QPACK-encoded
//     generated field sections (HEADERS [+ DATA] [+ trailer HEADERS]) on request streams, one after the
//     other, and reports per request: the status of the response (if any), how the read side ended
//     (eof / RESET_STREAM code), the STOP_SENDING code, and what the handler saw (if it was called).
//   - cli: a real http3 ClientConn (Transport.NewClientConn → RoundTrip → RequestStream.ReadResponse,
//     decodeTrailers) facing a bare QUIC peer that answers request k with the k-th scripted response.
//   - conc: 2..3 requests through ONE requestWriter with a scripted interleaving (hook
//     VerifInterleavedWriteHeaders); every request's HEADERS frame is decoded on its own.
//
// Line protocol (hex byte strings; a field is <name>=<value>[^] exactly as in the h3f driver):
//
//	srv lim=<L> | e=<hdrFrameLen> q=<0|1> d=<dataLen|-1> te=<trlFrameLen|-1> f <field>… [t <field>…] | …
//	  => st=<status|-> rd=<eof|rst:<code>|…> wr=<open|stop:<code>> h=<-|ok m= proto= host= uri= cl= h= tr= b=<n> rerr=<0|1> t=<hdrs>> | …
//	cli lim=<L> | e= q= d= te= f <field>… [t <field>…] | …
//	  => stop=<open|stop:<code>> r=<E|ok code= cl= h= tr= b=<n> rerr=<0|1> t=<hdrs>|unsupported> | …
//	conc | at=<k> gz=<0|1> [ef=<1|2>] m=<hex> host=<hex> path=<hex> x=<hex> | …   => ok <field>… | E:<class> | …
//	rsp | id=<hex> tr=<0|1> a=<act>,<act>,… | …   => o=<out>,… w=<frame>,… end=<eof|rst:<code>|…> | …
//
// Round 5 (error paths and the state they leave behind):
//   - a message may carry frames BEHIND its trailer section (`x h <field>…` a further HEADERS frame,
//     `x d <n>` a further DATA frame), `nest=<k>` puts the first k of them INSIDE the payload of the
//     trailer HEADERS frame (whose length te is then over the limit: decodeTrailers refuses the frame
//     without reading it, so that its payload is parsed as frames next); `srv lim= rr=<N>` / `cli lim= rr=<N>`
//     make the consumer of the LAST message call io.ReadAll N more times after the first one returned
//     (a retry loop / a wrapper that reads on / draining on cleanup) and report `again=<bytes>`; what
//     the raw peer saw of that exchange is then printed as `*` (the unread payload of a refused frame is
//     parsed as frames by the later reads, with whatever consequences for the stream).
//   - conc: ef=1 / ef=2 makes the request's first / second write to its stream (frame header / header
//     block) fail; the requests after it go through the same requestWriter.
//   - rsp: a real http3.Server faces a bare QUIC peer that sends GET requests; the handler of request k
//     performs the k-th script: wh<code> WriteHeader, w<n> Write of n bytes, fl FlushError, dl1 / dl0
//     SetWriteDeadline in the past / none, st set the trailer field. o = what each call returned
//     (<n> | ok | E | -), w = the frames the peer read from the stream: H<status|->:<field>;… (fields
//     sorted) | D<n> | T<type>:<n>.
//
// e / te are the lengths of the HEADERS frames' payloads (what the raw peer's QPACK encoder produced;
// q=1 appends a truncated field line, i.e. a QPACK decoding error after the last field).
package h3g

import (
	"bytes"
	"context"
	"crypto/x509"
	"errors"
	"fmt"
	"io"
	"net"
	"net/http"
	"strconv"
	"strings"
	"sync"
	"testing"
	"testing/synctest"
	"time"

	"github.com/quic-go/qpack"

	quic "github.com/refraction-networking/uquic"
	"github.com/refraction-networking/uquic/http3"
	"github.com/refraction-networking/uquic/integrationtests/tools"
	"github.com/refraction-networking/uquic/internal/verifharness/vh"
	"github.com/refraction-networking/uquic/quicvarint"
	"github.com/refraction-networking/uquic/testutils/simnet"
	tls "github.com/refraction-networking/utls"
)

var (
	theT         *testing.T
	srvTLS       *tls.Config
	cliTLS       *tls.Config
	tlsSetupOnce sync.Once
)

func setupTLS() {
	ca, caKey, err := tools.GenerateCA()
	if err != nil {
		panic(err)
	}
	leaf, leafKey, err := tools.GenerateLeafCert(ca, caKey)
	if err != nil {
		panic(err)
	}
	srvTLS = &tls.Config{
		Certificates: []tls.Certificate{{Certificate: [][]byte{leaf.Raw}, PrivateKey: leafKey}},
		NextProtos:   []string{http3.NextProtoH3},
	}
	root := x509.NewCertPool()
	root.AddCert(ca)
	cliTLS = &tls.Config{ServerName: "localhost", RootCAs: root, NextProtos: []string{http3.NextProtoH3}}
}

const lat = 2 * time.Millisecond // one way
const settle = 8 * lat           // two round trips: everything the peer does in reaction has arrived

// ---------------------------------------------------------------- messages

type tailItem struct {
	hdr bool // a HEADERS frame (else a DATA frame of n bytes)
	fs  []field
	n   int
}

type msg struct {
	enc, dlen, tenc int
	qerr            bool
	fs, trl         []field
	hasTrl          bool
	tail            []tailItem // frames behind the trailer section
	nest            int        // the first nest of them are the payload of the trailer HEADERS frame
}

func appendFrame(out []byte, typ uint64, payload []byte) []byte {
	out = quicvarint.Append(out, typ)
	out = quicvarint.Append(out, uint64(len(payload)))
	return append(out, payload...)
}

func tailWire(items []tailItem) []byte {
	var out []byte
	for _, it := range items {
		if it.hdr {
			out = appendFrame(out, 0x1, encodeBlock(it.fs, false))
		} else {
			out = appendFrame(out, 0x0, pattern(it.n))
		}
	}
	return out
}

// a truncated literal field line (name length 7 announced, nothing follows): a QPACK decoding error
var qpackGarbage = []byte{0x27}

func encodeBlock(fs []field, qerr bool) []byte {
	var b bytes.Buffer
	e := qpack.NewEncoder(&b)
	for _, f := range fs {
		e.WriteField(f)
	}
	e.Close()
	out := b.Bytes()
	if len(out) == 0 {
		// the encoder writes the section prefix with the first field: an empty section is the bare prefix
		out = []byte{0, 0}
	}
	if qerr {
		out = append(out, qpackGarbage...)
	}
	return out
}

func pattern(n int) []byte {
	b := make([]byte, n)
	for i := range b {
		b[i] = byte('a' + i%26)
	}
	return b
}

// wire bytes of a message: HEADERS [DATA] [HEADERS]
func (m *msg) wire() []byte {
	var out []byte
	hb := encodeBlock(m.fs, m.qerr)
	out = quicvarint.Append(out, 0x1)
	out = quicvarint.Append(out, uint64(len(hb)))
	out = append(out, hb...)
	if m.dlen >= 0 {
		out = quicvarint.Append(out, 0x0)
		out = quicvarint.Append(out, uint64(m.dlen))
		out = append(out, pattern(m.dlen)...)
	}
	if m.hasTrl {
		if m.nest > 0 {
			out = appendFrame(out, 0x1, tailWire(m.tail[:m.nest]))
		} else {
			out = appendFrame(out, 0x1, encodeBlock(m.trl, false))
		}
	}
	return append(out, tailWire(m.tail[m.nest:])...)
}

// length of the trailer HEADERS frame's payload
func (m *msg) trailerLen() int {
	if m.nest > 0 {
		return len(tailWire(m.tail[:m.nest]))
	}
	return len(encodeBlock(m.trl, false))
}

func fmtMsg(m *msg) string {
	q := 0
	if m.qerr {
		q = 1
	}
	s := fmt.Sprintf("e=%d q=%d d=%d te=%d", m.enc, q, m.dlen, m.tenc)
	if m.nest > 0 {
		s += fmt.Sprintf(" nest=%d", m.nest)
	}
	s += " f"
	if len(m.fs) > 0 {
		s += " " + fmtFields(m.fs)
	}
	if m.hasTrl {
		s += " t"
		if len(m.trl) > 0 {
			s += " " + fmtFields(m.trl)
		}
	}
	for _, it := range m.tail {
		if it.hdr {
			s += " x h"
			if len(it.fs) > 0 {
				s += " " + fmtFields(it.fs)
			}
		} else {
			s += fmt.Sprintf(" x d %d", it.n)
		}
	}
	return s
}

func parseMsg(part string) (*msg, bool) {
	w := strings.Fields(part)
	m := &msg{dlen: -1, tenc: -1}
	i := 0
	for ; i < len(w) && w[i] != "f"; i++ {
		k, v, ok := strings.Cut(w[i], "=")
		if !ok {
			return nil, false
		}
		n, err := strconv.Atoi(v)
		if err != nil {
			return nil, false
		}
		switch k {
		case "e":
			m.enc = n
		case "q":
			m.qerr = n == 1
		case "d":
			m.dlen = n
		case "te":
			m.tenc = n
		case "nest":
			m.nest = n
		default:
			return nil, false
		}
	}
	if i >= len(w) {
		return nil, false
	}
	i++
	// frames behind the trailer section: x h <field>… | x d <n>
	rest := w[i:]
	for k := 0; k < len(rest); k++ {
		if rest[k] == "x" {
			items := rest[k:]
			rest = rest[:k]
			for len(items) > 0 {
				if len(items) < 2 || items[0] != "x" {
					return nil, false
				}
				e := 2
				for e < len(items) && items[e] != "x" {
					e++
				}
				switch items[1] {
				case "h":
					m.tail = append(m.tail, tailItem{hdr: true, fs: parseFields(items[2:e])})
				case "d":
					if e != 3 {
						return nil, false
					}
					n, err := strconv.Atoi(items[2])
					if err != nil || n < 0 || n > 1<<12 {
						return nil, false
					}
					m.tail = append(m.tail, tailItem{n: n})
				default:
					return nil, false
				}
				items = items[e:]
			}
			break
		}
	}
	j := 0
	for ; j < len(rest) && rest[j] != "t"; j++ {
	}
	m.fs = parseFields(rest[:j])
	if j < len(rest) {
		m.hasTrl = true
		m.trl = parseFields(rest[j+1:])
	}
	if m.dlen > 1<<16 || len(m.fs) > 200 || len(m.trl) > 200 || len(m.tail) > 8 {
		return nil, false
	}
	// frames behind the trailer section need a trailer section; nested ones replace its field section
	if (len(m.tail) > 0 && !m.hasTrl) || m.nest < 0 || m.nest > len(m.tail) || (m.nest > 0 && len(m.trl) > 0) {
		return nil, false
	}
	// a declared Content-Length brings in the body-length rules (property C18): such messages carry no body here
	if hasName(m.fs, "content-length") && (m.dlen >= 0 || m.hasTrl) {
		return nil, false
	}
	// the lengths in the op line are what this peer's encoder produces (they are inputs of the monitors)
	if m.enc != len(encodeBlock(m.fs, m.qerr)) {
		return nil, false
	}
	if m.hasTrl != (m.tenc >= 0) || (m.hasTrl && m.tenc != m.trailerLen()) {
		return nil, false
	}
	return m, true
}

func hasName(fs []field, name string) bool {
	for _, f := range fs {
		if strings.EqualFold(f.Name, name) {
			return true
		}
	}
	return false
}

// what was read from a stream: status of the first HEADERS frame (decoded on its own)
func firstStatus(b []byte) string {
	r := bytes.NewReader(b)
	for r.Len() > 0 {
		t, err := quicvarint.Read(r)
		if err != nil {
			return "-"
		}
		l, err := quicvarint.Read(r)
		if err != nil || l > uint64(r.Len()) {
			return "-"
		}
		p := make([]byte, l)
		io.ReadFull(r, p)
		if t != 0x1 {
			continue
		}
		dec := qpack.NewDecoder().Decode(p)
		for {
			f, err := dec()
			if err != nil {
				return "-"
			}
			if f.Name == ":status" {
				return f.Value
			}
		}
	}
	return "-"
}

func streamEnd(err error) string {
	if err == nil {
		return "eof"
	}
	var se *quic.StreamError
	if errors.As(err, &se) {
		return fmt.Sprintf("rst:%d", uint64(se.ErrorCode))
	}
	var ne net.Error
	if errors.As(err, &ne) && ne.Timeout() {
		return "timeout"
	}
	return "err"
}

func stopCode(ctx context.Context) string {
	select {
	case <-ctx.Done():
		var se *quic.StreamError
		if errors.As(context.Cause(ctx), &se) {
			return fmt.Sprintf("stop:%d", uint64(se.ErrorCode))
		}
		return "stop:?"
	default:
		return "open"
	}
}

func fmtTrailerKeys(h http.Header) string {
	if h == nil {
		return "nil"
	}
	keys := make([]string, 0, len(h))
	for k := range h {
		keys = append(keys, hx(k))
	}
	sortStrings(keys)
	return "[" + strings.Join(keys, ",") + "]"
}

func sortStrings(s []string) {
	for i := 1; i < len(s); i++ {
		for j := i; j > 0 && s[j] < s[j-1]; j-- {
			s[j], s[j-1] = s[j-1], s[j]
		}
	}
}

// trailer VALUES that arrived (announced keys without a value are not listed)
func fmtTrailerValues(h http.Header) string {
	g := http.Header{}
	for k, v := range h {
		if len(v) > 0 {
			g[k] = v
		}
	}
	return fmtHdrs(g)
}

type network struct {
	n            *simnet.Simnet
	cconn, sconn *simnet.SimConn
	serverAddr   *net.UDPAddr
}

func newNetwork() *network {
	serverAddr := &net.UDPAddr{IP: net.ParseIP("1.0.0.2"), Port: 443}
	settings := simnet.NodeBiDiLinkSettings{Latency: lat}
	n := &simnet.Simnet{Router: &simnet.PerfectRouter{}}
	cconn := n.NewEndpoint(&net.UDPAddr{IP: net.ParseIP("1.0.0.1"), Port: 9001}, settings)
	sconn := n.NewEndpoint(serverAddr, settings)
	if err := n.Start(); err != nil {
		panic(err)
	}
	return &network{n, cconn, sconn, serverAddr}
}

func (nw *network) close() {
	nw.cconn.Close()
	nw.sconn.Close()
	nw.n.Close()
}

// ---------------------------------------------------------------- srv

// readAgain calls io.ReadAll rr more times on a body whose first io.ReadAll has returned (a consumer that
// reads on after an error) and returns the number of bytes it got.
func readAgain(body io.Reader, rr int) int {
	total := 0
	for k := 0; k < rr; k++ {
		b, _ := io.ReadAll(body)
		total += len(b)
	}
	return total
}

func runServer(lim, rr int, msgs []*msg) []string {
	res := make([]string, len(msgs))
	for i := range res {
		res[i] = "st=- rd=setup-failed wr=- h=-"
	}
	var mu sync.Mutex
	cur := -1
	seen := make([]string, len(msgs))
	handler := http.HandlerFunc(func(w http.ResponseWriter, r *http.Request) {
		mu.Lock()
		i := cur
		mu.Unlock()
		obs := fmt.Sprintf("ok m=%s proto=%s host=%s uri=%s cl=%d h=%s tr=%s", hx(r.Method), hx(r.Proto), hx(r.Host),
			hx(r.RequestURI), r.ContentLength, fmtHdrs(r.Header), fmtTrailerKeys(r.Trailer))
		body, err := io.ReadAll(r.Body)
		rerr := 0
		if err != nil {
			rerr = 1
		}
		if i >= 0 && i < len(msgs) && !hasName(msgs[i].fs, "content-length") {
			obs += fmt.Sprintf(" b=%d rerr=%d", len(body), rerr)
			if rr > 0 && i == len(msgs)-1 {
				obs += fmt.Sprintf(" again=%d", readAgain(r.Body, rr))
			}
			obs += " t=" + fmtTrailerValues(r.Trailer)
		}
		mu.Lock()
		if i >= 0 && i < len(seen) {
			if seen[i] != "" {
				obs = "TWICE"
			}
			seen[i] = obs
		}
		mu.Unlock()
		w.WriteHeader(200)
		w.Write([]byte("ok"))
	})
	run := func(t *testing.T) {
		nw := newNetwork()
		qconf := &quic.Config{MaxIdleTimeout: 120 * time.Second}
		ctx, cancel := context.WithTimeout(context.Background(), 60*time.Second)
		defer cancel()
		server := &http3.Server{TLSConfig: srvTLS.Clone(), QUICConfig: qconf.Clone(), Handler: handler, MaxHeaderBytes: lim}
		sdone := make(chan struct{})
		go func() { defer close(sdone); server.Serve(nw.sconn) }()
		ctr := &quic.Transport{Conn: nw.cconn}
		conn, err := ctr.Dial(ctx, nw.serverAddr, cliTLS.Clone(), qconf.Clone())
		if err == nil {
			for i, m := range msgs {
				mu.Lock()
				cur = i
				mu.Unlock()
				str, err := conn.OpenStreamSync(ctx)
				if err != nil {
					res[i] = "st=- rd=open-failed wr=- h=-"
					continue
				}
				str.Write(m.wire())
				time.Sleep(settle)
				wr := stopCode(str.Context())
				str.Close()
				str.SetReadDeadline(time.Now().Add(10 * settle))
				data, rerr := io.ReadAll(str)
				mu.Lock()
				h := seen[i]
				mu.Unlock()
				if h == "" {
					h = "-"
				}
				res[i] = fmt.Sprintf("st=%s rd=%s wr=%s h=%s", firstStatus(data), streamEnd(rerr), wr, h)
				if rr > 0 && i == len(msgs)-1 && h != "-" {
					// the later reads parse the unread payload of a refused frame: whatever that does to the stream
					res[i] = "st=* rd=* wr=* h=" + h
				}
				str.CancelRead(0x10c)
			}
			conn.CloseWithError(0x100, "")
		}
		server.Close()
		<-sdone
		ctr.Close()
		nw.close()
	}
	synctest.Test(theT, run)
	return res
}

// ---------------------------------------------------------------- cli

func supportedResponse(m *msg) bool {
	// 1xx responses make the client wait for another HEADERS frame (doRequest's loop): outside this driver
	for _, f := range m.fs {
		if f.Name == ":status" {
			if c, err := strconv.Atoi(f.Value); err == nil && c >= 100 && c <= 199 && c != 101 {
				return false
			}
		}
	}
	return true
}

func statusIs(fs []field, vals ...string) bool {
	for _, f := range fs {
		if f.Name == ":status" {
			for _, v := range vals {
				if f.Value == v {
					return true
				}
			}
			return false
		}
	}
	return false
}

func runClient(lim, rr int, msgs []*msg) []string {
	res := make([]string, len(msgs))
	for i := range res {
		res[i] = "stop=- r=setup-failed"
	}
	run := func(t *testing.T) {
		nw := newNetwork()
		qconf := &quic.Config{MaxIdleTimeout: 120 * time.Second}
		ctx, cancel := context.WithTimeout(context.Background(), 60*time.Second)
		defer cancel()
		str := &quic.Transport{Conn: nw.sconn}
		ln, err := str.Listen(srvTLS.Clone(), qconf.Clone())
		if err != nil {
			panic(err)
		}
		ctr := &quic.Transport{Conn: nw.cconn}
		stops := make([]string, len(msgs))
		served := make([]chan struct{}, len(msgs))
		for i := range served {
			served[i] = make(chan struct{})
		}
		sdone := make(chan struct{})
		go func() {
			defer close(sdone)
			sc, err := ln.Accept(ctx)
			if err != nil {
				return
			}
			for i := 0; i < len(msgs); i++ {
				if !supportedResponse(msgs[i]) {
					continue
				}
				s, err := sc.AcceptStream(ctx)
				if err != nil {
					return
				}
				s.Write(msgs[i].wire())
				time.Sleep(settle)
				stops[i] = stopCode(s.Context())
				s.Close()
				s.CancelRead(0x100)
				close(served[i])
			}
			<-sc.Context().Done()
		}()
		conn, err := ctr.Dial(ctx, nw.serverAddr, cliTLS.Clone(), qconf.Clone())
		if err == nil {
			tr := &http3.Transport{MaxResponseHeaderBytes: lim, DisableCompression: true}
			cc := tr.NewClientConn(conn)
			for i, m := range msgs {
				if !supportedResponse(m) {
					res[i] = "stop=- r=unsupported"
					continue
				}
				req, _ := http.NewRequestWithContext(ctx, "GET", fmt.Sprintf("https://localhost/r%d", i), nil)
				rsp, err := cc.RoundTrip(req)
				r := "E"
				shown := true
				if err == nil {
					r = fmt.Sprintf("ok code=%d cl=%d h=%s tr=%s", rsp.StatusCode, rsp.ContentLength, fmtHdrs(rsp.Header), fmtTrailerKeys(rsp.Trailer))
					body, berr := io.ReadAll(rsp.Body)
					rerr := 0
					if berr != nil {
						rerr = 1
					}
					shown = !hasName(m.fs, "content-length") && statusIs(m.fs, "200", "404", "500")
					if shown {
						r += fmt.Sprintf(" b=%d rerr=%d", len(body), rerr)
						if rr > 0 && i == len(msgs)-1 {
							r += fmt.Sprintf(" again=%d", readAgain(rsp.Body, rr))
						}
						r += " t=" + fmtTrailerValues(rsp.Trailer)
					}
					rsp.Body.Close()
				}
				select { // the raw peer has recorded the STOP_SENDING (if any) and closed the stream
				case <-served[i]:
				case <-ctx.Done():
				}
				stop := stops[i]
				if !shown || (rr > 0 && i == len(msgs)-1 && err == nil) {
					// 1xx / 204 / declared Content-Length: what the body reader does is property C18's business;
					// reads after the first error parse the unread payload of a refused frame
					stop = "*"
				}
				res[i] = "stop=" + stop + " r=" + r
			}
			conn.CloseWithError(0x100, "")
		}
		<-sdone
		ln.Close()
		str.Close()
		ctr.Close()
		nw.close()
	}
	synctest.Test(theT, run)
	return res
}

// ---------------------------------------------------------------- conc

type creq struct {
	ef           int // 0: none; k: the k-th write of the request to its stream fails
	at           int
	gz           bool
	m, host, path string
	x            string
}

func runConc(rs []creq) []string {
	reqs := make([]*http.Request, len(rs))
	gz := make([]bool, len(rs))
	at := make([]int, len(rs))
	failAt := make([]int, len(rs))
	bad := make([]bool, len(rs))
	for i, c := range rs {
		req, err := http.NewRequest(c.m, "https://"+c.host+c.path, nil)
		if err != nil {
			bad[i] = true
			req, _ = http.NewRequest("GET", "https://invalid.example/", nil)
		}
		req.Header["X-Id"] = []string{c.x}
		reqs[i], gz[i], at[i], failAt[i] = req, c.gz, c.at, c.ef-1
	}
	fields, errs := http3.VerifInterleavedWriteHeadersFail(reqs, gz, at, failAt, 2*time.Millisecond)
	out := make([]string, len(rs))
	for i := range rs {
		switch {
		case bad[i]:
			out[i] = "new=E"
		case errs[i] != nil:
			out[i] = http3.VerifErrClass(errs[i])
		default:
			out[i] = strings.TrimSpace("ok " + fmtFields(fields[i]))
		}
	}
	return out
}

// ---------------------------------------------------------------- rsp

type rscript struct {
	id   string
	tr   bool
	acts []string
}

const (
	rspDate  = "Mon, 01 Jan 2024 00:00:00 GMT"
	rspCType = "text/plain"
)

func parseScript(part string) (*rscript, bool) {
	sc := &rscript{}
	for _, w := range strings.Fields(part) {
		k, v, ok := strings.Cut(w, "=")
		if !ok {
			return nil, false
		}
		switch k {
		case "id":
			sc.id = unhx(v)
		case "tr":
			sc.tr = v == "1"
		case "a":
			if v != "" {
				sc.acts = strings.Split(v, ",")
			}
		default:
			return nil, false
		}
	}
	if len(sc.acts) > 16 || len(sc.id) > 64 {
		return nil, false
	}
	for _, a := range sc.acts {
		switch {
		case a == "fl" || a == "dl0" || a == "dl1" || a == "st":
		case strings.HasPrefix(a, "wh"):
			c, err := strconv.Atoi(a[2:])
			if err != nil || c < 100 || c > 999 {
				return nil, false
			}
		case strings.HasPrefix(a, "w"):
			n, err := strconv.Atoi(a[1:])
			if err != nil || n < 0 || n > 1<<16 {
				return nil, false
			}
		default:
			return nil, false
		}
	}
	return sc, true
}

// the frames read from a response stream, each HEADERS frame decoded on its own
func fmtWireFrames(b []byte) string {
	var out []string
	r := bytes.NewReader(b)
	for r.Len() > 0 {
		t, err := quicvarint.Read(r)
		if err != nil {
			out = append(out, "trunc")
			break
		}
		l, err := quicvarint.Read(r)
		if err != nil || l > uint64(r.Len()) {
			out = append(out, "trunc")
			break
		}
		p := make([]byte, l)
		io.ReadFull(r, p)
		switch t {
		case 0x0:
			out = append(out, fmt.Sprintf("D%d", l))
		case 0x1:
			var fs []field
			ok := true
			dec := qpack.NewDecoder().Decode(p)
			for {
				f, err := dec()
				if err == io.EOF {
					break
				}
				if err != nil {
					ok = false
					break
				}
				fs = append(fs, f)
			}
			if !ok {
				out = append(out, "Hqpack-error")
				continue
			}
			status := "-"
			toks := make([]string, 0, len(fs))
			for _, f := range fs {
				if f.Name == ":status" && status == "-" {
					status = f.Value
				}
				toks = append(toks, hx(f.Name)+"="+hx(f.Value))
			}
			sortStrings(toks)
			out = append(out, "H"+status+":"+strings.Join(toks, ";"))
		default:
			out = append(out, fmt.Sprintf("T%d:%d", t, l))
		}
	}
	if len(out) == 0 {
		return "-"
	}
	return strings.Join(out, ",")
}

func runResp(scripts []*rscript) []string {
	res := make([]string, len(scripts))
	for i := range res {
		res[i] = "o=- w=setup-failed end=-"
	}
	var mu sync.Mutex
	cur := -1
	outs := make([]string, len(scripts))
	handler := http.HandlerFunc(func(w http.ResponseWriter, r *http.Request) {
		mu.Lock()
		i := cur
		mu.Unlock()
		if i < 0 || i >= len(scripts) {
			return
		}
		sc := scripts[i]
		w.Header()["Date"] = []string{rspDate}
		w.Header()["Content-Type"] = []string{rspCType}
		w.Header()["X-Id"] = []string{sc.id}
		if sc.tr {
			w.Header()["Trailer"] = []string{"X-T"}
		}
		dl, _ := w.(interface{ SetWriteDeadline(time.Time) error })
		fl, _ := w.(interface{ FlushError() error })
		var o []string
		for _, a := range sc.acts {
			switch {
			case a == "fl":
				if fl == nil || fl.FlushError() != nil {
					o = append(o, "E")
				} else {
					o = append(o, "ok")
				}
			case a == "dl1":
				dl.SetWriteDeadline(time.Now().Add(-time.Second))
				o = append(o, "-")
			case a == "dl0":
				dl.SetWriteDeadline(time.Time{})
				o = append(o, "-")
			case a == "st":
				if sc.tr {
					w.Header()["X-T"] = []string{"tv-" + sc.id}
				} else {
					w.Header()[http.TrailerPrefix+"X-T"] = []string{"tv-" + sc.id}
				}
				o = append(o, "-")
			case strings.HasPrefix(a, "wh"):
				c, _ := strconv.Atoi(a[2:])
				w.WriteHeader(c)
				o = append(o, "-")
			default:
				n, _ := strconv.Atoi(a[1:])
				m, err := w.Write(bytes.Repeat([]byte{'x'}, n))
				if err != nil {
					o = append(o, "E")
				} else {
					o = append(o, strconv.Itoa(m))
				}
			}
		}
		mu.Lock()
		outs[i] = strings.Join(o, ",")
		mu.Unlock()
	})
	run := func(t *testing.T) {
		nw := newNetwork()
		qconf := &quic.Config{MaxIdleTimeout: 120 * time.Second}
		ctx, cancel := context.WithTimeout(context.Background(), 60*time.Second)
		defer cancel()
		server := &http3.Server{TLSConfig: srvTLS.Clone(), QUICConfig: qconf.Clone(), Handler: handler}
		sdone := make(chan struct{})
		go func() { defer close(sdone); server.Serve(nw.sconn) }()
		ctr := &quic.Transport{Conn: nw.cconn}
		conn, err := ctr.Dial(ctx, nw.serverAddr, cliTLS.Clone(), qconf.Clone())
		if err == nil {
			for i := range scripts {
				mu.Lock()
				cur = i
				mu.Unlock()
				str, err := conn.OpenStreamSync(ctx)
				if err != nil {
					res[i] = "o=- w=open-failed end=-"
					continue
				}
				req := &msg{dlen: -1, tenc: -1, fs: []field{{":method", "GET"}, {":scheme", "https"}, {":authority", "localhost"}, {":path", fmt.Sprintf("/r%d", i)}}}
				str.Write(req.wire())
				str.Close()
				str.SetReadDeadline(time.Now().Add(20 * settle))
				data, rerr := io.ReadAll(str)
				mu.Lock()
				o := outs[i]
				mu.Unlock()
				if o == "" {
					o = "-"
				}
				res[i] = fmt.Sprintf("o=%s w=%s end=%s", o, fmtWireFrames(data), streamEnd(rerr))
				str.CancelRead(0x10c)
			}
			conn.CloseWithError(0x100, "")
		}
		server.Close()
		<-sdone
		ctr.Close()
		nw.close()
	}
	synctest.Test(theT, run)
	return res
}

// ---------------------------------------------------------------- round 5 generators

// a message head that is accepted whatever else is generated: the scenario is about what follows it
func simpleHead(r *vh.Rand, kind string) []field {
	var fs []field
	if kind == "resp" {
		fs = []field{{":status", pick(r, []string{"200", "404", "500"})}}
	} else {
		fs = []field{{":method", pick(r, []string{"GET", "POST"})}, {":scheme", "https"},
			{":authority", pick(r, []string{"a", "example.com"})}, {":path", pick(r, []string{"/", "/a/b?c=d"})}}
	}
	for k := r.Intn(3); k > 0; k-- {
		fs = append(fs, field{pick(r, []string{"x-a", "x-b", "accept"}), randBytes(r, 1+r.Intn(6), false)})
	}
	return fs
}

// frames behind the trailer section: further (well-formed, non-empty) trailer sections and DATA frames
func genTail(r *vh.Rand, n int) []tailItem {
	var out []tailItem
	for ; n > 0; n-- {
		if r.Chance(55) {
			fs := validTrailers(r)
			if len(fs) == 0 {
				fs = []field{{"x-checksum", "forged"}}
			}
			out = append(out, tailItem{hdr: true, fs: fs})
		} else {
			out = append(out, tailItem{n: r.Intn(31)})
		}
	}
	return out
}

var badTrailerSections = [][]field{
	{{"connection", "close"}}, {{":status", "200"}}, {{"X-Upper", "v"}}, {{"x-t", "a\nb"}}, {{"x-t", "v"}, {"transfer-encoding", "chunked"}},
	{{"content-length", "5"}}, {{"", "v"}}, {{"x t", "v"}}, {{"x-t", "ok"}, {":path", "/"}}, {{"te", "gzip"}},
}

// genRetryMsg builds the last message of a connection whose consumer reads on after the first error:
// a rejected / oversized / accepted trailer section with more frames behind it. It returns the limit
// of the connection.
func genRetryMsg(r *vh.Rand, kind string) (*msg, int) {
	m := &msg{dlen: -1, tenc: -1, hasTrl: true}
	m.fs = simpleHead(r, kind)
	if r.Chance(75) {
		m.dlen = r.Intn(30)
	}
	m.enc = len(encodeBlock(m.fs, false))
	sz := max(sectionSize(m.fs), m.enc)
	lim := sz + 1000 + r.Intn(5000)
	switch r.Pick(40, 22, 18, 20) {
	case 1: // the trailer frame is over the limit and its payload is a frame sequence of its own
		lim = sz + r.Intn(24)
		nested := genTail(r, 1+r.Intn(2))
		if r.Chance(70) && !nested[0].hdr {
			nested = append([]tailItem{{hdr: true, fs: []field{{"x-checksum", "forged"}}}}, nested...)
		}
		pad := tailItem{n: max(0, lim+1-len(tailWire(nested))) + r.Intn(20)}
		if r.Bool() {
			nested = append(nested, pad)
		} else {
			nested = append([]tailItem{pad}, nested...)
		}
		m.tail = append(nested, genTail(r, r.Intn(3))...)
		m.nest = len(nested)
	case 2: // an accepted trailer section, then more frames
		m.trl = validTrailers(r)
		m.tail = genTail(r, 1+r.Intn(3))
	case 3: // a QPACK block over the limit
		for k := 40 + r.Intn(40); k > 0; k-- {
			m.trl = append(m.trl, field{"x-t", "v"})
		}
		if l := len(encodeBlock(m.trl, false)); l > sz {
			lim = sz + r.Intn(min(24, l-sz))
		}
		m.tail = genTail(r, 1+r.Intn(3))
	default: // a malformed trailer section within the limit, then more frames
		if r.Chance(70) {
			m.trl = append([]field(nil), badTrailerSections[r.Intn(len(badTrailerSections))]...)
		} else {
			m.trl = mutate(r, validTrailers(r), "trl")
		}
		m.tail = genTail(r, 1+r.Intn(3))
	}
	m.tenc = m.trailerLen()
	if m.nest > 0 && m.tenc <= lim {
		lim = m.tenc - 1
	}
	return m, lim
}

var rspWrites = []int{0, 1, 10, 100, 4095, 4096, 5000}

func genScript(r *vh.Rand, k int) string {
	var acts []string
	one := func() string {
		switch r.Pick(45, 20, 15, 10, 10) {
		case 0:
			return fmt.Sprintf("w%d", rspWrites[r.Intn(len(rspWrites))])
		case 1:
			return "fl"
		case 2:
			return "wh" + pick(r, []string{"200", "200", "404", "204", "304", "103", "100"})
		case 3:
			return "st"
		default:
			return pick(r, []string{"dl0", "dl1"})
		}
	}
	for n := r.Intn(6); n > 0; n-- {
		acts = append(acts, one())
	}
	if r.Chance(65) {
		// the write deadline expires at one point of the script and (mostly) is extended at a later one
		i := r.Intn(len(acts) + 1)
		acts = append(acts[:i:i], append([]string{"dl1"}, acts[i:]...)...)
		if r.Chance(70) {
			j := i + 1 + r.Intn(len(acts)-i)
			acts = append(acts[:j:j], append([]string{"dl0"}, acts[j:]...)...)
		}
	}
	tr := 0
	if r.Chance(40) {
		tr = 1
	}
	return fmt.Sprintf("id=%s tr=%d a=%s", hx(fmt.Sprintf("resp-%d-%s", k, randBytes(r, 1+r.Intn(8), false))), tr, strings.Join(acts, ","))
}

// ---------------------------------------------------------------- runner

type runner struct{}

func (rn *runner) Exec(op string) string {
	parts := strings.Split(op, " | ")
	head := strings.Fields(parts[0])
	if len(head) == 0 || len(parts) < 2 || len(parts) > 17 {
		return "bad-op"
	}
	switch head[0] {
	case "srv", "cli":
		if len(head) < 2 || len(head) > 3 || !strings.HasPrefix(head[1], "lim=") {
			return "bad-op"
		}
		lim, err := strconv.Atoi(head[1][4:])
		if err != nil || lim < 1 || lim > 1<<24 {
			return "bad-op"
		}
		rr := 0
		if len(head) == 3 {
			if !strings.HasPrefix(head[2], "rr=") {
				return "bad-op"
			}
			rr, err = strconv.Atoi(head[2][3:])
			if err != nil || rr < 1 || rr > 4 {
				return "bad-op"
			}
		}
		var msgs []*msg
		for _, p := range parts[1:] {
			m, ok := parseMsg(p)
			if !ok || (m.nest > 0 && m.tenc <= lim) {
				// a nested payload is only left unread (and parsed as frames) when the frame is over the limit
				return "bad-op"
			}
			msgs = append(msgs, m)
		}
		stop := vh.Watchdog(op, 60*time.Second)
		defer stop()
		if head[0] == "srv" {
			return strings.Join(runServer(lim, rr, msgs), " | ")
		}
		return strings.Join(runClient(lim, rr, msgs), " | ")
	case "rsp":
		if len(head) != 1 || len(parts) > 9 {
			return "bad-op"
		}
		var scs []*rscript
		for _, p := range parts[1:] {
			sc, ok := parseScript(p)
			if !ok {
				return "bad-op"
			}
			scs = append(scs, sc)
		}
		stop := vh.Watchdog(op, 60*time.Second)
		defer stop()
		return strings.Join(runResp(scs), " | ")
	case "conc":
		var rs []creq
		for _, p := range parts[1:] {
			a := map[string]string{}
			for _, w := range strings.Fields(p) {
				if k, v, ok := strings.Cut(w, "="); ok {
					a[k] = v
				}
			}
			at, err := strconv.Atoi(a["at"])
			if err != nil || at < 0 {
				return "bad-op"
			}
			ef := 0
			if v, ok := a["ef"]; ok {
				ef, err = strconv.Atoi(v)
				if err != nil || ef < 0 || ef > 2 {
					return "bad-op"
				}
			}
			rs = append(rs, creq{ef: ef, at: at, gz: a["gz"] == "1", m: unhx(a["m"]), host: unhx(a["host"]), path: unhx(a["path"]), x: unhx(a["x"])})
		}
		if len(rs) > 4 {
			return "bad-op"
		}
		return strings.Join(runConc(rs), " | ")
	}
	return "bad-op"
}

// sizes around the limit: the decoded section size, the encoded frame length, both
func pickGlueLimit(r *vh.Rand, m *msg) int {
	sz := sectionSize(m.fs)
	switch r.Pick(40, 25, 15, 10, 10) {
	case 0:
		return sz + 1000 + r.Intn(5000)
	case 1: // decoded size just over / at the limit (the frame itself is far smaller: QPACK compresses)
		return max(1, sz+[]int{0, -1, 1, -32, -33, 32}[r.Intn(6)])
	case 2: // between the frame length and the decoded size
		if m.enc < sz {
			return max(1, m.enc+r.Intn(sz-m.enc+1))
		}
		return max(1, sz)
	case 3: // around the frame length
		return max(1, m.enc+[]int{0, -1, 1}[r.Intn(3)])
	default:
		return max(1, pickLimit(r, m.fs))
	}
}

func genMsg(r *vh.Rand, kind string) *msg {
	m := &msg{dlen: -1, tenc: -1}
	m.fs = genSection(r, kind)
	if kind == "resp" {
		// interim responses are outside this driver: mostly final statuses
		for i := range m.fs {
			if m.fs[i].Name == ":status" && strings.HasPrefix(m.fs[i].Value, "1") && len(m.fs[i].Value) == 3 && r.Chance(85) {
				m.fs[i].Value = pick(r, []string{"200", "200", "404", "500", "204", "301"})
			}
		}
	}
	if r.Chance(25) {
		// many copies of a static-table entry: a tiny frame with a large decoded size
		f := []field{{"accept-encoding", "gzip, deflate, br"}, {"x-a", "b"}, {"accept", "*/*"}}[r.Intn(3)]
		for k := 1 + r.Intn(40); k > 0; k-- {
			m.fs = append(m.fs, f)
		}
	}
	m.qerr = r.Chance(5)
	if r.Chance(40) {
		m.dlen = r.Intn(40)
		if r.Chance(20) {
			m.dlen = 0
		}
	}
	if r.Chance(35) {
		m.hasTrl = true
		m.trl = genSection(r, "trl")
		if r.Chance(20) {
			for k := 1 + r.Intn(30); k > 0; k-- {
				m.trl = append(m.trl, field{"x-t", "v"})
			}
		}
		if m.dlen < 0 && r.Chance(80) {
			m.dlen = r.Intn(20)
		}
	}
	if m.hasTrl && r.Chance(12) {
		m.tail = genTail(r, 1+r.Intn(2))
	}
	if hasName(m.fs, "content-length") {
		m.dlen, m.hasTrl, m.trl, m.tail = -1, false, nil, nil
	}
	m.enc = len(encodeBlock(m.fs, m.qerr))
	if m.hasTrl {
		m.tenc = m.trailerLen()
	}
	return m
}

var concHosts = []string{"one.example", "two.example", "a", "b.example:8443", "xn--bcher-kva.example"}
var concPaths = []string{"/first", "/second", "/", "/a/b?c=d", "/a-much-longer-path/with/segments?and=query&more=1"}

func (rn *runner) GenOp(r *vh.Rand, i int) string {
	switch r.Pick(36, 27, 22, 15) {
	case 3:
		n := 2 + r.Intn(3)
		var sb strings.Builder
		sb.WriteString("rsp")
		for k := 0; k < n; k++ {
			sb.WriteString(" | " + genScript(r, k))
		}
		return sb.String()
	case 0, 1:
		kind, name := "req", "srv"
		if r.Pick(57, 43) == 1 {
			kind, name = "resp", "cli"
		}
		n := 2 + r.Intn(7)
		msgs := make([]*msg, n)
		for k := range msgs {
			msgs[k] = genMsg(r, kind)
		}
		// one limit per connection: chosen around one of the messages
		lim := pickGlueLimit(r, msgs[r.Intn(n)])
		rr := 0
		if r.Chance(35) {
			// the consumer of the last message reads on after the first error
			rr = 1 + r.Intn(3)
			msgs[n-1], lim = genRetryMsg(r, kind)
		}
		var sb strings.Builder
		fmt.Fprintf(&sb, "%s lim=%d", name, lim)
		if rr > 0 {
			fmt.Fprintf(&sb, " rr=%d", rr)
		}
		for _, m := range msgs {
			sb.WriteString(" | " + fmtMsg(m))
		}
		return sb.String()
	default:
		n := 2 + r.Intn(2)
		var sb strings.Builder
		sb.WriteString("conc")
		for k := 0; k < n; k++ {
			gz := 0
			if r.Chance(30) {
				gz = 1
			}
			ef := ""
			if r.Chance(18) {
				// the write of the frame header / of the header block to the stream fails
				ef = fmt.Sprintf(" ef=%d", 1+r.Intn(2))
			}
			fmt.Fprintf(&sb, " | at=%d gz=%d%s m=%s host=%s path=%s x=%s", r.Intn(3), gz, ef,
				hx([]string{"GET", "POST", "HEAD", "DELETE"}[r.Intn(4)]), hx(concHosts[r.Intn(len(concHosts))]),
				hx(concPaths[r.Intn(len(concPaths))]), hx(fmt.Sprintf("token-of-request-%d-%s", k, randBytes(r, r.Intn(30), false))))
		}
		return sb.String()
	}
}

func newRunner(r *vh.Rand) vh.Runner { return &runner{} }

func TestDriver(t *testing.T) {
	theT = t
	tlsSetupOnce.Do(setupTLS)
	vh.Main(t, "h3g", newRunner)
}
