//go:build verif

// Driver "smap" (property C15): the real streamsMap with its four sub-maps, driven from inside a
// testing/synctest bubble. Blocking OpenStreamSync / AcceptStream callers are goroutines of the
// bubble; after every operation the driver waits for quiescence (synctest.Wait) and records which
// callers returned what, the control frames queued, and a digest of the sub-maps' state.
//
// Line protocol (see lean/Oracle/Smap.lean):
//   new c|s <maxBidi> <maxUni>          create the map (first line of a case)
//   open b|u                            OpenStream / OpenUniStream
//   opensync b|u <cid> <pre>            spawn OpenStreamSync (pre=1: context already cancelled)
//   accept b|u <cid> <pre>              spawn AcceptStream
//   cancel <cid>                        cancel that caller's context
//   raceopen b|u <n>                    MAX_STREAMS n and OpenStream at once (no quiescence in between)
//   race <cid> b|u <n>                  cancel a blocked OpenStreamSync caller and deliver MAX_STREAMS n at once
//   stream|rst|sdb|stop|msd <id>        peer frame naming stream <id>
//   del <id>                            DeleteStream (stream completion)
//   maxstreams b|u <n>                  MAX_STREAMS through the wire parser, then HandleMaxStreamsFrame
//   params <nb> <nu>                    HandleTransportParameters
//   close | reset0rtt | usereset
// result: <res> r=[cid:ret,…] f=[frame;…] ob=… ou=… ib=… iu=… rs=…
package smap

import (
	"context"
	"errors"
	"fmt"
	"os"
	"runtime"
	"runtime/debug"
	"sort"
	"strings"
	"sync"
	"testing"
	"testing/synctest"
	"time"

	quic "github.com/refraction-networking/uquic"
	"github.com/refraction-networking/uquic/internal/protocol"
	"github.com/refraction-networking/uquic/internal/qerr"
	"github.com/refraction-networking/uquic/internal/verifharness/vh"
	"github.com/refraction-networking/uquic/internal/wire"
	"github.com/refraction-networking/uquic/quicvarint"
)

var errTestClose = errors.New("verif: connection closed")

func errName(err error) string {
	if err == nil {
		return "ok"
	}
	var te *qerr.TransportError
	if errors.As(err, &te) {
		msg := te.ErrorMessage
		switch te.ErrorCode {
		case qerr.StreamLimitError:
			return "E:limit"
		case qerr.StreamStateError:
			switch {
			case strings.Contains(msg, "invalid frame for send stream"):
				return "E:state:invalid-send"
			case strings.Contains(msg, "invalid frame for receive stream"):
				return "E:state:invalid-recv"
			case strings.Contains(msg, "peer attempted to open stream"):
				return "E:state:peer-open"
			case strings.Contains(msg, "tried to delete unknown incoming stream"):
				return "E:state:del-unknown-in"
			case strings.Contains(msg, "multiple times"):
				return "E:state:del-multi-in"
			case strings.Contains(msg, "tried to delete unknown outgoing stream"):
				return "E:state:del-unknown-out"
			}
			return "E:state:other"
		}
		return fmt.Sprintf("E:transport:%d", uint64(te.ErrorCode))
	}
	var lr *quic.StreamLimitReachedError
	var lrv quic.StreamLimitReachedError
	switch {
	case errors.As(err, &lr), errors.As(err, &lrv):
		return "E:limit-reached"
	case errors.Is(err, quic.Err0RTTRejected):
		return "E:0rtt"
	case errors.Is(err, errTestClose):
		return "E:closed"
	case errors.Is(err, context.Canceled):
		return "E:canceled"
	case strings.Contains(err.Error(), "tried to delete unknown incoming stream"):
		return "E:raw:del-unknown-in"
	case strings.Contains(err.Error(), "multiple times"):
		return "E:raw:del-multi-in"
	}
	return "E:other"
}

type caller struct {
	cancel context.CancelFunc
	kind   byte // 'o' sync opener, 'a' acceptor
	bidi   bool
	done   bool
}

type ret struct {
	cid int
	txt string
}

// bubble holds everything that lives inside the synctest bubble.
type bubble struct {
	sm      *quic.VerifSmap
	mu      sync.Mutex
	frames  []string
	rets    []ret
	callers map[int]*caller
	dead    bool
}

func tname(t protocol.StreamType) string {
	if t == protocol.StreamTypeBidi {
		return "b"
	}
	return "u"
}

func (b *bubble) queue(f wire.Frame) {
	b.mu.Lock()
	defer b.mu.Unlock()
	switch f := f.(type) {
	case *wire.MaxStreamsFrame:
		b.frames = append(b.frames, fmt.Sprintf("MS:%s:%d", tname(f.Type), int64(f.MaxStreamNum)))
	case *wire.StreamsBlockedFrame:
		b.frames = append(b.frames, fmt.Sprintf("SB:%s:%d", tname(f.Type), int64(f.StreamLimit)))
	default:
		b.frames = append(b.frames, fmt.Sprintf("OTHER:%T", f))
	}
}

func (b *bubble) spawn(cid int, kind byte, bidi bool, pre bool) {
	ctx, cancel := context.WithCancel(context.Background())
	if pre {
		cancel()
	}
	c := &caller{cancel: cancel, kind: kind, bidi: bidi}
	b.callers[cid] = c
	go func() {
		var id int64
		var err error
		txt := ""
		func() {
			defer func() {
				if e := recover(); e != nil {
					txt = "PANIC"
				}
			}()
			if kind == 'o' {
				id, err = b.sm.OpenStreamSync(ctx, bidi)
			} else {
				id, err = b.sm.AcceptStream(ctx, bidi)
			}
		}()
		if txt == "" {
			if err != nil {
				txt = errName(err)
			} else {
				txt = fmt.Sprint(id)
			}
		}
		b.mu.Lock()
		c.done = true
		b.rets = append(b.rets, ret{cid, txt})
		b.mu.Unlock()
	}()
}

func (b *bubble) suffix() string {
	synctest.Wait()
	b.mu.Lock()
	rs := b.rets
	fs := b.frames
	b.rets, b.frames = nil, nil
	b.mu.Unlock()
	sort.Slice(rs, func(i, j int) bool { return rs[i].cid < rs[j].cid })
	sort.Strings(fs)
	var rp []string
	for _, r := range rs {
		rp = append(rp, fmt.Sprintf("%d:%s", r.cid, r.txt))
	}
	return fmt.Sprintf(" r=[%s] f=[%s] %s", strings.Join(rp, ","), strings.Join(fs, ";"), b.sm.State())
}

func isBidi(s string) bool { return s == "b" }

func (b *bubble) exec(op string) (res string) {
	f := strings.Fields(op)
	if len(f) == 0 {
		return "bad-op"
	}
	if f[0] == "new" {
		if b.sm != nil || len(f) != 4 {
			return "skip"
		}
		pers := protocol.PerspectiveClient
		if f[1] == "s" {
			pers = protocol.PerspectiveServer
		}
		b.sm = quic.VerifNewStreamsMap(pers, uint64(vh.Atoi64(f[2])), uint64(vh.Atoi64(f[3])), b.queue)
		return "ok" + b.suffix()
	}
	if b.sm == nil || b.dead {
		return "skip"
	}
	frameOp := false
	defer func() {
		if e := recover(); e != nil {
			if frameOp {
				// the run loop's goroutine died inside GetOrOpenStream with the map's write lock held
				b.dead = true
				res = "PANIC"
				return
			}
			res = "PANIC" + b.suffix()
		}
	}()
	switch f[0] {
	case "open":
		id, err := b.sm.OpenStream(isBidi(f[1]))
		if err != nil {
			res = errName(err)
		} else {
			res = fmt.Sprint(id)
		}
	case "opensync", "accept":
		cid := int(vh.Atoi64(f[2]))
		if _, used := b.callers[cid]; used || len(f) != 4 {
			return "skip"
		}
		kind := byte('o')
		if f[0] == "accept" {
			kind = 'a'
		}
		b.spawn(cid, kind, isBidi(f[1]), f[3] == "1")
		res = "-"
	case "cancel":
		cid := int(vh.Atoi64(f[1]))
		c, ok := b.callers[cid]
		b.mu.Lock()
		fin := ok && c.done
		b.mu.Unlock()
		if !ok || fin {
			return "skip"
		}
		c.cancel()
		res = "ok"
	case "race":
		// cancel a blocked OpenStreamSync caller and deliver MAX_STREAMS without waiting in between:
		// the caller's select may see ctx.Done(), its wake-up token, or both
		cid := int(vh.Atoi64(f[1]))
		c, ok := b.callers[cid]
		b.mu.Lock()
		fin := ok && c.done
		b.mu.Unlock()
		if !ok || fin || c.kind != 'o' || len(f) != 4 {
			return "skip"
		}
		typ := protocol.StreamTypeUni
		if isBidi(f[2]) {
			typ = protocol.StreamTypeBidi
		}
		c.cancel()
		b.sm.HandleMaxStreamsFrame(&wire.MaxStreamsFrame{Type: typ, MaxStreamNum: protocol.StreamNum(vh.Atoi64(f[3]))})
		res = "ok"
	case "raceopen":
		// MAX_STREAMS and then OpenStream at once: queued OpenStreamSync callers may or may not have run yet
		typ := protocol.StreamTypeUni
		if isBidi(f[1]) {
			typ = protocol.StreamTypeBidi
		}
		b.sm.HandleMaxStreamsFrame(&wire.MaxStreamsFrame{Type: typ, MaxStreamNum: protocol.StreamNum(vh.Atoi64(f[2]))})
		id, err := b.sm.OpenStream(isBidi(f[1]))
		if err != nil {
			res = errName(err)
		} else {
			res = fmt.Sprint(id)
		}
	case "stream", "rst", "sdb", "stop", "msd":
		frameOp = true
		res = errName(b.sm.HandleFrame(f[0], vh.Atoi64(f[1])))
		frameOp = false
	case "del":
		res = errName(b.sm.DeleteStream(vh.Atoi64(f[1])))
	case "maxstreams":
		typ := wire.FrameTypeUniMaxStreams
		if isBidi(f[1]) {
			typ = wire.FrameTypeBidiMaxStreams
		}
		raw := quicvarint.Append([]byte{byte(typ)}, uint64(vh.Atoi64(f[2])))
		p := wire.NewFrameParser(false, false, false)
		ft, l, err := p.ParseType(raw, protocol.Encryption1RTT)
		if err != nil {
			return "E:parse" + b.suffix()
		}
		fr, _, err := p.ParseLessCommonFrame(ft, raw[l:], protocol.Version1)
		if err != nil {
			return "E:parse" + b.suffix()
		}
		b.sm.HandleMaxStreamsFrame(fr.(*wire.MaxStreamsFrame))
		res = "ok"
	case "params":
		b.sm.HandleTransportParameters(vh.Atoi64(f[1]), vh.Atoi64(f[2]))
		res = "ok"
	case "close":
		b.sm.CloseWithError(errTestClose)
		res = "ok"
	case "reset0rtt":
		b.sm.ResetFor0RTT()
		res = "ok"
	case "usereset":
		b.sm.UseResetMaps()
		res = "ok"
	default:
		return "bad-op"
	}
	return res + b.suffix()
}

func (b *bubble) shutdown() {
	for _, c := range b.callers {
		c.cancel()
	}
	synctest.Wait()
}

// ---------------------------------------------------------------- runner (outside the bubble)

type tstate struct {
	// outgoing (this side opens)
	outNext   int64   // next id a local open would get
	outOpen   []int64 // opened, not deleted
	peerLimit int64   // stream count granted by the peer so far
	// incoming (peer opens)
	inFirst int64
	inNext  int64   // next id the peer has not opened yet
	inOpen  []int64 // opened by the peer, not deleted
	inDel   []int64
	advMax  int64 // highest id the implementation allows (initial limit + MAX_STREAMS seen)
	limit   int64
}

type runner struct {
	reqs  chan string
	resps chan string
	done  chan struct{}

	// generator state (from the implementation's answers)
	hasMap  bool
	server  bool
	ts      [2]*tstate // 0 = uni, 1 = bidi
	nextCid int
	waiting map[int]byte // outstanding callers: 'o' / 'a'
	wbidi   map[int]bool
	closed  bool
	reset   bool
	dead    bool
	big     bool

	// scripted 0-RTT rejection scenario (`zrtt`): op index at which it starts (-1 = not in this case) and
	// the ops still to be issued
	zrttAt int
	script []string
}

func newRunner(t *testing.T, r *vh.Rand) vh.Runner {
	rn := &runner{reqs: make(chan string), resps: make(chan string), done: make(chan struct{}),
		waiting: map[int]byte{}, wbidi: map[int]bool{}, nextCid: 1}
	go func() {
		defer close(rn.done)
		synctest.Test(t, func(t *testing.T) {
			b := &bubble{callers: map[int]*caller{}}
			for op := range rn.reqs {
				rn.resps <- b.exec(op)
			}
			if b.dead && b.sm != nil {
				// a panic left an incoming map's write lock held; goroutines may be queued on it
				b.sm.VerifForceUnlock()
			}
			b.shutdown()
		})
	}()
	return rn
}

func (rn *runner) Close() {
	close(rn.reqs)
	select {
	case <-rn.done:
	case <-time.After(60 * time.Second):
		fmt.Fprintln(os.Stderr, "smap driver: blocked callers did not return within 60s of tearing the case down; aborting")
		os.Exit(4)
	}
}

func (rn *runner) Exec(op string) string {
	rn.reqs <- op
	var res string
	select {
	case res = <-rn.resps:
	case <-time.After(60 * time.Second):
		// never hang the check: a goroutine is stuck (e.g. on a mutex a modified /repo left locked)
		fmt.Fprintf(os.Stderr, "smap driver: operation %q did not reach quiescence within 60s; aborting\n", op)
		os.Exit(4)
	}
	rn.observe(op, res)
	return res
}

func firstID(bidi bool, byServer bool) int64 {
	var id int64
	if !bidi {
		id += 2
	}
	if byServer {
		id++
	}
	return id
}

func numToID(n int64, bidi, byServer bool) int64 {
	if n == 0 {
		return -1
	}
	return firstID(bidi, byServer) + 4*(n-1)
}

func tidx(bidi bool) int {
	if bidi {
		return 1
	}
	return 0
}

func (rn *runner) initTypes(maxBidi, maxUni int64) {
	for i := 0; i < 2; i++ {
		bidi := i == 1
		lim := maxUni
		if bidi {
			lim = maxBidi
		}
		rn.ts[i] = &tstate{
			outNext: firstID(bidi, rn.server),
			inFirst: firstID(bidi, !rn.server), inNext: firstID(bidi, !rn.server),
			advMax: numToID(lim, bidi, !rn.server), limit: lim,
		}
	}
}

func remove(l []int64, x int64) []int64 {
	for i, v := range l {
		if v == x {
			return append(append([]int64{}, l[:i]...), l[i+1:]...)
		}
	}
	return l
}

func contains(l []int64, x int64) bool {
	for _, v := range l {
		if v == x {
			return true
		}
	}
	return false
}

// observe keeps the generator's picture of the implementation up to date (from its answers only).
func (rn *runner) observe(op, res string) {
	f := strings.Fields(op)
	rf := strings.Fields(res)
	if len(f) == 0 || len(rf) == 0 || rf[0] == "skip" || rf[0] == "bad-op" {
		return
	}
	if rf[0] == "PANIC" && len(rf) == 1 {
		rn.dead = true
		return
	}
	head := rf[0]
	switch f[0] {
	case "new":
		rn.hasMap = true
		rn.server = f[1] == "s"
		rn.initTypes(vh.Atoi64(f[2]), vh.Atoi64(f[3]))
	case "open", "raceopen":
		if f[0] == "raceopen" {
			ts := rn.ts[tidx(f[1] == "b")]
			if n := vh.Atoi64(f[2]); n > ts.peerLimit {
				ts.peerLimit = n
			}
		}
		if !strings.HasPrefix(head, "E:") && head != "PANIC" {
			ts := rn.ts[tidx(f[1] == "b")]
			id := vh.Atoi64(head)
			ts.outOpen = append(ts.outOpen, id)
			ts.outNext = id + 4
		}
	case "opensync", "accept":
		cid := int(vh.Atoi64(f[2]))
		if f[0] == "opensync" {
			rn.waiting[cid] = 'o'
		} else {
			rn.waiting[cid] = 'a'
		}
		rn.wbidi[cid] = f[1] == "b"
	case "stream", "rst", "sdb", "stop", "msd":
		if head == "ok" {
			id := vh.Atoi64(f[1])
			bidi := id%4 < 2
			byServer := id%2 == 1
			if byServer != rn.server {
				ts := rn.ts[tidx(bidi)]
				for ts.inNext <= id && len(ts.inOpen) < 4096 {
					ts.inOpen = append(ts.inOpen, ts.inNext)
					ts.inNext += 4
				}
			}
		}
	case "del":
		if head == "ok" {
			id := vh.Atoi64(f[1])
			ts := rn.ts[tidx(id%4 < 2)]
			if (id%2 == 1) == rn.server {
				ts.outOpen = remove(ts.outOpen, id)
			} else {
				ts.inOpen = remove(ts.inOpen, id)
				ts.inDel = append(ts.inDel, id)
			}
		}
	case "maxstreams":
		if head == "ok" {
			ts := rn.ts[tidx(f[1] == "b")]
			if n := vh.Atoi64(f[2]); n > ts.peerLimit {
				ts.peerLimit = n
			}
		}
	case "race":
		if head == "ok" {
			ts := rn.ts[tidx(f[2] == "b")]
			if n := vh.Atoi64(f[3]); n > ts.peerLimit {
				ts.peerLimit = n
			}
		}
	case "params":
		if n := vh.Atoi64(f[1]); n > rn.ts[1].peerLimit {
			rn.ts[1].peerLimit = n
		}
		if n := vh.Atoi64(f[2]); n > rn.ts[0].peerLimit {
			rn.ts[0].peerLimit = n
		}
	case "close":
		rn.closed = true
	case "reset0rtt":
		if head == "ok" {
			rn.reset = true
			rn.closed = false
			rn.initTypes(rn.ts[1].limit, rn.ts[0].limit)
		}
	case "usereset":
		rn.reset = false
	}
	for _, w := range rf[1:] {
		switch {
		case strings.HasPrefix(w, "r=[") && len(w) > 4:
			for _, it := range strings.Split(w[3:len(w)-1], ",") {
				kv := strings.SplitN(it, ":", 2)
				if len(kv) != 2 {
					continue
				}
				cid := int(vh.Atoi64(kv[0]))
				kind := rn.waiting[cid]
				bidi := rn.wbidi[cid]
				delete(rn.waiting, cid)
				if !strings.HasPrefix(kv[1], "E:") && kv[1] != "PANIC" && kind == 'o' && rn.ts[0] != nil {
					ts := rn.ts[tidx(bidi)]
					id := vh.Atoi64(kv[1])
					ts.outOpen = append(ts.outOpen, id)
					if id+4 > ts.outNext {
						ts.outNext = id + 4
					}
					_ = id
				}
			}
		case strings.HasPrefix(w, "f=[") && len(w) > 4:
			for _, it := range strings.Split(w[3:len(w)-1], ";") {
				p := strings.Split(it, ":")
				if len(p) == 3 && p[0] == "MS" && rn.ts[0] != nil {
					bidi := p[1] == "b"
					if id := numToID(vh.Atoi64(p[2]), bidi, !rn.server); id > rn.ts[tidx(bidi)].advMax {
						rn.ts[tidx(bidi)].advMax = id
					}
				}
			}
		}
	}
}

const maxStreamCount = int64(1) << 60

func (rn *runner) genLimit(r *vh.Rand) int64 {
	switch r.Pick(70, 18, 6, 6) {
	case 0:
		return r.Range(0, 5)
	case 1:
		return r.Range(6, 20)
	case 2:
		rn.big = true
		return r.Range(100, 1000)
	default:
		rn.big = true
		return maxStreamCount - r.Range(0, 2)
	}
}

var frameKinds = []string{"stream", "rst", "sdb", "stop", "msd"}

func pick(r *vh.Rand, l []int64) int64 { return l[r.Intn(len(l))] }

func (rn *runner) pickWaiting(r *vh.Rand, kind byte) (int, bool) {
	var ids []int
	for c, k := range rn.waiting {
		if kind == 0 || k == kind {
			ids = append(ids, c)
		}
	}
	if len(ids) == 0 {
		return 0, false
	}
	sort.Ints(ids)
	return ids[r.Intn(len(ids))], true
}

// maxAcceptors: blocked AcceptStream callers per stream type (a small worker pool accepting from one connection)
const maxAcceptors = 3

func (rn *runner) hasAcceptor(bidi bool) bool {
	n := 0
	for c, k := range rn.waiting {
		if k == 'a' && rn.wbidi[c] == bidi {
			n++
		}
	}
	return n >= maxAcceptors
}

func (rn *runner) genFrame(r *vh.Rand) string {
	bidi := r.Bool()
	ts := rn.ts[tidx(bidi)]
	kind := frameKinds[r.Intn(len(frameKinds))]
	var id int64
	switch r.Pick(30, 14, 12, 8, 10, 8, 8, 6, 2, 2) {
	case 0: // the peer opens its next stream
		id = ts.inNext
	case 1: // … skipping some ids (never far, unless certainly above the limit)
		id = ts.inNext + 4*r.Range(1, 3)
	case 2: // a stream the peer has open
		if len(ts.inOpen) > 0 {
			id = pick(r, ts.inOpen)
		} else {
			id = ts.inNext
		}
	case 3: // a completed stream
		if len(ts.inDel) > 0 {
			id = pick(r, ts.inDel)
		} else {
			id = ts.inNext
		}
	case 4: // just above what was advertised
		id = ts.advMax + 4*r.Range(1, 2)
		if ts.advMax < 0 {
			id = ts.inFirst + 4*r.Range(0, 2)
		}
	case 5: // exactly at the advertised limit (opens everything up to it when the limit is small)
		id = ts.advMax
		if id < 0 || id-ts.inNext > 4*16 {
			id = ts.inNext
		}
	case 6: // a local stream that was opened
		if len(ts.outOpen) > 0 {
			id = pick(r, ts.outOpen)
		} else {
			id = ts.outNext
		}
	case 7: // a local stream that was never opened
		id = ts.outNext + 4*r.Range(0, 3)
	case 8: // far above the advertised limit
		id = ts.advMax + 4*r.Range(3, 1000)
		if ts.advMax < 0 {
			id = ts.inFirst + 4*r.Range(3, 1000)
		}
	default: // the largest ids a varint can carry
		id = quicvarintMax - r.Range(0, 7)
		if bid := id%4 < 2; (id%2 == 1) != rn.server && id <= rn.ts[tidx(bid)].advMax {
			id = ts.inNext // would be within a huge limit: do not allocate 2^60 streams
		}
	}
	if id > quicvarintMax {
		id = ts.inNext
	}
	// whichever id was drawn: never make the implementation allocate more than a few streams
	if bid := id%4 < 2; (id%2 == 1) != rn.server {
		t2 := rn.ts[tidx(bid)]
		if id <= t2.advMax && id-t2.inNext > 4*16 {
			id = t2.inNext
		}
	}
	return fmt.Sprintf("%s %d", kind, id)
}

// zrttScript: a resumed connection whose 0-RTT is rejected. The transport parameters remembered from the
// session ticket arrive first and some streams are opened under them (also a blocked OpenStreamSync caller);
// then ResetFor0RTT, the parameters of the new handshake — smaller than, equal to or larger than the
// remembered ones, per stream type — and UseResetMaps (in either order); finally the new limit of each type
// is used up and one more stream is asked for (plus, sometimes, a blocking caller), so that the monitors
// outgoing_within_limit / blocked_carries_limit / blocked_sent_when_blocked meet exactly the limits of the
// new handshake.
func (rn *runner) zrttScript(r *vh.Rand) []string {
	var rem, nw [2]int64 // 0 = uni, 1 = bidi
	for i := range rem {
		if rn.ts[i].peerLimit > 1000 {
			return nil
		}
		rem[i] = rn.ts[i].peerLimit + r.Range(1, 4)
	}
	s := []string{fmt.Sprintf("params %d %d", rem[1], rem[0])}
	for n := r.Range(0, 3); n > 0; n-- {
		s = append(s, "open "+tn(r.Bool()))
	}
	if r.Chance(30) {
		rn.nextCid++
		s = append(s, fmt.Sprintf("opensync %s %d 0", tn(r.Bool()), rn.nextCid))
	}
	s = append(s, "reset0rtt")
	for i := range nw {
		switch r.Pick(45, 15, 15, 25) {
		case 0:
			nw[i] = r.Range(0, rem[i]-1)
		case 1:
			nw[i] = rem[i]
		case 2:
			nw[i] = rem[i] + r.Range(1, 2)
		default:
			nw[i] = r.Range(0, 2)
		}
	}
	p := fmt.Sprintf("params %d %d", nw[1], nw[0])
	if r.Chance(25) {
		s = append(s, "usereset", p)
	} else {
		s = append(s, p, "usereset")
	}
	for i := 1; i >= 0; i-- {
		n := nw[i]
		if n > 6 {
			n = 6 // do not open more than a few streams; the limit is then not reached
		}
		for k := int64(0); k <= n; k++ {
			s = append(s, "open "+tn(i == 1))
		}
		if r.Chance(30) {
			rn.nextCid++
			s = append(s, fmt.Sprintf("opensync %s %d 0", tn(i == 1), rn.nextCid))
		}
	}
	return s
}

const quicvarintMax = int64(1)<<62 - 1

func tn(bidi bool) string {
	if bidi {
		return "b"
	}
	return "u"
}

func (rn *runner) GenOp(r *vh.Rand, i int) string {
	if !rn.hasMap {
		if i > 0 {
			return "" // the `new` line was rejected
		}
		p := "c"
		if r.Bool() {
			p = "s"
		}
		rn.zrttAt = -1
		if r.Chance(12) {
			rn.zrttAt = int(r.Range(1, 25))
		}
		return fmt.Sprintf("new %s %d %d", p, rn.genLimit(r), rn.genLimit(r))
	}
	if rn.dead {
		return ""
	}
	if len(rn.script) == 0 && i == rn.zrttAt && !rn.closed && !rn.reset {
		rn.script = rn.zrttScript(r)
	}
	if len(rn.script) > 0 {
		op := rn.script[0]
		rn.script = rn.script[1:]
		return op
	}
	if i == 1 && r.Chance(60) {
		// the peer's transport parameters usually arrive first
		return fmt.Sprintf("params %d %d", r.Range(0, 4), r.Range(0, 4))
	}
	afterClose := rn.closed
	for {
		switch r.Pick(30, 10, 12, 8, 7, 14, 11, 2, 2, 2, 2) {
		case 0:
			if afterClose && !r.Chance(4) {
				// a frame that opens a stream after CloseWithError panics with the lock held; keep it rare
				continue
			}
			return rn.genFrame(r)
		case 1:
			if c, ok := rn.pickWaiting(r, 'o'); ok && r.Chance(50) {
				ts := rn.ts[tidx(rn.wbidi[c])]
				return fmt.Sprintf("raceopen %s %d", tn(rn.wbidi[c]), ts.peerLimit+r.Range(1, 3))
			}
			return "open " + tn(r.Bool())
		case 2:
			rn.nextCid++
			pre := 0
			if r.Chance(5) {
				pre = 1
			}
			return fmt.Sprintf("opensync %s %d %d", tn(r.Bool()), rn.nextCid, pre)
		case 3:
			bidi := r.Bool()
			if rn.hasAcceptor(bidi) {
				bidi = !bidi
				if rn.hasAcceptor(bidi) {
					continue // at most maxAcceptors blocked acceptors per stream type
				}
			}
			rn.nextCid++
			pre := 0
			if r.Chance(5) {
				pre = 1
			}
			return fmt.Sprintf("accept %s %d %d", tn(bidi), rn.nextCid, pre)
		case 4:
			if c, ok := rn.pickWaiting(r, 'o'); ok && r.Chance(35) {
				ts := rn.ts[tidx(rn.wbidi[c])]
				return fmt.Sprintf("race %d %s %d", c, tn(rn.wbidi[c]), ts.peerLimit+r.Range(1, 2))
			}
			if c, ok := rn.pickWaiting(r, 0); ok && r.Chance(90) {
				return fmt.Sprintf("cancel %d", c)
			}
			return fmt.Sprintf("cancel %d", r.Range(0, int64(rn.nextCid)+1))
		case 5: // completion of a stream, in any order
			ts := rn.ts[r.Intn(2)]
			switch r.Pick(50, 30, 8, 6, 6) {
			case 0:
				if len(ts.inOpen) > 0 {
					return fmt.Sprintf("del %d", pick(r, ts.inOpen))
				}
			case 1:
				if len(ts.outOpen) > 0 {
					return fmt.Sprintf("del %d", pick(r, ts.outOpen))
				}
			case 2:
				if len(ts.inDel) > 0 {
					return fmt.Sprintf("del %d", pick(r, ts.inDel)) // a second time
				}
			case 3:
				return fmt.Sprintf("del %d", ts.inNext+4*r.Range(0, 2)) // never opened by the peer
			default:
				return fmt.Sprintf("del %d", ts.outNext+4*r.Range(0, 2)) // never opened locally
			}
			continue
		case 6:
			bidi := r.Bool()
			ts := rn.ts[tidx(bidi)]
			var n int64
			switch r.Pick(55, 12, 10, 6, 5, 6, 6) {
			case 0:
				n = ts.peerLimit + r.Range(1, 3)
			case 1:
				n = ts.peerLimit // duplicate
			case 2:
				n = r.Range(0, ts.peerLimit) // reordered / stale
			case 3:
				n = 0
			case 4:
				n = maxStreamCount - r.Range(0, 1)
			case 5:
				n = maxStreamCount + r.Range(1, 5) // the parser rejects these
			default:
				n = quicvarintMax - r.Range(0, 3)
			}
			if n >= maxStreamCount-1 && n <= maxStreamCount && !rn.big && !r.Chance(20) {
				n = ts.peerLimit + 1 // an unlimited grant ends the interesting part of a small case
			}
			return fmt.Sprintf("maxstreams %s %d", tn(bidi), n)
		case 7:
			return fmt.Sprintf("params %d %d", rn.ts[1].peerLimit+r.Range(0, 2), rn.ts[0].peerLimit+r.Range(0, 2))
		case 8:
			// a second CloseWithError panics (close of a closed channel): possible, but keep it rare
			if r.Chance(40) && (!afterClose || r.Chance(10)) {
				return "close"
			}
			continue
		case 9:
			if r.Chance(50) && (!afterClose || r.Chance(10)) {
				return "reset0rtt"
			}
			continue
		default:
			if rn.reset || r.Chance(10) {
				return "usereset"
			}
			continue
		}
	}
}

// memWatchdog ends the process if the heap grows beyond what any legitimate case needs, so that a
// modified /repo (e.g. a disabled limit check) can never exhaust the machine.
func memWatchdog() {
	const limit = 1 << 30
	var ms runtime.MemStats
	for {
		time.Sleep(20 * time.Millisecond)
		runtime.ReadMemStats(&ms)
		if ms.HeapAlloc > limit {
			fmt.Fprintf(os.Stderr, "smap driver: heap %d MiB exceeds the 1 GiB guard; aborting\n", ms.HeapAlloc>>20)
			os.Exit(3)
		}
	}
}

func TestDriver(t *testing.T) {
	debug.SetMemoryLimit(1 << 30)
	go memWatchdog()
	vh.Main(t, "smap", func(r *vh.Rand) vh.Runner { return newRunner(t, r) })
}
