//go:build verif

// Driver "szrtt" (property C15, end-to-end SUPPORT): stream limits and stream-ID discipline across session
// resumption, 0-RTT and 0-RTT REJECTION, between a real client and a real server (harness/e2e: simnet inside a
// testing/synctest bubble, real TLS). Nothing is stubbed: cryptoSetup (session ticket, restored transport
// parameters, rejected0RTT), Conn.handleHandshakeEvents / dropEncryptionLevel / restoreTransportParameters /
// NextConnection, streamsMap.ResetFor0RTT / UseResetMaps, the stream objects and the credit path are all real.
//
// One case = one scenario driven op by op (virtual time only advances inside an op):
//
//   net <L1b> <L1u> <L2b> <L2u> <allow2> <mode> <retry> <hrr> <plain|chrome>
//        the server first runs with incoming stream limits L1 (bidi, uni) and Allow0RTT; mode=early|resume: a first
//        connection fetches a session ticket and is closed, the server switches to limits L2 / Allow0RTT=allow2,
//        and the client dials again with DialEarly (early) or Dial (resume); mode=fresh: a single Dial against L2.
//        retry=1: the server validates addresses with a Retry; hrr=1: the server only supports P-384, so the
//        handshake goes through a HelloRetryRequest (which rejects early data). chrome: the client is spec-driven
//        (UTransport, Chrome 115 parrot with a pre_shared_key extension appended: resumption without early data): its
//        handshake runs through u_crypto_setup.go.   => ok early=<0|1>
//   open u|b            client: non-blocking OpenUniStream / OpenStream      => <id> | E:…
//   opensync u|b        client: OpenStreamSync bounded by 300 ms              => <id> | E:…
//   wr <id> <fin>       client: write one byte (fin=1: and Close)             => ok | E:…
//   ccw <id>            client: CancelWrite                                   => ok
//   hs                  wait for the handshake (≤ 10 s), then settle          => complete u0=<client Used0RTT>,<server Used0RTT> | E:…
//   next                client: NextConnection (≤ 5 s)                        => ok | E:…
//   sacc u|b            server: AcceptUniStream / AcceptStream within 300 ms  => <id> | E:…
//   srd <id>            server: read until an error (deadline 300 ms)         => end | deadline | E:…
//   scr <id>            server: CancelRead                                    => ok
//   scl <id> / scw <id> server: Close / CancelWrite the send half of a bidirectional stream
//   settle              300 ms pass
//
// every result ends with  hc=<handshake complete now>,<client Used0RTT> ce=<why the client connection ended|-> se=<server …|-> ms=[MAX_STREAMS the server sent on
// this connection since the last op, from its qlog] sb=[STREAMS_BLOCKED the client sent …].
// The oracle (lean/Oracle/Szrtt.lean) echoes the observation and judges it with monitors whose ghost state comes
// from the scenario and the answers only.
package szrtt

import (
	"context"
	"errors"
	"fmt"
	"io"
	"net"
	"os"
	"strings"
	"sync"
	"sync/atomic"
	"testing"
	"testing/synctest"
	"time"

	quic "github.com/refraction-networking/uquic"
	"github.com/refraction-networking/uquic/internal/protocol"
	"github.com/refraction-networking/uquic/internal/verifharness/e2e"
	"github.com/refraction-networking/uquic/internal/verifharness/vh"
	"github.com/refraction-networking/uquic/qlog"
	"github.com/refraction-networking/uquic/qlogwriter"
	tls "github.com/refraction-networking/utls"
)

func errClass(err error) string {
	if err == nil {
		return "ok"
	}
	var te *quic.TransportError
	var ae *quic.ApplicationError
	var ie *quic.IdleTimeoutError
	var se *quic.StreamError
	var lr quic.StreamLimitReachedError
	var lrp *quic.StreamLimitReachedError
	switch {
	case errors.Is(err, quic.Err0RTTRejected):
		return "E:0rtt"
	case errors.As(err, &lr), errors.As(err, &lrp):
		return "E:limit-reached"
	case errors.As(err, &te):
		return fmt.Sprintf("E:transport:%d:%s", uint64(te.ErrorCode), b01s(te.Remote))
	case errors.As(err, &ae):
		return fmt.Sprintf("E:app:%d:%s", uint64(ae.ErrorCode), b01s(ae.Remote))
	case errors.As(err, &ie):
		return "E:idle"
	case errors.As(err, &se):
		return "E:stream"
	case errors.Is(err, context.DeadlineExceeded):
		return "E:timeout"
	case errors.Is(err, context.Canceled):
		return "E:canceled"
	case errors.Is(err, os.ErrDeadlineExceeded):
		return "E:deadline"
	}
	var ne net.Error
	if errors.As(err, &ne) && ne.Timeout() {
		return "E:deadline"
	}
	return "E:other"
}

func b01s(b bool) string {
	if b {
		return "remote"
	}
	return "local"
}

type cstream struct {
	uni *quic.SendStream
	bi  *quic.Stream
}

type sstream struct {
	uni *quic.ReceiveStream
	bi  *quic.Stream
}

type bubble struct {
	env      *e2e.Env
	phase    atomic.Int32
	mu       sync.Mutex
	srvConns []*quic.Conn
	srvPhase []int32
	cur      *quic.Conn // the client connection in use
	cs       map[int64]*cstream
	ss       map[int64]*sstream
	sFrom    int // index into the server's qlog events up to which frames were reported
	cFrom    int
	dead     bool
}

// srvTrace records the server connections' qlog events into the shared recorder of the e2e environment
type srvTrace struct{ b *bubble }

func (t srvTrace) AddProducer() qlogwriter.Recorder { return t.b.env.ServerLog }
func (srvTrace) SupportsSchemas(string) bool       { return true }

func lim(v int64) int64 { // Config: 0 means default, negative means 0
	if v == 0 {
		return -1
	}
	return v
}

func (b *bubble) server2() *quic.Conn {
	b.mu.Lock()
	defer b.mu.Unlock()
	for i := len(b.srvConns) - 1; i >= 0; i-- {
		if b.srvPhase[i] == 2 {
			return b.srvConns[i]
		}
	}
	return nil
}

func connEnd(c *quic.Conn) string {
	if c == nil {
		return "-"
	}
	select {
	case <-c.Context().Done():
		cause := context.Cause(c.Context())
		if cause == nil || errors.Is(cause, context.Canceled) {
			return "closed"
		}
		return strings.TrimPrefix(errClass(cause), "E:")
	default:
		return "-"
	}
}

// frames of interest in the qlog events recorded since the last call
func creditFrames(r *e2e.Recorder, from *int, phase2From int) string {
	evs := r.Snapshot()
	var out []string
	start := *from
	if start < phase2From {
		start = phase2From
	}
	for _, ev := range evs[min(start, len(evs)):] {
		ps, ok := ev.(qlog.PacketSent)
		if !ok {
			continue
		}
		for _, f := range ps.Frames {
			switch x := f.Frame.(type) {
			case *qlog.MaxStreamsFrame:
				t := "u"
				if x.Type == protocol.StreamTypeBidi {
					t = "b"
				}
				out = append(out, fmt.Sprintf("MS:%s:%d", t, x.MaxStreamNum))
			case *qlog.StreamsBlockedFrame:
				t := "u"
				if x.Type == protocol.StreamTypeBidi {
					t = "b"
				}
				out = append(out, fmt.Sprintf("SB:%s:%d", t, x.StreamLimit))
			}
		}
	}
	*from = len(evs)
	return strings.Join(out, ";")
}

func (b *bubble) suffix() string {
	if b.env == nil {
		return ""
	}
	hc, cu := 0, 0
	if b.cur != nil {
		select {
		case <-b.cur.HandshakeComplete():
			hc = 1
			cu = b2i(b.cur.ConnectionState().Used0RTT)
		default:
		}
	}
	return fmt.Sprintf(" hc=%d,%d ce=%s se=%s ms=[%s] sb=[%s]", hc, cu, connEnd(b.cur), connEnd(b.server2()),
		creditFrames(b.env.ServerLog, &b.sFrom, 0), creditFrames(b.env.ClientLog, &b.cFrom, 0))
}

func (b *bubble) startNet(f []string) string {
	l1b, l1u, l2b, l2u := vh.Atoi64(f[1]), vh.Atoi64(f[2]), vh.Atoi64(f[3]), vh.Atoi64(f[4])
	allow2 := f[5] == "1"
	mode := f[6]
	retry := f[7] == "1"
	hrr := f[8] == "1"
	chrome := f[9] == "chrome"
	if f[9] != "chrome" && f[9] != "plain" {
		return "skip"
	}
	for _, v := range []int64{l1b, l1u, l2b, l2u} {
		if v < 0 || v > 50 {
			return "skip"
		}
	}
	if mode != "early" && mode != "resume" && mode != "fresh" {
		return "skip"
	}
	b.phase.Store(1)
	if mode == "fresh" {
		b.phase.Store(2)
	}
	sconf := &quic.Config{Allow0RTT: true, MaxIdleTimeout: 60 * time.Second}
	sconf.GetConfigForClient = func(*quic.ClientInfo) (*quic.Config, error) {
		c := &quic.Config{Allow0RTT: true, MaxIdleTimeout: 60 * time.Second, MaxIncomingStreams: lim(l1b), MaxIncomingUniStreams: lim(l1u)}
		c.Tracer = func(context.Context, bool, quic.ConnectionID) qlogwriter.Trace { return srvTrace{b} }
		if b.phase.Load() == 2 {
			c.Allow0RTT = allow2
			c.MaxIncomingStreams, c.MaxIncomingUniStreams = lim(l2b), lim(l2u)
		}
		return c, nil
	}
	stls := e2e.ServerTLSConfig()
	if hrr {
		stls.CurvePreferences = []tls.CurveID{tls.CurveP384}
	}
	ctls := e2e.ClientTLSConfig()
	ctls.ClientSessionCache = tls.NewLRUClientSessionCache(4)
	setup := e2e.Setup{RTT: 20 * time.Millisecond, ServerConf: sconf, ClientConf: &quic.Config{MaxIdleTimeout: 60 * time.Second},
		ServerTLS: stls, ClientTLS: ctls, Qlog: true}
	if retry {
		setup.ServerTransport = func(t *quic.Transport) { t.VerifySourceAddress = func(net.Addr) bool { return true } }
	}
	env, err := e2e.Start(setup)
	if err != nil {
		return "E:setup"
	}
	b.env = env
	// client kind: plain Transport, or a spec-driven client. The presets carry no pre_shared_key extension, so a parrot never
	// resumes on its own; one is appended (uTLS fills it from the session cache; it must be last).
	dial := func(ctx context.Context, early bool) (*quic.Conn, error) {
		if !chrome {
			if early {
				return env.ClientTr.DialEarly(ctx, e2e.ServerAddr, ctls.Clone(), env.ClientCfg)
			}
			return env.ClientTr.Dial(ctx, e2e.ServerAddr, ctls.Clone(), env.ClientCfg)
		}
		spec, err := quic.QUICID2Spec(quic.QUICChrome_115_IPv4)
		if err != nil {
			return nil, err
		}
		// (no early_data extension: uTLS cannot take up early data from a GenericExtension — a server that accepts it is
		// answered with an unsupported_extension alert; a spec-driven client therefore resumes without 0-RTT)
		spec.ClientHelloSpec.Extensions = append(spec.ClientHelloSpec.Extensions, &tls.UtlsPreSharedKeyExtension{})
		utr := &quic.UTransport{Transport: env.ClientTr, QUICSpec: &spec}
		c := ctls.Clone()
		c.OmitEmptyPsk = true
		if early {
			return utr.DialEarly(ctx, e2e.ServerAddr, c, env.ClientCfg)
		}
		return utr.Dial(ctx, e2e.ServerAddr, c, env.ClientCfg)
	}
	go func() {
		for {
			c, err := env.Listener.Accept(context.Background())
			if err != nil {
				return
			}
			b.mu.Lock()
			b.srvConns = append(b.srvConns, c)
			b.srvPhase = append(b.srvPhase, b.phase.Load())
			b.mu.Unlock()
		}
	}()
	if mode != "fresh" {
		ctx, cancel := context.WithTimeout(context.Background(), 10*time.Second)
		c1, err := dial(ctx, false)
		cancel()
		if err != nil {
			return "E:first:" + strings.TrimPrefix(errClass(err), "E:")
		}
		time.Sleep(300 * time.Millisecond) // the session ticket arrives
		c1.CloseWithError(0, "")
		time.Sleep(500 * time.Millisecond)
		b.phase.Store(2)
	}
	// only what happens on the second connection is reported
	b.sFrom = len(env.ServerLog.Snapshot())
	b.cFrom = len(env.ClientLog.Snapshot())
	ctx, cancel := context.WithTimeout(context.Background(), 10*time.Second)
	defer cancel()
	c2, err := dial(ctx, mode == "early")
	if err != nil {
		return "E:dial:" + strings.TrimPrefix(errClass(err), "E:")
	}
	b.cur = c2
	early := 1
	select {
	case <-c2.HandshakeComplete():
		early = 0
	default:
	}
	return fmt.Sprintf("ok early=%d", early)
}

func (b *bubble) exec(op string) (res string) {
	defer func() {
		if e := recover(); e != nil {
			b.dead = true
			res = "PANIC"
		}
	}()
	f := strings.Fields(op)
	if len(f) == 0 {
		return "bad-op"
	}
	if b.dead {
		return "skip"
	}
	if f[0] == "net" {
		if b.env != nil || len(f) != 10 {
			return "skip"
		}
		return b.startNet(f) + b.suffix()
	}
	if b.env == nil || b.cur == nil {
		return "skip"
	}
	arg := func(i int) int64 {
		if i < len(f) {
			return vh.Atoi64(f[i])
		}
		return -1
	}
	switch f[0] {
	case "open", "opensync":
		if len(f) != 2 {
			return "bad-op"
		}
		ctx := context.Background()
		var cancel context.CancelFunc = func() {}
		if f[0] == "opensync" {
			ctx, cancel = context.WithTimeout(ctx, 300*time.Millisecond)
		}
		defer cancel()
		var id int64
		var err error
		if f[1] == "b" {
			var s *quic.Stream
			if f[0] == "open" {
				s, err = b.cur.OpenStream()
			} else {
				s, err = b.cur.OpenStreamSync(ctx)
			}
			if err == nil {
				id = int64(s.StreamID())
				b.cs[id] = &cstream{bi: s}
			}
		} else {
			var s *quic.SendStream
			if f[0] == "open" {
				s, err = b.cur.OpenUniStream()
			} else {
				s, err = b.cur.OpenUniStreamSync(ctx)
			}
			if err == nil {
				id = int64(s.StreamID())
				b.cs[id] = &cstream{uni: s}
			}
		}
		if err != nil {
			return errClass(err) + b.suffix()
		}
		return fmt.Sprint(id) + b.suffix()
	case "wr":
		s := b.cs[arg(1)]
		if s == nil || len(f) != 3 {
			return "skip"
		}
		var w io.WriteCloser = s.uni
		if s.bi != nil {
			w = s.bi
		}
		_, err := w.Write([]byte{0x55})
		if err == nil && f[2] == "1" {
			err = w.Close()
		}
		time.Sleep(60 * time.Millisecond)
		return errClass(err) + b.suffix()
	case "ccw":
		s := b.cs[arg(1)]
		if s == nil {
			return "skip"
		}
		if s.bi != nil {
			s.bi.CancelWrite(3)
		} else {
			s.uni.CancelWrite(3)
		}
		time.Sleep(60 * time.Millisecond)
		return "ok" + b.suffix()
	case "hs":
		tm := time.NewTimer(10 * time.Second)
		defer tm.Stop()
		select {
		case <-b.cur.HandshakeComplete():
		case <-b.cur.Context().Done():
			return "E:closed" + b.suffix()
		case <-tm.C:
			if os.Getenv("SZRTT_DEBUG") != "" {
				for side, r := range map[string]*e2e.Recorder{"client": b.env.ClientLog, "server": b.env.ServerLog} {
					for _, ev := range r.Snapshot() {
						switch x := ev.(type) {
						case qlog.PacketSent:
							var fs []string
							for _, f := range x.Frames {
								fs = append(fs, strings.TrimPrefix(fmt.Sprintf("%T%+v", f.Frame, f.Frame), "*"))
							}
							fmt.Fprintf(os.Stderr, "%s sent %v pn=%d %v\n", side, x.Header.PacketType, x.Header.PacketNumber, fs)
						case qlog.PacketReceived:
							var fs []string
							for _, f := range x.Frames {
								fs = append(fs, strings.TrimPrefix(fmt.Sprintf("%T%+v", f.Frame, f.Frame), "*"))
							}
							fmt.Fprintf(os.Stderr, "%s rcvd %v pn=%d %v\n", side, x.Header.PacketType, x.Header.PacketNumber, fs)
						default:
							fmt.Fprintf(os.Stderr, "%s %s\n", side, ev.Name())
						}
					}
				}
				for _, d := range b.env.Net.Log {
					fmt.Fprintf(os.Stderr, "%s #%d at %v len %d first %02x %s\n", d.Dir, d.Index, d.At, len(d.Data), d.Data[0], d.Fate)
				}
			}
			return "E:timeout" + b.suffix()
		}
		time.Sleep(300 * time.Millisecond)
		cu := b.cur.ConnectionState().Used0RTT
		su := false
		if s2 := b.server2(); s2 != nil {
			su = s2.ConnectionState().Used0RTT
		}
		return fmt.Sprintf("complete u0=%d,%d", b2i(cu), b2i(su)) + b.suffix()
	case "next":
		ctx, cancel := context.WithTimeout(context.Background(), 5*time.Second)
		nc, err := b.cur.NextConnection(ctx)
		cancel()
		if err != nil {
			return errClass(err) + b.suffix()
		}
		b.cur = nc
		return "ok" + b.suffix()
	case "sacc":
		s2 := b.server2()
		if s2 == nil {
			return "E:noconn" + b.suffix()
		}
		ctx, cancel := context.WithTimeout(context.Background(), 300*time.Millisecond)
		defer cancel()
		if len(f) == 2 && f[1] == "b" {
			s, err := s2.AcceptStream(ctx)
			if err != nil {
				return errClass(err) + b.suffix()
			}
			b.ss[int64(s.StreamID())] = &sstream{bi: s}
			return fmt.Sprint(int64(s.StreamID())) + b.suffix()
		}
		s, err := s2.AcceptUniStream(ctx)
		if err != nil {
			return errClass(err) + b.suffix()
		}
		b.ss[int64(s.StreamID())] = &sstream{uni: s}
		return fmt.Sprint(int64(s.StreamID())) + b.suffix()
	case "srd":
		s := b.ss[arg(1)]
		if s == nil {
			return "skip"
		}
		var rd interface {
			io.Reader
			SetReadDeadline(time.Time) error
		} = s.uni
		if s.bi != nil {
			rd = s.bi
		}
		rd.SetReadDeadline(time.Now().Add(300 * time.Millisecond))
		buf := make([]byte, 64)
		out := "E:loop"
		for i := 0; i < 1000; i++ {
			_, err := rd.Read(buf)
			if err == nil {
				continue
			}
			var se *quic.StreamError
			switch {
			case err == io.EOF, errors.As(err, &se):
				out = "end"
			case errClass(err) == "E:deadline":
				out = "deadline"
			default:
				out = errClass(err)
			}
			break
		}
		rd.SetReadDeadline(time.Time{})
		time.Sleep(60 * time.Millisecond)
		return out + b.suffix()
	case "scr":
		s := b.ss[arg(1)]
		if s == nil {
			return "skip"
		}
		if s.bi != nil {
			s.bi.CancelRead(4)
		} else {
			s.uni.CancelRead(4)
		}
		time.Sleep(60 * time.Millisecond)
		return "ok" + b.suffix()
	case "scl", "scw":
		s := b.ss[arg(1)]
		if s == nil || s.bi == nil {
			return "skip"
		}
		if f[0] == "scl" {
			s.bi.Close()
		} else {
			s.bi.CancelWrite(8)
		}
		time.Sleep(60 * time.Millisecond)
		return "ok" + b.suffix()
	case "settle":
		time.Sleep(300 * time.Millisecond)
		return "ok" + b.suffix()
	}
	return "bad-op"
}

func b2i(b bool) int {
	if b {
		return 1
	}
	return 0
}

func (b *bubble) shutdown() {
	if b.env == nil {
		return
	}
	if b.cur != nil {
		b.cur.CloseWithError(0, "")
	}
	time.Sleep(100 * time.Millisecond)
	b.env.Close()
	time.Sleep(100 * time.Millisecond)
}

// ---- runner and generator

type gstream struct {
	id       int64
	fin      bool
	accepted bool
}

type runner struct {
	reqs  chan string
	resps chan string
	done  chan struct{}

	has      bool
	mode     string
	hsDone   bool
	rejected bool // the scenario makes the server reject 0-RTT
	nexted   bool
	opened   []*gstream
	sopen    []*gstream
	dead     bool
	script   []string
}

func newRunner(t *testing.T) *runner {
	rn := &runner{reqs: make(chan string), resps: make(chan string), done: make(chan struct{})}
	go func() {
		defer close(rn.done)
		synctest.Test(t, func(t *testing.T) {
			b := &bubble{cs: map[int64]*cstream{}, ss: map[int64]*sstream{}}
			for op := range rn.reqs {
				rn.resps <- b.exec(op)
			}
			b.shutdown()
		})
	}()
	return rn
}

func (rn *runner) Close() {
	close(rn.reqs)
	select {
	case <-rn.done:
	case <-time.After(120 * time.Second):
		fmt.Fprintln(os.Stderr, "szrtt driver: the case did not tear down within 120s; aborting")
		os.Exit(4)
	}
}

func (rn *runner) Exec(op string) string {
	rn.reqs <- op
	var res string
	select {
	case res = <-rn.resps:
	case <-time.After(120 * time.Second):
		fmt.Fprintf(os.Stderr, "szrtt driver: operation %q did not return within 120s; aborting\n", op)
		os.Exit(4)
	}
	if strings.HasPrefix(res, "PANIC") {
		rn.dead = true
	}
	rn.observe(op, res)
	return res
}

func (rn *runner) observe(op, res string) {
	f := strings.Fields(op)
	rf := strings.Fields(res)
	if len(f) == 0 || len(rf) == 0 {
		return
	}
	for _, w := range rf {
		if strings.HasPrefix(w, "hc=1") && rn.has {
			rn.hsDone = true
		}
	}
	switch f[0] {
	case "net":
		if rf[0] == "ok" && len(f) == 10 {
			rn.has = true
			rn.mode = f[6]
			rn.hsDone = len(rf) > 1 && rf[1] == "early=0"
			rn.rejected = f[6] == "early" && (f[5] != "1" || vh.Atoi64(f[3]) < vh.Atoi64(f[1]) || vh.Atoi64(f[4]) < vh.Atoi64(f[2]) || f[8] == "1")
		}
	case "open", "opensync":
		if !strings.HasPrefix(rf[0], "E:") && rf[0] != "skip" && rf[0] != "bad-op" {
			rn.opened = append(rn.opened, &gstream{id: vh.Atoi64(rf[0])})
		}
	case "wr":
		if len(f) == 3 && f[2] == "1" {
			for _, s := range rn.opened {
				if s.id == vh.Atoi64(f[1]) {
					s.fin = true
				}
			}
		}
	case "hs":
		if rf[0] == "complete" {
			rn.hsDone = true
		}
	case "next":
		if rf[0] == "ok" {
			rn.nexted = true
			rn.opened = nil
		}
	case "sacc":
		if !strings.HasPrefix(rf[0], "E:") && rf[0] != "skip" {
			rn.sopen = append(rn.sopen, &gstream{id: vh.Atoi64(rf[0])})
		}
	}
}

var limChoices = []int64{0, 1, 1, 2, 2, 3, 3, 4, 5}

func (rn *runner) GenOp(r *vh.Rand, i int) string {
	if rn.dead {
		return ""
	}
	if !rn.has {
		if i > 0 {
			return ""
		}
		mode := []string{"early", "resume", "fresh"}[r.Pick(70, 15, 15)]
		l1b, l1u := limChoices[r.Intn(len(limChoices))], limChoices[r.Intn(len(limChoices))]
		l2b, l2u := l1b, l1u
		allow := 1
		switch r.Pick(30, 25, 15, 15, 15) {
		case 0: // unchanged configuration: 0-RTT is accepted
		case 1: // a limit is lowered: the server must refuse 0-RTT
			if r.Bool() && l1b > 0 {
				l2b = r.Range(0, l1b-1)
			} else if l1u > 0 {
				l2u = r.Range(0, l1u-1)
			} else {
				allow = 0
			}
		case 2: // limits raised: 0-RTT stays acceptable
			l2b, l2u = l1b+r.Range(0, 2), l1u+r.Range(0, 2)
		case 3: // the server no longer allows 0-RTT
			allow = 0
		default: // anything
			l2b, l2u = limChoices[r.Intn(len(limChoices))], limChoices[r.Intn(len(limChoices))]
			allow = r.Intn(2)
		}
		return fmt.Sprintf("net %d %d %d %d %d %s %d %d %s", l1b, l1u, l2b, l2u, allow, mode, r.Pick(85, 15), r.Pick(90, 10),
			[]string{"plain", "chrome"}[r.Pick(70, 30)])
	}
	pick := func(l []*gstream, pred func(*gstream) bool) *gstream {
		var c []*gstream
		for _, s := range l {
			if pred(s) {
				c = append(c, s)
			}
		}
		if len(c) == 0 {
			return nil
		}
		return c[r.Intn(len(c))]
	}
	t := []string{"u", "b"}[r.Intn(2)]
	if !rn.hsDone {
		// the 0-RTT phase: open streams up to and beyond the remembered limit, write early data, then finish the handshake
		switch r.Pick(45, 25, 30) {
		case 0:
			return "open " + t
		case 1:
			if s := pick(rn.opened, func(s *gstream) bool { return !s.fin }); s != nil {
				return fmt.Sprintf("wr %d %d", s.id, r.Intn(2))
			}
			return "open " + t
		default:
			return "hs"
		}
	}
	if rn.rejected && !rn.nexted {
		// the connection must now answer every call with Err0RTTRejected until NextConnection
		switch r.Pick(25, 20, 55) {
		case 0:
			return "open " + t
		case 1:
			if s := pick(rn.opened, func(s *gstream) bool { return true }); s != nil {
				return fmt.Sprintf("wr %d 0", s.id)
			}
			return "open " + t
		default:
			return "next"
		}
	}
	for try := 0; try < 6; try++ {
		switch r.Pick(24, 6, 14, 4, 16, 10, 8, 4, 4, 6) {
		case 0:
			return "open " + t
		case 1:
			return "opensync " + t
		case 2:
			if s := pick(rn.opened, func(s *gstream) bool { return !s.fin }); s != nil {
				return fmt.Sprintf("wr %d %d", s.id, r.Pick(35, 65))
			}
		case 3:
			if s := pick(rn.opened, func(s *gstream) bool { return !s.fin }); s != nil {
				s.fin = true
				return fmt.Sprintf("ccw %d", s.id)
			}
		case 4:
			return "sacc " + t
		case 5:
			if s := pick(rn.sopen, func(s *gstream) bool { return true }); s != nil {
				return fmt.Sprintf("srd %d", s.id)
			}
		case 6:
			if s := pick(rn.sopen, func(s *gstream) bool { return true }); s != nil {
				return fmt.Sprintf("scr %d", s.id)
			}
		case 7:
			if s := pick(rn.sopen, func(s *gstream) bool { return s.id%4 < 2 }); s != nil {
				return fmt.Sprintf("scl %d", s.id)
			}
		case 8:
			if s := pick(rn.sopen, func(s *gstream) bool { return s.id%4 < 2 }); s != nil {
				return fmt.Sprintf("scw %d", s.id)
			}
		default:
			return "settle"
		}
	}
	return "settle"
}

func TestDriver(t *testing.T) {
	go func() { // never hang the check on a modified /repo
		time.Sleep(20 * time.Minute)
		fmt.Fprintln(os.Stderr, "szrtt driver: still running after 20 minutes; aborting")
		os.Exit(4)
	}()
	vh.Main(t, "szrtt", func(r *vh.Rand) vh.Runner { return newRunner(t) })
}
