//go:build verif

// Package gate is the C13 correspondence driver: real handshakes (plain client and a Chrome parrot;
// with and without server Retry, Version Negotiation, long certificate chains) over a scripted network
// inside a testing/synctest bubble, with attacker-crafted datagrams injected at generated points.
// Every datagram handed to the client becomes one `pkt` line: the gate state before, a summary of
// each coalesced packet, and the client's reaction read from its qlog events and its state after.
// The Lean oracle re-computes reaction and state with the gate model and judges the monitors.
package gate

import (
	"fmt"
	"os"
	"runtime/debug"
	"runtime/pprof"
	"strings"
	"sync/atomic"
	"testing"
	"testing/synctest"
	"time"

	"github.com/refraction-networking/uquic/internal/verifharness/vh"
)

var theT *testing.T

type runner struct {
	seed   uint64
	plan   []string
	spec   scnSpec
	faults []faultSpec
	injs   []injSpec
	ran    bool
	out    *outcome
	trace  []string
	auth   []string
}

var dirNames = []string{"c2s", "s2c"}

func pickS(r *vh.Rand, opts []string, weights ...int) string { return opts[r.Pick(weights...)] }

func newRunner(r *vh.Rand) vh.Runner {
	rn := &runner{spec: scnSpec{client: "plain", vn: "none", chain: "short"}, seed: r.U64()}
	// client kinds: the plain client; the Chrome parrot (zero-length source connection IDs); the plain connection dialed
	// through UTransport; the Firefox parrot (3-byte source connection IDs and an empty initial_source_connection_id
	// placeholder in its spec, which every connection made from the spec value has to fill in with ITS OWN ID)
	client := pickS(r, []string{"plain", "chrome", "uplain", "firefox"}, 45, 24, 11, 20)
	retry := r.Chance(40)
	vn := pickS(r, []string{"none", "ok", "fail"}, 70, 20, 10)
	chain := pickS(r, []string{"short", "long"}, 75, 25)
	zrtt := pickS(r, []string{"none", "accept", "reject", "reject-params"}, 80, 10, 6, 4)
	psk := ""
	zsize := ""
	if zrtt != "none" {
		// resumption scenarios: with or without a server Retry (the early data is in flight when the Retry arrives);
		// the plain client, or the Chrome parrot dialed through UTransport.DialEarly with a pre_shared_key extension
		// appended to its preset ClientHelloSpec (psk), with an empty early_data extension in front of it on the resuming
		// dial (psked), with the extension but without Config.OmitEmptyPsk (strict: uTLS cannot build the first
		// ClientHello - the dial has to fail, not hang), or as the preset is (none: never resumes)
		client, vn = pickS(r, []string{"plain", "chrome"}, 60, 40), "none"
		if client == "chrome" {
			psk = " psk=" + pickS(r, []string{"psk", "psked", "strict", "none"}, 60, 15, 10, 15)
		}
		// how much early data the application writes: a few packets (all of it is on the wire before the server
		// answers), more than the initial congestion window (stream data is still queued in the framer, and the Write call
		// still blocked, when the server's accept / reject arrives), or more than the remembered stream flow-control window
		zsize = " zsize=" + pickS(r, []string{"small", "cwnd", "window"}, 45, 45, 10)
	}
	netMode := "ok"
	if zrtt == "none" && vn != "fail" {
		netMode = pickS(r, []string{"ok", "blackhole", "hsblock"}, 94, 2, 4)
	}
	cancel := "none"
	if zrtt == "none" && netMode == "ok" && r.Chance(12) {
		// the application gives up: at a generated instant, or exactly when the client acts on a genuine Version
		// Negotiation packet / accepts a Retry / processes its first packet
		switch {
		case vn == "ok" && r.Chance(60):
			cancel = "vn"
		case retry && r.Chance(50):
			cancel = "retry"
		case r.Chance(30):
			cancel = "first"
		default:
			cancel = fmt.Sprintf("t%d", r.Pick(30, 40, 30)*20+r.Intn(25))
		}
	}
	rn.plan = append(rn.plan, fmt.Sprintf("scn client=%s retry=%s vn=%s chain=%s zrtt=%s net=%s cancel=%s%s%s", client, boolTxt(retry), vn, chain, zrtt, netMode, cancel, psk, zsize))
	nf := r.Pick(40, 30, 20, 10)
	for i := 0; i < nf; i++ {
		kind := pickS(r, []string{"drop", "dup", "delay", "flip", "trunc"}, 40, 20, 15, 20, 5)
		arg := 0
		switch kind {
		case "delay":
			arg = int(r.Range(20, 1200))
		case "flip":
			arg = r.Intn(11000)
		case "trunc":
			arg = r.Intn(1300)
		}
		rn.plan = append(rn.plan, fmt.Sprintf("fault %s %d %s %d", dirNames[r.Intn(2)], r.Pick(30, 25, 20, 10, 10, 5), kind, arg))
	}
	ni := r.Pick(15, 30, 30, 15, 10)
	for i := 0; i < ni; i++ {
		after := r.Pick(35, 25, 15, 10, 10, 5)
		delay := 0
		if r.Chance(20) {
			delay = int(r.Range(1, 400))
		}
		kind := pickS(r, []string{"retry", "vn", "initial", "replay", "corrupt", "handshake", "short", "0rtt", "unsupported", "tiny", "coalesce", "flood", "tinylong"}, 26, 20, 16, 8, 10, 6, 6, 3, 3, 3, 7, 2, 3)
		var ps []string
		switch kind {
		case "retry":
			ps = append(ps, "tag="+pickS(r, []string{"valid", "bad", "flip", "odcid"}, 40, 30, 15, 15),
				"scid="+pickS(r, []string{"new", "same"}, 85, 15), "ver="+pickS(r, []string{"cur", "other"}, 90, 10))
		case "vn":
			ps = append(ps, "list="+pickS(r, []string{"cur", "compat", "incompat", "empty", "odd"}, 35, 30, 25, 5, 5))
		case "initial":
			ps = append(ps, "scid="+pickS(r, []string{"wrong", "right"}, 60, 40), "keys="+pickS(r, []string{"garbage", "valid"}, 50, 50),
				"payload="+pickS(r, []string{"close", "ping"}, 70, 30), "ver="+pickS(r, []string{"cur", "other"}, 90, 10))
		case "handshake":
			ps = append(ps, "scid="+pickS(r, []string{"wrong", "right"}, 30, 70), "ver="+pickS(r, []string{"cur", "other"}, 90, 10))
		case "coalesce":
			ps = append(ps, "first="+pickS(r, []string{"initial", "badver", "handshake"}, 60, 20, 20), "scid="+pickS(r, []string{"right", "wrong"}, 60, 40),
				"keys="+pickS(r, []string{"garbage", "valid"}, 60, 40), "second="+pickS(r, []string{"same", "other"}, 60, 40), "tail="+pickS(r, []string{"long", "short"}, 70, 30))
		case "tinylong":
			ps = append(ps, "typ="+pickS(r, []string{"initial", "handshake"}, 60, 40))
		case "flood":
			ps = append(ps, fmt.Sprintf("n=%d", 30+r.Intn(8)), "what="+pickS(r, []string{"short", "handshake"}, 50, 50), "scid=right", "ver=cur")
		case "replay":
			ps = append(ps, fmt.Sprintf("src=%d", r.Intn(4)))
		case "corrupt":
			ps = append(ps, fmt.Sprintf("src=%d", r.Intn(4)), fmt.Sprintf("bit=%d", r.Intn(10000)))
		}
		if zrtt == "none" && r.Chance(35) {
			// the same attacker, aiming at the server: after the `after`-th client datagram reached it (>= 1: the
			// server has a connection and has processed the client's first packet)
			switch kind {
			case "retry", "vn", "initial", "handshake", "short", "replay", "corrupt", "coalesce", "0rtt", "unsupported", "tinylong":
				ps = append(ps, "to=s")
				if after == 0 {
					after = 1 + r.Intn(3)
				}
			}
		}
		rn.plan = append(rn.plan, strings.TrimSpace(fmt.Sprintf("inj %d after=%d delay=%d kind=%s seed=%d %s", i+1, after, delay, kind, r.U64()>>1, strings.Join(ps, " "))))
	}
	if r.Chance(30) {
		// anchored at the handshake, not at a datagram count: right after the client's first Handshake packet went on the
		// wire (usually coalesced behind an Initial packet) it has no Initial keys any more (RFC 9001 4.9.1) - an Initial
		// packet sealed with the public Initial keys (CONNECTION_CLOSE, PING), or a replay of the server's first
		// datagram, arrives before / around / after the HANDSHAKE_DONE (one round trip = 20 ms later)
		ni++
		delay := 0
		switch r.Pick(45, 35, 20) {
		case 1:
			delay = 1 + r.Intn(19)
		case 2:
			delay = 20 + r.Intn(60)
		}
		switch r.Pick(75, 15, 10) {
		case 0:
			rn.plan = append(rn.plan, fmt.Sprintf("inj %d after=-1 when=hs delay=%d kind=initial seed=%d scid=%s keys=%s payload=%s ver=cur", ni, delay, r.U64()>>1,
				pickS(r, []string{"right", "wrong"}, 80, 20), pickS(r, []string{"valid", "garbage"}, 85, 15), pickS(r, []string{"close", "ping"}, 70, 30)))
		case 1:
			rn.plan = append(rn.plan, fmt.Sprintf("inj %d after=-1 when=hs delay=%d kind=replay seed=%d src=0", ni, delay, r.U64()>>1))
		default:
			rn.plan = append(rn.plan, fmt.Sprintf("inj %d after=-1 when=hs delay=%d kind=coalesce seed=%d first=initial scid=right keys=valid second=same tail=long", ni, delay, r.U64()>>1))
		}
	}
	if vn == "ok" && zrtt == "none" && r.Chance(45) {
		// the dial is re-created by the server's genuine Version Negotiation packet; right after it (before the
		// server's first packet on the new connection) a forged second Version Negotiation packet addressed to the
		// NEW connection arrives (listing / not listing the version now in use), and/or a forged Retry
		k := ni
		if r.Chance(80) {
			k++
			rn.plan = append(rn.plan, fmt.Sprintf("inj %d after=1 delay=%d kind=vn seed=%d list=%s", k, r.Pick(70, 30)*r.Intn(8), r.U64()>>1,
				pickS(r, []string{"compat", "incompat", "cur"}, 45, 35, 20)))
		}
		if r.Chance(35) {
			k++
			rn.plan = append(rn.plan, fmt.Sprintf("inj %d after=1 delay=%d kind=retry seed=%d tag=%s scid=new ver=cur", k, r.Intn(6), r.U64()>>1,
				pickS(r, []string{"valid", "bad"}, 70, 30)))
		}
		ni = k
	}
	if retry && r.Chance(12) {
		// an on-path attacker holds back the genuine Retry and forwards its token under a source connection ID
		// of its own choice (valid integrity tag): only the retry_source_connection_id check can catch this
		rn.plan = append(rn.plan, "fault s2c 0 drop 0",
			fmt.Sprintf("inj %d after=0 delay=%d kind=retry seed=%d tag=valid scid=new ver=cur tok=stolen", ni+1, 25+r.Intn(15), r.U64()>>1))
	}
	rn.plan = append(rn.plan, "run")
	return rn
}

func (rn *runner) GenOp(r *vh.Rand, i int) string {
	if i < len(rn.plan) {
		return rn.plan[i]
	}
	k := i - len(rn.plan)
	if k < len(rn.trace) {
		return fmt.Sprintf("pkt %d", k)
	}
	if k == len(rn.trace) && rn.out != nil && rn.out.deadline != "" {
		return "deadline"
	}
	if rn.out != nil && rn.out.deadline == "" {
		k++ // no deadline line in this case
	}
	if a := k - len(rn.trace) - 1; a >= 0 && a < len(rn.auth) {
		return fmt.Sprintf("auth %d", a)
	}
	return ""
}

func kv(fields []string) map[string]string {
	m := map[string]string{}
	for _, f := range fields {
		if i := strings.IndexByte(f, '='); i > 0 {
			m[f[:i]] = f[i+1:]
		}
	}
	return m
}

func (rn *runner) Exec(op string) string {
	f := strings.Fields(op)
	if len(f) == 0 {
		return "bad-op"
	}
	switch f[0] {
	case "scn":
		if rn.ran {
			return "skip"
		}
		m := kv(f[1:])
		rn.spec = scnSpec{client: m["client"], retry: m["retry"] == "1", vn: m["vn"], chain: m["chain"], zrtt: m["zrtt"], net: m["net"], cancel: m["cancel"], psk: m["psk"], zsize: m["zsize"]}
		if rn.spec.client == "" {
			rn.spec.client = "plain"
		}
		if rn.spec.vn == "" {
			rn.spec.vn = "none"
		}
		return "ok"
	case "fault":
		if rn.ran || len(f) < 5 {
			return "skip"
		}
		d := dirC2S
		if f[1] == "s2c" {
			d = dirS2C
		}
		rn.faults = append(rn.faults, faultSpec{dir: d, idx: int(vh.Atoi64(f[2])), kind: f[3], arg: int(vh.Atoi64(f[4]))})
		return "ok"
	case "inj":
		if rn.ran || len(f) < 3 {
			return "skip"
		}
		m := kv(f[2:])
		in := injSpec{id: int(vh.Atoi64(f[1])), after: int(vh.Atoi64(m["after"])), delay: int(vh.Atoi64(m["delay"])), kind: m["kind"], p: m}
		fmt.Sscan(m["seed"], &in.seed)
		rn.injs = append(rn.injs, in)
		return "ok"
	case "run":
		if rn.ran {
			return "skip"
		}
		rn.ran = true
		sc := &scenario{spec: rn.spec, faults: rn.faults, injs: rn.injs, seed: rn.seed}
		desc := fmt.Sprintf("%+v faults=%+v injs=%d", rn.spec, rn.faults, len(rn.injs))
		running.Store(&desc)
		runStart.Store(time.Now().UnixNano())
		defer running.Store(nil)
		func() {
			// a Dial that never returns leaves its goroutine blocked for ever: synctest reports the bubble as
			// deadlocked when the scenario ends. The outcome was already recorded; the case goes on.
			defer func() {
				if e := recover(); e != nil {
					if os.Getenv("GATE_DEBUG") != "" {
						fmt.Fprintf(os.Stderr, "gate driver: panic in scenario: %v\n%s\n", e, debug.Stack())
						pprof.Lookup("goroutine").WriteTo(os.Stderr, 2)
					}
					if rn.out == nil || !(rn.out.leaked || rn.out.startLeak) {
						panic(e)
					}
				}
			}()
			synctest.Test(theT, func(t *testing.T) {
				sc.t = t
				if sc.spec.zrtt != "" && sc.spec.zrtt != "none" {
					rn.out = sc.runZeroRTT()
				} else {
					sc.outp = &rn.out
					rn.out = sc.run()
				}
			})
		}()
		if rn.out == nil {
			return "E:bubble"
		}
		for _, d := range sc.trace {
			rn.trace = append(rn.trace, d.line)
		}
		rn.auth = sc.auth
		return rn.out.txt() + fmt.Sprintf(" ntrace=%d", len(rn.trace))
	case "pkt":
		if len(f) < 2 {
			return "skip"
		}
		k := int(vh.Atoi64(f[1]))
		if k < 0 || k >= len(rn.trace) {
			return "skip"
		}
		return rn.trace[k]
	case "auth":
		if len(f) < 2 {
			return "skip"
		}
		k := int(vh.Atoi64(f[1]))
		if k < 0 || k >= len(rn.auth) {
			return "skip"
		}
		return rn.auth[k]
	case "deadline":
		if rn.out == nil || rn.out.deadline == "" {
			return "skip"
		}
		return rn.out.deadline + " | " + rn.out.dial + fmt.Sprintf(" at=%d", rn.out.monoNow)
	}
	return "bad-op"
}

var (
	running  atomic.Pointer[string]
	runStart atomic.Int64
)

// A scenario runs in virtual time and normally takes milliseconds of real time. If one does not finish in
// 90 s of REAL time the bubble is livelocked (e.g. a run loop that wakes at a passed deadline and never
// closes): that is a hang of Dial in the sense of the property. The process is ended with a diagnostic so
// that the check reports it instead of waiting for ever.
func watchdog() {
	for {
		time.Sleep(2 * time.Second)
		if d := running.Load(); d != nil && time.Now().UnixNano()-runStart.Load() > int64(90*time.Second) {
			fmt.Fprintf(os.Stderr, "gate driver: scenario did not finish within 90 s of real time (virtual-time livelock, Dial hangs): %s\n", *d)
			os.Exit(3)
		}
	}
}

func TestDriver(t *testing.T) {
	theT = t
	go watchdog()
	vh.Main(t, "gate", newRunner)
}
