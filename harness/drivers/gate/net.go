//go:build verif

package gate

import (
	"fmt"
	"net"
	"os"
	"sort"
	"sync"
	"time"

	"github.com/refraction-networking/uquic/internal/protocol"
	"github.com/refraction-networking/uquic/internal/wire"
	"github.com/refraction-networking/uquic/testutils/simnet"
)

// gnet is the scripted network of the gate driver. Datagrams towards the server get the scripted
// faults and are forwarded to the server's simnet link (which adds the latency). Datagrams towards
// the client are NOT forwarded: they are queued with their due time and handed to the client one at
// a time by the delivery goroutine (scenario.deliverLoop), which waits for the client to become
// quiescent after each one so that the qlog events it caused can be attributed to it.
type gnet struct {
	mu      sync.Mutex
	start   time.Time
	latency time.Duration
	nodes   map[string]simnet.PacketReceiver
	faults  map[[2]int]faultSpec
	count   [2]int
	clean   bool   // no faults any more (re-dial phase)
	mode    string // ok | blackhole (nothing reaches the client) | hsblock (only Initial packets reach the client)
	pending []*pend
	seq     int
	wake    chan struct{}
	c2s     [][]byte // every datagram the client sent (as sent)
	s2c     [][]byte // every datagram the server sent (as sent, including those the network then drops)
	onC2S   func(idx int, data []byte)
}

type pend struct {
	due   time.Duration // since start
	seq   int
	data  []byte
	orig  []byte // genuine datagram before mutation (nil for triggers / injections)
	gidx  int    // genuine s2c index, -1 otherwise
	fate  string
	inj   *injSpec // a scheduled injection (data crafted at delivery time)
	trig  bool     // "first client datagram seen" trigger
	when  string   // trig: which anchor ("" first client datagram, "hs" the client's first Handshake packet is on the wire)
	toSrv bool     // a datagram for the server
}

var debugNet = os.Getenv("GATE_DEBUG") == "net"

const (
	dirC2S = 0
	dirS2C = 1
)

func newGnet(latency time.Duration, faults []faultSpec) *gnet {
	n := &gnet{start: time.Now(), latency: latency, nodes: map[string]simnet.PacketReceiver{}, faults: map[[2]int]faultSpec{}, wake: make(chan struct{}, 1)}
	for _, f := range faults {
		n.faults[[2]int{f.dir, f.idx}] = f
	}
	return n
}

func (n *gnet) AddNode(addr net.Addr, r simnet.PacketReceiver) {
	n.mu.Lock()
	n.nodes[addr.String()] = r
	n.mu.Unlock()
}

func (n *gnet) RemoveNode(addr net.Addr) {
	n.mu.Lock()
	delete(n.nodes, addr.String())
	n.mu.Unlock()
}

func (n *gnet) now() time.Duration { return time.Since(n.start) }

func (n *gnet) signal() {
	select {
	case n.wake <- struct{}{}:
	default:
	}
}

// initialPrefix: length of the leading run of Initial packets of a datagram.
func initialPrefix(data []byte) int {
	off := 0
	for off < len(data) && wire.IsLongHeaderPacket(data[off]) && !wire.IsVersionNegotiationPacket(data[off:]) {
		hdr, pdata, _, err := wire.ParsePacket(data[off:])
		if err != nil || hdr.Type != protocol.PacketTypeInitial {
			break
		}
		off += len(pdata)
	}
	return off
}

func mutate(kind string, arg int, b []byte) []byte {
	q := append([]byte(nil), b...)
	switch kind {
	case "flip":
		if len(q) > 0 {
			bit := arg % (len(q) * 8)
			q[bit/8] ^= 1 << (bit % 8)
		}
	case "trunc":
		if len(q) > 1 {
			q = q[:1+arg%(len(q)-1)]
		}
	}
	return q
}

// SendPacket implements simnet.Router.
func (n *gnet) SendPacket(p simnet.Packet) error {
	n.mu.Lock()
	d := dirC2S
	if p.To.String() == clientAddr.String() {
		d = dirS2C
	}
	idx := n.count[d]
	n.count[d]++
	f, has := n.faults[[2]int{d, idx}]
	if n.clean {
		has = false
	}
	data := append([]byte(nil), p.Data...)
	if debugNet {
		lv, _, _, _ := levelsOf(data)
		fmt.Fprintf(os.Stderr, "debug: net t=%v dir=%s idx=%d len=%d levels=%s fault=%v\n", n.now(), dirNames[d], idx, len(data), lv, has)
	}
	if d == dirC2S {
		// towards the server: queued like the other direction, so that the server's reaction to every datagram
		// can be observed too (the server's simnet link adds no latency of its own)
		n.c2s = append(n.c2s, data)
		cb := n.onC2S
		addS := func(b []byte, extra time.Duration, fate string) {
			n.seq++
			n.pending = append(n.pending, &pend{due: n.now() + n.latency + extra, seq: n.seq, data: b, orig: data, gidx: idx, fate: fate, toSrv: true})
		}
		if !has {
			addS(data, 0, "ok")
		} else {
			switch f.kind {
			case "drop":
			case "dup":
				addS(data, 0, "ok")
				addS(append([]byte(nil), data...), 0, "dup")
			case "delay":
				addS(data, time.Duration(f.arg)*time.Millisecond, "delay")
			default:
				addS(mutate(f.kind, f.arg, data), 0, f.kind)
			}
		}
		n.mu.Unlock()
		n.signal()
		if cb != nil {
			cb(idx, data)
		}
		return nil
	}
	// towards the client: queue
	n.s2c = append(n.s2c, data)
	if !n.clean {
		switch n.mode {
		case "blackhole":
			n.mu.Unlock()
			return nil
		case "hsblock":
			keep := initialPrefix(data)
			if keep == 0 {
				n.mu.Unlock()
				return nil
			}
			if keep < len(data) {
				n.seq++
				n.pending = append(n.pending, &pend{due: n.now() + n.latency, seq: n.seq, data: append([]byte(nil), data[:keep]...), orig: data, gidx: idx, fate: "hsblock"})
				n.mu.Unlock()
				n.signal()
				return nil
			}
		}
	}
	add := func(b []byte, extra time.Duration, fate string) {
		n.seq++
		n.pending = append(n.pending, &pend{due: n.now() + n.latency + extra, seq: n.seq, data: b, orig: data, gidx: idx, fate: fate})
	}
	if !has {
		add(data, 0, "ok")
	} else {
		switch f.kind {
		case "drop":
		case "dup":
			add(data, 0, "ok")
			add(append([]byte(nil), data...), 0, "dup")
		case "delay":
			add(data, time.Duration(f.arg)*time.Millisecond, "delay")
		default:
			add(mutate(f.kind, f.arg, data), 0, f.kind)
		}
	}
	n.mu.Unlock()
	n.signal()
	return nil
}

// schedule queues a non-genuine item (trigger or injection).
func (n *gnet) schedule(p *pend, after time.Duration) {
	n.mu.Lock()
	n.seq++
	p.seq = n.seq
	p.due = n.now() + after
	p.gidx = -1
	n.pending = append(n.pending, p)
	n.mu.Unlock()
	n.signal()
}

// next pops the earliest item that is due, or reports when the next one will be.
func (n *gnet) next() (item *pend, wait time.Duration, any bool) {
	n.mu.Lock()
	defer n.mu.Unlock()
	if len(n.pending) == 0 {
		return nil, 0, false
	}
	sort.SliceStable(n.pending, func(i, j int) bool {
		if n.pending[i].due != n.pending[j].due {
			return n.pending[i].due < n.pending[j].due
		}
		return n.pending[i].seq < n.pending[j].seq
	})
	now := n.now()
	if n.pending[0].due <= now {
		item = n.pending[0]
		n.pending = n.pending[1:]
		return item, 0, true
	}
	return nil, n.pending[0].due - now, true
}
