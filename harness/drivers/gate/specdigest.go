//go:build verif

package gate

import (
	"fmt"
	"hash/fnv"
	"os"
	"reflect"
	"sort"
	"strings"

	quic "github.com/refraction-networking/uquic"
	tls "github.com/refraction-networking/utls"
)

// Aliasing monitor "a dial never writes to memory the caller still owns" (ghost state: a deep snapshot of the
// caller's QUICSpec value taken before the dial).
//
// One QUICSpec value serves many connections (the re-created connection after Version Negotiation, the next Dial on
// the UTransport); whatever a dial leaves behind in it is state carried over to the next connection. The snapshot
// follows every pointer, slice and interface of the spec - exported and unexported fields alike (uTLS caches the
// marshalled transport parameters in an unexported field) - and is keyed per ClientHello extension, so that the
// oracle can say WHICH part of the spec a dial wrote to.

// deepWrite renders v: pointers are followed, maps sorted, funcs and channels reduced to nil / non-nil.
func deepWrite(sb *strings.Builder, v reflect.Value, depth int) {
	if depth > 12 {
		sb.WriteString("<deep>")
		return
	}
	switch v.Kind() {
	case reflect.Invalid:
		sb.WriteString("<nil>")
	case reflect.Bool:
		fmt.Fprintf(sb, "%t", v.Bool())
	case reflect.Int, reflect.Int8, reflect.Int16, reflect.Int32, reflect.Int64:
		fmt.Fprintf(sb, "%d", v.Int())
	case reflect.Uint, reflect.Uint8, reflect.Uint16, reflect.Uint32, reflect.Uint64, reflect.Uintptr:
		fmt.Fprintf(sb, "%d", v.Uint())
	case reflect.Float32, reflect.Float64:
		fmt.Fprintf(sb, "%g", v.Float())
	case reflect.String:
		fmt.Fprintf(sb, "%q", v.String())
	case reflect.Pointer, reflect.Interface:
		if v.IsNil() {
			sb.WriteString("<nil>")
			return
		}
		fmt.Fprintf(sb, "&%s", v.Elem().Type())
		deepWrite(sb, v.Elem(), depth+1)
	case reflect.Slice:
		if v.IsNil() {
			sb.WriteString("<nil>")
			return
		}
		fallthrough
	case reflect.Array:
		sb.WriteByte('[')
		for i := 0; i < v.Len(); i++ {
			deepWrite(sb, v.Index(i), depth+1)
			sb.WriteByte(',')
		}
		sb.WriteByte(']')
	case reflect.Map:
		if v.IsNil() {
			sb.WriteString("<nil>")
			return
		}
		var es []string
		for it := v.MapRange(); it.Next(); {
			var e strings.Builder
			deepWrite(&e, it.Key(), depth+1)
			e.WriteByte(':')
			deepWrite(&e, it.Value(), depth+1)
			es = append(es, e.String())
		}
		sort.Strings(es)
		fmt.Fprintf(sb, "map%v", es)
	case reflect.Struct:
		sb.WriteByte('{')
		for i := 0; i < v.NumField(); i++ {
			sb.WriteString(v.Type().Field(i).Name)
			sb.WriteByte('=')
			deepWrite(sb, v.Field(i), depth+1)
			sb.WriteByte(';')
		}
		sb.WriteByte('}')
	case reflect.Func, reflect.Chan, reflect.UnsafePointer:
		if v.IsNil() {
			sb.WriteString("<nil>")
		} else {
			sb.WriteString("<set>")
		}
	default:
		sb.WriteString("<?>")
	}
}

func hashOf(v reflect.Value) string {
	var sb strings.Builder
	deepWrite(&sb, v, 0)
	if os.Getenv("GATE_DEBUG") == "spec" {
		fmt.Fprintf(os.Stderr, "debug: spec %s\n", sb.String())
	}
	h := fnv.New64a()
	h.Write([]byte(sb.String()))
	return fmt.Sprintf("%016x", h.Sum64())
}

// specSnapshot: "<part>:<hash>,..." - one part per ClientHello extension (named by its Go type and position), one for
// the rest of the ClientHelloSpec, one for the rest of the QUICSpec. "-" for a client without a spec.
func specSnapshot(spec *quic.QUICSpec) string {
	if spec == nil {
		return "-"
	}
	var parts []string
	if chs := spec.ClientHelloSpec; chs != nil {
		for i, e := range chs.Extensions {
			name := strings.TrimPrefix(fmt.Sprintf("%T", e), "*tls.")
			parts = append(parts, fmt.Sprintf("%d.%s:%s", i, name, hashOf(reflect.ValueOf(e))))
		}
		rest := *chs
		rest.Extensions = nil
		parts = append(parts, "hello:"+hashOf(reflect.ValueOf(rest)))
	}
	rest := *spec
	rest.ClientHelloSpec = nil
	parts = append(parts, "quic:"+hashOf(reflect.ValueOf(rest)))
	return strings.Join(parts, ",")
}

// specTaint lists the parts of the caller's spec that hold - as a complete byte string - one of the given
// connection IDs (IDs the client's connections used on the wire): per-connection state that a dial left behind in
// memory the caller owns. "-" if none.
func specTaint(spec *quic.QUICSpec, cids [][]byte) string {
	if spec == nil {
		return "-"
	}
	var needles []string
	for _, c := range cids {
		if len(c) >= 3 {
			var sb strings.Builder
			deepWrite(&sb, reflect.ValueOf(c), 0)
			needles = append(needles, sb.String())
		}
	}
	var hit []string
	check := func(name string, v reflect.Value) {
		var sb strings.Builder
		deepWrite(&sb, v, 0)
		for _, n := range needles {
			if strings.Contains(sb.String(), n) {
				hit = append(hit, name)
				return
			}
		}
	}
	if chs := spec.ClientHelloSpec; chs != nil {
		for i, e := range chs.Extensions {
			check(fmt.Sprintf("%d.%s", i, strings.TrimPrefix(fmt.Sprintf("%T", e), "*tls.")), reflect.ValueOf(e))
		}
		rest := *chs
		rest.Extensions = nil
		check("hello", reflect.ValueOf(rest))
	}
	rest := *spec
	rest.ClientHelloSpec = nil
	check("quic", reflect.ValueOf(rest))
	if len(hit) == 0 {
		return "-"
	}
	return strings.Join(hit, ",")
}

var _ = tls.VersionTLS13
