//go:build verif

package gate

import (
	"bytes"
	"context"
	"crypto/rand"
	"errors"
	"fmt"
	"io"
	"net"
	"os"
	"sync"
	"sync/atomic"
	"time"

	quic "github.com/refraction-networking/uquic"
	"github.com/refraction-networking/uquic/internal/protocol"
	"github.com/refraction-networking/uquic/internal/verifharness/vh"
	"github.com/refraction-networking/uquic/qlogwriter"
	"github.com/refraction-networking/uquic/testutils/simnet"
	tls "github.com/refraction-networking/utls"
)

// what the server application read, per accepted connection
type srvStream struct {
	conn int
	data []byte
}

// runZeroRTT: session resumption with 0-RTT. Dial 1 (clean network) obtains a session ticket; the server
// then keeps or changes its configuration (zrtt=accept | reject); dial 2 is a DialEarly under the scripted
// faults that writes one stream of application data before the handshake completes. The run line reports
// what the client API said and what the server application read on the second connection.
func (sc *scenario) runZeroRTT() (out *outcome) {
	out = &outcome{cids: "-", ccids: "-", vers: "-", clag: -1, acc: "-", echo: "-", redial: "-", calpn: "-", salpn: "-"}
	start := time.Now()
	savedRand := rand.Reader
	rand.Reader = &detRand{r: vh.NewRand(sc.seed ^ 0x5eed)}
	defer func() { rand.Reader = savedRand }()
	protocol.VerifSeedGrease(sc.seed)
	sc.nw = newGnet(oneWay, nil)
	sc.rec = &recorder{}
	sc.seen = map[int]map[string]bool{}
	sc.buffered = map[int][]partSum{}
	sc.c2sTaken = map[int]bool{}
	sc.sentPend = map[int][]string{}
	sc.done = make(chan struct{})
	sc.resetCh = make(chan struct{})
	sim := &simnet.Simnet{Router: sc.nw}
	cpc := sim.NewEndpoint(clientAddr, simnet.NodeBiDiLinkSettings{})
	spc := sim.NewEndpoint(serverAddr, simnet.NodeBiDiLinkSettings{}) // the latency is applied by the delivery queue
	if err := sim.Start(); err != nil {
		out.dial = "E:setup"
		return
	}
	sc.cpc, sc.spc = cpc, spc // sc.str stays nil: the server is not observed in the resumption scenarios
	var rejectNow atomic.Bool
	sbase := &quic.Config{Allow0RTT: true}
	sconf := sbase.Clone()
	sconf.GetConfigForClient = func(*quic.ClientInfo) (*quic.Config, error) {
		c := sbase.Clone()
		if rejectNow.Load() {
			switch sc.spec.zrtt {
			case "reject":
				c.Allow0RTT = false
			case "reject-params":
				c.MaxIncomingStreams = 7 // fewer than remembered by the client: the server must refuse 0-RTT
			}
		}
		return c, nil
	}
	str := &quic.Transport{Conn: spc}
	if sc.spec.retry {
		// every dial is answered with a Retry first: dial 2's early data is in flight when it arrives and has to be
		// sent again (once) with the token
		str.VerifySourceAddress = func(net.Addr) bool { return true }
	}
	ln, err := str.ListenEarly(serverTLS(sc.spec.chain), sconf)
	if err != nil {
		out.dial = "E:setup"
		return
	}
	sc.ctr = &quic.Transport{Conn: cpc}
	cconf := &quic.Config{Tracer: func(context.Context, bool, quic.ConnectionID) qlogwriter.Trace { return qtrace{sc.rec} }}
	ctls := clientTLS(start)
	ctls.ClientSessionCache = tls.NewLRUClientSessionCache(4)
	// client kind: the plain client, or a spec-driven one (UTransport with the Chrome parrot). The presets carry no
	// pre_shared_key extension, so a parrot never resumes on its own; the scenario appends one (uTLS fills it from the
	// session cache; it has to be the last extension), optionally preceded by an empty early_data extension - what a
	// spec author who wants resumption / 0-RTT writes.
	var utr, utrEarly *quic.UTransport
	if sc.spec.client == "chrome" {
		mkSpec := func(earlyData bool) *quic.QUICSpec {
			spec, err := quic.QUICID2Spec(quic.QUICChrome_115_IPv4)
			if err != nil {
				return nil
			}
			switch {
			case sc.spec.psk == "psked" && earlyData:
				// (an early_data extension is only legal next to a pre_shared_key: the spec of the resuming dial)
				spec.ClientHelloSpec.Extensions = append(spec.ClientHelloSpec.Extensions, &tls.GenericExtension{Id: 42}, &tls.UtlsPreSharedKeyExtension{})
			case sc.spec.psk == "psk" || sc.spec.psk == "strict" || sc.spec.psk == "psked":
				spec.ClientHelloSpec.Extensions = append(spec.ClientHelloSpec.Extensions, &tls.UtlsPreSharedKeyExtension{})
			}
			return &spec
		}
		s1, s2 := mkSpec(false), mkSpec(true)
		if s1 == nil || s2 == nil {
			out.dial = "E:setup"
			return
		}
		utr = &quic.UTransport{Transport: sc.ctr, QUICSpec: s1}
		utrEarly = &quic.UTransport{Transport: sc.ctr, QUICSpec: s2}
		spec := *s2
		// without a session (dial 1) the extension has nothing to carry: uTLS leaves it out when told so, and otherwise
		// refuses to build the ClientHello (psk=strict)
		ctls.OmitEmptyPsk = sc.spec.psk != "strict"
		if os.Getenv("GATE_DEBUG") != "" {
			uc := tls.UClient(nil, ctls.Clone(), tls.HelloCustom)
			err := uc.ApplyPreset(spec.ClientHelloSpec)
			fmt.Fprintf(os.Stderr, "debug: ApplyPreset: %v\n", err)
			err = uc.BuildHandshakeState()
			fmt.Fprintf(os.Stderr, "debug: BuildHandshakeState: %v\n", err)
		}
	}
	dialWith := func(ctx context.Context, early bool) (*quic.Conn, error) {
		switch {
		case utr != nil && early:
			return utrEarly.DialEarly(ctx, serverAddr, ctls.Clone(), cconf)
		case utr != nil:
			return utr.Dial(ctx, serverAddr, ctls.Clone(), cconf)
		case early:
			return sc.ctr.DialEarly(ctx, serverAddr, ctls.Clone(), cconf)
		}
		return sc.ctr.Dial(ctx, serverAddr, ctls.Clone(), cconf)
	}

	var mu sync.Mutex
	var streams []srvStream
	var srvConns []*quic.Conn
	accDone := make(chan struct{})
	go func() {
		defer close(accDone)
		for {
			c, err := ln.Accept(context.Background())
			if err != nil {
				return
			}
			mu.Lock()
			idx := len(srvConns)
			srvConns = append(srvConns, c)
			mu.Unlock()
			go func() {
				for {
					s, err := c.AcceptStream(context.Background())
					if err != nil {
						return
					}
					go func() {
						b, _ := io.ReadAll(s)
						mu.Lock()
						streams = append(streams, srvStream{conn: idx, data: b})
						mu.Unlock()
					}()
				}
			}()
		}
	}()
	sc.nw.onC2S = sc.onClientDatagram
	stopped := make(chan struct{})
	go sc.deliverLoop(stopped)
	clientStuck := false // a Dial that never returned holds a connection whose run loop never ends: Transport.Close would wait for it
	cleanup := func() {
		ln.Close()
		if !clientStuck {
			sc.ctr.Close()
		}
		str.Close()
		cpc.Close()
		spc.Close()
		close(sc.done)
		<-stopped
		sim.Close()
		<-accDone
		for _, d := range sc.trace {
			d.line = d.render()
		}
	}
	waitStreams := func(conn, n int, d time.Duration) {
		for end := time.Now().Add(d); time.Now().Before(end); time.Sleep(50 * time.Millisecond) {
			mu.Lock()
			k := 0
			for _, s := range streams {
				if s.conn == conn {
					k++
				}
			}
			mu.Unlock()
			if k >= n {
				return
			}
		}
	}

	// ---- dial 1: full handshake, obtain a session ticket
	// (bounded like every dial: the handshake timeout, and it must at least return once its context is cancelled)
	type dialRes struct {
		c   *quic.Conn
		err error
	}
	out.bound = 2*protocol.DefaultHandshakeIdleTimeout + time.Second
	ctx1, cancel1 := context.WithCancel(context.Background())
	ch1 := make(chan dialRes, 1)
	t1 := time.Now()
	go func() {
		c, err := dialWith(ctx1, false)
		ch1 <- dialRes{c, err}
	}()
	var r1 dialRes
	tm1 := time.NewTimer(out.bound)
	select {
	case r1 = <-ch1:
	case <-tm1.C:
		out.hang = true
		cancel1()
		tm1b := time.NewTimer(5 * time.Second)
		select {
		case r1 = <-ch1:
		case <-tm1b.C:
			// Dial does not even return after its context was cancelled: abandoned (its goroutine stays behind)
			out.leaked, clientStuck = true, true
			r1.err = errors.New("dial never returned")
		}
		tm1b.Stop()
	}
	tm1.Stop()
	cancel1()
	c1, err := r1.c, r1.err
	if err != nil {
		out.dial, out.t = "E:first:"+errClass(err), time.Since(t1)
		out.ztxt = "first=1"
		// psk=strict: uTLS refuses to build the ClientHello and its UQUICConn.Start never returns; a client that bounds
		// that wait still leaves the goroutine calling Start behind (nothing can release it): tolerated at bubble exit
		out.startLeak = sc.spec.psk == "strict" && !clientStuck
		time.Sleep(time.Microsecond)
		if !clientStuck {
			for i := 0; i < 40 && (liveCount(sc.ctr) > 0 || liveCount(str) > 0); i++ {
				time.Sleep(500 * time.Millisecond)
			}
			out.cleft, out.sleft = liveCount(sc.ctr), liveCount(str)
		}
		cleanup()
		return
	}
	if s, err := c1.OpenStreamSync(context.Background()); err == nil {
		s.Write([]byte("first"))
		s.Close()
	}
	waitStreams(0, 1, 3*time.Second)
	time.Sleep(300 * time.Millisecond) // the NewSessionTicket arrives
	c1.CloseWithError(0, "")
	time.Sleep(time.Second)

	// ---- dial 2: DialEarly under faults
	rejectNow.Store(sc.spec.zrtt != "accept")
	sc.nw.mu.Lock()
	sc.nw.count = [2]int{}
	for _, f := range sc.faults {
		sc.nw.faults[[2]int{f.dir, f.idx}] = f
	}
	sc.nw.mu.Unlock()
	sc.mu.Lock()
	sc.tracing = true
	sc.mu.Unlock()
	sc.resetCh <- struct{}{} // the delivery goroutine forgets dial 1 (it owns hsDone, nGenuine, genuine)
	// size class of the early data: a few packets; more than the initial congestion window (part of it is still
	// queued in the stream / framer, and Write still blocked, when the server's answer arrives); more than the
	// remembered stream flow-control window
	psize := 2400
	switch sc.spec.zsize {
	case "cwnd":
		psize = 60000 + int(sc.seed%60000)
	case "window":
		psize = 600000 + int(sc.seed%200000)
	}
	payload := append([]byte("0RTT-PAYLOAD:"), vh.NewRand(sc.seed).Bytes(psize)...)
	resend := append([]byte("RESENT-AFTER-REJECT:"), vh.NewRand(sc.seed+1).Bytes(600)...)
	hsTimeout := 2 * protocol.DefaultHandshakeIdleTimeout
	out.bound = hsTimeout + time.Second
	ctx2, cancel2 := context.WithCancel(context.Background())
	defer cancel2()
	ch := make(chan dialRes, 1)
	t0 := time.Now()
	go func() {
		c, err := dialWith(ctx2, true)
		ch <- dialRes{c, err}
	}()
	var r dialRes
	tm := time.NewTimer(out.bound)
	select {
	case r = <-ch:
	case <-tm.C:
		out.hang = true
		cancel2()
		r = <-ch
	}
	tm.Stop()
	out.dial, out.t = errClass(r.err), time.Since(t0)
	z := &zres{write: "-", after: "-", next: "-"}
	if r.err == nil {
		c2 := r.c
		select {
		case <-c2.HandshakeComplete():
		default:
			z.early = true
		}
		s, err := c2.OpenStream()
		var sB *quic.Stream // opened during the 0-RTT phase too, kept open, nothing written yet
		if err == nil {
			sB, _ = c2.OpenStream()
			_, werr := s.Write(payload) // blocks while the early data exceeds what congestion / flow control admit
			s.Close()
			z.write = errClass0(werr)
		} else {
			z.write = errClass0(err)
		}
		tm := time.NewTimer(out.bound)
		select {
		case <-c2.HandshakeComplete():
			z.hs = "complete"
		case <-c2.Context().Done():
			z.hs = errClass(context.Cause(c2.Context()))
		case <-tm.C:
			z.hs = "hang"
			out.hang = true
		}
		tm.Stop()
		cs := c2.ConnectionState()
		out.cv, out.calpn, out.c0 = uint32(cs.Version), cs.TLS.NegotiatedProtocol, cs.Used0RTT
		z.resumed = cs.TLS.DidResume
		z.left0, z.leftBytes = -1, -1
		if z.hs == "complete" {
			// what loss recovery still tracks of the 0-RTT flight right after the handshake
			time.Sleep(time.Microsecond)
			z.left0, z.leftBytes = c2.VerifZeroRTTLedger()
		}
		if z.hs == "complete" && z.early && !cs.Used0RTT {
			// rejected: the API says so, and only the application can resend
			if sB != nil {
				_, werr := sB.Write([]byte("x"))
				z.after = errClass0(werr)
			}
			if _, err := c2.OpenStream(); err != nil {
				z.after += "/" + errClass0(err)
			} else {
				z.after += "/nil"
			}
			nctx, ncancel := context.WithTimeout(context.Background(), 5*time.Second)
			nc, err := c2.NextConnection(nctx)
			ncancel()
			z.next = errClass(err)
			if err == nil {
				if s2, err := nc.OpenStreamSync(context.Background()); err == nil {
					s2.Write(resend)
					s2.Close()
				} else {
					z.next = errClass0(err)
				}
			}
		}
		if z.hs == "complete" {
			waitStreams(1, 1, 5*time.Second)
			time.Sleep(2 * time.Second) // anything delivered twice would show up by now
			mu.Lock()
			out.acc = "none"
			for i := 1; i < len(srvConns); i++ {
				select {
				case <-srvConns[i].HandshakeComplete():
					ss := srvConns[i].ConnectionState()
					out.sv, out.salpn, out.s0 = uint32(ss.Version), ss.TLS.NegotiatedProtocol, ss.Used0RTT
					out.acc = "ok"
				default:
				}
			}
			mu.Unlock()
		}
		if sB != nil {
			sB.CancelWrite(0)
		}
		c2.CloseWithError(0, "")
	}
	mu.Lock()
	if os.Getenv("GATE_DEBUG") != "" {
		for i, c := range srvConns {
			fmt.Fprintf(os.Stderr, "debug: server conn %d: cause=%v\n", i, context.Cause(c.Context()))
		}
	}
	z.conns = len(srvConns)
	// per server connection: how often did the application read the 0-RTT payload / the resent data / anything else.
	// (The same 0-RTT flight reaching TWO server connections - e.g. after a forged Retry - is replay across
	// connections, RFC 9001 section 9.2, which the transport does not prevent; reported as `replayed`.)
	perConn := map[int]*[3]int{}
	for _, s := range streams {
		if s.conn == 0 {
			continue
		}
		c := perConn[s.conn]
		if c == nil {
			c = &[3]int{}
			perConn[s.conn] = c
		}
		switch {
		case bytes.Equal(s.data, payload):
			c[0]++
		case bytes.Equal(s.data, resend):
			c[1]++
		default:
			c[2]++
		}
	}
	for _, c := range perConn {
		z.nPayload = max(z.nPayload, c[0])
		z.nResend = max(z.nResend, c[1])
		z.nOther = max(z.nOther, c[2])
		if c[0] > 0 {
			z.replayed++
		}
	}
	mu.Unlock()
	out.ztxt = z.txt()
	time.Sleep(time.Microsecond) // let the delivery in progress finish its record
	sc.mu.Lock()
	sc.tracing = false
	sc.mu.Unlock()
	for i := 0; i < 40 && (liveCount(sc.ctr) > 0 || liveCount(str) > 0); i++ {
		time.Sleep(500 * time.Millisecond)
	}
	time.Sleep(time.Microsecond)
	out.cleft, out.sleft = liveCount(sc.ctr), liveCount(str)
	time.Sleep(2 * time.Second)
	cleanup()
	return
}

type zres struct {
	early     bool
	resumed   bool
	write     string
	hs        string
	after     string
	next      string
	conns     int
	nPayload  int
	nResend   int
	nOther    int
	replayed  int // number of server connections whose application read the 0-RTT payload
	left0     int
	leftBytes int64
}

func (z *zres) txt() string {
	hs := z.hs
	if hs == "" {
		hs = "-"
	}
	return fmt.Sprintf("early=%s resumed=%s write=%s hs=%s after=%s next=%s sconns=%d npayload=%d nresend=%d nother=%d pconns=%d left0=%d leftbytes=%d",
		boolTxt(z.early), boolTxt(z.resumed), z.write, hs, z.after, z.next, z.conns, z.nPayload, z.nResend, z.nOther, z.replayed, z.left0, z.leftBytes)
}

func errClass0(err error) string {
	if err == nil {
		return "nil"
	}
	if errors.Is(err, quic.Err0RTTRejected) {
		return "E:0rtt_rejected"
	}
	return errClass(err)
}
