//go:build verif

package gate

import (
	"bytes"
	"context"
	"crypto/ecdsa"
	"crypto/elliptic"
	"crypto/rand"
	"crypto/x509"
	"crypto/x509/pkix"
	"errors"
	"fmt"
	"hash/crc32"
	"io"
	"math/big"
	"net"
	"os"
	"sort"
	"strings"
	"sync"
	"sync/atomic"
	"testing"
	"testing/synctest"
	"time"

	quic "github.com/refraction-networking/uquic"
	"github.com/refraction-networking/uquic/internal/monotime"
	"github.com/refraction-networking/uquic/internal/protocol"
	"github.com/refraction-networking/uquic/internal/testdata"
	"github.com/refraction-networking/uquic/internal/verifharness/e2e"
	"github.com/refraction-networking/uquic/internal/verifharness/vh"
	"github.com/refraction-networking/uquic/internal/wire"
	"github.com/refraction-networking/uquic/qlog"
	"github.com/refraction-networking/uquic/qlogwriter"
	"github.com/refraction-networking/uquic/testutils/simnet"
	tls "github.com/refraction-networking/utls"
)

var (
	clientAddr = e2e.ClientAddr
	serverAddr = e2e.ServerAddr
)

const oneWay = 10 * time.Millisecond

type scnSpec struct {
	client string // plain | chrome | uplain | firefox
	retry  bool
	vn     string // none | ok | fail
	chain  string // short | long
	zrtt   string // none | accept | reject | reject-params (session resumption with 0-RTT data)
	net    string // ok | blackhole | hsblock: paths on which the handshake cannot complete (timeouts)
	cancel string // none | t<ms> | vn | retry | first: when the application cancels the dial context
	zsize  string // resumption scenarios: size class of the early data - small (default) | cwnd | window
	psk    string // resumption scenarios with a spec-driven (parrot) client: what the scenario appends to the preset ClientHelloSpec - none | psk (pre_shared_key) | psked (early_data + pre_shared_key)
}

type faultSpec struct {
	dir  int
	idx  int
	kind string
	arg  int
}

type injSpec struct {
	id    int
	after int // number of genuine server datagrams handed to the client before this one (0: right after the client's first datagram)
	delay int // additional milliseconds
	kind  string
	p     map[string]string
	seed  uint64
}

// one datagram handed to the client
type delivery struct {
	appClosed bool   // the application cancelled the dial while this datagram was being processed
	srv       bool   // handed to the server (else to the client)
	src       string // g<idx>:<fate> | i<id>
	at        time.Duration
	data      []byte
	conn      int // -1: not routed to a live connection
	pre       quic.VerifGateState
	post      quic.VerifGateState
	parts     []partSum
	extra     []string
	closed    string
	line      string
	sentB     []string // level lists of the datagrams this connection sent since its previous line, before this delivery
	sentA     []string // ... and in reaction to this delivery
	ikPost    string   // what GetInitialOpener answers after the delivery
}

type partSum struct {
	kind   string
	parse  string
	ver    uint32
	scid   []byte
	dcid   []byte
	dcidOK bool
	tag    string
	keys   string
	hdrOK  bool
	opens  bool
	dup    bool
	fatal  bool
	vnOK   bool
	vnVers []uint32
	react  string
	raw    []byte
}

type scenario struct {
	t      *testing.T
	mu     sync.Mutex // guards conns, srvSCIDs, retrySCIDs, tracing (shared by the test and the delivery goroutine)
	seed   uint64
	spec   scnSpec
	faults []faultSpec
	injs   []injSpec

	nw         *gnet
	rec        *recorder
	ctr        *quic.Transport
	cpc        *simnet.SimConn
	srec       *recorder       // the server connections' qlog events
	str        *quic.Transport // server side (nil: the server is not observed)
	spc        *simnet.SimConn
	sconns     []*quic.Conn
	genuineS   [][]byte // genuine c2s datagrams handed to the server so far
	nGenuineS  int
	shsDone    bool
	conns      []*quic.Conn
	seen       map[int]map[string]bool // per conn: parts already processed
	buffered   map[int][]partSum       // per conn: parts queued as undecryptable, in order
	genuine    [][]byte                // genuine s2c datagrams handed over so far (as sent by the server)
	nGenuine   int
	trace      []*delivery
	tracing    bool
	hsDone     bool
	done       chan struct{}
	resetCh    chan struct{}
	auth       []string
	cancelled  atomic.Bool             // the scenario cancelled the dial context
	outp       **outcome               // where the outcome is published as soon as it is known (survives a deadlocked bubble)
	cands      []protocol.ConnectionID // destination connection IDs the client has used
	srvSCIDs   [][]byte                // source connection IDs seen in genuine server long-header packets
	retrySCIDs [][]byte
	c2sBase    int              // index of the first client datagram of the dial that is traced (owned by the delivery goroutine)
	c2sTaken   map[int]bool     // client datagrams on the wire that were already attributed to a connection
	sentPend   map[int][]string // per client connection: level lists of the datagrams it sent since its last traced line
	hsFired    atomic.Bool      // the "client's first Handshake packet is on the wire" trigger went off
}

func boolTxt(b bool) string {
	if b {
		return "1"
	}
	return "0"
}

func stateTxt(s quic.VerifGateState, full bool) string {
	p := "c"
	if !s.Client {
		p = "s"
	}
	rs := "-"
	if s.HasRetrySrcConnID {
		rs = cidTxt(s.RetrySrcConnID)
	}
	dc := cidTxt(s.DestConnID)
	if s.HandshakeComplete {
		dc = "*" // the active ID moves on its own once the handshake is complete (C16)
	}
	core := fmt.Sprintf("v=%d rfp=%s rr=%s vn=%s hd=%s od=%s rs=%s dc=%s", s.Version, boolTxt(s.ReceivedFirstPacket), boolTxt(s.ReceivedRetry),
		boolTxt(s.VersionNegotiated), cidTxt(s.HandshakeDestConnID), cidTxt(s.OrigDestConnID), rs, dc)
	if !full {
		return core
	}
	sup := make([]string, len(s.Supported))
	for i, v := range s.Supported {
		sup[i] = fmt.Sprint(v)
	}
	return fmt.Sprintf("p=%s sup=%s uq=%d hc=%s %s", p, strings.Join(sup, ","), s.Undecryptable, boolTxt(s.HandshakeComplete), core)
}

func (sc *scenario) connIndex(c *quic.Conn) int {
	if c == nil {
		return -1
	}
	sc.mu.Lock()
	defer sc.mu.Unlock()
	for i, x := range sc.conns {
		if x == c {
			return i
		}
	}
	sc.conns = append(sc.conns, c)
	return len(sc.conns) - 1
}

func (sc *scenario) noteConns() {
	for _, c := range sc.ctr.VerifLiveConns() {
		sc.connIndex(c)
	}
}

// server connections are numbered from srvBase in the per-connection maps
const srvBase = 1000

func (sc *scenario) sconnIndex(c *quic.Conn) int {
	if c == nil {
		return -1
	}
	sc.mu.Lock()
	defer sc.mu.Unlock()
	for i, x := range sc.sconns {
		if x == c {
			return srvBase + i
		}
	}
	sc.sconns = append(sc.sconns, c)
	return srvBase + len(sc.sconns) - 1
}

func (sc *scenario) isTracing() bool {
	sc.mu.Lock()
	defer sc.mu.Unlock()
	return sc.tracing
}

// knowledge of an on-path observer, from the datagrams the client and the server sent so far
func (sc *scenario) know() knowledge {
	var k knowledge
	sc.nw.mu.Lock()
	c2s := sc.nw.c2s
	sc.nw.mu.Unlock()
	for i := len(c2s) - 1; i >= 0 && !k.ok; i-- {
		if len(c2s[i]) > 0 && wire.IsLongHeaderPacket(c2s[i][0]) {
			if hdr, _, _, err := wire.ParsePacket(c2s[i]); err == nil {
				k.version, k.cSCID, k.cDCID, k.ok = hdr.Version, hdr.SrcConnectionID, hdr.DestConnectionID, true
			}
		}
	}
	sc.mu.Lock()
	if n := len(sc.srvSCIDs); n > 0 {
		k.sSCID, k.hasS = protocol.ParseConnectionID(sc.srvSCIDs[n-1]), true
	}
	// the Initial keys in use: derived from the destination ID of the latest client Initial that is not addressed to
	// an ID the server chose for itself (after a Retry: the Retry's source ID)
	for i := sc.c2sBase; i < len(c2s) && k.ok; i++ {
		if len(c2s[i]) == 0 || !wire.IsLongHeaderPacket(c2s[i][0]) {
			continue
		}
		hdr, _, _, err := wire.ParsePacket(c2s[i])
		if err != nil || hdr.Type != protocol.PacketTypeInitial || hdr.Version != k.version {
			continue
		}
		d := hdr.DestConnectionID.Bytes()
		if contains(sc.srvSCIDs, d) && !contains(sc.retrySCIDs, d) {
			continue
		}
		k.iniCID, k.hasIni = hdr.DestConnectionID, true
	}
	sc.mu.Unlock()
	return k
}

func (sc *scenario) noteClientCIDs() {
	sc.nw.mu.Lock()
	c2s := sc.nw.c2s
	sc.nw.mu.Unlock()
	for _, d := range c2s {
		if len(d) > 0 && wire.IsLongHeaderPacket(d[0]) {
			if hdr, _, _, err := wire.ParsePacket(d); err == nil {
				found := false
				for _, c := range sc.cands {
					if c == hdr.DestConnectionID {
						found = true
					}
				}
				if !found {
					sc.cands = append(sc.cands, hdr.DestConnectionID)
				}
			}
		}
	}
}

// levelsOf lists the encryption levels of the packets of a datagram the client sent, in order:
// i(nitial) h(andshake) z(ero-RTT) s(hort header); and the source connection ID / version of its first packet.
func levelsOf(data []byte) (levels string, scid []byte, ver uint32, long bool) {
	for len(data) > 0 {
		if data[0] == 0 {
			break // padding of the datagram behind the last packet (parrot clients)
		}
		if !wire.IsLongHeaderPacket(data[0]) {
			levels += "s"
			break
		}
		hdr, _, rest, err := wire.ParsePacket(data)
		if err != nil {
			break
		}
		if !long {
			scid, ver, long = hdr.SrcConnectionID.Bytes(), uint32(hdr.Version), true
		}
		switch hdr.Type {
		case protocol.PacketTypeInitial:
			levels += "i"
		case protocol.PacketTypeHandshake:
			levels += "h"
		case protocol.PacketType0RTT:
			levels += "z"
		default:
			levels += "x"
		}
		data = rest
	}
	return
}

// onClientDatagram is called (from the client's send goroutine) for every datagram the client puts on the wire.
func (sc *scenario) onClientDatagram(idx int, data []byte) {
	if idx == 0 {
		sc.nw.schedule(&pend{trig: true}, 0)
	}
	if lv, _, _, _ := levelsOf(data); strings.Contains(lv, "h") && sc.hsFired.CompareAndSwap(false, true) {
		sc.nw.schedule(&pend{trig: true, when: "hs"}, 0)
	}
}

// collectSent: the long-header datagrams the connection (known on the wire by its source connection ID and
// version) has sent and that were not reported yet, as level lists.
func (sc *scenario) collectSent(scid []byte, ver uint32) []string {
	sc.nw.mu.Lock()
	defer sc.nw.mu.Unlock()
	var out []string
	for i := sc.c2sBase; i < len(sc.nw.c2s); i++ {
		if sc.c2sTaken[i] {
			continue
		}
		lv, s, v, long := levelsOf(sc.nw.c2s[i])
		if !long {
			sc.c2sTaken[i] = true // short header only: says nothing about the handshake keys
			continue
		}
		if v == ver && bytes.Equal(s, scid) {
			sc.c2sTaken[i] = true
			out = append(out, lv)
		}
	}
	return out
}

// splitParts parses a datagram the way handleOnePacket walks it.
func splitParts(data []byte, srcConnIDLen int) []partSum {
	var out []partSum
	if wire.IsVersionNegotiationPacket(data) {
		p := partSum{kind: "vn", parse: "ok", dcidOK: true, raw: data, hdrOK: true}
		_, _, vs, err := wire.ParseVersionNegotiationPacket(data)
		p.vnOK = err == nil
		for _, v := range vs {
			p.vnVers = append(p.vnVers, uint32(v))
		}
		if d, err := wire.ParseConnectionID(data, srcConnIDLen); err == nil {
			p.dcid = d.Bytes()
		}
		return []partSum{p}
	}
	for len(data) > 0 {
		p := partSum{parse: "ok", dcidOK: true, vnOK: true, hdrOK: true}
		if d, err := wire.ParseConnectionID(data, srcConnIDLen); err == nil {
			p.dcid = d.Bytes()
		} else {
			p.dcidOK = false
		}
		if !wire.IsLongHeaderPacket(data[0]) {
			p.kind = "short"
			p.raw = data
			// unpackShortHeader: long enough to take the header-protection sample, and ParseShortHeader wants the fixed bit
			p.hdrOK = len(data) >= 1+srcConnIDLen+4+16 && data[0]&0x40 != 0
			out = append(out, p)
			break
		}
		hdr, pdata, rest, err := wire.ParsePacket(data)
		if err != nil {
			p.kind = "long"
			p.raw = data
			p.parse = "hdrerr"
			if err == wire.ErrUnsupportedVersion {
				p.parse = "unsupported"
				p.ver = uint32(hdr.Version)
			}
			out = append(out, p)
			break
		}
		switch hdr.Type {
		case protocol.PacketTypeInitial:
			p.kind = "initial"
		case protocol.PacketTypeHandshake:
			p.kind = "handshake"
		case protocol.PacketType0RTT:
			p.kind = "0rtt"
		case protocol.PacketTypeRetry:
			p.kind = "retry"
		}
		p.ver = uint32(hdr.Version)
		p.scid = hdr.SrcConnectionID.Bytes()
		p.dcid = hdr.DestConnectionID.Bytes()
		p.raw = pdata
		p.hdrOK = protocol.ByteCount(len(pdata)) >= hdr.ParsedLen()+4+16
		out = append(out, p)
		data = rest
	}
	return out
}

func (p *partSum) txt() string {
	if p.kind == "vn" {
		vs := make([]string, len(p.vnVers))
		for i, v := range p.vnVers {
			vs[i] = fmt.Sprint(v)
		}
		return fmt.Sprintf("k=vn vnok=%s vs=%s", boolTxt(p.vnOK), strings.Join(vs, ","))
	}
	s := fmt.Sprintf("k=%s pr=%s v=%d s=%s d=%s dok=%s", p.kind, p.parse, p.ver, cidTxt(p.scid), cidTxt(p.dcid), boolTxt(p.dcidOK))
	if p.kind == "retry" {
		return s + " tag=" + p.tag
	}
	return s + fmt.Sprintf(" keys=%s hdr=%s opens=%s dup=%s fatal=%s", p.keys, boolTxt(p.hdrOK), boolTxt(p.opens), boolTxt(p.dup), boolTxt(p.fatal))
}

func closedTxt(e qlog.ConnectionClosed) string {
	switch {
	case e.Trigger != "":
		return string(e.Trigger)
	case e.ConnectionError != nil:
		return fmt.Sprintf("transport:%#x", uint64(*e.ConnectionError))
	case e.ApplicationError != nil:
		return fmt.Sprintf("application:%#x", uint64(*e.ApplicationError))
	}
	return "other"
}

func evTxt(ev qlogwriter.Event) string {
	switch e := ev.(type) {
	case qlog.PacketReceived:
		return "recv:" + string(e.Header.PacketType)
	case qlog.PacketDropped:
		return "drop:" + string(e.Header.PacketType) + ":" + string(e.Trigger)
	case qlog.PacketBuffered:
		return "buf:" + string(e.Header.PacketType)
	}
	return ev.Name()
}

// deliver hands one datagram to the client, waits until the client is quiescent and records what happened.
func (sc *scenario) deliver(src string, data, orig []byte, intactAll bool) {
	sc.deliverTo(false, src, data, orig, intactAll)
}

// deliverTo hands one datagram to the client or to the server, waits until everything is quiescent and records
// what the receiving connection did with it.
func (sc *scenario) deliverTo(srv bool, src string, data, orig []byte, intactAll bool) {
	synctest.Wait() // whatever else woke up at this instant has run to completion: both endpoints are quiescent
	traced := sc.isTracing()
	sc.noteConns()
	sc.noteClientCIDs()
	tr, pc, rec, from, to := sc.ctr, sc.cpc, sc.rec, net.Addr(serverAddr), net.Addr(clientAddr)
	if srv {
		tr, pc, rec, from, to = sc.str, sc.spc, sc.srec, clientAddr, serverAddr
	}
	conn := tr.VerifRoute(data)
	d := &delivery{srv: srv, src: src, at: sc.nw.now(), data: data}
	if srv {
		d.conn = sc.sconnIndex(conn)
	} else {
		d.conn = sc.connIndex(conn)
	}
	srcLen := 0
	if conn != nil {
		d.pre = conn.VerifGateState()
		srcLen = d.pre.SrcConnIDLen
		if d.pre.Closed {
			d.conn = -1
		}
	}
	d.parts = splitParts(data, srcLen)
	// what this client connection has put on the wire since its last line (timer-driven sends included)
	var wireSCID []byte
	watchSent := !srv && conn != nil && !d.pre.Closed
	if watchSent {
		if c, err := wire.ParseConnectionID(data, srcLen); err == nil {
			wireSCID = c.Bytes()
		}
		sc.sentPend[d.conn] = append(sc.sentPend[d.conn], sc.collectSent(wireSCID, d.pre.Version)...)
	}
	// which parts are byte-identical to a part of the genuine datagram this one was made from?
	var origParts []partSum
	if orig != nil {
		origParts = splitParts(orig, srcLen)
	}
	off := 0
	for i := range d.parts {
		p := &d.parts[i]
		if intactAll {
			p.opens = true
		} else if orig != nil {
			o := 0
			for _, op := range origParts {
				if o == off && bytes.Equal(op.raw, p.raw) {
					p.opens = true
				}
				o += len(op.raw)
			}
		}
		off += len(p.raw)
		if p.kind == "retry" {
			p.tag = "-"
			if c, ok := retryTagFor(p.raw, protocol.Version(p.ver), sc.cands); ok {
				p.tag = cidTxt(c.Bytes())
			}
		}
	}
	type keyst struct{ ini, hs, one, zero string }
	var kpre, kpost keyst
	preOpen := make([]int, len(d.parts)) // -1 unknown, 0 no, 1 yes
	if conn != nil {
		kpre.ini, kpre.hs, kpre.one, kpre.zero = conn.VerifKeys()
		for i := range d.parts {
			preOpen[i] = -1
			p := &d.parts[i]
			if (p.kind == "initial" || p.kind == "handshake" || (srv && p.kind == "0rtt")) && p.parse == "ok" {
				if o, known := conn.VerifTryOpenLong(p.raw); known {
					preOpen[i] = 0
					if o {
						preOpen[i] = 1
					}
				}
			}
		}
	}
	rec.Lock()
	n0 := len(rec.Events)
	rec.Unlock()
	cancelledBefore := sc.cancelled.Load()
	pc.RecvPacket(simnet.Packet{From: from, To: to, Data: append([]byte(nil), data...)})
	synctest.Wait()
	rec.Lock()
	evs := append([]qlogwriter.Event(nil), rec.Events[n0:]...)
	rec.Unlock()
	var sentAfter []string
	if watchSent {
		sentAfter = sc.collectSent(wireSCID, d.pre.Version)
	}
	if conn != nil {
		d.post = conn.VerifGateState()
		kpost.ini, kpost.hs, kpost.one, kpost.zero = conn.VerifKeys()
		d.ikPost = kpost.ini
		for i := range d.parts {
			p := &d.parts[i]
			k := kpre
			if i > 0 {
				k = kpost
			}
			switch p.kind {
			case "initial":
				p.keys = kpre.ini
			case "handshake":
				p.keys = k.hs
			case "short":
				p.keys = k.one
			case "0rtt":
				p.keys = k.zero
			default:
				p.keys = "avail"
			}
			if p.kind == "initial" || p.kind == "handshake" || (srv && p.kind == "0rtt") {
				// the real packet protection decides `opens`: before the delivery when the keys were there, else after
				switch {
				case preOpen[i] >= 0:
					p.opens = preOpen[i] == 1
				case p.parse == "ok":
					o, known := conn.VerifTryOpenLong(p.raw)
					p.opens = known && o
				}
			}
		}
	}
	created := false
	if srv && conn == nil {
		// the datagram made the server create a connection: not traced (there was no state before it), but what
		// the new connection processed counts for the duplicate bookkeeping
		if c2 := tr.VerifRoute(data); c2 != nil {
			d.conn = sc.sconnIndex(c2)
			created = true
		}
	}
	// a close in this window that follows the application's own cancellation of the dial is not the datagram's doing
	d.appClosed = !srv && !cancelledBefore && sc.cancelled.Load()
	sc.attribute(d, evs)
	if created {
		d.conn = -1
	}
	sc.noteConns()
	if conn != nil && d.post.HandshakeComplete {
		if srv {
			sc.shsDone = true
		} else {
			sc.hsDone = true
		}
	}
	// only the handshake phase is traced: afterwards duplicate detection forgets old packet numbers (C07)
	// and the active connection ID moves (C16), which are not inputs of the gate model. Datagrams for which the
	// server has no connection yet (the first Initial, before the server created one) are not traced either.
	// Exception: a datagram made of long-header packets only is traced after completion too - Initial and Handshake
	// packets (forged ones included) must bounce off an endpoint that has discarded those keys.
	allLong := len(d.parts) > 0
	for i := range d.parts {
		if d.parts[i].kind == "short" {
			allLong = false
		}
	}
	skip := (conn != nil && d.pre.HandshakeComplete && !allLong) || (conn == nil && (srv || sc.hsDone))
	if os.Getenv("GATE_DEBUG") != "" {
		fmt.Fprintf(os.Stderr, "deliver %s conn=%d tracing=%v skip=%v hsDone=%v preHC=%v\n", src, d.conn, traced, skip, sc.hsDone, d.pre.HandshakeComplete)
	}
	if traced && !skip {
		if watchSent {
			d.sentB, d.sentA = sc.sentPend[d.conn], sentAfter
			sc.sentPend[d.conn] = nil
		}
		sc.trace = append(sc.trace, d)
	} else if watchSent {
		sc.sentPend[d.conn] = append(sc.sentPend[d.conn], sentAfter...)
	}
}

// attribute assigns the qlog events caused by the datagram to its parts.
func (sc *scenario) attribute(d *delivery, evs []qlogwriter.Event) {
	var id qlog.DatagramID
	longFirst := len(d.data) > 0 && wire.IsLongHeaderPacket(d.data[0])
	if longFirst {
		id = qlog.DatagramID(crc32.ChecksumIEEE(d.data))
	}
	isVN := len(d.parts) == 1 && d.parts[0].kind == "vn"
	seen := sc.seen[d.conn]
	if seen == nil {
		seen = map[string]bool{}
		sc.seen[d.conn] = seen
	}
	j := 0
	last := -1         // part whose event came last
	lastExtra := false // the latest packet event belonged to a queued packet of another datagram
	assign := func(react string) {
		lastExtra = false
		if j >= len(d.parts) {
			d.extra = append(d.extra, "surplus:"+react)
			return
		}
		p := &d.parts[j]
		p.dup = seen[string(p.raw)]
		p.react = react
		if react == "recv" {
			seen[string(p.raw)] = true
		}
		if react == "buf" {
			sc.buffered[d.conn] = append(sc.buffered[d.conn], *p)
		}
		last = j
		j++
	}
	// a queued packet that is processed later (once its keys arrived) shows up as an event of another datagram
	later := func(pt qlog.PacketType, received bool) {
		lastExtra = true
		kind := map[qlog.PacketType]string{qlog.PacketTypeInitial: "initial", qlog.PacketTypeHandshake: "handshake", qlog.PacketType1RTT: "short", qlog.PacketType0RTT: "0rtt"}[pt]
		q := sc.buffered[d.conn]
		for i := range q {
			if q[i].kind == kind {
				if received {
					seen[string(q[i].raw)] = true
				}
				sc.buffered[d.conn] = append(append([]partSum(nil), q[:i]...), q[i+1:]...)
				return
			}
		}
	}
	for _, ev := range evs {
		switch e := ev.(type) {
		case qlog.PacketReceived:
			switch {
			case e.Header.PacketType == qlog.PacketTypeRetry:
				assign("retry")
			case longFirst && !isVN && e.DatagramID == id, !longFirst && e.Header.PacketType == qlog.PacketType1RTT && e.DatagramID == 0:
				assign("recv")
			default:
				d.extra = append(d.extra, evTxt(ev))
				later(e.Header.PacketType, true)
			}
		case qlog.PacketDropped:
			switch {
			case e.Header.PacketType == qlog.PacketTypeRetry, e.Header.PacketType == qlog.PacketTypeVersionNegotiation:
				assign("drop:" + string(e.Trigger))
			case longFirst && !isVN && e.DatagramID == id, !longFirst && e.Header.PacketType == qlog.PacketType1RTT && e.DatagramID == 0:
				assign("drop:" + string(e.Trigger))
			default:
				d.extra = append(d.extra, evTxt(ev))
				if e.Header.PacketType != "" {
					later(e.Header.PacketType, false)
				}
			}
		case qlog.PacketBuffered:
			if (longFirst && e.DatagramID == id) || (!longFirst && e.Header.PacketType == qlog.PacketType1RTT && e.DatagramID == 0) {
				assign("buf")
			} else {
				d.extra = append(d.extra, evTxt(ev))
			}
		case qlog.VersionNegotiationReceived:
			assign("vn")
		case qlog.VersionInformation:
			if last >= 0 && d.parts[last].react == "vn" {
				d.parts[last].react = fmt.Sprintf("vn:recreate:%d", uint32(e.ChosenVersion))
			}
		case qlog.ConnectionClosed:
			if d.appClosed && e.ApplicationError != nil {
				d.extra = append(d.extra, "closed:cancelled")
				continue
			}
			if lastExtra {
				// closed while handling a packet that had been queued earlier: not this datagram's doing
				d.extra = append(d.extra, "closed:"+closedTxt(e))
				continue
			}
			d.closed = closedTxt(e)
			if last >= 0 && d.parts[last].react == "vn" && e.Trigger == qlog.ConnectionCloseTriggerVersionMismatch {
				d.parts[last].react = "vn:fail"
			} else if last >= 0 && d.parts[last].react == "recv" {
				d.parts[last].fatal = true
			}
		}
	}
	for ; j < len(d.parts); j++ {
		p := &d.parts[j]
		p.dup = seen[string(p.raw)]
		p.react = "-"
	}
}

func (d *delivery) render() string {
	var sb strings.Builder
	fmt.Fprintf(&sb, "src=%s t=%d", d.src, d.at.Nanoseconds())
	switch {
	case d.conn < 0:
		fmt.Fprintf(&sb, " conn=-")
	case d.srv:
		fmt.Fprintf(&sb, " conn=s%d ; pre %s phc=%s pcl=%s", d.conn-srvBase, stateTxt(d.pre, true), boolTxt(d.post.HandshakeComplete), boolTxt(d.post.Closed))
	default:
		fmt.Fprintf(&sb, " conn=%d ; pre %s phc=%s pcl=%s", d.conn, stateTxt(d.pre, true), boolTxt(d.post.HandshakeComplete), boolTxt(d.post.Closed))
	}
	for i := range d.parts {
		sb.WriteString(" ; part " + d.parts[i].txt())
	}
	if len(d.extra) > 0 {
		sb.WriteString(" ; extra " + strings.Join(d.extra, ","))
	}
	if d.conn >= 0 && !d.srv {
		lst := func(l []string) string {
			if len(l) == 0 {
				return "-"
			}
			return strings.Join(l, ",")
		}
		sb.WriteString(" ; sentb " + lst(d.sentB) + " ; senta " + lst(d.sentA))
	}
	sb.WriteString(" | ")
	if d.conn >= 0 {
		sb.WriteString("post " + stateTxt(d.post, false) + " ; ")
	}
	rs := make([]string, len(d.parts))
	for i := range d.parts {
		rs[i] = d.parts[i].react
	}
	cl := d.closed
	if cl == "" {
		cl = "-"
	}
	fmt.Fprintf(&sb, "react %s closed=%s", strings.Join(rs, " "), cl)
	if d.conn >= 0 {
		ik := d.ikPost
		if d.post.Closed {
			ik = "-" // the packets of a closing connection (CONNECTION_CLOSE) are not registered as sent; its keys do not matter
		}
		fmt.Fprintf(&sb, " ; keys ik=%s", ik)
	}
	return sb.String()
}

// craft builds the datagram of an injection from what an observer knows now. orig is the genuine
// datagram it was derived from (replay / corrupt), intact whether every part is a genuine packet.
func (sc *scenario) craft(in *injSpec) (data, orig []byte, intact bool) {
	k := sc.know()
	if !k.ok {
		return nil, nil, false
	}
	genuine := sc.genuine
	if in.p["to"] == "s" {
		// a packet for the server: addressed to the ID the client currently sends to, "from" the client's ID;
		// the Initial keys are those of the client's first Initial (after a Retry: of the Retry's source ID)
		ks := knowledge{version: k.version, cSCID: k.cDCID, cDCID: k.cDCID, sSCID: k.cSCID, hasS: true, ok: true, toSrv: true}
		sc.mu.Lock()
		if n := len(sc.conns); n > 0 {
			g := sc.conns[n-1].VerifGateState()
			if g.HasRetrySrcConnID {
				ks.cDCID = protocol.ParseConnectionID(g.RetrySrcConnID)
			} else {
				ks.cDCID = protocol.ParseConnectionID(g.OrigDestConnID)
			}
		}
		sc.mu.Unlock()
		k = ks
		genuine = sc.genuineS
	}
	r := vh.NewRand(in.seed)
	g := func(key, def string) string {
		if v, ok := in.p[key]; ok {
			return v
		}
		return def
	}
	pick := func() []byte {
		if len(genuine) == 0 {
			return nil
		}
		i := int(vh.Atoi64(g("src", "0")))
		if i < 0 || i >= len(genuine) {
			i = len(genuine) - 1
		}
		return genuine[i]
	}
	switch in.kind {
	case "retry":
		var token []byte
		if g("tok", "rand") == "stolen" {
			sc.nw.mu.Lock()
			for _, d := range sc.nw.s2c {
				if len(d) > 0 && wire.IsLongHeaderPacket(d[0]) && !wire.IsVersionNegotiationPacket(d) {
					if hdr, _, _, err := wire.ParsePacket(d); err == nil && hdr.Type == protocol.PacketTypeRetry {
						token = hdr.Token
					}
				}
			}
			sc.nw.mu.Unlock()
		}
		return craftRetry(k, r, g("tag", "valid"), g("scid", "new"), g("ver", "cur"), token), nil, false
	case "vn":
		return craftVN(k, r, g("list", "cur")), nil, false
	case "initial":
		keys := g("keys", "garbage")
		return craftLong(k, r, protocol.PacketTypeInitial, g("scid", "wrong"), keys, g("payload", "close"), g("ver", "cur")), nil, keys == "valid"
	case "handshake":
		return craftLong(k, r, protocol.PacketTypeHandshake, g("scid", "right"), "garbage", g("payload", "ping"), g("ver", "cur")), nil, false
	case "0rtt":
		return craftLong(k, r, protocol.PacketType0RTT, g("scid", "right"), "garbage", "ping", "cur"), nil, false
	case "unsupported":
		return craftUnsupported(k, r), nil, false
	case "short":
		return craftShort(k, r, 20+r.Intn(60)), nil, false
	case "tiny":
		return craftShort(k, r, r.Intn(12)), nil, false
	case "tinylong":
		typ := protocol.PacketTypeInitial
		if g("typ", "initial") == "handshake" {
			typ = protocol.PacketTypeHandshake
		}
		return craftTinyLong(k, r, typ), nil, false
	case "coalesce":
		// two forged long-header packets in one datagram; the second one addressed to the same or to another ID
		var first []byte
		switch g("first", "initial") {
		case "badver":
			first = craftLong(k, r, protocol.PacketTypeInitial, "right", "garbage", "ping", "other")
		case "handshake":
			first = craftLong(k, r, protocol.PacketTypeHandshake, "right", "garbage", "ping", "cur")
		default:
			first = craftLong(k, r, protocol.PacketTypeInitial, g("scid", "right"), g("keys", "garbage"), "ping", "cur")
		}
		k2 := k
		if g("second", "same") == "other" {
			k2.cSCID = randCID(r, 5+r.Intn(8))
		}
		second := craftLong(k2, r, protocol.PacketTypeHandshake, "right", "garbage", "ping", "cur")
		if g("tail", "long") == "short" {
			second = craftShort(k2, r, 30+r.Intn(30))
		}
		return append(first, second...), nil, false
	case "replay":
		o := pick()
		if o == nil {
			return nil, nil, false
		}
		return append([]byte(nil), o...), o, true
	case "corrupt":
		o := pick()
		if o == nil {
			return nil, nil, false
		}
		return mutate("flip", int(vh.Atoi64(g("bit", "100"))), o), o, false
	}
	return nil, nil, false
}

func (sc *scenario) inject(in *injSpec) {
	if in.kind == "flood" {
		// enough undecryptable packets to fill the queue of MaxUndecryptablePackets
		n := int(vh.Atoi64(in.p["n"]))
		what := in.p["what"]
		for i := 0; i < n; i++ {
			one := *in
			one.kind = what
			one.seed = in.seed + uint64(i)*7919
			data, _, _ := sc.craft(&one)
			if len(data) > 0 {
				sc.deliverTo(in.p["to"] == "s", fmt.Sprintf("i%d:flood", in.id), data, nil, false)
			}
		}
		return
	}
	data, orig, intact := sc.craft(in)
	if len(data) == 0 {
		return
	}
	sc.deliverTo(in.p["to"] == "s", fmt.Sprintf("i%d:%s", in.id, in.kind), data, orig, intact)
}

// fire runs the injections due after the `after`-th genuine datagram of the direction they attack
func (sc *scenario) fire(after int, srv bool) {
	for i := range sc.injs {
		in := &sc.injs[i]
		if in.after != after || (in.p["to"] == "s") != srv || in.p["when"] != "" {
			continue
		}
		if srv && sc.str == nil {
			continue
		}
		if in.delay > 0 {
			sc.nw.schedule(&pend{inj: in}, time.Duration(in.delay)*time.Millisecond)
		} else {
			sc.inject(in)
		}
	}
}

// fireWhen runs the injections anchored at an event of the handshake rather than at a datagram count
// (when=hs: the client's first Handshake packet is on the wire, i.e. the client has discarded its Initial keys).
func (sc *scenario) fireWhen(when string) {
	for i := range sc.injs {
		in := &sc.injs[i]
		if in.p["when"] != when {
			continue
		}
		if in.p["to"] == "s" && sc.str == nil {
			continue
		}
		if in.delay > 0 {
			sc.nw.schedule(&pend{inj: in}, time.Duration(in.delay)*time.Millisecond)
		} else {
			sc.inject(in)
		}
	}
}

func (sc *scenario) noteGenuine(orig []byte) {
	if len(orig) > 0 && wire.IsLongHeaderPacket(orig[0]) && !wire.IsVersionNegotiationPacket(orig) {
		if hdr, _, _, err := wire.ParsePacket(orig); err == nil {
			sc.mu.Lock()
			sc.srvSCIDs = append(sc.srvSCIDs, hdr.SrcConnectionID.Bytes())
			if hdr.Type == protocol.PacketTypeRetry {
				sc.retrySCIDs = append(sc.retrySCIDs, hdr.SrcConnectionID.Bytes())
			}
			sc.mu.Unlock()
		}
	}
}

// deliverLoop is the only goroutine that hands datagrams to the client.
func (sc *scenario) deliverLoop(stopped chan struct{}) {
	defer close(stopped)
	for {
		item, wait, any := sc.nw.next()
		if item != nil {
			switch {
			case item.trig:
				synctest.Wait()
				sc.noteConns()
				if sc.isTracing() {
					if item.when != "" {
						sc.fireWhen(item.when)
					} else {
						sc.fire(0, false)
					}
				}
			case item.inj != nil:
				if sc.isTracing() {
					sc.inject(item.inj)
				}
			case item.toSrv:
				if sc.str == nil {
					sc.spc.RecvPacket(simnet.Packet{From: clientAddr, To: serverAddr, Data: item.data})
					continue
				}
				sc.genuineS = append(sc.genuineS, item.orig)
				intact := item.fate == "ok" || item.fate == "dup" || item.fate == "delay"
				sc.deliverTo(true, fmt.Sprintf("g%d:%s", item.gidx, item.fate), item.data, item.orig, intact)
				sc.nGenuineS++
				if sc.isTracing() {
					sc.fire(sc.nGenuineS, true)
				}
			default:
				sc.noteGenuine(item.orig)
				if item.fate == "hsblock" {
					// on this path the part behind the Initial packets never reaches the client, not even as a replay
					sc.genuine = append(sc.genuine, item.data)
				} else {
					sc.genuine = append(sc.genuine, item.orig)
				}
				intact := item.fate == "ok" || item.fate == "dup" || item.fate == "delay"
				sc.deliver(fmt.Sprintf("g%d:%s", item.gidx, item.fate), item.data, item.orig, intact)
				sc.nGenuine++
				if sc.isTracing() {
					sc.fire(sc.nGenuine, false)
				}
			}
			continue
		}
		var tc <-chan time.Time
		var tm *time.Timer
		if any {
			tm = time.NewTimer(wait)
			tc = tm.C
		}
		select {
		case <-sc.done:
			if tm != nil {
				tm.Stop()
			}
			return
		case <-sc.resetCh:
			sc.hsDone, sc.nGenuine, sc.genuine = false, 0, nil
			sc.shsDone, sc.nGenuineS, sc.genuineS = false, 0, nil
			sc.nw.mu.Lock()
			sc.c2sBase = len(sc.nw.c2s)
			sc.nw.mu.Unlock()
			sc.sentPend = map[int][]string{}
			sc.hsFired.Store(false)
		case <-sc.nw.wake:
		case <-tc:
		}
		if tm != nil {
			tm.Stop()
		}
	}
}

// ---------------------------------------------------------------- certificates

var (
	chainOnce sync.Once
	longChain tls.Certificate
	longRoot  *x509.Certificate
)

// a leaf with four padded intermediates (about 9 kB): the server's first flight needs many datagrams
// and runs into the anti-amplification limit
func makeLongChain() {
	mk := func(cn string, parent *x509.Certificate, parentKey *ecdsa.PrivateKey, ca bool, serial int64) (*x509.Certificate, *ecdsa.PrivateKey, []byte) {
		key, err := ecdsa.GenerateKey(elliptic.P256(), rand.Reader)
		if err != nil {
			panic(err)
		}
		tmpl := &x509.Certificate{
			SerialNumber: big.NewInt(serial),
			Subject:      pkix.Name{CommonName: cn, Organization: []string{strings.Repeat("verif-padding-", 36)}},
			NotBefore:    time.Date(2020, 1, 1, 0, 0, 0, 0, time.UTC),
			NotAfter:     time.Date(2035, 1, 1, 0, 0, 0, 0, time.UTC),
			KeyUsage:     x509.KeyUsageDigitalSignature,
		}
		if ca {
			tmpl.IsCA = true
			tmpl.BasicConstraintsValid = true
			tmpl.KeyUsage |= x509.KeyUsageCertSign
		} else {
			tmpl.DNSNames = []string{"localhost"}
			tmpl.ExtKeyUsage = []x509.ExtKeyUsage{x509.ExtKeyUsageServerAuth}
		}
		p, pk := parent, parentKey
		if p == nil {
			p, pk = tmpl, key
		}
		der, err := x509.CreateCertificate(rand.Reader, tmpl, p, &key.PublicKey, pk)
		if err != nil {
			panic(err)
		}
		c, err := x509.ParseCertificate(der)
		if err != nil {
			panic(err)
		}
		return c, key, der
	}
	root, rootKey, _ := mk("verif root", nil, nil, true, 1)
	longRoot = root
	parent, parentKey := root, rootKey
	var ders [][]byte
	for i := 0; i < 4; i++ {
		c, k, der := mk(fmt.Sprintf("verif intermediate %d", i), parent, parentKey, true, int64(10+i))
		ders = append([][]byte{der}, ders...)
		parent, parentKey = c, k
	}
	_, leafKey, leafDER := mk("localhost", parent, parentKey, false, 100)
	longChain = tls.Certificate{Certificate: append([][]byte{leafDER}, ders...), PrivateKey: leafKey}
}

func serverTLS(chain string) *tls.Config {
	c := testdata.GetTLSConfig()
	if chain == "long" {
		chainOnce.Do(makeLongChain)
		c.Certificates = []tls.Certificate{longChain}
	}
	c.NextProtos = []string{e2e.ALPN, "h3"}
	return c
}

func clientTLS(start time.Time) *tls.Config {
	pool := x509.NewCertPool()
	testdata.AddRootCA(pool)
	chainOnce.Do(makeLongChain)
	pool.AddCert(longRoot)
	base := time.Date(2025, 1, 1, 0, 0, 0, 0, time.UTC)
	return &tls.Config{ServerName: "localhost", RootCAs: pool, NextProtos: []string{e2e.ALPN},
		Time: func() time.Time { return base.Add(time.Since(start)) }}
}

// ---------------------------------------------------------------- outcome

// detRand is a deterministic replacement for crypto/rand.Reader while a scenario runs (connection IDs,
// token keys, ... become functions of the case seed; TLS key shares stay random, their sizes are fixed).
type detRand struct {
	mu sync.Mutex
	r  *vh.Rand
}

func (d *detRand) Read(b []byte) (int, error) {
	d.mu.Lock()
	for i := range b {
		b[i] = byte(d.r.U64() >> 24)
	}
	d.mu.Unlock()
	return len(b), nil
}

type recorder struct {
	sync.Mutex
	Events []qlogwriter.Event
	hook   func(qlogwriter.Event) // called from the connection's run loop, after the event was recorded
}

func (r *recorder) RecordEvent(ev qlogwriter.Event) {
	r.Lock()
	r.Events = append(r.Events, ev)
	h := r.hook
	r.Unlock()
	if h != nil {
		h(ev)
	}
}
func (r *recorder) Close() error { return nil }

type qtrace struct{ r *recorder }

func (t qtrace) AddProducer() qlogwriter.Recorder { return t.r }
func (t qtrace) SupportsSchemas(string) bool      { return true }

func errClass(err error) string {
	if err == nil {
		return "nil"
	}
	var (
		idle *quic.IdleTimeoutError
		hs   *quic.HandshakeTimeoutError
		vn   *quic.VersionNegotiationError
		sr   *quic.StatelessResetError
		te   *quic.TransportError
		ae   *quic.ApplicationError
	)
	switch {
	case errors.As(err, &idle):
		return "E:idle_timeout"
	case errors.As(err, &hs):
		return "E:handshake_timeout"
	case errors.As(err, &vn):
		return "E:version_negotiation"
	case errors.As(err, &sr):
		return "E:stateless_reset"
	case errors.As(err, &te):
		who := "local"
		if te.Remote {
			who = "remote"
		}
		return fmt.Sprintf("E:transport:%#x:%s", uint64(te.ErrorCode), who)
	case errors.As(err, &ae):
		return fmt.Sprintf("E:application:%#x", uint64(ae.ErrorCode))
	case errors.Is(err, context.Canceled), errors.Is(err, context.DeadlineExceeded):
		return "E:ctx"
	}
	return "E:other:" + strings.ReplaceAll(fmt.Sprintf("%T", err), " ", "_")
}

type outcome struct {
	dial     string
	hang     bool
	t        time.Duration
	bound    time.Duration
	attempts int
	cv, sv   uint32
	calpn    string
	salpn    string
	c0, s0   bool
	cids     string
	ccids    string
	vers     string
	clag     int64 // virtual ns between the cancellation of the dial context by the scenario and Dial returning (-1: not cancelled)
	leaked   bool  // a Dial call never returned: its goroutine is left behind
	startLeak bool // the dial failed because the TLS stack never started (psk=strict): the goroutine stuck in it is left behind
	acc      string
	echo     string
	cleft    int
	sleft    int
	redial   string
	taint    string   // parts of the caller's spec that hold a connection ID of one of the case's connections
	specs    []string // deep snapshots of the caller's QUICSpec value: before the dial, after it, after the second dial
	deadline string
	ztxt     string
	monoNow  int64
}

func (o *outcome) txt() string {
	z := ""
	if o.ztxt != "" {
		z = " " + o.ztxt
	}
	if len(o.specs) > 0 {
		z += " taint=" + o.taint + " specs=" + strings.Join(o.specs, "|")
	}
	return z2(fmt.Sprintf("dial=%s hang=%s t=%d bound=%d att=%d vers=%s cv=%d sv=%d calpn=%s salpn=%s c0=%s s0=%s cids=%s ccids=%s acc=%s echo=%s cleft=%d sleft=%d redial=%s clag=%d leaked=%s",
		o.dial, boolTxt(o.hang), o.t.Nanoseconds(), o.bound.Nanoseconds(), o.attempts, o.vers, o.cv, o.sv, o.calpn, o.salpn, boolTxt(o.c0), boolTxt(o.s0), o.cids, o.ccids, o.acc, o.echo, o.cleft, o.sleft, o.redial, o.clag, boolTxt(o.leaked)), z)
}

func z2(a, b string) string { return a + b }

func contains(list [][]byte, b []byte) bool {
	for _, x := range list {
		if bytes.Equal(x, b) {
			return true
		}
	}
	return false
}

func liveCount(t *quic.Transport) int {
	n := 0
	for _, c := range t.VerifLiveConns() {
		if !c.VerifGateState().Closed {
			n++
		}
	}
	return n
}

// run executes the scenario inside a synctest bubble.
func (sc *scenario) run() (out *outcome) {
	out = &outcome{cids: "-", ccids: "-", vers: "-", clag: -1, acc: "-", echo: "-", redial: "-", calpn: "-", salpn: "-"}
	start := time.Now()
	savedRand := rand.Reader
	rand.Reader = &detRand{r: vh.NewRand(sc.seed ^ 0x5eed)}
	defer func() { rand.Reader = savedRand }()
	protocol.VerifSeedGrease(sc.seed)
	sc.nw = newGnet(oneWay, sc.faults)
	sc.nw.mode = sc.spec.net
	sc.rec = &recorder{}
	sc.seen = map[int]map[string]bool{}
	sc.buffered = map[int][]partSum{}
	sc.c2sTaken = map[int]bool{}
	sc.sentPend = map[int][]string{}
	sc.done = make(chan struct{})
	sc.resetCh = make(chan struct{})
	sc.tracing = true
	sim := &simnet.Simnet{Router: sc.nw}
	cpc := sim.NewEndpoint(clientAddr, simnet.NodeBiDiLinkSettings{})
	spc := sim.NewEndpoint(serverAddr, simnet.NodeBiDiLinkSettings{}) // the latency is applied by the delivery queue
	if err := sim.Start(); err != nil {
		out.dial = "E:setup"
		return
	}
	sc.cpc, sc.spc = cpc, spc
	sc.srec = &recorder{}
	v1, v2 := quic.Version1, quic.Version2
	sconf := &quic.Config{Tracer: func(context.Context, bool, quic.ConnectionID) qlogwriter.Trace { return qtrace{sc.srec} }}
	cconf := &quic.Config{Tracer: func(context.Context, bool, quic.ConnectionID) qlogwriter.Trace { return qtrace{sc.rec} }}
	switch sc.spec.vn {
	case "ok":
		sconf.Versions = []quic.Version{v1}
		cconf.Versions = []quic.Version{v2, v1}
	case "fail":
		sconf.Versions = []quic.Version{v1}
		cconf.Versions = []quic.Version{v2}
	}
	str := &quic.Transport{Conn: spc}
	sc.str = str
	if sc.spec.retry {
		str.VerifySourceAddress = func(net.Addr) bool { return true }
	}
	ln, err := str.Listen(serverTLS(sc.spec.chain), sconf)
	if err != nil {
		out.dial = "E:setup"
		return
	}
	sc.ctr = &quic.Transport{Conn: cpc}
	var utr *quic.UTransport
	if sc.spec.client == "chrome" || sc.spec.client == "firefox" {
		id := quic.QUICChrome_115_IPv4
		if sc.spec.client == "firefox" {
			id = quic.QUICFirefox_116
		}
		spec, err := quic.QUICID2Spec(id)
		if err != nil {
			out.dial = "E:setup"
			return
		}
		// ONE spec value for every connection of the case: the dial, the connection re-created after Version
		// Negotiation, the second dial on the same UTransport
		utr = &quic.UTransport{Transport: sc.ctr, QUICSpec: &spec}
		out.specs = append(out.specs, specSnapshot(utr.QUICSpec))
	} else if sc.spec.client == "uplain" {
		utr = &quic.UTransport{Transport: sc.ctr} // no QUICSpec: the plain connection, dialed through UTransport.doDial
	}
	ctls := clientTLS(start)
	dial := func(ctx context.Context) (*quic.Conn, error) {
		if utr != nil {
			return utr.Dial(ctx, serverAddr, ctls.Clone(), cconf)
		}
		return sc.ctr.Dial(ctx, serverAddr, ctls.Clone(), cconf)
	}
	sc.nw.onC2S = sc.onClientDatagram
	stopped := make(chan struct{})
	go sc.deliverLoop(stopped)

	accCh := make(chan *quic.Conn, 8)
	accDone := make(chan struct{})
	go func() {
		defer close(accDone)
		for {
			c, err := ln.Accept(context.Background())
			if err != nil {
				return
			}
			accCh <- c
			go func() { // echo server
				for {
					s, err := c.AcceptStream(context.Background())
					if err != nil {
						return
					}
					go func() {
						b, _ := io.ReadAll(s)
						s.Write(b)
						s.Close()
					}()
				}
			}()
		}
	}()

	type dialRes struct {
		c   *quic.Conn
		err error
	}
	// The application may cancel the dial context at any moment: at a generated virtual instant, or exactly when
	// the client logs a given event (i.e. from inside its run loop: right after a genuine Version Negotiation packet
	// was acted upon, a Retry was accepted, the first packet was processed). Dial must then return at once.
	var cancelledAt atomic.Int64 // virtual ns since start, 0: not cancelled by the scenario
	leaked := false
	attempt := func(bound time.Duration, withCancel bool) (dialRes, bool, time.Duration, int64) {
		ctx, cancel := context.WithCancel(context.Background())
		defer cancel()
		doCancel := func() {
			if cancelledAt.CompareAndSwap(0, int64(time.Since(start))+1) {
				sc.cancelled.Store(true)
				cancel()
			}
		}
		if withCancel {
			switch c := sc.spec.cancel; {
			case strings.HasPrefix(c, "t"):
				tmc := time.AfterFunc(time.Duration(vh.Atoi64(c[1:]))*time.Millisecond, doCancel)
				defer tmc.Stop()
			case c == "vn" || c == "retry" || c == "first":
				sc.rec.Lock()
				sc.rec.hook = func(ev qlogwriter.Event) {
					switch e := ev.(type) {
					case qlog.VersionInformation:
						if c == "vn" && len(e.ServerVersions) > 0 {
							doCancel()
						}
					case qlog.PacketReceived:
						if (c == "retry" && e.Header.PacketType == qlog.PacketTypeRetry) || (c == "first" && e.Header.PacketType == qlog.PacketTypeInitial) {
							doCancel()
						}
					}
				}
				sc.rec.Unlock()
				defer func() { sc.rec.Lock(); sc.rec.hook = nil; sc.rec.Unlock() }()
			}
		}
		ch := make(chan dialRes, 1)
		t0 := time.Now()
		go func() {
			c, err := dial(ctx)
			ch <- dialRes{c, err}
		}()
		tm := time.NewTimer(bound)
		defer tm.Stop()
		select {
		case r := <-ch:
			return r, false, time.Since(t0), int64(monotime.Now())
		case <-tm.C:
			cancel()
			// a Dial that does not even return after its context is cancelled is abandoned (reported as a hang)
			tm2 := time.NewTimer(5 * time.Second)
			defer tm2.Stop()
			select {
			case r := <-ch:
				return r, true, time.Since(t0), int64(monotime.Now())
			case <-tm2.C:
				leaked = true
				return dialRes{nil, errors.New("dial never returned")}, true, time.Since(t0), int64(monotime.Now())
			}
		}
	}
	hsTimeout := 2 * protocol.DefaultHandshakeIdleTimeout
	// a dial may be restarted once per version negotiation; every attempt is bounded by the handshake timeout
	out.bound = 2*hsTimeout + time.Second
	r, hang, took, monoNow := attempt(out.bound, true)
	returnedAt := int64(time.Since(start))
	out.dial, out.hang, out.t, out.monoNow = errClass(r.err), hang, took, monoNow
	out.clag = -1
	if ca := cancelledAt.Load(); ca != 0 {
		// how long after the cancellation did Dial return (virtual time)?
		out.clag = returnedAt - (ca - 1)
	}
	out.leaked = leaked
	time.Sleep(time.Microsecond) // settle (the delivery goroutine owns synctest.Wait)
	if utr != nil && utr.QUICSpec != nil && !leaked {
		out.specs = append(out.specs, specSnapshot(utr.QUICSpec))
	}
	sc.noteConns()
	sc.mu.Lock()
	conns := append([]*quic.Conn(nil), sc.conns...)
	sc.mu.Unlock()
	out.attempts = len(conns)
	{
		var vs []string
		for _, c := range conns {
			vs = append(vs, fmt.Sprint(c.VerifGateState().Version))
		}
		out.vers = strings.Join(vs, ",")
		if out.vers == "" {
			out.vers = "-"
		}
	}

	if r.err == nil {
		cs := r.c.ConnectionState()
		out.cv, out.calpn, out.c0 = uint32(cs.Version), cs.TLS.NegotiatedProtocol, cs.Used0RTT
		// the client's authenticated IDs against the wire: its peer ID is the source ID of a genuine server packet,
		// and it holds a retry_source_connection_id iff the server asked for a Retry - the one a genuine Retry carried
		{
			cg := r.c.VerifGateState()
			var srvSCIDs, retrySCIDs [][]byte
			sc.nw.mu.Lock()
			for _, d := range sc.nw.s2c {
				if len(d) > 0 && wire.IsLongHeaderPacket(d[0]) && !wire.IsVersionNegotiationPacket(d) {
					if hdr, _, _, err := wire.ParsePacket(d); err == nil {
						srvSCIDs = append(srvSCIDs, hdr.SrcConnectionID.Bytes())
						if hdr.Type == protocol.PacketTypeRetry {
							retrySCIDs = append(retrySCIDs, hdr.SrcConnectionID.Bytes())
						}
					}
				}
			}
			sc.nw.mu.Unlock()
			out.ccids = "ok"
			if !contains(srvSCIDs, cg.HandshakeDestConnID) || cg.HasRetrySrcConnID != sc.spec.retry ||
				(cg.HasRetrySrcConnID && !contains(retrySCIDs, cg.RetrySrcConnID)) {
				out.ccids = "bad"
			}
		}
		var srv *quic.Conn
		tm := time.NewTimer(6 * time.Second)
		select {
		case srv = <-accCh:
			out.acc = "ok"
		case <-tm.C:
			out.acc = "none"
		}
		tm.Stop()
		if srv != nil {
			ss := srv.ConnectionState()
			out.sv, out.salpn, out.s0 = uint32(ss.Version), ss.TLS.NegotiatedProtocol, ss.Used0RTT
			sg := srv.VerifGateState()
			// authenticated connection IDs, judged against what was on the wire: the server's peer ID is the source
			// ID of a client packet of that version
			var cliSCIDs [][]byte
			sc.nw.mu.Lock()
			for _, d := range sc.nw.c2s {
				if len(d) > 0 && wire.IsLongHeaderPacket(d[0]) {
					if hdr, _, _, err := wire.ParsePacket(d); err == nil && uint32(hdr.Version) == out.cv {
						cliSCIDs = append(cliSCIDs, hdr.SrcConnectionID.Bytes())
					}
				}
			}
			sc.nw.mu.Unlock()
			ok := contains(cliSCIDs, sg.HandshakeDestConnID)
			out.cids = "bad"
			if ok {
				out.cids = "ok"
			}
		}
		// the connection works, and still does after every closed-connection placeholder of an earlier
		// attempt has expired (3 PTO)
		time.Sleep(1500 * time.Millisecond)
		out.echo = "fail"
		ectx, ecancel := context.WithTimeout(context.Background(), 20*time.Second)
		if s, err := r.c.OpenStreamSync(ectx); err == nil {
			s.Write([]byte("verif-gate"))
			s.Close()
			s.SetReadDeadline(time.Now().Add(20 * time.Second))
			if b, err := io.ReadAll(s); err == nil && string(b) == "verif-gate" {
				out.echo = "ok"
			}
		}
		ecancel()
		r.c.CloseWithError(0, "")
	} else {
		// which timeout check fired, and when (for the Deadline model)
		if n := len(conns); n > 0 && (out.dial == "E:idle_timeout" || out.dial == "E:handshake_timeout") {
			g := conns[n-1].VerifGateState()
			out.deadline = fmt.Sprintf("creation=%d last=%d first=%d hsidle=%d now=%d ka=%d", g.CreationTime, g.LastPacketReceivedTime, g.FirstAckElicitingSent,
				g.HandshakeIdleTimeout, monoNow, g.KeepAlivePeriod)
		}
	}
	sc.mu.Lock()
	sc.tracing = false
	sc.mu.Unlock()
	// both sides release their state: no live connection remains on either transport
	for i := 0; i < 40 && (liveCount(sc.ctr) > 0 || liveCount(str) > 0); i++ {
		time.Sleep(500 * time.Millisecond)
	}
	time.Sleep(time.Microsecond) // settle (the delivery goroutine owns synctest.Wait)
	out.cleft, out.sleft = liveCount(sc.ctr), liveCount(str)
	// ... and the client transport can dial again (clean network)
	sc.nw.mu.Lock()
	sc.nw.clean = true
	sc.nw.mu.Unlock()
	for len(accCh) > 0 {
		<-accCh
	}
	time.Sleep(time.Second) // datagrams of the first dial that are still in flight (possibly mutated) arrive before the re-dial exists
	if sc.spec.vn != "fail" {
		r2, hang2, _, _ := attempt(out.bound, false)
		out.redial = errClass(r2.err)
		if hang2 {
			out.redial = "hang"
		}
		if r2.err == nil {
			r2.c.CloseWithError(0, "")
		}
		if utr != nil && utr.QUICSpec != nil && !leaked {
			time.Sleep(time.Microsecond)
			out.specs = append(out.specs, specSnapshot(utr.QUICSpec))
		}
	}
	if utr != nil && utr.QUICSpec != nil && !leaked {
		// per-connection state left behind in the caller's spec: a source connection ID one of the case's
		// connections used on the wire
		var scids [][]byte
		sc.nw.mu.Lock()
		for _, d := range sc.nw.c2s {
			if len(d) > 0 && wire.IsLongHeaderPacket(d[0]) {
				if hdr, _, _, err := wire.ParsePacket(d); err == nil && !contains(scids, hdr.SrcConnectionID.Bytes()) {
					scids = append(scids, hdr.SrcConnectionID.Bytes())
				}
			}
		}
		sc.nw.mu.Unlock()
		out.taint = specTaint(utr.QUICSpec, scids)
	}
	time.Sleep(2 * time.Second)
	ln.Close()
	sc.ctr.Close()
	str.Close()
	cpc.Close()
	spc.Close()
	close(sc.done)
	<-stopped
	sim.Close()
	<-accDone
	synctest.Wait()
	for _, d := range sc.trace {
		d.line = d.render()
	}
	sc.authLines(conns)
	return
}

// authLines: the real checkTransportParameters of the last client connection, asked about parameter sets
// that match its state or deviate from it in one field (correspondence for the Auth model).
func (sc *scenario) authLines(conns []*quic.Conn) {
	if len(conns) == 0 {
		return
	}
	c := conns[len(conns)-1]
	g := c.VerifGateState()
	r := vh.NewRand(sc.seed ^ 0xa07)
	other := func(b []byte) []byte {
		o := append([]byte(nil), b...)
		if len(o) == 0 {
			return []byte{1}
		}
		o[r.Intn(len(o))] ^= byte(1 + r.Intn(255))
		return o
	}
	type v struct {
		isc, odc, rsc []byte
		has           bool
	}
	base := v{g.HandshakeDestConnID, g.OrigDestConnID, g.RetrySrcConnID, g.HasRetrySrcConnID}
	vs := []v{base}
	w := base
	w.isc = other(base.isc)
	vs = append(vs, w)
	w = base
	w.odc = other(base.odc)
	vs = append(vs, w)
	w = base
	w.has = !base.has
	if w.has {
		w.rsc = r.Bytes(4 + r.Intn(8))
	}
	vs = append(vs, w)
	if base.has {
		w = base
		w.rsc = other(base.rsc)
		vs = append(vs, w)
	}
	w = base // a prefix of the right ID is not the right ID
	if len(base.isc) > 1 {
		w.isc = base.isc[:len(base.isc)-1]
		vs = append(vs, w)
	}
	for _, x := range vs {
		err := c.VerifCheckCIDParams(x.isc, x.odc, x.rsc, x.has)
		res := "ok"
		if err != nil {
			m := err.Error()
			switch {
			case strings.HasPrefix(m, "expected initial_source_connection_id"):
				res = "E:isc"
			case strings.HasPrefix(m, "expected original_destination_connection_id"):
				res = "E:odc"
			case strings.HasPrefix(m, "missing retry_source_connection_id"):
				res = "E:rsc_missing"
			case strings.HasPrefix(m, "expected retry_source_connection_id"):
				res = "E:rsc_wrong"
			case strings.HasPrefix(m, "received retry_source_connection_id"):
				res = "E:rsc_unexpected"
			default:
				res = "E:other"
			}
		}
		rsc := "-"
		if x.has {
			rsc = cidTxt(x.rsc)
		}
		sc.auth = append(sc.auth, fmt.Sprintf("%s ; isc=%s odc=%s rsc=%s | %s", stateTxt(g, true), cidTxt(x.isc), cidTxt(x.odc), rsc, res))
	}
}

func sortedKeys(m map[string]string) []string {
	ks := make([]string, 0, len(m))
	for k := range m {
		ks = append(ks, k)
	}
	sort.Strings(ks)
	return ks
}
