//go:build verif

package gate

import (
	"bytes"
	"encoding/binary"
	"encoding/hex"

	"github.com/refraction-networking/uquic/internal/handshake"
	"github.com/refraction-networking/uquic/internal/protocol"
	"github.com/refraction-networking/uquic/internal/verifharness/vh"
	"github.com/refraction-networking/uquic/internal/wire"
)

// what an on-path observer without keys knows when it crafts a packet
type knowledge struct {
	version protocol.Version
	cSCID   protocol.ConnectionID // client's source connection ID (= destination of packets to the client)
	cDCID   protocol.ConnectionID // destination connection ID the client currently uses
	sSCID   protocol.ConnectionID // source connection ID of the server's latest long-header packet
	hasS    bool
	iniCID  protocol.ConnectionID // the connection ID the client's Initial keys are derived from (its first destination ID; after a Retry the Retry's source ID)
	hasIni  bool
	ok      bool
	toSrv   bool // the packet is for the server: the roles of the IDs are swapped and it is sealed as a client would
}

func cidTxt(b []byte) string { return "x" + hex.EncodeToString(b) }

func otherVersion(v protocol.Version) protocol.Version {
	if v == protocol.Version1 {
		return protocol.Version2
	}
	return protocol.Version1
}

func randCID(r *vh.Rand, n int) protocol.ConnectionID {
	return protocol.ParseConnectionID(r.Bytes(n))
}

// craftRetry builds a Retry packet for the client. tag: valid (integrity tag computed over the client's
// current destination connection ID), bad (random tag), flip (valid tag with one bit flipped),
// odcid (valid tag but for another original destination connection ID).
func craftRetry(k knowledge, r *vh.Rand, tag, scid, ver string, token []byte) []byte {
	v := k.version
	if ver == "other" {
		v = otherVersion(v)
	}
	hdr := &wire.ExtendedHeader{}
	hdr.Type = protocol.PacketTypeRetry
	hdr.Version = v
	hdr.DestConnectionID = k.cSCID
	switch scid {
	case "same":
		hdr.SrcConnectionID = k.cDCID
	default:
		hdr.SrcConnectionID = randCID(r, 4+r.Intn(12))
	}
	hdr.Token = r.Bytes(8 + r.Intn(40))
	if token != nil {
		hdr.Token = token // a token stolen from a genuine Retry seen on the wire
	}
	buf, err := hdr.Append(nil, v)
	if err != nil {
		return nil
	}
	odcid := k.cDCID
	if tag == "odcid" {
		odcid = randCID(r, 8)
	}
	t := handshake.GetRetryIntegrityTag(buf, odcid, v)
	tg := append([]byte(nil), t[:]...)
	switch tag {
	case "bad":
		tg = r.Bytes(16)
	case "flip":
		bit := r.Intn(128)
		tg[bit/8] ^= 1 << (bit % 8)
	}
	return append(buf, tg...)
}

// craftVN builds a Version Negotiation packet. list: cur (contains the client's version), compat (does not,
// but contains the other supported version), incompat (only unknown versions), empty (malformed: no versions).
func craftVN(k knowledge, r *vh.Rand, list string) []byte {
	var vs []protocol.Version
	switch list {
	case "cur":
		vs = []protocol.Version{0x1a2a3a4a, k.version}
		if r.Bool() {
			vs = append(vs, otherVersion(k.version))
		}
	case "compat":
		vs = []protocol.Version{otherVersion(k.version), 0x5a6a7a8a}
	case "incompat":
		vs = []protocol.Version{0xff00001d, 0x5a6a7a8a}
	}
	b := []byte{0xc0 | byte(r.Intn(64)), 0, 0, 0, 0}
	b = append(b, byte(k.cSCID.Len()))
	b = append(b, k.cSCID.Bytes()...)
	b = append(b, byte(k.cDCID.Len()))
	b = append(b, k.cDCID.Bytes()...)
	for _, v := range vs {
		b = binary.BigEndian.AppendUint32(b, uint32(v))
	}
	if list == "odd" {
		b = append(b, 0, 0, 1)
	}
	return b
}

// craftLong builds an Initial or Handshake packet from the "server". keys: valid (Initial keys derived from
// the destination connection ID of the client's first Initial, after a Retry of its first Initial after the Retry -
// what an on-path observer can compute), garbage (keys
// derived from a random connection ID: the client cannot open it). payload: close | ping.
func craftLong(k knowledge, r *vh.Rand, typ protocol.PacketType, scid, keys, payload, ver string) []byte {
	v := k.version
	if ver == "other" {
		v = otherVersion(v)
	}
	keyCID := k.cDCID
	if k.hasIni {
		// the client answers the server's first packet by switching its destination ID; the Initial keys stay
		keyCID = k.iniCID
	}
	if keys != "valid" {
		keyCID = randCID(r, 8)
	}
	pers := protocol.PerspectiveServer
	if k.toSrv {
		pers = protocol.PerspectiveClient
	}
	sealer, _ := handshake.NewInitialAEAD(keyCID, pers, v)
	var pl []byte
	var err error
	if payload == "close" {
		ccf := &wire.ConnectionCloseFrame{ErrorCode: 0x2, ReasonPhrase: "forged"}
		pl, err = ccf.Append(nil, v)
		if err != nil {
			return nil
		}
	} else {
		pl = []byte{0x01}
	}
	for len(pl) < 24+r.Intn(40) {
		pl = append(pl, 0)
	}
	hdr := &wire.ExtendedHeader{}
	hdr.Type = typ
	hdr.Version = v
	hdr.DestConnectionID = k.cSCID
	switch scid {
	case "right":
		if k.hasS {
			hdr.SrcConnectionID = k.sSCID
		} else {
			hdr.SrcConnectionID = k.cDCID
		}
	default:
		hdr.SrcConnectionID = randCID(r, 4+r.Intn(12))
	}
	hdr.PacketNumberLen = protocol.PacketNumberLen4
	hdr.PacketNumber = protocol.PacketNumber(1000 + r.Intn(1000))
	hdr.Length = 4 + protocol.ByteCount(len(pl)) + protocol.ByteCount(sealer.Overhead())
	b, err := hdr.Append(nil, v)
	if err != nil {
		return nil
	}
	off := len(b)
	b = append(b, pl...)
	b = append(b, make([]byte, sealer.Overhead())...)
	_ = sealer.Seal(b[off:off], b[off:off+len(pl)], hdr.PacketNumber, b[:off])
	pnOff := off - 4
	sealer.EncryptHeader(b[pnOff+4:pnOff+4+16], &b[0], b[pnOff:off])
	return b
}

// craftUnsupported: a long-header packet of a version the implementation does not know.
func craftUnsupported(k knowledge, r *vh.Rand) []byte {
	b := []byte{0xc0 | byte(r.Intn(64))}
	b = binary.BigEndian.AppendUint32(b, 0xff00001d)
	b = append(b, byte(k.cSCID.Len()))
	b = append(b, k.cSCID.Bytes()...)
	b = append(b, 4, 1, 2, 3, 4)
	return append(b, r.Bytes(40)...)
}

// craftShort: a short-header packet with random content addressed to the client.
func craftShort(k knowledge, r *vh.Rand, n int) []byte {
	b := []byte{0x40 | byte(r.Intn(64))}
	b = append(b, k.cSCID.Bytes()...)
	return append(b, r.Bytes(n)...)
}

// retryTagFor finds the candidate original destination connection ID under which the Retry integrity
// tag of `part` verifies.
func retryTagFor(part []byte, v protocol.Version, cands []protocol.ConnectionID) (protocol.ConnectionID, bool) {
	if len(part) < 16 {
		return protocol.ConnectionID{}, false
	}
	for _, c := range cands {
		t := handshake.GetRetryIntegrityTag(part[:len(part)-16], c, v)
		if bytes.Equal(t[:], part[len(part)-16:]) {
			return c, true
		}
	}
	return protocol.ConnectionID{}, false
}

// craftTinyLong: an Initial or Handshake packet too short to remove header protection from.
func craftTinyLong(k knowledge, r *vh.Rand, typ protocol.PacketType) []byte {
	hdr := &wire.ExtendedHeader{}
	hdr.Type = typ
	hdr.Version = k.version
	hdr.DestConnectionID = k.cSCID
	hdr.SrcConnectionID = k.cDCID
	if k.hasS {
		hdr.SrcConnectionID = k.sSCID
	}
	n := 1 + r.Intn(12)
	hdr.PacketNumberLen = protocol.PacketNumberLen1
	hdr.Length = protocol.ByteCount(n)
	b, err := hdr.Append(nil, k.version)
	if err != nil {
		return nil
	}
	// Append wrote a 1-byte packet number that counts towards Length
	return append(b, r.Bytes(n-1)...)
}
