//go:build verif

//go:debug randseednop=0
//go:debug cryptocustomrand=0

// Package frames is the C09 correspondence driver: it calls the real uQUIC Initial frame
// builders, flight builders, validateInitialFlight and the (initial) crypto stream splitter /
// ClientHello scrambler in-process and prints what they emit. crypto/rand.Reader is replaced by a
// scripted reader for the duration of each builder call (DESIGN.md §3.3); math/rand's global
// Shuffle cannot be scripted, the oracle recovers the permutation from the output.
package frames

import (
	"context"
	"crypto/rand"
	"encoding/hex"
	"errors"
	"fmt"
	"io"
	"os"
	"regexp"
	"strconv"
	mrand "math/rand"
	"strings"
	"sync"
	"testing"
	"testing/cryptotest"

	quic "github.com/refraction-networking/uquic"
	"github.com/refraction-networking/uquic/internal/verifharness/vh"
	tls "github.com/refraction-networking/utls"
)

// ---------------------------------------------------------------- scripted crypto/rand

var errScript = errors.New("scripted rand exhausted")

type scriptReader struct {
	b    []byte
	zero bool // after the script: zeros for ever (true) or an error (false)
}

func (s *scriptReader) Read(p []byte) (int, error) {
	if len(s.b) == 0 {
		if s.zero {
			clear(p)
			return len(p), nil
		}
		return 0, errScript
	}
	n := copy(p, s.b)
	s.b = s.b[n:]
	if n < len(p) && s.zero {
		clear(p[n:])
		n = len(p)
	}
	return n, nil
}

func withDraws(spec string, f func()) {
	zero := true
	if strings.HasSuffix(spec, "e") {
		zero = false
	}
	spec = strings.TrimRight(spec, "ze")
	b := unhex(spec)
	old := rand.Reader
	rand.Reader = &scriptReader{b: b, zero: zero}
	defer func() { rand.Reader = old }()
	f()
}

// ---------------------------------------------------------------- text helpers

func hx(b []byte) string {
	if len(b) == 0 {
		return "-"
	}
	return hex.EncodeToString(b)
}

func unhex(s string) []byte {
	if s == "-" || s == "" {
		return nil
	}
	b, _ := hex.DecodeString(s)
	return b
}

func atoi(s string) int { return int(vh.Atoi64(s)) }

var dgRe = regexp.MustCompile(`Initial datagram (\d+)`)

func errName(err error) string {
	if err == nil {
		return "ok"
	}
	m := err.Error()
	name := "other"
	switch {
	case errors.Is(err, errScript) || errors.Is(err, io.ErrUnexpectedEOF) && strings.Contains(m, "scripted"):
		name = "rand"
	case strings.Contains(m, "MinPING must be less"):
		name = "minping"
	case strings.Contains(m, "MinCRYPTO must be at least 1"):
		name = "mincrypto1"
	case strings.Contains(m, "MinCRYPTO must be less"):
		name = "mincrypto"
	case strings.Contains(m, "MinPADDING must be at least 1"):
		name = "minpad1"
	case strings.Contains(m, "MinPADDING must be less"):
		name = "minpad"
	case strings.Contains(m, "must not be empty") && strings.Contains(m, "CryptoRanges"):
		name = "noranges"
	case strings.Contains(m, "must not be empty"):
		name = "empty"
	case strings.Contains(m, "CRYPTO range offset"):
		name = "offset"
	case strings.Contains(m, "CRYPTO range ["):
		name = "range"
	case strings.Contains(m, "cover no bytes"):
		name = "nobytes"
	case strings.Contains(m, "returned no Initial datagrams"):
		name = "nodatagrams"
	case strings.Contains(m, "more than fits in the packet"):
		name = "toolarge"
	case strings.Contains(m, "does not parse as QUIC frames"):
		name = "parse"
	case strings.Contains(m, "has a CRYPTO frame covering"):
		name = "beyond"
	case strings.Contains(m, "no Initial datagram carries CRYPTO byte"):
		name = "uncovered"
	case strings.Contains(m, "failed to reassemble"):
		name = "reassemble"
	case strings.Contains(m, "does not fit the packet buffer"):
		name = "nofit"
	}
	if name == "other" && errors.Is(err, io.ErrUnexpectedEOF) {
		name = "rand"
	}
	if sm := dgRe.FindStringSubmatch(m); sm != nil {
		return "E:" + name + "@" + sm[1]
	}
	return "E:" + name
}

func parseFrames(s string) quic.QUICFrames {
	qfs := quic.QUICFrames{}
	if s == "-" || s == "" {
		return qfs
	}
	for _, t := range strings.Split(s, ",") {
		switch {
		case t == "g":
			qfs = append(qfs, quic.QUICFramePing{})
		case strings.HasPrefix(t, "p"):
			qfs = append(qfs, quic.QUICFramePadding{Length: atoi(t[1:])})
		case strings.HasPrefix(t, "c"):
			ol := strings.SplitN(t[1:], ":", 2)
			if len(ol) == 2 {
				qfs = append(qfs, quic.QUICFrameCrypto{Offset: atoi(ol[0]), Length: atoi(ol[1])})
			}
		}
	}
	return qfs
}

func parseCfg(s string) quic.QUICRandomFrames {
	f := strings.Split(s, ",")
	for len(f) < 7 {
		f = append(f, "0")
	}
	return quic.QUICRandomFrames{
		MinPING: uint8(atoi(f[0])), MaxPING: uint8(atoi(f[1])),
		MinCRYPTO: uint8(atoi(f[2])), MaxCRYPTO: uint8(atoi(f[3])),
		MinPADDING: uint8(atoi(f[4])), MaxPADDING: uint8(atoi(f[5])),
		Length: uint16(atoi(f[6])),
	}
}

func parseInts(s string) []int {
	var out []int
	if s == "-" || s == "" {
		return out
	}
	for _, t := range strings.Split(s, ",") {
		out = append(out, atoi(t))
	}
	return out
}

func parseRanges(s string) []quic.QUICCryptoRange {
	var out []quic.QUICCryptoRange
	if s == "-" || s == "" {
		return out
	}
	for _, t := range strings.Split(s, ";") {
		ol := strings.SplitN(t, ":", 2)
		if len(ol) == 2 {
			out = append(out, quic.QUICCryptoRange{Offset: atoi(ol[0]), Length: atoi(ol[1])})
		}
	}
	return out
}

func hexList(ps [][]byte) string {
	if len(ps) == 0 {
		return "!"
	}
	s := make([]string, len(ps))
	for i, p := range ps {
		s[i] = hx(p)
	}
	return strings.Join(s, ",")
}

func unhexList(s string) [][]byte {
	if s == "!" || s == "" {
		return nil
	}
	var out [][]byte
	for _, t := range strings.Split(s, ",") {
		out = append(out, unhex(t))
	}
	return out
}

// ---------------------------------------------------------------- runner

type runner struct {
	src   []byte
	cs    *quic.VerifCryptoStream
	queue []string // scripted follow-up ops (scrambler scenarios)
	last  [][]byte // payloads of the last successful flight (generator state only)
	pf    *quic.VerifFlightPacker
	pfN   int // generator state: packets packed so far in the current planned-flight session
	pd    *quic.VerifFlightPacker // per-datagram session (the same real packer, per-datagram builder)
}

func newRunner(r *vh.Rand) vh.Runner { return &runner{} }

func (rn *runner) slice(lo, n int) []byte {
	if lo < 0 {
		lo = 0
	}
	if lo > len(rn.src) {
		lo = len(rn.src)
	}
	if n < 0 {
		n = 0
	}
	hi := lo + n
	if hi > len(rn.src) {
		hi = len(rn.src)
	}
	return append([]byte{}, rn.src[lo:hi]...)
}

func okOrErr(p []byte, err error) string {
	if err != nil {
		return errName(err)
	}
	return "ok " + hx(p)
}

func (rn *runner) csState() string {
	if rn.cs == nil {
		return ""
	}
	scr, end, cuts, wo, buffered := rn.cs.VerifState()
	b := 0
	if scr {
		b = 1
	}
	return fmt.Sprintf(" cuts=%d:%d,%d:%d end=%d scr=%d wo=%d buf=%d", cuts[0], cuts[1], cuts[2], cuts[3], end, b, wo, buffered)
}

func (rn *runner) AfterPanic(op string) string {
	if strings.HasPrefix(op, "cs ") {
		return "PANIC" + rn.csState()
	}
	if strings.HasPrefix(op, "pd ") {
		rn.pd = nil // the packer's state after a panic is not defined: the session ends
	}
	return "PANIC"
}

func (rn *runner) Exec(op string) string {
	f := strings.Fields(op)
	if len(f) == 0 {
		return "bad-op"
	}
	switch f[0] {
	case "src":
		if len(f) < 2 {
			return "bad-op"
		}
		rn.src = unhex(f[1])
		return "ok"
	case "qf": // qf <base> <lo> <n> <frames>
		if len(f) < 5 {
			return "bad-op"
		}
		base := uint64(vh.Atoi64(f[1]))
		p, err := parseFrames(f[4]).BuildForDatagram(0, rn.slice(atoi(f[2]), atoi(f[3])), base)
		return okOrErr(p, err)
	case "rf": // rf <base> <lo> <n> <cfg> <draws>
		if len(f) < 6 {
			return "bad-op"
		}
		cfg := parseCfg(f[4])
		var res string
		data := rn.slice(atoi(f[2]), atoi(f[3]))
		withDraws(f[5], func() {
			p, err := (&cfg).BuildForDatagram(0, data, uint64(vh.Atoi64(f[1])))
			res = okOrErr(p, err)
		})
		return res
	case "mf": // mf <idx> <base> <lo> <n> <cfg;cfg|-> <draws>
		if len(f) < 7 {
			return "bad-op"
		}
		m := &quic.QUICMultiDatagramFrames{}
		if f[5] != "-" {
			for _, c := range strings.Split(f[5], ";") {
				m.PerDatagram = append(m.PerDatagram, parseCfg(c))
			}
		}
		var res string
		data := rn.slice(atoi(f[3]), atoi(f[4]))
		withDraws(f[6], func() {
			p, err := m.BuildForDatagram(atoi(f[1]), data, uint64(vh.Atoi64(f[2])))
			res = okOrErr(p, err)
		})
		return res
	case "ff", "ff1": // ff <budgets> <dg/dg/..|!>
		if len(f) < 3 {
			return "bad-op"
		}
		fl := &quic.QUICFlightFrames{}
		if f[2] != "!" {
			for _, d := range strings.Split(f[2], "/") {
				fl.Datagrams = append(fl.Datagrams, parseFrames(d))
			}
		}
		if f[0] == "ff1" {
			p, err := fl.Build(append([]byte{}, rn.src...))
			return okOrErr(p, err)
		}
		return rn.flight(fl, parseInts(f[1]))
	case "rff", "rff1": // rff <budgets> <cfg|ranges/cfg|ranges|!> <draws>
		if len(f) < 4 {
			return "bad-op"
		}
		fl := &quic.QUICRandomFlightFrames{}
		if f[2] != "!" {
			for _, d := range strings.Split(f[2], "/") {
				cr := strings.SplitN(d, "|", 2)
				if len(cr) != 2 {
					return "bad-op"
				}
				fl.PerDatagram = append(fl.PerDatagram, quic.QUICRandomFlightDatagram{Frames: parseCfg(cr[0]), CryptoRanges: parseRanges(cr[1])})
			}
		}
		var res string
		withDraws(f[3], func() {
			if f[0] == "rff1" {
				p, err := fl.Build(append([]byte{}, rn.src...))
				res = okOrErr(p, err)
				return
			}
			res = rn.flight(fl, parseInts(f[1]))
		})
		return res
	case "val": // val <budgets> <cryptoLen> <hex,hex|!>
		if len(f) < 4 {
			return "bad-op"
		}
		return errName(quic.VerifValidateInitialFlight(unhexList(f[3]), parseInts(f[1]), atoi(f[2])))
	case "mip": // mip <kind> <idx> <planned> <builder-spec> <off:lo:n,off:lo:n|-> <draws>
		if len(f) < 7 {
			return "bad-op"
		}
		var fb quic.QUICFrameBuilder
		switch f[1] {
		case "nil":
		case "qf":
			fb = parseFrames(f[4])
		case "rf":
			c := parseCfg(f[4])
			fb = &c
		case "mf":
			m := &quic.QUICMultiDatagramFrames{}
			for _, c := range strings.Split(f[4], ";") {
				m.PerDatagram = append(m.PerDatagram, parseCfg(c))
			}
			fb = m
		default:
			return "bad-op"
		}
		var frames []quic.VerifCF
		if f[5] != "-" {
			for _, t := range strings.Split(f[5], ",") {
				x := strings.Split(t, ":")
				if len(x) != 3 {
					return "bad-op"
				}
				frames = append(frames, quic.VerifCF{Offset: vh.Atoi64(x[0]), Data: rn.slice(atoi(x[1]), atoi(x[2]))})
			}
		}
		var res string
		withDraws(f[6], func() {
			p, idx, err := quic.VerifMarshalInitial(fb, atoi(f[2]), f[3] == "1", frames)
			if err != nil {
				res = errName(err)
				return
			}
			res = fmt.Sprintf("ok %s idx=%d", hx(p), idx)
		})
		return res
	case "cs":
		if len(f) < 2 {
			return "bad-op"
		}
		return rn.execCS(f)
	case "pf":
		if len(f) < 2 {
			return "bad-op"
		}
		return rn.execPF(f)
	case "pd":
		if len(f) < 2 {
			return "bad-op"
		}
		return rn.execPD(f)
	}
	return "bad-op"
}

// the per-datagram Initial path + loss recovery on a real uPacketPacker:
//
//	pd new <nil|qf|rf|mf> <builder spec> <CryptoLengths|-> <maxSize>
//	pd pack <draws>    one PackCoalescedPacket
//	pd probe <draws>   one PackPTOProbePacket(Initial, addPingIfEmpty)
//	pd lose <k>        the k-th packed packet is declared lost (OnLost of every registered frame)
//	pd write <lo> <n>  more handshake data on the Initial stream
func (rn *runner) execPD(f []string) string {
	switch f[1] {
	case "new":
		if len(f) < 6 {
			return "bad-op"
		}
		var fb quic.QUICFrameBuilder
		switch f[2] {
		case "nil":
		case "qf":
			fb = parseFrames(f[3])
		case "rf":
			c := parseCfg(f[3])
			fb = &c
		case "mf":
			m := &quic.QUICMultiDatagramFrames{}
			for _, c := range strings.Split(f[3], ";") {
				m.PerDatagram = append(m.PerDatagram, parseCfg(c))
			}
			fb = m
		default:
			return "bad-op"
		}
		rn.pd = quic.VerifNewDatagramPacker(fb, append([]byte{}, rn.src...), parseInts(f[4]), atoi(f[5]))
		return fmt.Sprintf("ok hl=%d", rn.pd.HdrLen())
	}
	if rn.pd == nil {
		return "skip"
	}
	switch f[1] {
	case "pack", "probe": // probe: PackPTOProbePacket(Initial) instead of PackCoalescedPacket
		if len(f) < 3 {
			return "bad-op"
		}
		var res string
		withDraws(f[2], func() {
			call := rn.pd.Pack
			if f[1] == "probe" {
				call = rn.pd.Probe
			}
			payload, reg, packed, err := call()
			if err != nil {
				rn.pd = nil // PackCoalescedPacket failed: the connection is closed
				res = errName(err)
				return
			}
			if !packed {
				res = "none"
				return
			}
			rs := "-"
			if len(reg) > 0 {
				parts := make([]string, len(reg))
				for i, c := range reg {
					parts[i] = fmt.Sprintf("%d:%s", c.Offset, hx(c.Data))
				}
				rs = strings.Join(parts, ";")
			}
			res = "pkt p=" + hx(payload) + " reg=" + rs
		})
		return res
	case "lose":
		if len(f) < 3 {
			return "bad-op"
		}
		if rn.pd.Lose(atoi(f[2])) {
			return "ok"
		}
		return "skip"
	case "write":
		if len(f) < 4 {
			return "bad-op"
		}
		p := rn.slice(atoi(f[2]), atoi(f[3]))
		rn.pd.Write(p)
		return fmt.Sprintf("n=%d", len(p))
	}
	return "bad-op"
}

func stripZeros(b []byte) []byte {
	n := len(b)
	for n > 0 && b[n-1] == 0 {
		n--
	}
	return b[:n]
}

// planned flight + loss recovery on a real uPacketPacker:
//
//	pf new <ff|rff> <datagram specs> <packet sizes|-> <maxSize> <draws>
//	pf pack            one PackCoalescedPacket
//	pf lose <k>        the k-th packed packet is declared lost (OnLost of every registered frame)
func (rn *runner) execPF(f []string) string {
	switch f[1] {
	case "new":
		if len(f) < 7 {
			return "bad-op"
		}
		var fb quic.QUICFrameBuilder
		switch f[2] {
		case "ff":
			fl := &quic.QUICFlightFrames{}
			if f[3] != "!" {
				for _, d := range strings.Split(f[3], "/") {
					fl.Datagrams = append(fl.Datagrams, parseFrames(d))
				}
			}
			fb = fl
		case "rff":
			fl := &quic.QUICRandomFlightFrames{}
			if f[3] != "!" {
				for _, d := range strings.Split(f[3], "/") {
					cr := strings.SplitN(d, "|", 2)
					if len(cr) != 2 {
						return "bad-op"
					}
					fl.PerDatagram = append(fl.PerDatagram, quic.QUICRandomFlightDatagram{Frames: parseCfg(cr[0]), CryptoRanges: parseRanges(cr[1])})
				}
			}
			fb = fl
		default:
			return "bad-op"
		}
		rn.pf = quic.VerifNewFlightPacker(fb, append([]byte{}, rn.src...), parseInts(f[4]), atoi(f[5]))
		mfb, rb := rn.pf.Budgets(len(rn.src))
		ms := make([]string, len(mfb))
		for i, b := range mfb {
			ms[i] = strconv.Itoa(b)
		}
		env := fmt.Sprintf(" mfb=%s rb=%d", strings.Join(ms, ","), rb)
		var res string
		withDraws(f[6], func() {
			plan, err := rn.pf.Plan()
			if err != nil {
				res = errName(err) + env
				return
			}
			res = "ok" + env + " plan=" + hexList(plan)
		})
		return res
	}
	if rn.pf == nil {
		return "skip"
	}
	switch f[1] {
	case "pack":
		payload, reg, packed, err := rn.pf.Pack()
		if err != nil {
			return errName(err)
		}
		if !packed {
			return "none"
		}
		rs := "-"
		if len(reg) > 0 {
			parts := make([]string, len(reg))
			for i, c := range reg {
				parts[i] = fmt.Sprintf("%d:%s", c.Offset, hx(c.Data))
			}
			rs = strings.Join(parts, ";")
		}
		return "pkt p=" + hx(payload) + " reg=" + rs
	case "lose":
		if len(f) < 3 {
			return "bad-op"
		}
		if rn.pf.Lose(atoi(f[2])) {
			return "ok"
		}
		return "skip"
	}
	return "bad-op"
}

type flightBuilder interface {
	BuildFlight(cryptoData []byte, budgets []quic.InitialDatagramBudget) ([][]byte, error)
}

// flight mirrors planInitialFlight: BuildFlight, then validateInitialFlight before anything is released.
func (rn *runner) flight(fb flightBuilder, mfb []int) string {
	data := append([]byte{}, rn.src...)
	budgets := make([]quic.InitialDatagramBudget, len(mfb))
	for i, b := range mfb {
		budgets[i] = quic.InitialDatagramBudget{MaxFrameBytes: b}
	}
	payloads, err := fb.BuildFlight(data, budgets)
	if err != nil {
		return errName(err)
	}
	res := "built " + hexList(payloads) + " v="
	func() {
		defer func() {
			if e := recover(); e != nil {
				res += "PANIC"
			}
		}()
		verr := quic.VerifValidateInitialFlight(payloads, mfb, len(data))
		res += errName(verr)
		if verr == nil {
			rn.last = payloads
		}
	}()
	return res
}

func (rn *runner) execCS(f []string) string {
	switch f[1] {
	case "new":
		if len(f) < 3 {
			return "bad-op"
		}
		switch f[2] {
		case "c":
			rn.cs = quic.VerifNewInitialCryptoStream(true)
		case "s":
			rn.cs = quic.VerifNewInitialCryptoStream(false)
		default:
			rn.cs = quic.VerifNewCryptoStream()
		}
		return "ok" + rn.csState()
	}
	if rn.cs == nil {
		return "skip"
	}
	switch f[1] {
	case "write": // cs write <lo> <n>
		if len(f) < 4 {
			return "bad-op"
		}
		p := rn.slice(atoi(f[2]), atoi(f[3]))
		// environment input of the model: what findSNIAndECH says about the buffer Write will look at
		buf := append(rn.cs.VerifBuffered(), p...)
		sp, sl, ep, ferr := quic.VerifFindSNIAndECH(buf)
		fe := 0
		if errors.Is(ferr, io.ErrUnexpectedEOF) {
			fe = 1
		} else if ferr != nil {
			fe = 2
		}
		n, err := rn.cs.Write(p)
		e := 0
		if err != nil {
			e = 1
		}
		return fmt.Sprintf("n=%d err=%d sni=%d,%d,%d,%d", n, e, sp, sl, ep, fe) + rn.csState()
	case "pop": // cs pop <maxLen>
		if len(f) < 3 {
			return "bad-op"
		}
		off, data, ok := rn.cs.PopCryptoFrame(vh.Atoi64(f[2]))
		if !ok {
			return "-" + rn.csState()
		}
		return fmt.Sprintf("%d %s", off, hx(data)) + rn.csState()
	case "has":
		if rn.cs.HasData() {
			return "1" + rn.csState()
		}
		return "0" + rn.csState()
	case "popall":
		d, ok := rn.cs.PopAllCryptoData()
		if !ok {
			return "skip"
		}
		return "all " + hx(d) + rn.csState()
	case "noscr":
		rn.cs.DisableScrambling()
		return "ok" + rn.csState()
	}
	return "bad-op"
}

// ---------------------------------------------------------------- generators

var interestingLens = []int{0, 1, 2, 3, 4, 5, 7, 16, 61, 62, 63, 64, 65, 66, 67, 68, 100, 255, 256, 300, 1139, 1199, 1200, 1201, 1215, 1216, 1734, 2300, 2400, 3599, 3600}

func pickLen(r *vh.Rand) int {
	switch r.Pick(30, 30, 25, 12, 3) {
	case 0:
		return int(r.Range(0, 40))
	case 1:
		return interestingLens[r.Intn(len(interestingLens))]
	case 2:
		return int(r.Range(40, 700))
	case 3:
		return int(r.Range(700, 3600))
	default: // straddle the 2-byte/4-byte varint boundary of lengths and offsets
		return int(r.Range(16380, 16400))
	}
}

func u16(n int) []byte { return []byte{byte(n >> 8), byte(n)} }

type ext struct {
	typ  int
	data []byte
}

// synthCH builds a syntactically valid ClientHello with SNI / ECH extensions at random positions.
func synthCH(r *vh.Rand, target int) []byte {
	var exts []ext
	for i, k := 0, r.Intn(6); i < k; i++ {
		exts = append(exts, ext{[]int{10, 11, 13, 16, 43, 45, 51, 57, 0x4469, 27}[r.Intn(10)], r.Bytes(r.Intn(40))})
	}
	if r.Chance(82) {
		var list []byte
		if r.Chance(8) { // entries that are not host names, before or instead of the host name
			for i, k := 0, 1+r.Intn(2); i < k; i++ {
				nm := r.Bytes(r.Intn(12))
				list = append(list, byte(1+r.Intn(200)))
				list = append(list, u16(len(nm))...)
				list = append(list, nm...)
			}
		}
		if !r.Chance(4) {
			hl := int(r.Range(1, 40))
			if r.Chance(6) {
				hl = 0
			}
			if r.Chance(5) {
				hl = int(r.Range(200, 300))
			}
			host := make([]byte, hl)
			for i := range host {
				host[i] = byte('a' + r.Intn(26))
			}
			list = append(list, 0)
			list = append(list, u16(hl)...)
			list = append(list, host...)
		}
		exts = append(exts, ext{0, append(u16(len(list)), list...)})
		if r.Chance(2) {
			exts = append(exts, ext{0, append(u16(len(list)), list...)})
		}
	}
	if r.Chance(40) {
		exts = append(exts, ext{0xfe0d, r.Bytes([]int{0, 1, 5, 11, 12, 13, 40, 200, 281}[r.Intn(9)])})
	}
	for i := len(exts) - 1; i > 0; i-- {
		j := r.Intn(i + 1)
		exts[i], exts[j] = exts[j], exts[i]
	}
	sid := r.Bytes([]int{0, 32}[r.Intn(2)])
	ciphers := r.Bytes(2 * (1 + r.Intn(8)))
	fixed := 4 + 2 + 32 + 1 + len(sid) + 2 + len(ciphers) + 2 + 2
	extLen := 0
	for _, e := range exts {
		extLen += 4 + len(e.data)
	}
	if pad := target - fixed - extLen - 4; pad >= 0 {
		pos := r.Intn(len(exts) + 1)
		exts = append(exts[:pos], append([]ext{{21, make([]byte, pad)}}, exts[pos:]...)...)
		extLen += 4 + pad
	}
	var body []byte
	body = append(body, 3, 3)
	body = append(body, r.Bytes(32)...)
	body = append(body, byte(len(sid)))
	body = append(body, sid...)
	body = append(body, u16(len(ciphers))...)
	body = append(body, ciphers...)
	body = append(body, 1, 0)
	body = append(body, u16(extLen)...)
	for _, e := range exts {
		body = append(body, u16(e.typ)...)
		body = append(body, u16(len(e.data))...)
		body = append(body, e.data...)
	}
	ch := append([]byte{1, byte(len(body) >> 16), byte(len(body) >> 8), byte(len(body))}, body...)
	switch r.Pick(90, 4, 3, 3) {
	case 1:
		ch = ch[:len(ch)-r.Intn(min(len(ch), 8)+1)]
	case 2:
		ch[0] = byte(r.Intn(4))
	case 3:
		ch[3] ^= byte(1 + r.Intn(3))
	}
	return ch
}

var theT *testing.T

var (
	realOnce sync.Once
	realCHs  [][]byte
)

// realClientHellos: ClientHellos produced offline by uTLS for the built-in parrots and by the plain
// QUIC client (deterministic: see TestDriver).
func realClientHellos() [][]byte {
	realOnce.Do(func() {
		n := uint64(0)
		one := func(f func() []byte) {
			defer func() { _ = recover() }()
			// a fresh, fixed stream of both randomness sources for every ClientHello
			n++
			if theT != nil {
				cryptotest.SetGlobalRandom(theT, 0xC0900+n)
			}
			mrand.Seed(int64(0xC0900 + n))
			if b := f(); len(b) > 0 {
				realCHs = append(realCHs, b)
			}
		}
		for _, id := range []quic.QUICID{quic.QUICFirefox_116, quic.QUICChrome_115_IPv4, quic.QUICChrome_146_IPv4, quic.QUICChrome_146_IPv6} {
			for _, name := range []string{"example.com", "a-rather-long-name.sub.do.ma.in.quic-go.net"} {
				one(func() []byte {
					spec, err := quic.QUICID2Spec(id)
					if err != nil || spec.ClientHelloSpec == nil {
						return nil
					}
					c := tls.UQUICClient(&tls.QUICConfig{TLSConfig: &tls.Config{ServerName: name, MinVersion: tls.VersionTLS13, NextProtos: []string{"h3"}}}, tls.HelloCustom)
					if err := c.ApplyPreset(spec.ClientHelloSpec); err != nil {
						return nil
					}
					c.SetTransportParameters([]byte{1, 2, 3, 4})
					defer c.Close()
					if err := c.Start(context.Background()); err != nil {
						return nil
					}
					for i := 0; i < 8; i++ {
						ev := c.NextEvent()
						if ev.Kind == tls.QUICWriteData {
							return append([]byte{}, ev.Data...)
						}
						if ev.Kind == tls.QUICNoEvent {
							break
						}
					}
					return nil
				})
			}
		}
		for _, name := range []string{"", "quic-go.net"} {
			one(func() []byte {
				c := tls.QUICClient(&tls.QUICConfig{TLSConfig: &tls.Config{ServerName: name, MinVersion: tls.VersionTLS13, InsecureSkipVerify: name == "", NextProtos: []string{"h3"}}})
				c.SetTransportParameters([]byte{5, 6, 7})
				defer c.Close()
				if err := c.Start(context.Background()); err != nil {
					return nil
				}
				for i := 0; i < 8; i++ {
					ev := c.NextEvent()
					if ev.Kind == tls.QUICWriteData {
						return append([]byte{}, ev.Data...)
					}
				}
				return nil
			})
		}
	})
	return realCHs
}

func genSrc(r *vh.Rand) []byte {
	switch r.Pick(38, 14, 28, 20) {
	case 0:
		return synthCH(r, pickLen(r))
	case 1:
		if chs := realClientHellos(); len(chs) > 0 {
			return chs[r.Intn(len(chs))]
		}
		return synthCH(r, 1734)
	case 2:
		return r.Bytes(pickLen(r))
	default:
		return r.Bytes(r.Intn(24))
	}
}

var parrotCfgs = []string{"1,10,1,10,3,6,1215", "0,10,1,10,3,6,1215", "1,4,6,14,2,6,1215", "1,4,6,14,2,6,1195"}

func genCfg(r *vh.Rand) string {
	switch r.Pick(22, 40, 20, 18) {
	case 0:
		return parrotCfgs[r.Intn(len(parrotCfgs))]
	case 1: // mostly valid, small
		a := r.Intn(4)
		c := 1 + r.Intn(4)
		e := 1 + r.Intn(3)
		l := []int{0, 0, 5, 30, 100, 300, 1215, 1500, 4000}[r.Intn(9)]
		return fmt.Sprintf("%d,%d,%d,%d,%d,%d,%d", a, a+r.Intn(5), c, c+r.Intn(12), e, e+r.Intn(5), l)
	case 2: // edges: Min=Max, counts far larger than byte counts
		c := []int{1, 1, 2, 7, 200, 255}[r.Intn(6)]
		cm := []int{c, c, c + 1, 255}[r.Intn(4)]
		e := []int{1, 2, 9, 200, 255}[r.Intn(5)]
		em := []int{e, e + 1, 255}[r.Intn(3)]
		a := []int{0, 0, 3, 255}[r.Intn(4)]
		am := []int{a, a, a + 2, 255}[r.Intn(4)]
		l := []int{0, 1, 2, 3, 4, 8, 20, 64, 70, 1215, 16390, 65535}[r.Intn(12)]
		return fmt.Sprintf("%d,%d,%d,%d,%d,%d,%d", a, min(am, 255), c, min(cm, 255), e, min(em, 255), l)
	default: // anything, including every documented bound violation
		v := func() int { return []int{0, 0, 1, 1, 2, 3, 5, 9, 255}[r.Intn(9)] }
		return fmt.Sprintf("%d,%d,%d,%d,%d,%d,%d", v(), v(), v(), v(), v(), v(), []int{0, 0, 10, 1215}[r.Intn(4)])
	}
}

func genDraws(r *vh.Rand) string {
	var b []byte
	switch r.Pick(60, 15, 10, 15) {
	case 0:
		b = r.Bytes(r.Intn(80))
	case 1:
		b = nil
	case 2:
		b = make([]byte, r.Intn(40))
		for i := range b {
			b[i] = 0xff
		}
	default:
		b = r.Bytes(r.Intn(12))
	}
	s := hex.EncodeToString(b)
	if r.Chance(12) {
		return s + "e"
	}
	return s + "z"
}

// pickSlice: the slice of src a per-datagram builder is handed, and the base offset it is told.
func (rn *runner) pickSlice(r *vh.Rand) (base uint64, lo, n int) {
	L := len(rn.src)
	switch r.Pick(45, 35, 20) {
	case 0:
		lo, n = 0, L
	case 1:
		lo = r.Intn(L + 1)
		n = r.Intn(L - lo + 1)
	default:
		lo = r.Intn(L + 1)
		n = min(L-lo, []int{0, 1, 2, 63, 64, 1150, 1200}[r.Intn(7)])
	}
	base = uint64(lo)
	if r.Chance(18) {
		base = []uint64{0, uint64(lo) + 1, 62, 63, 64, 16382, 16383, 16384, 1<<30 - 2, 1<<30 - 1, 1 << 30, 1<<62 - 3, 1<<62 - 1, 1 << 62, 1<<63 + 5}[r.Intn(15)]
	}
	return
}

// tiling layout of [0,n) (offsets relative to the slice), as QUICFrames text
func genTiling(r *vh.Rand, n int, shift int, extras bool) string {
	k := 1 + r.Intn(6)
	if k > n {
		k = max(n, 1)
	}
	cuts := []int{0}
	for i := 1; i < k; i++ {
		cuts = append(cuts, 1+r.Intn(max(n-1, 1)))
	}
	cuts = append(cuts, n)
	for i := 1; i < len(cuts); i++ { // insertion sort
		for j := i; j > 0 && cuts[j] < cuts[j-1]; j-- {
			cuts[j], cuts[j-1] = cuts[j-1], cuts[j]
		}
	}
	var fr []string
	for i := 0; i+1 < len(cuts); i++ {
		off, l := cuts[i], cuts[i+1]-cuts[i]
		if l == 0 && i+2 < len(cuts) {
			continue
		}
		if i+2 == len(cuts) && (l == 0 || r.Bool()) {
			l = 0 // "the rest"
		}
		fr = append(fr, fmt.Sprintf("c%d:%d", off+shift, l))
	}
	if extras {
		for i, m := 0, r.Intn(4); i < m; i++ {
			if r.Bool() {
				fr = append(fr, "g")
			} else {
				fr = append(fr, fmt.Sprintf("p%d", r.Intn(20)))
			}
		}
		if r.Chance(15) && n > 0 { // an overlapping duplicate is still a tiling
			o := r.Intn(n)
			fr = append(fr, fmt.Sprintf("c%d:%d", o+shift, 1+r.Intn(n-o)))
		}
	}
	for i := len(fr) - 1; i > 0; i-- {
		j := r.Intn(i + 1)
		fr[i], fr[j] = fr[j], fr[i]
	}
	return strings.Join(fr, ",")
}

func genJunkFrames(r *vh.Rand, n int) string {
	var fr []string
	for i, m := 0, r.Intn(5); i < m; i++ {
		switch r.Pick(60, 20, 20) {
		case 0:
			fr = append(fr, fmt.Sprintf("c%d:%d", r.Range(-2, int64(n)+3), r.Range(-2, int64(n)+4)))
		case 1:
			fr = append(fr, "g")
		default:
			fr = append(fr, fmt.Sprintf("p%d", r.Range(-1, 12)))
		}
	}
	if len(fr) == 0 {
		return "-"
	}
	return strings.Join(fr, ",")
}

// absolute range text for [s,e) of an N byte stream, using negative forms at random
func absRange(r *vh.Rand, s, e, N int, sep string) string {
	off := s
	if r.Chance(35) && N-s > 0 {
		off = s - N
	}
	var l int
	switch {
	case e == N && r.Chance(70):
		l = 0
	case e < N && r.Chance(40):
		l = e - N
	case e > s:
		l = e - s
	case e == N:
		l = 0
	default:
		l = e - N // empty range short of the end
	}
	return fmt.Sprintf("%d%s%d", off, sep, l)
}

// split [0,N) into pieces and deal them to k datagrams
func dealPieces(r *vh.Rand, N, k int) [][][2]int {
	m := 1 + r.Intn(6)
	cuts := []int{0, N}
	for i := 1; i < m && N > 1; i++ {
		cuts = append(cuts, 1+r.Intn(N-1))
	}
	for i := 1; i < len(cuts); i++ {
		for j := i; j > 0 && cuts[j] < cuts[j-1]; j-- {
			cuts[j], cuts[j-1] = cuts[j-1], cuts[j]
		}
	}
	out := make([][][2]int, k)
	for i := 0; i+1 < len(cuts); i++ {
		if cuts[i] == cuts[i+1] && N > 0 {
			continue
		}
		d := r.Intn(k)
		out[d] = append(out[d], [2]int{cuts[i], cuts[i+1]})
	}
	return out
}

func genBudgets(r *vh.Rand, k int) string {
	n := 1 + r.Intn(k+1)
	s := make([]string, n)
	for i := range s {
		s[i] = strconv.Itoa([]int{0, 1162, 1200, 1350, 1350, 4000, 20000, 30, 200}[r.Intn(9)])
	}
	if r.Chance(80) {
		for i := range s {
			s[i] = "20000"
		}
	}
	return strings.Join(s, ",")
}

func (rn *runner) genFlight(r *vh.Rand) string {
	N := len(rn.src)
	k := 1 + r.Intn(4)
	if r.Chance(3) {
		return fmt.Sprintf("ff %s !", genBudgets(r, 1))
	}
	pieces := dealPieces(r, N, k)
	mode := r.Pick(70, 15, 15) // tiling / drop a piece / junk
	var dgs []string
	for d := 0; d < k; d++ {
		var fr []string
		for _, p := range pieces[d] {
			if mode == 1 && r.Chance(30) {
				continue
			}
			fr = append(fr, "c"+absRange(r, p[0], p[1], N, ":"))
		}
		if mode == 2 {
			fr = append(fr, fmt.Sprintf("c%d:%d", r.Range(-int64(N)-2, int64(N)+2), r.Range(-int64(N)-2, int64(N)+2)))
		}
		for i, m := 0, r.Intn(3); i < m; i++ {
			if r.Bool() {
				fr = append(fr, "g")
			} else {
				fr = append(fr, fmt.Sprintf("p%d", r.Range(0, 30)))
			}
		}
		for i := len(fr) - 1; i > 0; i-- {
			j := r.Intn(i + 1)
			fr[i], fr[j] = fr[j], fr[i]
		}
		if len(fr) == 0 {
			dgs = append(dgs, "-")
		} else {
			dgs = append(dgs, strings.Join(fr, ","))
		}
	}
	name := "ff"
	if r.Chance(8) {
		name = "ff1"
	}
	return fmt.Sprintf("%s %s %s", name, genBudgets(r, k), strings.Join(dgs, "/"))
}

func (rn *runner) genRandomFlight(r *vh.Rand) string {
	N := len(rn.src)
	k := 1 + r.Intn(3)
	if r.Chance(3) {
		return fmt.Sprintf("rff %s ! %s", genBudgets(r, 1), genDraws(r))
	}
	pieces := dealPieces(r, N, k)
	mode := r.Pick(72, 14, 14)
	var dgs []string
	for d := 0; d < k; d++ {
		var rs []string
		for _, p := range pieces[d] {
			if mode == 1 && r.Chance(30) {
				continue
			}
			rs = append(rs, absRange(r, p[0], p[1], N, ":"))
		}
		if mode == 2 {
			rs = append(rs, fmt.Sprintf("%d:%d", r.Range(-int64(N)-2, int64(N)+2), r.Range(-int64(N)-2, int64(N)+2)))
		}
		if r.Chance(10) { // an empty range is skipped by the builder
			rs = append(rs, fmt.Sprintf("%d:%d", N, 0))
		}
		cfg := genCfg(r)
		if r.Chance(40) {
			cfg = "0,0,0,0,0,0,0" // the documented zero value: one CRYPTO frame per range
		}
		rtxt := "-"
		if len(rs) > 0 {
			rtxt = strings.Join(rs, ";")
		}
		dgs = append(dgs, cfg+"|"+rtxt)
	}
	name := "rff"
	if r.Chance(8) {
		name = "rff1"
	}
	return fmt.Sprintf("%s %s %s %s", name, genBudgets(r, k), strings.Join(dgs, "/"), genDraws(r))
}

func varintBytes(v uint64) []byte {
	switch {
	case v < 64:
		return []byte{byte(v)}
	case v < 16384:
		return []byte{0x40 | byte(v>>8), byte(v)}
	case v < 1<<30:
		return []byte{0x80 | byte(v>>24), byte(v >> 16), byte(v >> 8), byte(v)}
	}
	return []byte{0xc0 | byte(v>>56), byte(v >> 48), byte(v >> 40), byte(v >> 32), byte(v >> 24), byte(v >> 16), byte(v >> 8), byte(v)}
}

func (rn *runner) genValidate(r *vh.Rand) string {
	N := len(rn.src)
	var ps [][]byte
	if len(rn.last) > 0 && r.Chance(60) {
		for _, p := range rn.last {
			ps = append(ps, append([]byte{}, p...))
		}
	} else { // hand-made flight: pieces of src in CRYPTO frames
		k := 1 + r.Intn(3)
		ps = make([][]byte, k)
		for d, pcs := range dealPieces(r, N, k) {
			for _, p := range pcs {
				ps[d] = append(ps[d], 6)
				ps[d] = append(ps[d], varintBytes(uint64(p[0]))...)
				ps[d] = append(ps[d], varintBytes(uint64(p[1]-p[0]))...)
				ps[d] = append(ps[d], rn.src[p[0]:p[1]]...)
				if r.Chance(30) {
					ps[d] = append(ps[d], make([]byte, r.Intn(4))...)
				}
				if r.Chance(20) {
					ps[d] = append(ps[d], 1)
				}
			}
		}
	}
	cl := N
	switch r.Pick(45, 8, 8, 8, 8, 8, 5, 5, 5) {
	case 1: // drop a payload
		if len(ps) > 0 {
			i := r.Intn(len(ps))
			ps = append(ps[:i], ps[i+1:]...)
		}
	case 2: // truncate a payload
		if len(ps) > 0 {
			i := r.Intn(len(ps))
			ps[i] = ps[i][:len(ps[i])-r.Intn(min(len(ps[i]), 6)+1)]
		}
	case 3: // corrupt one byte (frame type, varint or data)
		if len(ps) > 0 {
			i := r.Intn(len(ps))
			if len(ps[i]) > 0 {
				j := r.Intn(min(len(ps[i]), 6))
				if j == 0 {
					ps[i][j] = []byte{0, 1, 2, 6, 0x1c, 0x40, 0x46, 0x80, 0xc0, 0xff}[r.Intn(10)]
				} else { // never a 4/8-byte varint prefix: a multi-gigabyte declared length would make the real reader allocate it
					ps[i][j] = []byte{0, 1, 2, 6, 0x1c, 0x3f, 0x40, 0x46, 0x7f}[r.Intn(9)]
				}
			}
		}
	case 4: // append something
		if len(ps) > 0 {
			i := r.Intn(len(ps))
			ps[i] = append(ps[i], [][]byte{{0}, {1}, {0, 1}, {0, 6}, {6}, {6, 0}, {6, 0, 0}, {6, 0, 1}, {0x40, 0x06, 0, 0}, {6, 0, 3, 9}, {2, 0, 0, 0, 0}, {0x40}}[r.Intn(12)]...)
		}
	case 5:
		cl = N + int(r.Range(-2, 2))
		if cl < 0 {
			cl = 0
		}
	case 6: // a CRYPTO frame that reaches beyond the stream, or far beyond
		ps = append(ps, append(append([]byte{6}, varintBytes(uint64(N))...), varintBytes([]uint64{1, 5, 70000, 1 << 52, 1<<62 - 1}[r.Intn(5)])...))
	case 7:
		ps = nil
	case 8: // huge offset
		ps = append(ps, append(append([]byte{6}, varintBytes(1<<62-1)...), 1, 0xaa))
	}
	b := genBudgets(r, max(len(ps), 1))
	return fmt.Sprintf("val %s %d %s", b, cl, hexList(ps))
}

func (rn *runner) genMarshal(r *vh.Rand) string {
	L := len(rn.src)
	// frames as the packer pops them: contiguous pieces starting at some offset (sometimes a gap or a retransmitted earlier piece)
	lo := r.Intn(L + 1)
	if r.Chance(50) {
		lo = 0
	}
	n := r.Intn(L - lo + 1)
	if n > 1300 {
		n = 1300
	}
	k := 1 + r.Intn(3)
	var fr []string
	pos := lo
	for i := 0; i < k && pos <= lo+n; i++ {
		l := lo + n - pos
		if i+1 < k && l > 0 {
			l = 1 + r.Intn(l)
		}
		if l == 0 && len(fr) > 0 {
			break
		}
		off := pos
		if r.Chance(4) {
			off += 1 + r.Intn(3)
		}
		if l > 0 || r.Chance(30) {
			fr = append(fr, fmt.Sprintf("%d:%d:%d", off, pos, l))
		}
		pos += l
	}
	ftxt := "-"
	if len(fr) > 0 {
		for i := len(fr) - 1; i > 0; i-- {
			if r.Chance(20) {
				j := r.Intn(i + 1)
				fr[i], fr[j] = fr[j], fr[i]
			}
		}
		ftxt = strings.Join(fr, ",")
	}
	planned := 0
	if r.Chance(10) {
		planned = 1
	}
	idx := r.Intn(3)
	switch r.Pick(25, 25, 30, 20) {
	case 0:
		return fmt.Sprintf("mip nil %d %d - %s -z", idx, planned, ftxt)
	case 1:
		spec := "-"
		if r.Chance(60) {
			spec = genTiling(r, n, 0, true)
		}
		return fmt.Sprintf("mip qf %d %d %s %s -z", idx, planned, spec, ftxt)
	case 2:
		return fmt.Sprintf("mip rf %d %d %s %s %s", idx, planned, genCfg(r), ftxt, genDraws(r))
	default:
		c := []string{genCfg(r)}
		for r.Chance(50) && len(c) < 3 {
			c = append(c, genCfg(r))
		}
		return fmt.Sprintf("mip mf %d %d %s %s %s", idx, planned, strings.Join(c, ";"), ftxt, genDraws(r))
	}
}

func popLen(r *vh.Rand) int64 {
	switch r.Pick(30, 25, 20, 15, 10) {
	case 0:
		return r.Range(1100, 1400)
	case 1:
		return r.Range(0, 12)
	case 2:
		return r.Range(12, 200)
	case 3:
		return []int64{63, 64, 65, 66, 67, 68, 69, 70, 16383, 16384, 16390, 20000}[r.Intn(12)]
	default:
		return r.Range(-3, 5000)
	}
}

// a crypto stream session: create, write the ClientHello (possibly in parts), pop until drained, write more, drain
func (rn *runner) genStreamScenario(r *vh.Rand) {
	L := len(rn.src)
	kind := []string{"c", "c", "c", "c", "s", "b"}[r.Intn(6)]
	q := []string{"cs new " + kind}
	// how much of src is "the ClientHello" and how much is written afterwards
	first := L
	if r.Chance(30) {
		first = r.Intn(L + 1)
	}
	if r.Chance(25) && first > 1 { // ClientHello written in two parts
		c := 1 + r.Intn(first-1)
		q = append(q, fmt.Sprintf("cs write 0 %d", c))
		if r.Chance(50) {
			q = append(q, "cs has")
		}
		if r.Chance(15) {
			q = append(q, fmt.Sprintf("cs pop %d", popLen(r)))
		}
		q = append(q, fmt.Sprintf("cs write %d %d", c, first-c))
	} else {
		q = append(q, fmt.Sprintf("cs write 0 %d", first))
	}
	if r.Chance(8) {
		q = append(q, "cs noscr")
	}
	if r.Chance(6) {
		q = append(q, "cs popall")
	}
	drain := func(budget int) {
		for i := 0; i < budget; i++ {
			if r.Chance(12) {
				q = append(q, "cs has")
			}
			q = append(q, fmt.Sprintf("cs pop %d", popLen(r)))
		}
		// make sure the drain monitor gets its two consecutive large pops
		q = append(q, "cs pop 5000", "cs pop 5000", "cs pop 20000", "cs pop 1200", "cs pop 1200", "cs has")
	}
	drain(2 + r.Intn(10))
	if first < L {
		q = append(q, fmt.Sprintf("cs write %d %d", first, L-first))
		drain(1 + r.Intn(5))
	}
	if r.Chance(35) && L > 0 { // more Initial-level data after the ClientHello (e.g. a second ClientHello after a HelloRetryRequest)
		q = append(q, fmt.Sprintf("cs write 0 %d", 1+r.Intn(L)))
		drain(1 + r.Intn(4))
	}
	rn.queue = append(rn.queue, q...)
}

// deal [0,N) to k datagrams in chunks, keeping every datagram below ~1000 bytes of CRYPTO data
func dealBounded(r *vh.Rand, N, k int) [][][2]int {
	out := make([][][2]int, k)
	load := make([]int, k)
	pos := 0
	for pos < N {
		l := 1 + r.Intn(500)
		if pos+l > N {
			l = N - pos
		}
		d := r.Intn(k)
		for t := 0; t < k && load[d]+l > 1000; t++ {
			d = (d + 1) % k
		}
		out[d] = append(out[d], [2]int{pos, pos + l})
		load[d] += l
		pos += l
	}
	if N == 0 {
		out[0] = append(out[0], [2]int{0, 0})
	}
	return out
}

// a planned Initial flight on a real packer, with losses and retransmissions
func (rn *runner) genPlannedScenario(r *vh.Rand) {
	N := len(rn.src)
	k := N/800 + 1 + r.Intn(2)
	pieces := dealBounded(r, N, k)
	// a flight with MORE datagrams than the spec's InitialPackets describes, the surplus one too big for
	// its packet (it is held against the last entry): must be rejected before anything is sent
	oversize := k >= 2 && r.Chance(10)
	if oversize {
		pieces[k-1] = append(pieces[k-1], pieces[k-2]...)
		pieces[k-2] = nil
	}
	random := r.Chance(45)
	mode := r.Pick(85, 8, 7) // covering / a piece missing / junk range
	var dgs []string
	for d := 0; d < k; d++ {
		var fr []string
		for _, p := range pieces[d] {
			if mode == 1 && r.Chance(25) {
				continue
			}
			if random {
				fr = append(fr, absRange(r, p[0], p[1], N, ":"))
			} else {
				fr = append(fr, "c"+absRange(r, p[0], p[1], N, ":"))
			}
		}
		if mode == 2 {
			if random {
				fr = append(fr, fmt.Sprintf("%d:%d", r.Range(-int64(N)-2, int64(N)+2), r.Range(-int64(N)-2, int64(N)+2)))
			} else {
				fr = append(fr, fmt.Sprintf("c%d:%d", r.Range(-int64(N)-2, int64(N)+2), r.Range(-int64(N)-2, int64(N)+2)))
			}
		}
		if random {
			cfg := []string{"0,0,0,0,0,0,0", "1,3,2,5,0,0,0", "0,2,1,4,1,3,600", "1,4,3,5,0,0,0"}[r.Intn(4)]
			rt := "0:1" // a datagram that got no piece repeats the first byte (an empty range list is an error)
			if N == 0 || r.Chance(5) {
				rt = "-"
			}
			if len(fr) > 0 {
				rt = strings.Join(fr, ";")
			}
			dgs = append(dgs, cfg+"|"+rt)
		} else {
			for i, m := 0, r.Intn(3); i < m; i++ {
				if r.Bool() {
					fr = append(fr, "g")
				} else {
					fr = append(fr, fmt.Sprintf("p%d", r.Range(0, 30)))
				}
			}
			for i := len(fr) - 1; i > 0; i-- {
				j := r.Intn(i + 1)
				fr[i], fr[j] = fr[j], fr[i]
			}
			if len(fr) == 0 {
				dgs = append(dgs, "-")
			} else {
				dgs = append(dgs, strings.Join(fr, ","))
			}
		}
	}
	sizes := "-"
	if r.Chance(50) || oversize {
		sz := []string{}
		nsz := 1 + r.Intn(k)
		if oversize {
			nsz = 1 + r.Intn(k-1)
		}
		for i, m := 0, nsz; i < m; i++ {
			sz = append(sz, []string{"1200", "1250", "1252", "1350"}[r.Intn(4)])
		}
		sizes = strings.Join(sz, ",")
	}
	maxSize := []int{1252, 1252, 1200, 1400}[r.Intn(4)]
	kind, draws := "ff", "-z"
	if random {
		kind, draws = "rff", genDraws(r)
	}
	q := []string{fmt.Sprintf("pf new %s %s %s %d %s", kind, strings.Join(dgs, "/"), sizes, maxSize, draws)}
	packed := 0
	var alive []int
	pack := func(n int) {
		for i := 0; i < n; i++ {
			q = append(q, "pf pack")
			alive = append(alive, packed)
			packed++
		}
	}
	lose := func(p int) {
		var keep []int
		for _, a := range alive {
			if r.Chance(p) {
				q = append(q, fmt.Sprintf("pf lose %d", a))
			} else {
				keep = append(keep, a)
			}
		}
		alive = keep
	}
	switch r.Pick(35, 35, 30) {
	case 0: // the whole flight, then losses (a Retry re-queues everything: p=100)
		pack(k)
		lose([]int{30, 60, 100}[r.Intn(3)])
	case 1: // losses while the flight is still going out
		pack(1 + r.Intn(k))
		lose(50)
		pack(k)
	default:
		pack(k)
	}
	for round := 0; round < 2; round++ {
		pack(2 + r.Intn(3))
		lose(25)
	}
	pack(2*k + 4) // until nothing is left to send
	rn.queue = append(rn.queue, q...)
}


// builder configuration for a per-datagram session: in-range, packets that fit the packet buffer
func genPdCfg(r *vh.Rand) string {
	if r.Chance(6) {
		return fmt.Sprintf("%d,%d,%d,%d,%d,%d,%d", r.Intn(3), r.Intn(3), r.Intn(3), r.Intn(4), r.Intn(3), r.Intn(3), []int{0, 300}[r.Intn(2)])
	}
	a := r.Intn(3)
	c := 1 + r.Intn(3)
	e := 1 + r.Intn(3)
	l := []int{0, 0, 300, 700, 1000, 1180, 1215}[r.Intn(7)]
	return fmt.Sprintf("%d,%d,%d,%d,%d,%d,%d", a, a+r.Intn(3), c, c+r.Intn(4), e, e+r.Intn(3), l)
}

// a QUICFrames layout that tiles every share that is at least m bytes long: fixed pieces of [0,m), then "the rest"
func genOpenTiling(r *vh.Rand, m int) string {
	k := r.Intn(4)
	cuts := []int{0}
	for i := 0; i < k && m > 1; i++ {
		cuts = append(cuts, 1+r.Intn(m-1))
	}
	for i := 1; i < len(cuts); i++ {
		for j := i; j > 0 && cuts[j] < cuts[j-1]; j-- {
			cuts[j], cuts[j-1] = cuts[j-1], cuts[j]
		}
	}
	var fr []string
	for i := 0; i < len(cuts); i++ {
		if i+1 < len(cuts) {
			if cuts[i+1] > cuts[i] {
				fr = append(fr, fmt.Sprintf("c%d:%d", cuts[i], cuts[i+1]-cuts[i]))
			}
		} else {
			fr = append(fr, fmt.Sprintf("c%d:0", cuts[i]))
		}
	}
	for i, n := 0, r.Intn(3); i < n; i++ {
		if r.Bool() {
			fr = append(fr, "g")
		} else {
			fr = append(fr, fmt.Sprintf("p%d", r.Intn(12)))
		}
	}
	for i := len(fr) - 1; i > 0; i-- {
		j := r.Intn(i + 1)
		fr[i], fr[j] = fr[j], fr[i]
	}
	return strings.Join(fr, ",")
}

// the per-datagram Initial path on a real packer: the ClientHello goes out in as many datagrams as it
// needs, datagrams are lost (the first only, an earlier one, the last, a subset, all of them as a
// Retry does) during and after the flight, retransmissions are lost again, more handshake data is
// written later; until nothing is left to send
func (rn *runner) genDatagramScenario(r *vh.Rand) {
	N := len(rn.src)
	maxSize := []int{1200, 1252, 1252, 1300, 1350}[r.Intn(5)]
	kind, spec := "nil", "-"
	random := false
	switch r.Pick(18, 8, 20, 32, 22) {
	case 1:
		kind = "qf"
	case 2:
		kind, spec = "qf", genOpenTiling(r, 1+r.Intn(120))
	case 3:
		kind, spec, random = "rf", genPdCfg(r), true
	case 4:
		c := []string{genPdCfg(r)}
		for r.Chance(60) && len(c) < 3 {
			c = append(c, genPdCfg(r))
		}
		kind, spec, random = "mf", strings.Join(c, ";"), true
	}
	cls := "-"
	if r.Chance(45) {
		var c []string
		for i, m := 0, 1+r.Intn(3); i < m; i++ {
			c = append(c, strconv.Itoa([]int{999, 999, 500, 1150, 1200, 2000, 64, 63, 100, 0}[r.Intn(10)]))
		}
		c = append(c, strconv.Itoa([]int{0, 999, 600, 1150}[r.Intn(4)]))
		cls = strings.Join(c, ",")
	}
	draws := func() string {
		if !random {
			return "-z"
		}
		d := genDraws(r)
		if strings.HasSuffix(d, "e") && r.Chance(85) {
			d = strings.TrimSuffix(d, "e") + "z"
		}
		return d
	}
	q := []string{fmt.Sprintf("pd new %s %s %s %d", kind, spec, cls, maxSize)}
	k := N/1000 + 1
	packed := 0
	var alive []int
	pack := func(n int) {
		for i := 0; i < n; i++ {
			q = append(q, "pd pack "+draws())
			alive = append(alive, packed)
			packed++
		}
	}
	loseIdx := func(i int) {
		if i >= 0 && i < len(alive) {
			q = append(q, fmt.Sprintf("pd lose %d", alive[i]))
			alive = append(alive[:i], alive[i+1:]...)
		}
	}
	loseSome := func(p int) {
		for i := len(alive) - 1; i >= 0; i-- {
			if r.Chance(p) {
				loseIdx(i)
			}
		}
	}
	loseAllInOrder := func() {
		for len(alive) > 0 {
			loseIdx(0)
		}
	}
	switch r.Pick(16, 14, 10, 14, 14, 14, 18) {
	case 0: // the whole flight, then the FIRST datagram only
		pack(k + 1)
		loseIdx(0)
	case 1: // an earlier datagram (not the last one)
		pack(k + 1)
		if len(alive) > 2 {
			loseIdx(r.Intn(len(alive) - 2))
		} else {
			loseIdx(0)
		}
	case 2: // the last datagram that carried something
		pack(k)
		loseIdx(len(alive) - 1)
	case 3: // a Retry: everything is re-queued, in order
		pack(k + 1)
		loseAllInOrder()
	case 4: // a loss while the flight is still going out
		pack(1 + r.Intn(k))
		loseIdx(r.Intn(len(alive)))
		pack(k)
	case 5: // a subset
		pack(k + 1)
		loseSome(50)
	default:
		pack(k + 1)
	}
	probe := func() {
		q = append(q, "pd probe "+draws())
		alive = append(alive, packed)
		packed++
	}
	for round := 0; round < 2; round++ {
		if r.Chance(25) { // the PTO fires: the oldest outstanding datagram is re-queued and a probe packet is packed
			if r.Chance(70) {
				loseIdx(0)
			}
			probe()
		}
		pack(1 + r.Intn(3))
		switch r.Pick(40, 25, 20, 15) {
		case 0:
			loseSome(25)
		case 1:
			loseIdx(0)
		case 2:
			loseAllInOrder()
		}
		if r.Chance(12) && N > 0 { // more handshake data (a second ClientHello after a HelloRetryRequest)
			lo := r.Intn(N)
			q = append(q, fmt.Sprintf("pd write %d %d", lo, 1+r.Intn(min(N-lo, 1500))))
		}
	}
	pack(k + 3) // until nothing is left to send
	if r.Chance(30) {
		probe() // a PTO with nothing to send: the probe is built from an empty CRYPTO share
	}
	rn.queue = append(rn.queue, q...)
}

func (rn *runner) GenOp(r *vh.Rand, i int) string {
	if i == 0 {
		rn.src = genSrc(r)
		return "src " + hx(rn.src)
	}
	if len(rn.queue) > 0 {
		op := rn.queue[0]
		rn.queue = rn.queue[1:]
		return op
	}
	switch r.Pick(16, 24, 6, 12, 12, 10, 8, 12, 9, 14) {
	case 9:
		rn.genDatagramScenario(r)
		op := rn.queue[0]
		rn.queue = rn.queue[1:]
		return op
	case 8:
		rn.genPlannedScenario(r)
		op := rn.queue[0]
		rn.queue = rn.queue[1:]
		return op
	case 0: // QUICFrames
		base, lo, n := rn.pickSlice(r)
		switch r.Pick(45, 18, 8, 12, 17) {
		case 4: // a layout made for a longer share applied to a shorter or empty one (PTO probe, retransmission, tail)
			m := n + 1 + r.Intn(40)
			if r.Chance(30) {
				n = 0
			}
			return fmt.Sprintf("qf %d %d %d %s", base, lo, n, genTiling(r, m, 0, true))
		case 0:
			return fmt.Sprintf("qf %d %d %d %s", base, lo, n, genTiling(r, n, 0, true))
		case 1: // pass-through shape: absolute offsets, base 0 (what MarshalInitialPacketPayload builds)
			return fmt.Sprintf("qf 0 %d %d %s", lo, n, genTiling(r, n, lo, false))
		case 2:
			return fmt.Sprintf("qf %d %d %d -", base, lo, n)
		default:
			return fmt.Sprintf("qf %d %d %d %s", base, lo, n, genJunkFrames(r, n))
		}
	case 1: // QUICRandomFrames
		base, lo, n := rn.pickSlice(r)
		return fmt.Sprintf("rf %d %d %d %s %s", base, lo, n, genCfg(r), genDraws(r))
	case 2: // QUICMultiDatagramFrames
		base, lo, n := rn.pickSlice(r)
		c := []string{}
		for j, m := 0, r.Intn(4); j < m; j++ {
			c = append(c, genCfg(r))
		}
		ctxt := "-"
		if len(c) > 0 {
			ctxt = strings.Join(c, ";")
		}
		idx := r.Intn(5)
		if r.Chance(3) {
			idx = -1
		}
		return fmt.Sprintf("mf %d %d %d %d %s %s", idx, base, lo, n, ctxt, genDraws(r))
	case 3:
		return rn.genFlight(r)
	case 4:
		return rn.genRandomFlight(r)
	case 5:
		return rn.genValidate(r)
	case 6:
		return rn.genMarshal(r)
	default:
		rn.genStreamScenario(r)
		op := rn.queue[0]
		rn.queue = rn.queue[1:]
		return op
	}
}

// TestDriver: every source of randomness outside the scripted per-op draws is pinned, so that the same
// VERIF_SEED yields a byte-identical .ops file: crypto/rand (and the crypto packages' implicit
// randomness: key shares, ML-KEM, uTLS's PRNG seeds) through testing/cryptotest.SetGlobalRandom, the
// global math/rand source (uQUIC's extension / transport-parameter shuffles and the builders'
// Shuffle) through Seed (enabled by the go:debug randseednop=0 directive above); cryptocustomrand=0
// switches off crypto/internal/randutil.MaybeReadByte, which deliberately reads a byte at random. The real
// ClientHellos are built first, at a fixed point of both streams.
func TestDriver(t *testing.T) {
	theT = t
	chs := realClientHellos()
	cryptotest.SetGlobalRandom(t, 0xC09)
	if os.Getenv("VH_DEBUG") != "" {
		for i, c := range chs {
			fmt.Fprintf(os.Stderr, "real %d len=%d %x\n", i, len(c), c[6:14])
		}
	}
	mrand.Seed(0xC09)
	vh.Main(t, "frames", newRunner)
}
