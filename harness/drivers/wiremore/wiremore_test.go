//go:build verif

// Package wiremore is the second correspondence driver of property C08. It ties the model
// functions the C08More theorems are about to the real code, and lets monitors judge the
// statements of those theorems on the implementation's own output:
//
//	vread / vreadw  quicvarint.Read on a bytes.Reader / on a one-byte-at-a-time io.Reader wrapped
//	                by quicvarint.NewReader (model: Varint.readBR, branch for branch)
//	cids            ParseConnectionID, ParsePacket, ParseShortHeader and
//	                ParseArbitraryLenConnectionIDs on the same bytes (stability)
//	retry           ExtendedHeader.Append of a Retry header, then ParsePacket of header ‖ tag
//	dgfit           DatagramFrame.MaxDataLen(budget), then Length / Append of a frame filled to it
//
// Every op is self-contained.
package wiremore

import (
	"bytes"
	"encoding/hex"
	"errors"
	"fmt"
	"io"
	"strconv"
	"strings"
	"testing"

	"github.com/refraction-networking/uquic/internal/protocol"
	"github.com/refraction-networking/uquic/internal/verifharness/vh"
	"github.com/refraction-networking/uquic/internal/wire"
	"github.com/refraction-networking/uquic/quicvarint"
)

func TestDriver(t *testing.T) { vh.Main(t, "wiremore", newRunner) }

type runner struct{}

func newRunner(r *vh.Rand) vh.Runner { return &runner{} }

func hx(b []byte) string {
	if len(b) == 0 {
		return "-"
	}
	return hex.EncodeToString(b)
}

func unhx(s string) []byte {
	if s == "-" || s == "" {
		return nil
	}
	b, err := hex.DecodeString(s)
	if err != nil {
		return nil
	}
	return b
}

func u64(s string) uint64 { n, _ := strconv.ParseUint(s, 10, 64); return n }

func kv(ws []string, k string) string {
	for _, w := range ws {
		if strings.HasPrefix(w, k) {
			return w[len(k):]
		}
	}
	return ""
}

func hdrErrClass(err error) string {
	msg := err.Error()
	switch {
	case err == io.EOF:
		return "eof"
	case err == io.ErrUnexpectedEOF:
		return "ueof"
	case msg == "not a long header packet":
		return "notlong"
	case msg == "not a short header packet":
		return "notshort"
	case msg == "not a QUIC packet":
		return "notquic"
	case errors.Is(err, protocol.ErrInvalidConnectionIDLen):
		return "cid_len"
	case errors.Is(err, wire.ErrUnsupportedVersion):
		return "unsupported"
	case strings.HasPrefix(msg, "packet length"):
		return "short_packet"
	case errors.Is(err, wire.ErrInvalidReservedBits):
		return "reserved"
	case strings.HasPrefix(msg, "invalid packet number length"):
		return "pnlen"
	}
	return "other(" + strings.ReplaceAll(msg, " ", "_") + ")"
}

// oneByteReader implements io.Reader only and hands out one byte per call.
type oneByteReader struct {
	b []byte
}

func (o *oneByteReader) Read(p []byte) (int, error) {
	if len(o.b) == 0 {
		return 0, io.EOF
	}
	if len(p) == 0 {
		return 0, nil
	}
	p[0] = o.b[0]
	o.b = o.b[1:]
	return 1, nil
}

func cidOf(s string) protocol.ConnectionID {
	b := unhx(s)
	if len(b) > 20 {
		b = b[:20]
	}
	return protocol.ParseConnectionID(b)
}

// ---------------------------------------------------------------- generation

var versions = []uint32{1, 0x6b3343cf, 1, 0x6b3343cf, 0, 0xff00001d, 0x0a0a0a0a, 2}

func be32(v uint32) []byte { return []byte{byte(v >> 24), byte(v >> 16), byte(v >> 8), byte(v)} }

func varint(v uint64) []byte { return quicvarintAppend(nil, v) }

// independent varint writer (minimal widths)
func quicvarintAppend(b []byte, v uint64) []byte {
	switch {
	case v < 1<<6:
		return append(b, byte(v))
	case v < 1<<14:
		return append(b, byte(v>>8)|0x40, byte(v))
	case v < 1<<30:
		return append(b, byte(v>>24)|0x80, byte(v>>16), byte(v>>8), byte(v))
	default:
		return append(b, byte(v>>56)|0xc0, byte(v>>48), byte(v>>40), byte(v>>32), byte(v>>24), byte(v>>16), byte(v>>8), byte(v))
	}
}

func cidLen(r *vh.Rand) int {
	switch r.Pick(50, 20, 10, 10, 10) {
	case 0:
		return r.Intn(21)
	case 1:
		return []int{0, 1, 4, 8, 20}[r.Intn(5)]
	case 2:
		return 20 + r.Intn(3) // 20, 21, 22
	case 3:
		return 21 + r.Intn(235)
	default:
		return 255
	}
}

func genLongPacket(r *vh.Rand) []byte {
	ver := versions[r.Intn(len(versions))]
	first := byte(0x80 | r.Intn(128))
	if r.Chance(85) {
		first |= 0x40
	}
	b := []byte{first}
	b = append(b, be32(ver)...)
	dl, sl := cidLen(r), cidLen(r)
	if r.Chance(70) && dl > 20 {
		dl = r.Intn(21)
	}
	if r.Chance(70) && sl > 20 {
		sl = r.Intn(21)
	}
	b = append(b, byte(dl))
	b = append(b, r.Bytes(dl)...)
	b = append(b, byte(sl))
	b = append(b, r.Bytes(sl)...)
	// what follows depends on the type; write a plausible tail
	switch r.Pick(40, 20, 20, 20) {
	case 0: // token length + token + length + payload
		tl := r.Intn(20)
		b = append(b, varint(uint64(tl))...)
		b = append(b, r.Bytes(tl)...)
		pl := r.Intn(40)
		b = append(b, varint(uint64(pl))...)
		b = append(b, r.Bytes(pl+r.Intn(3))...)
	case 1: // length + payload
		pl := r.Intn(40)
		b = append(b, varint(uint64(pl))...)
		b = append(b, r.Bytes(pl)...)
	case 2: // retry-like tail
		b = append(b, r.Bytes(r.Intn(40))...)
	default:
		b = append(b, r.Bytes(r.Intn(8))...)
	}
	if r.Chance(25) {
		b = b[:r.Intn(len(b)+1)]
	}
	return b
}

func genShortPacket(r *vh.Rand, n int) []byte {
	first := byte(0x40 | r.Intn(64))
	if r.Chance(10) {
		first &^= 0x40
	}
	b := []byte{first}
	b = append(b, r.Bytes(n)...)
	b = append(b, r.Bytes(r.Intn(8))...)
	if r.Chance(25) {
		b = b[:r.Intn(len(b)+1)]
	}
	return b
}

func (rn *runner) GenOp(r *vh.Rand, i int) string {
	switch r.Pick(25, 10, 30, 20, 15) {
	case 0, 1:
		name := "vread"
		if r.Chance(35) {
			name = "vreadw"
		}
		var b []byte
		switch r.Pick(50, 30, 20) {
		case 0: // a complete varint of a random class, plus trailing bytes
			l := 1 << uint(r.Intn(4))
			b = r.Bytes(l)
			b[0] = b[0]&0x3f | byte(map[int]int{1: 0, 2: 1, 4: 2, 8: 3}[l])<<6
			b = append(b, r.Bytes(r.Intn(3))...)
		case 1: // truncated
			l := 1 << uint(r.Intn(4))
			b = r.Bytes(l)
			b[0] = b[0]&0x3f | byte(map[int]int{1: 0, 2: 1, 4: 2, 8: 3}[l])<<6
			b = b[:r.Intn(l+1)]
		default:
			b = r.Bytes(r.Intn(11))
		}
		return name + " " + hx(b)
	case 2:
		n := r.Intn(21)
		var b []byte
		switch r.Pick(55, 30, 15) {
		case 0:
			b = genLongPacket(r)
		case 1:
			b = genShortPacket(r, n)
		default:
			b = r.Bytes(r.Intn(48))
		}
		return fmt.Sprintf("cids %d %s", n, hx(b))
	case 3:
		ver := versions[r.Intn(4)]
		if r.Chance(10) {
			ver = versions[r.Intn(len(versions))]
		}
		tl := r.Intn(24)
		if r.Chance(15) {
			tl = 0
		}
		tag := 16
		if r.Chance(20) {
			tag = r.Intn(24)
		}
		return fmt.Sprintf("retry v=%d d=%s s=%s tok=%s tag=%s pnl=%d", ver, hx(r.Bytes(r.Intn(21))), hx(r.Bytes(r.Intn(21))),
			hx(r.Bytes(tl)), hx(r.Bytes(tag)), r.Intn(6))
	default:
		budgets := []int64{0, 1, 2, 3, 4, 64, 65, 66, 67, 68, 1199, 1200, 1252, 1452, 16383, 16384, 16385, 16386, 16387, 16388, 16390, 20000}
		budget := budgets[r.Intn(len(budgets))]
		if r.Chance(40) {
			budget = r.Range(0, 2000)
		}
		dlp := r.Intn(2)
		n := budget + r.Range(-4, 3)
		if r.Chance(30) {
			n = r.Range(0, budget+1)
		}
		if n < 0 {
			n = 0
		}
		return fmt.Sprintf("dgfit %d %d %d", dlp, budget, n)
	}
}

// ---------------------------------------------------------------- execution

func (rn *runner) Exec(op string) string {
	ws := strings.Fields(op)
	if len(ws) == 0 {
		return "skip"
	}
	arg := func(i int) string {
		if i < len(ws) {
			return ws[i]
		}
		return ""
	}
	switch ws[0] {
	case "vread":
		b := unhx(arg(1))
		r := bytes.NewReader(b)
		v, err := quicvarint.Read(r)
		if err != nil {
			if err == io.EOF {
				return fmt.Sprintf("E:eof rem=%d", r.Len())
			}
			return "E:other"
		}
		return fmt.Sprintf("ok v=%d rem=%d", v, r.Len())
	case "vreadw":
		o := &oneByteReader{b: unhx(arg(1))}
		v, err := quicvarint.Read(quicvarint.NewReader(o))
		if err != nil {
			if err == io.EOF {
				return fmt.Sprintf("E:eof rem=%d", len(o.b))
			}
			return "E:other"
		}
		return fmt.Sprintf("ok v=%d rem=%d", v, len(o.b))
	case "cids":
		n := int(u64(arg(1)))
		data := unhx(arg(2))
		cid := ""
		if c, err := wire.ParseConnectionID(data, n); err != nil {
			cid = "E:" + hdrErrClass(err)
		} else {
			cid = "ok:" + hx(c.Bytes())
		}
		hdr := ""
		if h, _, _, err := wire.ParsePacket(data); err != nil {
			if errors.Is(err, wire.ErrUnsupportedVersion) && h != nil {
				hdr = fmt.Sprintf("unsup:%s:%s", hx(h.DestConnectionID.Bytes()), hx(h.SrcConnectionID.Bytes()))
			} else {
				hdr = "E:" + hdrErrClass(err)
			}
		} else {
			hdr = fmt.Sprintf("ok:%s:%s", hx(h.DestConnectionID.Bytes()), hx(h.SrcConnectionID.Bytes()))
		}
		sh := ""
		if l, _, pnl, _, err := wire.ParseShortHeader(data, n); err != nil && !errors.Is(err, wire.ErrInvalidReservedBits) {
			sh = "E:" + hdrErrClass(err)
		} else {
			sh = fmt.Sprintf("ok:%d:%d", l, pnl)
		}
		acid := ""
		if k, d, s, err := wire.ParseArbitraryLenConnectionIDs(data); err != nil {
			acid = "E:" + hdrErrClass(err)
		} else {
			acid = fmt.Sprintf("ok:%d:%s:%s", k, hx(d), hx(s))
		}
		return fmt.Sprintf("cid=%s hdr=%s shdr=%s acid=%s", cid, hdr, sh, acid)
	case "retry":
		h := &wire.ExtendedHeader{
			Header: wire.Header{Type: protocol.PacketTypeRetry, Version: protocol.Version(u64(kv(ws, "v="))),
				DestConnectionID: cidOf(kv(ws, "d=")), SrcConnectionID: cidOf(kv(ws, "s=")), Token: unhx(kv(ws, "tok="))},
			PacketNumberLen: protocol.PacketNumberLen(u64(kv(ws, "pnl="))),
		}
		b, err := h.Append(nil, h.Version)
		if err != nil {
			return "E:" + hdrErrClass(err)
		}
		pkt := append(append([]byte{}, b...), unhx(kv(ws, "tag="))...)
		ph, _, rest, err := wire.ParsePacket(pkt)
		p := ""
		switch {
		case err != nil && errors.Is(err, wire.ErrUnsupportedVersion) && ph != nil:
			p = "unsup"
		case err != nil:
			p = "E:" + hdrErrClass(err)
		default:
			p = fmt.Sprintf("ok,t=%d,d=%s,s=%s,tok=%s,len=%d,pl=%d,rest=%d", ph.Type, hx(ph.DestConnectionID.Bytes()),
				hx(ph.SrcConnectionID.Bytes()), hx(ph.Token), int64(ph.Length), int64(ph.ParsedLen()), len(rest))
		}
		return fmt.Sprintf("%s p=%s", hx(b), p)
	case "dgfit":
		dlp := arg(1) == "1"
		budget := int64(u64(arg(2)))
		n := int64(u64(arg(3)))
		if budget > 1<<20 || n > 1<<20 { // keep allocations small whatever the op says
			return "skip"
		}
		f := &wire.DatagramFrame{DataLenPresent: dlp}
		m := int64(f.MaxDataLen(protocol.ByteCount(budget), protocol.Version1))
		k := n
		if k > m {
			k = m
		}
		if k < 0 {
			k = 0
		}
		f.Data = make([]byte, k)
		b, err := f.Append(nil, protocol.Version1)
		if err != nil {
			return "E:other"
		}
		return fmt.Sprintf("max=%d k=%d len=%d app=%d", m, k, int64(f.Length(protocol.Version1)), len(b))
	}
	return "skip"
}
