//go:build verif

// Driver "slife" (property C15): the life cycle of incoming streams on a REAL connection, from the peer's
// first frame to the MAX_STREAMS credit that hands the slot back.
//
// A case builds one connection through the real constructors (harness/hooks/verif_sglue.go) and then plays
// both the peer (one frame per 1-RTT packet through Conn.handleShortHeaderPacket) and the local application
// (AcceptStream, Read, CancelRead, Write, Close, CancelWrite on the real stream objects); after every
// operation everything the connection wants to send is popped from the real framer; popped frames can be
// acknowledged or declared lost through their real handlers. So ReceiveStream / SendStream.isNewlyCompleted,
// Stream.checkIfCompleted, Conn.onStreamCompleted, streamsMap.DeleteStream and the credit computation are
// all the real code. Runs inside a testing/synctest bubble (Read's "would block" is a virtual deadline).
//
// Line protocol (see lean/Oracle/Slife.lean); every result ends with the common suffix
//   ms=[<MS:b|u:n / SB:b|u:n;…>] sd=[<bidi ids whose send half completed>] <streams-map digest> fr=[<i>=<frame>;…]
//
//   life s|c <maxBidi> <maxUni>   build the connection                     => ok …
//   pkt S:<id>:<fin>              STREAM, one byte at the next offset       => ok | E:limit | E:state:… …
//   pkt F:<id> | R:<id>           a bare FIN / RESET_STREAM (final size = bytes sent so far)
//   pkt T:<id> | M:<id>           STOP_SENDING / MAX_STREAM_DATA
//   acc b|u                       non-blocking AcceptStream / AcceptUniStream => <id> | E:canceled …
//   read <id>                     Read until an error                        => end | deadline | skip …
//   cread <id>                    CancelRead                                 => ok | skip …
//   write|close|cwrite <id>       one byte / Close / CancelWrite on the send half of a bidirectional stream
//   ack|lose <i>                  resolve popped frame i through its handler => ok | skip …
package slife

import (
	"context"
	"errors"
	"fmt"
	"os"
	"sort"
	"strings"
	"testing"
	"testing/synctest"
	"time"

	quic "github.com/refraction-networking/uquic"
	"github.com/refraction-networking/uquic/internal/qerr"
	"github.com/refraction-networking/uquic/internal/verifharness/vh"
)

func errName(err error) string {
	if err == nil {
		return "ok"
	}
	var te *qerr.TransportError
	if errors.As(err, &te) {
		msg := te.ErrorMessage
		switch te.ErrorCode {
		case qerr.StreamLimitError:
			return "E:limit"
		case qerr.ProtocolViolation:
			return "E:proto"
		case qerr.StreamStateError:
			switch {
			case strings.Contains(msg, "invalid frame for send stream"):
				return "E:state:invalid-send"
			case strings.Contains(msg, "invalid frame for receive stream"):
				return "E:state:invalid-recv"
			case strings.Contains(msg, "peer attempted to open stream"):
				return "E:state:peer-open"
			}
			return "E:state:other"
		}
		return fmt.Sprintf("E:transport:%d", uint64(te.ErrorCode))
	}
	switch {
	case errors.Is(err, context.Canceled):
		return "E:canceled"
	}
	return "E:other"
}

// ---- the part that lives inside the bubble

type bubble struct {
	l    *quic.VerifLife
	dead bool
}

func (b *bubble) suffix() string {
	credit, all := b.l.Flush()
	return fmt.Sprintf(" ms=[%s] sd=[%s] %s fr=[%s]", strings.Join(credit, ";"), b.l.SendDone(), b.l.State(), strings.Join(all, ";"))
}

func (b *bubble) exec(op string) (res string) {
	defer func() {
		if e := recover(); e != nil {
			b.dead = true
			res = "PANIC"
		}
	}()
	f := strings.Fields(op)
	if len(f) == 0 {
		return "bad-op"
	}
	if b.dead {
		return "skip"
	}
	if f[0] == "life" {
		if b.l != nil || len(f) != 4 {
			return "skip"
		}
		mb, mu := vh.Atoi64(f[2]), vh.Atoi64(f[3])
		if mb < 0 || mu < 0 || mb > 1000 || mu > 1000 {
			return "skip"
		}
		cv := func(v int64) int64 { // Config: 0 means "default", a negative value means 0
			if v == 0 {
				return -1
			}
			return v
		}
		l, err := quic.VerifLifeNew(f[1] == "s", cv(mb), cv(mu))
		if err != nil {
			return "E:new"
		}
		b.l = l
		return "ok" + b.suffix()
	}
	if b.l == nil || len(f) != 2 {
		return "skip"
	}
	switch f[0] {
	case "pkt":
		p := strings.Split(f[1], ":")
		if len(p) < 2 {
			return "bad-op"
		}
		id := vh.Atoi64(p[1])
		if id < 0 {
			return "bad-op"
		}
		fin := len(p) > 2 && p[2] == "1"
		switch p[0] {
		case "S", "F", "R", "T", "M":
		default:
			return "bad-op"
		}
		return errName(b.l.PeerFrame(p[0], id, fin)) + b.suffix()
	case "acc":
		id, err := b.l.Accept(f[1] == "b")
		if err != nil {
			return errName(err) + b.suffix()
		}
		return fmt.Sprint(id) + b.suffix()
	case "read":
		return b.l.Read(vh.Atoi64(f[1])) + b.suffix()
	case "cread":
		return b.l.CancelRead(vh.Atoi64(f[1])) + b.suffix()
	case "write":
		return b.l.Write(vh.Atoi64(f[1])) + b.suffix()
	case "close":
		return b.l.CloseSend(vh.Atoi64(f[1])) + b.suffix()
	case "cwrite":
		return b.l.CancelWrite(vh.Atoi64(f[1])) + b.suffix()
	case "ack":
		return b.l.Resolve(int(vh.Atoi64(f[1])), false) + b.suffix()
	case "lose":
		return b.l.Resolve(int(vh.Atoi64(f[1])), true) + b.suffix()
	}
	return "bad-op"
}

// ---- the runner (outside the bubble): generator state from the implementation's answers

type istream struct {
	id        int64
	final     bool // the peer sent FIN or RESET_STREAM
	accepted  bool
	readEnd   bool
	cancelled bool
	sendTouch bool
}

type tstate struct {
	first  int64
	next   int64 // next id the peer has not opened yet
	advMax int64 // highest id the implementation allows
	open   []*istream
}

type runner struct {
	reqs  chan string
	resps chan string
	done  chan struct{}

	has     bool
	server  bool
	ts      [2]*tstate // 0 uni, 1 bidi
	pending []int      // popped frames with a handler, unresolved
	dead    bool
}

func newRunner(t *testing.T) *runner {
	rn := &runner{reqs: make(chan string), resps: make(chan string), done: make(chan struct{})}
	go func() {
		defer close(rn.done)
		synctest.Test(t, func(t *testing.T) {
			b := &bubble{}
			for op := range rn.reqs {
				rn.resps <- b.exec(op)
			}
			if b.l != nil {
				b.l.Shutdown()
			}
		})
	}()
	return rn
}

func (rn *runner) Close() {
	close(rn.reqs)
	select {
	case <-rn.done:
	case <-time.After(60 * time.Second):
		fmt.Fprintln(os.Stderr, "slife driver: the case did not tear down within 60s; aborting")
		os.Exit(4)
	}
}

func (rn *runner) Exec(op string) string {
	rn.reqs <- op
	var res string
	select {
	case res = <-rn.resps:
	case <-time.After(60 * time.Second):
		fmt.Fprintf(os.Stderr, "slife driver: operation %q did not return within 60s; aborting\n", op)
		os.Exit(4)
	}
	if strings.HasPrefix(res, "PANIC") {
		rn.dead = true
	}
	rn.observe(op, res)
	return res
}

func firstID(bidi, byServer bool) int64 {
	var id int64
	if !bidi {
		id += 2
	}
	if byServer {
		id++
	}
	return id
}

func tidx(bidi bool) int {
	if bidi {
		return 1
	}
	return 0
}

func (rn *runner) find(id int64) *istream {
	for _, t := range rn.ts {
		if t == nil {
			continue
		}
		for _, s := range t.open {
			if s.id == id {
				return s
			}
		}
	}
	return nil
}

func bracket(rf []string, pre string) string {
	for _, w := range rf {
		if strings.HasPrefix(w, pre) && strings.HasSuffix(w, "]") {
			return w[len(pre) : len(w)-1]
		}
	}
	return ""
}

func (rn *runner) observe(op, res string) {
	f := strings.Fields(op)
	rf := strings.Fields(res)
	if len(f) == 0 || len(rf) == 0 {
		return
	}
	// credit and popped frames
	if rn.has || f[0] == "life" {
		for _, it := range strings.Split(bracket(rf, "ms=["), ";") {
			p := strings.Split(it, ":")
			if len(p) == 3 && p[0] == "MS" && rn.ts[0] != nil {
				t := rn.ts[tidx(p[1] == "b")]
				if id := t.first + 4*(vh.Atoi64(p[2])-1); id > t.advMax {
					t.advMax = id
				}
			}
		}
		for _, it := range strings.Split(bracket(rf, "fr=["), ";") {
			p := strings.SplitN(it, "=", 2)
			if len(p) == 2 && (strings.HasPrefix(p[1], "SF") || strings.HasPrefix(p[1], "STOP") || strings.HasPrefix(p[1], "RST") || strings.HasPrefix(p[1], "MSD")) {
				rn.pending = append(rn.pending, int(vh.Atoi64(p[0])))
			}
		}
	}
	switch f[0] {
	case "life":
		if rf[0] != "ok" || len(f) != 4 {
			return
		}
		rn.has = true
		rn.server = f[1] == "s"
		lim := [2]int64{vh.Atoi64(f[3]), vh.Atoi64(f[2])}
		for i := 0; i < 2; i++ {
			fi := firstID(i == 1, !rn.server)
			rn.ts[i] = &tstate{first: fi, next: fi, advMax: fi + 4*(lim[i]-1)}
			if lim[i] == 0 {
				rn.ts[i].advMax = -1
			}
		}
	case "pkt":
		p := strings.Split(f[1], ":")
		if len(p) < 2 || rf[0] != "ok" || rn.ts[0] == nil {
			return
		}
		id := vh.Atoi64(p[1])
		if (id%2 == 1) == rn.server {
			return // one of our own streams
		}
		t := rn.ts[tidx(id%4 < 2)]
		for t.next <= id {
			t.open = append(t.open, &istream{id: t.next})
			t.next += 4
		}
		if s := rn.find(id); s != nil {
			if p[0] == "R" || p[0] == "F" || (p[0] == "S" && len(p) > 2 && p[2] == "1") {
				s.final = true
			}
		}
	case "acc":
		if s := rn.find(vh.Atoi64(rf[0])); s != nil && !strings.HasPrefix(rf[0], "E:") && rf[0] != "skip" {
			s.accepted = true
		}
	case "read":
		if s := rn.find(vh.Atoi64(f[1])); s != nil && rf[0] == "end" {
			s.readEnd = true
		}
	case "cread":
		if s := rn.find(vh.Atoi64(f[1])); s != nil && rf[0] == "ok" {
			s.cancelled = true
		}
	case "close", "cwrite":
		if s := rn.find(vh.Atoi64(f[1])); s != nil {
			s.sendTouch = true
		}
	case "ack", "lose":
		i := int(vh.Atoi64(f[1]))
		for k, v := range rn.pending {
			if v == i {
				rn.pending = append(rn.pending[:k:k], rn.pending[k+1:]...)
				break
			}
		}
	}
}

var limitChoices = []int64{0, 1, 1, 1, 2, 2, 2, 3, 3, 4, 5, 8}

func (rn *runner) pickStream(r *vh.Rand, pred func(*istream) bool) *istream {
	var c []*istream
	for _, t := range rn.ts {
		for _, s := range t.open {
			if pred(s) {
				c = append(c, s)
			}
		}
	}
	if len(c) == 0 {
		return nil
	}
	return c[r.Intn(len(c))]
}

func (rn *runner) GenOp(r *vh.Rand, i int) string {
	if rn.dead {
		return ""
	}
	if !rn.has {
		if i > 0 {
			return ""
		}
		side := "s"
		if r.Bool() {
			side = "c"
		}
		return fmt.Sprintf("life %s %d %d", side, limitChoices[r.Intn(len(limitChoices))], limitChoices[r.Intn(len(limitChoices))])
	}
	for try := 0; try < 8; try++ {
		switch r.Pick(22, 14, 8, 4, 14, 10, 12, 4, 4, 4, 8, 3, 3) {
		case 0: // the peer opens its next stream(s)
			t := rn.ts[r.Intn(2)]
			id := t.next
			switch r.Pick(70, 15, 10, 5) {
			case 1: // skips ahead, within the credit when there is room
				id = t.next + 4*r.Range(1, 2)
				if id > t.advMax && t.next <= t.advMax {
					id = t.advMax
				}
			case 2: // just above the credit
				id = t.advMax + 4*r.Range(1, 2)
				if t.advMax < 0 {
					id = t.first + 4*r.Range(0, 1)
				}
			case 3: // exactly the last one allowed
				if t.advMax >= t.next && t.advMax-t.next <= 40 {
					id = t.advMax
				}
			}
			k := []string{"S", "S", "S", "R", "F"}[r.Intn(5)]
			if k == "S" {
				return fmt.Sprintf("pkt S:%d:%d", id, r.Pick(70, 30))
			}
			return fmt.Sprintf("pkt %s:%d", k, id)
		case 1: // more data / the end on a stream that is still open at the peer
			if s := rn.pickStream(r, func(s *istream) bool { return !s.final }); s != nil {
				switch r.Pick(40, 30, 10, 20) {
				case 0:
					return fmt.Sprintf("pkt S:%d:0", s.id)
				case 1:
					return fmt.Sprintf("pkt S:%d:1", s.id)
				case 2:
					return fmt.Sprintf("pkt F:%d", s.id)
				default:
					return fmt.Sprintf("pkt R:%d", s.id)
				}
			}
		case 2: // repeated FIN / RESET_STREAM on a finished stream (possibly already deleted)
			if s := rn.pickStream(r, func(s *istream) bool { return s.final }); s != nil {
				if r.Bool() {
					return fmt.Sprintf("pkt F:%d", s.id)
				}
				return fmt.Sprintf("pkt R:%d", s.id)
			}
		case 3: // frames for the send half of a bidirectional stream of the peer / wrong direction
			t := rn.ts[r.Pick(80, 20)%2]
			if r.Chance(80) {
				t = rn.ts[1]
			}
			id := t.next - 4*r.Range(0, 2)
			if id < t.first {
				id = t.first
			}
			return fmt.Sprintf("pkt %s:%d", []string{"T", "M"}[r.Intn(2)], id)
		case 4:
			if r.Bool() {
				return "acc b"
			}
			return "acc u"
		case 5:
			if s := rn.pickStream(r, func(s *istream) bool { return s.accepted && !s.readEnd }); s != nil {
				return fmt.Sprintf("read %d", s.id)
			}
		case 6: // CancelRead: before the end is known, after it, after the end was read, twice
			if s := rn.pickStream(r, func(s *istream) bool { return s.accepted && (!s.cancelled || r.Chance(10)) }); s != nil {
				return fmt.Sprintf("cread %d", s.id)
			}
		case 7:
			if s := rn.pickStream(r, func(s *istream) bool { return s.accepted && s.id%4 < 2 }); s != nil {
				return fmt.Sprintf("write %d", s.id)
			}
		case 8:
			if s := rn.pickStream(r, func(s *istream) bool { return s.accepted && s.id%4 < 2 && !s.sendTouch }); s != nil {
				return fmt.Sprintf("close %d", s.id)
			}
		case 9:
			if s := rn.pickStream(r, func(s *istream) bool { return s.accepted && s.id%4 < 2 }); s != nil {
				return fmt.Sprintf("cwrite %d", s.id)
			}
		case 10:
			if len(rn.pending) > 0 {
				return fmt.Sprintf("ack %d", rn.pending[r.Intn(len(rn.pending))])
			}
		case 11:
			if len(rn.pending) > 0 {
				return fmt.Sprintf("lose %d", rn.pending[r.Intn(len(rn.pending))])
			}
		default: // read on a stream whose end was already consumed / an unknown stream
			if s := rn.pickStream(r, func(s *istream) bool { return s.accepted && s.readEnd }); s != nil {
				return fmt.Sprintf("read %d", s.id)
			}
			return fmt.Sprintf("read %d", rn.ts[r.Intn(2)].next)
		}
	}
	return "acc u"
}

func TestDriver(t *testing.T) {
	go func() { // never hang the check on a modified /repo
		time.Sleep(15 * time.Minute)
		fmt.Fprintln(os.Stderr, "slife driver: still running after 15 minutes; aborting")
		os.Exit(4)
	}()
	_ = sort.Ints
	vh.Main(t, "slife", func(r *vh.Rand) vh.Runner { return newRunner(t) })
}
