//go:build verif

// Package h3t drives ONE reused http3.Transport (public API only) against a real http3.Server over
// testutils/simnet inside a testing/synctest bubble, through histories of requests, failed / hanging /
// abandoned dials, lost connections, CloseIdleConnections and Close (property C18: no connection loss at
// any point of an exchange makes the client panic; the Transport keeps carrying requests afterwards).
//
// One operation is one history:
//
//	tr plans=<p0,p1,..> | <step> | <step> ...
//
// plans: what the k-th call of Transport.Dial does — ok (dial the server), fail (error at once), hang
// (the handshake never completes: returns only when its context ends), gate / gatef (blocks until
// `rel k` or the end of its context, then dials / fails), lost (a real dial towards an address that
// never answers: handshake timeout after 3 s or the end of its context); dials beyond the list: ok.
//
// steps (10 s of virtual time pass after each one, so everything that can happen has happened):
//
//	req h=<host 0|1> g=<gate|-> c=<0|1> oc=<0|1>   a request; g: the handler waits for gate g;
//	                                                c=1: its context has a 500 ms deadline; oc: OnlyCachedConn
//	cancel <i>   cancel the context of request i        open <g>   open handler gate g
//	rel <k>      release dial k                         kill <k>   close the connection of dial k (connection loss)
//	idle         CloseIdleConnections                   close      Transport.Close
//
// result: r=<outcome>@<step>,.. (ok:r<reused> | E:<class> | PANIC | pend)  d=<dials started after each step>
// D=<state of every dial at the end: up | dead | E:<class> | pend>
package h3t

import (
	"context"
	"crypto/x509"
	"errors"
	"fmt"
	"io"
	"net"
	"net/http"
	"net/http/httptrace"
	"strconv"
	"strings"
	"sync"
	"testing"
	"testing/synctest"
	"time"

	quic "github.com/refraction-networking/uquic"
	"github.com/refraction-networking/uquic/http3"
	"github.com/refraction-networking/uquic/integrationtests/tools"
	"github.com/refraction-networking/uquic/internal/verifharness/vh"
	"github.com/refraction-networking/uquic/testutils/simnet"
	tls "github.com/refraction-networking/utls"
)

var (
	theT         *testing.T
	srvTLS       *tls.Config
	cliTLS       *tls.Config
	tlsSetupOnce sync.Once
)

func setupTLS() {
	ca, caKey, err := tools.GenerateCA()
	if err != nil {
		panic(err)
	}
	leaf, leafKey, err := tools.GenerateLeafCert(ca, caKey)
	if err != nil {
		panic(err)
	}
	srvTLS = &tls.Config{
		Certificates: []tls.Certificate{{Certificate: [][]byte{leaf.Raw}, PrivateKey: leafKey}},
		NextProtos:   []string{http3.NextProtoH3},
	}
	root := x509.NewCertPool()
	root.AddCert(ca)
	cliTLS = &tls.Config{ServerName: "localhost", RootCAs: root, NextProtos: []string{http3.NextProtoH3}}
}

const (
	settle      = 10 * time.Second
	reqDeadline = 500 * time.Millisecond
	hsTimeout   = 3 * time.Second
)

var errDialBoom = errors.New("h3t: dial failed")

type step struct {
	kind      string
	h, g      int // g < 0: no gate
	c, oc     bool
	arg       int
}

func parseHistory(op string) (plans []string, steps []step, ok bool) {
	parts := strings.Split(op, " | ")
	f := strings.Fields(parts[0])
	if len(f) == 0 || f[0] != "tr" {
		return nil, nil, false
	}
	for _, x := range f[1:] {
		if strings.HasPrefix(x, "plans=") {
			v := x[len("plans="):]
			if v != "-" && v != "" {
				for _, p := range strings.Split(v, ",") {
					switch p {
					case "ok", "fail", "hang", "gate", "gatef", "lost":
						plans = append(plans, p)
					default:
						return nil, nil, false
					}
				}
			}
		}
	}
	get := func(fs []string, key string) string {
		for _, x := range fs {
			if strings.HasPrefix(x, key+"=") {
				return x[len(key)+1:]
			}
		}
		return ""
	}
	for _, p := range parts[1:] {
		fs := strings.Fields(p)
		if len(fs) == 0 {
			return nil, nil, false
		}
		st := step{kind: fs[0], g: -1}
		switch fs[0] {
		case "req":
			st.h, _ = strconv.Atoi(get(fs[1:], "h"))
			if v := get(fs[1:], "g"); v != "-" && v != "" {
				st.g, _ = strconv.Atoi(v)
			}
			st.c, st.oc = get(fs[1:], "c") == "1", get(fs[1:], "oc") == "1"
			if st.h < 0 || st.h > 7 {
				return nil, nil, false
			}
		case "cancel", "open", "rel", "kill":
			if len(fs) != 2 {
				return nil, nil, false
			}
			n, err := strconv.Atoi(fs[1])
			if err != nil || n < 0 || n > 1000 {
				return nil, nil, false
			}
			st.arg = n
		case "idle", "close":
			if len(fs) != 1 {
				return nil, nil, false
			}
		default:
			return nil, nil, false
		}
		steps = append(steps, st)
	}
	if len(steps) == 0 || len(steps) > 40 || len(plans) > 16 {
		return nil, nil, false
	}
	return plans, steps, true
}

func errClass(err error) string {
	switch {
	case errors.Is(err, errDialBoom):
		return "E:dial"
	case errors.Is(err, http3.ErrTransportClosed):
		return "E:closed"
	case errors.Is(err, http3.ErrNoCachedConn):
		return "E:nocached"
	case errors.Is(err, context.DeadlineExceeded):
		return "E:deadline"
	case errors.Is(err, context.Canceled):
		return "E:canceled"
	}
	// no answer during the handshake (idle connections of a history live for an hour: never in an established one)
	var hte *quic.HandshakeTimeoutError
	var ite *quic.IdleTimeoutError
	if errors.As(err, &hte) || errors.As(err, &ite) {
		return "E:hstimeout"
	}
	return "E:conn"
}

type dropRouter struct {
	simnet.PerfectRouter
	blackhole string
}

func (r *dropRouter) SendPacket(p simnet.Packet) error {
	if p.To.String() == r.blackhole {
		return nil
	}
	return r.PerfectRouter.SendPacket(p)
}

type gates struct {
	mu sync.Mutex
	m  map[int]chan struct{}
}

func (g *gates) ch(k int) chan struct{} {
	g.mu.Lock()
	defer g.mu.Unlock()
	if g.m == nil {
		g.m = map[int]chan struct{}{}
	}
	c, ok := g.m[k]
	if !ok {
		c = make(chan struct{})
		g.m[k] = c
	}
	return c
}

func (g *gates) open(k int) {
	c := g.ch(k)
	g.mu.Lock()
	defer g.mu.Unlock()
	select {
	case <-c:
	default:
		close(c)
	}
}

func (g *gates) openAll() {
	g.mu.Lock()
	ks := make([]int, 0, len(g.m))
	for k := range g.m {
		ks = append(ks, k)
	}
	g.mu.Unlock()
	for _, k := range ks {
		g.open(k)
	}
}

func runHistory(plans []string, steps []step) string {
	var out string
	run := func(t *testing.T) {
		serverAddr := &net.UDPAddr{IP: net.ParseIP("1.0.0.2"), Port: 443}
		blackhole := &net.UDPAddr{IP: net.ParseIP("1.0.0.9"), Port: 443}
		router := &dropRouter{blackhole: blackhole.String()}
		settings := simnet.NodeBiDiLinkSettings{LatencyFunc: func(simnet.Packet) time.Duration { return 5 * time.Millisecond }}
		n := &simnet.Simnet{Router: router}
		cconn := n.NewEndpoint(&net.UDPAddr{IP: net.ParseIP("1.0.0.1"), Port: 9001}, settings)
		sconn := n.NewEndpoint(serverAddr, settings)
		if err := n.Start(); err != nil {
			panic(err)
		}
		var hgates, dgates gates
		handler := http.HandlerFunc(func(w http.ResponseWriter, req *http.Request) {
			if p := req.URL.Path; strings.HasPrefix(p, "/g") {
				if k, err := strconv.Atoi(p[2:]); err == nil {
					select {
					case <-hgates.ch(k):
					case <-req.Context().Done():
						return
					}
				}
			}
			w.WriteHeader(200)
			w.Write([]byte("ok"))
		})
		qconf := &quic.Config{MaxIdleTimeout: time.Hour, HandshakeIdleTimeout: hsTimeout}
		server := &http3.Server{TLSConfig: srvTLS.Clone(), QUICConfig: qconf.Clone(), Handler: handler}
		sdone := make(chan struct{})
		go func() { defer close(sdone); server.Serve(sconn) }()

		var mu sync.Mutex
		cur, ended := 0, false
		type dialRec struct {
			state string // pend | up | E:..
			conn  *quic.Conn
		}
		var dials []*dialRec
		ctr := &quic.Transport{Conn: cconn}
		tr := &http3.Transport{
			TLSClientConfig: cliTLS.Clone(),
			QUICConfig:      qconf.Clone(),
			Dial: func(ctx context.Context, _ string, tlsCfg *tls.Config, cfg *quic.Config) (*quic.Conn, error) {
				mu.Lock()
				k := len(dials)
				rec := &dialRec{state: "pend"}
				dials = append(dials, rec)
				mu.Unlock()
				plan := "ok"
				if k < len(plans) {
					plan = plans[k]
				}
				var conn *quic.Conn
				var err error
				switch plan {
				case "ok":
					conn, err = ctr.DialEarly(ctx, serverAddr, tlsCfg, cfg)
				case "fail":
					time.Sleep(time.Millisecond)
					err = errDialBoom
				case "hang":
					<-ctx.Done()
					err = ctx.Err()
				case "gate", "gatef":
					select {
					case <-dgates.ch(k):
						if plan == "gate" {
							conn, err = ctr.DialEarly(ctx, serverAddr, tlsCfg, cfg)
						} else {
							err = errDialBoom
						}
					case <-ctx.Done():
						err = ctx.Err()
					}
				case "lost":
					conn, err = ctr.DialEarly(ctx, blackhole, tlsCfg, cfg)
				}
				mu.Lock()
				if !ended {
					if err != nil {
						rec.state = errClass(err)
					} else {
						rec.state, rec.conn = "up", conn
					}
				}
				mu.Unlock()
				return conn, err
			},
		}

		type reqRec struct {
			out    string
			cancel context.CancelFunc
		}
		var reqs []*reqRec
		var wg sync.WaitGroup
		startReq := func(st step) {
			ctx, cancel := context.WithCancel(context.Background())
			if st.c {
				var c2 context.CancelFunc
				ctx, c2 = context.WithTimeout(ctx, reqDeadline)
				_ = c2 // released by the parent's cancel at the end of the history
			}
			rec := &reqRec{out: "pend", cancel: cancel}
			mu.Lock()
			reqs = append(reqs, rec)
			mu.Unlock()
			reused := 0
			ctx = httptrace.WithClientTrace(ctx, &httptrace.ClientTrace{GotConn: func(info httptrace.GotConnInfo) {
				reused = 0
				if info.Reused {
					reused = 1
				}
			}})
			path := "/plain"
			if st.g >= 0 {
				path = "/g" + strconv.Itoa(st.g)
			}
			req, err := http.NewRequestWithContext(ctx, "GET", fmt.Sprintf("https://h%d.test%s", st.h, path), nil)
			if err != nil {
				panic(err)
			}
			wg.Add(1)
			go func() {
				defer wg.Done()
				res := "PANIC"
				defer func() {
					if res == "PANIC" {
						recover()
					}
					mu.Lock()
					if !ended {
						rec.out = fmt.Sprintf("%s@%d", res, cur)
					}
					mu.Unlock()
				}()
				rsp, err := tr.RoundTripOpt(req, http3.RoundTripOpt{OnlyCachedConn: st.oc})
				if err != nil {
					res = errClass(err)
					return
				}
				_, rerr := io.ReadAll(rsp.Body)
				rsp.Body.Close()
				if rerr != nil {
					res = errClass(rerr)
					return
				}
				res = fmt.Sprintf("ok:r%d", reused)
				if rsp.StatusCode != 200 {
					res = fmt.Sprintf("st%d", rsp.StatusCode)
				}
			}()
		}

		var dlog []string
		for si, st := range steps {
			mu.Lock()
			cur = si
			mu.Unlock()
			switch st.kind {
			case "req":
				startReq(st)
			case "cancel":
				mu.Lock()
				var c context.CancelFunc
				if st.arg < len(reqs) && reqs[st.arg].out == "pend" {
					c = reqs[st.arg].cancel
				}
				mu.Unlock()
				if c != nil {
					c()
				}
			case "open":
				hgates.open(st.arg)
			case "rel":
				dgates.open(st.arg)
			case "kill":
				mu.Lock()
				var c *quic.Conn
				if st.arg < len(dials) {
					c = dials[st.arg].conn
				}
				mu.Unlock()
				if c != nil {
					c.CloseWithError(0x10c, "killed")
				}
			case "idle":
				tr.CloseIdleConnections()
			case "close":
				tr.Close()
			}
			time.Sleep(settle)
			mu.Lock()
			dlog = append(dlog, strconv.Itoa(len(dials)))
			mu.Unlock()
		}
		// the report
		mu.Lock()
		ended = true
		var rs, ds []string
		for _, r := range reqs {
			rs = append(rs, r.out)
		}
		for _, d := range dials {
			s := d.state
			if s == "up" && d.conn.Context().Err() != nil {
				s = "dead"
			}
			ds = append(ds, s)
		}
		cancels := make([]context.CancelFunc, 0, len(reqs))
		for _, r := range reqs {
			cancels = append(cancels, r.cancel)
		}
		mu.Unlock()
		commaOr := func(l []string) string {
			if len(l) == 0 {
				return "-"
			}
			return strings.Join(l, ",")
		}
		out = fmt.Sprintf("r=%s d=%s D=%s", commaOr(rs), commaOr(dlog), commaOr(ds))
		// cleanup
		for _, c := range cancels {
			c()
		}
		hgates.openAll()
		dgates.openAll()
		wg.Wait()
		tr.Close()
		server.Close()
		<-sdone
		ctr.Close()
		cconn.Close()
		sconn.Close()
		n.Close()
	}
	synctest.Test(theT, run)
	return out
}

// ---------------------------------------------------------------- runner + generator

type runner struct{}

func (rn *runner) Exec(op string) string {
	plans, steps, ok := parseHistory(op)
	if !ok {
		return "bad-op"
	}
	return runHistory(plans, steps)
}

var planKinds = []string{"ok", "fail", "hang", "gate", "gatef", "lost"}

func (rn *runner) GenOp(r *vh.Rand, i int) string {
	var plans []string
	for k := r.Intn(5); k > 0; k-- {
		plans = append(plans, planKinds[r.Pick(25, 15, 20, 15, 10, 15)])
	}
	var steps []string
	nreq, ngate, closed := 0, 0, false
	hosts := 1 + r.Intn(2)
	addReq := func(gated, c, oc bool) {
		g := "-"
		if gated {
			g = strconv.Itoa(ngate)
			ngate++
		}
		b := func(x bool) int {
			if x {
				return 1
			}
			return 0
		}
		steps = append(steps, fmt.Sprintf("req h=%d g=%s c=%d oc=%d", r.Intn(hosts), g, b(c), b(oc)))
		nreq++
	}
	for k := 1 + r.Intn(8); k > 0; k-- {
		switch r.Pick(45, 14, 8, 10, 8, 8, 4, 3) {
		case 0:
			addReq(r.Chance(30), r.Chance(25), r.Chance(10))
		case 1:
			if nreq > 0 {
				steps = append(steps, fmt.Sprintf("cancel %d", r.Intn(nreq)))
			} else {
				addReq(false, true, false)
			}
		case 2:
			if ngate > 0 {
				steps = append(steps, fmt.Sprintf("open %d", r.Intn(ngate)))
			}
		case 3:
			steps = append(steps, fmt.Sprintf("rel %d", r.Intn(len(plans)+1)))
		case 4:
			steps = append(steps, fmt.Sprintf("kill %d", r.Intn(len(plans)+2)))
		case 5:
			steps = append(steps, "idle")
		case 6:
			if r.Chance(40) {
				steps = append(steps, "close")
				closed = true
			}
		case 7:
			// the abandoned dial: a request with a deadline, then (later) the next one
			addReq(false, true, false)
		}
	}
	if len(steps) == 0 {
		addReq(false, false, false)
	}
	// quiesce and probe: everything that waits is cancelled / opened / released, then two plain requests
	if !closed && r.Chance(75) {
		if r.Chance(70) {
			for i := 0; i < nreq; i++ {
				steps = append(steps, fmt.Sprintf("cancel %d", i))
			}
		}
		for g := 0; g < ngate; g++ {
			steps = append(steps, fmt.Sprintf("open %d", g))
		}
		for k := 0; k < len(plans); k++ {
			if plans[k] == "gate" || plans[k] == "gatef" {
				steps = append(steps, fmt.Sprintf("rel %d", k))
			}
		}
		h := r.Intn(hosts)
		steps = append(steps, fmt.Sprintf("req h=%d g=- c=0 oc=0", h), fmt.Sprintf("req h=%d g=- c=0 oc=0", h))
	}
	if len(steps) > 40 {
		steps = steps[len(steps)-40:]
	}
	ps := "-"
	if len(plans) > 0 {
		ps = strings.Join(plans, ",")
	}
	return "tr plans=" + ps + " | " + strings.Join(steps, " | ")
}

func newRunner(r *vh.Rand) vh.Runner { return &runner{} }

// enumerate (thorough tier): every plan list of length <= 2, a first request with or without a deadline,
// one further step, then quiesce and two plain requests - the neighbourhood of the abandoned dial.
func enumerate(emit func(ops []string)) {
	var planLists [][]string
	planLists = append(planLists, nil)
	for _, a := range planKinds {
		planLists = append(planLists, []string{a})
		for _, b := range planKinds {
			planLists = append(planLists, []string{a, b})
		}
	}
	seconds := []string{"cancel 0", "rel 0", "kill 0", "idle", "req h=0 g=- c=0 oc=0", "req h=0 g=- c=1 oc=0", "req h=0 g=0 c=0 oc=0", "req h=0 g=- c=0 oc=1"}
	for _, pl := range planLists {
		ps := "-"
		if len(pl) > 0 {
			ps = strings.Join(pl, ",")
		}
		for _, c := range []int{0, 1} {
			for _, snd := range seconds {
				steps := []string{fmt.Sprintf("req h=0 g=- c=%d oc=0", c), snd, "cancel 0", "cancel 1", "open 0", "rel 0", "rel 1",
					"req h=0 g=- c=0 oc=0", "req h=0 g=- c=0 oc=0"}
				emit([]string{"tr plans=" + ps + " | " + strings.Join(steps, " | ")})
			}
		}
	}
}

func TestDriver(t *testing.T) {
	theT = t
	tlsSetupOnce.Do(setupTLS)
	vh.MainEnum(t, "h3t", newRunner, enumerate)
}
