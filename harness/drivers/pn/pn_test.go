//go:build verif

// Driver "pn": packet-number codec (DecodePacketNumber, PacketNumberLengthForHeader, the wire
// truncation of appendPacketNumber via AppendShortHeader/ParseShortHeader) and the packet number
// generators of internal/ackhandler.
package pn

import (
	"fmt"
	"os"
	"strings"
	"testing"

	"github.com/refraction-networking/uquic/internal/ackhandler"
	"github.com/refraction-networking/uquic/internal/protocol"
	"github.com/refraction-networking/uquic/internal/verifharness/vh"
	"github.com/refraction-networking/uquic/internal/wire"
)

const maxPN = int64(1)<<62 - 1

type runner struct {
	gen *ackhandler.VerifPNGen
	// generator-side state
	hasGen  bool
	codecOn bool
}

// ---- bounded-exhaustive enumeration (thorough tier): a global cursor shared by all cases

type enumState struct {
	phase int
	i, j  int64
	k     int
	len   int
	done  bool
}

var enum enumState

var edgeOffsets = func() []int64 {
	var o []int64
	for d := int64(-2); d <= 2; d++ {
		o = append(o, d)
	}
	return o
}()

// nextEnum returns the next op of the exhaustive sweep, or "" when finished.
// phase 0: every len 1..4, every L in [-1,300], every pn in [0,300+...]: `rt`-like raw decode with all truncated values
// phase 1: every len, every power of two 2^k (k=0..62), L = 2^k+dl (|dl| <= 300), pn = L+1+off for the window edges
// phase 2: pnlen/rt for pn - largestAcked within +-300 of 2^15, 2^23, 2^31 at bases 2^k
func nextEnum() string {
	e := &enum
	for !e.done {
		switch e.phase {
		case 0: // small universe, exhaustive: len x L x pn
			if e.len == 0 {
				e.len, e.i, e.j = 1, -1, 0
			}
			ln, L, pn := e.len, e.i, e.j
			e.j++
			if e.j > 300 {
				e.j = 0
				e.i++
				if e.i > 300 {
					e.i = -1
					e.len++
					if e.len > 4 {
						e.phase, e.len, e.k, e.i, e.j = 1, 1, 0, -300, 0
					}
				}
			}
			win := int64(1) << (8 * ln)
			return fmt.Sprintf("pndec %d %d %d", ln, L, pn%win)
		case 1:
			ln, k, dl, oi := e.len, e.k, e.i, e.j
			// advance
			e.j++
			if e.j >= 15 {
				e.j = 0
				e.i++
				if e.i > 300 {
					e.i = -300
					e.k++
					if e.k > 62 {
						e.k = 0
						e.len++
						if e.len > 4 {
							e.phase, e.k, e.i, e.j = 2, 0, -300, 0
						}
					}
				}
			}
			L := int64(1)<<k + dl
			if L < -1 || L > maxPN {
				continue
			}
			win := int64(1) << (8 * ln)
			hwin := win / 2
			base := []int64{-hwin, 0, hwin}[oi/5]
			pn := L + 1 + base + edgeOffsets[oi%5]
			if pn < 0 || pn > maxPN {
				continue
			}
			return fmt.Sprintf("pndec %d %d %d", ln, L, pn%win)
		case 2:
			// numUnacked = pn - la around the thresholds, la = -1 and la = 2^k-ish
			thr := []int64{1 << 15, 1 << 23, 1 << 31}
			t, d, which := e.k, e.i, e.j
			e.j++
			if e.j >= 4 {
				e.j = 0
				e.i++
				if e.i > 300 {
					e.i = -300
					e.k++
					if e.k >= len(thr) {
						e.done = true
					}
				}
			}
			var la int64
			switch which {
			case 0:
				la = -1
			case 1:
				la = 0
			case 2:
				la = 1<<40 + 12345
			case 3:
				la = maxPN - thr[t] - 400
			}
			pn := la + thr[t] + d
			if pn < 0 || pn > maxPN {
				continue
			}
			// receiver at the two extremes allowed for in-order delivery
			if d%2 == 0 {
				return fmt.Sprintf("rt %d %d %d", pn, la, la)
			}
			return fmt.Sprintf("rt %d %d %d", pn, la, pn-1)
		default:
			e.done = true
		}
	}
	return ""
}

func newRunner(r *vh.Rand) vh.Runner {
	return &runner{}
}

func randPN(r *vh.Rand) int64 {
	switch r.Pick(30, 40, 20, 10) {
	case 0:
		return r.Range(0, 70000)
	case 1: // near a power of two
		k := r.Intn(63)
		v := int64(1)<<k + r.Range(-300, 300)
		if v < 0 {
			v = 0
		}
		if v > maxPN {
			v = maxPN
		}
		return v
	case 2:
		return int64(r.U64() >> 2) // < 2^62
	default:
		return maxPN - r.Range(0, 70000)
	}
}

func clampPN(v int64, lo int64) int64 {
	if v < lo {
		return lo
	}
	if v > maxPN {
		return maxPN
	}
	return v
}

func (rn *runner) GenOp(r *vh.Rand, i int) string {
	if os.Getenv("VH_TIER") == "thorough" && !enum.done && r.Chance(92) {
		if op := nextEnum(); op != "" {
			return op
		}
	}
	if !rn.hasGen && r.Chance(60) {
		rn.hasGen = true
		if r.Chance(20) {
			return fmt.Sprintf("gnew seq %d 0 0", randPN(r)/2)
		}
		// small periods make skips frequent; also the production parameters
		if r.Chance(25) {
			return fmt.Sprintf("gnew skip %d %d %d", randPN(r)/2, int64(protocol.SkipPacketInitialPeriod), int64(protocol.SkipPacketMaxPeriod))
		}
		p := r.Range(1, 6)
		return fmt.Sprintf("gnew skip %d %d %d", randPN(r)/2, p, p*r.Range(1, 8))
	}
	switch r.Pick(30, 8, 30, 22, 10) {
	case 0: // raw decode
		ln := int(r.Range(1, 4))
		win := int64(1) << (8 * ln)
		hwin := win / 2
		L := randPN(r)
		if r.Chance(10) {
			L = -1
		}
		var pn int64
		switch r.Pick(40, 40, 20) {
		case 0:
			pn = L + 1 + []int64{-hwin, 0, hwin}[r.Intn(3)] + r.Range(-3, 3)
		case 1:
			pn = L + 1 + r.Range(-hwin-5, hwin+5)
		default:
			pn = randPN(r)
		}
		pn = clampPN(pn, 0)
		trunc := pn % win
		if r.Chance(3) { // malformed caller: truncated value wider than the window (the wire parser never does this)
			trunc = pn % (win * 4)
		}
		return fmt.Sprintf("pndec %d %d %d", ln, L, trunc)
	case 1:
		pn := randPN(r)
		la := int64(-1)
		if r.Chance(75) {
			thr := []int64{1 << 15, 1 << 23, 1 << 31}[r.Intn(3)]
			la = clampPN(pn-thr+r.Range(-3, 3), -1)
		}
		return fmt.Sprintf("pnlen %d %d", pn, la)
	case 2: // full round trip through the real length choice, wire encoding and decoder
		pn := randPN(r)
		la := int64(-1)
		switch r.Pick(15, 45, 40) {
		case 1:
			thr := []int64{1 << 15, 1 << 23, 1 << 31}[r.Intn(3)]
			la = clampPN(pn-thr+r.Range(-3, 3), -1)
		case 2:
			la = clampPN(pn-1-r.Range(0, 100000), -1)
		}
		var L int64
		switch r.Pick(30, 30, 25, 15) {
		case 0:
			L = la
		case 1:
			L = pn - 1
		case 2: // anywhere between, in-order
			L = r.Range(la, pn-1)
		default: // reordering: receiver already ahead of pn (inside or outside the window)
			L = pn + []int64{1 << 7, 1 << 15, 1 << 23, 1 << 31}[r.Intn(4)] + r.Range(-4, 2)
		}
		L = clampPN(L, -1)
		return fmt.Sprintf("rt %d %d %d", pn, la, L)
	case 3:
		if rn.hasGen {
			return "pop"
		}
		return "peek"
	default:
		return "peek"
	}
}

func (rn *runner) Exec(op string) string {
	f := strings.Fields(op)
	switch f[0] {
	case "pndec":
		return fmt.Sprintf("%d", int64(protocol.DecodePacketNumber(protocol.PacketNumberLen(vh.Atoi64(f[1])), protocol.PacketNumber(vh.Atoi64(f[2])), protocol.PacketNumber(vh.Atoi64(f[3])))))
	case "pnlen":
		return fmt.Sprintf("%d", protocol.PacketNumberLengthForHeader(protocol.PacketNumber(vh.Atoi64(f[1])), protocol.PacketNumber(vh.Atoi64(f[2]))))
	case "rt":
		pn, la, L := protocol.PacketNumber(vh.Atoi64(f[1])), protocol.PacketNumber(vh.Atoi64(f[2])), protocol.PacketNumber(vh.Atoi64(f[3]))
		ln := protocol.PacketNumberLengthForHeader(pn, la)
		b, err := wire.AppendShortHeader(nil, protocol.ConnectionID{}, pn, ln, protocol.KeyPhaseZero)
		if err != nil {
			return "E:append"
		}
		b = append(b, make([]byte, 4)...)
		_, trunc, ln2, _, err := wire.ParseShortHeader(b, 0)
		if err != nil || ln2 != ln {
			return "E:parse"
		}
		return fmt.Sprintf("%d %d %d", ln, int64(trunc), int64(protocol.DecodePacketNumber(ln, L, trunc)))
	case "gnew":
		if f[1] == "seq" {
			rn.gen = ackhandler.VerifNewSequentialPNGen(protocol.PacketNumber(vh.Atoi64(f[2])))
		} else {
			rn.gen = ackhandler.VerifNewSkippingPNGen(protocol.PacketNumber(vh.Atoi64(f[2])), protocol.PacketNumber(vh.Atoi64(f[3])), protocol.PacketNumber(vh.Atoi64(f[4])))
		}
		return fmt.Sprintf("nts=%d", int64(rn.gen.NextToSkip()))
	case "peek":
		if rn.gen == nil {
			return "skip"
		}
		return fmt.Sprintf("%d", int64(rn.gen.Peek()))
	case "pop":
		if rn.gen == nil {
			return "skip"
		}
		sk, pn := rn.gen.Pop()
		s := "-"
		if sk {
			s = fmt.Sprintf("%d", int64(pn)-1)
		}
		return fmt.Sprintf("%d skipped=%s nts=%d", int64(pn), s, int64(rn.gen.NextToSkip()))
	}
	return "bad-op"
}

func TestDriver(t *testing.T) { vh.Main(t, "pn", newRunner) }
