//go:build verif

package e2esmoke

import (
	"context"
	"io"
	"testing"
	"testing/synctest"
	"time"

	quic "github.com/refraction-networking/uquic"
	"github.com/refraction-networking/uquic/internal/verifharness/e2e"
)

func echoOnce(t *testing.T, spec *quic.QUICSpec, faults []e2e.Fault) {
	synctest.Test(t, func(t *testing.T) {
		env, err := e2e.Start(e2e.Setup{Spec: spec, Faults: faults, Qlog: true})
		if err != nil {
			t.Fatal(err)
		}
		defer env.Close()
		done := make(chan struct{})
		go func() {
			defer close(done)
			c, err := env.Listener.Accept(context.Background())
			if err != nil {
				return
			}
			s, err := c.AcceptStream(context.Background())
			if err != nil {
				t.Errorf("accept stream: %v", err)
				return
			}
			b, _ := io.ReadAll(s)
			s.Write(b)
			s.Close()
		}()
		ctx, cancel := context.WithTimeout(context.Background(), 30*time.Second)
		defer cancel()
		c, err := env.Dial(ctx)
		if err != nil {
			t.Fatalf("dial: %v", err)
		}
		s, err := c.OpenStreamSync(ctx)
		if err != nil {
			t.Fatal(err)
		}
		s.Write([]byte("hello verif"))
		s.Close()
		b, err := io.ReadAll(s)
		if err != nil || string(b) != "hello verif" {
			t.Fatalf("echo: %q %v", b, err)
		}
		<-done
		c.CloseWithError(0, "")
		t.Logf("c2s datagrams: %d, first len %d, elapsed %v", len(env.Net.Datagrams(e2e.ToServer)), len(env.Net.Datagrams(e2e.ToServer)[0].Data), env.Net.Datagrams(e2e.ToServer)[len(env.Net.Datagrams(e2e.ToServer))-1].At)
	})
}

func TestPlain(t *testing.T) { echoOnce(t, nil, nil) }

func TestPlainLossy(t *testing.T) {
	echoOnce(t, nil, []e2e.Fault{{Dir: e2e.ToServer, Index: 0, Kind: "drop"}, {Dir: e2e.ToClient, Index: 1, Kind: "dup"}, {Dir: e2e.ToClient, Index: 2, Kind: "flip", Arg: 77}})
}

func TestChrome115(t *testing.T) {
	spec, err := quic.QUICID2Spec(quic.QUICChrome_115_IPv4)
	if err != nil {
		t.Fatal(err)
	}
	echoOnce(t, &spec, nil)
}

func TestFirefox116(t *testing.T) {
	spec, err := quic.QUICID2Spec(quic.QUICFirefox_116A)
	if err != nil {
		t.Fatal(err)
	}
	echoOnce(t, &spec, nil)
}
