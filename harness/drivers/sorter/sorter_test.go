//go:build verif

// Driver `sorter` (property C03): the real frameSorter and cryptoStream, in-process.
package sorter

import (
	"errors"
	"fmt"
	"os"
	"strings"
	"testing"
	"time"

	quic "github.com/refraction-networking/uquic"
	"github.com/refraction-networking/uquic/internal/qerr"
	"github.com/refraction-networking/uquic/internal/verifharness/vh"
)

var cellSizes = []int64{1, 64, 127, 128, 129, 300}

// lattice of the bounded-exhaustive sweep: 6 cells, sizes on both sides of MinStreamFrameBufferSize
var enumCells = []int64{64, 128, 1, 129, 127, 300}

const enumSegs = 21 // pairs a<b over 7 lattice points
const enumTotal = 21 + 21*21 + 21*21*21 + 21*21*21*21

var caseCounter int

type runner struct {
	s    *quic.VerifSorter
	c    *quic.VerifCryptoStream
	salt uint64
	bufs map[int][]byte
	fired []int
	dead  bool // a push failed: the connection is closed, the sorter is never used again

	// generator
	pts      []int64
	style    int
	nextID   int
	planLen  int
	draining int
	lastPopNil bool
	pushed   [][2]int64
	plan     []string // fixed plan (enumerated cases)
	cHigh    int64
}

func newRunner(r *vh.Rand) vh.Runner {
	rn := &runner{s: quic.VerifNewSorter(), c: quic.VerifNewCryptoStream(), bufs: map[int][]byte{}, nextID: 1}
	caseCounter++
	if os.Getenv("VH_MODE") == "gen" && os.Getenv("VH_TIER") == "thorough" && caseCounter <= enumTotal {
		rn.plan = enumPlan(caseCounter - 1)
	}
	return rn
}

func latticeOf(cells []int64) []int64 {
	pts := []int64{0}
	for _, c := range cells {
		pts = append(pts, pts[len(pts)-1]+c)
	}
	return pts
}

// enumPlan decodes case k of the sweep: all sequences of 1..4 segments over the 6-cell lattice.
func enumPlan(k int) []string {
	n := 1
	cnt := enumSegs
	for k >= cnt {
		k -= cnt
		cnt *= enumSegs
		n++
	}
	pts := latticeOf(enumCells)
	var segs [][2]int64
	for a := 0; a < len(pts); a++ {
		for b := a + 1; b < len(pts); b++ {
			segs = append(segs, [2]int64{pts[a], pts[b]})
		}
	}
	plan := []string{"init 7"}
	for i := 0; i < n; i++ {
		sg := segs[k%enumSegs]
		k /= enumSegs
		plan = append(plan, fmt.Sprintf("push %d %d %d 0 1", i+1, sg[0], sg[1]-sg[0]))
	}
	plan = append(plan, "dump", "peek 0 200", "DRAIN")
	return plan
}

func (rn *runner) drainOp() string {
	// pop until nil, then more, dump, end
	switch {
	case rn.draining == 0:
		rn.draining = 1
		rn.lastPopNil = false
		return "pop"
	case rn.draining == 1 && !rn.lastPopNil:
		return "pop"
	case rn.draining == 1:
		rn.draining = 2
		return "more"
	case rn.draining == 2:
		rn.draining = 3
		return "dump"
	}
	return ""
}

func (rn *runner) GenOp(r *vh.Rand, i int) string {
	if rn.plan != nil {
		if i < len(rn.plan) && rn.plan[i] != "DRAIN" {
			return rn.plan[i]
		}
		return rn.drainOp()
	}
	if i == 0 {
		rn.salt = uint64(r.Intn(1 << 20))
		rn.style = r.Pick(40, 22, 15, 8, 15)
		nc := 3 + r.Intn(9)
		cells := make([]int64, nc)
		for j := range cells {
			cells[j] = cellSizes[r.Pick(25, 15, 15, 15, 15, 15)]
		}
		rn.pts = latticeOf(cells)
		rn.planLen = 4 + r.Intn(70)
		return fmt.Sprintf("init %d", rn.salt)
	}
	if rn.dead && rn.style != 4 {
		return ""
	}
	if rn.draining > 0 || i > rn.planLen {
		return rn.drainOp()
	}
	total := rn.pts[len(rn.pts)-1]
	if rn.style == 4 { // crypto-heavy
		switch r.Pick(60, 30, 6, 4) {
		case 0:
			return rn.genCrypto(r)
		case 1:
			return "cget"
		case 2:
			return "cfinish"
		}
		return "pop"
	}
	switch r.Pick(56, 20, 8, 4, 5, 7) {
	case 0:
		if rn.style == 3 && r.Chance(25) {
			// many disjoint one-byte pieces: approaches / exceeds MaxStreamFrameSorterGaps
			cnt := []int{50, 400, 990, 1003, 1100}[r.Pick(30, 20, 15, 25, 10)]
			off := total + 10 + int64(r.Intn(2000))
			id0 := rn.nextID
			rn.nextID += cnt
			return fmt.Sprintf("bulk %d %d %d %d %d", id0, off, 2+r.Intn(2), 1+r.Intn(2), cnt)
		}
		var a, b int64
		n := len(rn.pts)
		switch {
		case rn.style == 1: // arbitrary cuts
			a = r.Range(0, total)
			b = a + r.Range(0, 400)
			if r.Chance(30) {
				b = a + r.Range(0, 5)
			}
		case rn.style == 2: // mostly in order, small reordering
			k := r.Intn(n - 1)
			a, b = rn.pts[k], rn.pts[k+1]
			if len(rn.pushed) > 0 && r.Chance(60) {
				last := rn.pushed[len(rn.pushed)-1]
				a = last[1]
				b = a + cellSizes[r.Intn(len(cellSizes))]
			}
		default:
			x := r.Intn(n - 1)
			y := x + 1 + r.Intn(min(n-1-x, 3))
			if r.Chance(15) {
				y = x + 1 + r.Intn(n-1-x)
			}
			a, b = rn.pts[x], rn.pts[y]
			if r.Chance(12) { // off-lattice by one
				a += r.Range(-1, 1)
				b += r.Range(-1, 1)
			}
		}
		if len(rn.pushed) > 0 {
			p := rn.pushed[r.Intn(len(rn.pushed))]
			switch r.Pick(70, 8, 8, 7, 7) {
			case 1: // duplicate
				a, b = p[0], p[1]
			case 2: // superset
				a, b = p[0]-r.Range(0, 130), p[1]+r.Range(0, 130)
			case 3: // subset
				if p[1]-p[0] >= 2 {
					a = r.Range(p[0], p[1]-1)
					b = r.Range(a, p[1])
				}
			case 4: // same start, other end / same end, other start
				if r.Bool() {
					a, b = p[0], p[1]+r.Range(-3, 200)
				} else {
					a, b = p[0]-r.Range(-3, 200), p[1]
				}
			}
		}
		if a < 0 {
			a = 0
		}
		if b < a {
			b = a
		}
		if r.Intn(400) == 0 { // the very end of the offset space (outside the contract: Push panics)
			a = (1<<62 - 1) - r.Range(0, 3)
			b = a + r.Range(0, 4)
		}
		x := 0
		if r.Chance(2) {
			x = 1 + r.Intn(3)
		}
		cb := 1
		if r.Chance(12) {
			cb = 0
		}
		rn.pushed = append(rn.pushed, [2]int64{a, b})
		id := rn.nextID
		rn.nextID++
		return fmt.Sprintf("push %d %d %d %d %d", id, a, b-a, x, cb)
	case 1:
		return "pop"
	case 2:
		off := rn.s.ReadPos()
		if r.Chance(30) {
			off = rn.pts[r.Intn(len(rn.pts))]
		}
		return fmt.Sprintf("peek %d %d", off, r.Pick(1, 3, 3)*r.Intn(200)+r.Intn(3))
	case 3:
		return "more"
	case 4:
		return "dump"
	}
	switch r.Pick(70, 25, 5) {
	case 0:
		return rn.genCrypto(r)
	case 1:
		return "cget"
	}
	return "cfinish"
}

func (rn *runner) genCrypto(r *vh.Rand) string {
	var off, n int64
	switch r.Pick(50, 25, 15, 10) {
	case 0: // in order
		off, n = rn.cHigh, r.Range(0, 300)
	case 1: // reordered / overlapping
		off, n = r.Range(0, rn.cHigh+400), r.Range(0, 300)
	case 2: // around the 16 KiB limit
		off = 16384 - r.Range(0, 300)
		n = r.Range(0, 400)
	default:
		off, n = r.Range(0, 40000), r.Range(0, 1200)
	}
	if off+n <= 16384 && off+n > rn.cHigh {
		rn.cHigh = off + n
	}
	x := 0
	if r.Chance(2) {
		x = 1
	}
	return fmt.Sprintf("cframe %d %d %d", off, n, x)
}

func errText(err error) string {
	if err == nil {
		return "ok"
	}
	var te *qerr.TransportError
	if errors.As(err, &te) {
		return fmt.Sprintf("E:T%d", uint64(te.ErrorCode))
	}
	if strings.Contains(err.Error(), "too many gaps") {
		return "E:gaps"
	}
	return "E:other"
}

func (rn *runner) push(id int, off int64, n int, x uint64, cb bool) error {
	buf := vh.SrcSeg(rn.salt, x, off, n)
	var done func()
	if cb {
		rn.bufs[id] = buf
		done = func() {
			rn.fired = append(rn.fired, id)
			vh.Poison(buf) // the buffer goes back to the pool: whoever still reads it sees garbage
		}
	}
	return rn.s.Push(buf, off, done)
}

func (rn *runner) tail() string {
	return fmt.Sprintf(" g=%d q=%d", rn.s.NumGaps(), rn.s.NumEntries())
}

func (rn *runner) AfterPanic(op string) string {
	f := strings.Fields(op)
	switch f[0] {
	case "push", "pop":
		rn.dead = true
	}
	switch f[0] {
	case "push":
		return "PANIC d=" + vh.FmtIDs(rn.fired) + rn.tail()
	}
	return "PANIC"
}

func (rn *runner) Exec(op string) string {
	defer vh.Watchdog(op, 60*time.Second)()
	f := strings.Fields(op)
	rn.fired = rn.fired[:0]
	a := func(i int) int64 {
		if i < len(f) {
			return vh.Atoi64(f[i])
		}
		return 0
	}
	switch f[0] {
	case "push", "bulk", "pop", "peek", "more", "dump":
		if rn.dead {
			return "skip"
		}
	}
	switch f[0] {
	case "init":
		rn.salt = uint64(a(1))
		return "ok"
	case "push":
		err := rn.push(int(a(1)), a(2), int(a(3)), uint64(a(4)), a(5) == 1)
		rn.dead = err != nil
		return errText(err) + " d=" + vh.FmtIDs(rn.fired) + rn.tail()
	case "bulk":
		id0, off, stride, n, cnt := int(a(1)), a(2), a(3), int(a(4)), int(a(5))
		head := "ok"
		ndone := 0
		for k := 0; k < cnt; k++ {
			var err error
			func() {
				defer func() {
					if e := recover(); e != nil {
						head = fmt.Sprintf("PANIC@%d", k)
					}
				}()
				err = rn.push(id0+k, off+int64(k)*stride, n, 0, true)
			}()
			ndone = len(rn.fired)
			if head != "ok" {
				rn.dead = true
				break
			}
			if err != nil {
				rn.dead = true
				head = fmt.Sprintf("%s@%d", errText(err), k)
				break
			}
		}
		return fmt.Sprintf("%s d=%d", head, ndone) + rn.tail()
	case "pop":
		off, data, cb := rn.s.Pop()
		rn.lastPopNil = data == nil
		res := fmt.Sprintf("%d ", off)
		if data == nil {
			res += "nil"
		} else {
			res += vh.FmtBytes(data)
		}
		if cb != nil {
			cb() // the reader is done with the frame
			res += " " + vh.FmtIDs(rn.fired)
		} else {
			res += " -"
		}
		return res
	case "peek":
		p := make([]byte, a(2))
		little, err := rn.s.Peek(a(1), p)
		if little {
			return "E:little"
		}
		if err != nil {
			return "E:other"
		}
		return "ok " + vh.FmtBytes(p)
	case "more":
		if rn.s.HasMoreData() {
			return "1"
		}
		return "0"
	case "dump":
		var sb strings.Builder
		fmt.Fprintf(&sb, "rp=%d g=", rn.s.ReadPos())
		gs := rn.s.Gaps()
		if len(gs) == 0 {
			sb.WriteByte('-')
		}
		for i, g := range gs {
			if i > 0 {
				sb.WriteByte(',')
			}
			fmt.Fprintf(&sb, "%d-%d", g[0], g[1])
		}
		sb.WriteString(" q=")
		es := rn.s.Entries()
		if len(es) == 0 {
			sb.WriteByte('-')
		}
		for i, e := range es {
			if i > 0 {
				sb.WriteByte(',')
			}
			fmt.Fprintf(&sb, "%d:%d:%d", e[0], e[1], e[2])
		}
		return sb.String()
	case "cframe":
		return errText(rn.c.HandleCryptoFrame(a(1), vh.SrcSeg(rn.salt, uint64(a(3)), a(1), int(a(2)))))
	case "cget":
		d := rn.c.GetCryptoData()
		if d == nil {
			return "nil"
		}
		return vh.FmtBytes(d)
	case "cfinish":
		return errText(rn.c.Finish())
	}
	return "bad-op"
}

func TestDriver(t *testing.T) { vh.Main(t, "sorter", newRunner) }
