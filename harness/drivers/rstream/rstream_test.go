//go:build verif

// Driver `rstream` (property C03): the real ReceiveStream with the real flow controllers, in-process.
// Each case runs inside one testing/synctest bubble so that a Read / Peek that would block returns
// after one second of virtual time with errDeadline (printed `wouldblock`).
package rstream

import (
	"errors"
	"fmt"
	"io"
	"runtime"
	"runtime/debug"
	"strings"
	"testing"
	"testing/synctest"
	"time"

	quic "github.com/refraction-networking/uquic"
	"github.com/refraction-networking/uquic/internal/protocol"
	"github.com/refraction-networking/uquic/internal/qerr"
	"github.com/refraction-networking/uquic/internal/verifharness/vh"
	"github.com/refraction-networking/uquic/internal/wire"
)

var cellSizes = []int64{1, 64, 127, 128, 129, 300}

var theT *testing.T

var errShutdown = errors.New("verif: shutdown")

type runner struct {
	// bubble plumbing
	reqs  chan string
	resps chan string
	fin   chan struct{}

	// real objects (touched only inside the bubble)
	s      *quic.VerifRStream
	salt   uint64
	win    int64
	cwin   int64
	frames map[*wire.StreamFrame]int
	dead   bool

	// generator
	pts      []int64
	total    int64 // length of the source string = the true final size
	style    int
	nextID   int
	planLen  int
	draining int
	lastRead string
	pushed   [][2]int64
	calm     bool // no reset / cancel / shutdown in this case: the stream runs to EOF
}

func newRunner(r *vh.Rand) vh.Runner {
	runtime.GC()
	rn := &runner{reqs: make(chan string), resps: make(chan string), fin: make(chan struct{}),
		frames: map[*wire.StreamFrame]int{}, nextID: 1, win: 1 << 20, cwin: 1 << 40}
	go func() {
		defer close(rn.fin)
		synctest.Test(theT, func(t *testing.T) {
			wire.VerifDrainPool()
			for op := range rn.reqs {
				rn.resps <- rn.execInBubble(op)
			}
		})
	}()
	return rn
}

func (rn *runner) Close() {
	close(rn.reqs)
	<-rn.fin
}

func (rn *runner) Exec(op string) string {
	defer vh.Watchdog(op, 60*time.Second)()
	rn.reqs <- op
	return <-rn.resps
}

func (rn *runner) stream() *quic.VerifRStream {
	if rn.s == nil {
		rn.s = quic.VerifNewRStream(rn.win, rn.cwin)
	}
	return rn.s
}

// tail reports the recorded calls and the buffers released (returned to the frame pool) by this op.
func (rn *runner) tail() string {
	ev := "-"
	if rn.s != nil {
		if l := rn.s.Events(); len(l) > 0 {
			ev = strings.Join(l, ";")
		}
	}
	var ids []int
	for _, f := range wire.VerifDrainPool() {
		if id, ok := rn.frames[f]; ok {
			ids = append(ids, id)
			vh.Poison(f.Data) // the buffer is back in the pool: whoever still reads it sees garbage
		} else {
			ids = append(ids, 0)
		}
	}
	return " ev=" + ev + " done=" + vh.FmtIDs(ids)
}

func errText(err error) string {
	if err == nil {
		return "ok"
	}
	var te *qerr.TransportError
	if errors.As(err, &te) {
		return fmt.Sprintf("E:T%d", uint64(te.ErrorCode))
	}
	if strings.Contains(err.Error(), "too many gaps") {
		return "E:gaps"
	}
	return "E:other"
}

func statusText(err error) string {
	switch {
	case err == nil:
		return "ok"
	case err == io.EOF:
		return "eof"
	case quic.VerifIsDeadline(err):
		return "wouldblock"
	case err == errShutdown:
		return "shutdown"
	}
	if se, ok := err.(*quic.StreamError); ok {
		if se == nil {
			return "cancel:nil"
		}
		rl := "l"
		if se.Remote {
			rl = "r"
		}
		return fmt.Sprintf("cancel:%d:%s", uint64(se.ErrorCode), rl)
	}
	return "E:other"
}

func (rn *runner) execInBubble(op string) (res string) {
	defer func() {
		if e := recover(); e != nil {
			rn.dead = true
			res = "PANIC" + rn.tail()
			if strings.HasPrefix(op, "read") || strings.HasPrefix(op, "peek") {
				res = "PANIC 0:" + rn.tail()
			}
		}
	}()
	f := strings.Fields(op)
	a := func(i int) int64 {
		if i < len(f) {
			return vh.Atoi64(f[i])
		}
		return 0
	}
	if rn.dead && f[0] != "init" {
		return "skip"
	}
	switch f[0] {
	case "init":
		rn.salt, rn.win, rn.cwin = uint64(a(1)), a(2), a(3)
		return "ok"
	case "frame":
		id, off, n, fin, x := int(a(1)), a(2), int(a(3)), a(4) == 1, uint64(a(5))
		if n > int(protocol.MaxPacketBufferSize) {
			return "skip" // no receive buffer is that large
		}
		fr := wire.VerifTrackedStreamFrame(n)
		copy(fr.Data, vh.SrcSeg(rn.salt, x, off, n))
		fr.StreamID, fr.Offset, fr.Fin = 4, protocol.ByteCount(off), fin
		rn.frames[fr] = id
		err := rn.stream().HandleStreamFrame(fr)
		r := errText(err)
		if r == "E:gaps" {
			rn.dead = true
		}
		return r + rn.tail()
	case "reset":
		return errText(rn.stream().HandleReset(a(1), a(2), uint64(a(3)))) + rn.tail()
	case "read", "peek":
		p := make([]byte, a(1))
		var n int
		var err error
		if f[0] == "read" {
			n, err = rn.stream().Read(p)
		} else {
			n, err = rn.stream().Peek(p)
		}
		data := "0:"
		if n >= 0 && n <= len(p) {
			data = vh.FmtBytes(p[:n])
		} else {
			data = fmt.Sprintf("bad-length:%d", n)
		}
		return statusText(err) + " " + data + rn.tail()
	case "cancel":
		rn.stream().CancelRead(uint64(a(1)))
		return "ok" + rn.tail()
	case "shutdown":
		rn.stream().CloseForShutdown(errShutdown)
		return "ok" + rn.tail()
	case "ctrl":
		kind, val, more := rn.stream().GetControlFrame()
		switch kind {
		case "none":
			return "none" + rn.tail()
		case "ss":
			m := 0
			if more {
				m = 1
			}
			return fmt.Sprintf("ss:%d:%d", val, m) + rn.tail()
		case "msd":
			return fmt.Sprintf("msd:%d", val) + rn.tail()
		}
		return "other" + rn.tail()
	}
	return "bad-op"
}

func (rn *runner) drainOp() string {
	switch {
	case rn.draining == 0:
		rn.draining = 1
		rn.lastRead = ""
		return "read 211"
	case rn.draining == 1 && strings.HasPrefix(rn.lastRead, "ok"):
		rn.lastRead = ""
		return "read 211"
	case rn.draining == 1:
		rn.draining = 2
		return "ctrl"
	case rn.draining == 2:
		rn.draining = 3
		return "read 1"
	}
	return ""
}

func (rn *runner) GenOp(r *vh.Rand, i int) string {
	if i == 0 {
		rn.salt = uint64(r.Intn(1 << 20))
		rn.style = r.Pick(45, 25, 20, 10)
		nc := 3 + r.Intn(9)
		cells := make([]int64, nc)
		for j := range cells {
			cells[j] = cellSizes[r.Pick(25, 15, 15, 15, 15, 15)]
		}
		rn.pts = []int64{0}
		for _, c := range cells {
			rn.pts = append(rn.pts, rn.pts[len(rn.pts)-1]+c)
		}
		rn.total = rn.pts[len(rn.pts)-1]
		rn.planLen = 4 + r.Intn(70)
		rn.calm = r.Chance(60)
		win := rn.total + r.Range(0, 2000)
		switch r.Pick(70, 15, 15) {
		case 1: // smaller than the stream: needs window updates, or is violated
			win = r.Range(1, rn.total)
		case 2:
			win = rn.total
		}
		cwin := int64(1) << 40
		if r.Chance(8) {
			cwin = r.Range(1, rn.total+100)
		}
		return fmt.Sprintf("init %d %d %d", rn.salt, win, cwin)
	}
	if rn.dead {
		return ""
	}
	if rn.draining > 0 || i > rn.planLen {
		return rn.drainOp()
	}
	total := rn.total
	weights := []int{52, 22, 7, 5, 3, 1, 10}
	if rn.calm {
		weights = []int{52, 26, 9, 0, 0, 0, 8}
	}
	switch r.Pick(weights...) {
	case 0:
		var a, b int64
		n := len(rn.pts)
		switch {
		case rn.style == 1: // arbitrary cuts
			a = r.Range(0, total)
			b = min(a+r.Range(0, 400), total)
			if r.Chance(30) {
				b = min(a+r.Range(0, 5), total)
			}
		case rn.style == 2: // mostly in order
			k := r.Intn(n - 1)
			a, b = rn.pts[k], rn.pts[k+1]
			if len(rn.pushed) > 0 && r.Chance(70) {
				last := rn.pushed[len(rn.pushed)-1]
				a = min(last[1], total)
				b = min(a+cellSizes[r.Intn(len(cellSizes))], total)
			}
		case rn.style == 3: // many small disjoint pieces of a long stream (gap limit is reachable only by volume)
			a = 2 * r.Range(0, total/2)
			b = min(a+1, total)
		default:
			x := r.Intn(n - 1)
			y := x + 1 + r.Intn(min(n-1-x, 3))
			if r.Chance(15) {
				y = x + 1 + r.Intn(n-1-x)
			}
			a, b = rn.pts[x], rn.pts[y]
			if r.Chance(12) {
				a += r.Range(-1, 1)
				b += r.Range(-1, 1)
			}
		}
		if len(rn.pushed) > 0 {
			p := rn.pushed[r.Intn(len(rn.pushed))]
			switch r.Pick(70, 8, 8, 7, 7) {
			case 1:
				a, b = p[0], p[1]
			case 2:
				a, b = p[0]-r.Range(0, 130), p[1]+r.Range(0, 130)
			case 3:
				if p[1]-p[0] >= 2 {
					a = r.Range(p[0], p[1]-1)
					b = r.Range(a, p[1])
				}
			case 4:
				if r.Bool() {
					a, b = p[0], p[1]+r.Range(-3, 200)
				} else {
					a, b = p[0]-r.Range(-3, 200), p[1]
				}
			}
		}
		a = max(a, 0)
		b = min(max(b, a), a+1400)
		// the peer's stream ends at `total`: data beyond it / an early FIN contradict the final size
		beyond := r.Chance(3)
		if !beyond {
			a, b = min(a, total), min(b, total)
		}
		fin := 0
		if b == total && r.Chance(85) {
			fin = 1
		}
		if b != total && r.Chance(2) {
			fin = 1 // FIN at a different offset
		}
		if r.Chance(4) { // a bare FIN
			a, b, fin = total, total, 1
		}
		x := 0
		if r.Chance(2) {
			x = 1 + r.Intn(3)
		}
		rn.pushed = append(rn.pushed, [2]int64{a, b})
		id := rn.nextID
		rn.nextID++
		return fmt.Sprintf("frame %d %d %d %d %d", id, a, b-a, fin, x)
	case 1:
		n := []int64{0, 1, r.Range(2, 70), cellSizes[r.Intn(len(cellSizes))], r.Range(100, 700), 4000}[r.Pick(4, 12, 30, 24, 25, 5)]
		return fmt.Sprintf("read %d", n)
	case 2:
		n := []int64{0, 1, r.Range(2, 70), cellSizes[r.Intn(len(cellSizes))], r.Range(100, 700), 4000}[r.Pick(4, 12, 30, 24, 25, 5)]
		return fmt.Sprintf("peek %d", n)
	case 3:
		final := total
		if r.Chance(15) {
			final = r.Range(0, total+50)
		}
		rel := int64(0)
		if r.Bool() { // RESET_STREAM_AT
			rel = r.Range(0, final)
			if r.Chance(30) && final > 0 {
				rel = rn.pts[r.Intn(len(rn.pts))]
				rel = min(rel, final)
			}
		}
		return fmt.Sprintf("reset %d %d %d", final, rel, 1+r.Intn(5))
	case 4:
		return fmt.Sprintf("cancel %d", 10+r.Intn(5))
	case 5:
		return "shutdown"
	}
	return "ctrl"
}

func TestDriver(t *testing.T) {
	theT = t
	runtime.GOMAXPROCS(1)           // the frame pool is then one per-P stack: PutBack is observed exactly
	debug.SetGCPercent(-1)          // no automatic GC between a PutBack and the drain that observes it
	vh.Main(t, "rstream", func(r *vh.Rand) vh.Runner {
		rn := newRunner(r).(*runner)
		return &tracking{rn}
	})
}

// tracking remembers the last read result for the drain phase of the generator.
type tracking struct{ *runner }

func (t *tracking) Exec(op string) string {
	res := t.runner.Exec(op)
	if strings.HasPrefix(op, "read") {
		t.runner.lastRead = res
		if strings.HasPrefix(res, "ok 0:") {
			t.runner.lastRead = "stalled"
		}
	}
	return res
}
