//go:build verif

// Package tokalias is the C10 driver for the MEMORY side of "token synthesised with the given prefix and
// length and fresh per dial": one case is one InitialPacketSpec value whose ClientTokenPrefix is a window
// on a caller-owned buffer (bytes in front of it, SPARE CAPACITY behind it, all filled with a canary), each
// op one dial's worth of token handling exactly as UTransport.dial / newUClientConnection do it:
// QUICSpec.UpdateConfig(conf) on a fresh Config, then conf.TokenStore.Pop(key). Every token handed out stays
// referenced (as a connection's packer keeps it), and every op reports what ALL of them, and the caller's
// whole buffer, read NOW. crypto/rand.Reader is scripted for the duration of an op.
//
// op:     pop|repop|put pre=<hex|-> poff=<n> slk=<n> len=<n> script=<hex>
// result: tok=<hex|-|nostore|nil> rd=<random bytes read> prev=<hex.hex…|-> buf=<hex|->     (put: ok | skip)
package tokalias

import (
	"crypto/rand"
	"encoding/hex"
	"fmt"
	"strconv"
	"strings"
	"testing"

	quic "github.com/refraction-networking/uquic"
	"github.com/refraction-networking/uquic/internal/verifharness/vh"
)

const canary = 0xc5

type countReader struct {
	script []byte
	pos    int
}

func (c *countReader) Read(p []byte) (int, error) {
	for i := range p {
		if c.pos < len(c.script) {
			p[i] = c.script[c.pos]
		} else {
			p[i] = 0xee // beyond the script: the model sees the same filler
		}
		c.pos++
	}
	return len(p), nil
}

type runner struct {
	base   string // generator: the configuration part of this case's op lines
	key    string // pre/poff/slk/len of the spec the state belongs to
	buf    []byte // the caller's buffer the prefix is a window on
	spec   *quic.QUICSpec
	store  quic.TokenStore // the store of the most recent dial
	tokens [][]byte        // the slices handed out so far (never copied)
	last   *quic.ClientToken
}

func kv(op string) map[string]string {
	m := map[string]string{}
	for _, f := range strings.Fields(op) {
		if i := strings.IndexByte(f, '='); i > 0 {
			m[f[:i]] = f[i+1:]
		}
	}
	return m
}

func hx(b []byte) string {
	if len(b) == 0 {
		return "-"
	}
	return hex.EncodeToString(b)
}

func (rn *runner) setup(m map[string]string) error {
	key := m["pre"] + "/" + m["poff"] + "/" + m["slk"] + "/" + m["len"]
	if rn.spec != nil && rn.key == key {
		return nil
	}
	var pre []byte
	if m["pre"] != "-" {
		var err error
		if pre, err = hex.DecodeString(m["pre"]); err != nil {
			return err
		}
	}
	poff, _ := strconv.Atoi(m["poff"])
	slk, _ := strconv.Atoi(m["slk"])
	n, _ := strconv.Atoi(m["len"])
	if poff < 0 || slk < 0 || n < 0 || poff > 256 || slk > 256 || n > 200 || len(pre) > 200 {
		return fmt.Errorf("out of range")
	}
	*rn = runner{key: key, base: rn.base}
	rn.spec = &quic.QUICSpec{}
	rn.spec.InitialPacketSpec.ClientTokenLength = n
	if poff+len(pre)+slk > 0 {
		rn.buf = make([]byte, poff+len(pre)+slk)
		for i := range rn.buf {
			rn.buf[i] = canary
		}
		copy(rn.buf[poff:], pre)
		// a window on the caller's buffer: len = |pre|, cap = |pre| + slk
		rn.spec.InitialPacketSpec.ClientTokenPrefix = rn.buf[poff : poff+len(pre)]
	}
	return nil
}

func (rn *runner) report(tok string, rd int) string {
	var prev []string
	for _, t := range rn.tokens {
		prev = append(prev, hx(t))
	}
	p := "-"
	if len(prev) > 0 {
		p = strings.Join(prev, ".")
	}
	return fmt.Sprintf("tok=%s rd=%d prev=%s buf=%s", tok, rd, p, hx(rn.buf))
}

func (rn *runner) Exec(op string) string {
	f := strings.Fields(op)
	if len(f) == 0 {
		return "bad-op"
	}
	m := kv(op)
	if err := rn.setup(m); err != nil {
		return "bad-op " + err.Error()
	}
	script, err := hex.DecodeString(m["script"])
	if err != nil {
		return "bad-op " + err.Error()
	}
	cr := &countReader{script: script}
	saved := rand.Reader
	rand.Reader = cr
	defer func() { rand.Reader = saved }()
	switch f[0] {
	case "pop", "repop":
		if f[0] == "pop" || rn.store == nil {
			if f[0] == "repop" {
				return "skip"
			}
			// what UTransport.dial does with the connection's private Config
			conf := &quic.Config{}
			rn.spec.UpdateConfig(conf)
			rn.store = conf.TokenStore
			if rn.store == nil {
				return rn.report("nostore", cr.pos)
			}
		}
		// what newUClientConnection does: Pop, hand token.data to the packer
		t := rn.store.Pop("example.com")
		if t == nil {
			return rn.report("nil", cr.pos)
		}
		rn.last = t
		data := quic.VerifClientTokenData(t)
		res := rn.report(hx(data), cr.pos)
		rn.tokens = append(rn.tokens, data)
		return res
	case "put":
		if rn.store == nil || rn.last == nil {
			return "skip"
		}
		rn.store.Put("example.com", rn.last)
		return rn.report("put", cr.pos)
	}
	return "bad-op"
}

func (rn *runner) GenOp(r *vh.Rand, i int) string {
	if i == 0 || rn.base == "" {
		pl := []int{0, 0, 1, 1, 1, 2, 3, 8, 16}[r.Intn(9)]
		pre := "-"
		if pl > 0 {
			pre = hex.EncodeToString(r.Bytes(pl))
			if r.Chance(40) {
				pre = "00" + pre[2:] // Chrome: tokens start 0x00
			}
		}
		poff := []int{0, 0, 0, 1, 5}[r.Intn(5)]
		slk := []int{0, 0, 1, 3, 15, 69, 80, 120}[r.Intn(8)]
		n := []int{0, 1, 2, 4, 8, 16, 63, 64, 70, 71}[r.Intn(10)]
		switch r.Intn(12) {
		case 0: // the whole token pinned: length unset or shorter than the prefix
			n = []int{0, pl / 2}[r.Intn(2)]
		case 1: // captured[:k] of a 70-byte captured token
			slk, n = 70-pl, 70
			if pl == 0 {
				slk = 70
			}
		case 2: // the random tail fits the spare capacity exactly / misses it by one
			if n > pl {
				slk = n - pl - r.Intn(2)
			}
		}
		rn.base = fmt.Sprintf("pre=%s poff=%d slk=%d len=%d", pre, poff, slk, n)
	}
	kind := "pop"
	switch r.Pick(70, 20, 10) {
	case 1:
		kind = "repop"
	case 2:
		kind = "put"
	}
	if i == 0 {
		kind = "pop"
	}
	script := r.Bytes(96)
	if r.Chance(10) {
		for k := range script {
			script[k] = []byte{0, 0xff, canary}[i%3]
		}
	}
	return fmt.Sprintf("%s %s script=%s", kind, rn.base, hex.EncodeToString(script))
}

func newRunner(r *vh.Rand) vh.Runner { return &runner{} }

func TestDriver(t *testing.T) { vh.Main(t, "tokalias", newRunner) }
