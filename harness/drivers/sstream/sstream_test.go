//go:build verif

// Package sstream: the sender-only C01 driver (core in internal/verifharness/sscore, injected as a hook file).
package sstream

import (
	"testing"

	"github.com/refraction-networking/uquic/internal/verifharness/sscore"
	"github.com/refraction-networking/uquic/internal/verifharness/vh"
)

func TestDriver(t *testing.T) {
	vh.Main(t, "sstream", func(r *vh.Rand) vh.Runner { return sscore.NewRunner(t, r, false) })
}
