//go:build verif

// Package rcvtime is the C12 receive-time driver. The idle timer of a client counts from the receive time a
// packet was stamped with where it was read off the socket; "silence just below the advertised idle timeout" is
// only tolerated if that stamp is the time the datagram ARRIVED — not the time the read was issued, the time of
// the previous burst, or any other instant before the peer spoke. Everything here runs on REAL loopback UDP
// sockets in real time (the other C12 drivers run on simnet / without a network, where the socket wrappers
// sys_conn.go / sys_conn_oob.go are not in the path):
//
//	raw <oob|basic> <silence ms> <n>   the wrapper Transport.init builds for a socket (real wrapConn): a warm-up
//	                                   datagram, silence, then n datagrams back to back; every stamp must lie
//	                                   between the instant before the datagram was written and the instant
//	                                   after ReadPacket returned it
//	dial <client> <oob|basic>          a real client (plain, or a built-in QUICID through UTransport) connects
//	                                   to the in-tree server over loopback
//	say <silence ms> <n>               both sides are silent, then the server writes n bytes; once the
//	                                   application has read them, Conn.lastPacketReceivedTime must not lie
//	                                   before the instant the server was asked to write
//	hangup
//
// The judgements are inequalities between readings of ONE monotonic clock that hold on the unchanged code under any
// scheduling (a datagram cannot be received before it is sent); the silences only make a stale stamp visible.
package rcvtime

import (
	"context"
	"fmt"
	"io"
	"net"
	"strings"
	"testing"
	"time"

	quic "github.com/refraction-networking/uquic"
	"github.com/refraction-networking/uquic/internal/monotime"
	"github.com/refraction-networking/uquic/internal/verifharness/e2e"
	"github.com/refraction-networking/uquic/internal/verifharness/vh"
)

var bases = map[string]quic.QUICID{
	"chrome115":   quic.QUICChrome_115_IPv4,
	"firefox116a": quic.QUICFirefox_116A,
	"firefox116b": quic.QUICFirefox_116B,
	"chrome146":   quic.QUICChrome_146_IPv4,
}

var clientNames = []string{"plain", "chrome115", "firefox116a", "firefox116b", "chrome146"}

// plainPC hides everything but net.PacketConn: wrapConn falls back to basicConn.
type plainPC struct{ net.PacketConn }

const opTimeout = 20 * time.Second

func loopback() (*net.UDPConn, error) {
	return net.ListenUDP("udp4", &net.UDPAddr{IP: net.IPv4(127, 0, 0, 1), Port: 0})
}

func socketFor(kind string, c *net.UDPConn) net.PacketConn {
	if kind == "basic" {
		return plainPC{c}
	}
	return c
}

type runner struct {
	cleanup []func()
	conn    *quic.Conn
	srv     *quic.SendStream
	cli     *quic.ReceiveStream
}

func newRunner(r *vh.Rand) vh.Runner { return &runner{} }

func (rn *runner) Close() {
	for i := len(rn.cleanup) - 1; i >= 0; i-- {
		rn.cleanup[i]()
	}
	rn.cleanup, rn.conn, rn.srv, rn.cli = nil, nil, nil, nil
}

type stamped struct {
	stamp, returned monotime.Time
	err             error
}

func raw(kind string, silence time.Duration, n int) string {
	rc, err := loopback()
	if err != nil {
		return "err:listen"
	}
	defer rc.Close()
	w, got, err := quic.VerifWrapConn(socketFor(kind, rc))
	if err != nil {
		return "err:wrap"
	}
	out := make(chan stamped, n+2)
	go func() {
		for {
			st, _, err := w.ReadPacket()
			out <- stamped{stamp: st, returned: monotime.Now(), err: err}
			if err != nil {
				return
			}
		}
	}()
	snd, err := net.DialUDP("udp4", nil, rc.LocalAddr().(*net.UDPAddr))
	if err != nil {
		return "err:dial"
	}
	defer snd.Close()
	worst := time.Duration(0)
	late := false
	one := func() string {
		sent := monotime.Now()
		if _, err := snd.Write([]byte("verif-rcvtime")); err != nil {
			return "err:write"
		}
		select {
		case s := <-out:
			if s.err != nil {
				return "err:read"
			}
			if s.stamp.Before(sent) {
				worst = max(worst, sent.Sub(s.stamp))
			}
			if s.stamp.After(s.returned) {
				late = true
			}
		case <-time.After(opTimeout):
			return "err:timeout"
		}
		return ""
	}
	// warm-up: afterwards the reader sits in its next read
	if e := one(); e != "" {
		return e
	}
	time.Sleep(silence)
	// n datagrams back to back (the kernel may hand several of them to one ReadBatch)
	sent := make([]monotime.Time, n)
	for i := range sent {
		sent[i] = monotime.Now()
		if _, err := snd.Write([]byte("verif-rcvtime")); err != nil {
			return "err:write"
		}
	}
	for range sent {
		select {
		case s := <-out:
			if s.err != nil {
				return "err:read"
			}
			// (a stamp before the FIRST write of the burst is wrong whatever the order of delivery)
			if s.stamp.Before(sent[0]) {
				worst = max(worst, sent[0].Sub(s.stamp))
			}
			if s.stamp.After(s.returned) {
				late = true
			}
		case <-time.After(opTimeout):
			return "err:timeout"
		}
	}
	res := "ok"
	switch {
	case worst > 0:
		res = fmt.Sprintf("early:%dms", worst.Milliseconds())
	case late:
		res = "late"
	}
	return fmt.Sprintf("kind=%s n=%d stamps=%s", got, n, res)
}

func (rn *runner) dial(client, kind string) string {
	rn.Close()
	sc, err := loopback()
	if err != nil {
		return "err:listen"
	}
	rn.cleanup = append(rn.cleanup, func() { sc.Close() })
	str := &quic.Transport{Conn: sc}
	rn.cleanup = append(rn.cleanup, func() { str.Close() })
	ln, err := str.Listen(e2e.ServerTLSConfig(), &quic.Config{DisablePathMTUDiscovery: true, MaxIdleTimeout: time.Minute})
	if err != nil {
		return "err:serve"
	}
	rn.cleanup = append(rn.cleanup, func() { ln.Close() })
	cc, err := loopback()
	if err != nil {
		return "err:listen"
	}
	rn.cleanup = append(rn.cleanup, func() { cc.Close() })
	ctr := &quic.Transport{Conn: socketFor(kind, cc)}
	rn.cleanup = append(rn.cleanup, func() { ctr.Close() })
	ctx, cancel := context.WithTimeout(context.Background(), opTimeout)
	defer cancel()
	type acc struct {
		c   *quic.Conn
		err error
	}
	accepted := make(chan acc, 1)
	go func() {
		c, err := ln.Accept(ctx)
		accepted <- acc{c, err}
	}()
	cfg := &quic.Config{DisablePathMTUDiscovery: true, MaxIdleTimeout: time.Minute}
	var conn *quic.Conn
	if client == "plain" {
		conn, err = ctr.Dial(ctx, sc.LocalAddr(), e2e.ClientTLSConfig(), cfg)
	} else {
		id, ok := bases[client]
		if !ok {
			return "bad-op"
		}
		spec, serr := quic.QUICID2Spec(id)
		if serr != nil {
			return "err:spec"
		}
		utr := &quic.UTransport{Transport: ctr, QUICSpec: &spec}
		conn, err = utr.Dial(ctx, sc.LocalAddr(), e2e.ClientTLSConfig(), cfg)
	}
	if err != nil {
		return "err:dial:" + strings.ReplaceAll(e2e.ErrString(err), " ", "_")
	}
	rn.cleanup = append(rn.cleanup, func() { conn.CloseWithError(0, "") })
	a := <-accepted
	if a.err != nil {
		return "err:accept"
	}
	rn.cleanup = append(rn.cleanup, func() { a.c.CloseWithError(0, "") })
	srv, err := a.c.OpenUniStream()
	if err != nil {
		return "err:open"
	}
	if _, err := srv.Write([]byte{1}); err != nil {
		return "err:write"
	}
	cli, err := conn.AcceptUniStream(ctx)
	if err != nil {
		return "err:acceptstream"
	}
	cli.SetReadDeadline(time.Now().Add(opTimeout))
	if _, err := io.ReadFull(cli, make([]byte, 1)); err != nil {
		return "err:read"
	}
	rn.conn, rn.srv, rn.cli = conn, srv, cli
	// which wrapper the Transport built for this kind of socket (the same wrapConn on a socket of the same kind)
	got := kind
	if probe, perr := loopback(); perr == nil {
		if w, k, werr := quic.VerifWrapConn(socketFor(kind, probe)); werr == nil {
			got = k
			w.Close()
		}
		probe.Close()
	}
	// let the tail of the handshake (HANDSHAKE_DONE, tickets, acknowledgements) pass
	time.Sleep(40 * time.Millisecond)
	return "ok kind=" + got
}

func (rn *runner) say(silence time.Duration, n int) string {
	time.Sleep(silence)
	t0 := monotime.Now()
	if _, err := rn.srv.Write(make([]byte, n)); err != nil {
		return "err:write"
	}
	rn.cli.SetReadDeadline(time.Now().Add(opTimeout))
	if _, err := io.ReadFull(rn.cli, make([]byte, n)); err != nil {
		return "err:read"
	}
	last := rn.conn.VerifLastPacketReceivedTime()
	if last.Before(t0) {
		return fmt.Sprintf("stamp=stale:%dms", t0.Sub(last).Milliseconds())
	}
	return "stamp=ok"
}

func (rn *runner) Exec(op string) string {
	f := strings.Fields(op)
	if len(f) == 0 {
		return "bad-op"
	}
	ms := func(s string) (time.Duration, bool) {
		v := vh.Atoi64(s)
		return time.Duration(v) * time.Millisecond, v >= 0 && v <= 2000
	}
	switch f[0] {
	case "raw":
		if len(f) != 4 || (f[1] != "oob" && f[1] != "basic") {
			return "bad-op"
		}
		d, ok := ms(f[2])
		n := vh.Atoi64(f[3])
		if !ok || n < 1 || n > 32 {
			return "bad-op"
		}
		return raw(f[1], d, int(n))
	case "dial":
		if len(f) != 3 || (f[2] != "oob" && f[2] != "basic") {
			return "bad-op"
		}
		return rn.dial(f[1], f[2])
	case "say":
		if len(f) != 3 {
			return "bad-op"
		}
		d, ok := ms(f[1])
		n := vh.Atoi64(f[2])
		if !ok || n < 1 || n > 4000 {
			return "bad-op"
		}
		if rn.conn == nil {
			return "skip"
		}
		return rn.say(d, int(n))
	case "hangup":
		if rn.conn == nil {
			return "skip"
		}
		rn.Close()
		return "ok"
	}
	return "bad-op"
}

func (rn *runner) GenOp(r *vh.Rand, i int) string {
	kind := func() string { return []string{"oob", "oob", "basic"}[r.Intn(3)] }
	silence := func() int64 { return []int64{15, 25, 40, 60, 90}[r.Intn(5)] }
	switch {
	case i == 0:
		return fmt.Sprintf("raw %s %d %d", kind(), silence(), []int64{1, 1, 2, 5, 9}[r.Intn(5)])
	case i == 1:
		return fmt.Sprintf("dial %s %s", clientNames[r.Intn(len(clientNames))], kind())
	case i <= 4:
		return fmt.Sprintf("say %d %d", silence(), []int64{1, 30, 700, 1100, 2500}[r.Intn(5)])
	case i == 5:
		return "hangup"
	case i == 6 && r.Chance(50):
		return fmt.Sprintf("raw %s %d %d", kind(), silence(), r.Range(1, 9))
	}
	return ""
}

func TestDriver(t *testing.T) {
	vh.Main(t, "rcvtime", newRunner)
}
