//go:build verif

// Package token drives the real handshake.TokenGenerator and baseServer.validateToken (property C14).
//
// Three generators with fixed keys (kid 0 = this server, kid 1 = a foreign key, kid 2 = the all-zero key). The whole run is
// inside a testing/synctest bubble, so time.Now / time.Since use the bubble's fake clock; `sleep` shifts it.
//
//	issue <tid> <kid> R <addr> <odcid> <rscid>        NewRetryToken          => ok tok=<hex> | now=<ns>
//	issue <tid> <kid> N <addr> <rtt_us>               NewToken               => ok tok=<hex> | now=<ns>
//	raw <tid> <kid> <F|G|T> <retry> <encaddr> <ts> <rtt_us> <odcid> <rscid>
//	      seal a hand-made plaintext with the real protector: F = asn1 of these fields, G = garbage bytes,
//	      T = asn1 of the fields plus one trailing byte                          => ok tok=<hex> | now=<ns>
//	decode <kid> <hex|->                              DecodeToken
//	      => nil | err | PANIC | ok retry=<0|1> sent=<ns> addr=<hex> rtt=<ns> odcid=<hex> rscid=<hex>
//	check <kid> <hex|-> <addr> <maxTokenAge_ns> <handshakeIdle_ns>   DecodeToken, then baseServer.validateToken
//	      => <nil|err|PANIC|ok> valid=<0|1> | now=<ns>
//	initial <kid> <hex|-> <addr> <wantsRetry> <maxTokenAge_ns> <handshakeIdle_ns>
//	      a REAL quic.Transport/Listener (key kid, MaxTokenAge, VerifySourceAddress = wantsRetry, HandshakeIdleTimeout)
//	      receives a 1200-byte Initial datagram carrying this token from <addr>; handleInitialImpl's decision is
//	      observed through GetConfigForClient(ClientInfo.AddrVerified) / the Retry packet written
//	      => proceed av=<0|1> | retry | drop | now=<ns>
//	cinit <kid> <hex|-> <addr> <wantsRetry> <maxTokenAge_ns> <handshakeIdle_ns>
//	      like `initial`, but the connection is let through (GetConfigForClient accepts) and the REAL newConnection runs;
//	      what handleInitialImpl handed to it and how the new connection's sent packet handler starts out is observed by
//	      the hook quic.VerifAmpOnNewConn (lim: SendMode answers SendNone before a byte is credited; val: handler state)
//	      => conn av=<0|1> odcid=<hex> rscid=<hex|none> rtt=<ns> lim=<0|1> val=<0|1> | retry | drop | now=<ns>
//	decode2 <kid> <hexA|-|@tid> <hexB|-|@tid>   DecodeToken(A), then DecodeToken(B), then the FIRST result is printed again
//	      (a *Token handed out by DecodeToken belongs to the caller: handleInitialImpl keeps pointers into it)
//	      => A <decoded> ; B <decoded> ; A2 <decoded>
//	dkey <inst>            the token key a real quic.Transport WITHOUT TokenGeneratorKey chose for itself (instances live for the
//	                       whole case)                                            => zero=<0|1> dup=<0|1>  (all-zero? equal to another key?)
//	dissue <tid> <inst> <addr>   instance <inst> (VerifySourceAddress on) receives a token-less Initial from <addr> and answers with
//	                       a Retry; the token is taken from the Retry packet      => ok tok=<hex> rscid=<hex> | now=<ns>
//	dinitial <inst> <hex|-|@tid> <addr> <wantsRetry>   like `initial`, at the default-key instance (MaxTokenAge default,
//	                       HandshakeIdleTimeout 5s)                               => proceed av=<0|1> | retry | drop | now=<ns>
//	reuse <script> <hex|-|@tid> <addr> <handshakeIdle_ns>
//	      ONE quic.Transport lives through <script> (comma separated): k<kid> set TokenGeneratorKey, a<ns> set MaxTokenAge,
//	      v<0|1> set VerifySourceAddress (always true / nil), W = WriteTo, R = ReadNonQUICPacket with a cancelled context
//	      (both initialise the Transport), L = Listen and close that listener again; THEN Listen, and the Initial with this
//	      token is shown to that listener: it must decide by the configuration the Transport has at THAT Listen
//	      => proceed av=<0|1> | retry | drop | now=<ns>
//	sleep <ns>                                                                  => ok | now=<ns>
//
// addr: u:<iphex>:<port>:<zonehex> (*net.UDPAddr) or o:<hex of String()> (another net.Addr); "-" = empty hex.
package token

import (
	"context"
	"encoding/asn1"
	"encoding/hex"
	"fmt"
	"net"
	"strconv"
	"strings"
	"sync"
	"testing"
	"testing/synctest"
	"time"

	quic "github.com/refraction-networking/uquic"
	"github.com/refraction-networking/uquic/internal/handshake"
	"github.com/refraction-networking/uquic/internal/protocol"
	"github.com/refraction-networking/uquic/internal/verifharness/vh"
	"github.com/refraction-networking/uquic/internal/wire"
	"github.com/refraction-networking/uquic/testutils/simnet"
	tls "github.com/refraction-networking/utls"
)

type strAddr string

func (a strAddr) Network() string { return "verif" }
func (a strAddr) String() string  { return string(a) }

// the struct that token_generator.go serialises (field order and types are what ASN.1 sees)
type asn1Token struct {
	IsRetryToken             bool
	RemoteAddr               []byte
	Timestamp                int64
	RTT                      int64
	OriginalDestConnectionID []byte
	RetrySrcConnectionID     []byte
}

type issued struct {
	kid    int
	tok    []byte
	addr   string // addr text it was issued for ("" for raw tokens)
	retry  bool
	panics bool // DecodeToken panics on it (oversized connection ID): never shown to a real server goroutine
}

type runner struct {
	keys   [3]handshake.TokenProtectorKey
	gens   [3]*handshake.TokenGenerator
	insts  map[int]*instance
	toks   []issued
	byID   map[int][]byte
	queue  []string // pending generated ops (sweeps)
	nextID int
}

func newRunner(r *vh.Rand) vh.Runner {
	var k0, k1 handshake.TokenProtectorKey
	for i := range k0 {
		k0[i] = byte(i*7 + 1)
		k1[i] = byte(i*13 + 5)
	}
	var kz handshake.TokenProtectorKey
	return &runner{keys: [3]handshake.TokenProtectorKey{k0, k1, kz},
		gens: [3]*handshake.TokenGenerator{handshake.NewTokenGenerator(k0), handshake.NewTokenGenerator(k1), handshake.NewTokenGenerator(kz)}}
}

func hx(b []byte) string {
	if len(b) == 0 {
		return "-"
	}
	return hex.EncodeToString(b)
}

func unhx(s string) []byte {
	if s == "-" {
		return nil
	}
	b, _ := hex.DecodeString(s)
	return b
}

func parseAddr(s string) net.Addr {
	f := strings.Split(s, ":")
	if f[0] == "u" && len(f) == 4 {
		p, _ := strconv.Atoi(f[2])
		return &net.UDPAddr{IP: net.IP(unhx(f[1])), Port: p, Zone: string(unhx(f[3]))}
	}
	if f[0] == "o" && len(f) == 2 {
		return strAddr(unhx(f[1]))
	}
	return nil
}

func genAddr(r *vh.Rand) string {
	switch r.Pick(30, 15, 25, 8, 22) {
	case 0: // IPv4, 4-byte form; small universe so that "other address" often differs in one byte only
		return fmt.Sprintf("u:%s:%d:-", hx([]byte{10, 0, byte(r.Intn(2)), byte(r.Intn(4))}), r.Range(1, 65535))
	case 1: // IPv4 in 16-byte form
		ip := net.IPv4(10, 0, byte(r.Intn(2)), byte(r.Intn(4)))
		return fmt.Sprintf("u:%s:%d:-", hx(ip), r.Range(1, 65535))
	case 2: // IPv6, sometimes with zone
		ip := append([]byte{0x20, 0x01, 0x0d, 0xb8}, make([]byte, 12)...)
		ip[15] = byte(r.Intn(4))
		z := "-"
		if r.Chance(30) {
			z = hx([]byte("eth" + strconv.Itoa(r.Intn(2))))
		}
		return fmt.Sprintf("u:%s:%d:%s", hx(ip), r.Range(1, 65535), z)
	case 3: // odd IP slices (nil, 1 byte, 5 bytes)
		return fmt.Sprintf("u:%s:%d:-", hx(r.Bytes([]int{0, 1, 5}[r.Intn(3)])), r.Range(0, 65535))
	default: // not a UDP address
		return "o:" + hx([]byte([]string{"pipe-1", "pipe-2", "10.0.0.1:443", "\x0a\x00\x00\x01", ""}[r.Intn(5)]))
	}
}

// otherAddr derives a different presentation address from the one a token was issued for
func otherAddr(r *vh.Rand, a string) string {
	f := strings.Split(a, ":")
	if f[0] == "u" {
		switch r.Pick(35, 35, 15, 15) {
		case 0: // same IP, other port / zone: must still validate (the port is not covered)
			return fmt.Sprintf("u:%s:%d:%s", f[1], r.Range(0, 65535), []string{"-", f[3]}[r.Intn(2)])
		case 1: // one bit of the IP flipped
			ip := unhx(f[1])
			if len(ip) == 0 {
				return "u:00:1:-"
			}
			ip[r.Intn(len(ip))] ^= 1 << r.Intn(8)
			return fmt.Sprintf("u:%s:%s:%s", hx(ip), f[2], f[3])
		case 2: // same IPv4 in the other representation
			ip := net.IP(unhx(f[1]))
			if v4 := ip.To4(); v4 != nil && len(ip) == 16 {
				return fmt.Sprintf("u:%s:%s:%s", hx(v4), f[2], f[3])
			} else if len(ip) == 4 {
				return fmt.Sprintf("u:%s:%s:%s", hx(ip.To16()), f[2], f[3])
			}
			return genAddr(r)
		default: // a non-UDP address whose String() is the raw IP bytes
			return "o:" + f[1]
		}
	}
	if r.Bool() {
		return "u:" + f[1] + ":1:-" // a UDP address whose IP bytes are the string
	}
	return genAddr(r)
}

var maxAges = []int64{int64(24 * time.Hour), int64(time.Hour), int64(time.Second), 0}
var idles = []int64{int64(5 * time.Second), int64(time.Second), int64(100 * time.Millisecond)}

// GenOp: a share of the generated `check` operations is shown to a real server instead (`initial`)
func (rn *runner) GenOp(r *vh.Rand, i int) string {
	op := rn.genOp(r, i)
	if f := strings.Fields(op); len(f) == 6 && f[0] == "check" && !strings.HasPrefix(f[2], "@") && !rn.mayPanic(f[2]) && r.Chance(15) {
		return fmt.Sprintf("%s %s %s %s %d %s %s", []string{"initial", "cinit", "cinit"}[r.Intn(3)], f[1], f[2], f[3], r.Intn(2), f[4], f[5])
	}
	return op
}

func (rn *runner) mayPanic(tokHex string) bool {
	for _, t := range rn.toks {
		if t.panics && hx(t.tok) == tokHex {
			return true
		}
	}
	return false
}

func (rn *runner) genOp(r *vh.Rand, i int) string {
	if len(rn.queue) > 0 {
		op := rn.queue[0]
		rn.queue = rn.queue[1:]
		return op
	}
	if r.Chance(6) {
		return rn.genInstanceScript(r)
	}
	if r.Chance(5) {
		return rn.genReuseScript(r)
	}
	if len(rn.toks) == 0 || r.Chance(12) {
		return rn.genIssue(r)
	}
	if r.Chance(7) {
		// two decodes in a row by the same generator; mostly two different well-formed tokens under its key
		a, b := rn.toks[r.Intn(len(rn.toks))], rn.toks[r.Intn(len(rn.toks))]
		if !a.panics && !b.panics {
			kid := a.kid
			if r.Chance(10) {
				kid = b.kid
			}
			tb := hx(b.tok)
			if r.Chance(10) {
				tb = hx(r.Bytes(r.Intn(60)))
			}
			return fmt.Sprintf("decode2 %d %s %s", kid, hx(a.tok), tb)
		}
	}
	t := rn.toks[r.Intn(len(rn.toks))]
	age, idle := maxAges[r.Intn(len(maxAges))], idles[r.Intn(len(idles))]
	present := t.addr
	if present == "" {
		present = genAddr(r)
	}
	switch r.Pick(14, 10, 12, 12, 8, 10, 10, 6, 6, 12) {
	case 0: // unmodified, its own address
		return fmt.Sprintf("check %d %s %s %d %d", t.kid, hx(t.tok), present, age, idle)
	case 1: // unmodified, decode only
		return fmt.Sprintf("decode %d %s", t.kid, hx(t.tok))
	case 2: // other address
		return fmt.Sprintf("check %d %s %s %d %d", t.kid, hx(t.tok), otherAddr(r, present), age, idle)
	case 3: // foreign key
		return fmt.Sprintf("check %d %s %s %d %d", (t.kid+1)%3, hx(t.tok), present, age, idle)
	case 4: // clock shift, then validate
		var d int64
		switch r.Pick(30, 30, 25, 15) {
		case 0:
			d = r.Range(0, 2*idle+10)
		case 1:
			d = 2*idle - r.Range(0, 3)
		case 2:
			d = age - r.Range(0, 3)
		default:
			d = r.Range(0, int64(30*time.Hour))
		}
		if d < 0 {
			d = 0
		}
		rn.queue = append(rn.queue, fmt.Sprintf("check %d %s %s %d %d", t.kid, hx(t.tok), present, age, idle))
		return fmt.Sprintf("sleep %d", d)
	case 5: // truncation sweep: every length in a window
		lo := r.Intn(len(t.tok) + 1)
		for l := lo; l <= len(t.tok) && l < lo+40; l++ {
			rn.queue = append(rn.queue, fmt.Sprintf("check %d %s %s %d %d", t.kid, hx(t.tok[:l]), present, age, idle))
		}
		return fmt.Sprintf("check %d %s %s %d %d", t.kid, hx(t.tok[:r.Intn(len(t.tok)+1)]), present, age, idle)
	case 6: // bit-flip sweep: every bit in a window
		lo := r.Intn(len(t.tok) * 8)
		for b := lo; b < len(t.tok)*8 && b < lo+48; b++ {
			m := append([]byte(nil), t.tok...)
			m[b/8] ^= 1 << (b % 8)
			rn.queue = append(rn.queue, fmt.Sprintf("check %d %s %s %d %d", t.kid, hx(m), present, age, idle))
		}
		return fmt.Sprintf("decode %d %s", t.kid, hx(t.tok))
	case 7: // extension / random bytes
		m := append(append([]byte(nil), t.tok...), r.Bytes(1+r.Intn(4))...)
		if r.Chance(30) {
			m = r.Bytes(r.Intn(120))
		}
		return fmt.Sprintf("check %d %s %s %d %d", t.kid, hx(m), present, age, idle)
	case 8: // splice: nonce of one token, body of another
		u := rn.toks[r.Intn(len(rn.toks))]
		if len(u.tok) >= 32 && len(t.tok) >= 32 {
			m := append(append([]byte(nil), t.tok[:32]...), u.tok[32:]...)
			return fmt.Sprintf("check %d %s %s %d %d", t.kid, hx(m), present, age, idle)
		}
		return "decode 0 -"
	default:
		return rn.genRaw(r)
	}
}

// a token handed out by one server instance (default key), or sealed under the all-zero / a fixed key, shown to the
// same and to another default-key instance
func (rn *runner) genInstanceScript(r *vh.Rand) string {
	a, b := r.Intn(3), r.Intn(3)
	if a == b {
		b = (a + 1) % 3
	}
	addr := genAddr(r)
	id := rn.nextID
	rn.nextID += 2
	wr := r.Intn(2)
	switch r.Pick(50, 30, 20) {
	case 0: // A's Retry token at A (valid) and at B
		rn.queue = append(rn.queue,
			fmt.Sprintf("dissue %d %d %s", id, a, addr),
			fmt.Sprintf("dinitial %d @%d %s %d", a, id, addr, r.Intn(2)),
			fmt.Sprintf("dinitial %d @%d %s %d", b, id, addr, wr),
			fmt.Sprintf("dinitial %d @%d %s %d", a, id, otherAddr(r, addr), wr))
	case 1: // a token sealed offline under the all-zero key / a fixed key
		kid := []int{2, 2, 0, 1}[r.Intn(4)]
		rn.queue = append(rn.queue,
			fmt.Sprintf("issue %d %d R %s %s %s", id, kid, addr, hx(r.Bytes(8)), hx(r.Bytes(4))),
			fmt.Sprintf("dinitial %d @%d %s %d", a, id, addr, wr),
			fmt.Sprintf("issue %d %d N %s %d", id+1, kid, addr, r.Range(0, 100000)),
			fmt.Sprintf("dinitial %d @%d %s %d", b, id+1, addr, wr))
	default:
		rn.queue = append(rn.queue, fmt.Sprintf("dkey %d", b))
	}
	return fmt.Sprintf("dkey %d", a)
}

// a Transport that is configured, used, RE-configured and then listened on: tokens whose age straddles the lifetime that is
// configured now (the earlier one is longer, shorter or the default), tokens under the key configured now / configured
// before, Retry policy switched on or off in between
func (rn *runner) genReuseScript(r *vh.Rand) string {
	addr := genAddr(r)
	id := rn.nextID
	rn.nextID++
	kid := r.Intn(2)
	idle := idles[r.Intn(len(idles))]
	wait := []int64{int64(20 * time.Millisecond), int64(time.Second), int64(2 * time.Hour), int64(25 * time.Hour)}[r.Pick(35, 35, 20, 10)]
	retryTok := r.Chance(25)
	if retryTok {
		wait = []int64{2*idle - 1, 2 * idle, 2*idle + 1, idle}[r.Intn(4)]
	}
	uses := []string{"W", "R", "L", "L,W", "R,L"}
	ages := []int64{0, wait - 1, wait, wait + 1, wait / 2, 2 * wait, int64(24 * time.Hour), int64(time.Hour)}
	mk := func() string {
		var st []string
		first := true
		for n := 1 + r.Intn(3); n > 0; n-- {
			k := kid
			if r.Chance(25) {
				k = (kid + 1 + r.Intn(2)) % 3
			}
			if !(first && r.Chance(20)) { // sometimes the first use happens before any key was configured
				st = append(st, fmt.Sprintf("k%d", k))
			}
			if !(first && r.Chance(30)) {
				st = append(st, fmt.Sprintf("a%d", ages[r.Intn(len(ages))]))
			}
			if r.Chance(50) {
				st = append(st, fmt.Sprintf("v%d", r.Intn(2)))
			}
			st = append(st, uses[r.Intn(len(uses))])
			first = false
		}
		// the configuration that counts
		if r.Chance(85) {
			st = append(st, fmt.Sprintf("k%d", kid))
		}
		if r.Chance(85) {
			st = append(st, fmt.Sprintf("a%d", ages[r.Intn(len(ages))]))
		}
		if r.Chance(50) {
			st = append(st, fmt.Sprintf("v%d", r.Intn(2)))
		}
		return strings.Join(st, ",")
	}
	present := addr
	if r.Chance(15) {
		present = otherAddr(r, addr)
	}
	rn.queue = append(rn.queue, fmt.Sprintf("sleep %d", wait))
	for n := 2 + r.Intn(3); n > 0; n-- {
		rn.queue = append(rn.queue, fmt.Sprintf("reuse %s @%d %s %d", mk(), id, present, idle))
	}
	if retryTok {
		return fmt.Sprintf("issue %d %d R %s %s %s", id, kid, addr, hx(r.Bytes(8)), hx(r.Bytes(4)))
	}
	return fmt.Sprintf("issue %d %d N %s %d", id, kid, addr, r.Range(0, 500_000))
}

func (rn *runner) genIssue(r *vh.Rand) string {
	id := rn.nextID
	rn.nextID++
	kid := r.Pick(80, 20)
	if r.Chance(55) {
		return fmt.Sprintf("issue %d %d R %s %s %s", id, kid, genAddr(r), hx(r.Bytes([]int{0, 4, 8, 16, 20}[r.Intn(5)])), hx(r.Bytes([]int{0, 4, 8, 20}[r.Intn(4)])))
	}
	return fmt.Sprintf("issue %d %d N %s %d", id, kid, genAddr(r), r.Range(0, 500_000))
}

// hand-made plaintexts: ages straddling the limits, future timestamps, malformed payloads, oversized conn IDs
func (rn *runner) genRaw(r *vh.Rand) string {
	id := rn.nextID
	rn.nextID++
	now := time.Now().UnixNano()
	age, idle := maxAges[r.Intn(len(maxAges))], idles[r.Intn(len(idles))]
	retry := r.Intn(2)
	limit := age
	if retry == 1 {
		limit = 2 * idle
	}
	ts := now - limit + r.Range(-2, 2)
	if r.Chance(15) {
		ts = now + r.Range(1, int64(time.Hour)) // from the future
	}
	addr := genAddr(r)
	enc := handshake.VerifAmpEncodeRemoteAddr(parseAddr(addr))
	kind := []string{"F", "G", "T"}[r.Pick(80, 10, 10)]
	cidLen := []int{0, 8, 20}[r.Intn(3)]
	if r.Chance(6) {
		cidLen = 21 + r.Intn(3) // ParseConnectionID panics beyond 20 bytes
	}
	odcid, rscid := r.Bytes(cidLen), r.Bytes([]int{0, 8, 20}[r.Intn(3)])
	if retry == 0 && r.Chance(70) {
		odcid, rscid = nil, nil
	}
	rn.queue = append(rn.queue, fmt.Sprintf("check 0 @%d %s %d %d", id, addr, age, idle))
	return fmt.Sprintf("raw %d 0 %s %d %s %d %d %s %s", id, kind, retry, hx(enc), ts, r.Range(0, 300_000), hx(odcid), hx(rscid))
}

func (rn *runner) remember(id int, t issued) {
	if rn.byID == nil {
		rn.byID = map[int][]byte{}
	}
	rn.byID[id] = t.tok
	rn.toks = append(rn.toks, t)
}

func now() string { return fmt.Sprintf(" | now=%d", time.Now().UnixNano()) }

func (rn *runner) AfterPanic(op string) string {
	if strings.HasPrefix(op, "decode2") {
		return "PANIC"
	}
	if strings.HasPrefix(op, "check") {
		return "PANIC valid=0" + now()
	}
	return "PANIC"
}

// tokenArg resolves "<hex>", "-" or "@<tid>" (the bytes of an earlier issue/raw of this case)
func (rn *runner) tokenArg(s string) ([]byte, bool) {
	if strings.HasPrefix(s, "@") {
		id, _ := strconv.Atoi(s[1:])
		tk, ok := rn.byID[id]
		return tk, ok
	}
	return unhx(s), true
}

func (rn *runner) Exec(op string) string {
	f := strings.Fields(op)
	if len(f) == 0 {
		return "bad-op"
	}
	switch f[0] {
	case "issue":
		if len(f) < 6 {
			return "bad-op"
		}
		id, _ := strconv.Atoi(f[1])
		kid, ok := kidOf(f[2])
		addr := parseAddr(f[4])
		if !ok || addr == nil {
			return "bad-op"
		}
		var tok []byte
		var err error
		if f[3] == "R" && len(f) == 7 {
			tok, err = rn.gens[kid].NewRetryToken(addr, protocol.ParseConnectionID(unhx(f[5])), protocol.ParseConnectionID(unhx(f[6])))
		} else if f[3] == "N" && len(f) == 6 {
			tok, err = rn.gens[kid].NewToken(addr, time.Duration(vh.Atoi64(f[5]))*time.Microsecond)
		} else {
			return "bad-op"
		}
		if err != nil {
			return "E:issue"
		}
		rn.remember(id, issued{kid: kid, tok: tok, addr: f[4], retry: f[3] == "R"})
		return "ok tok=" + hx(tok) + now()
	case "raw":
		if len(f) != 10 {
			return "bad-op"
		}
		id, _ := strconv.Atoi(f[1])
		kid, ok := kidOf(f[2])
		if !ok {
			return "bad-op"
		}
		data, err := asn1.Marshal(asn1Token{IsRetryToken: f[4] == "1", RemoteAddr: unhx(f[5]), Timestamp: vh.Atoi64(f[6]),
			RTT: vh.Atoi64(f[7]), OriginalDestConnectionID: unhx(f[8]), RetrySrcConnectionID: unhx(f[9])})
		if err != nil {
			return "E:asn1"
		}
		switch f[3] {
		case "G":
			data = []byte{0xde, 0xad, 0xbe, 0xef, byte(id)}
		case "T":
			data = append(data, 0)
		}
		tok, err := rn.gens[kid].VerifAmpSealRaw(data)
		if err != nil {
			return "E:seal"
		}
		rn.remember(id, issued{kid: kid, tok: tok, retry: f[4] == "1",
			panics: f[3] == "F" && f[4] == "1" && (len(unhx(f[8])) > 20 || len(unhx(f[9])) > 20)})
		return "ok tok=" + hx(tok) + now()
	case "decode":
		if len(f) != 3 {
			return "bad-op"
		}
		kid, ok := kidOf(f[1])
		tokb, ok2 := rn.tokenArg(f[2])
		if !ok {
			return "bad-op"
		}
		if !ok2 {
			return "skip"
		}
		t, err := rn.gens[kid].DecodeToken(tokb)
		return fmtTok(t, err, true)
	case "decode2":
		if len(f) != 4 {
			return "bad-op"
		}
		kid, ok := kidOf(f[1])
		ta, oka := rn.tokenArg(f[2])
		tb, okb := rn.tokenArg(f[3])
		if !ok {
			return "bad-op"
		}
		if !oka || !okb {
			return "skip"
		}
		a, errA := rn.gens[kid].DecodeToken(ta)
		first := fmtTok(a, errA, true)
		b, errB := rn.gens[kid].DecodeToken(tb)
		return "A " + first + " ; B " + fmtTok(b, errB, true) + " ; A2 " + fmtTok(a, errA, true)
	case "cinit":
		if len(f) != 7 {
			return "bad-op"
		}
		kid, ok := kidOf(f[1])
		addr := parseAddr(f[3])
		tokb, ok2 := rn.tokenArg(f[2])
		if !ok || addr == nil {
			return "bad-op"
		}
		if !ok2 || rn.mayPanic(hx(tokb)) {
			return "skip"
		}
		return rn.realInitialOpt(kid, tokb, addr, f[4] == "1", time.Duration(vh.Atoi64(f[5])), time.Duration(vh.Atoi64(f[6])), true) + now()
	case "check":
		if len(f) != 6 {
			return "bad-op"
		}
		kid, ok := kidOf(f[1])
		addr := parseAddr(f[3])
		tokb, ok2 := rn.tokenArg(f[2])
		if !ok || addr == nil {
			return "bad-op"
		}
		if !ok2 {
			return "skip"
		}
		t, err := rn.gens[kid].DecodeToken(tokb)
		valid := 0
		if err == nil && quic.VerifAmpValidateToken(t, addr, time.Duration(vh.Atoi64(f[4])), time.Duration(vh.Atoi64(f[5]))) {
			valid = 1
		}
		return fmt.Sprintf("%s valid=%d", fmtTok(t, err, false), valid) + now()
	case "initial":
		if len(f) != 7 {
			return "bad-op"
		}
		kid, ok := kidOf(f[1])
		addr := parseAddr(f[3])
		tokb, ok2 := rn.tokenArg(f[2])
		if !ok || addr == nil {
			return "bad-op"
		}
		if !ok2 || rn.mayPanic(hx(tokb)) {
			return "skip"
		}
		return rn.realInitial(kid, tokb, addr, f[4] == "1", time.Duration(vh.Atoi64(f[5])), time.Duration(vh.Atoi64(f[6]))) + now()
	case "reuse":
		if len(f) != 5 {
			return "bad-op"
		}
		addr := parseAddr(f[3])
		tokb, ok2 := rn.tokenArg(f[2])
		if addr == nil || !validScript(f[1]) {
			return "bad-op"
		}
		if !ok2 || rn.mayPanic(hx(tokb)) {
			return "skip"
		}
		return rn.reuse(f[1], tokb, addr, time.Duration(vh.Atoi64(f[4]))) + now()
	case "dkey":
		if len(f) != 2 {
			return "bad-op"
		}
		in := rn.inst(int(vh.Atoi64(f[1])))
		if in == nil {
			return "E:listen"
		}
		key := *in.tr.TokenGeneratorKey
		zero, dup := 0, 0
		if key == (handshake.TokenProtectorKey{}) {
			zero = 1
		}
		for i, o := range rn.insts {
			if i != in.id && *o.tr.TokenGeneratorKey == key {
				dup = 1
			}
		}
		for _, k := range rn.keys {
			if k == key {
				dup = 1
			}
		}
		return fmt.Sprintf("zero=%d dup=%d", zero, dup)
	case "dissue":
		if len(f) != 4 {
			return "bad-op"
		}
		id, _ := strconv.Atoi(f[1])
		addr := parseAddr(f[3])
		in := rn.inst(int(vh.Atoi64(f[2])))
		if addr == nil {
			return "bad-op"
		}
		if in == nil {
			return "E:listen"
		}
		res, out := in.present(nil, addr, true)
		for _, d := range out {
			if len(d) > 0 && wire.IsLongHeaderPacket(d[0]) {
				if h, _, _, err := wire.ParsePacket(d); err == nil && h.Type == protocol.PacketTypeRetry {
					if rn.byID == nil {
						rn.byID = map[int][]byte{}
					}
					rn.byID[id] = append([]byte(nil), h.Token...)
					return "ok tok=" + hx(h.Token) + " rscid=" + hx(h.SrcConnectionID.Bytes()) + now()
				}
			}
		}
		return "E:" + strings.Fields(res)[0] + now()
	case "dinitial":
		if len(f) != 5 {
			return "bad-op"
		}
		addr := parseAddr(f[3])
		tokb, ok2 := rn.tokenArg(f[2])
		if addr == nil {
			return "bad-op"
		}
		if !ok2 || rn.mayPanic(hx(tokb)) {
			return "skip"
		}
		in := rn.inst(int(vh.Atoi64(f[1])))
		if in == nil {
			return "E:listen"
		}
		res, _ := in.present(tokb, addr, f[4] == "1")
		return res + now()
	case "sleep":
		if len(f) != 2 {
			return "bad-op"
		}
		time.Sleep(time.Duration(vh.Atoi64(f[1])))
		return "ok" + now()
	}
	return "bad-op"
}

var srvAddr = &net.UDPAddr{IP: net.IPv4(1, 0, 0, 1), Port: 443}

// capRouter delivers datagrams addressed to the server and captures everything the server writes
type capRouter struct {
	inner simnet.PerfectRouter
	mu    sync.Mutex
	out   [][]byte
}

func (r *capRouter) AddNode(a net.Addr, c simnet.PacketReceiver) { r.inner.AddNode(a, c) }
func (r *capRouter) SendPacket(p simnet.Packet) error {
	if p.To.String() == srvAddr.String() {
		return r.inner.SendPacket(p)
	}
	r.mu.Lock()
	r.out = append(r.out, append([]byte(nil), p.Data...))
	r.mu.Unlock()
	return nil
}

// instance is a real quic.Transport + Listener that was NOT given a TokenGeneratorKey
type instance struct {
	id         int
	rt         *capRouter
	sc         *simnet.SimConn
	tr         *quic.Transport
	ln         *quic.Listener
	mu         sync.Mutex
	wantsRetry bool
	called     bool
	verified   bool
}

func (rn *runner) inst(id int) *instance {
	if id < 0 || id > 2 {
		return nil
	}
	if in, ok := rn.insts[id]; ok {
		return in
	}
	in := &instance{id: id, rt: &capRouter{}}
	in.sc = simnet.NewSimConn(srvAddr, in.rt)
	in.tr = &quic.Transport{Conn: in.sc}
	in.tr.VerifySourceAddress = func(net.Addr) bool { in.mu.Lock(); defer in.mu.Unlock(); return in.wantsRetry }
	ln, err := in.tr.Listen(&tls.Config{NextProtos: []string{"verif"}}, &quic.Config{
		HandshakeIdleTimeout: 5 * time.Second,
		GetConfigForClient: func(ci *quic.ClientInfo) (*quic.Config, error) {
			in.mu.Lock()
			in.called, in.verified = true, ci.AddrVerified
			in.mu.Unlock()
			return nil, fmt.Errorf("verif: refuse")
		},
	})
	if err != nil {
		return nil
	}
	in.ln = ln
	if rn.insts == nil {
		rn.insts = map[int]*instance{}
	}
	rn.insts[id] = in
	return in
}

// present shows one 1200-byte Initial with this token to the instance; returns the decision and what it wrote
func (in *instance) present(tok []byte, from net.Addr, wantsRetry bool) (string, [][]byte) {
	in.mu.Lock()
	in.wantsRetry, in.called, in.verified = wantsRetry, false, false
	in.mu.Unlock()
	in.rt.mu.Lock()
	in.rt.out = nil
	in.rt.mu.Unlock()
	raw := initialDatagram(tok)
	if raw == nil {
		return "E:hdr", nil
	}
	in.rt.inner.SendPacket(simnet.Packet{To: srvAddr, From: from, Data: raw})
	synctest.Wait()
	res := "drop"
	in.mu.Lock()
	if in.called {
		res = fmt.Sprintf("proceed av=%d", map[bool]int{false: 0, true: 1}[in.verified])
	}
	in.mu.Unlock()
	in.rt.mu.Lock()
	out := in.rt.out
	in.rt.out = nil
	in.rt.mu.Unlock()
	for _, d := range out {
		if len(d) > 0 && wire.IsLongHeaderPacket(d[0]) {
			if h, _, _, err := wire.ParsePacket(d); err == nil && h.Type == protocol.PacketTypeRetry && res == "drop" {
				res = "retry"
			}
		}
	}
	return res, out
}

func (rn *runner) Close() {
	for _, in := range rn.insts {
		go in.ln.Close()
		synctest.Wait()
		in.tr.Close()
		in.sc.Close()
	}
	rn.insts = nil
	synctest.Wait()
}

// initialDatagram is a 1200-byte Initial (junk payload: the server looks at the header only) with this token
func initialDatagram(tok []byte) []byte {
	v := protocol.Version1
	hdr := &wire.ExtendedHeader{
		Header: wire.Header{Type: protocol.PacketTypeInitial, DestConnectionID: protocol.ParseConnectionID([]byte{1, 2, 3, 4, 5, 6, 7, 8}),
			SrcConnectionID: protocol.ParseConnectionID([]byte{9, 9, 9, 9}), Version: v, Token: tok, Length: 1000},
		PacketNumber: 0, PacketNumberLen: protocol.PacketNumberLen4,
	}
	raw, err := hdr.Append(nil, v)
	if err != nil {
		return nil
	}
	hdr.Length = protocol.ByteCount(4 + 1200 - len(raw))
	raw, _ = hdr.Append(nil, v)
	for len(raw) < 1200 {
		raw = append(raw, byte(len(raw)*7+3))
	}
	return raw
}

// realInitial shows one Initial datagram with the given token to a real server and reports what
// handleInitialImpl decided.
func (rn *runner) realInitial(kid int, tok []byte, from net.Addr, wantsRetry bool, maxTokenAge, idle time.Duration) string {
	return rn.realInitialOpt(kid, tok, from, wantsRetry, maxTokenAge, idle, false)
}

// realInitialOpt: with accept the connection is created by the real newConnection and observed by the hook
func (rn *runner) realInitialOpt(kid int, tok []byte, from net.Addr, wantsRetry bool, maxTokenAge, idle time.Duration, accept bool) string {
	rt := &capRouter{}
	sc := simnet.NewSimConn(srvAddr, rt)
	key := rn.keys[kid]
	tr := &quic.Transport{Conn: sc, TokenGeneratorKey: &key, MaxTokenAge: maxTokenAge}
	if wantsRetry {
		tr.VerifySourceAddress = func(net.Addr) bool { return true }
	}
	var mu sync.Mutex
	called, verified := false, false
	ln, err := tr.Listen(&tls.Config{NextProtos: []string{"verif"}}, &quic.Config{
		HandshakeIdleTimeout: idle,
		GetConfigForClient: func(ci *quic.ClientInfo) (*quic.Config, error) {
			mu.Lock()
			called, verified = true, ci.AddrVerified
			mu.Unlock()
			if accept {
				return nil, nil
			}
			return nil, fmt.Errorf("verif: refuse")
		},
	})
	if err != nil {
		return "E:listen"
	}
	var conns []quic.VerifAmpNewConn
	if accept {
		quic.VerifAmpOnNewConn(func(c quic.VerifAmpNewConn) { mu.Lock(); conns = append(conns, c); mu.Unlock() })
		defer quic.VerifAmpOnNewConn(nil)
	}
	v := protocol.Version1
	hdr := &wire.ExtendedHeader{
		Header: wire.Header{Type: protocol.PacketTypeInitial, DestConnectionID: protocol.ParseConnectionID([]byte{1, 2, 3, 4, 5, 6, 7, 8}),
			SrcConnectionID: protocol.ParseConnectionID([]byte{9, 9, 9, 9}), Version: v, Token: tok, Length: 1000},
		PacketNumber: 0, PacketNumberLen: protocol.PacketNumberLen4,
	}
	raw, err := hdr.Append(nil, v)
	if err != nil {
		return "E:hdr"
	}
	hdr.Length = protocol.ByteCount(4 + 1200 - len(raw))
	raw, _ = hdr.Append(nil, v)
	for len(raw) < 1200 {
		raw = append(raw, byte(len(raw)*7+3))
	}
	rt.inner.SendPacket(simnet.Packet{To: srvAddr, From: from, Data: raw})
	synctest.Wait()
	res := "drop"
	mu.Lock()
	if called {
		res = fmt.Sprintf("proceed av=%d", map[bool]int{false: 0, true: 1}[verified])
	}
	if accept && called {
		b01 := map[bool]int{false: 0, true: 1}
		switch len(conns) {
		case 0:
			res = "noconn"
		case 1:
			c := conns[0]
			rs := "none"
			if c.HasRetrySrc {
				rs = hx(c.RetrySrcConnID.Bytes())
			}
			res = fmt.Sprintf("conn av=%d odcid=%s rscid=%s rtt=%d lim=%d val=%d", b01[c.ClientAddrVerified], hx(c.OrigDestConnID.Bytes()), rs,
				int64(c.RTT), b01[c.Limited], b01[c.Validated])
			if c.ClientAddrVerified != verified {
				res += " clientinfo=" + fmt.Sprint(b01[verified])
			}
		default:
			res = fmt.Sprintf("conns=%d", len(conns))
		}
	}
	mu.Unlock()
	rt.mu.Lock()
	for _, d := range rt.out {
		if len(d) > 0 && wire.IsLongHeaderPacket(d[0]) {
			if h, _, _, err := wire.ParsePacket(d); err == nil && h.Type == protocol.PacketTypeRetry && res == "drop" {
				res = "retry"
			}
		}
	}
	rt.mu.Unlock()
	go ln.Close()
	synctest.Wait()
	tr.Close()
	sc.Close()
	synctest.Wait()
	return res
}

func kidOf(s string) (int, bool) { k, err := strconv.Atoi(s); return k, err == nil && k >= 0 && k <= 2 }

func validScript(script string) bool {
	for _, st := range strings.Split(script, ",") {
		if st == "" {
			return false
		}
		switch st[0] {
		case 'k':
			if _, ok := kidOf(st[1:]); !ok {
				return false
			}
		case 'a':
			if _, err := strconv.ParseInt(st[1:], 10, 64); err != nil {
				return false
			}
		case 'v':
			if st != "v0" && st != "v1" {
				return false
			}
		case 'W', 'R', 'L':
			if len(st) != 1 {
				return false
			}
		default:
			return false
		}
	}
	return true
}

// reuse: one Transport is configured, used, reconfigured, ... and finally listened on; the Initial goes to the LAST listener
func (rn *runner) reuse(script string, tok []byte, from net.Addr, idle time.Duration) string {
	rt := &capRouter{}
	sc := simnet.NewSimConn(srvAddr, rt)
	tr := &quic.Transport{Conn: sc}
	var mu sync.Mutex
	called, verified := false, false
	listen := func() (*quic.Listener, error) {
		return tr.Listen(&tls.Config{NextProtos: []string{"verif"}}, &quic.Config{
			HandshakeIdleTimeout: idle,
			GetConfigForClient: func(ci *quic.ClientInfo) (*quic.Config, error) {
				mu.Lock()
				called, verified = true, ci.AddrVerified
				mu.Unlock()
				return nil, fmt.Errorf("verif: refuse")
			},
		})
	}
	defer func() {
		tr.Close()
		sc.Close()
		synctest.Wait()
	}()
	for _, st := range strings.Split(script, ",") {
		switch st[0] {
		case 'k':
			kid, _ := kidOf(st[1:])
			key := rn.keys[kid]
			tr.TokenGeneratorKey = &key
		case 'a':
			tr.MaxTokenAge = time.Duration(vh.Atoi64(st[1:]))
		case 'v':
			tr.VerifySourceAddress = nil
			if st == "v1" {
				tr.VerifySourceAddress = func(net.Addr) bool { return true }
			}
		case 'W':
			tr.WriteTo([]byte{0x00, 0x01}, &net.UDPAddr{IP: net.IPv4(1, 0, 0, 9), Port: 9})
		case 'R':
			ctx, cancel := context.WithCancel(context.Background())
			cancel()
			tr.ReadNonQUICPacket(ctx, make([]byte, 16))
		case 'L':
			ln, err := listen()
			if err != nil {
				return "E:listen"
			}
			go ln.Close()
			synctest.Wait()
		}
	}
	ln, err := listen()
	if err != nil {
		return "E:listen"
	}
	raw := initialDatagram(tok)
	if raw == nil {
		return "E:hdr"
	}
	rt.mu.Lock()
	rt.out = nil
	rt.mu.Unlock()
	rt.inner.SendPacket(simnet.Packet{To: srvAddr, From: from, Data: raw})
	synctest.Wait()
	res := "drop"
	mu.Lock()
	if called {
		res = fmt.Sprintf("proceed av=%d", map[bool]int{false: 0, true: 1}[verified])
	}
	mu.Unlock()
	rt.mu.Lock()
	for _, d := range rt.out {
		if len(d) > 0 && wire.IsLongHeaderPacket(d[0]) {
			if h, _, _, err := wire.ParsePacket(d); err == nil && h.Type == protocol.PacketTypeRetry && res == "drop" {
				res = "retry"
			}
		}
	}
	rt.mu.Unlock()
	go ln.Close()
	synctest.Wait()
	return res
}

func fmtTok(t *handshake.Token, err error, full bool) string {
	switch {
	case err != nil:
		return "err"
	case t == nil:
		return "nil"
	case !full:
		return "ok"
	}
	r := 0
	if t.IsRetryToken {
		r = 1
	}
	return fmt.Sprintf("ok retry=%d sent=%d addr=%s rtt=%d odcid=%s rscid=%s", r, t.SentTime.UnixNano(), hx(t.VerifAmpEncodedAddr()),
		int64(t.RTT), hx(t.OriginalDestConnectionID.Bytes()), hx(t.RetrySrcConnectionID.Bytes()))
}

func TestDriver(t *testing.T) {
	synctest.Test(t, func(t *testing.T) { vh.Main(t, "token", newRunner) })
}
