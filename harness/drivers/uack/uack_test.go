//go:build verif

// Driver "uack" (property C05, glue): a spec-driven client connection built by the real
// newUClientConnection — its sent packet handler is the uSentPacketHandler that the real glue configured
// from the QUICSpec (NewUAckHandler, SetInitialPacketNumberLength(s)) — driven the way the packer and the
// frame handler drive it:
//
//	unew <spec> <initPN> <single> <l1,l2,…|->   new connection; spec 0 = Firefox 116, 1 = Chrome 115; the
//	                                            InitialPacketSpec's InitPacketNumber / InitPacketNumberLength /
//	                                            InitPacketNumberLengths are overwritten with the given values
//	send <I|H|Z|A> <n>                           n packets: PeekPacketNumber (number, wire length), PopPacketNumber, SentPacket
//	ack <I|H|A> <hi-lo,hi-lo,…>                  an ACK frame received in a packet of that level: Conn.handleAckFrame
//	done                                         a HANDSHAKE_DONE frame: Conn.handleHandshakeDoneFrame
//
// results:
//
//	send: pns=<lo-hi,lo-hi,…> lens=<len>x<count>,… peek=ok|<first pn where Peek differed from Pop>
//	ack:  ok a1=<ReceivedAck said a 1-RTT packet was newly acknowledged> conf=<Conn.handshakeConfirmed> gate=<updateAllowed>
//	done: ok conf=… gate=…
package uack

import (
	"fmt"
	"strconv"
	"strings"
	"testing"

	quic "github.com/refraction-networking/uquic"
	"github.com/refraction-networking/uquic/internal/protocol"
	"github.com/refraction-networking/uquic/internal/verifharness/vh"
	"github.com/refraction-networking/uquic/internal/wire"
)

type sentRec struct {
	pn  int64
	lvl byte
}

type runner struct {
	v *quic.VerifC05Conn
	// what was sent, per packet number space (0 Initial, 1 Handshake, 2 application data), in send order
	sent [3][]sentRec
	has  [3]map[int64]byte
	// generator state
	made    bool
	style   int
	bigLeft int
	sentA   bool
}

func newRunner(r *vh.Rand) vh.Runner {
	rn := &runner{style: r.Pick(40, 35, 25)}
	if r.Chance(4) {
		rn.bigLeft = 1
	}
	return rn
}

func (rn *runner) Close() {
	if rn.v != nil {
		rn.v.Close()
		rn.v = nil
	}
}

func spaceOf(l byte) int {
	switch l {
	case 'I':
		return 0
	case 'H':
		return 1
	}
	return 2
}

func lvlOf(l byte) protocol.EncryptionLevel {
	switch l {
	case 'I':
		return protocol.EncryptionInitial
	case 'H':
		return protocol.EncryptionHandshake
	case 'Z':
		return protocol.Encryption0RTT
	}
	return protocol.Encryption1RTT
}

func genLens(r *vh.Rand) string {
	n := 1 + r.Intn(4)
	var s []string
	for i := 0; i < n; i++ {
		s = append(s, strconv.Itoa(1+r.Intn(4)))
	}
	return strings.Join(s, ",")
}

func (rn *runner) genNew(r *vh.Rand) string {
	rn.made = true
	ipn := []uint64{0, 1, 1, uint64(r.Intn(200)), uint64(r.Range(0, 70000)), 1<<62 - 1, 1 << 62, r.U64()}[r.Pick(20, 30, 10, 15, 10, 5, 5, 5)]
	single := []int{0, 1, 1, 2, 3, 4}[r.Intn(6)]
	list := "-"
	if r.Chance(35) {
		list = genLens(r)
	}
	return fmt.Sprintf("unew %d %d %d %s", r.Intn(2), ipn, single, list)
}

// genAck acknowledges a few of the packets of one space, by packet number (runs of consecutive numbers).
func (rn *runner) genAck(r *vh.Rand, sp int, onlyLvl byte) string {
	s := rn.sent[sp]
	if len(s) == 0 {
		return ""
	}
	// candidate window: mostly the most recent packets, sometimes anywhere
	hi := len(s) - 1 - r.Intn(min(len(s), 6))
	if r.Chance(15) {
		hi = r.Intn(len(s))
	}
	var rs []string
	nr := 1 + r.Intn(3)
	i := hi
	for k := 0; k < nr && i >= 0; k++ {
		if onlyLvl != 0 && s[i].lvl != onlyLvl {
			// look for a packet of the wanted level below
			for i >= 0 && s[i].lvl != onlyLvl {
				i--
			}
			if i < 0 {
				break
			}
		}
		top := s[i].pn
		lo := top
		w := r.Intn(5)
		for w > 0 && i > 0 && s[i-1].pn == lo-1 && (onlyLvl == 0 || s[i-1].lvl == onlyLvl) {
			i--
			lo--
			w--
		}
		rs = append(rs, fmt.Sprintf("%d-%d", top, lo))
		// leave a gap of at least one packet number that is not acknowledged
		i -= 2 + r.Intn(4)
		for i >= 0 && s[i].pn >= lo-1 {
			i--
		}
	}
	if len(rs) == 0 {
		return ""
	}
	return fmt.Sprintf("ack %s %s", []string{"I", "H", "A"}[sp], strings.Join(rs, ","))
}

func (rn *runner) GenOp(r *vh.Rand, i int) string {
	if !rn.made && (i == 0 || r.Chance(60)) {
		return rn.genNew(r)
	}
	op := rn.genOp(r)
	f := strings.Fields(op)
	confirmed := rn.v != nil && rn.v.Confirmed()
	if len(f) == 3 && (f[1] == "I" || f[1] == "H") && confirmed && r.Chance(95) {
		// the connection dropped these keys: mostly keep going with application data
		return fmt.Sprintf("send A %d", 1+r.Intn(5))
	}
	if len(f) == 3 && f[0] == "send" {
		switch f[1] {
		case "A":
			rn.sentA = true
		case "Z":
			if rn.sentA { // no 0-RTT packets once 1-RTT keys are in use
				return "send A " + f[2]
			}
		}
	}
	return op
}

func (rn *runner) genOp(r *vh.Rand) string {
	or := func(op, alt string) string {
		if op == "" {
			return alt
		}
		return op
	}
	switch rn.style {
	case 0: // long runs in the non-Initial spaces with sparse acknowledgements
		switch r.Pick(6, 22, 22, 22, 20, 6, 1) {
		case 0:
			return fmt.Sprintf("send I %d", 1+r.Intn(3))
		case 1, 2, 3:
			l := []string{"H", "Z", "A"}[r.Intn(3)]
			n := []int{1, 1 + r.Intn(8), 20 + r.Intn(120), 120 + r.Intn(300)}[r.Pick(30, 30, 25, 15)]
			if rn.bigLeft > 0 && r.Chance(15) {
				rn.bigLeft--
				n = 32600 + r.Intn(400)
			}
			return fmt.Sprintf("send %s %d", l, n)
		case 4:
			return or(rn.genAck(r, 1+r.Intn(2), 0), "send A 3")
		case 5:
			return or(rn.genAck(r, 0, 0), "send I 1")
		default:
			return "done"
		}
	case 1: // 0-RTT first, then 1-RTT; ACKs that cover only 0-RTT packets, only 1-RTT packets, or both
		switch r.Pick(8, 25, 12, 16, 14, 10, 6, 2) {
		case 0:
			return fmt.Sprintf("send I %d", 1+r.Intn(2))
		case 1:
			return fmt.Sprintf("send Z %d", 1+r.Intn(9))
		case 2:
			if len(rn.sent[2]) > 0 {
				return fmt.Sprintf("send A %d", 1+r.Intn(6))
			}
			return fmt.Sprintf("send Z %d", 1+r.Intn(9))
		case 3:
			return or(rn.genAck(r, 2, 'Z'), "send Z 2")
		case 4:
			return or(rn.genAck(r, 2, 'A'), "send Z 1")
		case 5:
			return or(rn.genAck(r, 2, 0), "send Z 3")
		case 6:
			return or(rn.genAck(r, r.Intn(2), 0), "send H 1")
		default:
			return "done"
		}
	default: // everything mixed
		switch r.Pick(12, 14, 16, 20, 12, 10, 12, 3) {
		case 0:
			return fmt.Sprintf("send I %d", 1+r.Intn(4))
		case 1:
			return fmt.Sprintf("send H %d", 1+r.Intn(40))
		case 2:
			return fmt.Sprintf("send Z %d", 1+r.Intn(40))
		case 3:
			return fmt.Sprintf("send A %d", 1+r.Intn(200))
		case 4:
			return or(rn.genAck(r, 2, 0), "send A 2")
		case 5:
			return or(rn.genAck(r, 2, []byte{'Z', 'A'}[r.Intn(2)]), "send Z 2")
		case 6:
			return or(rn.genAck(r, r.Intn(2), 0), "send H 2")
		default:
			return "done"
		}
	}
}

func b2i(b bool) int {
	if b {
		return 1
	}
	return 0
}

func (rn *runner) state() string {
	return fmt.Sprintf("conf=%d gate=%d", b2i(rn.v.Confirmed()), b2i(rn.v.GateOpen()))
}

func (rn *runner) mk(spec int, ipn uint64, single int, list []protocol.PacketNumberLen) string {
	rn.Close()
	rn.sent = [3][]sentRec{}
	rn.has = [3]map[int64]byte{{}, {}, {}}
	id := quic.QUICFirefox_116
	if spec == 1 {
		id = quic.QUICChrome_115
	}
	s, err := quic.QUICID2Spec(id)
	if err != nil {
		return "E:spec"
	}
	s.InitialPacketSpec.InitPacketNumber = ipn
	s.InitialPacketSpec.InitPacketNumberLength = protocol.PacketNumberLen(single)
	s.InitialPacketSpec.InitPacketNumberLengths = list
	v, err := quic.VerifC05NewUConn(&s)
	if err != nil {
		return "E:new"
	}
	rn.v = v
	return "ok"
}

func rle(xs []int64) string {
	var sb strings.Builder
	for i := 0; i < len(xs); {
		j := i
		for j < len(xs) && xs[j] == xs[i] {
			j++
		}
		if sb.Len() > 0 {
			sb.WriteByte(',')
		}
		fmt.Fprintf(&sb, "%dx%d", xs[i], j-i)
		i = j
	}
	return sb.String()
}

func runs(xs []int64) string {
	var sb strings.Builder
	for i := 0; i < len(xs); {
		j := i
		for j+1 < len(xs) && xs[j+1] == xs[j]+1 {
			j++
		}
		if sb.Len() > 0 {
			sb.WriteByte(',')
		}
		fmt.Fprintf(&sb, "%d-%d", xs[i], xs[j])
		i = j + 1
	}
	return sb.String()
}

func (rn *runner) Exec(op string) string {
	f := strings.Fields(op)
	if len(f) == 0 {
		return "bad-op"
	}
	switch f[0] {
	case "unew":
		if len(f) != 5 {
			return "bad-op"
		}
		ipn, err := strconv.ParseUint(f[2], 10, 64)
		if err != nil {
			return "bad-op"
		}
		var list []protocol.PacketNumberLen
		if f[4] != "-" {
			for _, x := range strings.Split(f[4], ",") {
				n := vh.Atoi64(x)
				if n < 1 || n > 4 {
					return "bad-op"
				}
				list = append(list, protocol.PacketNumberLen(n))
			}
		}
		single := int(vh.Atoi64(f[3]))
		if single < 0 || single > 4 {
			return "bad-op"
		}
		return rn.mk(int(vh.Atoi64(f[1])), ipn, single, list)
	case "send":
		if rn.v == nil || len(f) != 3 || len(f[1]) != 1 || !strings.Contains("IHZA", f[1]) {
			return "skip"
		}
		n := int(vh.Atoi64(f[2]))
		if n < 1 || n > 40000 {
			return "skip"
		}
		l := f[1][0]
		if rn.v.KeysDropped(lvlOf(l)) {
			return "skip"
		}
		ps := rn.v.Send(lvlOf(l), n)
		pns := make([]int64, len(ps))
		lens := make([]int64, len(ps))
		peek := "ok"
		sp := spaceOf(l)
		for i, p := range ps {
			pns[i], lens[i] = int64(p.PN), int64(p.Len)
			if p.Peek != p.PN && peek == "ok" {
				peek = strconv.FormatInt(int64(p.PN), 10)
			}
			rn.sent[sp] = append(rn.sent[sp], sentRec{int64(p.PN), l})
			rn.has[sp][int64(p.PN)] = l
		}
		return fmt.Sprintf("pns=%s lens=%s peek=%s", runs(pns), rle(lens), peek)
	case "ack":
		if rn.v == nil || len(f) != 3 || len(f[1]) != 1 || !strings.Contains("IHA", f[1]) {
			return "skip"
		}
		l := f[1][0]
		if rn.v.KeysDropped(lvlOf(l)) {
			return "skip"
		}
		sp := spaceOf(l)
		var rs []wire.AckRange
		prevLo := int64(-1)
		for _, x := range strings.Split(f[2], ",") {
			ab := strings.Split(x, "-")
			if len(ab) != 2 {
				return "skip"
			}
			hi, lo := vh.Atoi64(ab[0]), vh.Atoi64(ab[1])
			if lo > hi || hi-lo > 64 || lo < 0 || (prevLo >= 0 && hi >= prevLo-1) {
				return "skip"
			}
			for p := lo; p <= hi; p++ {
				if _, ok := rn.has[sp][p]; !ok {
					return "skip" // never sent (or a skipped packet number): not what this driver is about
				}
			}
			prevLo = lo
			rs = append(rs, wire.AckRange{Smallest: protocol.PacketNumber(lo), Largest: protocol.PacketNumber(hi)})
		}
		if len(rs) == 0 || len(rs) > 8 {
			return "skip"
		}
		a1, err := rn.v.HandleAck(lvlOf(l), rs)
		if err != nil {
			return "E:" + strings.ReplaceAll(err.Error(), " ", "_")
		}
		return fmt.Sprintf("ok a1=%d %s", b2i(a1), rn.state())
	case "done":
		if rn.v == nil {
			return "skip"
		}
		if err := rn.v.HandshakeDone(); err != nil {
			return "E:" + strings.ReplaceAll(err.Error(), " ", "_")
		}
		return "ok " + rn.state()
	}
	return "bad-op"
}

func TestDriver(t *testing.T) { vh.Main(t, "uack", newRunner) }
