//go:build verif

// Package dgq drives the REAL datagramQueue (datagram_queue.go): HandleDatagramFrame / Receive on the
// receive side, Add / Peek / Pop on the send side. Parked Receive/Add calls run in goroutines inside a
// testing/synctest bubble. After HandleDatagramFrame returned, the frame's buffer is overwritten (it is
// the packet buffer in the real connection), so a queue that kept a reference would return garbage.
package dgq

import (
	"context"
	"encoding/hex"
	"errors"
	"fmt"
	"strings"
	"sync/atomic"
	"testing"
	"testing/synctest"

	quic "github.com/refraction-networking/uquic"
	"github.com/refraction-networking/uquic/internal/verifharness/vh"
	"github.com/refraction-networking/uquic/internal/wire"
)

var errClosed = errors.New("verif closed")

type rres struct {
	b   []byte
	err error
}

type runner struct {
	t    *testing.T
	cmd  chan string
	res  chan string
	done chan struct{}
	up   bool

	q        *quic.VerifDatagramQueue
	hasData  atomic.Int64
	rpending bool
	rdone    chan rres
	apending bool
	adone    chan error
	closed   bool
	style    int
}

func (rn *runner) start() {
	rn.cmd, rn.res, rn.done = make(chan string), make(chan string), make(chan struct{})
	rn.up = true
	go func() {
		defer close(rn.done)
		synctest.Test(rn.t, func(t *testing.T) {
			rn.q = quic.VerifNewDatagramQueue(func() { rn.hasData.Add(1) })
			for op := range rn.cmd {
				rn.res <- rn.safeExec(op)
			}
			if !rn.closed {
				rn.q.CloseWithError(errClosed)
			}
			synctest.Wait()
		})
	}()
}

func (rn *runner) Exec(op string) string {
	if !rn.up {
		rn.start()
	}
	rn.cmd <- op
	return <-rn.res
}

func (rn *runner) Close() {
	if rn.up {
		close(rn.cmd)
		<-rn.done
		rn.up = false
	}
}

func (rn *runner) safeExec(op string) (res string) {
	defer func() {
		if e := recover(); e != nil {
			res = rn.finish("PANIC")
		}
	}()
	return rn.exec(op)
}

func hexOrDash(b []byte) string {
	if len(b) == 0 {
		return "-"
	}
	return hex.EncodeToString(b)
}

func unhex(s string) []byte {
	if s == "-" {
		return nil
	}
	b, _ := hex.DecodeString(s)
	return b
}

func (rn *runner) exec(op string) string {
	f := strings.Fields(op)
	rn.hasData.Store(0)
	res := "bad-op"
	switch {
	case f[0] == "handle" && len(f) == 2:
		buf := unhex(f[1])
		rn.q.Handle(&wire.DatagramFrame{DataLenPresent: true, Data: buf})
		for i := range buf { // the packet buffer is reused
			buf[i] ^= 0x5a
		}
		res = "ok"
	case f[0] == "recv":
		if rn.rpending {
			res = "skip"
			break
		}
		rn.rpending = true
		rn.rdone = make(chan rres, 1)
		go func(done chan rres) {
			b, err := rn.q.Receive(context.Background())
			done <- rres{b, err}
		}(rn.rdone)
		res = "ok"
	case f[0] == "close":
		if !rn.closed { // CloseWithError closes a channel: calling it twice panics, the connection calls it once
			rn.closed = true
			rn.q.CloseWithError(errClosed)
		}
		res = "ok"
	case f[0] == "add" && len(f) == 2:
		if rn.apending {
			res = "skip"
			break
		}
		rn.apending = true
		rn.adone = make(chan error, 1)
		go func(p []byte, done chan error) {
			done <- rn.q.Add(&wire.DatagramFrame{DataLenPresent: true, Data: p})
		}(unhex(f[1]), rn.adone)
		res = "ok"
	case f[0] == "peek":
		if fr := rn.q.Peek(); fr != nil {
			res = "p=" + hexOrDash(fr.Data)
		} else {
			res = "p=nil"
		}
	case f[0] == "pop":
		rn.q.Pop()
		res = "ok"
	}
	return rn.finish(res)
}

func (rn *runner) finish(res string) string {
	synctest.Wait()
	rcv, add := "-", "-"
	if rn.rpending {
		select {
		case r := <-rn.rdone:
			rn.rpending = false
			if r.err != nil {
				rcv = "E"
			} else {
				rcv = "R" + hexOrDash(r.b)
			}
		default:
			rcv = "B"
		}
	}
	if rn.apending {
		select {
		case err := <-rn.adone:
			rn.apending = false
			if err != nil {
				add = "E"
			} else {
				add = "ok"
			}
		default:
			add = "B"
		}
	}
	return fmt.Sprintf("%s rcv=%s add=%s hd=%d rl=%d sl=%d", res, rcv, add, rn.hasData.Load(), rn.q.RcvLen(), rn.q.SendLen())
}

func (rn *runner) GenOp(r *vh.Rand, i int) string {
	payload := func() string {
		n := []int64{0, r.Range(1, 8), r.Range(1, 1200)}[r.Pick(5, 60, 35)]
		return hexOrDash(r.Bytes(int(n)))
	}
	wClose := 1
	switch rn.style {
	case 0: // balanced
		switch r.Pick(30, 30, wClose, 14, 10, 10) {
		case 0:
			return "handle " + payload()
		case 1:
			return "recv"
		case 2:
			return "close"
		case 3:
			return "add " + payload()
		case 4:
			return "peek"
		default:
			if rn.q != nil && rn.q.SendLen() == 0 && r.Chance(90) {
				return "peek"
			}
			return "pop"
		}
	case 1: // flood the receive queue past its cap, then drain
		if i < 150 {
			if r.Chance(92) {
				return "handle " + hexOrDash(r.Bytes(int(r.Range(1, 6))))
			}
			return "recv"
		}
		if r.Chance(80) {
			return "recv"
		}
		return "handle " + payload()
	default: // flood the send queue past its cap
		if i < 45 {
			if r.Chance(90) {
				return "add " + hexOrDash(r.Bytes(int(r.Range(1, 6))))
			}
			return "peek"
		}
		switch r.Pick(30, 40, 25, 2) {
		case 0:
			return "peek"
		case 1:
			if rn.q != nil && rn.q.SendLen() == 0 {
				return "peek"
			}
			return "pop"
		case 2:
			return "add " + payload()
		default:
			return "close"
		}
	}
}

func TestDriver(t *testing.T) {
	vh.Main(t, "dgq", func(r *vh.Rand) vh.Runner { return &runner{t: t, style: r.Pick(50, 30, 20)} })
}
