//go:build verif

package quic

import (
	"context"
	"fmt"
	"net"
	"time"

	"github.com/refraction-networking/uquic/internal/ackhandler"
	"github.com/refraction-networking/uquic/internal/handshake"
	"github.com/refraction-networking/uquic/internal/monotime"
	"github.com/refraction-networking/uquic/internal/protocol"
	"github.com/refraction-networking/uquic/internal/utils"
	"github.com/refraction-networking/uquic/internal/wire"
	tls "github.com/refraction-networking/utls"
)

// Exporters for the C05 glue driver "uack". Add-only.
//
// VerifC05Conn is a spec-driven client *Conn built by the REAL newUClientConnection (so the sent packet
// handler is the uSentPacketHandler configured from the QUICSpec by the real glue: NewUAckHandler +
// SetInitialPacketNumberLength(s)), with a fake sendConn and WITHOUT a run loop or a started handshake.
// The driver plays the run loop: it asks the connection's sent packet handler for packet numbers and
// lengths exactly as the packer does (PeekPacketNumber, PopPacketNumber, SentPacket) and feeds ACK /
// HANDSHAKE_DONE frames to the real Conn.handleAckFrame / Conn.handleHandshakeDoneFrame.
//
// The sent packet handler is wrapped by a recorder that delegates every call and remembers what
// ReceivedAck answered (the `acknowledged a 1-RTT packet` result that confirms the handshake).
type VerifC05Conn struct {
	C   *Conn
	rec *verifC05SPH
	now monotime.Time
}

type verifC05SendConn struct{}

func (verifC05SendConn) Write([]byte, uint16, protocol.ECN) error { return nil }
func (verifC05SendConn) WriteTo([]byte, net.Addr) error           { return nil }
func (verifC05SendConn) Close() error                             { return nil }
func (verifC05SendConn) LocalAddr() net.Addr {
	return &net.UDPAddr{IP: net.IPv4(10, 5, 0, 1), Port: 1}
}
func (verifC05SendConn) RemoteAddr() net.Addr {
	return &net.UDPAddr{IP: net.IPv4(10, 5, 0, 2), Port: 2}
}
func (verifC05SendConn) ChangeRemoteAddr(net.Addr, packetInfo) {}
func (verifC05SendConn) capabilities() connCapabilities        { return connCapabilities{} }

type verifC05Runner struct{}

func (verifC05Runner) Add(protocol.ConnectionID, packetHandler) bool                    { return true }
func (verifC05Runner) Remove(protocol.ConnectionID)                                     {}
func (verifC05Runner) ReplaceWithClosed([]protocol.ConnectionID, []byte, time.Duration) {}
func (verifC05Runner) AddResetToken(protocol.StatelessResetToken, packetHandler)        {}
func (verifC05Runner) RemoveResetToken(protocol.StatelessResetToken)                    {}

type verifC05SPH struct {
	ackhandler.SentPacketHandler
	calls    int
	lastA1   bool
	lastErr  error
}

func (w *verifC05SPH) ReceivedAck(f *wire.AckFrame, l protocol.EncryptionLevel, t monotime.Time) (bool, error) {
	a1, err := w.SentPacketHandler.ReceivedAck(f, l, t)
	w.calls++
	w.lastA1, w.lastErr = a1, err
	return a1, err
}

var (
	verifC05Dest = protocol.ParseConnectionID([]byte{0xc0, 0x05, 0xde, 0xad, 0xbe, 0xef, 3, 4})
	verifC05Src  = protocol.ParseConnectionID([]byte{5, 5, 5, 5})
)

// VerifC05NewUConn builds the client the way UTransport.dial does: the Initial packet number space is
// seeded with spec.InitialPacketSpec.initialPN().
func VerifC05NewUConn(spec *QUICSpec) (v *VerifC05Conn, err error) {
	defer func() {
		if e := recover(); e != nil {
			v, err = nil, fmt.Errorf("newUClientConnection panicked: %v", e)
		}
	}()
	w := newUClientConnection(
		context.Background(),
		verifC05SendConn{},
		verifC05Runner{},
		verifC05Dest,
		verifC05Src,
		&protocol.DefaultConnectionIDGenerator{ConnLen: verifC05Src.Len()},
		newStatelessResetter(nil),
		populateConfig(&Config{DisablePathMTUDiscovery: true}),
		&tls.Config{ServerName: "verif.example", NextProtos: []string{"h3"}},
		spec.InitialPacketSpec.initialPN(),
		true,
		false,
		nil,
		utils.DefaultLogger,
		protocol.Version1,
		spec,
	)
	c := w.Conn
	rec := &verifC05SPH{SentPacketHandler: c.sentPacketHandler}
	c.sentPacketHandler = rec
	return &VerifC05Conn{C: c, rec: rec, now: monotime.Now().Add(time.Second)}, nil
}

func (v *VerifC05Conn) Close() {
	v.C.cryptoStreamHandler.Close()
	v.C.ctxCancel(nil)
}

// KeysDropped: the connection no longer sends at this level (Conn.dropEncryptionLevel ran for it).
func (v *VerifC05Conn) KeysDropped(l protocol.EncryptionLevel) bool {
	switch l {
	case protocol.EncryptionInitial:
		return v.C.droppedInitialKeys || v.C.handshakeConfirmed
	case protocol.EncryptionHandshake:
		return v.C.handshakeConfirmed
	}
	return false
}

// VerifC05Sent is one packet as the packer would have numbered it.
type VerifC05Sent struct {
	Peek, PN protocol.PacketNumber
	Len      protocol.PacketNumberLen
}

// Send numbers and registers n ack-eliciting packets of level l: PeekPacketNumber (number + wire length
// of the packet number, what the packer writes into the header), PopPacketNumber, SentPacket.
// All packets are sent at the same instant (no time-threshold loss can be declared later).
func (v *VerifC05Conn) Send(l protocol.EncryptionLevel, n int) []VerifC05Sent {
	h := v.C.sentPacketHandler
	out := make([]VerifC05Sent, 0, n)
	for i := 0; i < n; i++ {
		peek, ln := h.PeekPacketNumber(l)
		pn := h.PopPacketNumber(l)
		h.SentPacket(v.now, pn, protocol.InvalidPacketNumber, nil,
			[]ackhandler.Frame{{Frame: &wire.PingFrame{}}}, l, protocol.ECNNon, 60, false, false)
		out = append(out, VerifC05Sent{Peek: peek, PN: pn, Len: ln})
	}
	return out
}

// HandleAck: `case *wire.AckFrame:` of Conn.handleFrame — the real Conn.handleAckFrame for an ACK frame
// that arrived in a packet of level l. a1 is what the sent packet handler's ReceivedAck answered.
func (v *VerifC05Conn) HandleAck(l protocol.EncryptionLevel, ranges []wire.AckRange) (a1 bool, err error) {
	v.C.lastPacketReceivedTime = v.now
	before := v.rec.calls
	err = v.C.handleAckFrame(&wire.AckFrame{AckRanges: ranges}, l, v.now)
	if v.rec.calls != before {
		a1 = v.rec.lastA1
	}
	return a1, err
}

// HandshakeDone: `case *wire.HandshakeDoneFrame:` of Conn.handleFrame.
func (v *VerifC05Conn) HandshakeDone() error { return v.C.handleHandshakeDoneFrame(v.now) }

// Confirmed: the connection's own view; GateOpen: whether the 1-RTT AEAD would allow initiating a key
// update now (updatableAEAD.updateAllowed: opened by CryptoSetup.SetHandshakeConfirmed).
func (v *VerifC05Conn) Confirmed() bool { return v.C.handshakeConfirmed }
func (v *VerifC05Conn) GateOpen() bool  { return handshake.VerifKeyUpdateAllowed(v.C.cryptoStreamHandler) }
