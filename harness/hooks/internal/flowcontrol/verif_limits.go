//go:build verif

package flowcontrol

// VerifLimitsReceiveWindow reads the receive side of a flow controller (read-only, C12):
// the absolute receive window (highest offset the peer may send), the window size and its cap.
func VerifLimitsReceiveWindow(fc any) (window, size, maxSize int64, ok bool) {
	var b *baseFlowController
	switch c := fc.(type) {
	case *connectionFlowController:
		b = &c.baseFlowController
	case *streamFlowController:
		b = &c.baseFlowController
	default:
		return 0, 0, 0, false
	}
	b.mutex.Lock()
	defer b.mutex.Unlock()
	return int64(b.receiveWindow), int64(b.receiveWindowSize), int64(b.maxReceiveWindowSize), true
}
