//go:build verif

package flowcontrol

import "fmt"

// VerifDump renders the private fields of a flow controller (read only) as
// bs/sw/lb/br/hr/rw/rws/max/et/eo[/f0|f1].
func VerifDump(fc any) string {
	switch c := fc.(type) {
	case *connectionFlowController:
		c.mutex.Lock()
		defer c.mutex.Unlock()
		return c.baseFlowController.verifDump()
	case *streamFlowController:
		c.mutex.Lock()
		defer c.mutex.Unlock()
		f := 0
		if c.receivedFinalOffset {
			f = 1
		}
		return fmt.Sprintf("%s/f%d", c.baseFlowController.verifDump(), f)
	}
	return "?"
}

func (c *baseFlowController) verifDump() string {
	return fmt.Sprintf("%d/%d/%d/%d/%d/%d/%d/%d/%d/%d", int64(c.bytesSent), int64(c.sendWindow), int64(c.lastBlockedAt),
		int64(c.bytesRead), int64(c.highestReceived), int64(c.receiveWindow), int64(c.receiveWindowSize),
		int64(c.maxReceiveWindowSize), int64(c.epochStartTime), int64(c.epochStartOffset))
}
