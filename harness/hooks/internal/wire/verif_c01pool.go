//go:build verif

package wire

import "github.com/refraction-networking/uquic/internal/protocol"

// Exporters for the verification harness (property C01, pool hygiene of STREAM frames). Add-only; the
// pool itself, GetStreamFrame and PutBack are untouched. The caller runs with GOMAXPROCS(1) and automatic
// GC disabled, so the sync.Pool is one per-P stack and every PutBack is observed by the next drain.

// VerifC01DrainPool removes and returns every frame object currently in the pool (an object that was
// PutBack twice is returned twice).
func VerifC01DrainPool() []*StreamFrame {
	saved := pool.New
	pool.New = nil
	var out []*StreamFrame
	for {
		x := pool.Get()
		if x == nil {
			break
		}
		out = append(out, x.(*StreamFrame))
	}
	pool.New = saved
	return out
}

// VerifC01Dirty makes every field of f look like a leftover of an earlier use (a FIN frame of another stream at a
// huge offset without a length field, 1400 bytes of `fill`), and overwrites the whole buffer. Whoever takes f from
// the pool has to (re)initialise every field it relies on; whoever still reads the buffer sees garbage.
func VerifC01Dirty(f *StreamFrame, fill byte) {
	f.StreamID = 0x3ffffffe
	f.Offset = 1 << 40
	f.Fin = true
	f.DataLenPresent = false
	b := f.Data[:cap(f.Data)]
	for i := range b {
		b[i] = fill
	}
	if len(b) > 1400 {
		b = b[:1400]
	}
	f.Data = b
}

// VerifC01NewDirty returns a new pool-shaped frame (fromPool, full-size buffer) that is dirty.
func VerifC01NewDirty(fill byte) *StreamFrame {
	f := &StreamFrame{Data: make([]byte, 0, protocol.MaxPacketBufferSize), fromPool: true}
	VerifC01Dirty(f, fill)
	return f
}

// VerifC01Pooled reports whether PutBack would hand f to the pool.
func VerifC01Pooled(f *StreamFrame) bool { return f != nil && f.fromPool }
