//go:build verif

package wire

import "github.com/refraction-networking/uquic/internal/protocol"

// Exporter for the C04 caller-level driver (flowcall): a poisoned frame pool.
//
// VerifPoisonPool puts n DIRTY STREAM frames into the frame pool: every field holds a value that would be
// harmful if a user of GetStreamFrame (the frame parser, SendStream.popNewStreamFrame) forgot to
// (re)initialise it — a huge offset, FIN, a foreign stream id, a non-empty Data of 0xAA bytes.
func VerifPoisonPool(n int) {
	for i := 0; i < n; i++ {
		f := &StreamFrame{
			StreamID:       protocol.StreamID(4*(1<<20) + 3),
			Offset:         protocol.ByteCount(1) << 40,
			Fin:            true,
			DataLenPresent: i%2 == 0,
			Data:           make([]byte, protocol.MaxPacketBufferSize),
			fromPool:       true,
		}
		for j := range f.Data {
			f.Data[j] = 0xAA
		}
		f.Data = f.Data[:77]
		pool.Put(f)
	}
}
