//go:build verif

package wire

// VerifLimitsSupportsDatagrams reports whether the frame parser accepts DATAGRAM frames. Read-only, C12.
func (p *FrameParser) VerifLimitsSupportsDatagrams() bool { return p.supportsDatagrams }
