//go:build verif

package wire

import "github.com/refraction-networking/uquic/internal/protocol"

// Exporters for the verification harness (property C03): STREAM frames whose PutBack is observable.
//
// VerifTrackedStreamFrame returns a frame that looks like one taken from the frame pool
// (fromPool, full-size buffer), so that PutBack really returns it to the pool.
func VerifTrackedStreamFrame(n int) *StreamFrame {
	return &StreamFrame{Data: make([]byte, n, protocol.MaxPacketBufferSize), fromPool: true}
}

// VerifDrainPool removes and returns every frame currently in the pool, i.e. every frame that was
// PutBack since the last drain. The caller runs with GOMAXPROCS(1) and automatic GC disabled, so
// the pool is a plain per-P stack and nothing is dropped in between.
func VerifDrainPool() []*StreamFrame {
	saved := pool.New
	pool.New = nil
	var out []*StreamFrame
	for {
		x := pool.Get()
		if x == nil {
			break
		}
		out = append(out, x.(*StreamFrame))
	}
	pool.New = saved
	return out
}
