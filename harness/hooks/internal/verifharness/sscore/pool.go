//go:build verif

package sscore

import (
	"sort"
	"strings"

	"github.com/refraction-networking/uquic/internal/protocol"
	"github.com/refraction-networking/uquic/internal/wire"
)

// Pool hygiene of STREAM frame objects (wire.GetStreamFrame / StreamFrame.PutBack), observed from outside:
//
//   - the pool is POISONED: it always holds a few dirty frame objects (every field set as if left over from
//     another stream's FIN frame, buffer full of garbage), so whoever takes a frame must initialise every field;
//   - after every op the pool is swept. A frame object that was handed out by the code under test — emitted by
//     popStreamFrame ("e<k>", owned by the packer / ack handler until `ack k` or `lost k`) or produced by the frame
//     parser and handed to the receive stream ("d<j>", owned by the receive stream) — and is now found in the pool
//     has been RELEASED: the sweep reports its label once, overwrites it (use after release then shows as garbage
//     bytes in a later frame or Read) and keeps it out of the pool for good (quarantine);
//   - so a quarantined object that turns up in the pool again was released twice ("again:<label>"), one that is
//     emitted / delivered again is used after release, and an object handed out while its previous hand-out is
//     still owned by someone else is shared by two owners ("alias:<old>:<new>"); an object that sits in the pool
//     twice at the same time is reported as "dup:<label>".
//
// The oracle judges the tokens with ghost state from the op lines only (monitors pool_*).
type poolTrack struct {
	label map[*wire.StreamFrame]string // last role of every frame object seen: e<k>, d<j>, s (dirty frame put in by the harness)
	owned map[*wire.StreamFrame]bool   // handed out and not given back to the stream (lost) or found in the pool since
	quar  map[*wire.StreamFrame]bool   // released once: never goes back into the pool
	notes []string                     // alias tokens of the current op
	fill  byte
}

const poolDirty = 5 // dirty frames the pool holds at the beginning of every op

func newPoolTrack() *poolTrack {
	p := &poolTrack{label: map[*wire.StreamFrame]string{}, owned: map[*wire.StreamFrame]bool{}, quar: map[*wire.StreamFrame]bool{}, fill: 0xe1}
	wire.VerifC01DrainPool() // leftovers of the previous case
	p.refill(0)
	return p
}

func (p *poolTrack) refill(have int) {
	for ; have < poolDirty; have++ {
		f := wire.VerifC01NewDirty(p.fill)
		p.fill += 2
		p.label[f] = "s"
		f.PutBack()
	}
}

// handOut: the code under test handed f to a new owner under the name lbl.
func (p *poolTrack) handOut(f *wire.StreamFrame, lbl string) {
	if !wire.VerifC01Pooled(f) {
		return
	}
	if p.owned[f] || p.quar[f] {
		p.notes = append(p.notes, "alias:"+p.label[f]+":"+lbl)
	}
	p.label[f] = lbl
	p.owned[f] = true
}

// takenBack: the owner returned f to the code under test (a lost frame goes back to its stream).
func (p *poolTrack) takenBack(f *wire.StreamFrame) { delete(p.owned, f) }

func (p *poolTrack) sweep() string {
	toks := p.notes
	p.notes = nil
	seen := map[*wire.StreamFrame]bool{}
	var back []*wire.StreamFrame
	for _, f := range wire.VerifC01DrainPool() {
		lbl := p.label[f]
		if lbl == "" {
			lbl = "s" // made by pool.New for internal use (nextFrame, a split that did not fit) and given back
			p.label[f] = lbl
		}
		switch {
		case seen[f]:
			toks = append(toks, "dup:"+lbl)
		case p.quar[f]:
			seen[f] = true
			toks = append(toks, "again:"+lbl)
		case p.owned[f]:
			seen[f] = true
			delete(p.owned, f)
			p.quar[f] = true
			wire.VerifC01Dirty(f, 0xee)
			toks = append(toks, lbl)
		default:
			seen[f] = true
			if lbl != "s" { // an emitted frame that went back to its stream (lost) and was dropped by it later
				p.label[f] = "s"
			}
			wire.VerifC01Dirty(f, p.fill)
			p.fill += 2
			back = append(back, f)
		}
	}
	for _, f := range back {
		f.PutBack()
	}
	p.refill(len(back))
	if len(toks) == 0 {
		return "-"
	}
	sort.Strings(toks)
	return strings.Join(toks, ",")
}

// parseForDelivery serialises the emitted frame and lets the real frame parser build what the receive stream gets.
func (rn *runner) parseForDelivery(e *emitted) *wire.StreamFrame {
	src := &wire.StreamFrame{StreamID: rn.str.StreamID(), Offset: e.off, Data: e.data, Fin: e.fin, DataLenPresent: true}
	b, err := src.Append(nil, protocol.Version1)
	if err == nil {
		typ, l, err1 := rn.parser.ParseType(b, protocol.Encryption1RTT)
		if err1 == nil {
			fr, n, err2 := rn.parser.ParseStreamFrame(typ, b[l:], protocol.Version1)
			if err2 == nil && l+n == len(b) {
				for i := range b { // the packet buffer is reused once the packet has been handled
					b[i] = 0xdd
				}
				rn.pool.handOut(fr, "d"+itoa(rn.ndeliv))
				rn.ndeliv++
				return fr
			}
		}
	}
	// an empty frame without FIN cannot be serialised (the sender never emits one; monitor frame_nonempty_or_fin)
	return &wire.StreamFrame{StreamID: rn.str.StreamID(), Offset: e.off, Data: append([]byte(nil), e.data...), Fin: e.fin, DataLenPresent: true}
}

func itoa(n int) string {
	if n == 0 {
		return "0"
	}
	var b []byte
	for ; n > 0; n /= 10 {
		b = append([]byte{byte('0' + n%10)}, b...)
	}
	return string(b)
}
