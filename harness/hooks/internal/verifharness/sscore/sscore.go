//go:build verif

// Package sscore is the shared core of the C01 drivers `sstream` and `spair`.
//
// sstream: a REAL quic.SendStream (newSendStream) with a scripted flow controller and a recording
// streamSender. Blocked Write calls run in goroutines inside a testing/synctest bubble: one op is
// issued, synctest.Wait() lets every goroutine settle, then the result is recorded.
//
// spair: additionally a REAL quic.ReceiveStream (newReceiveStream); any frame the sender emitted may be
// delivered to it any number of times, in any order, or never, and `read n` ops read from it.
package sscore

import (
	"bytes"
	"context"
	"encoding/hex"
	"errors"
	"fmt"
	"io"
	"runtime"
	"runtime/debug"
	"strings"
	"sync"
	"sync/atomic"
	"testing"
	"testing/synctest"

	quic "github.com/refraction-networking/uquic"
	"github.com/refraction-networking/uquic/internal/ackhandler"
	"github.com/refraction-networking/uquic/internal/monotime"
	"github.com/refraction-networking/uquic/internal/protocol"
	"github.com/refraction-networking/uquic/internal/verifharness/vh"
	"github.com/refraction-networking/uquic/internal/wire"
)

var errShutdown = errors.New("verif shutdown")

var poolSetupOnce sync.Once

// fakeFC is the scripted stream flow controller: the window and IsNewlyBlocked are inputs of `pop`.
type fakeFC struct {
	window       protocol.ByteCount
	newlyBlocked bool
	sent         protocol.ByteCount
}

func (f *fakeFC) SendWindowSize() protocol.ByteCount                  { return f.window }
func (f *fakeFC) UpdateSendWindow(protocol.ByteCount) bool            { return false }
func (f *fakeFC) AddBytesSent(n protocol.ByteCount)                   { f.sent += n }
func (f *fakeFC) GetWindowUpdate(monotime.Time) protocol.ByteCount    { return 0 }
func (f *fakeFC) AddBytesRead(protocol.ByteCount) (bool, bool)        { return false, false }
func (f *fakeFC) UpdateHighestReceived(protocol.ByteCount, bool, monotime.Time) error { return nil }
func (f *fakeFC) Abandon()                                            {}
func (f *fakeFC) IsNewlyBlocked() bool                                { return f.newlyBlocked }

type emitted struct {
	f    *wire.StreamFrame
	h    ackhandler.FrameHandler
	off  protocol.ByteCount
	data []byte
	fin  bool
	open bool
	lost bool // declared lost by the driver: the drain phase does not deliver it (its retransmission is a new frame)
}

type emittedCtrl struct {
	f    wire.Frame
	h    ackhandler.FrameHandler
	open bool
}

type wres struct {
	n   int
	err error
}

type rres struct {
	b   []byte
	err error
}

type runner struct {
	t    *testing.T
	cmd  chan string
	res  chan string
	done chan struct{}
	up   bool

	// everything below is touched only by the bubble goroutine while an op runs, and read by GenOp
	// between ops (ordered by the cmd/res channels)
	str      *quic.SendStream
	fc       *fakeFC
	nops     int
	dead     bool
	evD, evC, evX atomic.Int64
	ems      []*emitted
	ctrls    []*emittedCtrl
	wpending bool
	wdone    chan wres
	wbuf     []byte

	// receive side (spair)
	pair     bool
	rstr     *quic.ReceiveStream
	rpending bool
	rdone    chan rres
	rdead    bool // the reader saw EOF or an error
	delivered map[int]bool

	// frame-pool hygiene (see pool.go in this package)
	pool   *poolTrack
	parser *wire.FrameParser
	readOff protocol.ByteCount // bytes the reader got so far (generator: which late deliveries get cut by the sorter)
	loAt, loStep, loK int      // spair style "late original": op index at which the script starts (0: never), its step, the lost frame
	ndeliv int

	// generator state
	plan        int // number of ops of the main phase
	noReset     bool
	drain       bool
	supports    bool
	closed      bool
	reset       bool
	shut        bool
	lostOnce    bool
	idleDrain   int
	resetAt     bool // style: exercise RESET_STREAM_AT (boundaries, then CancelWrite, then keep sending)
	resetDrain  int
	lateRetrans bool // drain style: lose a data frame, acknowledge the FIN frame, only then pop the retransmission
	finAckNext  int  // emission index of the FIN frame to acknowledge next (-1: none)
	doneTotal   int64 // onStreamCompleted calls so far: the connection then removes the stream from the framer
}

// NewRunner: pair=false is the sender-only driver, pair=true adds the receive stream.
func NewRunner(t *testing.T, r *vh.Rand, pair bool) vh.Runner {
	poolSetupOnce.Do(func() {
		runtime.GOMAXPROCS(1)  // the frame pool is then one per-P stack: every PutBack is seen by the next sweep
		debug.SetGCPercent(-1) // no automatic GC between a PutBack and the sweep that observes it
	})
	runtime.GC()
	rn := &runner{t: t, pair: pair, plan: 8 + r.Intn(110), noReset: r.Chance(60), drain: r.Chance(75), delivered: map[int]bool{}}
	rn.resetAt = r.Chance(30)
	rn.lateRetrans = r.Chance(45)
	rn.finAckNext = -1
	if pair {
		rn.noReset = r.Chance(80)
		rn.drain = r.Chance(85)
		if r.Chance(25) {
			rn.loAt = 1 + r.Intn(14)
		}
	}
	return rn
}

// ---------------------------------------------------------------- proxy into the bubble

func (rn *runner) start() {
	rn.cmd = make(chan string)
	rn.res = make(chan string)
	rn.done = make(chan struct{})
	rn.up = true
	go func() {
		defer close(rn.done)
		synctest.Test(rn.t, func(t *testing.T) {
			for op := range rn.cmd {
				rn.res <- rn.safeExec(op)
			}
			rn.teardown()
		})
	}()
}

func (rn *runner) Exec(op string) string {
	if !rn.up {
		rn.start()
	}
	rn.cmd <- op
	return <-rn.res
}

func (rn *runner) Close() {
	if rn.up {
		close(rn.cmd)
		<-rn.done
		rn.up = false
	}
}

func (rn *runner) teardown() {
	if rn.str == nil {
		return
	}
	rn.str.VerifRecoverMutex()
	rn.str.VerifCloseForShutdown(errShutdown)
	rn.str.CancelWrite(0) // a Close()d stream ignores closeForShutdown; the reset unblocks a parked Write
	if rn.rstr != nil {
		rn.rstr.VerifCloseForShutdown(errShutdown)
	}
	synctest.Wait()
}

func (rn *runner) safeExec(op string) (res string) {
	defer func() {
		if e := recover(); e != nil {
			rn.dead = true
			if rn.str != nil {
				rn.str.VerifRecoverMutex()
			}
			res = "PANIC"
		}
	}()
	return rn.exec(op)
}

// ---------------------------------------------------------------- ops

func (rn *runner) ensure(sid int64, supports bool) {
	if rn.str != nil {
		return
	}
	rn.pool = newPoolTrack()
	rn.parser = wire.NewFrameParser(true, true, true)
	rn.fc = &fakeFC{}
	sender := &quic.VerifSender{
		OnData: func(protocol.StreamID) { rn.evD.Add(1) },
		OnCtrl: func(protocol.StreamID) { rn.evC.Add(1) },
		OnDone: func(protocol.StreamID) { rn.evX.Add(1) },
	}
	rn.str = quic.VerifNewSendStream(context.Background(), protocol.StreamID(sid), sender, rn.fc, supports)
	if rn.pair {
		rn.rstr = quic.VerifNewReceiveStream(protocol.StreamID(sid), &quic.VerifSender{}, &fakeFC{})
	}
}

func errText(err error) string {
	if err == nil {
		return "nil"
	}
	var se *quic.StreamError
	switch {
	case errors.As(err, &se):
		side := "L"
		if se.Remote {
			side = "R"
		}
		return fmt.Sprintf("reset:%d:%s", uint64(se.ErrorCode), side)
	case err == io.EOF:
		return "EOF"
	case errors.Is(err, errShutdown):
		return "shutdown"
	case strings.HasPrefix(err.Error(), "write on closed stream"):
		return "closed"
	case strings.HasPrefix(err.Error(), "close called for canceled stream"):
		return "closecanceled"
	}
	return "other"
}

func b01(b bool) string {
	if b {
		return "1"
	}
	return "0"
}

func hexOrDash(b []byte) string {
	if len(b) == 0 {
		return "-"
	}
	return hex.EncodeToString(b)
}

func (rn *runner) digest() string {
	st := rn.str.VerifState()
	var rq []string
	for _, f := range st.RetransQ {
		s := fmt.Sprintf("%d+%d", f[0], f[1])
		if f[2] == 1 {
			s += "F"
		}
		rq = append(rq, s)
	}
	rqs := "-"
	if len(rq) > 0 {
		rqs = strings.Join(rq, ",")
	}
	nf := "-"
	if st.NextFrame[0] >= 0 {
		nf = fmt.Sprintf("%d+%d", st.NextFrame[0], st.NextFrame[1])
	}
	fl := b01(st.FinishedWriting) + b01(st.FinSent) + b01(st.CancellationFlagged) + b01(st.Completed) + b01(st.Shutdown) + b01(st.Reset)
	qr := "-"
	if st.QueuedReset != nil {
		qr = fmt.Sprintf("%d:%d:%d", st.QueuedReset.FinalSize, uint64(st.QueuedReset.ErrorCode), st.QueuedReset.ReliableSize)
	}
	return fmt.Sprintf("wo=%d no=%d rq=%s nf=%s dfw=%d rs=%d fl=%s qr=%s sig=%d", st.WriteOffset, st.NumOutstanding, rqs, nf, st.DataForWriting, st.ReliableSize, fl, qr, st.Signal)
}

func (rn *runner) exec(op string) string {
	f := strings.Fields(op)
	if len(f) == 0 {
		return "bad-op"
	}
	if rn.dead {
		return "dead"
	}
	first := rn.nops == 0
	rn.nops++
	if f[0] == "new" && len(f) == 3 {
		if !first {
			return rn.finish("skip")
		}
		rn.ensure(vh.Atoi64(f[1]), f[2] == "1")
		return rn.finish("ok")
	}
	rn.ensure(0, false)
	rn.evD.Store(0)
	rn.evC.Store(0)
	rn.evX.Store(0)
	res := "bad-op"
	switch {
	case rn.pair && f[0] == "deliver" && len(f) == 2:
		i := int(vh.Atoi64(f[1]))
		if i < 0 || i >= len(rn.ems) {
			return rn.finishR("skip")
		}
		e := rn.ems[i]
		// what arrives is the frame as it was when it left, serialised and parsed again by the real frame parser:
		// 128 bytes or more of data come in a frame object of the shared pool, which the receive stream owns from now on
		fr := rn.parseForDelivery(e)
		rn.delivered[i] = true
		return rn.finishR(errText(rn.rstr.VerifHandleStreamFrame(fr)))
	case rn.pair && f[0] == "read" && len(f) == 2:
		if rn.rpending {
			return rn.finishR("skip")
		}
		n := int(vh.Atoi64(f[1]))
		rn.rpending = true
		rn.rdone = make(chan rres, 1)
		go func(n int, done chan rres) {
			buf := make([]byte, n)
			m, err := rn.rstr.Read(buf)
			done <- rres{buf[:m], err}
		}(n, rn.rdone)
		return rn.finishR("ok")
	case rn.pair && f[0] == "rreset" && len(f) == 2:
		j := int(vh.Atoi64(f[1]))
		if j < 0 || j >= len(rn.ctrls) {
			return rn.finishR("skip")
		}
		c := *(rn.ctrls[j].f.(*wire.ResetStreamFrame))
		return rn.finishR(errText(rn.rstr.VerifHandleResetStreamFrame(&c)))
	case rn.pair && f[0] == "cancelread" && len(f) == 2:
		rn.rstr.CancelRead(quic.StreamErrorCode(vh.Atoi64(f[1])))
		return rn.finishR("ok")
	case f[0] == "write" && len(f) == 2:
		if rn.wpending {
			res = "skip"
			break
		}
		var p []byte
		if f[1] != "-" {
			p, _ = hex.DecodeString(f[1])
		}
		rn.wbuf = p
		rn.wpending = true
		rn.wdone = make(chan wres, 1)
		go func(p []byte, done chan wres) {
			n, err := rn.str.Write(p)
			done <- wres{n, err}
		}(p, rn.wdone)
		res = "ok"
	case f[0] == "close":
		res = errText(rn.str.Close())
	case f[0] == "pop" && len(f) == 4:
		mb := protocol.ByteCount(vh.Atoi64(f[1]))
		if mb > protocol.MaxPacketBufferSize {
			res = "skip" // the packer never asks for more than a packet; beyond it the pool buffer is too small
			break
		}
		rn.fc.window = protocol.ByteCount(vh.Atoi64(f[2]))
		rn.fc.newlyBlocked = f[3] == "1"
		sf, blocked, hasMore := rn.str.VerifPop(mb, protocol.Version1)
		fs := "-"
		if sf.Frame != nil {
			fr := sf.Frame
			rn.ems = append(rn.ems, &emitted{f: fr, h: sf.Handler, off: fr.Offset, data: append([]byte(nil), fr.Data...), fin: fr.Fin, open: true})
			fs = fmt.Sprintf("%d:%s:%s", fr.Offset, hexOrDash(fr.Data), b01(fr.Fin))
			rn.pool.handOut(fr, fmt.Sprintf("e%d", len(rn.ems)-1))
		}
		bs := "-"
		if blocked != nil {
			bs = fmt.Sprintf("%d", blocked.MaximumStreamData)
		}
		res = fmt.Sprintf("f=%s b=%s m=%s", fs, bs, b01(hasMore))
	case (f[0] == "ack" || f[0] == "lost") && len(f) == 2:
		i := int(vh.Atoi64(f[1]))
		if i < 0 || i >= len(rn.ems) || !rn.ems[i].open {
			res = "skip"
			break
		}
		e := rn.ems[i]
		e.open = false
		res = "ok"
		if e.f.Offset != e.off || e.f.Fin != e.fin || !bytes.Equal(e.f.Data, e.data) {
			res = "ok-MODIFIED"
		}
		if f[0] == "ack" {
			e.h.OnAcked(e.f)
		} else {
			e.lost = true
			rn.pool.takenBack(e.f) // the stream owns the frame again (it may queue, split, re-emit or release it)
			if i%2 == 0 {
				e.f.DataLenPresent = false // the packer drops the length of the last frame of a packet
			}
			e.h.OnLost(e.f)
		}
	case f[0] == "cancel" && len(f) == 2:
		rn.str.CancelWrite(quic.StreamErrorCode(vh.Atoi64(f[1])))
		res = "ok"
	case f[0] == "stop" && len(f) == 2:
		rn.str.VerifHandleStopSending(quic.StreamErrorCode(vh.Atoi64(f[1])))
		res = "ok"
	case f[0] == "shutdown":
		rn.str.VerifCloseForShutdown(errShutdown)
		res = "ok"
	case f[0] == "boundary":
		rn.str.SetReliableBoundary()
		res = "ok"
	case f[0] == "ctrl":
		fr, ok, _ := rn.str.VerifGetControlFrame()
		if !ok {
			res = "r=-"
			break
		}
		rsf := fr.Frame.(*wire.ResetStreamFrame)
		rn.ctrls = append(rn.ctrls, &emittedCtrl{f: fr.Frame, h: fr.Handler, open: true})
		res = fmt.Sprintf("r=%d:%d:%d", rsf.FinalSize, uint64(rsf.ErrorCode), rsf.ReliableSize)
	case (f[0] == "rack" || f[0] == "rlost") && len(f) == 2:
		j := int(vh.Atoi64(f[1]))
		if j < 0 || j >= len(rn.ctrls) || !rn.ctrls[j].open {
			res = "skip"
			break
		}
		c := rn.ctrls[j]
		c.open = false
		if f[0] == "rack" {
			c.h.OnAcked(c.f)
		} else {
			c.h.OnLost(c.f)
		}
		res = "ok"
	}
	return rn.finish(res)
}

// finish lets every goroutine settle and appends callbacks, the parked Write's fate and the state digest.
func (rn *runner) finish(res string) string {
	synctest.Wait()
	w := "-"
	if rn.wpending {
		select {
		case r := <-rn.wdone:
			rn.wpending = false
			w = fmt.Sprintf("R%d,%s", r.n, errText(r.err))
			// io.Writer: the stream must not retain p after Write returned
			for i := range rn.wbuf {
				rn.wbuf[i] ^= 0xa5
			}
		default:
			w = "B"
		}
	}
	rn.doneTotal += rn.evX.Load()
	return fmt.Sprintf("%s ev=%d,%d,%d w=%s %s pb=%s", res, rn.evD.Load(), rn.evC.Load(), rn.evX.Load(), w, rn.digest(), rn.pool.sweep())
}

// finishR is finish for receive-side ops: only the reader's fate is reported.
func (rn *runner) finishR(res string) string {
	synctest.Wait()
	rd := "-"
	if rn.rpending {
		select {
		case r := <-rn.rdone:
			rn.rpending = false
			if r.err != nil {
				rn.rdead = true
			}
			rn.readOff += protocol.ByteCount(len(r.b))
			rd = fmt.Sprintf("R%s,%s", hexOrDash(r.b), errText(r.err))
		default:
			rd = "B"
		}
	}
	return fmt.Sprintf("%s rd=%s pb=%s", res, rd, rn.pool.sweep())
}

// ---------------------------------------------------------------- generator

var sids = []int64{0, 3, 4, 60, 64, 100, 16383, 16384, 1073741823, 1073741824}

func (rn *runner) openFrames() []int {
	var out []int
	for i, e := range rn.ems {
		if e.open {
			out = append(out, i)
		}
	}
	return out
}

func (rn *runner) openCtrls() []int {
	var out []int
	for i, e := range rn.ctrls {
		if e.open {
			out = append(out, i)
		}
	}
	return out
}

func genWrite(r *vh.Rand) string {
	var n int
	switch r.Pick(30, 30, 22, 14, 4) {
	case 0:
		n = int(r.Range(1, 20))
	case 1:
		n = int(r.Range(21, 300))
	case 2:
		n = int(r.Range(301, 1452))
	case 3:
		n = int(r.Range(1453, 3200))
	default:
		n = 0
	}
	return "write " + hexOrDash(r.Bytes(n))
}

// popOr: a pop, unless onStreamCompleted already fired — the connection then has removed the stream from the
// framer and never asks it for frames again (Conn.onStreamCompleted -> framer.RemoveActiveStream)
func (rn *runner) popOr(r *vh.Rand) string {
	if rn.doneTotal > 0 && r.Chance(95) {
		return "ctrl"
	}
	return genPop(r)
}

func genPop(r *vh.Rand) string {
	var mb int64
	switch r.Pick(8, 22, 70) {
	case 0:
		mb = r.Range(1, 8)
	case 1:
		mb = r.Range(9, 75) // around the 63/64 length-varint threshold
	default:
		mb = r.Range(76, 1452)
	}
	if r.Chance(2) {
		mb = r.Range(1453, 1500) // refused by the driver (skip)
	}
	var win int64
	switch r.Pick(5, 15, 80) {
	case 0:
		win = 0
	case 1:
		win = r.Range(1, 120)
	default:
		win = 1 << 20
	}
	return fmt.Sprintf("pop %d %d %s", mb, win, b01(r.Chance(30)))
}

func (rn *runner) GenOp(r *vh.Rand, i int) string {
	if i == 0 {
		rn.supports = r.Chance(35)
		return fmt.Sprintf("new %d %s", sids[r.Intn(len(sids))], b01(rn.supports))
	}
	if rn.dead {
		return ""
	}
	open := rn.openFrames()
	if rn.pair && rn.loAt > 0 && i >= rn.loAt && rn.loStep < loDone {
		if op := rn.genLateOriginal(r); op != "" {
			return op
		}
	}
	if rn.pair {
		if op := rn.genPair(r, i); op != "" {
			return op
		}
	}
	if i > rn.plan {
		if !rn.drain {
			return ""
		}
		// drain: close, flush, lose once, flush, acknowledge everything
		if !rn.closed && !rn.reset && !rn.shut && !rn.wpending {
			rn.closed = true
			return "close"
		}
		st := rn.str.VerifState()
		hasData := st.DataForWriting > 0 || st.NextFrame[0] >= 0 || len(st.RetransQ) > 0 || (st.FinishedWriting && !st.FinSent)
		if rn.finAckNext >= 0 { // "lost f; acked <FIN frame>; pop": the retransmission is popped only after the FIN was acknowledged
			k := rn.finAckNext
			rn.finAckNext = -1
			if k < len(rn.ems) && rn.ems[k].open {
				return fmt.Sprintf("ack %d", k)
			}
		}
		// once onStreamCompleted fired the connection removes the stream from the framer: nothing is popped any more
		if rn.doneTotal > 0 {
			hasData = false
		}
		if hasData && !st.Reset && !st.Shutdown && rn.idleDrain < 400 {
			rn.idleDrain++
			return fmt.Sprintf("pop %d %d 0", r.Range(40, 1452), 1<<20)
		}
		if hasData && st.Reset && !st.Shutdown && rn.supports && rn.resetDrain < 25 {
			rn.resetDrain++ // after RESET_STREAM_AT the reliable part is still (re)transmitted
			return fmt.Sprintf("pop %d %d 0", r.Range(40, 1452), 1<<20)
		}
		if len(open) > 0 {
			k := open[r.Intn(len(open))]
			if rn.lateRetrans && !rn.lostOnce && !st.Reset {
				// lose a data frame while the FIN frame is still in flight, then acknowledge the FIN frame first
				fin, data := -1, -1
				for _, i := range open {
					if rn.ems[i].fin {
						fin = i
					} else if data < 0 || r.Chance(40) {
						data = i
					}
				}
				if fin >= 0 && data >= 0 {
					rn.lostOnce = true
					rn.finAckNext = fin
					return fmt.Sprintf("lost %d", data)
				}
			}
			if !rn.lostOnce && r.Chance(35) {
				return fmt.Sprintf("lost %d", k)
			}
			if len(open) == 1 {
				rn.lostOnce = true
			}
			return fmt.Sprintf("ack %d", k)
		}
		if st.QueuedReset != nil {
			return "ctrl"
		}
		if oc := rn.openCtrls(); len(oc) > 0 {
			return fmt.Sprintf("rack %d", oc[0])
		}
		return ""
	}
	wReset := 3
	if rn.noReset {
		wReset = 0
	}
	wBoundary := 0
	if rn.supports {
		wBoundary = 4
		if rn.resetAt {
			wBoundary = 9
			if !rn.reset && i > rn.plan/3 {
				wReset = 6
			}
		}
	}
	switch r.Pick(30, 30, 12, 10, 2, wReset, wBoundary, 3, 2) {
	case 0:
		if rn.wpending && r.Chance(90) {
			return rn.popOr(r)
		}
		return genWrite(r)
	case 1:
		return rn.popOr(r)
	case 2:
		if len(open) > 0 && r.Chance(95) {
			return fmt.Sprintf("ack %d", open[r.Intn(len(open))])
		}
		return fmt.Sprintf("ack %d", r.Intn(len(rn.ems)+2))
	case 3:
		if len(open) > 0 && r.Chance(95) {
			return fmt.Sprintf("lost %d", open[r.Intn(len(open))])
		}
		return fmt.Sprintf("lost %d", r.Intn(len(rn.ems)+2))
	case 4:
		if rn.wpending && r.Chance(80) {
			return rn.popOr(r) // Close must not be called concurrently with Write (rarely done anyway)
		}
		rn.closed = true
		return "close"
	case 5:
		if rn.supports && rn.resetAt && r.Chance(85) {
			rn.reset = true
			return fmt.Sprintf("cancel %d", r.Intn(1000))
		}
		switch r.Pick(50, 35, 15) {
		case 0:
			rn.reset = true
			return fmt.Sprintf("cancel %d", r.Intn(1000))
		case 1:
			rn.reset = true
			return fmt.Sprintf("stop %d", r.Intn(1000))
		default:
			rn.shut = true
			return "shutdown"
		}
	case 6:
		if rn.reset && r.Chance(90) {
			return rn.popOr(r) // SetReliableBoundary after a reset is API misuse: rare
		}
		return "boundary"
	case 7:
		return "ctrl"
	default:
		oc := rn.openCtrls()
		if len(oc) == 0 {
			return rn.popOr(r)
		}
		if r.Bool() {
			return fmt.Sprintf("rack %d", oc[r.Intn(len(oc))])
		}
		return fmt.Sprintf("rlost %d", oc[r.Intn(len(oc))])
	}
}

// genPair interleaves receive-side ops; "" = let the sender-side generator choose.
func (rn *runner) genPair(r *vh.Rand, i int) string {
	n := len(rn.ems)
	if i > rn.plan {
		if !rn.drain {
			return ""
		}
		// drain: once the sender has nothing left, deliver every frame not delivered yet, then read to the end
		st := rn.str.VerifState()
		hasData := st.DataForWriting > 0 || st.NextFrame[0] >= 0 || len(st.RetransQ) > 0 || (st.FinishedWriting && !st.FinSent)
		if rn.doneTotal > 0 {
			hasData = false // the stream left the framer: what was not popped by now never reaches the reader
		}
		if rn.finAckNext >= 0 || (!rn.closed && !rn.reset && !rn.shut && !rn.wpending) || (hasData && !st.Reset && !st.Shutdown && rn.idleDrain < 400) {
			return ""
		}
		if len(rn.openFrames()) > 0 && !rn.lostOnce {
			return "" // let the sender lose and retransmit something first
		}
		for k := 0; k < n; k++ {
			if !rn.delivered[k] && !rn.ems[k].lost {
				return fmt.Sprintf("deliver %d", k)
			}
		}
		if !rn.rdead && !rn.rpending {
			return fmt.Sprintf("read %d", r.Range(1, 4000))
		}
		return ""
	}
	switch r.Pick(55, 25, 17, 2, 1) {
	case 1:
		if n == 0 {
			return ""
		}
		k := r.Intn(n)
		if r.Chance(60) { // mostly recent frames
			k = n - 1 - r.Intn(min(n, 4))
		}
		// a late original after its re-split retransmission was delivered (and read): the sorter cuts the frame and,
		// when little is left of a pooled frame, copies the rest and releases the frame at once
		if c := rn.cutCandidates(); len(c) > 0 && r.Chance(50) {
			k = c[r.Intn(len(c))]
		}
		return fmt.Sprintf("deliver %d", k)
	case 2:
		if rn.rpending || (rn.rdead && r.Chance(90)) {
			return ""
		}
		return fmt.Sprintf("read %d", []int64{0, 1, r.Range(1, 30), r.Range(1, 600), r.Range(1, 4000)}[r.Pick(3, 7, 30, 40, 20)])
	case 3:
		if rn.noReset || len(rn.ctrls) == 0 {
			return ""
		}
		return fmt.Sprintf("rreset %d", r.Intn(len(rn.ctrls)))
	case 4:
		if rn.noReset {
			return ""
		}
		rn.reset = true
		return fmt.Sprintf("cancelread %d", r.Intn(100))
	}
	return ""
}

// cutCandidates: emitted frames in a pooled-size frame of which only a few (1..127) bytes are still news to the
// receive stream, because the rest was already read or is covered by other delivered frames.
func (rn *runner) cutCandidates() []int {
	var out []int
	for k, e := range rn.ems {
		if len(e.data) < protocol.MinStreamFrameBufferSize || rn.delivered[k] {
			continue
		}
		lo, hi := e.off, e.off+protocol.ByteCount(len(e.data))
		news := 0
		for p := lo; p < hi && news < protocol.MinStreamFrameBufferSize; p++ {
			if p < rn.readOff {
				continue
			}
			covered := false
			for j := range rn.delivered {
				d := rn.ems[j]
				if p >= d.off && p < d.off+protocol.ByteCount(len(d.data)) {
					covered = true
					break
				}
			}
			if !covered {
				news++
			}
		}
		if news > 0 && news < protocol.MinStreamFrameBufferSize {
			out = append(out, k)
		}
	}
	return out
}

const loDone = 99

// genLateOriginal (spair): a spurious loss. A large frame is declared lost, its retransmission is re-split so that a
// tail of 1..300 bytes (both sides of protocol.MinStreamFrameBufferSize) travels separately, the head arrives and is
// read, and only then the delayed ORIGINAL arrives: the sorter cuts it down to the tail. Then the tail's own
// retransmission arrives too (a duplicate) and everything is read. "" = the script cannot go on; random ops resume.
func (rn *runner) genLateOriginal(r *vh.Rand) string {
	stop := func() string { rn.loStep = loDone; return "" }
	if rn.wpending || rn.closed || rn.reset || rn.shut || rn.rdead {
		return stop()
	}
	step := rn.loStep
	rn.loStep++
	switch step {
	case 0:
		return "write " + hexOrDash(r.Bytes(int(r.Range(200, 1400))))
	case 1:
		return fmt.Sprintf("pop 1452 %d 0", 1<<20)
	case 2:
		k := len(rn.ems) - 1
		if k < 0 || !rn.ems[k].open || len(rn.ems[k].data) < protocol.MinStreamFrameBufferSize+2 {
			return stop()
		}
		rn.loK = k
		return fmt.Sprintf("lost %d", k)
	case 3: // the head of the retransmission: everything but `keep` bytes
		e := rn.ems[rn.loK]
		keep := int(r.Range(1, 300))
		if keep >= len(e.data) {
			keep = len(e.data) / 2
		}
		n := protocol.ByteCount(len(e.data) - keep)
		probe := &wire.StreamFrame{StreamID: rn.str.StreamID(), Offset: e.off, DataLenPresent: true}
		for b := n + 1; b < n+24; b++ {
			if probe.MaxDataLen(b, protocol.Version1) == n {
				return fmt.Sprintf("pop %d %d 0", b, 1<<20)
			}
		}
		return stop()
	case 4: // the tail
		if len(rn.ems) != rn.loK+2 {
			return stop()
		}
		return fmt.Sprintf("pop 1452 %d 0", 1<<20)
	case 5: // everything emitted before the lost frame has arrived, so that the head can be read
		for k := 0; k < rn.loK; k++ {
			if !rn.delivered[k] && !rn.ems[k].lost {
				rn.loStep--
				return fmt.Sprintf("deliver %d", k)
			}
		}
		return fmt.Sprintf("deliver %d", rn.loK+1)
	case 6:
		if rn.rpending {
			return stop()
		}
		return fmt.Sprintf("read %d", 16000)
	case 7:
		if rn.rpending {
			rn.loStep--
			return fmt.Sprintf("deliver %d", rn.loK+1) // nothing happens; lets the parked read settle
		}
		return fmt.Sprintf("deliver %d", rn.loK)
	case 8:
		if len(rn.ems) > rn.loK+2 && r.Chance(60) {
			return fmt.Sprintf("deliver %d", rn.loK+2)
		}
		return fmt.Sprintf("deliver %d", rn.loK)
	case 9:
		if rn.rpending {
			return stop()
		}
		return fmt.Sprintf("read %d", 16000)
	}
	return stop()
}
