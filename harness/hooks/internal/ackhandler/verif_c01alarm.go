//go:build verif

package ackhandler

import "github.com/refraction-networking/uquic/internal/monotime"

// VerifSetAckAlarm scripts the app-data ACK alarm (C01 ctimer driver): what GetAlarmTimeout returns.
func (h *ReceivedPacketHandler) VerifSetAckAlarm(t monotime.Time) { h.appDataPackets.ackAlarm = t }
