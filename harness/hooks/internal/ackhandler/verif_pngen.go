//go:build verif

package ackhandler

import "github.com/refraction-networking/uquic/internal/protocol"

// VerifPNGen wraps the unexported packet number generators (read-only accessors, add-only hook).
type VerifPNGen struct{ g packetNumberGenerator }

func VerifNewSkippingPNGen(initial, initialPeriod, maxPeriod protocol.PacketNumber) *VerifPNGen {
	return &VerifPNGen{g: newSkippingPacketNumberGenerator(initial, initialPeriod, maxPeriod)}
}

func VerifNewSequentialPNGen(initial protocol.PacketNumber) *VerifPNGen {
	return &VerifPNGen{g: newSequentialPacketNumberGenerator(initial)}
}

func (v *VerifPNGen) Peek() protocol.PacketNumber        { return v.g.Peek() }
func (v *VerifPNGen) Pop() (bool, protocol.PacketNumber) { return v.g.Pop() }

// NextToSkip exposes the result of the random draw (-1 for the sequential generator).
func (v *VerifPNGen) NextToSkip() protocol.PacketNumber {
	if s, ok := v.g.(*skippingPacketNumberGenerator); ok {
		return s.nextToSkip
	}
	return -1
}
