//go:build verif

package ackhandler

import "github.com/refraction-networking/uquic/internal/protocol"

// VerifPNGen wraps the unexported packet number generators (read-only accessors, add-only hook).
type VerifPNGen struct{ g packetNumberGenerator }

func VerifNewSkippingPNGen(initial, initialPeriod, maxPeriod protocol.PacketNumber) *VerifPNGen {
	return &VerifPNGen{g: newSkippingPacketNumberGenerator(initial, initialPeriod, maxPeriod)}
}

func VerifNewSequentialPNGen(initial protocol.PacketNumber) *VerifPNGen {
	return &VerifPNGen{g: newSequentialPacketNumberGenerator(initial)}
}

func (v *VerifPNGen) Peek() protocol.PacketNumber        { return v.g.Peek() }
func (v *VerifPNGen) Pop() (bool, protocol.PacketNumber) { return v.g.Pop() }

// NextToSkip exposes the result of the random draw (-1 for the sequential generator).
func (v *VerifPNGen) NextToSkip() protocol.PacketNumber {
	if s, ok := v.g.(*skippingPacketNumberGenerator); ok {
		return s.nextToSkip
	}
	return -1
}

// VerifSpaceGen exposes the packet number generator state of one packet number space of a
// sent packet handler (read only): next number, next number to skip (-1: sequential generator),
// ok=false when the space was dropped.
func VerifSpaceGen(sph SentPacketHandler, lvl protocol.EncryptionLevel) (next, nextToSkip int64, ok bool) {
	h := sph.(*sentPacketHandler)
	sp := h.getPacketNumberSpace(lvl)
	if sp == nil {
		return 0, 0, false
	}
	switch g := sp.pns.(type) {
	case *skippingPacketNumberGenerator:
		return int64(g.next), int64(g.nextToSkip), true
	case *sequentialPacketNumberGenerator:
		return int64(g.next), -1, true
	}
	return 0, 0, false
}
