//go:build verif

package ackhandler

import "github.com/refraction-networking/uquic/internal/protocol"

// VerifZeroRTTLedger reports the 0-RTT packets still in the application-data sent-packet history and the
// bytes in flight accounted to them (read-only; for the C13 driver: after a 0-RTT rejection both are zero).
func (h *sentPacketHandler) VerifZeroRTTLedger() (packets int, bytesInFlight int64) {
	for _, p := range h.appDataPackets.history.Packets() {
		if p.EncryptionLevel == protocol.Encryption0RTT {
			packets++
			if p.includedInBytesInFlight {
				bytesInFlight += int64(p.Length)
			}
		}
	}
	return
}
