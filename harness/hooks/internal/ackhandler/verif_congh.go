//go:build verif

package ackhandler

import (
	"fmt"

	"github.com/refraction-networking/uquic/internal/congestion"
	"github.com/refraction-networking/uquic/internal/monotime"
	"github.com/refraction-networking/uquic/internal/protocol"
)

// verifCongProxy sits between the sentPacketHandler and its real congestion controller and records
// every call the handler makes (property C20: which packet number the glue reports for a loss / an
// ECN-CE signal). It forwards everything unchanged.
type verifCongProxy struct {
	inner congestion.SendAlgorithmWithDebugInfos
	rec   func(string)
}

func (p *verifCongProxy) TimeUntilSend(b protocol.ByteCount) monotime.Time { return p.inner.TimeUntilSend(b) }
func (p *verifCongProxy) HasPacingBudget(now monotime.Time) bool           { return p.inner.HasPacingBudget(now) }
func (p *verifCongProxy) CanSend(b protocol.ByteCount) bool                { return p.inner.CanSend(b) }
func (p *verifCongProxy) InSlowStart() bool                                { return p.inner.InSlowStart() }
func (p *verifCongProxy) InRecovery() bool                                 { return p.inner.InRecovery() }
func (p *verifCongProxy) GetCongestionWindow() protocol.ByteCount          { return p.inner.GetCongestionWindow() }

func (p *verifCongProxy) OnPacketSent(t monotime.Time, bif protocol.ByteCount, pn protocol.PacketNumber, bytes protocol.ByteCount, ae bool) {
	a := 0
	if ae {
		a = 1
	}
	p.rec(fmt.Sprintf("S:%d:%d:%d:%d:%d", int64(t), pn, bytes, a, int64(bif)))
	p.inner.OnPacketSent(t, bif, pn, bytes, ae)
}

func (p *verifCongProxy) MaybeExitSlowStart() {
	p.rec("X")
	p.inner.MaybeExitSlowStart()
}

func (p *verifCongProxy) OnPacketAcked(pn protocol.PacketNumber, bytes, prior protocol.ByteCount, t monotime.Time) {
	p.rec(fmt.Sprintf("A:%d:%d:%d", pn, bytes, prior))
	p.inner.OnPacketAcked(pn, bytes, prior, t)
}

func (p *verifCongProxy) OnCongestionEvent(pn protocol.PacketNumber, lost, prior protocol.ByteCount) {
	p.rec(fmt.Sprintf("C:%d:%d:%d", pn, lost, prior))
	p.inner.OnCongestionEvent(pn, lost, prior)
}

func (p *verifCongProxy) OnRetransmissionTimeout(r bool) {
	p.rec("R")
	p.inner.OnRetransmissionTimeout(r)
}

func (p *verifCongProxy) SetMaxDatagramSize(s protocol.ByteCount) {
	p.rec(fmt.Sprintf("M:%d", s))
	p.inner.SetMaxDatagramSize(s)
}

// VerifWrapCongestion installs the recording proxy on a handler made by NewSentPacketHandler. It is
// called again after MigratedPath, which gives the handler a fresh controller.
func VerifWrapCongestion(h SentPacketHandler, rec func(string)) {
	sh := h.(*sentPacketHandler)
	if _, ok := sh.congestion.(*verifCongProxy); ok {
		return
	}
	sh.congestion = &verifCongProxy{inner: sh.congestion, rec: rec}
}

// VerifCongView returns the window and the handler's bytes in flight.
func VerifCongView(h SentPacketHandler) (cwnd, bytesInFlight protocol.ByteCount, inSlowStart bool) {
	sh := h.(*sentPacketHandler)
	return sh.congestion.GetCongestionWindow(), sh.bytesInFlight, sh.congestion.InSlowStart()
}

// VerifTrackedAll lists what the handler still tracks: per packet number space (0 Initial, 1 Handshake,
// 2 application data) the packet numbers in the history that are real packets, the outstanding path
// probe packets, and the path probes' placeholders still in the application-data history.
func VerifTrackedAll(h SentPacketHandler) (trk [3][]protocol.PacketNumber, probes, placeholders []protocol.PacketNumber) {
	sh := h.(*sentPacketHandler)
	for i, sp := range []*packetNumberSpace{sh.initialPackets, sh.handshakePackets, sh.appDataPackets} {
		if sp == nil {
			continue
		}
		for pn, p := range sp.history.Packets() {
			if p.isPathProbePacket {
				if i == 2 {
					placeholders = append(placeholders, pn)
				}
				continue
			}
			trk[i] = append(trk[i], pn)
		}
	}
	for pn := range sh.appDataPackets.history.PathProbes() {
		probes = append(probes, pn)
	}
	return
}
