//go:build verif

package ackhandler

// VerifAckQueued exposes the app-data tracker's ackQueued flag (read only).
func (h *ReceivedPacketHandler) VerifAckQueued() bool { return h.appDataPackets.ackQueued }
