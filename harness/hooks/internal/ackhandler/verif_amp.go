//go:build verif

package ackhandler

import "github.com/refraction-networking/uquic/internal/protocol"

// VerifAmpState exposes the anti-amplification accounting of a sent packet handler (read only, C14).
func VerifAmpState(sph SentPacketHandler) (bytesSent, bytesReceived protocol.ByteCount, peerAddressValidated bool) {
	h := sph.(*sentPacketHandler)
	return h.bytesSent, h.bytesReceived, h.peerAddressValidated
}

// VerifAmpLimited exposes isAmplificationLimited (read only, C14).
func VerifAmpLimited(sph SentPacketHandler) bool {
	return sph.(*sentPacketHandler).isAmplificationLimited()
}
