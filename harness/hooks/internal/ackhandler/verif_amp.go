//go:build verif

package ackhandler

import (
	"fmt"
	"reflect"
	"sync"

	"github.com/refraction-networking/uquic/internal/monotime"
	"github.com/refraction-networking/uquic/internal/protocol"
	"github.com/refraction-networking/uquic/internal/utils"
)

// The hooks of property C14 observe the anti-amplification accounting of a sent packet handler WITHOUT naming
// any unexported identifier of sent_packet_handler.go (not the struct type, not a field, not a method), so
// that renaming / regrouping them is not an alarm.  The three pieces of state are found once per process by
// BEHAVIOURAL PROBES on throw-away handlers made with the exported constructor and driven through the
// exported SentPacketHandler interface:
//
//   - "address validated": the one bool of the handler's state in which a server handler constructed with
//     clientAddressValidated=true differs from one constructed with clientAddressValidated=false;
//   - "bytes received":    the one integer that grows by exactly n after ReceivedBytes(n);
//   - "bytes sent":        the one integer that grows by exactly n after SentPacket(size n) of a packet that
//     is not ack-eliciting (so it is not counted as in flight).
//
// The state is then READ (never written) through package reflect at those positions.  If a probe does not
// single out exactly one position the hook panics with a message that says so (a harness failure that asks for
// a look at the hook, not a statement about the property).

type verifAmpLayout struct {
	typ                   reflect.Type
	validated, recv, sent []int // reflect index paths inside the handler struct
}

var (
	verifAmpOnce sync.Once
	verifAmpLay  verifAmpLayout
)

func verifAmpProbeHandler(cav bool) SentPacketHandler {
	return NewSentPacketHandler(0, 1280, utils.NewRTTStats(), &utils.ConnectionStats{}, cav, false,
		func(protocol.PacketNumber) {}, protocol.PerspectiveServer, nil, utils.DefaultLogger)
}

// verifAmpScalars lists the bool / integer leaves of a struct value (nested structs by value included,
// pointers and interfaces are not followed).
func verifAmpScalars(v reflect.Value, path []int, out map[string]verifAmpLeaf) {
	for i := 0; i < v.NumField(); i++ {
		f := v.Field(i)
		p := append(append([]int(nil), path...), i)
		switch f.Kind() {
		case reflect.Bool:
			out[fmt.Sprint(p)] = verifAmpLeaf{path: p, isBool: true, b: f.Bool()}
		case reflect.Int, reflect.Int8, reflect.Int16, reflect.Int32, reflect.Int64:
			out[fmt.Sprint(p)] = verifAmpLeaf{path: p, n: f.Int()}
		case reflect.Uint, reflect.Uint8, reflect.Uint16, reflect.Uint32, reflect.Uint64:
			out[fmt.Sprint(p)] = verifAmpLeaf{path: p, n: int64(f.Uint())}
		case reflect.Struct:
			verifAmpScalars(f, p, out)
		}
	}
}

type verifAmpLeaf struct {
	path   []int
	isBool bool
	b      bool
	n      int64
}

func verifAmpStruct(sph SentPacketHandler) reflect.Value {
	v := reflect.ValueOf(sph)
	for v.Kind() == reflect.Pointer || v.Kind() == reflect.Interface {
		v = v.Elem()
	}
	if v.Kind() != reflect.Struct {
		panic("verif hook C14: the sent packet handler is not a struct")
	}
	return v
}

func verifAmpSnapshot(sph SentPacketHandler) map[string]verifAmpLeaf {
	m := map[string]verifAmpLeaf{}
	verifAmpScalars(verifAmpStruct(sph), nil, m)
	return m
}

func verifAmpOne(what string, cands [][]int) []int {
	if len(cands) != 1 {
		panic(fmt.Sprintf("verif hook C14: the behavioural probe for %q singles out %d positions of the handler state instead of 1 (%v); the hook harness/hooks/internal/ackhandler/verif_amp.go needs a look", what, len(cands), cands))
	}
	return cands[0]
}

func verifAmpProbe() {
	const nRecv, nSent = 9173, 7919
	a, b := verifAmpProbeHandler(false), verifAmpProbeHandler(true)
	sa, sb := verifAmpSnapshot(a), verifAmpSnapshot(b)
	var cv [][]int
	for k, la := range sa {
		if lb, ok := sb[k]; ok && la.isBool && lb.isBool && !la.b && lb.b {
			cv = append(cv, la.path)
		}
	}
	lay := verifAmpLayout{typ: verifAmpStruct(a).Type(), validated: verifAmpOne("address validated", cv)}
	grew := func(before, after map[string]verifAmpLeaf, by int64) [][]int {
		var c [][]int
		for k, x := range before {
			if y, ok := after[k]; ok && !x.isBool && y.n-x.n == by {
				c = append(c, x.path)
			}
		}
		return c
	}
	a.ReceivedBytes(nRecv, monotime.Time(1))
	s1 := verifAmpSnapshot(a)
	lay.recv = verifAmpOne("bytes received", grew(sa, s1, nRecv))
	pn := a.PopPacketNumber(protocol.EncryptionInitial)
	a.SentPacket(monotime.Time(2), pn, protocol.InvalidPacketNumber, nil, nil, protocol.EncryptionInitial, protocol.ECNNon, nSent, false, false)
	lay.sent = verifAmpOne("bytes sent", grew(s1, verifAmpSnapshot(a), nSent))
	verifAmpLay = lay
}

// VerifAmpState exposes the anti-amplification accounting of a sent packet handler (read only, C14).
func VerifAmpState(sph SentPacketHandler) (bytesSent, bytesReceived protocol.ByteCount, peerAddressValidated bool) {
	verifAmpOnce.Do(verifAmpProbe)
	v := verifAmpStruct(sph)
	if v.Type() != verifAmpLay.typ {
		panic("verif hook C14: a sent packet handler of another type than the constructor's")
	}
	num := func(p []int) protocol.ByteCount {
		f := v.FieldByIndex(p)
		if f.CanInt() {
			return protocol.ByteCount(f.Int())
		}
		return protocol.ByteCount(f.Uint())
	}
	return num(verifAmpLay.sent), num(verifAmpLay.recv), v.FieldByIndex(verifAmpLay.validated).Bool()
}

// VerifAmpLimited reports whether the handler refuses every kind of sending at time now, judged by its exported
// behaviour: SendMode(now) == SendNone.  SendMode has no side effect.  The only other reason for SendNone is
// protocol.MaxTrackedSentPackets tracked packets; the callers (drivers amp, token) stay far below that number
// of SentPacket calls per handler, so for them this IS "amplification limited" (C14).
func VerifAmpLimited(sph SentPacketHandler, now monotime.Time) bool {
	return sph.SendMode(now) == SendNone
}
