//go:build verif

package ackhandler

import (
	"fmt"
	"strings"

	"github.com/refraction-networking/uquic/internal/monotime"
	"github.com/refraction-networking/uquic/internal/protocol"
	"github.com/refraction-networking/uquic/qlog"
)

// Read-only accessors for the C06 correspondence driver (sent-packet handler).

func verifLevel(l protocol.EncryptionLevel) string {
	switch l {
	case protocol.EncryptionInitial:
		return "I"
	case protocol.EncryptionHandshake:
		return "H"
	case protocol.Encryption0RTT:
		return "Z"
	case protocol.Encryption1RTT:
		return "A"
	}
	return "-"
}

func verifPNs(b *strings.Builder, pns []protocol.PacketNumber) {
	for i, p := range pns {
		if i > 0 {
			b.WriteByte(';')
		}
		fmt.Fprintf(b, "%d", p)
	}
}

func verifSpace(b *strings.Builder, s *packetNumberSpace) {
	if s == nil {
		b.WriteString("-")
		return
	}
	h := &s.history
	fmt.Fprintf(b, "n%d,f%d,h%d,o%d,la%d,ls%d,lt%d,ae%d,sk[", len(h.packets), h.firstPacketNumber, h.highestPacketNumber,
		h.numOutstanding, s.largestAcked, s.largestSent, int64(s.lossTime), int64(s.lastAckElicitingPacketTime))
	verifPNs(b, h.skippedPackets)
	b.WriteString("],pp[")
	for i, p := range h.pathProbePackets {
		if i > 0 {
			b.WriteByte(';')
		}
		fmt.Fprintf(b, "%d", p.PacketNumber)
	}
	b.WriteString("],g")
	switch g := s.pns.(type) {
	case *sequentialPacketNumberGenerator:
		fmt.Fprintf(b, "%d/0/0", g.next)
	case *skippingPacketNumberGenerator:
		fmt.Fprintf(b, "%d/%d/%d", g.next, g.nextToSkip, g.period)
	default:
		b.WriteString("?")
	}
}

// VerifSentState prints every field of the handler that the C06 model represents.
func (h *sentPacketHandler) VerifSentState() string {
	var b strings.Builder
	tt := "-"
	switch h.alarm.TimerType {
	case qlog.TimerTypeACK:
		tt = "ack"
	case qlog.TimerTypePTO:
		tt = "pto"
	case qlog.TimerTypePathProbe:
		tt = "pp"
	}
	bit := func(x bool) int {
		if x {
			return 1
		}
		return 0
	}
	fmt.Fprintf(&b, "a=%d,%s,%s bfl=%d bs=%d br=%d pc=%d np=%d pm=%d fl=%d%d%d ab=%d I=", int64(h.alarm.Time), tt, verifLevel(h.alarm.EncryptionLevel),
		h.bytesInFlight, h.bytesSent, h.bytesReceived, h.ptoCount, h.numProbesToSend, h.ptoMode,
		bit(h.peerCompletedAddressValidation), bit(h.peerAddressValidated), bit(h.handshakeConfirmed), len(h.ackedPackets))
	verifSpace(&b, h.initialPackets)
	b.WriteString(" H=")
	verifSpace(&b, h.handshakePackets)
	b.WriteString(" A=")
	verifSpace(&b, h.appDataPackets)
	return b.String()
}

// VerifAppGen returns next and nextToSkip of the application-data packet number generator.
func (h *sentPacketHandler) VerifAppGen() (next, nextToSkip int64) {
	if g, ok := h.appDataPackets.pns.(*skippingPacketNumberGenerator); ok {
		return int64(g.next), int64(g.nextToSkip)
	}
	return -1, -1
}

// VerifCongestion asks the congestion controller the two questions SendMode asks.
func (h *sentPacketHandler) VerifCongestion(now monotime.Time) (canSend, pacingBudget bool) {
	return h.congestion.CanSend(h.bytesInFlight), h.congestion.HasPacingBudget(now)
}
