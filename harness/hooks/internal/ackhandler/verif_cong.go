//go:build verif

package ackhandler

import (
	"github.com/refraction-networking/uquic/internal/congestion"
	"github.com/refraction-networking/uquic/internal/monotime"
	"github.com/refraction-networking/uquic/internal/protocol"
	"github.com/refraction-networking/uquic/internal/utils"
)

// VerifSendMode runs the real sentPacketHandler.SendMode on a fresh handler whose congestion
// controller, bytes in flight, probe state and amplification state are set by the caller
// (property C20: new data is released only below the congestion window).
func VerifSendMode(c congestion.SendAlgorithmWithDebugInfos, ampLimited bool, numProbes int, ptoMode uint8, bytesInFlight protocol.ByteCount, now monotime.Time) string {
	h := NewSentPacketHandler(0, 1252, utils.NewRTTStats(), &utils.ConnectionStats{}, false, false,
		func(protocol.PacketNumber) {}, protocol.PerspectiveClient, nil, utils.DefaultLogger).(*sentPacketHandler)
	h.congestion = c
	h.bytesInFlight = bytesInFlight
	h.numProbesToSend = numProbes
	h.ptoMode = SendMode(ptoMode)
	if ampLimited {
		h.peerAddressValidated = false
		h.bytesReceived = 100
		h.bytesSent = amplificationFactor * 100
	} else {
		h.peerAddressValidated = true
	}
	switch h.SendMode(now) {
	case SendNone:
		return "none"
	case SendAck:
		return "ack"
	case SendPTOInitial:
		return "pto-initial"
	case SendPTOHandshake:
		return "pto-handshake"
	case SendPTOAppData:
		return "pto-appdata"
	case SendPacingLimited:
		return "pacing"
	case SendAny:
		return "any"
	}
	return "unknown"
}
