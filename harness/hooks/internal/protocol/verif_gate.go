//go:build verif

package protocol

import mrand "math/rand/v2"

// VerifSeedGrease re-seeds the generator that places the greased version in Version Negotiation
// packets, so that a scenario of the C13 driver is reproducible from its seed.
func VerifSeedGrease(seed uint64) {
	versionNegotiationMx.Lock()
	versionNegotiationRand = *mrand.New(mrand.NewPCG(seed, seed^0x9e3779b97f4a7c15))
	versionNegotiationMx.Unlock()
}
