//go:build verif

package handshake

import "github.com/refraction-networking/uquic/internal/wire"

// VerifLimitsOurParams returns the transport parameters record the crypto setup was built with
// (the connection's own record of what it advertises). Read-only, C12.
func VerifLimitsOurParams(cs any) *wire.TransportParameters {
	switch h := cs.(type) {
	case *uCryptoSetup:
		return h.ourParams
	case *cryptoSetup:
		return h.ourParams
	}
	return nil
}
