//go:build verif

package handshake

// VerifKeyUpdateAllowed reports updatableAEAD.updateAllowed() of the 1-RTT AEAD owned by a crypto setup
// (read-only): the gate RFC 9001 §6 puts in front of initiating a key update. It is opened by
// CryptoSetup.SetHandshakeConfirmed. Used by the C05 driver "uack".
func VerifKeyUpdateAllowed(cs any) bool {
	switch h := cs.(type) {
	case *cryptoSetup:
		return h.aead.updateAllowed()
	case *uCryptoSetup:
		return h.aead.updateAllowed()
	}
	panic("verif: unknown CryptoSetup implementation")
}
