//go:build verif

package handshake

import (
	"crypto"

	"github.com/refraction-networking/uquic/internal/protocol"
)

// Opener / Sealer expose the wrapped updatableAEAD through the package's public interfaces.
func (v *VerifUA) Opener() ShortHeaderOpener { return v.a }
func (v *VerifUA) Sealer() ShortHeaderSealer { return v.a }

// VerifHPMask returns the 5 mask bytes the header protector of x derives from sample
// (x: a sealer/opener returned by NewInitialAEAD, or a *VerifUA with send=true/false).
// It runs the real apply() on scratch bytes and reads the mask field back.
func VerifHPMask(x any, send bool, sample []byte) []byte {
	if len(sample) != 16 {
		return nil
	}
	var hp headerProtector
	switch v := x.(type) {
	case *longHeaderSealer:
		hp = v.headerProtector
	case *longHeaderOpener:
		hp = v.headerProtector
	case *VerifUA:
		if send {
			hp = v.a.headerEncrypter
		} else {
			hp = v.a.headerDecrypter
		}
	}
	var fb byte
	scratch := make([]byte, 4)
	switch p := hp.(type) {
	case *aesHeaderProtector:
		p.apply(sample, &fb, scratch)
		return append([]byte{}, p.mask[:5]...)
	case *chachaHeaderProtector:
		p.apply(sample, &fb, scratch)
		return append([]byte{}, p.mask[:5]...)
	}
	return nil
}

// VerifInitialKeys exposes what NewInitialAEAD derives for a connection ID (the same unexported
// functions it calls): client/server secret, key, iv, hp key.
func VerifInitialKeys(connID protocol.ConnectionID, v protocol.Version) (out [2][4][]byte) {
	cs, ss := computeSecrets(connID, v)
	for i, s := range [][]byte{cs, ss} {
		k, iv := computeInitialKeyAndIV(s, v)
		hp := hkdfExpandLabel(crypto.SHA256, s, []byte{}, hkdfHeaderProtectionLabel(v), 16)
		out[i] = [4][]byte{s, k, iv, hp}
	}
	return
}
