//go:build verif

package handshake

import "net"

// VerifAmpSealRaw seals arbitrary plaintext with the generator's token protector (C14: lets the driver
// present well-sealed but malformed / hand-made ASN.1 payloads to DecodeToken).
func (g *TokenGenerator) VerifAmpSealRaw(data []byte) ([]byte, error) {
	return g.tokenProtector.NewToken(data)
}

// VerifAmpEncodedAddr exposes the unexported encodedRemoteAddr of a decoded token (read only).
func (t *Token) VerifAmpEncodedAddr() []byte { return t.encodedRemoteAddr }

// VerifAmpEncodeRemoteAddr exposes encodeRemoteAddr.
func VerifAmpEncodeRemoteAddr(a net.Addr) []byte { return encodeRemoteAddr(a) }
