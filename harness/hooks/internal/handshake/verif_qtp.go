//go:build verif

package handshake

import "github.com/refraction-networking/uquic/internal/wire"

// VerifOurParams returns the local transport parameters a uQUIC client crypto setup was created with
// (read only; nil for any other implementation).
func VerifOurParams(cs any) *wire.TransportParameters {
	if u, ok := cs.(*uCryptoSetup); ok {
		return u.ourParams
	}
	return nil
}
