//go:build verif

package handshake

import "github.com/refraction-networking/uquic/internal/wire"

// Exporters for property C08 (session ticket envelope, session_ticket.go). Add-only; they name the
// unexported sessionTicket type and the two extra-data helpers.

func VerifC08TicketMarshal(p *wire.TransportParameters) []byte {
	return (&sessionTicket{Parameters: p}).Marshal()
}

func VerifC08TicketUnmarshal(b []byte) (*wire.TransportParameters, error) {
	var t sessionTicket
	err := t.Unmarshal(b)
	return t.Parameters, err
}

func VerifC08AddExtraPrefix(b []byte) []byte { return addSessionStateExtraPrefix(b) }

func VerifC08FindExtra(extras [][]byte) []byte { return findSessionStateExtraData(extras) }
