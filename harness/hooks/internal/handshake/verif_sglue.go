//go:build verif

package handshake

import "github.com/refraction-networking/uquic/internal/wire"

// VerifLocalParams returns the transport parameters a crypto setup (plain or uQUIC) was created with,
// i.e. what this endpoint tells its peer (read only; nil for any other implementation). Property C15.
func VerifLocalParams(cs any) *wire.TransportParameters {
	switch h := cs.(type) {
	case *cryptoSetup:
		return h.ourParams
	case *uCryptoSetup:
		return h.ourParams
	}
	return nil
}
