//go:build verif

package handshake

import (
	"encoding/binary"
	"fmt"

	"github.com/refraction-networking/uquic/internal/monotime"
	"github.com/refraction-networking/uquic/internal/protocol"
	"github.com/refraction-networking/uquic/internal/utils"
)

// VerifUA wraps the unexported updatableAEAD (add-only hook: constructor with deterministic traffic
// secrets, read-only state dump, and one setter for the invalid-packet counter so that the AEAD limit
// of 2^52 / 2^36 failures can be reached).
type VerifUA struct{ a *updatableAEAD }

func VerifNewUpdatableAEAD(suiteID uint16, readSecret, writeSecret []byte, v protocol.Version, rtt *utils.RTTStats) *VerifUA {
	a := newUpdatableAEAD(rtt, nil, utils.DefaultLogger, v)
	cs := getCipherSuite(suiteID)
	a.SetReadKey(cs, readSecret)
	a.SetWriteKey(cs, writeSecret)
	return &VerifUA{a: a}
}

func (v *VerifUA) Open(src []byte, rcvTime monotime.Time, pn protocol.PacketNumber, kp protocol.KeyPhaseBit, ad []byte) ([]byte, error) {
	return v.a.Open(nil, src, rcvTime, pn, kp, ad)
}
func (v *VerifUA) Seal(src []byte, pn protocol.PacketNumber, ad []byte) []byte {
	return v.a.Seal(nil, src, pn, ad)
}
func (v *VerifUA) KeyPhase() protocol.KeyPhaseBit                  { return v.a.KeyPhase() }
func (v *VerifUA) SetLargestAcked(pn protocol.PacketNumber) error { return v.a.SetLargestAcked(pn) }
func (v *VerifUA) SetHandshakeConfirmed()                         { v.a.SetHandshakeConfirmed() }
func (v *VerifUA) DecodePacketNumber(w protocol.PacketNumber, l protocol.PacketNumberLen) protocol.PacketNumber {
	return v.a.DecodePacketNumber(w, l)
}
func (v *VerifUA) EncryptHeader(sample []byte, firstByte *byte, hdrBytes []byte) {
	v.a.EncryptHeader(sample, firstByte, hdrBytes)
}
func (v *VerifUA) DecryptHeader(sample []byte, firstByte *byte, hdrBytes []byte) {
	v.a.DecryptHeader(sample, firstByte, hdrBytes)
}
func (v *VerifUA) Overhead() int                             { return v.a.Overhead() }
func (v *VerifUA) FirstPacketNumber() protocol.PacketNumber { return v.a.FirstPacketNumber() }
func (v *VerifUA) GenerationPhase() uint64                   { return uint64(v.a.keyPhase) }
func (v *VerifUA) InvalidPacketLimit() uint64                { return v.a.invalidPacketLimit }
func (v *VerifUA) SetInvalidPacketCount(n uint64)            { v.a.invalidPacketCount = n }

// NextSecrets exposes the traffic secrets of the NEXT key generation (read only).
func (v *VerifUA) NextSecrets() (rcv, send []byte) {
	return append([]byte{}, v.a.nextRcvTrafficSecret...), append([]byte{}, v.a.nextSendTrafficSecret...)
}

// State dumps every field the model has.
func (v *VerifUA) State() string {
	a := v.a
	prev := 0
	if a.prevRcvAEAD != nil {
		prev = 1
	}
	hc := 0
	if a.handshakeConfirmed {
		hc = 1
	}
	return fmt.Sprintf("kp=%d la=%d fp=%d hc=%d ic=%d exp=%d prev=%d fr=%d fs=%d hi=%d nr=%d ns=%d",
		uint64(a.keyPhase), int64(a.largestAcked), int64(a.firstPacketNumber), hc, a.invalidPacketCount,
		int64(a.prevRcvAEADExpiry), prev, int64(a.firstRcvdWithCurrentKey), int64(a.firstSentWithCurrentKey),
		int64(a.highestRcvdPN), a.numRcvdWithCurrentKey, a.numSentWithCurrentKey)
}

// VerifSealWithGeneration seals with the key of the gen-th "quic ku" successor of secret
// (what a peer in key generation gen would send).
func VerifSealWithGeneration(suiteID uint16, secret []byte, gen int, v protocol.Version, pn protocol.PacketNumber, msg, ad []byte) []byte {
	cs := getCipherSuite(suiteID)
	s := secret
	ku := &updatableAEAD{version: v} // the real key-update step, whatever label it uses
	for i := 0; i < gen; i++ {
		s = ku.getNextTrafficSecret(cs.Hash, s)
	}
	aead := createAEAD(cs, s, v)
	var nonce [8]byte
	binary.BigEndian.PutUint64(nonce[:], uint64(pn))
	return aead.Seal(nil, nonce[:], msg, ad)
}
