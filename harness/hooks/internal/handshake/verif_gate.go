//go:build verif

package handshake

import "github.com/refraction-networking/uquic/internal/protocol"

// VerifPeekOpen tries to open a long-header packet without recording its packet number: the opener's
// state is the same before and after (used by the C13 driver to compute the `opens` input bit).
func VerifPeekOpen(o LongHeaderOpener, dst, src []byte, pn protocol.PacketNumber, ad []byte) ([]byte, error) {
	lo, ok := o.(*longHeaderOpener)
	if !ok {
		return nil, ErrDecryptionFailed
	}
	saved := lo.highestRcvdPN
	dec, err := lo.Open(dst, src, pn, ad)
	lo.highestRcvdPN = saved
	return dec, err
}
