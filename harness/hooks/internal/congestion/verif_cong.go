//go:build verif

package congestion

import (
	"github.com/refraction-networking/uquic/internal/monotime"
	"github.com/refraction-networking/uquic/internal/protocol"
)

// VerifSender names the (unexported) type returned by NewCubicSender so that the
// correspondence driver can hold it in a field. Read-only accessors below.
type VerifSender = cubicSender

// VerifBudget is pacer.Budget(now) (HasPacingBudget only exposes the comparison).
func (c *cubicSender) VerifBudget(now monotime.Time) protocol.ByteCount { return c.pacer.Budget(now) }

// VerifState exposes ssthresh, the Reno ack counter and the pacer's bucket state.
func (c *cubicSender) VerifState() (ssthresh protocol.ByteCount, numAcked uint64, budgetAtLastSent protocol.ByteCount, lastSent monotime.Time) {
	return c.slowStartThreshold, c.numAckedPackets, c.pacer.budgetAtLastSent, c.pacer.lastSentTime
}
