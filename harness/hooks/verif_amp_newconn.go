//go:build verif

package quic

import (
	"fmt"
	"reflect"
	"sync"
	"time"

	"github.com/refraction-networking/uquic/internal/ackhandler"
	"github.com/refraction-networking/uquic/internal/monotime"
	"github.com/refraction-networking/uquic/internal/protocol"
)

// VerifAmpNewConn is what baseServer.handleInitialImpl handed to the REAL newConnection for one accepted
// Initial, and how the connection it got back starts out (C14: the glue between the token decision and the
// connection's anti-amplification state).
type VerifAmpNewConn struct {
	OrigDestConnID     protocol.ConnectionID
	HasRetrySrc        bool
	RetrySrcConnID     protocol.ConnectionID // *retrySrcConnID at the moment of the call
	ClientAddrVerified bool                  // the clientAddressValidated argument
	RTT                time.Duration
	// how the new connection's sent packet handler behaves before a single byte was credited to it:
	// Limited = SendMode() answers SendNone (an unvalidated server may send 3 x 0 bytes);
	// Validated = the handler's own "address validated" state (ackhandler.VerifAmpState)
	Limited, Validated bool
}

var (
	verifAmpNewConnMu sync.Mutex
	verifAmpNewConnCb func(VerifAmpNewConn)
)

// VerifAmpOnNewConn registers the observer (nil: none). The package variable newConnection (the constructor
// every baseServer is created with; it is a variable "such that we can mock it in the tests") is wrapped once,
// at init of the verification binary: the wrapper calls the original and reports. The arguments are picked by
// TYPE, not by position, so that added / reordered parameters of other types are no alarm: the only
// *protocol.ConnectionID is retrySrcConnID, the only bool is clientAddressValidated, the only time.Duration is
// the RTT; origDestConnID is the FIRST protocol.ConnectionID (named in trusted_base).
func VerifAmpOnNewConn(f func(VerifAmpNewConn)) {
	verifAmpNewConnMu.Lock()
	verifAmpNewConnCb = f
	verifAmpNewConnMu.Unlock()
}

func init() {
	fv := reflect.ValueOf(&newConnection).Elem()
	orig := reflect.ValueOf(newConnection)
	ft := fv.Type()
	only := func(t reflect.Type) int {
		idx := -1
		for i := 0; i < ft.NumIn(); i++ {
			if ft.In(i) == t {
				if idx >= 0 {
					panic(fmt.Sprintf("verif hook C14: newConnection has more than one parameter of type %v; harness/hooks/verif_amp_newconn.go needs a look", t))
				}
				idx = i
			}
		}
		if idx < 0 {
			panic(fmt.Sprintf("verif hook C14: newConnection has no parameter of type %v; harness/hooks/verif_amp_newconn.go needs a look", t))
		}
		return idx
	}
	first := func(t reflect.Type) int {
		for i := 0; i < ft.NumIn(); i++ {
			if ft.In(i) == t {
				return i
			}
		}
		panic(fmt.Sprintf("verif hook C14: newConnection has no parameter of type %v", t))
	}
	iRetry := only(reflect.TypeOf((*protocol.ConnectionID)(nil)))
	iBool := only(reflect.TypeOf(false))
	iRTT := only(reflect.TypeOf(time.Duration(0)))
	iODCID := first(reflect.TypeOf(protocol.ConnectionID{}))
	fv.Set(reflect.MakeFunc(ft, func(args []reflect.Value) []reflect.Value {
		out := orig.Call(args)
		verifAmpNewConnMu.Lock()
		cb := verifAmpNewConnCb
		verifAmpNewConnMu.Unlock()
		if cb == nil {
			return out
		}
		rec := VerifAmpNewConn{
			OrigDestConnID:     args[iODCID].Interface().(protocol.ConnectionID),
			ClientAddrVerified: args[iBool].Bool(),
			RTT:                time.Duration(args[iRTT].Int()),
		}
		if p := args[iRetry].Interface().(*protocol.ConnectionID); p != nil {
			rec.HasRetrySrc, rec.RetrySrcConnID = true, *p
		}
		if wc, ok := out[0].Interface().(*wrappedConn); ok && wc != nil && wc.Conn != nil && wc.Conn.sentPacketHandler != nil {
			h := wc.Conn.sentPacketHandler
			rec.Limited = ackhandler.VerifAmpLimited(h, monotime.Now())
			_, _, rec.Validated = ackhandler.VerifAmpState(h)
		}
		cb(rec)
		return out
	}))
}
