//go:build verif

package quic

// Exporters for the C16 correspondence driver (add-only, build tag verif).
// They construct the real connIDManager / connIDGenerator / packetHandlerMap exactly as
// connection.go does and record the callbacks they make.

import (
	"net"
	"sort"
	"time"

	"github.com/refraction-networking/uquic/internal/monotime"
	"github.com/refraction-networking/uquic/internal/protocol"
	"github.com/refraction-networking/uquic/internal/qerr"
	"github.com/refraction-networking/uquic/internal/utils"
	"github.com/refraction-networking/uquic/internal/wire"
	tls "github.com/refraction-networking/utls"
)

// VerifCIDEvent is one callback made by the manager or the generator.
// Kind: "retire" (RETIRE_CONNECTION_ID queued), "addtok", "rmtok", "addroute", "rmroute",
// "replace" (ReplaceWithClosed), "newcid" (NEW_CONNECTION_ID queued), "frame?" (any other frame).
type VerifCIDEvent struct {
	Kind   string
	Seq    uint64
	ID     []byte
	Tok    []byte
	IDs    [][]byte
	Local  bool
	Expiry time.Duration
}

// verifConn stands for the live connection in the packet handler map.
type verifConn struct{ delivered int }

func (c *verifConn) handlePacket(receivedPacket)                     { c.delivered++ }
func (c *verifConn) destroy(error)                                   {}
func (c *verifConn) closeWithTransportError(qerr.TransportErrorCode) {}

// VerifHandlerMap is a real packetHandlerMap (a Transport with only the maps initialised).
type VerifHandlerMap struct {
	h     *packetHandlerMap
	conn  *verifConn
	conn2 *verifConn // a second connection dialled on the same transport
}

func VerifNewHandlerMap() *VerifHandlerMap {
	t := &Transport{
		handlers:    make(map[protocol.ConnectionID]packetHandler),
		resetTokens: make(map[protocol.StatelessResetToken]packetHandler),
		closeQueue:  make(chan closePacket, 4),
		logger:      utils.DefaultLogger,
	}
	return &VerifHandlerMap{h: (*packetHandlerMap)(t), conn: &verifConn{}, conn2: &verifConn{}}
}

// AddInitial registers a connection ID for the live connection the way Transport.dial / the server do.
func (v *VerifHandlerMap) AddInitial(id []byte) bool {
	return v.h.Add(protocol.ParseConnectionID(id), v.conn)
}

// InstallSecond registers the second connection for a source connection ID exactly as Transport.dial does
// (`t.handlers[srcConnID] = conn` under the mutex): with zero-length connection IDs every dial uses the empty ID.
func (v *VerifHandlerMap) InstallSecond(id []byte) {
	v.h.mutex.Lock()
	v.h.handlers[protocol.ParseConnectionID(id)] = v.conn2
	v.h.mutex.Unlock()
}

// Routes lists every connection ID in the handler map with the kind of its handler, sorted.
func (v *VerifHandlerMap) Routes() (ids [][]byte, kinds []string) {
	v.h.mutex.Lock()
	defer v.h.mutex.Unlock()
	type ent struct {
		id   []byte
		kind string
	}
	var l []ent
	for id, hd := range v.h.handlers {
		k := "other"
		switch x := hd.(type) {
		case *verifConn:
			k = "conn"
			if x == v.conn2 {
				k = "conn2"
			}
		case *closedLocalConn:
			k = "local"
		case *closedRemoteConn:
			k = "remote"
		}
		l = append(l, ent{append([]byte{}, id.Bytes()...), k})
	}
	sort.Slice(l, func(i, j int) bool { return string(l[i].id) < string(l[j].id) })
	for _, e := range l {
		ids = append(ids, e.id)
		kinds = append(kinds, e.kind)
	}
	return
}

// Tokens lists the registered stateless reset tokens, sorted.
func (v *VerifHandlerMap) Tokens() [][]byte {
	v.h.mutex.Lock()
	defer v.h.mutex.Unlock()
	var l [][]byte
	for t := range v.h.resetTokens {
		tt := t
		l = append(l, append([]byte{}, tt[:]...))
	}
	sort.Slice(l, func(i, j int) bool { return string(l[i]) < string(l[j]) })
	return l
}

// Deliver routes one packet with the given destination connection ID the way Transport.handlePacket does
// (handler lookup, then handlePacket). Result: handler kind ("none" if no handler), whether the live
// connection got it, and how many CONNECTION_CLOSE retransmissions the closed stand-in queued.
func (v *VerifHandlerMap) Deliver(id []byte) (kind string, reachedConn bool, closeSent int) {
	hd, ok := v.h.Get(protocol.ParseConnectionID(id))
	if !ok {
		return "none", false, 0
	}
	before := v.conn.delivered
	hd.handlePacket(receivedPacket{})
	for {
		select {
		case <-v.h.closeQueue:
			closeSent++
			continue
		default:
		}
		break
	}
	switch x := hd.(type) {
	case *verifConn:
		kind = "conn"
		if x == v.conn2 {
			kind = "conn2"
		}
	case *closedLocalConn:
		kind = "local"
	case *closedRemoteConn:
		kind = "remote"
	default:
		kind = "other"
	}
	return kind, v.conn.delivered != before, closeSent
}

// ---------------------------------------------------------------- connIDManager

type VerifCIDManager struct {
	m      *connIDManager
	Events []VerifCIDEvent
}

func recordFrame(ev *[]VerifCIDEvent) func(wire.Frame) {
	return func(f wire.Frame) {
		switch fr := f.(type) {
		case *wire.RetireConnectionIDFrame:
			*ev = append(*ev, VerifCIDEvent{Kind: "retire", Seq: fr.SequenceNumber})
		case *wire.NewConnectionIDFrame:
			*ev = append(*ev, VerifCIDEvent{Kind: "newcid", Seq: fr.SequenceNumber, ID: append([]byte{}, fr.ConnectionID.Bytes()...), Tok: append([]byte{}, fr.StatelessResetToken[:]...)})
		default:
			*ev = append(*ev, VerifCIDEvent{Kind: "frame?"})
		}
	}
}

// VerifNewConnIDManager mirrors connection.go: the token callbacks go to the runner (the real handler map).
func VerifNewConnIDManager(initialDest []byte, hm *VerifHandlerMap) *VerifCIDManager {
	v := &VerifCIDManager{}
	v.m = newConnIDManager(
		protocol.ParseConnectionID(initialDest),
		func(token protocol.StatelessResetToken) {
			v.Events = append(v.Events, VerifCIDEvent{Kind: "addtok", Tok: append([]byte{}, token[:]...)})
			hm.h.AddResetToken(token, hm.conn)
		},
		func(token protocol.StatelessResetToken) {
			v.Events = append(v.Events, VerifCIDEvent{Kind: "rmtok", Tok: append([]byte{}, token[:]...)})
			hm.h.RemoveResetToken(token)
		},
		recordFrame(&v.Events),
	)
	return v
}

func verifToken(b []byte) (t protocol.StatelessResetToken) { copy(t[:], b); return }

func (v *VerifCIDManager) Add(seq, rpt uint64, id, tok []byte) error {
	return v.m.Add(&wire.NewConnectionIDFrame{SequenceNumber: seq, RetirePriorTo: rpt, ConnectionID: protocol.ParseConnectionID(id), StatelessResetToken: verifToken(tok)})
}
func (v *VerifCIDManager) AddFromPreferredAddress(id, tok []byte) error {
	return v.m.AddFromPreferredAddress(protocol.ParseConnectionID(id), verifToken(tok))
}
func (v *VerifCIDManager) Get() []byte                       { return v.m.Get().Bytes() }
func (v *VerifCIDManager) SentPacket()                       { v.m.SentPacket() }
func (v *VerifCIDManager) SetHandshakeComplete()             { v.m.SetHandshakeComplete() }
func (v *VerifCIDManager) Close()                            { v.m.Close() }
func (v *VerifCIDManager) SetStatelessResetToken(tok []byte) { v.m.SetStatelessResetToken(verifToken(tok)) }
func (v *VerifCIDManager) ChangeInitialConnID(id []byte)     { v.m.ChangeInitialConnID(protocol.ParseConnectionID(id)) }
func (v *VerifCIDManager) SetConnectionIDLimit(n uint64)     { v.m.SetConnectionIDLimit(n) }
func (v *VerifCIDManager) GetConnIDForPath(p int64) ([]byte, bool) {
	id, ok := v.m.GetConnIDForPath(pathID(p))
	return id.Bytes(), ok
}
func (v *VerifCIDManager) RetireConnIDForPath(p int64) { v.m.RetireConnIDForPath(pathID(p)) }
func (v *VerifCIDManager) IsActiveStatelessResetToken(tok []byte) bool {
	return v.m.IsActiveStatelessResetToken(verifToken(tok))
}

// VerifCIDEntry is one peer-issued connection ID held by the manager.
type VerifCIDEntry struct {
	Path int64
	Seq  uint64
	ID   []byte
	Tok  []byte // nil: no token known
}

// State: the active entry, the queue in order, the path-probing entries sorted by path, and the current rotation period.
func (v *VerifCIDManager) State() (active VerifCIDEntry, queue, probing []VerifCIDEntry, period uint32) {
	active = VerifCIDEntry{Seq: v.m.activeSequenceNumber, ID: v.m.activeConnectionID.Bytes()}
	if v.m.activeStatelessResetToken != nil {
		active.Tok = append([]byte{}, v.m.activeStatelessResetToken[:]...)
	}
	for _, e := range v.m.queue {
		queue = append(queue, VerifCIDEntry{Seq: e.SequenceNumber, ID: e.ConnectionID.Bytes(), Tok: append([]byte{}, e.StatelessResetToken[:]...)})
	}
	for p, e := range v.m.pathProbing {
		probing = append(probing, VerifCIDEntry{Path: int64(p), Seq: e.SequenceNumber, ID: e.ConnectionID.Bytes(), Tok: append([]byte{}, e.StatelessResetToken[:]...)})
	}
	sort.Slice(probing, func(i, j int) bool { return probing[i].Path < probing[j].Path })
	return active, queue, probing, v.m.packetsPerConnectionID
}

// ---------------------------------------------------------------- connIDGenerator

type verifIDGen struct {
	n   int
	len int
	mk  func(k, l int) []byte
}

func (g *verifIDGen) GenerateConnectionID() (protocol.ConnectionID, error) {
	id := protocol.ParseConnectionID(g.mk(g.n, g.len))
	g.n++
	return id, nil
}
func (g *verifIDGen) ConnectionIDLen() int { return g.len }

type VerifCIDGenerator struct {
	g      *connIDGenerator
	Events []VerifCIDEvent
	gen    *verifIDGen
}

// VerifNewConnIDGenerator mirrors connection.go: the routing callbacks go to the runner (the real handler map).
// clientDest == nil for the client perspective. mk(k, len) is the application's ConnectionIDGenerator.
func VerifNewConnIDGenerator(idLen int, initial []byte, clientDest []byte, hm *VerifHandlerMap, mk func(k, l int) []byte) *VerifCIDGenerator {
	v := &VerifCIDGenerator{gen: &verifIDGen{len: idLen, mk: mk}}
	var cd *protocol.ConnectionID
	if clientDest != nil {
		c := protocol.ParseConnectionID(clientDest)
		cd = &c
	}
	key := StatelessResetKey{1, 2, 3}
	v.g = newConnIDGenerator(
		hm.h,
		protocol.ParseConnectionID(initial),
		cd,
		newStatelessResetter(&key),
		connRunnerCallbacks{
			AddConnectionID: func(id protocol.ConnectionID) {
				v.Events = append(v.Events, VerifCIDEvent{Kind: "addroute", ID: append([]byte{}, id.Bytes()...)})
				hm.h.Add(id, hm.conn)
			},
			RemoveConnectionID: func(id protocol.ConnectionID) {
				v.Events = append(v.Events, VerifCIDEvent{Kind: "rmroute", ID: append([]byte{}, id.Bytes()...)})
				hm.h.Remove(id)
			},
			ReplaceWithClosed: func(ids []protocol.ConnectionID, b []byte, expiry time.Duration) {
				e := VerifCIDEvent{Kind: "replace", Local: b != nil, Expiry: expiry}
				for _, id := range ids {
					e.IDs = append(e.IDs, append([]byte{}, id.Bytes()...))
				}
				v.Events = append(v.Events, e)
				hm.h.ReplaceWithClosed(ids, b, expiry)
			},
		},
		recordFrame(&v.Events),
		v.gen,
	)
	return v
}

func (v *VerifCIDGenerator) Generated() int { return v.gen.n }
func (v *VerifCIDGenerator) SetMaxActiveConnIDs(limit uint64) error {
	return v.g.SetMaxActiveConnIDs(limit)
}
func (v *VerifCIDGenerator) Retire(seq uint64, sentWithDest []byte, expiry int64) error {
	return v.g.Retire(seq, protocol.ParseConnectionID(sentWithDest), monotime.Time(expiry))
}
func (v *VerifCIDGenerator) SetHandshakeComplete(expiry int64) {
	v.g.SetHandshakeComplete(monotime.Time(expiry))
}
func (v *VerifCIDGenerator) RemoveRetiredConnIDs(now int64) {
	v.g.RemoveRetiredConnIDs(monotime.Time(now))
}
func (v *VerifCIDGenerator) RemoveAll() { v.g.RemoveAll() }
func (v *VerifCIDGenerator) ReplaceWithClosed(local bool, expiry time.Duration) {
	var b []byte
	if local {
		b = []byte{0x1c}
	}
	v.g.ReplaceWithClosed(b, expiry)
}

// State: active (seq, id) sorted by seq, the retire list in order, the client's original destination ID.
func (v *VerifCIDGenerator) State() (active []VerifCIDEntry, retire []VerifCIDEntry, retireAt []int64, clientDest []byte, highest uint64) {
	for s, id := range v.g.activeSrcConnIDs {
		active = append(active, VerifCIDEntry{Seq: s, ID: append([]byte{}, id.Bytes()...)})
	}
	sort.Slice(active, func(i, j int) bool { return active[i].Seq < active[j].Seq })
	for _, c := range v.g.connIDsToRetire {
		retire = append(retire, VerifCIDEntry{ID: append([]byte{}, c.connID.Bytes()...)})
		retireAt = append(retireAt, int64(c.t))
	}
	if v.g.initialClientDestConnID != nil {
		clientDest = append([]byte{}, v.g.initialClientDestConnID.Bytes()...)
		if clientDest == nil {
			clientDest = []byte{}
		}
	}
	return active, retire, retireAt, clientDest, v.g.highestSeq
}

// ---------------------------------------------------------------- what the endpoint advertises

// VerifAdvertisedCIDLimit returns the active_connection_id_limit the client puts on the wire (advertised) and the value
// it hands to connIDManager.SetConnectionIDLimit (set; -1: SetConnectionIDLimit is not called):
// for client == "" the plain client's transport parameters (connection.go / u_connection.go without a ClientHelloSpec),
// otherwise what newUClientConnection derives from the named built-in QUIC spec (SuppressQUICTransportParameters, then
// PopulateFromUQUIC on the extension that uTLS serialises, then SetConnectionIDLimit(params.ActiveConnectionIDLimit)).
// ok == false: no such spec / the spec has no QUIC transport parameters extension.
func VerifAdvertisedCIDLimit(client, version, fingerprint string) (advertised uint64, set int64, ok bool) {
	if client == "" {
		return protocol.MaxActiveConnectionIDs, -1, true
	}
	spec, err := QUICID2Spec(QUICID{Client: client, Version: version, Fingerprint: fingerprint})
	if err != nil || spec.ClientHelloSpec == nil {
		return 0, 0, false
	}
	for _, ext := range spec.ClientHelloSpec.Extensions {
		if qtp, isQTP := ext.(*tls.QUICTransportParametersExtension); isQTP {
			params := &wire.TransportParameters{}
			SuppressQUICTransportParameters(qtp, spec.SuppressTransportParameters)
			params.PopulateFromUQUIC(qtp.TransportParameters)
			if params.ActiveConnectionIDLimit == 0 {
				// parameter absent on the wire: the peer assumes the default
				return protocol.DefaultActiveConnectionIDLimit, 0, true
			}
			return params.ActiveConnectionIDLimit, int64(params.ActiveConnectionIDLimit), true
		}
	}
	return 0, 0, false
}

// VerifQUICIDs lists the built-in spec identifiers the driver samples from.
func VerifQUICIDs() []QUICID {
	return []QUICID{QUICFirefox_116A, QUICFirefox_116B, QUICFirefox_116C, QUICChrome_115_IPv4, QUICChrome_115_IPv6, QUICChrome_146_IPv4, QUICChrome_146_IPv6}
}

// ---------------------------------------------------------------- whole transports (end-to-end driver)

// VerifTransportRouting lists a live Transport's routing table (connection IDs with the kind of their handler, sorted)
// and the number of registered stateless reset tokens.
func VerifTransportRouting(t *Transport) (ids [][]byte, kinds []string, tokens int) {
	t.mutex.Lock()
	defer t.mutex.Unlock()
	type ent struct {
		id   []byte
		kind string
	}
	var l []ent
	for id, hd := range t.handlers {
		k := "conn" // a live connection (possibly wrapped)
		switch hd.(type) {
		case *closedLocalConn:
			k = "local"
		case *closedRemoteConn:
			k = "remote"
		}
		l = append(l, ent{append([]byte{}, id.Bytes()...), k})
	}
	sort.Slice(l, func(i, j int) bool { return string(l[i].id) < string(l[j].id) })
	for _, e := range l {
		ids = append(ids, e.id)
		kinds = append(kinds, e.kind)
	}
	return ids, kinds, len(t.resetTokens)
}

// ---------------------------------------------------------------- pathManager (server-side path probing glue)

// VerifPathManager is the real pathManager wired to a real connIDManager exactly as Conn.handleShortHeaderPacket does
// (newPathManager(c.connIDManager.GetConnIDForPath, c.connIDManager.RetireConnIDForPath, logger)).
type VerifPathManager struct {
	pm         *pathManager
	challenges map[int64][8]byte // path id -> PATH_CHALLENGE data handed out
}

func VerifNewPathManager(m *VerifCIDManager) *VerifPathManager {
	return &VerifPathManager{
		pm:         newPathManager(m.m.GetConnIDForPath, m.m.RetireConnIDForPath, utils.DefaultLogger),
		challenges: map[int64][8]byte{},
	}
}

func verifAddr(i int) net.Addr { return &net.UDPAddr{IP: net.IPv4(10, 0, 0, byte(i)), Port: 1000 + i} }

// HandlePacket: returns the connection ID for the probe (nil: none), the id of the path a PATH_CHALLENGE was created
// for (-1: none), whether a PATH_RESPONSE is among the frames, and shouldSwitch.
func (v *VerifPathManager) HandlePacket(addr int, t int64, hasChallenge, isNonProbing bool) (connID []byte, challengeFor int64, response bool, shouldSwitch bool) {
	var pc *wire.PathChallengeFrame
	if hasChallenge {
		pc = &wire.PathChallengeFrame{Data: [8]byte{0xee, byte(addr)}}
	}
	id, frames, sw := v.pm.HandlePacket(verifAddr(addr), monotime.Time(t), pc, isNonProbing)
	challengeFor = -1
	for _, f := range frames {
		switch fr := f.Frame.(type) {
		case *wire.PathChallengeFrame:
			// the path just created is the last one
			p := v.pm.paths[len(v.pm.paths)-1]
			if p.pathChallenge == fr.Data {
				challengeFor = int64(p.id)
				v.challenges[int64(p.id)] = fr.Data
			}
		case *wire.PathResponseFrame:
			response = true
		}
	}
	if len(frames) > 0 {
		connID = id.Bytes()
		if connID == nil {
			connID = []byte{}
		}
	}
	return connID, challengeFor, response, sw
}

// Lost reports the PATH_CHALLENGE of the given path as lost to the frame's ack handler (false: no such challenge was sent).
func (v *VerifPathManager) Lost(path int64) bool {
	d, ok := v.challenges[path]
	if !ok {
		return false
	}
	(*pathManagerAckHandler)(v.pm).OnLost(&wire.PathChallengeFrame{Data: d})
	return true
}

// Acked reports the PATH_CHALLENGE of the given path as acknowledged.
func (v *VerifPathManager) Acked(path int64) bool {
	d, ok := v.challenges[path]
	if !ok {
		return false
	}
	(*pathManagerAckHandler)(v.pm).OnAcked(&wire.PathChallengeFrame{Data: d})
	return true
}

// LostResponse reports a PATH_RESPONSE frame as lost.
func (v *VerifPathManager) LostResponse() {
	(*pathManagerAckHandler)(v.pm).OnLost(&wire.PathResponseFrame{Data: [8]byte{1}})
}

// Response delivers the PATH_RESPONSE for the challenge of the given path (false: no such challenge was sent).
func (v *VerifPathManager) Response(path int64) bool {
	d, ok := v.challenges[path]
	if !ok {
		return false
	}
	v.pm.HandlePathResponseFrame(&wire.PathResponseFrame{Data: d})
	return true
}

func (v *VerifPathManager) SwitchToPath(addr int) { v.pm.SwitchToPath(verifAddr(addr)) }

// VerifPath is one entry of pathManager.paths (in order).
type VerifPath struct {
	ID             int64
	Addr           int
	LastPacketTime int64
	Validated      bool
	RcvdNonProbing bool
}

func (v *VerifPathManager) State() (paths []VerifPath, next int64) {
	for _, p := range v.pm.paths {
		a := 0
		if u, ok := p.addr.(*net.UDPAddr); ok {
			a = u.Port - 1000
		}
		paths = append(paths, VerifPath{ID: int64(p.id), Addr: a, LastPacketTime: int64(p.lastPacketTime), Validated: p.validated, RcvdNonProbing: p.rcvdNonProbing})
	}
	return paths, int64(v.pm.nextPathID)
}
