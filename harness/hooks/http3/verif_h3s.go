//go:build verif

package http3

import (
	"fmt"
	"io"
	"log/slog"
	"net/http"
	"sort"
	"strconv"
	"strings"

	quic "github.com/refraction-networking/uquic"
	"github.com/refraction-networking/uquic/qlogwriter"
)

// VerifDatagramStream is the (unexported) interface an http3.Stream is built on.
type VerifDatagramStream = datagramStream

// VerifNewStream builds a real Stream (newStream) over the given QUIC stream stand-in.
// The rawConn only carries the connection (CloseWithError is all Stream / frameParser use).
func VerifNewStream(str datagramStream, qc *quic.Conn, parseTrailer func(r io.Reader, length uint64) error, qlogger qlogwriter.Recorder) *Stream {
	conn := &rawConn{conn: qc, receivedSettings: make(chan struct{})}
	return newStream(str, conn, nil, func(r io.Reader, hf *headersFrame) error { return parseTrailer(r, hf.Length) }, qlogger)
}

// VerifParseNext runs the stream's frameParser once and describes the frame.
func VerifParseNext(s *Stream) (string, error) {
	f, err := s.frameParser.ParseNext(s.qlogger)
	if err != nil {
		return "", err
	}
	switch f := f.(type) {
	case *dataFrame:
		return fmt.Sprintf("data %d", f.Length), nil
	case *headersFrame:
		return fmt.Sprintf("headers %d %d", f.Length, f.headerLen), nil
	case *settingsFrame:
		ks := make([]uint64, 0, len(f.Other))
		for k := range f.Other {
			ks = append(ks, k)
		}
		sort.Slice(ks, func(i, j int) bool { return ks[i] < ks[j] })
		var sb strings.Builder
		for i, k := range ks {
			if i > 0 {
				sb.WriteByte(',')
			}
			fmt.Fprintf(&sb, "%d:%d", k, f.Other[k])
		}
		if len(ks) == 0 {
			sb.WriteByte('-')
		}
		b := func(x bool) int {
			if x {
				return 1
			}
			return 0
		}
		return fmt.Sprintf("settings mfs=%d dg=%d ec=%d other=%s", f.MaxFieldSectionSize, b(f.Datagram), b(f.ExtendedConnect), sb.String()), nil
	case *goAwayFrame:
		return fmt.Sprintf("goaway %d", f.StreamID), nil
	}
	return fmt.Sprintf("other %T", f), nil
}

func VerifRemaining(s *Stream) uint64 { return s.bytesRemainingInFrame }

// VerifNewBody is newBody.
func VerifNewBody(str *Stream, contentLength int64) io.Reader { return newBody(str, contentLength) }

func VerifErrTooMuchData() error { return errTooMuchData }

// VerifRW wraps a real responseWriter.
type VerifRW struct{ w *responseWriter }

func VerifNewResponseWriter(str *Stream, qc *quic.Conn, isHead bool, logger *slog.Logger) *VerifRW {
	conn := &rawConn{conn: qc, receivedSettings: make(chan struct{})}
	return &VerifRW{w: newResponseWriter(str, conn, isHead, logger)}
}

func (v *VerifRW) RW() http.ResponseWriter { return v.w }
func (v *VerifRW) FlushError() error       { return v.w.FlushError() }
func (v *VerifRW) FlushTrailers()          { v.w.flushTrailers() }

// Finish is the tail of RawServerConn.handleRequestStream after the handler returned normally
// (copied statement by statement; the original is exercised end to end by the h3e driver).
func (v *VerifRW) Finish() {
	r := v.w
	if !r.headerWritten {
		if _, haveCL := r.header["Content-Length"]; !haveCL {
			r.header.Set("Content-Length", strconv.FormatInt(r.numWritten, 10))
		}
	}
	r.Flush()
	r.flushTrailers()
	r.str.datagramStream.CancelRead(quic.StreamErrorCode(ErrCodeNoError))
	r.str.datagramStream.Close()
}
