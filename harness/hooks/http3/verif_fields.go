//go:build verif

package http3

// Exporters for the C19 correspondence driver (add-only, never compiled without the `verif` tag).
// They call the unexported parser / writer functions of this package unchanged.

import (
	"bytes"
	"context"
	"errors"
	"fmt"
	"io"
	"net/http"
	"net/url"
	"strings"
	"time"

	"github.com/quic-go/qpack"
	"github.com/refraction-networking/uquic"
	"github.com/refraction-networking/uquic/quicvarint"
)

var errVerifQpack = errors.New("verif: scripted qpack decoding error")

// verifDecodeFn yields the prepared fields and then io.EOF (or a decoding error if qerr).
func verifDecodeFn(fs []qpack.HeaderField, qerr bool) qpack.DecodeFunc {
	i := 0
	return func() (qpack.HeaderField, error) {
		if i < len(fs) {
			f := fs[i]
			i++
			return f, nil
		}
		if qerr {
			return qpack.HeaderField{}, errVerifQpack
		}
		return qpack.HeaderField{}, io.EOF
	}
}

// VerifHeader mirrors the unexported struct `header`.
type VerifHeader struct {
	Path, Method, Authority, Scheme, Status, Protocol string
	ContentLength                                     int64
	Headers                                           http.Header
}

func VerifParseHeaders(fs []qpack.HeaderField, qerr bool, isRequest bool, limit int) (VerifHeader, error) {
	var seen []qpack.HeaderField
	h, err := parseHeaders(verifDecodeFn(fs, qerr), isRequest, limit, &seen)
	return VerifHeader{h.Path, h.Method, h.Authority, h.Scheme, h.Status, h.Protocol, h.ContentLength, h.Headers}, err
}

func VerifParseTrailers(fs []qpack.HeaderField, qerr bool, limit int) (http.Header, error) {
	return parseTrailers(verifDecodeFn(fs, qerr), limit, nil)
}

func VerifRequestFromHeaders(fs []qpack.HeaderField, qerr bool, limit int) (*http.Request, error) {
	return requestFromHeaders(verifDecodeFn(fs, qerr), limit, nil)
}

func VerifUpdateResponseFromHeaders(fs []qpack.HeaderField, qerr bool, limit int) (*http.Response, error) {
	rsp := &http.Response{}
	err := updateResponseFromHeaders(rsp, verifDecodeFn(fs, qerr), limit, nil)
	return rsp, err
}

// VerifErrClass maps an error of the functions above to a small enum. The first two classes are
// decided exactly as the callers in server_conn.go / stream.go decide them (errors.Is / errors.As).
func VerifErrClass(err error) string {
	if err == nil {
		return "ok"
	}
	if errors.Is(err, errHeaderTooLarge) {
		return "E:toolarge"
	}
	var qe *qpackError
	if errors.As(err, &qe) {
		return "E:qpack"
	}
	var ue *url.Error
	if errors.As(err, &ue) {
		return "E:url"
	}
	m := err.Error()
	for _, p := range [][2]string{
		{"header field is not lower-case", "E:notlower"},
		{"invalid header field value for", "E:value"},
		{"received pseudo header", "E:order"},
		{"unknown pseudo header", "E:unknown"},
		{"duplicate pseudo header", "E:dup"},
		{"invalid request pseudo header", "E:reqpseudo"},
		{"invalid response pseudo header", "E:resppseudo"},
		{"invalid header field name", "E:name"},
		{"invalid TE header field value", "E:te"},
		{"contradicting content lengths", "E:clconflict"},
		{"invalid content length", "E:clinvalid"},
		{"http3: received pseudo header in trailer", "E:trlpseudo"},
		{"invalid trailer field name", "E:trlname"},
		{"extended CONNECT:", "E:extconnect"},
		{":path must be empty and :authority", "E:connect"},
		{":path, :authority and :method must not be empty", "E:missing"},
		{":protocol must be empty", "E:protocol"},
		{"missing :status field", "E:nostatus"},
		{"invalid status code", "E:badstatus"},
		// request writer (encodeHeaders)
		{"http3: invalid Host header", "E:host"},
		{"idna:", "E:host"},
		{"invalid request :path", "E:path"},
		{"invalid HTTP header", "E:header"},
	} {
		if strings.HasPrefix(m, p[0]) {
			return p[1]
		}
	}
	return "E:other(" + m + ")"
}

// verifDecodeFrames splits a byte stream into HTTP/3 frames; HEADERS payloads are decoded with a real
// QPACK decoder. Each result entry is ("H", fields) or ("D", nil) with the DATA length in n.
type VerifFrame struct {
	Kind   string
	Fields []qpack.HeaderField
	N      int
}

func verifDecodeFrames(b []byte) ([]VerifFrame, error) {
	var out []VerifFrame
	r := bytes.NewReader(b)
	for r.Len() > 0 {
		t, err := quicvarint.Read(r)
		if err != nil {
			return out, err
		}
		l, err := quicvarint.Read(r)
		if err != nil {
			return out, err
		}
		p := make([]byte, l)
		if _, err := io.ReadFull(r, p); err != nil {
			return out, err
		}
		switch t {
		case 0x1:
			dec := qpack.NewDecoder().Decode(p)
			var fs []qpack.HeaderField
			for {
				f, err := dec()
				if err == io.EOF {
					break
				}
				if err != nil {
					return out, fmt.Errorf("qpack decode of own output: %w", err)
				}
				fs = append(fs, f)
			}
			out = append(out, VerifFrame{Kind: "H", Fields: fs})
		case 0x0:
			out = append(out, VerifFrame{Kind: "D", N: int(l)})
		default:
			out = append(out, VerifFrame{Kind: fmt.Sprintf("T%d", t), N: int(l)})
		}
	}
	return out, nil
}

// VerifEncodeRequest runs requestWriter.WriteRequestHeader (→ writeHeaders → encodeHeaders) and decodes
// the HEADERS frame it wrote with a real QPACK decoder.
func VerifEncodeRequest(req *http.Request, gzip bool) ([]qpack.HeaderField, error) {
	var buf bytes.Buffer
	w := newRequestWriter()
	if err := w.WriteRequestHeader(&buf, req, gzip, 0, nil); err != nil {
		return nil, err
	}
	frames, err := verifDecodeFrames(buf.Bytes())
	if err != nil {
		return nil, err
	}
	if len(frames) != 1 || frames[0].Kind != "H" {
		return nil, fmt.Errorf("verif: expected exactly one HEADERS frame, got %d frames", len(frames))
	}
	return frames[0].Fields, nil
}

// VerifWriteTrailers runs writeTrailers and decodes what it wrote.
func VerifWriteTrailers(trailers http.Header) (written bool, fs []qpack.HeaderField, err error) {
	var buf bytes.Buffer
	written, err = writeTrailers(&buf, trailers, 0, nil)
	if err != nil || !written {
		return written, nil, err
	}
	frames, err := verifDecodeFrames(buf.Bytes())
	if err != nil {
		return written, nil, err
	}
	if len(frames) != 1 || frames[0].Kind != "H" {
		return written, nil, fmt.Errorf("verif: expected exactly one HEADERS frame, got %d frames", len(frames))
	}
	return written, frames[0].Fields, nil
}

// verifStream is an in-memory datagramStream for the response writer.
type verifStream struct{ buf bytes.Buffer }

func (s *verifStream) Read([]byte) (int, error)                        { return 0, io.EOF }
func (s *verifStream) Write(b []byte) (int, error)                     { return s.buf.Write(b) }
func (s *verifStream) Close() error                                    { return nil }
func (s *verifStream) CancelRead(quic.StreamErrorCode)                 {}
func (s *verifStream) CancelWrite(quic.StreamErrorCode)                {}
func (s *verifStream) StreamID() quic.StreamID                         { return 0 }
func (s *verifStream) Context() context.Context                        { return context.Background() }
func (s *verifStream) SetDeadline(time.Time) error                     { return nil }
func (s *verifStream) SetReadDeadline(time.Time) error                 { return nil }
func (s *verifStream) SetWriteDeadline(time.Time) error                { return nil }
func (s *verifStream) SendDatagram([]byte) error                       { return nil }
func (s *verifStream) ReceiveDatagram(context.Context) ([]byte, error) { return nil, io.EOF }
func (s *verifStream) QUICStream() *quic.Stream                        { return nil }

// VerifWriteResponse drives the real responseWriter the way a handler does: set `pre` headers,
// WriteHeader(status), write `body`, set `post` headers (trailers), finish (Flush + flushTrailers).
func VerifWriteResponse(status int, pre http.Header, body []byte, post http.Header) ([]VerifFrame, error) {
	vs := &verifStream{}
	rw := newResponseWriter(newStream(vs, nil, nil, func(io.Reader, *headersFrame) error { return nil }, nil), nil, false, nil)
	for k, v := range pre {
		rw.Header()[k] = v
	}
	rw.WriteHeader(status)
	if len(body) > 0 {
		if _, err := rw.Write(body); err != nil {
			return nil, err
		}
	}
	for k, v := range post {
		rw.Header()[k] = v
	}
	rw.Flush()
	rw.flushTrailers()
	return verifDecodeFrames(vs.buf.Bytes())
}

// VerifWriteResponseHeader calls responseWriter.writeHeader(status) directly on a fresh writer whose
// header map is `hdr` (no WriteHeader bookkeeping: no Date, no Content-Length check) and decodes the
// HEADERS frame it wrote.
func VerifWriteResponseHeader(status int, hdr http.Header) ([]qpack.HeaderField, error) {
	vs := &verifStream{}
	rw := newResponseWriter(newStream(vs, nil, nil, func(io.Reader, *headersFrame) error { return nil }, nil), nil, false, nil)
	for k, v := range hdr {
		rw.Header()[k] = v
	}
	if err := rw.writeHeader(status); err != nil {
		return nil, err
	}
	frames, err := verifDecodeFrames(vs.buf.Bytes())
	if err != nil {
		return nil, err
	}
	if len(frames) != 1 || frames[0].Kind != "H" {
		return nil, fmt.Errorf("verif: expected exactly one HEADERS frame, got %d frames", len(frames))
	}
	return frames[0].Fields, nil
}

func VerifDefaultUserAgent() string { return defaultUserAgent }
