//go:build verif

package http3

// Exporters for the C18 shared-request-writer driver h3w (add-only, never compiled without the
// `verif` tag): one real requestWriter, as every ClientConn owns one for all of its request streams.
// The hook names the unexported constructor newRequestWriter and the methods WriteRequestHeader /
// WriteRequestTrailer (the entry points RequestStream.sendRequestHeader / sendRequestTrailer call).

import (
	"bytes"
	"io"
	"net/http"
	"sort"
	"strings"

	"github.com/quic-go/qpack"
	quic "github.com/refraction-networking/uquic"
	"github.com/refraction-networking/uquic/quicvarint"
)

type VerifReqWriter struct{ w *requestWriter }

func VerifNewRequestWriter() *VerifReqWriter { return &VerifReqWriter{w: newRequestWriter()} }

func (v *VerifReqWriter) WriteRequestHeader(wr io.Writer, req *http.Request, gzip bool, id quic.StreamID) error {
	return v.w.WriteRequestHeader(wr, req, gzip, id, nil)
}

func (v *VerifReqWriter) WriteRequestTrailer(wr io.Writer, req *http.Request, id quic.StreamID) error {
	return v.w.WriteRequestTrailer(wr, req, id, nil)
}

// VerifDescribeHeaders decodes a byte string that should consist of HEADERS frames only and lists,
// per frame, the pseudo header fields in wire order followed by the x-* fields sorted by name and value:
// `H :method=GET,:path=/a,x-a=1 | H x-t=2`; anything else is reported as `bad:<why>`.
func VerifDescribeHeaders(b []byte) string {
	r := bytes.NewReader(b)
	var frames []string
	for r.Len() > 0 {
		t, err := quicvarint.Read(r)
		if err != nil {
			return "bad:type"
		}
		l, err := quicvarint.Read(r)
		if err != nil {
			return "bad:length"
		}
		if t != 0x1 {
			return "bad:frame-type"
		}
		if l > uint64(r.Len()) {
			return "bad:truncated"
		}
		p := make([]byte, l)
		io.ReadFull(r, p)
		dec := qpack.NewDecoder().Decode(p)
		var pseudo, reg []string
		for {
			f, err := dec()
			if err == io.EOF {
				break
			}
			if err != nil {
				return "bad:qpack"
			}
			switch {
			case f.Name == ":method" || f.Name == ":path":
				pseudo = append(pseudo, f.Name+"="+f.Value)
			case strings.HasPrefix(f.Name, "x-"):
				reg = append(reg, f.Name+"="+f.Value)
			}
		}
		sort.Strings(reg)
		frames = append(frames, "H "+strings.Join(append(pseudo, reg...), ","))
	}
	if len(frames) == 0 {
		return "none"
	}
	return strings.Join(frames, " | ")
}
