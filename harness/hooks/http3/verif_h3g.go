//go:build verif

package http3

// Exporter for the C19 glue driver (h3g): several requests through ONE requestWriter (every request of
// an HTTP/3 client connection shares the connection's requestWriter: one QPACK encoder, one header
// buffer, one mutex) with a scripted interleaving. Add-only; names the unexported newRequestWriter and
// requestWriter.writeHeaders (the function that takes the destination io.Writer while the shared state
// is in use — WriteRequestHeader hands it a private buffer, so it offers no yield point).

import (
	"bytes"
	"errors"
	"fmt"
	"net/http"
	"sync"
	"time"

	"github.com/quic-go/qpack"
	quic "github.com/refraction-networking/uquic"
)

// verifYieldWriter copies what is written (like a stream's send buffer does) and calls yield right
// before its at-th Write (0-based) takes place.
type verifYieldWriter struct {
	buf    bytes.Buffer
	n, at  int
	failAt int // the failAt-th Write (0-based) fails without taking a byte; -1: none
	yield  func()
}

var errVerifWrite = errors.New("verif: injected write error")

func (w *verifYieldWriter) Write(p []byte) (int, error) {
	if w.n == w.at && w.yield != nil {
		w.yield()
	}
	w.n++
	if w.n-1 == w.failAt {
		return 0, errVerifWrite
	}
	return w.buf.Write(p)
}

// VerifInterleavedWriteHeaders writes reqs[0], reqs[1], … through one requestWriter. Request i+1 is
// started in its own goroutine right before request i's at[i]-th Write on its destination; request i
// then waits until request i+1 is finished or `wait` has passed (it has if the writer's lock is held
// across the writes: then request i+1 simply runs when request i is done). at[i] beyond the number of
// writes means "after request i returned". Result per request: the fields of the ONE HEADERS frame it
// wrote, decoded by a fresh QPACK decoder, or an error.
func VerifInterleavedWriteHeaders(reqs []*http.Request, gzip []bool, at []int, wait time.Duration) ([][]qpack.HeaderField, []error) {
	return VerifInterleavedWriteHeadersFail(reqs, gzip, at, nil, wait)
}

// VerifInterleavedWriteHeadersFail is VerifInterleavedWriteHeaders with write errors: failAt[i] is the
// index of request i's Write on its destination that fails (-1 or absent: none). A failed request
// reports the error; the requests after it go through the same requestWriter.
func VerifInterleavedWriteHeadersFail(reqs []*http.Request, gzip []bool, at []int, failAt []int, wait time.Duration) ([][]qpack.HeaderField, []error) {
	n := len(reqs)
	rw := newRequestWriter()
	outs := make([][]byte, n)
	errs := make([]error, n)
	var wg sync.WaitGroup
	var run func(i int)
	run = func(i int) {
		started := false
		startNext := func() {
			if started || i+1 >= n {
				return
			}
			started = true
			done := make(chan struct{})
			wg.Add(1)
			go func() {
				defer wg.Done()
				defer close(done)
				run(i + 1)
			}()
			select {
			case <-done:
			case <-time.After(wait):
			}
		}
		w := &verifYieldWriter{at: at[i], failAt: -1, yield: startNext}
		if i < len(failAt) {
			w.failAt = failAt[i]
		}
		errs[i] = rw.writeHeaders(w, reqs[i], gzip[i], quic.StreamID(4*i), nil)
		w.yield = nil
		outs[i] = append([]byte(nil), w.buf.Bytes()...)
		startNext()
	}
	run(0)
	wg.Wait()
	fields := make([][]qpack.HeaderField, n)
	for i := range outs {
		if errs[i] != nil {
			continue
		}
		frames, err := verifDecodeFrames(outs[i])
		if err != nil {
			errs[i] = err
			continue
		}
		if len(frames) != 1 || frames[0].Kind != "H" {
			errs[i] = fmt.Errorf("verif: expected exactly one HEADERS frame, got %d frames", len(frames))
			continue
		}
		fields[i] = frames[0].Fields
	}
	return fields, errs
}
