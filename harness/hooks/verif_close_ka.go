//go:build verif

package quic

// Verification hook for property C17, keep-alive / idle bookkeeping across SEQUENCES of packets sent and
// received (closeu op `kaseq`). Add-only, build tag `verif`, injected by overlay.
//
// VerifKASeq builds a real client *Conn with the real newClientConnection (real sent-/received-packet handlers,
// frame parser, connection-ID manager; a send conn and sender that swallow everything; no run loop) and plays
// the run loop's part of the bookkeeping by calling the real glue:
//
//	handleUnpackedShortHeaderPacket    a 1-RTT packet (a PING, or padding only) is received
//	registerPackedShortHeaderPacket    a 1-RTT packet was packed and is registered as sent: ack-eliciting or not,
//	                                   a path probe packet (PATH_CHALLENGE, IsPathProbePacket) or not
//
// and reads nextKeepAliveTime / nextIdleTimeoutTime after every event. The unexported fields it sets are the
// negotiated values (idleTimeout, keepAliveInterval, config.KeepAlivePeriod), handshakeComplete, keepAlivePingSent
// and lastPacketReceivedTime of the initial state.

import (
	"context"
	"net"
	"time"

	"github.com/refraction-networking/uquic/internal/ackhandler"
	"github.com/refraction-networking/uquic/internal/monotime"
	"github.com/refraction-networking/uquic/internal/protocol"
	"github.com/refraction-networking/uquic/internal/utils"
	"github.com/refraction-networking/uquic/internal/wire"
	tls "github.com/refraction-networking/utls"
)

type verifKASendConn struct{}

func (verifKASendConn) Write([]byte, uint16, protocol.ECN) error { return nil }
func (verifKASendConn) WriteTo([]byte, net.Addr) error          { return nil }
func (verifKASendConn) Close() error                            { return nil }
func (verifKASendConn) LocalAddr() net.Addr                     { return &net.UDPAddr{IP: net.IPv4(1, 0, 0, 1), Port: 1} }
func (verifKASendConn) RemoteAddr() net.Addr                    { return &net.UDPAddr{IP: net.IPv4(1, 0, 0, 2), Port: 2} }
func (verifKASendConn) ChangeRemoteAddr(net.Addr, packetInfo)   {}
func (verifKASendConn) capabilities() connCapabilities          { return connCapabilities{} }

type verifKASender struct{}

func (verifKASender) Send(p *packetBuffer, _ uint16, _ protocol.ECN) { p.Release() }
func (verifKASender) SendProbe(p *packetBuffer, _ net.Addr)          { p.Release() }
func (verifKASender) Run() error                                     { return nil }
func (verifKASender) WouldBlock() bool                               { return false }
func (verifKASender) Available() <-chan struct{}                     { return nil }
func (verifKASender) Close()                                         {}

// VerifKAEvent: Kind 'r' = a PING is received, 'a' = a padding-only packet is received, 's' = an ack-eliciting
// packet (PING) is sent, 'n' = a packet that is not ack-eliciting is sent, 'p' = a path probe packet
// (PATH_CHALLENGE, padded) is sent on another path. Dt is the time since the previous event.
type VerifKAEvent struct {
	Kind byte
	Dt   time.Duration
}

type VerifKAIn struct {
	IdleTimeout, KeepAlivePeriod, KeepAliveInterval time.Duration
	RTTSample                                       time.Duration // 0: no RTT measurement yet
	PingSent                                        bool
	Events                                          []VerifKAEvent
}

// VerifKAObs: deadlines relative to the initial lastPacketReceivedTime; HasKA false = nextKeepAliveTime is zero.
type VerifKAObs struct {
	HasKA    bool
	KA, Idle int64
	Err      bool
}

func VerifKASeq(in VerifKAIn) (pto int64, obs []VerifKAObs) {
	dest := protocol.ParseConnectionID([]byte{0xc1, 0x70, 0xde, 0xad, 0xbe, 0xef, 1, 2})
	src := protocol.ParseConnectionID([]byte{1, 7, 1, 7})
	wc := newClientConnection(
		context.Background(),
		verifKASendConn{},
		verifRunner{},
		dest,
		src,
		&protocol.DefaultConnectionIDGenerator{ConnLen: src.Len()},
		newStatelessResetter(nil),
		populateConfig(&Config{DisablePathMTUDiscovery: true, KeepAlivePeriod: in.KeepAlivePeriod}),
		&tls.Config{ServerName: "localhost"},
		0,
		false,
		false,
		nil,
		utils.DefaultLogger,
		protocol.Version1,
	)
	c := wc.Conn
	defer func() {
		c.cryptoStreamHandler.Close()
		c.ctxCancel(nil)
	}()
	c.sendQueue = verifKASender{}
	if in.RTTSample > 0 {
		c.rttStats.UpdateRTT(in.RTTSample, 0)
	}
	base := monotime.Now().Add(time.Second)
	c.handshakeComplete = true
	c.idleTimeout = in.IdleTimeout
	c.keepAliveInterval = in.KeepAliveInterval
	c.keepAlivePingSent = in.PingSent
	c.lastPacketReceivedTime = base
	c.firstAckElicitingPacketAfterIdleSentTime = 0
	pto = int64(c.rttStats.PTO(true))

	now := base
	rcvPN := protocol.PacketNumber(0)
	for _, ev := range in.Events {
		now = now.Add(ev.Dt)
		failed := false
		switch ev.Kind {
		case 'r', 'a':
			data := []byte{0x01} // PING
			if ev.Kind == 'a' {
				data = []byte{0x00, 0x00} // PADDING
			}
			if _, _, err := c.handleUnpackedShortHeaderPacket(dest, rcvPN, data, protocol.ECNNon, now, nil); err != nil {
				failed = true
			}
			rcvPN++
		case 's', 'n', 'p':
			sp := shortHeaderPacket{
				PacketNumber:    c.sentPacketHandler.PopPacketNumber(protocol.Encryption1RTT),
				PacketNumberLen: protocol.PacketNumberLen2,
				DestConnID:      dest,
				Length:          50,
			}
			switch ev.Kind {
			case 's':
				sp.Frames = []ackhandler.Frame{{Frame: &wire.PingFrame{}}}
			case 'p':
				sp.Frames = []ackhandler.Frame{{Frame: &wire.PathChallengeFrame{Data: [8]byte{1, 2, 3, 4, 5, 6, 7, byte(sp.PacketNumber)}}}}
				sp.IsPathProbePacket = true
				sp.Length = 1200
			}
			c.registerPackedShortHeaderPacket(sp, protocol.ECNNon, now)
		default:
			continue
		}
		ka := c.nextKeepAliveTime()
		obs = append(obs, VerifKAObs{HasKA: !ka.IsZero(), KA: int64(ka.Sub(base)), Idle: int64(c.nextIdleTimeoutTime().Sub(base)), Err: failed})
	}
	return pto, obs
}
