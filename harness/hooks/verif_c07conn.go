//go:build verif

package quic

import (
	"context"
	"fmt"
	"net"
	"strings"
	"time"

	"github.com/refraction-networking/uquic/internal/ackhandler"
	"github.com/refraction-networking/uquic/internal/monotime"
	"github.com/refraction-networking/uquic/internal/protocol"
	"github.com/refraction-networking/uquic/internal/utils"
	"github.com/refraction-networking/uquic/internal/wire"
	tls "github.com/refraction-networking/utls"
)

// Exporters for the C07 glue driver (ackglue). Add-only.
//
// VerifC07Conn is a real client *Conn built by the real newClientConnection (real sent-packet handler wired to the
// real received-packet handler's IgnorePacketsBelow, real crypto setup, real conn-ID manager), with a fake
// sendConn / sender so that nothing leaves the process, and WITHOUT a run loop: the driver plays the run loop
// and calls the glue functions under test directly:
//
//	sendPackedCoalescedPacket / registerPackedShortHeaderPacket   (which LargestAcked is a sent packet registered with)
//	maybeResetTimer                                               (which deadlines are folded into the timer)
//
// The sent-packet handler is wrapped by a recorder that delegates every call and remembers the arguments of
// SentPacket; GetLossDetectionTimeout can be overridden so that maybeResetTimer sees a generated value.
type VerifC07Conn struct {
	C   *Conn
	rec *verifC07SPH
	now monotime.Time
}

type verifC07SendConn struct{}

func (verifC07SendConn) Write([]byte, uint16, protocol.ECN) error { return nil }
func (verifC07SendConn) WriteTo([]byte, net.Addr) error          { return nil }
func (verifC07SendConn) Close() error                            { return nil }
func (verifC07SendConn) LocalAddr() net.Addr {
	return &net.UDPAddr{IP: net.IPv4(127, 0, 0, 1), Port: 1234}
}
func (verifC07SendConn) RemoteAddr() net.Addr {
	return &net.UDPAddr{IP: net.IPv4(1, 2, 3, 4), Port: 4321}
}
func (verifC07SendConn) ChangeRemoteAddr(net.Addr, packetInfo) {}
func (verifC07SendConn) capabilities() connCapabilities         { return connCapabilities{} }

type verifC07Sender struct{}

func (verifC07Sender) Send(p *packetBuffer, _ uint16, _ protocol.ECN) { p.Release() }
func (verifC07Sender) SendProbe(p *packetBuffer, _ net.Addr)          { p.Release() }
func (verifC07Sender) Run() error                                     { return nil }
func (verifC07Sender) WouldBlock() bool                               { return false }
func (verifC07Sender) Available() <-chan struct{}                     { return nil }
func (verifC07Sender) Close()                                         {}

type verifC07Runner struct{}

func (verifC07Runner) Add(protocol.ConnectionID, packetHandler) bool                    { return true }
func (verifC07Runner) Remove(protocol.ConnectionID)                                     {}
func (verifC07Runner) ReplaceWithClosed([]protocol.ConnectionID, []byte, time.Duration) {}
func (verifC07Runner) AddResetToken(protocol.StatelessResetToken, packetHandler)        {}
func (verifC07Runner) RemoveResetToken(protocol.StatelessResetToken)                    {}

// VerifC07Reg is one SentPacket call as seen by the sent-packet handler.
type VerifC07Reg struct {
	Level        protocol.EncryptionLevel
	PN           protocol.PacketNumber
	LargestAcked protocol.PacketNumber
}

type verifC07SPH struct {
	ackhandler.SentPacketHandler
	regs         []VerifC07Reg
	lossOverride bool
	loss         monotime.Time
}

func (w *verifC07SPH) SentPacket(t monotime.Time, pn, largestAcked protocol.PacketNumber, sf []ackhandler.StreamFrame, f []ackhandler.Frame, l protocol.EncryptionLevel, ecn protocol.ECN, size protocol.ByteCount, mtuProbe, pathProbe bool) {
	w.regs = append(w.regs, VerifC07Reg{Level: l, PN: pn, LargestAcked: largestAcked})
	w.SentPacketHandler.SentPacket(t, pn, largestAcked, sf, f, l, ecn, size, mtuProbe, pathProbe)
}

func (w *verifC07SPH) GetLossDetectionTimeout() monotime.Time {
	if w.lossOverride {
		return w.loss
	}
	return w.SentPacketHandler.GetLossDetectionTimeout()
}

var (
	verifC07Dest = protocol.ParseConnectionID([]byte{0xc0, 0x70, 0xde, 0xad, 0xbe, 0xef, 1, 2})
	verifC07Src  = protocol.ParseConnectionID([]byte{7, 7, 7, 7})
)

func VerifC07NewConn() *VerifC07Conn {
	wc := newClientConnection(
		context.Background(),
		verifC07SendConn{},
		verifC07Runner{},
		verifC07Dest,
		verifC07Src,
		&protocol.DefaultConnectionIDGenerator{ConnLen: verifC07Src.Len()},
		newStatelessResetter(nil),
		populateConfig(&Config{DisablePathMTUDiscovery: true}),
		&tls.Config{ServerName: "localhost"},
		0,
		false,
		false,
		nil,
		utils.DefaultLogger,
		protocol.Version1,
	)
	c := wc.Conn
	c.sendQueue = verifC07Sender{}
	rec := &verifC07SPH{SentPacketHandler: c.sentPacketHandler}
	c.sentPacketHandler = rec
	return &VerifC07Conn{C: c, rec: rec, now: monotime.Now().Add(time.Second)}
}

func (v *VerifC07Conn) Close() {
	v.C.cryptoStreamHandler.Close()
	v.C.ctxCancel(nil)
}

func (v *VerifC07Conn) tick() monotime.Time {
	v.now = v.now.Add(time.Millisecond)
	return v.now
}

func (v *VerifC07Conn) levelGone(l protocol.EncryptionLevel) bool {
	return l == protocol.EncryptionInitial && v.C.droppedInitialKeys
}

// VerifC07Part describes one packet of a coalesced datagram: its level, whether it carries an ACK frame (and that
// frame's largest acked), and whether it is ack-eliciting (a PING frame).
type VerifC07Part struct {
	Level        protocol.EncryptionLevel
	HasAck       bool
	LargestAcked protocol.PacketNumber
	AckEliciting bool
}

func verifC07Ack(la protocol.PacketNumber) *wire.AckFrame {
	return &wire.AckFrame{AckRanges: []wire.AckRange{{Smallest: la, Largest: la}}}
}

func verifC07Frames(ae bool) []ackhandler.Frame {
	if ae {
		return []ackhandler.Frame{{Frame: &wire.PingFrame{}}}
	}
	return nil
}

// Received: a packet arrives (the last two lines of Conn.handleUnpacked{Long,Short}HeaderPacket).
func (v *VerifC07Conn) Received(l protocol.EncryptionLevel, pn protocol.PacketNumber, ae bool) (string, bool) {
	if v.levelGone(l) {
		return "", false
	}
	now := v.tick()
	v.C.sentPacketHandler.ReceivedPacket(l, now)
	if err := v.C.receivedPacketHandler.ReceivedPacket(pn, protocol.ECNNon, l, now, ae); err != nil {
		return "E", true
	}
	return "ok", true
}

// SendCoalesced builds the coalescedPacket the packer would have produced (packet numbers from the real
// sent-packet handler) and hands it to the real Conn.sendPackedCoalescedPacket. Long header parts must come
// first (as the packer orders them); at most one 1-RTT part, last.
func (v *VerifC07Conn) SendCoalesced(parts []VerifC07Part) ([]VerifC07Reg, error, bool) {
	c := v.C
	var short *VerifC07Part
	for i := range parts {
		p := &parts[i]
		if v.levelGone(p.Level) {
			return nil, nil, false
		}
		if p.Level == protocol.Encryption1RTT {
			if i != len(parts)-1 {
				return nil, nil, false
			}
			short = p
		}
	}
	if len(parts) == 0 {
		return nil, nil, false
	}
	now := v.tick()
	packet := &coalescedPacket{buffer: getPacketBuffer()}
	total := 0
	for i := range parts {
		p := &parts[i]
		if p == short {
			continue
		}
		typ := protocol.PacketTypeInitial
		if p.Level == protocol.EncryptionHandshake {
			typ = protocol.PacketTypeHandshake
		}
		lp := &longHeaderPacket{
			header: &wire.ExtendedHeader{
				Header:          wire.Header{Type: typ, Version: protocol.Version1, DestConnectionID: verifC07Dest, SrcConnectionID: verifC07Src},
				PacketNumber:    c.sentPacketHandler.PopPacketNumber(p.Level),
				PacketNumberLen: protocol.PacketNumberLen2,
			},
			frames: verifC07Frames(p.AckEliciting),
			length: 100,
		}
		if p.HasAck {
			lp.ack = verifC07Ack(p.LargestAcked)
		}
		packet.longHdrPackets = append(packet.longHdrPackets, lp)
		total += 100
	}
	if short != nil {
		sp := &shortHeaderPacket{
			PacketNumber:    c.sentPacketHandler.PopPacketNumber(protocol.Encryption1RTT),
			PacketNumberLen: protocol.PacketNumberLen2,
			DestConnID:      verifC07Dest,
			Frames:          verifC07Frames(short.AckEliciting),
			Length:          50,
		}
		if short.HasAck {
			sp.Ack = verifC07Ack(short.LargestAcked)
		}
		packet.shortHdrPacket = sp
		total += 50
	}
	packet.buffer.Data = append(packet.buffer.Data, make([]byte, total)...)
	from := len(v.rec.regs)
	err := c.sendPackedCoalescedPacket(packet, protocol.ECNNon, now)
	return append([]VerifC07Reg(nil), v.rec.regs[from:]...), err, true
}

// SendShort registers a non-coalesced 1-RTT packet through the real Conn.registerPackedShortHeaderPacket.
func (v *VerifC07Conn) SendShort(p VerifC07Part, pathProbe bool) []VerifC07Reg {
	c := v.C
	now := v.tick()
	sp := shortHeaderPacket{
		PacketNumber:      c.sentPacketHandler.PopPacketNumber(protocol.Encryption1RTT),
		PacketNumberLen:   protocol.PacketNumberLen2,
		DestConnID:        verifC07Dest,
		Frames:            verifC07Frames(p.AckEliciting),
		Length:            50,
		IsPathProbePacket: pathProbe,
	}
	if p.HasAck {
		sp.Ack = verifC07Ack(p.LargestAcked)
	}
	from := len(v.rec.regs)
	c.registerPackedShortHeaderPacket(sp, protocol.ECNNon, now)
	return append([]VerifC07Reg(nil), v.rec.regs[from:]...)
}

// NumRegistered / Registered: the packets registered so far in this case.
func (v *VerifC07Conn) NumRegistered() int           { return len(v.rec.regs) }
func (v *VerifC07Conn) Registered(i int) VerifC07Reg { return v.rec.regs[i] }

// PeerAcks: a packet of the peer (number pn, in the space of the acknowledged packet) arrives whose ACK frame
// acknowledges exactly the idx-th registered packet: `case *wire.AckFrame:` of Conn.handleFrame →
// sentPacketHandler.ReceivedAck, and then — as Conn.handleUnpacked{Long,Short}HeaderPacket do after the frames —
// sentPacketHandler.ReceivedPacket + receivedPacketHandler.ReceivedPacket for the carrying packet.
func (v *VerifC07Conn) PeerAcks(idx int, pn protocol.PacketNumber, ae bool) (string, bool) {
	if idx < 0 || idx >= len(v.rec.regs) {
		return "", false
	}
	r := v.rec.regs[idx]
	if v.levelGone(r.Level) {
		return "", false
	}
	now := v.tick()
	if _, err := v.C.sentPacketHandler.ReceivedAck(verifC07Ack(r.PN), r.Level, now); err != nil {
		return "EACK", true
	}
	v.C.sentPacketHandler.ReceivedPacket(r.Level, now)
	if err := v.C.receivedPacketHandler.ReceivedPacket(pn, protocol.ECNNon, r.Level, now, ae); err != nil {
		return "E", true
	}
	return "ok", true
}

// AckFrame asks the real received-packet handler for the ACK frame of a space, as the packer does.
func (v *VerifC07Conn) AckFrame(l protocol.EncryptionLevel) (string, bool) {
	if v.levelGone(l) {
		return "", false
	}
	f := v.C.receivedPacketHandler.GetAckFrame(l, v.tick(), false)
	if f == nil {
		return "-", true
	}
	var sb strings.Builder
	for i, r := range f.AckRanges {
		if i > 0 {
			sb.WriteByte(';')
		}
		fmt.Fprintf(&sb, "%d-%d", r.Smallest, r.Largest)
	}
	return sb.String(), true
}

func (v *VerifC07Conn) IsDuplicate(l protocol.EncryptionLevel, pn protocol.PacketNumber) (bool, bool) {
	if v.levelGone(l) {
		return false, false
	}
	return v.C.receivedPacketHandler.IsPotentiallyDuplicate(pn, l), true
}

// VerifC07Timer is one generated situation for Conn.maybeResetTimer. All times are offsets (ns) from "now"
// (the instant maybeResetTimer is called); Unset* flags say that the corresponding time is the zero value.
type VerifC07Timer struct {
	HandshakeComplete    bool
	Creation             time.Duration // offset of creationTime (<= 0)
	HandshakeIdleTimeout time.Duration // config.HandshakeIdleTimeout (handshakeTimeout() is twice that)
	LastRcv              time.Duration // offset of lastPacketReceivedTime
	FirstAE              time.Duration // offset of firstAckElicitingPacketAfterIdleSentTime
	FirstAESet           bool
	IdleTimeout          time.Duration
	RTTSample            time.Duration // > 0: feed one RTT sample first (moves PTO)
	KeepAlivePeriod      time.Duration
	KeepAlivePingSent    bool
	KeepAliveInterval    time.Duration
	Blocked              int // 0 none, 1 congestion limited, 2 hard blocked
	AckRcv               time.Duration // an ack-eliciting 1-RTT packet arrived at this offset (sets the ACK alarm)
	AckRcvSet            bool
	Loss                 time.Duration
	LossSet              bool
	Pacing               time.Duration
	PacingSet            bool
}

// VerifC07TimerOut: what the connection computed. Fire is the time until the connection timer fired
// (0 if the deadline was not in the future), measured on the (fake) clock.
type VerifC07TimerOut struct {
	PTO   time.Duration // rttStats.PTO(true) (an input of the glue, reported so that the model can use it)
	Alarm time.Duration // receivedPacketHandler.GetAlarmTimeout() as offset from now; AlarmSet false if zero
	AlarmSet bool
	Fire  time.Duration
}

// ResetTimer sets the connection's fields, calls the real maybeResetTimer and waits for the timer.
// Must run inside a synctest bubble (the wait is on the fake clock).
func (v *VerifC07Conn) ResetTimer(in VerifC07Timer) VerifC07TimerOut {
	c := v.C
	now := monotime.Now()
	at := func(d time.Duration) monotime.Time { return now.Add(d) }
	cfg := *c.config
	cfg.HandshakeIdleTimeout = in.HandshakeIdleTimeout
	cfg.KeepAlivePeriod = in.KeepAlivePeriod
	c.config = &cfg
	c.handshakeComplete = in.HandshakeComplete
	c.creationTime = at(in.Creation)
	c.lastPacketReceivedTime = at(in.LastRcv)
	c.firstAckElicitingPacketAfterIdleSentTime = 0
	if in.FirstAESet {
		c.firstAckElicitingPacketAfterIdleSentTime = at(in.FirstAE)
	}
	c.idleTimeout = in.IdleTimeout
	if in.RTTSample > 0 {
		c.rttStats.UpdateRTT(in.RTTSample, 0)
	}
	c.keepAlivePingSent = in.KeepAlivePingSent
	c.keepAliveInterval = in.KeepAliveInterval
	c.blocked = blockMode(in.Blocked)
	c.pacingDeadline = 0
	if in.PacingSet {
		c.pacingDeadline = at(in.Pacing)
	}
	// a fresh received-packet handler for the duration of this op (same address: the sent-packet handler's
	// callback stays bound); the case's handler is restored afterwards
	savedRPH := c.receivedPacketHandler
	defer func() { c.receivedPacketHandler = savedRPH }()
	c.receivedPacketHandler = *ackhandler.NewReceivedPacketHandler(c.logger)
	if in.AckRcvSet {
		_ = c.receivedPacketHandler.ReceivedPacket(3, protocol.ECNNon, protocol.Encryption1RTT, at(in.AckRcv), true)
	}
	v.rec.lossOverride = true
	v.rec.loss = 0
	if in.LossSet {
		v.rec.loss = at(in.Loss)
	}
	defer func() { v.rec.lossOverride = false }()

	out := VerifC07TimerOut{PTO: c.rttStats.PTO(true)}
	if a := c.receivedPacketHandler.GetAlarmTimeout(); !a.IsZero() {
		out.AlarmSet = true
		out.Alarm = a.Sub(now)
	}
	c.timer = time.NewTimer(1000 * time.Hour)
	start := time.Now()
	c.maybeResetTimer()
	<-c.timer.C
	out.Fire = time.Since(start)
	return out
}
