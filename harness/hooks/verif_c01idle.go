//go:build verif

package quic

import (
	"time"

	"github.com/refraction-networking/uquic/internal/ackhandler"
	"github.com/refraction-networking/uquic/internal/monotime"
	"github.com/refraction-networking/uquic/internal/protocol"
	"github.com/refraction-networking/uquic/internal/wire"
)

// Exporters for the C01 idle-period driver (cidle). Add-only.
//
// VerifC01Idle is the real client *Conn of verif_c07conn.go (real newClientConnection, fake sendConn, no run loop)
// with the handshake declared complete and confirmed. The driver plays the run loop on the synctest clock and calls
// the REAL receive / send glue that keeps the idle-period bookkeeping of RFC 9000 10.1:
//
//	handleUnpackedShortHeaderPacket / handleUnpackedLongHeaderPacket      a packet was received (real frame bytes)
//	registerPackedShortHeaderPacket / sendPackedCoalescedPacket            a packet was sent
//	maybeResetTimer                                                        observed: when does the connection timer fire
//
// Nothing of the bookkeeping itself (lastPacketReceivedTime, firstAckElicitingPacketAfterIdleSentTime,
// keepAlivePingSent, idleTimeout, keepAliveInterval) is read or written here; the deadline is observed through the timer.
type VerifC01Idle struct {
	v       *VerifC07Conn
	rcvPN   map[protocol.EncryptionLevel]protocol.PacketNumber // next packet number of the peer, per encryption level
	unacked []VerifC07Reg                                      // ack-eliciting packets we registered and the peer has not acknowledged yet
}

// VerifC01NewIdle: ownIdle is Config.MaxIdleTimeout, peerIdle the peer's max_idle_timeout transport parameter
// (0: not advertised); the effective idle timeout and keep-alive interval are computed by the real
// applyTransportParameters. The first packet (PADDING only) is received right away through the real receive path.
func VerifC01NewIdle(ownIdle, peerIdle, keepAlivePeriod time.Duration) *VerifC01Idle {
	v := VerifC07NewConn()
	c := v.C
	cfg := *c.config
	cfg.MaxIdleTimeout = ownIdle
	cfg.KeepAlivePeriod = keepAlivePeriod
	c.config = &cfg
	c.peerParams = &wire.TransportParameters{
		MaxIdleTimeout:          peerIdle,
		InitialMaxData:          1 << 20,
		ActiveConnectionIDLimit: 2,
		MaxUDPPayloadSize:       1452,
	}
	c.applyTransportParameters()
	c.handshakeComplete = true
	c.handshakeConfirmed = true
	c.timer = time.NewTimer(1000 * time.Hour)
	x := &VerifC01Idle{v: v, rcvPN: map[protocol.EncryptionLevel]protocol.PacketNumber{}}
	x.RecvShort("pad")
	return x
}

func (x *VerifC01Idle) Close() { x.v.Close() }

// frame bytes of a received packet: kind = pad | ping | pingpad | maxdata | ack | ackping.
// "ack" acknowledges the newest registered ack-eliciting packet of that level (false if there is none).
func (x *VerifC01Idle) payload(kind string, l protocol.EncryptionLevel) ([]byte, bool) {
	var b []byte
	appendAck := func() bool {
		for i := len(x.unacked) - 1; i >= 0; i-- {
			r := x.unacked[i]
			if r.Level != l {
				continue
			}
			f := &wire.AckFrame{AckRanges: []wire.AckRange{{Smallest: r.PN, Largest: r.PN}}}
			var err error
			b, err = f.Append(b, protocol.Version1)
			if err != nil {
				return false
			}
			var rest []VerifC07Reg // older packets of this level are never acknowledged
			for _, o := range x.unacked {
				if o.Level != l {
					rest = append(rest, o)
				}
			}
			x.unacked = rest
			return true
		}
		return false
	}
	switch kind {
	case "pad":
		b = append(b, 0, 0, 0)
	case "ping":
		b = append(b, 1)
	case "pingpad":
		b = append(b, 0, 1, 0, 0)
	case "maxdata":
		if l != protocol.Encryption1RTT {
			return nil, false
		}
		b, _ = (&wire.MaxDataFrame{MaximumData: 1 << 20}).Append(b, protocol.Version1)
	case "ack":
		if !appendAck() {
			return nil, false
		}
	case "ackping":
		if !appendAck() {
			return nil, false
		}
		b = append(b, 1)
	default:
		return nil, false
	}
	return b, true
}

// RecvShort: a 1-RTT packet with the given frames arrives now.
func (x *VerifC01Idle) RecvShort(kind string) (string, bool) {
	data, ok := x.payload(kind, protocol.Encryption1RTT)
	if !ok {
		return "", false
	}
	pn := x.rcvPN[protocol.Encryption1RTT]
	x.rcvPN[protocol.Encryption1RTT]++
	if _, _, err := x.v.C.handleUnpackedShortHeaderPacket(verifC07Src, pn, data, protocol.ECNNon, monotime.Now(), nil); err != nil {
		return "E", true
	}
	return "ok", true
}

// RecvLong: a Handshake packet with the given frames arrives now.
func (x *VerifC01Idle) RecvLong(kind string) (string, bool) {
	l := protocol.EncryptionHandshake
	data, ok := x.payload(kind, l)
	if !ok {
		return "", false
	}
	pn := x.rcvPN[l]
	x.rcvPN[l]++
	p := &unpackedPacket{
		hdr: &wire.ExtendedHeader{
			Header:          wire.Header{Type: protocol.PacketTypeHandshake, Version: protocol.Version1, DestConnectionID: verifC07Src, SrcConnectionID: verifC07Dest},
			PacketNumber:    pn,
			PacketNumberLen: protocol.PacketNumberLen2,
		},
		encryptionLevel: l,
		data:            data,
	}
	if err := x.v.C.handleUnpackedLongHeaderPacket(p, protocol.ECNNon, monotime.Now(), 0, protocol.ByteCount(len(data)+20)); err != nil {
		return "E", true
	}
	return "ok", true
}

func (x *VerifC01Idle) note(regs []VerifC07Reg, ae bool) {
	if ae {
		x.unacked = append(x.unacked, regs...)
	}
}

// SendShort: a 1-RTT packet (PING if ae, else ACK-only) is registered as sent now
// through the real registerPackedShortHeaderPacket.
func (x *VerifC01Idle) SendShort(ae bool) {
	c := x.v.C
	sp := shortHeaderPacket{
		PacketNumber:    c.sentPacketHandler.PopPacketNumber(protocol.Encryption1RTT),
		PacketNumberLen: protocol.PacketNumberLen2,
		DestConnID:      verifC07Dest,
		Length:          50,
	}
	if ae {
		sp.Frames = []ackhandler.Frame{{Frame: &wire.PingFrame{}}}
	} else {
		sp.Ack = &wire.AckFrame{AckRanges: []wire.AckRange{{Smallest: 0, Largest: 0}}}
	}
	from := len(x.v.rec.regs)
	c.registerPackedShortHeaderPacket(sp, protocol.ECNNon, monotime.Now())
	x.note(x.v.rec.regs[from:], ae)
}

// SendCoalesced: a datagram with a Handshake packet (if hs != 0) and a 1-RTT packet (if short != 0) is registered
// as sent now through the real sendPackedCoalescedPacket; 1 = ACK-only, 2 = ack-eliciting.
func (x *VerifC01Idle) SendCoalesced(hs, short int) (string, bool) {
	c := x.v.C
	if hs == 0 && short == 0 {
		return "", false
	}
	now := monotime.Now()
	packet := &coalescedPacket{buffer: getPacketBuffer()}
	total := 0
	frames := func(k int) []ackhandler.Frame {
		if k == 2 {
			return []ackhandler.Frame{{Frame: &wire.PingFrame{}}}
		}
		return nil
	}
	ack := func(k int) *wire.AckFrame {
		if k == 1 {
			return &wire.AckFrame{AckRanges: []wire.AckRange{{Smallest: 0, Largest: 0}}}
		}
		return nil
	}
	if hs != 0 {
		packet.longHdrPackets = append(packet.longHdrPackets, &longHeaderPacket{
			header: &wire.ExtendedHeader{
				Header:          wire.Header{Type: protocol.PacketTypeHandshake, Version: protocol.Version1, DestConnectionID: verifC07Dest, SrcConnectionID: verifC07Src},
				PacketNumber:    c.sentPacketHandler.PopPacketNumber(protocol.EncryptionHandshake),
				PacketNumberLen: protocol.PacketNumberLen2,
			},
			frames: frames(hs), ack: ack(hs), length: 100,
		})
		total += 100
	}
	if short != 0 {
		packet.shortHdrPacket = &shortHeaderPacket{
			PacketNumber:    c.sentPacketHandler.PopPacketNumber(protocol.Encryption1RTT),
			PacketNumberLen: protocol.PacketNumberLen2,
			DestConnID:      verifC07Dest,
			Frames:          frames(short), Ack: ack(short), Length: 50,
		}
		total += 50
	}
	packet.buffer.Data = append(packet.buffer.Data, make([]byte, total)...)
	from := len(x.v.rec.regs)
	err := c.sendPackedCoalescedPacket(packet, protocol.ECNNon, now)
	for _, r := range x.v.rec.regs[from:] {
		if (r.Level == protocol.EncryptionHandshake && hs == 2) || (r.Level == protocol.Encryption1RTT && short == 2) {
			x.unacked = append(x.unacked, r)
		}
	}
	if err != nil {
		return "E", true
	}
	return "ok", true
}

// VerifC01FireCap bounds the wait of Fire (and with it the virtual time a case can consume).
const VerifC01FireCap = 100 * time.Second

// Fire calls the real maybeResetTimer and reports after how long the connection timer fires, with the loss-detection
// and ACK alarms out of the picture (fresh received-packet handler, no loss timeout): what is left is the idle deadline
// (hard-blocked: idle only) or the keep-alive / idle deadline (not blocked). capped: the timer had not fired after
// VerifC01FireCap. Also reports PTO (3*PTO is the floor of the idle timeout). Must run inside a synctest bubble.
func (x *VerifC01Idle) Fire(blocked bool) (fire, pto time.Duration, capped bool) {
	c := x.v.C
	savedRPH, savedBlocked := c.receivedPacketHandler, c.blocked
	defer func() { c.receivedPacketHandler, c.blocked = savedRPH, savedBlocked }()
	c.receivedPacketHandler = *ackhandler.NewReceivedPacketHandler(c.logger)
	x.v.rec.lossOverride, x.v.rec.loss = true, 0
	defer func() { x.v.rec.lossOverride = false }()
	c.pacingDeadline = 0
	c.blocked = blockModeNone
	if blocked {
		c.blocked = blockModeHardBlocked
	}
	c.timer = time.NewTimer(1000 * time.Hour)
	start := time.Now()
	c.maybeResetTimer()
	limit := time.NewTimer(VerifC01FireCap)
	defer limit.Stop()
	pto = c.rttStats.PTO(true)
	select {
	case <-c.timer.C:
		return time.Since(start), pto, false
	case <-limit.C:
		c.timer.Stop()
		return VerifC01FireCap, pto, true
	}
}
